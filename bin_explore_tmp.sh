#!/bin/bash
# usage: families count seed
.build/harness/debug/mqharness explore --families $1 --count $2 --seed $3 --traces .build/tmp/t.txt --json .build/tmp/j.json --replays .build/tmp/replays 2>&1 | grep -v "^MONITOR" | tail -3
.build/harness/debug/mqharness explore --families $1 --count $2 --seed $3 --replays .build/tmp/replays 2>&1 | grep "^MONITOR" | sed 's/replay=[^ ]*//' | sort | uniq -c | sort -rn | head -20
lean/.lake/build/bin/mqdrv core < .build/tmp/t.txt | cut -c1-260 | grep -v "^OK" | grep -v "^$" | head -${4:-12}
