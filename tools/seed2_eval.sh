#!/bin/bash
# usage: seed_eval.sh <pid> [tier] [other-pids...] — applies /verif/seeded/<pid>/patch.diff to /repo, runs the check(s), reverts
pid=$1; tier=${2:-quick}; shift; shift
cd /repo || exit 2
git diff --quiet || { echo "/repo not clean"; exit 2; }
git apply /verif/seeded/${pid}_2/patch.diff || { echo "patch does not apply"; exit 2; }
cd /verif
for p in $pid "$@"; do
  echo "--- check $p ($tier) on seeded $pid"
  VERIF_TIER=$tier bin/check $p --tier $tier 2>&1 | grep -E "^(OK|VIOLATION|KNOWN|#)" | cut -c1-400
done
git -C /repo checkout -- .
# rebuild harness against the clean tree so later runs start clean
(cd /verif/harness && cargo build 2>&1 | tail -1)
