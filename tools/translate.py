#!/usr/bin/env python3
"""Regenerates lean/MQ/Gen/*.lean (and the probe's main.rs) from /repo's current sources; run on every check."""
import os, subprocess, sys
here = os.path.dirname(os.path.abspath(__file__))
rc = subprocess.call([sys.executable, os.path.join(here, "traits.py")])
if rc != 0:
    sys.exit(rc)
arith = os.path.join(here, "arith.py")
if os.path.exists(arith):
    rc = subprocess.call([sys.executable, arith])
sys.exit(rc)
