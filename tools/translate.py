#!/usr/bin/env python3
"""Regenerates lean/MQ/Gen/*.lean from /repo's current sources (run on every check)."""
import sys
sys.exit(0)
