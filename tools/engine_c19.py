"""engine_C19 -- the tie of property C19 (Send/Sync of the 12 public handle types) to rustc.

  1. tools/traits.py regenerates MQ/Gen/Traits.lean, MQ/Gen/TraitsVerdict.lean and the probe's main.rs from the
     current sources ($MQ_REPO, default /repo); if a Lean file changed, MQ.Props.C19 is rebuilt (under the lake lock);
  2. the probe crate is built against the current tree (plain build, no --cfg multiqueue2_verif) and run: the real
     Send/Sync booleans of every well-formed entry of the matrix, in one compilation;
  3. the Lean resolver is evaluated on the generated table (`lake env lean`), same matrix;
  4. entry by entry: Lean == rustc (validates translator + resolver; a difference is a broken tie, not a failing
     input) and rustc == specification (a difference IS a failing input: a tiny Rust program that compiles although
     it must not, or the other way round).  Differences that match an open known finding of C19 in
     known_findings.json (regex `signature` on the violation text) become KNOWN-FINDING lines.
Violation text, one per entry:
  C19 send-mismatch handle=<H> payload=<Both|SendOnly|SyncOnly|Neither> closure=<Send|NotSend> rustc_send=<b> spec_send=<b>
  C19 sync-mismatch handle=<H> payload=.. closure=.. rustc_sync=true spec_sync=false
"""
import fcntl, json, os, re, time

PAYLOAD_RUST = {"Both": "u64", "SendOnly": "Cell<u8>", "SyncOnly": "SyncOnly", "Neither": "Rc<u8>"}
CLOSURE_RUST = {"Send": "fn(&{T}) -> u64", "NotSend": "Box<dyn FnMut(&{T}) -> u64>"}
SELFTEST = {("Both", "-"): (True, True), ("SendOnly", "-"): (True, False), ("SyncOnly", "-"): (False, True),
            ("Neither", "-"): (False, False), ("-", "Send"): (True, True), ("-", "NotSend"): (False, False)}


def _self_ok(r):
    exp = SELFTEST.get((r["payload"], r["closure"]))
    return exp is not None and r["send"] == exp[0] and (r["payload"] == "-" or r["sync"] == exp[1])


def _rust_type(h, p, c):
    t = PAYLOAD_RUST[p]
    return f"{h}<u64, {CLOSURE_RUST[c].format(T=t)}, {t}>" if h.endswith("FutUniReceiver") else f"{h}<{t}>"


def _json_lines(out):
    rows = []
    for l in out.splitlines():
        l = l.strip()
        if l.startswith("{") and l.endswith("}"):
            try:
                rows.append(json.loads(l))
            except ValueError:
                pass
    return rows


def _replay(handle, items, repo):
    """items: [(kind, payload, closure, rustc_value, live)] -> a tiny Rust program"""
    o = [f"// C19 violation for handle type {handle} (sources: {repo}).",
         "// This file is the failing input: a Rust program. Save it as /verif/probe/src/bin/c19_replay.rs and run",
         "//   cd /verif/probe && cargo build --bin c19_replay",
         "// Lines marked MUST-NOT-COMPILE are accepted by rustc although C19 forbids them; lines marked MUST-COMPILE are",
         "// rejected although C19 demands them (rustc's verdict was taken from the probe crate, same types).",
         "#![allow(dead_code, unused_imports)]", "use multiqueue2::*;", "use std::cell::Cell;", "use std::rc::Rc;",
         "#[derive(Clone)] struct SyncOnly(*const u8); // Sync, not Send", "unsafe impl Sync for SyncOnly {}",
         "fn needs_send<T: Send>() {}", "fn needs_sync<T: Sync>() {}", "fn main() {"]
    uni, seen = handle.endswith("FutUniReceiver"), set()
    for kind, p, c, val, live in items:
        ty = _rust_type(handle, p, c)
        if (kind, ty) in seen:
            continue
        seen.add((kind, ty))
        why = [w for cond, w in ((p in ("SyncOnly", "Neither"), "payload is not Send"),
                                 (handle.startswith("Broadcast") and p in ("SendOnly", "Neither"), "payload is not Sync (broadcast handle)"),
                                 (uni and c == "NotSend", "stored closure is not Send")) if cond]
        if kind == "sync":
            o.append(f"    needs_sync::<{ty}>(); // MUST-NOT-COMPILE: no handle type may be Sync")
        elif val:
            o.append(f"    needs_send::<{ty}>(); // MUST-NOT-COMPILE: {'; '.join(why)}" + (f" [also observed on a live value: {live}]" if live else ""))
        else:
            o.append(f"    needs_send::<{ty}>(); // MUST-COMPILE: payload{' and closure' if uni else ''} allow Send")
    o += ["}", ""]
    return "\n".join(o)


def engine_C19(tier, seed, ctx):
    sh, VERIF, BUILD, LEAN = ctx["sh"], ctx["VERIF"], ctx["BUILD"], ctx["LEAN"]
    note = ctx["write_replay_note"]
    repo = os.path.abspath(os.environ.get("MQ_REPO", "/repo"))
    cov, violations, known_lines = {"repo": repo}, [], []
    tmp = os.path.join(BUILD, "tmp")
    os.makedirs(tmp, exist_ok=True)
    times = {}

    def fail(name, text, detail):
        violations.append((note("C19", name, detail), text, True))

    def result():
        cov["wall_s"] = {k: round(v, 2) for k, v in times.items()}
        return {"coverage": cov, "violations": violations, "known": known_lines}

    # ---- 1. translator
    t = time.time()
    probe = os.path.join(VERIF, "probe")
    if repo != "/repo":   # scratch copy of the sources: same probe crate, dependency path rewritten
        alt = os.path.join(BUILD, "probe_alt")
        os.makedirs(os.path.join(alt, "src"), exist_ok=True)
        os.makedirs(os.path.join(alt, ".cargo"), exist_ok=True)
        for rel in ("Cargo.toml", "Cargo.lock", ".cargo/config.toml"):
            text = open(os.path.join(probe, rel)).read()
            if rel == "Cargo.toml":
                text = text.replace('path = "/repo"', f'path = "{repo}"')
            if not os.path.exists(os.path.join(alt, rel)) or open(os.path.join(alt, rel)).read() != text:
                open(os.path.join(alt, rel), "w").write(text)
        probe = alt
    rc, out = sh(f"python3 {VERIF}/tools/traits.py --json --repo {repo} --lean {LEAN} --probe {probe}", cwd=VERIF)
    times["translator"] = time.time() - t
    if rc != 0:
        fail("translator", "translator failed on the current sources", "tools/traits.py does not understand the current sources (the Send/Sync table cannot be regenerated):\n" + out)
        return result()
    tr = _json_lines(out)[-1]
    cov["translator"] = {"files": tr["files"], "adts": tr["adts"], "impls": tr["impls"], "regenerated": [os.path.relpath(p, VERIF) for p in tr["changed"]]}
    if any(p.endswith(".lean") for p in tr["changed"]):
        t = time.time()
        with open(os.path.join(BUILD, "lake.lock"), "w") as lk:
            fcntl.flock(lk, fcntl.LOCK_EX)
            rc, out = sh("lake build MQ.Props.C19 2>&1 | tail -40", cwd=LEAN)
        times["lake_rebuild"] = time.time() - t
        if rc != 0 or re.search(r"\berror\b", out):
            fail("proof", "proof obligation failed", "MQ.Props.C19 does not check against the table regenerated from the current sources:\n" + out)

    # ---- 2. rustc
    t = time.time()
    target = os.environ.get("CARGO_TARGET_DIR") or os.path.join(BUILD, "probe")
    rc, out = sh(f"CARGO_NET_OFFLINE=true cargo run -q --offline --target-dir {target} 2>&1", cwd=probe, timeout=1800)
    times["probe"] = time.time() - t
    rust = _json_lines(out)
    if rc != 0 or not rust:
        fail("probe", "probe crate does not build/run against the current tree", f"cargo run in {probe} failed (rc={rc}):\n" + out[-6000:])
        return result()
    bad = [r for r in rust if r["handle"] == "selftest" and not _self_ok(r)]
    nself = sum(r["handle"] == "selftest" for r in rust)
    if bad or nself != len(SELFTEST):
        fail("probe-selftest", "probe self-test failed", "the probe's Send/Sync detection gives wrong answers on types with a known answer:\n" + json.dumps(bad or rust[:8], indent=1))
        return result()
    live = [r for r in rust if "live" in r]
    rmap = {(r["handle"], r["payload"], r["closure"]): r for r in rust if r["handle"] != "selftest" and "live" not in r}

    # ---- 3. Lean evaluation of the generated table (+ axiom audit of the generated verdict theorems)
    t = time.time()
    script = os.path.join(tmp, "c19_eval.lean")
    verdict_src = open(os.path.join(LEAN, "MQ", "Gen", "TraitsVerdict.lean")).read()
    vthms = re.findall(r"^theorem\s+([A-Za-z0-9_'.]+)", verdict_src, re.M)
    open(script, "w").write("import MQ.Gen.TraitsVerdict\nopen MQ\n#eval IO.println (String.intercalate \"\\n\" C19.dump)\n" + "".join(f"#print axioms {x}\n" for x in vthms))
    rc, out = sh(f"lake env lean {script}", cwd=LEAN)
    if rc != 0:   # verdict file not built (wrong hint / failed build): the dump only needs the specification module
        cov["verdict_theorems"] = {"error": out[-1500:]}
        open(script, "w").write("import MQ.Traits.Spec\nopen MQ\n#eval IO.println (String.intercalate \"\\n\" C19.dump)\n")
        rc, out = sh(f"lake env lean {script}", cwd=LEAN)
        vthms = []
    times["lean_eval"] = time.time() - t
    lean = _json_lines(out)
    if rc != 0 or not lean:
        fail("lean-eval", "Lean evaluation of the generated table failed", "lake env lean on the evaluation script failed:\n" + out[-4000:])
        return result()
    if vthms:
        ax = {m.group(1): [a.strip() for a in (m.group(3) or "").split(",") if a.strip()]
              for m in re.finditer(r"'([^']+)' (depends on axioms: \[([^\]]*)\]|does not depend on any axioms)", out.replace("\n", " "))}
        cov["verdict_theorems"] = ax
        badax = {k: v for k, v in ax.items() if set(v) - {"propext", "Classical.choice", "Quot.sound"}}
        if badax or len(ax) != len(vthms) or re.search(r"sorry|native_decide|^axiom ", verdict_src, re.M):
            fail("audit", "axiom audit of the generated verdict theorems failed", json.dumps(ax) + "\n" + verdict_src)
        cov["verdict"] = "C19_table (full theorem proved)" if "MQ.C19_table" in ax else "C19_full_false + C19_failing_exact (sources deviate; see known findings / violations)"
    lmap = {(r["handle"], r["payload"], r["closure"]): r for r in lean}

    # ---- 4. comparisons
    tie, mism = [], []
    if set(lmap) != set(rmap):
        tie.append(f"matrix differs: lean-only={sorted(set(lmap) - set(rmap))[:4]} rustc-only={sorted(set(rmap) - set(lmap))[:4]}")
    nwf = compared = 0
    for k in sorted(set(lmap) & set(rmap), key=lambda k: lean.index(lmap[k])):
        l, r = lmap[k], rmap[k]
        if l["wf"] != r["wf"]:
            tie.append(f"{k}: well-formedness lean={l['wf']} probe={r['wf']}")
            continue
        if not r["wf"]:
            continue
        nwf += 1
        for f in ("send", "sync"):
            compared += 1
            if l[f] != r[f]:
                tie.append(f"{_rust_type(*k)}: is{f.capitalize()} resolver={l[f]} rustc={r[f]}")
        if r["send"] != l["spec_send"]:
            mism.append(("send", k, r["send"], f"C19 send-mismatch handle={k[0]} payload={k[1]} closure={k[2]} rustc_send={str(r['send']).lower()} spec_send={str(l['spec_send']).lower()}"))
        if r["sync"] != l["spec_sync"]:
            mism.append(("sync", k, r["sync"], f"C19 sync-mismatch handle={k[0]} payload={k[1]} closure={k[2]} rustc_sync={str(r['sync']).lower()} spec_sync={str(l['spec_sync']).lower()}"))
    livenote = {}
    for r in live:   # values built through the public API (real closure capturing an Rc)
        k = (r["handle"], r["payload"], r["closure"])
        if k in lmap:
            compared += 2
            if k in rmap and (r["send"], r["sync"]) != (rmap[k]["send"], rmap[k]["sync"]):
                tie.append(f"{k}: live value ({r['live']}) send/sync={r['send']}/{r['sync']} differs from the type-level probe")
            livenote[k] = r["live"]
    py_fail = sorted(tuple(x) for x in tr["failing"])
    lean_fail = sorted(k for k, l in lmap.items() if l["wf"] and (l["send"] != l["spec_send"] or l["sync"] != l["spec_sync"]))
    if py_fail != lean_fail:
        tie.append(f"translator's verdict hint and the Lean resolver disagree: python={py_fail[:4]} lean={lean_fail[:4]}")
    if tie:
        fail("tie", "resolver/translator disagree with rustc: " + tie[0][:200],
             "The Lean evaluation of the generated Send/Sync table and rustc (probe crate) disagree; the theorems of MQ.Props.C19 are\nnot about the real crate until this is repaired (tools/traits.py or MQ/Traits/Resolver.lean):\n" + "\n".join(tie))

    kpath = ctx.get("known_findings") or os.environ.get("MQ_KNOWN_FINDINGS") or os.path.join(VERIF, "known_findings.json")
    try:
        known = [k for k in json.load(open(kpath)) if k.get("status") == "open" and "C19" in k.get("properties", [])]
    except (OSError, ValueError):
        known = []
    matched, unmatched = {}, {}
    for kind, k, val, text in mism:
        hit = next((kf for kf in known if re.search(kf.get("signature", "$^"), text)), None)
        if hit:
            matched.setdefault(hit["id"], (hit, []))[1].append(text)
        else:
            unmatched.setdefault(k[0], []).append((kind, k[1], k[2], val, livenote.get(k), text))
    for kid, (kf, texts) in matched.items():
        known_lines.append(f"KNOWN-FINDING: property=C19 {kf['what']}")
    for h, items in unmatched.items():
        path = note("C19", h, _replay(h, [x[:5] for x in items], repo) + "\n/* violation lines:\n" + "\n".join(x[5] for x in items) + "\n*/\n")
        violations.append((path, items[0][5] + (f" (+{len(items) - 1} more entries of this handle type)" if len(items) > 1 else ""), False))

    cov.update({
        "matrix_entries": len(lmap), "well_formed_entries": nwf, "booleans_compared_lean_vs_rustc": compared,
        "resolver_rustc_disagreements": len(tie), "spec_mismatches": len(mism),
        "spec_mismatches_known": {kid: len(t) for kid, (_, t) in matched.items()},
        "known_entries": {kid: t for kid, (_, t) in matched.items()},
        "stale_known_findings": [k["id"] for k in known if k["id"] not in matched],
        "live_values": [{k: r[k] for k in ("handle", "live", "send", "sync")} for r in live],
        "evaluations": nwf, "distinct_nontrivial": nwf,
        "rule": "complete matrix: 12 handle types x payload {Send+Sync, Send only, Sync only, neither} x closure {Send, not Send}; "
                "instantiations violating the struct's own bounds do not exist in Rust and are left out; every remaining entry is decided by rustc "
                "(probe crate, one compilation) and by the Lean resolver on the regenerated table, and both are compared with C19_spec",
        "samples": [f"{_rust_type(*k)}: rustc Send={rmap[k].get('send')} Sync={rmap[k].get('sync')} spec Send={lmap[k]['spec_send']}" for k in list(lmap)[:96:13] if k in rmap],
    })
    return result()
