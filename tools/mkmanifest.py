#!/usr/bin/env python3
"""Writes /verif/MANIFEST.json. The per-property level is derived from what exists:
category `proof` only when lean/MQ/Props/<id>.lean contains checked theorems."""
import json, os, re

V = os.path.dirname(os.path.dirname(os.path.abspath(__file__)))

TEXT = {
    "C01": ("Core ghost log/deliveries: every stream's delivery list is the log segment between its start and its position, for all reachable states (RingInv); tie: event-level correspondence + exactly-once monitor",
            "invariant proof over the micro-step model + event correspondence"),
    "C02": ("one total order = the ghost log; per-stream segments, per-handle subsequences, claim step inside the call interval; tie: as C01 + order monitor", "invariant proof + event correspondence"),
    "C03": ("window invariant head <= pos s + N and tail-cache soundness for all reachable states; validWrap arithmetic; tie: event correspondence + window monitor", "invariant proof + event correspondence"),
    "C04": ("PinInv, inductive over every label: pin counter = number of consumers in a pinned section of the slot; a producer past the pin check and a consumer in a validated pinned read are never on one slot; an unpinned (sole) reader is on the current position; what a consumer read is still in the slot when it clones; the torn flag is never set (broadcast queues, F1/F12 exclusions, no futures conversions; after the repair of F16, which the proof attempt exposed); view closures and returned clones see the logged value; tie: payload type that yields inside Clone/view/Drop and self-checks, family pin with scripted schedules", "invariant proof + event correspondence"),
    "C05": ("drop-site frame (only 4 program points drop, one value each), overwritten value already consumed by every registered stream (ring invariant), both destructor loops drop each written slot / each unconsumed position exactly once (induction over the loop, any state); tie: payload birth/clone/drop ledger of the harness on every real execution + all teardown orders + sequential differential; F5 known, F12 repaired (family kf12 kept as regression)", "invariant + loop-induction proofs (Lean) + ledger monitor on real executions"),
    "C06": ("quiescent states of Core abstract to Spec states; tie: quiescent fill/drain probe after every concurrent run", "refinement at quiescence + probe"),
    "C07": ("DiscInv, inductive over every label (with the handle accounting MInv): writers is and stays 0 between the writers load and the report, the tag is and stays missing after the second tag load; in the state from which Disconnected is returned no sender handle is counted, no send is in flight, the stream is at head and has delivered the whole log since its start (shared, single and view paths); Spec: the end is stable; tie: disc family + end monitor", "invariant proof + event correspondence"),
    "C08": ('WakeInv (MQ/Inv/Wake*.lean): in every reachable state of a BlockingWait queue a consumer waiting on the condvar whose condition holds has a pending notifier, which stays pending until its notify_all releases every waiter (inductive over all labels; hypothesis: the condvar mutex is mutual exclusion); plus the arithmetic of wait::check (true when published or no writers, false on a fresh slot), the (seq, slot) pairing and the yield loops; tie: event correspondence incl. lock/cvwait/cvnotify events, arithmetic differential on check, hang verdicts of the scheduler', 'invariant proof (Lean, no-lost-wakeup) + arithmetic differential + event correspondence + hang verdicts'),
    "C09": ("sequential refinement: every API call run solo from a quiescent state returns what Spec returns; tie: the property is itself a differential — exhaustive short + random long call sequences, real API vs Spec", "refinement proof + sequential differential"),
    "C10": ("new stream starts at the parent's position at the snapshot; window facts preserved when the snapshot is still current at publication (known finding F1 otherwise); tie: streams family", "invariant proof (partial: F1) + event correspondence"),
    "C11": ("removed stream is not in the current group; unsubscribe's boolean; tie: streams family + sequential differential", "invariant proof + event correspondence"),
    "C12": ("ModeInv: handle accounting (writers/num_consumers = counted handles, Uni/Single/view handle is the only counted one, one thread per handle) is an invariant of every label of every execution without the two futures conversions, so the single-writer/single-consumer fast paths are exclusive (ModeOK proved) and the C01-C07 ring theorems need no mode hypothesis there; clone/drop steps leave the ring untouched; tie: churn family", "invariant proof + event correspondence"),
    "C13": ("NRInv, inductive over every label incl. the removal of the last stream: the no-reader flag is raised only when the stream list is empty, then no receiver handle is counted anywhere and an empty list is final; a send that starts afterwards returns Disconnected without touching the ring; tie: sequential differential + fut parking race", "invariant proof + differential"),
    "C14": ("WakeInv for the futures wait: a consumer task parked on the list whose condition holds has a pending notifier that stays pending until it has drained the list (hypothesis: the list lock is mutual exclusion); park re-checks under the lock, notify drains, sink parks only after a locked Full, poll on Empty notifies producers; producers' side (space available => notifier pending) is covered by hang verdicts only; tie: event correspondence + hang verdicts", 'invariant proof (Lean, no-lost-wakeup for parked consumers) + protocol step theorems + hang verdicts'),
    "C15": ("Sink/Stream programs refine the same Spec steps as the plain calls; bounded own steps of poll/start_send; tie: fut family + sequential differential", "refinement + event correspondence"),
    "C16": ("no stream list and no position block is released twice (each enters the retirement pipeline at most once); epoch invariant proved inductive over every label of the micro-step model: a dereferenced group and the position blocks of its streams are never released; a released batch needs every registered token at the epoch, which a holder's token is not; retired objects are never reachable again; under explicit hypotheses (ring StepOK, mutex mutual exclusion, handle ownership); tie: every manager event (locks, try_locks, epoch, tokens, signal bits) compared with the model on real executions + use-after-free / double-free monitor with quarantined deallocation", "invariant proof (Lean, EpochInv over RingInv+MgrInv) + event correspondence + allocation-ledger monitor"),
    "C17": ("invariant of the epoch manager (mutex ownership, epochs, batch never overwritten) and conservation of the retirement pipeline (multiset of waiting+pending+released = multiset passed to free) for every execution with mutual-exclusion mutexes; teardown empties both lists; tie: every lock/try_lock/epoch/token event compared with the model + counting allocator on real histories (teardown to zero, churn plateaus)", "invariant proof (Lean) + event correspondence + allocation counting"),
    "C18": ("strictly decreasing natural-number measure on every own step of a try operation, for arbitrary states of the other threads; proved for every state (reachable or not) of the other threads; tie: event-level correspondence incl. solo / freeze-then-solo schedules of the real code, whose step bound is the monitor", "termination measure proof + solo-run correspondence"),
    "C19": ("auto-trait table generated from the sources, resolver in Lean, theorem by decide over the whole finite table; tie: probe crate evaluates Send/Sync with rustc for the same matrix", "decide over the generated finite table + rustc probe"),
}

def main():
    checks = []
    for i in range(1, 20):
        pid = f"C{i:02d}"
        props = os.path.join(V, "lean", "MQ", "Props", pid + ".lean")
        thms = re.findall(r"^theorem\s+(\S+)", open(props).read(), re.M) if os.path.exists(props) else []
        text, tech = TEXT[pid]
        status = open(os.path.join(V, "levels", pid + ".txt")).read().strip() if os.path.exists(os.path.join(V, "levels", pid + ".txt")) else ""
        if thms:
            cat = "proof"
            note = f"{len(thms)} Lean theorems in lean/MQ/Props/{pid}.lean checked by the kernel on every run. " + status
        else:
            cat = "exploration"
            note = "INTERIM: the Lean theorems for this property are not yet checked in; the check currently decides on the ties (model/code correspondence) and the monitors alone. " + status
        checks.append({
            "property_id": pid,
            "quick_cmd": f"bin/check {pid} --tier quick",
            "thorough_cmd": f"bin/check {pid} --tier thorough",
            "evidence_file": f"/verif/evidence/{pid}.json",
            "replay_cmd_template": f"bin/check {pid} --replay {{path}}",
            "engine": "lean-core+harness",
            "level_claimed": {"category": cat, "text": text, "design_ref": f"DESIGN.md section 6, {pid}"},
            "level_note": note + " Trusted: Lean kernel; hand-written model tied by event-level correspondence under a deterministic scheduler (SC, no weak memory); harness and shims.",
            "technique": tech if thms else "event-level model/code correspondence + property monitors (Lean theorems pending)",
        })
    m = {
        "version": 1,
        "setup_cmd": "bin/setup",
        "hooks": {
            "guard": "multiqueue2_verif",
            "enable": "RUSTFLAGS=\"--cfg multiqueue2_verif\" (set in /verif/harness/.cargo/config.toml; the harness depends on /repo by path)",
            "baseline_off_cmd": "cd /repo && cargo test --workspace --no-fail-fast --offline",
            "source_commits": [l.split()[0] for l in os.popen("git -C /repo log --oneline --grep='^verif hooks'").read().splitlines()],
            "add_only": True,
        },
        "engines": [
            {"name": "lean-core", "path": "/verif/lean", "serves_properties": [f"C{i:02d}" for i in range(1, 19)], "kind_free_text": "Lean 4 models (Core micro-step LTS, Spec) + theorems + compiled trace acceptor"},
            {"name": "harness", "path": "/verif/harness", "serves_properties": [f"C{i:02d}" for i in range(1, 19)], "kind_free_text": "Rust: deterministic scheduler over the real crate built with --cfg multiqueue2_verif, scenario generators, monitors"},
            {"name": "lean-traits", "path": "/verif/lean/MQ/Gen", "serves_properties": ["C19"], "kind_free_text": "generated Send/Sync table + resolver + decide"},
        ],
        "checks": checks,
        "not_applicable": [],
        "notes": "See DESIGN.md. Known findings: known_findings.json. Fixed defects are `fix:` commits in /repo.",
    }
    json.dump(m, open(os.path.join(V, "MANIFEST.json"), "w"), indent=1)

if __name__ == "__main__":
    main()
