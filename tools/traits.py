#!/usr/bin/env python3
"""traits.py -- Send/Sync table translator for property C19.

Reads the crate in $MQ_REPO (default /repo), starting at src/lib.rs and following `mod x;`, as it is
compiled WITHOUT --cfg multiqueue2_verif, and regenerates

  <lean>/MQ/Gen/Traits.lean         every struct/enum reachable from the 12 public handle types (type
                                    parameters, declared Send/Sync bounds, field types as a type-expression
                                    AST) and every `unsafe impl .. Send/Sync for X` with its bounds;
  <lean>/MQ/Gen/TraitsVerdict.lean  the state-dependent theorems: `C19_table : C19_full` when the table
                                    meets the specification, else `C19_full_false` + the exact list of
                                    failing entries.  The verdict is only a hint computed by the python
                                    twin of the resolver below; the Lean kernel checks it (a wrong hint
                                    makes the build fail, it cannot make a false theorem pass);
  <probe>/src/main.rs               the rustc probe for the same matrix (ill-formed instantiations left out).

Anything it does not understand is an error (exit 2, message on stderr); nothing is written then.
Usage: traits.py [--repo DIR] [--lean DIR] [--probe DIR] [--json]     (--json: dump the table + verdict)
"""
import json, os, re, sys

HERE = os.path.dirname(os.path.abspath(__file__))
VERIF = os.path.dirname(HERE)

HANDLES = ["BroadcastSender", "BroadcastReceiver", "BroadcastUniReceiver", "BroadcastFutSender",
           "BroadcastFutReceiver", "BroadcastFutUniReceiver", "MPMCSender", "MPMCReceiver", "MPMCUniReceiver",
           "MPMCFutSender", "MPMCFutReceiver", "MPMCFutUniReceiver"]
PAYLOADS = [("Both", "both", True, True, "u64"), ("SendOnly", "sendOnly", True, False, "Cell<u8>"),
            ("SyncOnly", "syncOnly", False, True, "SyncOnly"), ("Neither", "neither", False, False, "Rc<u8>")]
CLOSURES = [("Send", "send", True, True, "fn(&{T}) -> u64"), ("NotSend", "notSend", False, False, "Box<dyn FnMut(&{T}) -> u64>")]

# constructors that are not defined in the crate, by last path segment -> rule of the Lean resolver
STD = {}
for _n in "usize isize u8 u16 u32 u64 u128 i8 i16 i32 i64 i128 bool char f32 f64 str String Ordering Task Condvar Duration Instant".split():
    STD[_n] = "scalar"
for _n in "AtomicUsize AtomicIsize AtomicBool AtomicPtr AtomicU8 AtomicU16 AtomicU32 AtomicU64 AtomicI8 AtomicI16 AtomicI32 AtomicI64".split():
    STD[_n] = "atomic"
STD.update(Arc="arc", Cell="cell", UnsafeCell="cell", RefCell="cell", Mutex="mutex", PhantomData="phantom",
           Box="own", Vec="own", VecDeque="own", Option="own", Rc="rc")
ARITY = dict(Arc=1, Cell=1, UnsafeCell=1, RefCell=1, Mutex=1, PhantomData=1, Box=1, Vec=1, VecDeque=1, Option=1, Rc=1, AtomicPtr=1)
CFG_TRUE = {("target_pointer_width", "64"), ("target_arch", "x86_64"), ("target_os", "linux"), ("target_endian", "little")}
CFG_KEYS = {"target_pointer_width", "target_arch", "target_os", "target_endian"}


class Err(Exception):
    pass


# ------------------------------------------------------------------ tokens
TOK = re.compile(r"""
   (?P<ws>\s+) | (?P<lc>//[^\n]*) | (?P<bc>/\*)
 | (?P<raw>b?r(?P<h>\#*)") | (?P<str>b?") | (?P<chr>b?'(?:\\(?:x[0-9a-fA-F]{2}|u\{[0-9a-fA-F_]+\}|.)|[^\\'])')
 | (?P<life>'[A-Za-z_][A-Za-z0-9_]*) | (?P<id>(?:r\#)?[A-Za-z_][A-Za-z0-9_]*) | (?P<num>[0-9][A-Za-z0-9_]*(?:\.[0-9][A-Za-z0-9_]*)?)
 | (?P<p>::|->|=>|[-+*/%^!&|=<>@.,;:\#$?~\[\](){}])
""", re.X | re.S)


def tokenize(src, fname):
    out, i, line = [], 0, 1
    while i < len(src):
        m = TOK.match(src, i)
        if not m:
            raise Err(f"{fname}:{line}: cannot tokenize at {src[i:i+20]!r}")
        k, j = m.lastgroup, m.end()
        if k == "h":
            k = "raw"
        if k == "bc":
            d = 1
            while d:
                n = re.compile(r"/\*|\*/").search(src, j)
                if not n:
                    raise Err(f"{fname}:{line}: unterminated block comment")
                d += 1 if n.group() == "/*" else -1
                j = n.end()
        elif k == "raw":
            e = src.find('"' + m.group("h"), j)
            if e < 0:
                raise Err(f"{fname}:{line}: unterminated raw string")
            j = e + 1 + len(m.group("h"))
        elif k == "str":
            n = re.compile(r'(?:[^"\\]|\\.)*"', re.S).match(src, j)
            if not n:
                raise Err(f"{fname}:{line}: unterminated string")
            j = n.end()
        if k in ("raw", "str"):
            out.append(("str", src[i:j], line))
        elif k not in ("ws", "lc", "bc"):
            out.append((k, m.group(), line))
        line += src.count("\n", i, j)
        i = j
    return out


OPEN, CLOSE = {"(": ")", "[": "]", "{": "}"}, {")", "]", "}"}


class P:
    """cursor over a token list"""

    def __init__(self, toks, fname, i=0, end=None):
        self.t, self.f, self.i, self.end = toks, fname, i, len(toks) if end is None else end

    def eof(self):
        return self.i >= self.end

    def peek(self, k=0):
        return self.t[self.i + k][1] if self.i + k < self.end else None

    def kind(self, k=0):
        return self.t[self.i + k][0] if self.i + k < self.end else None

    def line(self):
        return self.t[min(self.i, len(self.t) - 1)][2] if self.t else 0

    def err(self, msg):
        ctx = " ".join(x[1] for x in self.t[self.i:min(self.i + 12, self.end)])
        raise Err(f"{self.f}:{self.line()}: {msg} (at `{ctx}`)")

    def next(self):
        if self.eof():
            self.err("unexpected end of input")
        self.i += 1
        return self.t[self.i - 1][1]

    def eat(self, s):
        if self.peek() == s and self.kind() != "str":
            self.i += 1
            return True
        return False

    def expect(self, s):
        if not self.eat(s):
            self.err(f"expected `{s}`")

    def ident(self):
        if self.kind() != "id":
            self.err("expected an identifier")
        return self.next()

    def group(self):
        """at an opening bracket: returns a sub-cursor over its contents and moves past the closing one"""
        o = self.next()
        start, d = self.i, 1
        while d:
            if self.eof():
                self.err(f"unbalanced `{o}`")
            k, s, _ = self.t[self.i]
            if k == "p" and s in OPEN:
                d += 1
            elif k == "p" and s in CLOSE:
                d -= 1
            self.i += 1
        return P(self.t, self.f, start, self.i - 1)

    def angle(self):
        """at `<`: sub-cursor over the generic list; `->` and `=>` are single tokens, so `>` always closes"""
        self.expect("<")
        start, d = self.i, 1
        while d:
            if self.eof():
                self.err("unbalanced `<`")
            k, s, _ = self.t[self.i]
            if k == "p" and s in OPEN:
                self.group()
                continue
            if k == "p" and s == "<":
                d += 1
            elif k == "p" and s == ">":
                d -= 1
            self.i += 1
        return P(self.t, self.f, start, self.i - 1)

    def split(self, sep):
        """split the rest of this cursor at top-level `sep` (brackets and angles balanced)"""
        parts, start, d = [], self.i, 0
        while not self.eof():
            k, s, _ = self.t[self.i]
            if k == "p" and s in OPEN:
                self.group()
                continue
            if k == "p" and s == "<":
                d += 1
            elif k == "p" and s == ">":
                d -= 1
            elif k == "p" and s == sep and d == 0:
                parts.append(P(self.t, self.f, start, self.i))
                start = self.i + 1
            self.i += 1
        if start < self.end:
            parts.append(P(self.t, self.f, start, self.end))
        return parts

    def text(self):
        return " ".join(x[1] for x in self.t[self.i:self.end])


# ------------------------------------------------------------------ cfg
def cfg_eval(p):
    """three-valued: True / False / None (not decidable here)"""
    name = p.ident()
    if name in ("not", "all", "any"):
        vals = [cfg_eval(q) for q in p.group().split(",")]
        if name == "not":
            if len(vals) != 1:
                p.err("cfg(not(..)) takes one predicate")
            return None if vals[0] is None else not vals[0]
        if name == "all":
            return False if False in vals else (None if None in vals else True)
        return True if True in vals else (None if None in vals else False)
    if p.eat("="):
        val = p.next().strip('"')
        return ((name, val) in CFG_TRUE) if name in CFG_KEYS else (False if name == "feature" else None)
    return {"multiqueue2_verif": False, "test": False, "debug_assertions": True, "unix": True, "windows": False}.get(name)


def attrs(p):
    """consumes outer/inner attributes; returns the conjunction of the #[cfg] ones"""
    val = True
    while p.peek() == "#":
        p.next()
        p.eat("!")
        if p.peek() != "[":
            p.err("malformed attribute")
        g = p.group()
        name = g.peek()
        if name == "cfg":
            g.next()
            v = cfg_eval(g.group())
            val = False if (v is False or val is False) else (None if (v is None or val is None) else True)
        elif name == "path":
            p.err("#[path] is not supported")
        elif name == "cfg_attr":
            body = g.text()
            if re.search(r"\b(path|derive|cfg)\b", body.split(",", 1)[-1]):
                p.err("cfg_attr with path/derive/cfg is not supported")
    return val


def visibility(p):
    if p.eat("pub") and p.peek() == "(" and p.peek(1) in ("crate", "super", "self", "in"):
        p.group()
    elif p.peek() == "crate" and p.peek(1) != "::":
        p.next()


# ------------------------------------------------------------------ types and bounds
AUTO = ("Send", "Sync")


def parse_path(p):
    """a::b::C<args> or Fn(A) -> R; returns (segments, type-args of the last segment)"""
    segs, args = [], []
    p.eat("::")
    while True:
        if p.peek() == "Self":
            p.err("`Self` types are not supported")
        segs.append(p.ident())
        if args:
            p.err("generic arguments in the middle of a path are not supported")
        if p.peek() == "::" and p.peek(1) == "<":
            p.next()
        if p.peek() == "<":
            for a in p.angle().split(","):
                if a.kind() == "life" and a.end - a.i == 1:
                    continue
                if a.kind() == "id" and a.peek(1) == "=":
                    a.err("associated type bindings are not supported")
                if a.kind() in ("num", "str") or a.peek() == "{":
                    a.err("const generic arguments are not supported")
                args.append(parse_type_all(a))
        elif p.peek() == "(" and segs[-1] in ("Fn", "FnMut", "FnOnce"):
            for a in p.group().split(","):
                parse_type_all(a)
            if p.eat("->"):
                parse_type(p)
            return segs, []
        if not p.eat("::"):
            return segs, args


def parse_bounds(p):
    """T: A + B + 'a + ?Sized ...; stops at a token that cannot continue a bound list.
       returns (send, sync, other trait names)"""
    send = sync = False
    others = []
    while True:
        if p.kind() == "life":
            p.next()
        elif p.peek() == "?":
            p.next()
            parse_path(p)
        else:
            par = p.group() if p.peek() == "(" else p
            if par.eat("for"):
                par.angle()
            segs, _ = parse_path(par)
            if segs[-1] in AUTO:
                if segs[:-1] not in ([], ["std", "marker"], ["core", "marker"]):
                    p.err(f"unexpected path to {segs[-1]}")
                send, sync = send or segs[-1] == "Send", sync or segs[-1] == "Sync"
            else:
                others.append(segs[-1])
        if not p.eat("+"):
            return send, sync, others
        if p.eof() or p.peek() in (",", ">", "{", "=", ";", ")"):
            return send, sync, others


def parse_type(p):
    if p.eat("*"):
        if p.next() not in ("const", "mut"):
            p.err("expected *const / *mut")
        return ("rawPtr", parse_type(p))
    if p.eat("&"):
        if p.kind() == "life":
            p.next()
        return ("refMut" if p.eat("mut") else "ref", parse_type(p))
    if p.peek() == "[":
        g = p.group()
        parts = g.split(";")
        if len(parts) not in (1, 2):
            g.err("malformed array type")
        return ("std", "own", [parse_type_all(parts[0])])
    if p.peek() == "(":
        g = p.group()
        trailing = g.end > g.i and g.t[g.end - 1][1] == ","
        ts = [parse_type_all(a) for a in g.split(",")]
        return ts[0] if len(ts) == 1 and not trailing else ("std", "own", ts)
    if p.peek() == "for" and p.peek(1) == "<":
        p.next()
        p.angle()
        return parse_type(p)
    if p.peek() in ("fn", "unsafe", "extern"):
        p.eat("unsafe")
        if p.eat("extern") and p.kind() == "str":
            p.next()
        p.expect("fn")
        if p.peek() != "(":
            p.err("malformed fn pointer type")
        p.group()
        if p.eat("->"):
            parse_type(p)
        return ("fnPtr",)
    if p.eat("dyn"):
        s, y, others = parse_bounds(p)
        return ("dynraw", s, y, others)
    if p.kind() == "id" and p.peek() not in ("impl", "_", "mut", "const") or p.peek() == "::":
        segs, args = parse_path(p)
        return ("path", segs, args, p.f, p.line())
    p.err("type syntax not understood")


def parse_type_all(p):
    t = parse_type(p)
    if not p.eof():
        p.err("trailing tokens after a type")
    return t


def parse_generics(p):
    """p at `<` or not; returns list of [name, send, sync, others] for type parameters"""
    out = []
    if p.peek() != "<":
        return out
    for g in p.angle().split(","):
        if g.kind() == "life":
            continue
        if g.peek() == "const":
            g.err("const generics are not supported")
        name = g.ident()
        s = y = False
        others = []
        if g.eat(":") and not g.eof() and g.peek() != "=":
            s, y, others = parse_bounds(g)
        if g.eat("="):
            parse_type(g)
        if not g.eof():
            g.err("generic parameter not understood")
        out.append([name, s, y, others])
    return out


def parse_where(p, params, stops):
    """p just after `where`; merges bounds into params; stops before one of `stops`"""
    while not p.eof() and p.peek() not in stops:
        if p.eat("for"):
            p.angle()
        if p.kind() == "life":
            p.next()
            p.expect(":")
            while p.kind() == "life":
                p.next()
                p.eat("+")
        else:
            simple = p.kind() == "id" and p.peek(1) == ":"
            name = p.peek()
            lhs = parse_type(p)
            p.expect(":")
            s, y, others = parse_bounds(p)
            tgt = [q for q in params if simple and q[0] == name]
            if tgt:
                tgt[0][1], tgt[0][2] = tgt[0][1] or s, tgt[0][2] or y
                tgt[0][3] += others
            elif s or y:
                p.err(f"Send/Sync bound on something that is not a type parameter: {lhs[:2]}")
        if not p.eat(","):
            break
    if not p.eof() and p.peek() not in stops:
        p.err("where clause not understood")


def parse_fields(g, named):
    out = []
    for n, f in enumerate(g.split(",")):
        c = attrs(f)
        if f.eof():
            continue
        if c is None:
            f.err("cannot evaluate #[cfg] on a field")
        visibility(f)
        name = str(n)
        if named:
            name = f.ident()
            f.expect(":")
        text = f.text()
        ty = parse_type_all(f)
        if c:
            out.append((name, ty, text))
    return out


# ------------------------------------------------------------------ items
class Crate:
    def __init__(self, root):
        self.root = root
        self.adts, self.traits, self.aliases, self.impls, self.unsupported, self.files = {}, {}, {}, [], {}, []

    def add(self, table, name, val, p):
        # names are resolved by their last path segment; a name defined twice is only an error when it is used
        dup = [t for t in (self.adts, self.traits, self.aliases, self.unsupported) if name in t]
        for t in dup:
            del t[name]
        if dup:
            table, val = self.unsupported, "defined more than once in the crate (names are resolved without module paths)"
        table[name] = val

    def load(self, path, unknown=False):
        try:
            src = open(path).read()
        except OSError as e:
            raise Err(f"cannot read {path}: {e}")
        rel = os.path.relpath(path, self.root)
        self.files.append(rel)
        base = os.path.basename(path)
        d = os.path.dirname(path) if base in ("lib.rs", "mod.rs", "main.rs") else os.path.splitext(path)[0]
        self.items(P(tokenize(src, rel), rel), d, unknown)

    def skip_body(self, p, scan=True):
        """skips to the end of an item: `;` or a `{..}` block, whichever comes first outside (..)/[..]"""
        while True:
            if p.eof():
                p.err("unterminated item")
            if p.peek() in ("(", "[") and p.kind() == "p":
                p.group()
            elif p.peek() == "{" and p.kind() == "p":
                g = p.group()
                if scan:
                    self.scan_nested(g)
                return
            elif p.next() == ";":
                return

    def skip_semi(self, p):
        while True:
            if p.eof():
                p.err("unterminated item")
            if p.kind() == "p" and p.peek() in OPEN:
                p.group()
            elif p.next() == ";":
                return

    def scan_nested(self, g):
        """inside function / impl bodies: an impl of an auto trait there would still be global"""
        while not g.eof():
            if g.kind() == "id" and g.peek() == "impl":
                j = g.i
                while j < g.end and g.t[j][1] not in ("{", ";"):
                    if g.t[j][1] == "for" and g.t[j - 1][1] in AUTO:
                        g.i = j
                        g.err("impl of Send/Sync in a nested scope is not supported")
                    j += 1
            if g.kind() == "id" and g.peek() in ("struct", "enum", "union") and g.kind(1) == "id" and g.peek(1) in self.wanted_names():
                g.err("nested definition shadows a crate type")
            g.i += 1

    def wanted_names(self):
        return HANDLES

    def items(self, p, moddir, unknown):
        while not p.eof():
            c = attrs(p)
            if p.eof():
                break
            visibility(p)
            line = p.line()
            kw = p.peek()
            if p.kind() != "id":
                p.err("item not understood")
            relevant_unknown = unknown or c is None
            if kw in ("use", "static") or (kw == "extern" and p.peek(1) == "crate") or (kw == "const" and p.peek(1) not in ("fn", "unsafe", "extern", "async")):
                self.skip_semi(p)
            elif kw == "mod":
                p.next()
                name = p.ident()
                if p.eat(";"):
                    if c is False:
                        continue
                    cands = [os.path.join(moddir, name + ".rs"), os.path.join(moddir, name, "mod.rs")]
                    hit = [x for x in cands if os.path.exists(x)]
                    if not hit:
                        p.err(f"file of module `{name}` not found")
                    self.load(hit[0], relevant_unknown)
                else:
                    g = p.group()
                    if c is not False:
                        self.items(g, os.path.join(moddir, name), relevant_unknown)
            elif c is False:
                self.skip_body(p, scan=False) if kw not in ("type",) else self.skip_semi(p)
            elif kw == "type":
                p.next()
                name = p.ident()
                if relevant_unknown:
                    self.add(self.unsupported, name, "type alias under a #[cfg] that cannot be evaluated", p)
                    self.skip_semi(p)
                elif p.peek() == "<":
                    self.add(self.unsupported, name, "generic type alias", p)
                    self.skip_semi(p)
                else:
                    p.expect("=")
                    start = p.i
                    self.skip_semi(p)
                    self.add(self.aliases, name, parse_type_all(P(p.t, p.f, start, p.i - 1)), p)
            elif kw in ("struct", "enum", "union"):
                p.next()
                name = p.ident()
                if relevant_unknown or kw == "union":
                    self.add(self.unsupported, name, "union" if kw == "union" else "definition under a #[cfg] that cannot be evaluated", p)
                    self.skip_body(p)
                    continue
                params = parse_generics(p)
                fields = []
                if p.eat("where"):
                    parse_where(p, params, ("{", ";"))
                if kw == "enum":
                    if p.peek() != "{":
                        p.err("enum body expected")
                    for v in p.group().split(","):
                        vc = attrs(v)
                        if v.eof():
                            continue
                        if vc is None:
                            v.err("cannot evaluate #[cfg] on a variant")
                        vname = v.ident()
                        vf = []
                        if v.peek() in ("(", "{"):
                            named = v.peek() == "{"
                            vf = parse_fields(v.group(), named)
                        if v.eat("="):
                            v.i = v.end
                        if not v.eof():
                            v.err("enum variant not understood")
                        if vc:
                            fields += [(vname + "." + n, t, x) for n, t, x in vf]
                elif p.peek() == "{":
                    fields = parse_fields(p.group(), True)
                elif p.peek() == "(":
                    fields = parse_fields(p.group(), False)
                    if p.eat("where"):
                        parse_where(p, params, (";",))
                    p.expect(";")
                else:
                    p.expect(";")
                self.add(self.adts, name, dict(name=name, kind=kw, params=params, fields=fields, file=p.f, line=line), p)
            elif kw in ("impl", "trait", "auto") or (kw == "unsafe" and p.peek(1) in ("impl", "trait", "auto")):
                unsafe = p.eat("unsafe")
                if p.eat("auto"):
                    p.err("auto traits are not supported")
                if p.eat("trait"):
                    name = p.ident()
                    parse_generics(p)
                    s = y = False
                    others = []
                    if p.eat(":") and p.peek() not in ("{", "where"):
                        s, y, others = parse_bounds(p)
                    if p.eat("where"):
                        me = [["Self", s, y, others]]
                        parse_where(p, me, ("{",))
                        s, y, others = me[0][1:]
                    if p.peek() != "{":
                        p.err("trait header not understood")
                    if relevant_unknown:
                        self.add(self.unsupported, name, "trait under a #[cfg] that cannot be evaluated", p)
                    else:
                        self.add(self.traits, name, (s, y, others), p)
                    self.skip_body(p)
                    continue
                p.expect("impl")
                hstart = p.i
                params = parse_generics(p) if p.peek() == "<" and p.peek(1) != "<" else []
                # header up to the body
                h0 = p.i
                while True:
                    if p.eof():
                        p.err("unterminated impl header")
                    if p.kind() == "p" and p.peek() in ("(", "["):
                        p.group()
                        continue
                    if p.kind() == "p" and p.peek() in ("{", ";"):
                        break
                    p.i += 1
                head = P(p.t, p.f, h0, p.i)
                forpos = None
                q = P(p.t, p.f, h0, p.i)
                d = 0
                while not q.eof():
                    if q.kind() == "p" and q.peek() in ("(", "["):
                        q.group()
                        continue
                    if q.kind() == "p" and q.peek() == "<":
                        d += 1
                    elif q.kind() == "p" and q.peek() == ">":
                        d -= 1
                    elif d == 0 and q.kind() == "id" and q.peek() == "for" and q.peek(1) != "<":
                        forpos = q.i
                        break
                    elif d == 0 and q.kind() == "id" and q.peek() == "where":
                        break
                    q.i += 1
                if forpos is not None:
                    tr = P(p.t, p.f, h0, forpos)
                    neg = tr.eat("!")
                    tr.eat("?")
                    tsegs, _ = parse_path(P(p.t, p.f, tr.i, tr.end))
                    if tsegs[-1] in AUTO:
                        if relevant_unknown:
                            p.err("impl of Send/Sync under a #[cfg] that cannot be evaluated")
                        if neg:
                            tr.err("negative impls are not supported")
                        if tsegs[:-1] not in ([], ["std", "marker"], ["core", "marker"]):
                            tr.err(f"unexpected path to {tsegs[-1]}")
                        rest = P(p.t, p.f, forpos + 1, head.end)
                        selfty = parse_type(rest)
                        if rest.eat("where"):
                            parse_where(rest, params, ())
                        if not rest.eof():
                            rest.err("impl header not understood")
                        self.impls.append(dict(trait=tsegs[-1], params=params, selfty=selfty, file=p.f, line=line, unsafe=unsafe,
                                               text=" ".join(x[1] for x in p.t[hstart - 1 - (1 if unsafe else 0):head.end])))
                self.skip_body(p)
            elif kw == "macro_rules" or (p.kind(1) == "p" and p.peek(1) == "!"):
                start = p.i
                p.next()
                p.expect("!")
                if p.kind() == "id":
                    p.next()
                if p.peek() not in OPEN:
                    p.err("macro invocation not understood")
                br = p.peek()
                g = p.group()
                body = {x[1] for x in g.t[g.i:g.end] if x[0] == "id"}
                if body & {"Send", "Sync", "struct", "enum", "union"} and kw != "macro_rules" or body & {"Send", "Sync"}:
                    p.i = start
                    p.err("macro that may define types or Send/Sync impls is not supported")
                if br != "{":
                    p.eat(";")
            elif kw in ("fn", "const", "unsafe", "extern", "async", "default"):
                self.skip_body(p)
            else:
                p.err("item not understood")


# ------------------------------------------------------------------ resolution
class Table:
    def __init__(self, crate):
        self.c = crate
        self.order, self.ids = [], {}
        for h in HANDLES:
            if h not in crate.adts:
                raise Err(f"public handle type `{h}` not found in the crate")
            self.ids[h] = len(self.order)
            self.order.append(h)
        self.adts = []
        i = 0
        while i < len(self.order):   # breadth first, discovery order
            d = crate.adts[self.order[i]]
            pn = [q[0] for q in d["params"]]
            if len(set(pn)) != len(pn):
                raise Err(f"{d['file']}:{d['line']}: duplicate type parameter")
            self.adts.append(dict(name=d["name"], params=pn, file=d["file"], line=d["line"],
                                  bounds=[(k, q[1], q[2]) for k, q in enumerate(d["params"]) if q[1] or q[2]],
                                  others=[(q[0], q[3]) for q in d["params"] if q[3]],
                                  fields=[(n, self.resolve(t, pn, []), x) for n, t, x in d["fields"]]))
            i += 1
        self.check_acyclic()
        self.impls = []
        for im in crate.impls:
            where = f"{im['file']}:{im['line']}"
            t = im["selfty"]
            if t[0] != "path":
                raise Err(f"{where}: impl of {im['trait']} for a type that is not a plain path")
            name = t[1][-1]
            if name in crate.unsupported:
                raise Err(f"{where}: impl of {im['trait']} for `{name}` ({crate.unsupported[name]})")
            if name not in crate.adts:
                raise Err(f"{where}: impl of {im['trait']} for `{name}`, which is not a struct/enum of the crate")
            if name not in self.ids:
                continue   # not reachable from a handle type
            pn = [q[0] for q in im["params"]]
            args = []
            for a in t[2]:
                if a[0] != "path" or len(a[1]) != 1 or a[2] or a[1][0] not in pn or a[1][0] in args:
                    raise Err(f"{where}: impl of {im['trait']} for `{name}` whose arguments are not distinct type parameters of the impl (specialised impls are not supported)")
                args.append(a[1][0])
            if len(args) != len(self.adts[self.ids[name]]["params"]):
                raise Err(f"{where}: wrong number of type arguments for `{name}`")
            bounds = []
            for q in im["params"]:
                if q[1] or q[2]:
                    if q[0] not in args:
                        raise Err(f"{where}: bound on `{q[0]}`, which does not occur in the implementing type")
                    bounds.append((args.index(q[0]), q[1], q[2]))
            self.impls.append(dict(sync=im["trait"] == "Sync", adt=self.ids[name], bounds=sorted(bounds), where=where, text=im["text"]))
        self.impls.sort(key=lambda i: (i["adt"], i["sync"], i["bounds"]))

    def dyn_of(self, name, seen):
        if name in seen:
            raise Err(f"cyclic supertraits at `{name}`")
        s, y, others = self.c.traits[name]
        for o in others:
            if o in self.c.traits:
                s2, y2 = self.dyn_of(o, seen + [name])
                s, y = s or s2, y or y2
        return s, y

    def resolve(self, t, pn, stack):
        k = t[0]
        if k in ("rawPtr", "ref", "refMut"):
            return (k, self.resolve(t[1], pn, stack))
        if k == "std":
            return ("std", t[1], [self.resolve(a, pn, stack) for a in t[2]])
        if k == "fnPtr":
            return t
        if k == "dynraw":
            s, y = t[1], t[2]
            for o in t[3]:
                if o in self.c.unsupported:
                    raise Err(f"dyn {o}: {self.c.unsupported[o]}")
                if o in self.c.traits:
                    s2, y2 = self.dyn_of(o, [])
                    s, y = s or s2, y or y2
                elif o not in ("Fn", "FnMut", "FnOnce", "Any", "Debug", "Display", "Error"):
                    raise Err(f"dyn {o}: trait not known (supertraits cannot be determined)")
            return ("dyn", s, y)
        _, segs, args, f, line = t
        name, where = segs[-1], f"{f}:{line}"
        if len(segs) == 1 and name in pn:
            if args:
                raise Err(f"{where}: type parameter `{name}` applied to arguments")
            return ("param", pn.index(name))
        rargs = [self.resolve(a, pn, stack) for a in args]
        if name in self.c.unsupported:
            raise Err(f"{where}: type `{name}` is used but not supported: {self.c.unsupported[name]}")
        if name in self.c.aliases:
            if name in stack:
                raise Err(f"{where}: cyclic type alias `{name}`")
            if args:
                raise Err(f"{where}: generic type alias `{name}`")
            return self.resolve(self.c.aliases[name], [], stack + [name])
        if name in self.c.adts:
            if len(rargs) != len(self.c.adts[name]["params"]):
                raise Err(f"{where}: `{name}` takes {len(self.c.adts[name]['params'])} type arguments (defaults are not supported)")
            if name not in self.ids:
                self.ids[name] = len(self.order)
                self.order.append(name)
            return ("adt", self.ids[name], rargs)
        if name in self.c.traits:   # bare trait object (2015 syntax)
            return self.resolve(("dynraw", False, False, [name]), pn, stack)
        if name in STD:
            if ARITY.get(name, 0) != len(rargs):
                raise Err(f"{where}: `{name}` with {len(rargs)} type arguments")
            return ("std", STD[name], rargs)
        raise Err(f"{where}: type `{'::'.join(segs)}` is neither defined in the crate nor in the list of known std types (tools/traits.py STD)")

    def check_acyclic(self):
        def refs(t, acc):
            if t[0] == "adt":
                acc.add(t[1])
            for x in t[1:]:
                if isinstance(x, tuple):
                    refs(x, acc)
                elif isinstance(x, list):
                    for y in x:
                        refs(y, acc)
            return acc
        g = {i: set().union(*[refs(t, set()) for _, t, _ in a["fields"]]) if a["fields"] else set() for i, a in enumerate(self.adts)}
        state = {}

        def visit(i, depth):
            if state.get(i) == 1:
                raise Err(f"recursive type definition through `{self.adts[i]['name']}` is not supported")
            if state.get(i) == 2:
                return
            state[i] = 1
            if depth > 24:
                raise Err("type nesting deeper than the resolver's fuel allows")
            for j in sorted(g[i]):
                visit(j, depth + 1)
            state[i] = 2
        for i in g:
            visit(i, 0)

    # ---- python twin of MQ.Traits.Resolver.eval (only used for the verdict hint and the probe's wf filter)
    def eval(self, t, env):
        k = t[0]
        if k == "param":
            return env[t[1]] if t[1] < len(env) else (False, False)
        if k in ("cls", "dyn"):
            return (t[1], t[2])
        if k == "adt":
            a = [self.eval(x, env) for x in t[2]]
            d = self.adts[t[1]]
            res = []
            for sync in (False, True):
                ims = [i for i in self.impls if i["adt"] == t[1] and i["sync"] == sync]
                if ims:
                    res.append(any(all((not s or a[p][0]) and (not y or a[p][1]) for p, s, y in i["bounds"]) for i in ims))
                else:
                    res.append(all(self.eval(ft, a)[sync] for _, ft, _ in d["fields"]))
            return tuple(res)
        if k == "std":
            a = [self.eval(x, env) for x in t[2]]
            s, y = all(x[0] for x in a), all(x[1] for x in a)
            return {"scalar": (True, True), "atomic": (True, True), "arc": (s and y, s and y), "cell": (s, False),
                    "mutex": (s, s), "phantom": (s, y), "own": (s, y), "rc": (False, False)}[t[1]]
        if k == "rawPtr":
            return (False, False)
        if k == "ref":
            v = self.eval(t[1], env)
            return (v[1], v[1])
        if k == "refMut":
            return self.eval(t[1], env)
        if k == "fnPtr":
            return (True, True)
        raise Err(f"internal: {k}")

    def matrix(self):
        rows = []
        for hi, h in enumerate(HANDLES):
            d = self.adts[hi]
            if d["params"] not in (["T"], ["R", "F", "T"]):
                raise Err(f"{d['file']}:{d['line']}: handle `{h}` has type parameters {d['params']}; expected <T> or <R, F, T>")
            uni = len(d["params"]) == 3
            for p in PAYLOADS:
                for c in CLOSURES:
                    pc, cc = ("cls", p[2], p[3]), ("cls", c[2], c[3])
                    args = [("std", "scalar", []), cc, pc] if uni else [pc]
                    vals = [self.eval(a, []) for a in args]
                    wf = all((not s or vals[i][0]) and (not y or vals[i][1]) for i, s, y in d["bounds"])
                    send, sync = self.eval(("adt", hi, args), [])
                    spec = p[2] and (p[3] or not h.startswith("Broadcast")) and (c[2] or not uni)
                    rows.append(dict(handle=h, payload=p[0], closure=c[0], wf=wf, send=send, sync=sync, spec_send=spec,
                                     ok=(not wf) or (send == spec and not sync), lean=f"⟨.{h}, .{p[1]}, .{c[1]}⟩",
                                     rust=self.rust_type(h, uni, p, c)))
        return rows

    @staticmethod
    def rust_type(h, uni, p, c):
        return f"{h}<u64, {c[4].format(T=p[4])}, {p[4]}>" if uni else f"{h}<{p[4]}>"


# ------------------------------------------------------------------ output
def lean_ty(t):
    k = t[0]
    if k == "param":
        return f".param {t[1]}"
    if k in ("cls", "dyn"):
        return f".{k} {str(t[1]).lower()} {str(t[2]).lower()}"
    if k == "adt":
        return f".adt {t[1]} [{', '.join(lean_ty(x) for x in t[2])}]"
    if k == "std":
        return f".std .{t[1]} [{', '.join(lean_ty(x) for x in t[2])}]"
    if k == "fnPtr":
        return ".fnPtr"
    return f".{k} ({lean_ty(t[1])})"


def lean_bounds(bs):
    return "[" + ", ".join(f"⟨{p}, {str(s).lower()}, {str(y).lower()}⟩" for p, s, y in bs) + "]"


def gen_traits(tb):
    o = ["import MQ.Traits.Resolver",
         "/-! GENERATED by tools/traits.py from the crate sources (plain build, no --cfg multiqueue2_verif). Do not edit.",
         "    adts 0..11 are the 12 public handle types in the fixed order of `MQ.Handle`; the others follow in",
         "    breadth-first discovery order through the field types. `.param i` is the i-th type parameter. -/",
         "namespace MQ.Gen", "open MQ.Traits", "", "def adts : List Adt := ["]
    for i, a in enumerate(tb.adts):
        o.append(f"  /- {i}: {a['file']} -/")
        o.append(f"  {{ name := \"{a['name']}\", params := [{', '.join(json.dumps(p) for p in a['params'])}], bounds := {lean_bounds(a['bounds'])},")
        o.append("    fields := [")
        for k, (n, t, x) in enumerate(a["fields"]):
            o.append(f"      (\"{n}\", {lean_ty(t)})" + ("," if k + 1 < len(a["fields"]) else "") + "  -- " + re.sub(r"\s*(::|<|>|,|\(|\)|;|\[|\]|&)\s*", lambda m: m.group(1) + (" " if m.group(1) in ",;" else ""), x).replace("* const ", "*const ").replace("* mut ", "*mut "))
        o.append("    ] }" + ("," if i + 1 < len(tb.adts) else ""))
    o += ["]", "", "def impls : List Impl := ["]
    for i, im in enumerate(tb.impls):
        o.append(f"  /- {im['where'].split(':')[0]}: {im['text']} -/")
        o.append(f"  {{ sync := {str(im['sync']).lower()}, adt := {im['adt']}, bounds := {lean_bounds(im['bounds'])} }}" + ("," if i + 1 < len(tb.impls) else ""))
    o += ["]", "", "def table : Table := { adts := adts, impls := impls }", "",
          "/-- names of adts 0..11 (tied to `MQ.Handle` by `C19_handles_tied`) -/",
          "def handleNames : List String := [" + ", ".join(json.dumps(h) for h in HANDLES) + "]", "", "end MQ.Gen", ""]
    return "\n".join(o)


def gen_verdict(rows):
    bad = [r for r in rows if not r["ok"]]
    o = ["import MQ.Traits.Spec",
         "/-! GENERATED by tools/traits.py. Do not edit.",
         "    Which of the two theorems is stated is a hint computed by the python twin of the resolver; the",
         "    statements themselves are about `MQ.Gen.table` and are checked by the Lean kernel. -/",
         "namespace MQ", "open Traits", ""]
    if not bad:
        o += ["/-- C19: every well-formed entry of the complete finite table meets the specification. -/",
              "theorem C19_table : C19_full := by decide", "",
              "theorem C19_failing_exact : C19.failing = [] := by decide", ""]
    else:
        w = bad[0]
        o += [f"/-- C19 does not hold for the current sources; witness: {w['rust']}",
              f"    (resolver: Send={str(w['send']).lower()} Sync={str(w['sync']).lower()}; specification: Send={str(w['spec_send']).lower()} Sync=false). -/",
              "theorem C19_full_false : ¬ C19_full := by",
              f"  intro h; exact absurd (h {w['lean']} (by decide) (by decide)) (by decide)", "",
              "/-- exactly these entries fail -/",
              "theorem C19_failing_exact : C19.failing = [",
              ",\n".join(f"    {r['lean']}" for r in bad) + "] := by decide", ""]
    o += ["end MQ", ""]
    return "\n".join(o)


def gen_probe(rows):
    o = ["// GENERATED by /verif/tools/traits.py. Do not edit.",
         "// Prints what rustc decides about Send / Sync for every well-formed entry of the C19 matrix, in one compilation.",
         "// Trick: an inherent method with a `T: Send` bound wins over a trait method of the same name when the bound holds.",
         "#![allow(dead_code, unused_imports, non_camel_case_types)]",
         "use multiqueue2::*;", "use std::cell::Cell;", "use std::marker::PhantomData;", "use std::rc::Rc;", "",
         "struct Probe<T>(PhantomData<T>);",
         "impl<T: Send> Probe<T> { fn is_send(&self) -> bool { true } }",
         "impl<T: Sync> Probe<T> { fn is_sync(&self) -> bool { true } }",
         "trait NotSend { fn is_send(&self) -> bool { false } }",
         "trait NotSync { fn is_sync(&self) -> bool { false } }",
         "impl<T> NotSend for Probe<T> {}", "impl<T> NotSync for Probe<T> {}",
         "fn probe_of<T>(_: &T) -> Probe<T> { Probe(PhantomData) }", "",
         "// The same question for values built through the public API: a real closure that captures an Rc. The value is made",
         "// in a function of its own and handed out as `impl Sized` (auto traits leak through), because the captures of a closure",
         "// are not known yet while the function that contains it is being type-checked (the bound would be 'ambiguous' there).",
         "fn live_mpmc_fut_queue() -> Option<impl Sized> {", "    let rc = Rc::new(1u64);",
         "    mpmc_fut_queue::<u64>(4).1.into_single(move |x: &u64| *x + *rc).ok()", "}",
         "fn live_broadcast_fut_queue() -> Option<impl Sized> {", "    let rc = Rc::new(1u64);",
         "    broadcast_fut_queue::<u64>(4).1.into_single(move |x: &u64| *x + *rc).ok()", "}", "",
         "/// Sync but not Send (and Clone, as the broadcast handles require)",
         "#[derive(Clone)]", "struct SyncOnly(*const u8);", "unsafe impl Sync for SyncOnly {}", "",
         "macro_rules! row {", "    ($h:expr, $p:expr, $c:expr, $t:ty) => {{",
         "        let p = Probe::<$t>(PhantomData);",
         "        println!(\"{{\\\"handle\\\":\\\"{}\\\",\\\"payload\\\":\\\"{}\\\",\\\"closure\\\":\\\"{}\\\",\\\"wf\\\":true,\\\"send\\\":{},\\\"sync\\\":{}}}\", $h, $p, $c, p.is_send(), p.is_sync());",
         "    }};", "}", "", "fn main() {",
         "    // self-test of the trick on types with a known answer",
         "    row!(\"selftest\", \"Both\", \"-\", u64);", "    row!(\"selftest\", \"SendOnly\", \"-\", Cell<u8>);",
         "    row!(\"selftest\", \"SyncOnly\", \"-\", SyncOnly);", "    row!(\"selftest\", \"Neither\", \"-\", Rc<u8>);",
         "    row!(\"selftest\", \"-\", \"Send\", fn(&Rc<u8>) -> u64);", "    row!(\"selftest\", \"-\", \"NotSend\", Box<dyn FnMut(&u64) -> u64>);"]
    for fn, h in (("mpmc_fut_queue", "MPMCFutUniReceiver"), ("broadcast_fut_queue", "BroadcastFutUniReceiver")):
        o += [f"    if let Some(u) = live_{fn}() {{", "        let p = probe_of(&u);",
              f"        println!(\"{{{{\\\"handle\\\":\\\"{h}\\\",\\\"payload\\\":\\\"Both\\\",\\\"closure\\\":\\\"NotSend\\\",\\\"live\\\":\\\"closure capturing Rc<u64>\\\",\\\"wf\\\":true,\\\"send\\\":{{}},\\\"sync\\\":{{}}}}}}\", p.is_send(), p.is_sync());",
              "    }"]
    for r in rows:
        if r["wf"]:
            o.append(f"    row!(\"{r['handle']}\", \"{r['payload']}\", \"{r['closure']}\", {r['rust']});")
        else:
            o.append(f"    println!(\"{{{{\\\"handle\\\":\\\"{r['handle']}\\\",\\\"payload\\\":\\\"{r['payload']}\\\",\\\"closure\\\":\\\"{r['closure']}\\\",\\\"wf\\\":false}}}}\"); // {r['rust']} violates the bounds declared on the struct")
    o += ["}", ""]
    return "\n".join(o)


def write_if_changed(path, text):
    try:
        if open(path).read() == text:
            return False
    except OSError:
        pass
    os.makedirs(os.path.dirname(path), exist_ok=True)
    tmp = path + ".tmp%d" % os.getpid()
    with open(tmp, "w") as f:
        f.write(text)
    os.replace(tmp, path)
    return True


def build(repo):
    c = Crate(os.path.join(repo, "src"))
    c.load(os.path.join(repo, "src", "lib.rs"))
    tb = Table(c)
    return tb, tb.matrix()


def main(argv):
    opt = dict(repo=os.environ.get("MQ_REPO", "/repo"), lean=os.path.join(VERIF, "lean"), probe=os.path.join(VERIF, "probe"))
    dump = False
    it = iter(argv)
    for a in it:
        if a == "--json":
            dump = True
        elif a in ("--repo", "--lean", "--probe"):
            opt[a[2:]] = next(it, None) or sys.exit("traits.py: missing value for " + a)
        else:
            sys.stderr.write(__doc__)
            return 2
    try:
        tb, rows = build(opt["repo"])
        outs = [(os.path.join(opt["lean"], "MQ", "Gen", "Traits.lean"), gen_traits(tb)),
                (os.path.join(opt["lean"], "MQ", "Gen", "TraitsVerdict.lean"), gen_verdict(rows)),
                (os.path.join(opt["probe"], "src", "main.rs"), gen_probe(rows))]
    except Err as e:
        sys.stderr.write(f"traits.py: error: {e}\n")
        return 2
    changed = [p for p, t in outs if write_if_changed(p, t)]
    if dump:
        print(json.dumps(dict(repo=opt["repo"], files=tb.c.files, adts=len(tb.adts), impls=[i["text"] for i in tb.impls], changed=changed,
                              failing=[[r["handle"], r["payload"], r["closure"]] for r in rows if not r["ok"]],
                              rows=[{k: r[k] for k in ("handle", "payload", "closure", "wf", "send", "sync", "spec_send", "rust")} for r in rows])))
    return 0


if __name__ == "__main__":
    sys.exit(main(sys.argv[1:]))
