#!/bin/bash
# usage: seed_confirm.sh <pid>   — confirms a seeded change in /tmp/seed/<pid>, stores it under /verif/seeded/<pid>/
pid=$1; wt=/tmp/seed2/$pid; out=/verif/seeded/${pid}_2
lc=$(echo $pid | tr A-Z a-z)
mkdir -p $out
cd $wt || exit 2
git diff -- src > $out/patch.diff
demo=$(ls tests/seed2_${lc}*.rs examples/seed2_${lc}*.rs 2>/dev/null | head -1)
[ -z "$demo" ] && { echo "no demonstration file"; exit 2; }
cp $demo $out/
name=$(basename $demo .rs)
export CARGO_NET_OFFLINE=true
echo "== demo WITH change"; timeout 300 cargo test --offline --test $name 2>&1 | grep -E "^test result|panicked|FAILED" | head -5 > $out/demo_with.txt; cat $out/demo_with.txt
git stash push -q -- src
echo "== demo WITHOUT change"; timeout 300 cargo test --offline --test $name 2>&1 | grep -E "^test result|panicked|FAILED" | head -5 > $out/demo_without.txt; cat $out/demo_without.txt
git stash pop -q
echo "== suite WITH change"; mv $demo /tmp/seed2_demo_$pid.rs
timeout 1500 cargo test --offline 2>&1 | grep -E "^test result|FAILED|failed" | head -8 > $out/suite_with.txt; cat $out/suite_with.txt
mv /tmp/seed2_demo_$pid.rs $demo
