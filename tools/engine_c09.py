"""Sequential differential engine: the real API, one call at a time, against the Lean model
`MQ.Spec` (`mqharness seq ... | mqdrv spec`).

    engine_seq(pid, tier, seed, ctx) -> {"coverage": {...}, "violations": [(replay, text, False)], "known": [...]}

Serves C09 (every disagreement / panic / hang), and the sequential halves of
C13 (sends after the last receiver is gone), C11 (unsubscribe booleans),
C15 (calls on futures handles) and C05 (payload ledger).

ctx keys: sh(cmd, cwd=None, timeout=..)->(rc,out), VERIF, BUILD, HBIN, DRV, LEAN,
          write_replay_note(pid, name, text)->path
"""
import json, os, re, time

FUT_CALLS = ("start_send", "poll", "poll_complete", "try_recv", "recv")
F5_PREFIX = "F5 two streams on a move-out queue (MPMCFutUniReceiver::add_stream_with / into_multi): "


def _known(verif):
    p = os.path.join(verif, "known_findings.json")
    try:
        return json.load(open(p))
    except Exception:
        return []


def _match_known(pid, text, known):
    for k in known:
        if k.get("status") == "open" and pid in k.get("properties", []):
            try:
                if re.search(k.get("signature", "$^"), text):
                    return k
            except re.error:
                pass
    return None


def _passes(pid, tier, seed):
    """(tag, harness arguments) per pass"""
    quick = tier != "thorough"
    ps = []
    if pid == "C09":
        depth = 4 if quick else 5
    else:
        depth = 3 if quick else 4
    ps.append(("x", f"--mode exhaustive --depth {depth} --caps 0,1,2,3 --rt null --seed {seed}"))
    n = 150 if quick else 3000
    # production path (no runtime registered at all); a handful of 100 ms polls on an empty queue
    ps.append(("r", f"--mode random --count {n} --seed {seed} --caps 0,1,2,3,4,5,7,8,9,16 --rt none --slow-polls {4 if quick else 20}"))
    # pass-through runtime (sleep/yield are no-ops): polls on an empty queue are free
    ps.append(("n", f"--mode random --count {n // 3} --seed {seed + 7} --caps 0,1,2,3,4,6,8 --rt null"))
    if pid == "C05":
        ps.append(("f5", f"--mode f5 --count {40 if quick else 400} --seed {seed} --caps 1,2,4 --rt null"))
    return ps


def _classify_mismatch(line):
    """MISMATCH <name> line <k>: op=<op> real=<..> spec=<..> flavour=.. kind=..  ->  dict"""
    m = re.match(r"MISMATCH (\S+) line (\d+): op=(.*?) real=(.*?) spec=(.*?)(?: flavour=(\S+) kind=(\S+))?$", line)
    if not m:
        return {"name": line.split(" ")[1] if " " in line else "?", "op": "", "real": "", "spec": "", "fut": False, "props": {"C09"}, "line": line}
    name, k, op, real, spec, flavour, kind = m.groups()
    opname = op.split(" ")[0]
    fut = kind == "fut"
    props = {"C09"}
    r0, s0 = real.split(" ")[0], spec.split(" ")[0]
    if opname in ("try_send", "start_send") and ({r0, s0} & {"disc", "err"}):
        props.add("C13")
    if opname == "unsub" and ({r0, s0} & {"true", "false"}):
        props.add("C11")
    if fut and opname in FUT_CALLS:
        props.add("C15")
    if opname == "ledger":
        props.add("C05")
    return {"name": name, "op": op, "real": real, "spec": spec, "fut": fut, "props": props, "line": line}


def _extract(path, names):
    """text of the named sequences from the harness output"""
    want = set(names)
    out, cur, buf = {}, None, []
    if not want:
        return out
    with open(path, errors="replace") as f:
        for l in f:
            if l.startswith("=== "):
                if cur in want:
                    out[cur] = "".join(buf)
                    if len(out) == len(want):
                        return out
                cur, buf = l[4:].strip(), [l]
            elif cur in want:
                buf.append(l)
    if cur in want:
        out[cur] = "".join(buf)
    return out


def engine_seq(pid, tier, seed, ctx):
    sh, VERIF, BUILD, HBIN, DRV = ctx["sh"], ctx["VERIF"], ctx["BUILD"], ctx["HBIN"], ctx["DRV"]
    tmp = os.path.join(BUILD, "tmp", "seq_" + pid)
    os.makedirs(tmp, exist_ok=True)
    rdir = os.path.join(VERIF, "replays")
    os.makedirs(rdir, exist_ok=True)
    known = _known(VERIF)
    violations, known_lines = [], []
    cov = {"seq_sequences": 0, "seq_calls": 0, "seq_distribution": {}, "seq_samples": [], "seq_passes": [],
           "seq_mismatches": 0, "seq_monitor_lines": 0}
    seen_replays = set()

    def report(prop_text, replay, f5=False):
        text = (F5_PREFIX if f5 else "") + prop_text
        k = _match_known(pid, text, known)
        if k:
            known_lines.append(f"KNOWN-FINDING: property={pid} {k['what']}")
            return
        if replay in seen_replays:
            return
        seen_replays.add(replay)
        violations.append((replay, text, False))

    for tag, hargs in _passes(pid, tier, seed):
        f5 = tag == "f5"
        out = os.path.join(tmp, f"seq_{tag}.txt")
        js = os.path.join(tmp, f"seq_{tag}.json")
        for p in (out, js):
            try:
                os.remove(p)
            except OSError:
                pass
        t0 = time.time()
        rc, hout = sh(f"{HBIN} seq {hargs} --out {out} --json {js} --replays {rdir} --tag {pid}{tag}", cwd=VERIF, timeout=3600)
        t1 = time.time()
        data = {}
        if os.path.exists(js):
            try:
                data = json.load(open(js))
            except Exception:
                data = {}
        # 1. the harness' own monitors (panic, hang, ledger, C13/C11/C15 shadow checks)
        for l in hout.splitlines():
            m = re.match(r"MONITOR property=(\S+) replay=(\S+) :: (.*)$", l)
            if not m:
                continue
            cov["seq_monitor_lines"] += 1
            p, replay, text = m.groups()
            if p == pid or (pid == "C09" and p == "C09"):
                report(f"sequential monitor {p}: {text}", replay, f5)
        if rc != 0:
            # aborted (watchdog: a call did not return; or a crash): whatever was written is still compared below
            mine_before = len(violations) + len(known_lines)
            if not any(re.match(rf"MONITOR property={pid} ", l) for l in hout.splitlines()):
                path = ctx["write_replay_note"](pid, f"seq-{tag}-harness", f"mqharness seq {hargs} did not complete (rc={rc}):\n{hout[-3000:]}")
                violations.append((path, f"sequential harness pass '{tag}' did not complete (rc={rc}): {hout.strip().splitlines()[-1][:200] if hout.strip() else ''}", True))
        # 2. the Lean reference model on every sequence
        mism, oks, summary = [], 0, None
        if os.path.exists(out):
            rc2, dout = sh(f"{DRV} spec < {out}", cwd=VERIF, timeout=3600)
            for l in dout.splitlines():
                if l.startswith("OK "):
                    oks += 1
                elif l.startswith("MISMATCH "):
                    mism.append(_classify_mismatch(l))
                elif l.startswith("SUMMARY "):
                    summary = dict(x.split("=") for x in l.split(" ")[1:] if "=" in x)
            if summary is None or (data and int(summary.get("sequences", -1)) != int(data.get("sequences", -2)) and rc == 0):
                path = ctx["write_replay_note"](pid, f"seq-{tag}-driver", f"`mqdrv spec` did not account for every sequence of pass '{tag}' (rc={rc2}):\nharness: {data.get('sequences')} sequences\ndriver: {summary}\n{dout[-2000:]}")
                violations.append((path, f"mqdrv spec failed on pass '{tag}'", True))
        t2 = time.time()
        mine = [m for m in mism if pid in m["props"] or (f5 and pid == "C05")]
        cov["seq_mismatches"] += len(mism)
        if mine:
            texts = _extract(out, [m["name"] for m in mine[:20]])
            for m in mine[:20]:
                body = texts.get(m["name"], "")
                note = f"# real API and MQ.Spec disagree ({'/'.join(sorted(m['props']))}):\n# {m['line']}\n# re-run: mqharness seq --replay <this file> ; mqdrv spec < <this file>\n{body}"
                path = ctx["write_replay_note"](pid, f"seq-{m['name']}", note)
                report(f"real API and Spec disagree at '{m['op']}': real='{m['real']}' spec='{m['spec']}' (sequence {m['name']})", path, f5)
        # coverage
        cov["seq_sequences"] += int(data.get("sequences", 0))
        cov["seq_calls"] += int(data.get("calls", 0))
        for k, v in data.get("stats", {}).items():
            cov["seq_distribution"][k] = cov["seq_distribution"].get(k, 0) + v
        for s in data.get("samples", [])[:2]:
            if len(cov["seq_samples"]) < 6:
                cov["seq_samples"].append(s[:500])
        cov["seq_passes"].append({
            "tag": tag, "args": hargs, "sequences": data.get("sequences", 0), "calls": data.get("calls", 0),
            "harness_s": round(t1 - t0, 2), "driver_s": round(t2 - t1, 2), "driver_ok": oks, "driver_mismatch": len(mism),
            "failing_sequences": data.get("failing_sequences", 0), "rt": data.get("rt", ""),
        })
        if "alphabet" in data and tag == "x":
            cov["seq_alphabet"] = data["alphabet"]
        try:
            os.remove(out)
        except OSError:
            pass
    cov["seq_rule"] = ("every sequence is run on the real API (Ctx::exec, one thread, no scheduler; calls that could block are never issued; "
                       "watchdog 20 s) and re-run line by line through MQ.Spec.step by `mqdrv spec`; results compared as strings; "
                       "after each sequence every remaining handle is dropped in a random order and the payload ledger is checked")
    return {"coverage": cov, "violations": violations, "known": list(dict.fromkeys(known_lines))}


# entry points looked up by tools/engines.py (`engine_<pid>(tier, seed, ctx)`)
def engine_C09(tier, seed, ctx):
    return engine_seq("C09", tier, seed, ctx)


def engine_C05(tier, seed, ctx):
    return engine_seq("C05", tier, seed, ctx)


def engine_C11(tier, seed, ctx):
    return engine_seq("C11", tier, seed, ctx)


def engine_C13(tier, seed, ctx):
    return engine_seq("C13", tier, seed, ctx)


def engine_C15(tier, seed, ctx):
    return engine_seq("C15", tier, seed, ctx)
