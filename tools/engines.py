"""Property-specific engines (beyond the common event correspondence + monitors)."""
import json, os, re
from engine_c19 import engine_C19
from engine_c09 import engine_C09, engine_C05, engine_C11, engine_C13, engine_C15


def run(pid, tier, seed, ctx):
    f = globals().get("engine_" + pid)
    return f(tier, seed, ctx) if f else None


def engine_C17(tier, seed, ctx):
    """counting global allocator: teardown returns everything, memory is flat under handle/stream churn"""
    cases = 400 if tier == "quick" else 4000
    cycles = 20000 if tier == "quick" else 100000
    rc, out = ctx["sh"](f"{ctx['HBIN']} alloc --seed {seed} --cases {cases} --cycles {cycles}", cwd=ctx["VERIF"], timeout=3000)
    viol = []
    mons = [l for l in out.splitlines() if l.startswith("MONITOR property=C17")]
    if rc != 0 and not mons:
        path = ctx["write_replay_note"]("C17", "alloc-engine", "the allocation engine failed:\n" + out[-2000:])
        viol.append((path, "allocation engine failed", True))
    if mons:
        path = ctx["write_replay_note"]("C17", "alloc", "mqharness alloc --seed %d --cases %d --cycles %d\n" % (seed, cases, cycles) + "\n".join(mons[:20]))
        viol.append((path, mons[0][len("MONITOR property=C17 :: "):], False))
    samples = [l[7:] for l in out.splitlines() if l.startswith("SAMPLE ")]
    m1 = re.search(r"teardown cases=(\d+) leaking=(\d+)", out)
    m2 = re.search(r"churn runs=(\d+) cycles=(\d+)", out)
    cov = {
        "alloc_teardown_histories": int(m1.group(1)) if m1 else 0,
        "alloc_teardown_leaking": int(m1.group(2)) if m1 else -1,
        "alloc_churn_runs": int(m2.group(1)) if m2 else 0,
        "alloc_churn_cycles_each": int(m2.group(2)) if m2 else 0,
        "alloc_samples": samples,
        "alloc_rule": "counting #[global_allocator] in the harness: (a) random histories on all four queue kinds x capacities 0..9, every handle dropped in a random order, live heap must return to the level before creation; (b) 4 kinds of handle/stream churn x handles operating every 1/4/16/64 cycles x with/without an early drop of a non-last handle: live bytes after warm-up vs after 10x more cycles must not differ by more than 16 KiB, and teardown returns everything",
    }
    return {"coverage": cov, "violations": viol, "known": []}


def engine_C18(tier, seed, ctx):
    """solo runs: at a random point every other thread is frozen and one thread runs its try_* call alone"""
    count = 400 if tier == "quick" else 6000
    tmp = os.path.join(ctx["BUILD"], "tmp", "C18")
    os.makedirs(tmp, exist_ok=True)
    js = os.path.join(tmp, "solo.json")
    tr = os.path.join(tmp, "solo_traces.txt")
    rdir = os.path.join(ctx["VERIF"], "replays")
    rc, out = ctx["sh"](f"{ctx['HBIN']} explore --families ring,view,churn,scan,streams --count {count} --seed {seed} --solo 1 --traces {tr} --json {js} --replays {rdir} --tag C18solo", cwd=ctx["VERIF"], timeout=3000)
    data = json.load(open(js)) if os.path.exists(js) else {"violations": [], "runs": 0}
    viol = []
    for v in data["violations"]:
        if v["prop"] == "C18":
            viol.append((v["replay"], "monitor C18: " + v["msg"], False))
    solo_steps = []
    begun = 0
    if os.path.exists(tr):
        for l in open(tr):
            if l.startswith("info solo ends after"):
                solo_steps.append(int(l.split()[4]))
            elif l.startswith("info solo") and "begins" in l:
                begun += 1
        os.remove(tr)
    cov = {"solo_runs": data.get("runs", 0), "solo_try_calls_run_alone": begun,
           "solo_max_own_steps": max(solo_steps) if solo_steps else 0, "solo_step_bound": 150,
           "solo_rule": "Busy/Yielding waits only; at a random global step all threads but one are frozen wherever they are (possibly mid-operation, holding a claim or a pin) and the chosen thread's current try_send/try_recv/try_recv_view must return within 150 of its own steps"}
    return {"coverage": cov, "violations": viol[:3], "known": []}
