"""Property-specific engines (beyond the common event correspondence + monitors)."""
import json, os, re
from engine_c19 import engine_C19
from engine_c09 import engine_C09, engine_C05, engine_C11, engine_C13, engine_C15


def run(pid, tier, seed, ctx):
    f = globals().get("engine_" + pid)
    return f(tier, seed, ctx) if f else None


def engine_C17(tier, seed, ctx):
    """counting global allocator: teardown returns everything, memory is flat under handle/stream churn"""
    cases = 400 if tier == "quick" else 4000
    cycles = 20000 if tier == "quick" else 100000
    rc, out = ctx["sh"](f"{ctx['HBIN']} alloc --seed {seed} --cases {cases} --cycles {cycles}", cwd=ctx["VERIF"], timeout=3000)
    viol = []
    mons = [l for l in out.splitlines() if l.startswith("MONITOR property=C17")]
    if rc != 0 and not mons:
        path = ctx["write_replay_note"]("C17", "alloc-engine", "the allocation engine failed:\n" + out[-2000:])
        viol.append((path, "allocation engine failed", True))
    if mons:
        path = ctx["write_replay_note"]("C17", "alloc", "mqharness alloc --seed %d --cases %d --cycles %d\n" % (seed, cases, cycles) + "\n".join(mons[:20]))
        viol.append((path, mons[0][len("MONITOR property=C17 :: "):], False))
    samples = [l[7:] for l in out.splitlines() if l.startswith("SAMPLE ")]
    m1 = re.search(r"teardown cases=(\d+) leaking=(\d+)", out)
    m2 = re.search(r"churn runs=(\d+) cycles=(\d+)", out)
    cov = {
        "alloc_teardown_histories": int(m1.group(1)) if m1 else 0,
        "alloc_teardown_leaking": int(m1.group(2)) if m1 else -1,
        "alloc_churn_runs": int(m2.group(1)) if m2 else 0,
        "alloc_churn_cycles_each": int(m2.group(2)) if m2 else 0,
        "alloc_samples": samples,
        "alloc_rule": "counting #[global_allocator] in the harness: (a) random histories on all four queue kinds x capacities 0..9, every handle dropped in a random order, live heap must return to the level before creation; (b) 4 kinds of handle/stream churn x handles operating every 1/4/16/64 cycles x with/without an early drop of a non-last handle: live bytes after warm-up vs after 10x more cycles must not differ by more than 16 KiB, and teardown returns everything",
    }
    return {"coverage": cov, "violations": viol, "known": []}
