"""Property-specific engines (beyond the common event correspondence + monitors)."""
import json, os, re
from engine_c19 import engine_C19
from engine_c09 import engine_C09, engine_C05, engine_C11, engine_C13, engine_C15


def run(pid, tier, seed, ctx):
    f = globals().get("engine_" + pid)
    return f(tier, seed, ctx) if f else None
