"""Property-specific engines (beyond the common event correspondence + monitors)."""
import json, os, re
from engine_c19 import engine_C19


def run(pid, tier, seed, ctx):
    f = globals().get("engine_" + pid)
    return f(tier, seed, ctx) if f else None
