#!/bin/bash
# usage: seed_batch.sh pid...   confirm (parallel) then evaluate (sequential); writes /verif/seeded/<pid>/eval_quick.txt
for p in "$@"; do
  [ -f /verif/seeded/$p/suite_with.txt ] || /verif/tools/seed_confirm.sh $p > /tmp/seed/confirm_$p.log 2>&1 &
done
wait
for p in "$@"; do
  /verif/tools/seed_eval.sh $p quick 2>&1 | grep -v "Finished\|WARNING" > /verif/seeded/$p/eval_quick.txt
  echo "$p: $(grep -E '^(OK|VIOLATION)' /verif/seeded/$p/eval_quick.txt | head -1)"
done
