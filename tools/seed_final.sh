#!/bin/bash
# re-evaluates every seeded change against the current machinery (quick tier of the property it targets);
# writes seeded/<dir>/eval_final.txt and a summary to stdout. /repo must be clean; it is restored after each seed.
cd /repo || exit 2
git diff --quiet || { echo "/repo not clean"; exit 2; }
for d in /verif/seeded/C*/; do
  name=$(basename $d)
  pid=${name%%_*}
  [ -f $d/patch.diff ] || continue
  git -C /repo apply $d/patch.diff || { echo "$name: patch does not apply"; continue; }
  out=$(cd /verif && bin/check $pid --tier quick 2>&1 | grep -E "^(OK|VIOLATION|KNOWN|#)" | cut -c1-300)
  git -C /repo checkout -- .
  echo "$out" > $d/eval_final.txt
  if echo "$out" | grep -q "^VIOLATION"; then
    if echo "$out" | grep "^VIOLATION" | grep -qv "no-failing-input-found"; then verdict="DETECTED(concrete)"; else verdict="DETECTED(tie-only)"; fi
  else verdict="MISSED"; fi
  echo "$name: $verdict"
done
(cd /verif/harness && CARGO_NET_OFFLINE=true cargo build 2>&1 | tail -1)
