//! Deterministic baton scheduler: managed OS threads perform exactly one hooked operation at a
//! time; the controller decides who goes next. Every run is a pure function of
//! (scenario, schedule).
use multiqueue2::verif_hooks::{Event, Kind, Runtime};
use std::collections::HashMap;
use std::sync::atomic::Ordering;
use std::sync::{Arc, Condvar, Mutex};

#[derive(Clone, Debug)]
pub enum ThState {
    NotStarted,
    Running,
    AtPoint(Event),
    CvBlocked { cv: usize, mutex: usize, notified: bool },
    TaskParked(usize),
    Done,
}

#[derive(Clone, Debug)]
pub enum Rec {
    /// hooked shared-memory event with its result
    Ev { tid: usize, ev: Event, res: usize, ok: bool },
    Note { tid: usize, ev: Event },
    Call { tid: usize, text: String },
    Ret { tid: usize, text: String },
    Spawn { tid: usize, child: usize },
    Notify { tid: usize, task: usize },
    Park { tid: usize, task: usize },
    Info { text: String },
}

pub struct Th {
    pub state: ThState,
    pub steps: usize,
    /// consecutive read-only steps (spin detection)
    pub ro_steps: usize,
    pub in_call: bool,
    pub call_steps: usize,
    pub in_try: bool,
}

pub struct Inner {
    pub threads: Vec<Th>,
    pub trace: Vec<Rec>,
    pub granted: Option<usize>,
    pub owner: HashMap<usize, usize>,
    pub notified: HashMap<usize, bool>,
    pub last_ev_idx: HashMap<usize, usize>,
    pub total_steps: usize,
    pub schedule: Vec<usize>,
    pub abort: bool,
    pub writes_since: usize,
}

pub struct Sched {
    pub inner: Mutex<Inner>,
    pub cv: Condvar,
}

thread_local! {
    pub static TID: std::cell::Cell<usize> = std::cell::Cell::new(usize::MAX);
}

pub fn my_tid() -> usize {
    TID.with(|t| t.get())
}

fn is_write(k: Kind, ok: bool) -> bool {
    match k {
        Kind::Store | Kind::FetchAdd | Kind::FetchSub | Kind::FetchOr | Kind::FetchAnd => true,
        Kind::Cas | Kind::CasWeak => ok,
        Kind::Lock | Kind::CvNotifyAll | Kind::CvWait => true,
        Kind::TryLock => ok,
        Kind::Tau => true,
        _ => false,
    }
}

impl Sched {
    pub fn new() -> Arc<Sched> {
        Arc::new(Sched {
            inner: Mutex::new(Inner {
                threads: Vec::new(),
                trace: Vec::new(),
                granted: None,
                owner: HashMap::new(),
                notified: HashMap::new(),
                last_ev_idx: HashMap::new(),
                total_steps: 0,
                schedule: Vec::new(),
                abort: false,
                writes_since: 0,
            }),
            cv: Condvar::new(),
        })
    }

    /// Register a new managed thread (called by the controller or by the parent thread while it
    /// holds the baton); returns its tid.
    pub fn register(&self) -> usize {
        let mut g = self.inner.lock().unwrap();
        g.threads.push(Th { state: ThState::NotStarted, steps: 0, ro_steps: 0, in_call: false, call_steps: 0, in_try: false });
        g.threads.len() - 1
    }

    pub fn record(&self, r: Rec) {
        let mut g = self.inner.lock().unwrap();
        g.trace.push(r);
    }

    pub fn call_begin(&self, text: String) {
        let tid = my_tid();
        let mut g = self.inner.lock().unwrap();
        g.threads[tid].in_call = true;
        g.threads[tid].call_steps = 0;
        g.threads[tid].in_try = text.starts_with("try_");
        g.trace.push(Rec::Call { tid, text });
    }

    pub fn call_end(&self, text: String) {
        let tid = my_tid();
        let mut g = self.inner.lock().unwrap();
        g.threads[tid].in_call = false;
        g.threads[tid].in_try = false;
        g.trace.push(Rec::Ret { tid, text });
    }

    pub fn now(&self) -> usize {
        self.inner.lock().unwrap().trace.len()
    }

    fn wait_grant<'a>(&'a self, tid: usize, mut g: std::sync::MutexGuard<'a, Inner>) -> std::sync::MutexGuard<'a, Inner> {
        self.cv.notify_all();
        loop {
            if g.abort {
                drop(g);
                // the run was abandoned (hang verdict / budget): this thread is leaked on purpose,
                // unwinding through the queue's destructors would run unscheduled code
                loop {
                    std::thread::park();
                }
            }
            if g.granted == Some(tid) {
                g.granted = None;
                return g;
            }
            g = self.cv.wait(g).unwrap();
        }
    }

    /// First thing a managed thread does.
    pub fn thread_start(&self, tid: usize) {
        TID.with(|t| t.set(tid));
        let mut g = self.inner.lock().unwrap();
        g.threads[tid].state = ThState::AtPoint(Event {
            kind: Kind::Yield,
            addr: 0,
            ord: None,
            ord2: None,
            a: 0,
            b: 0,
            what: "start",
        });
        let g = self.wait_grant(tid, g);
        drop(g);
    }

    pub fn thread_done(&self, tid: usize) {
        let mut g = self.inner.lock().unwrap();
        g.threads[tid].state = ThState::Done;
        self.cv.notify_all();
    }

    /// A futures task returned NotReady: block until it has been notified.
    pub fn task_park(&self, task: usize) {
        let tid = my_tid();
        let mut g = self.inner.lock().unwrap();
        g.trace.push(Rec::Park { tid, task });
        g.threads[tid].state = ThState::TaskParked(task);
        let mut g = self.wait_grant(tid, g);
        g.notified.insert(task, false);
        g.threads[tid].state = ThState::Running;
    }

    pub fn task_notify(&self, task: usize) {
        let tid = my_tid();
        let mut g = self.inner.lock().unwrap();
        g.notified.insert(task, true);
        g.trace.push(Rec::Notify { tid, task });
    }
}

pub struct Aborted;

pub struct SchedRt(pub Arc<Sched>);

impl Runtime for SchedRt {
    fn before(&self, ev: &Event) {
        let _sus = crate::allocs::Suspend::new();
        let tid = my_tid();
        if tid == usize::MAX {
            return;
        }
        let s = &self.0;
        let mut g = s.inner.lock().unwrap();
        g.threads[tid].state = ThState::AtPoint(ev.clone());
        let mut g = s.wait_grant(tid, g);
        g.threads[tid].state = ThState::Running;
        g.threads[tid].steps += 1;
        g.threads[tid].call_steps += 1;
        g.total_steps += 1;
        let idx = g.trace.len();
        g.trace.push(Rec::Ev { tid, ev: ev.clone(), res: 0, ok: true });
        g.last_ev_idx.insert(tid, idx);
        match ev.kind {
            Kind::Lock => {
                g.owner.insert(ev.addr, tid);
            }
            Kind::CvNotifyAll => {
                let cvaddr = ev.addr;
                for th in g.threads.iter_mut() {
                    if let ThState::CvBlocked { cv, notified, .. } = &mut th.state {
                        if *cv == cvaddr {
                            *notified = true;
                        }
                    }
                }
            }
            _ => {}
        }
    }

    fn after(&self, result: usize, ok: bool) {
        let _sus = crate::allocs::Suspend::new();
        let tid = my_tid();
        if tid == usize::MAX {
            return;
        }
        let s = &self.0;
        let mut g = s.inner.lock().unwrap();
        if let Some(&idx) = g.last_ev_idx.get(&tid) {
            let mut kind = Kind::Yield;
            let mut addr = 0;
            if let Rec::Ev { res, ok: o, ev, .. } = &mut g.trace[idx] {
                *res = result;
                *o = ok;
                kind = ev.kind;
                addr = ev.addr;
            }
            if kind == Kind::TryLock && ok {
                g.owner.insert(addr, tid);
            }
            if is_write(kind, ok) {
                g.threads[tid].ro_steps = 0;
                g.writes_since += 1;
                // somebody changed shared state: everyone may observe something new
                for th in g.threads.iter_mut() {
                    th.ro_steps = 0;
                }
            } else {
                g.threads[tid].ro_steps += 1;
            }
        }
    }

    fn note(&self, ev: &Event) {
        let _sus = crate::allocs::Suspend::new();
        let tid = my_tid();
        let s = &self.0;
        let mut g = s.inner.lock().unwrap();
        if ev.kind == Kind::Unlock {
            g.owner.remove(&ev.addr);
        }
        if ev.kind == Kind::Dealloc {
            crate::allocs::t_forget(ev.addr);
        }
        let t = if tid == usize::MAX { 0 } else { tid };
        g.trace.push(Rec::Note { tid: t, ev: ev.clone() });
    }

    fn cv_block(&self, cv: usize, mutex: usize) {
        let _sus = crate::allocs::Suspend::new();
        let tid = my_tid();
        let s = &self.0;
        let mut g = s.inner.lock().unwrap();
        g.threads[tid].state = ThState::CvBlocked { cv, mutex, notified: false };
        let mut g = s.wait_grant(tid, g);
        g.threads[tid].state = ThState::Running;
        g.owner.insert(mutex, tid);
        g.trace.push(Rec::Info { text: format!("cvwake {}", tid) });
    }
}

#[derive(Clone, Debug)]
pub enum Strategy {
    Random,
    /// PCT: random priorities, `d` priority change points
    Pct { d: usize },
    /// thread `victim` is not scheduled from its `at`-th step on unless nobody else can move
    Stall { victim: usize, at: usize },
    Replay(Vec<usize>),
    /// from global step `start` on, as soon as thread `tid` is inside a try_* call, only that thread runs
    /// until the call returns (every other thread is frozen where it is); at most `bound` own steps
    Solo { start: usize, tid: usize, bound: usize, when_pinned: bool },
    /// freeze the first thread found inside a clone/view body, let the others run `delay` more steps, then run
    /// one thread that is inside a try_* call alone (at most `bound` own steps), then thaw everything
    FreezeThenSolo { delay: usize, bound: usize },
    /// a fixed sequence of phases, then random
    Script(Vec<Ph>),
    /// two holds: `victim` is not scheduled from its `at1`-th step on until nobody else can move (or the others
    /// have made `run1` steps), then runs up to its `at2`-th step, is held again until nobody else can move, and
    /// runs freely afterwards
    Stall2 { victim: usize, at1: usize, run1: usize, at2: usize },
}

/// one phase of a scripted schedule
#[derive(Clone, Debug)]
pub enum Ph {
    /// thread runs this many steps
    Steps(usize, usize),
    /// thread runs while fewer than this many threads exist
    UntilThreads(usize, usize),
    /// thread runs until it cannot move any more (finished or blocked)
    ToEnd(usize),
}

pub struct Rng(pub u64);
impl Rng {
    pub fn next(&mut self) -> u64 {
        // splitmix64
        self.0 = self.0.wrapping_add(0x9E3779B97F4A7C15);
        let mut z = self.0;
        z = (z ^ (z >> 30)).wrapping_mul(0xBF58476D1CE4E5B9);
        z = (z ^ (z >> 27)).wrapping_mul(0x94D049BB133111EB);
        z ^ (z >> 31)
    }
    pub fn below(&mut self, n: usize) -> usize {
        if n == 0 {
            0
        } else {
            (self.next() % n as u64) as usize
        }
    }
    pub fn chance(&mut self, num: usize, den: usize) -> bool {
        self.below(den) < num
    }
}

#[derive(Clone, Debug, PartialEq)]
pub enum Outcome {
    Finished,
    /// no enabled thread but some are blocked / parked
    Deadlock(Vec<usize>),
    /// all live threads spin without any shared write
    Livelock(Vec<usize>),
    Budget,
    /// a try operation did not return within the bound of its own steps while running alone
    SoloExceeded(usize, usize),
}

pub const SPIN_LIMIT: usize = 400;

/// The controller loop. `nthreads_hint` only seeds PCT priorities.
pub fn control(s: &Arc<Sched>, strat: &Strategy, rng: &mut Rng, budget: usize) -> Outcome {
    let mut prio: Vec<u64> = Vec::new();
    let mut change_points: Vec<usize> = Vec::new();
    if let Strategy::Pct { d } = strat {
        for _ in 0..*d {
            change_points.push(rng.below(budget.min(400)));
        }
    }
    let mut replay_pos = 0usize;
    let mut script_pos = 0usize;
    let mut s2_phase = 0usize; // 0 before/at first hold, 1 released, 2 second hold, 3 free
    let mut s2_others = 0usize;
    let mut script_used = 0usize;
    let mut low = 0u64;
    let mut solo_active = false;
    let mut solo_done = false;
    let mut solo_steps = 0usize;
    let mut solo_tid: Option<usize> = None;
    let mut fts_phase = 0usize;
    let mut fts_victim = 0usize;
    let mut fts_until = 0usize;
    let mut fts_solo = 0usize;
    loop {
        let mut g = s.inner.lock().unwrap();
        // wait until nobody is running
        loop {
            let running = g.granted.is_some()
                || g.threads.iter().any(|t| matches!(t.state, ThState::Running | ThState::NotStarted));
            if !running {
                break;
            }
            g = s.cv.wait(g).unwrap();
        }
        while prio.len() < g.threads.len() {
            prio.push(1000 + (rng.next() % 1000));
        }
        let mut enabled: Vec<usize> = Vec::new();
        let mut blocked: Vec<usize> = Vec::new();
        for (i, t) in g.threads.iter().enumerate() {
            match &t.state {
                ThState::AtPoint(ev) => {
                    if ev.kind == Kind::Lock && g.owner.contains_key(&ev.addr) {
                        blocked.push(i);
                    } else {
                        enabled.push(i);
                    }
                }
                ThState::CvBlocked { mutex, notified, .. } => {
                    if *notified && !g.owner.contains_key(mutex) {
                        enabled.push(i);
                    } else {
                        blocked.push(i);
                    }
                }
                ThState::TaskParked(task) => {
                    if *g.notified.get(task).unwrap_or(&false) {
                        enabled.push(i);
                    } else {
                        blocked.push(i);
                    }
                }
                _ => {}
            }
        }
        if enabled.is_empty() {
            if blocked.is_empty() {
                return Outcome::Finished;
            }
            return Outcome::Deadlock(blocked);
        }
        if g.total_steps >= budget {
            return Outcome::Budget;
        }
        // spin detection
        let nonspin: Vec<usize> = enabled.iter().cloned().filter(|&i| g.threads[i].ro_steps < SPIN_LIMIT).collect();
        if nonspin.is_empty() {
            let mut v = enabled.clone();
            v.extend(blocked.iter());
            return Outcome::Livelock(v);
        }
        let soft: Vec<usize> = nonspin.iter().cloned().filter(|&i| g.threads[i].ro_steps < 24).collect();
        let cands = if soft.is_empty() { nonspin.clone() } else { soft };
        let step = g.total_steps;
        // solo mode: a try operation runs alone
        if let Strategy::Solo { start, tid, bound, when_pinned } = strat {
            // `when_pinned`: wait until some thread sits inside a payload clone/view body (it holds a pin or
            // a position) and then run any *other* thread that is inside a try_* call alone
            let mut tid_v = *tid;
            if *when_pinned && !solo_active && !solo_done {
                let frozen: Vec<usize> = g.threads.iter().enumerate().filter(|(_, th)| matches!(&th.state, ThState::AtPoint(e) if e.kind == Kind::Tau && (e.what == "clone_mid" || e.what == "view_mid"))).map(|(i, _)| i).collect();
                let cand: Vec<usize> = (0..g.threads.len()).filter(|i| g.threads[*i].in_try && !frozen.contains(i) && enabled.contains(i)).collect();
                if !frozen.is_empty() && !cand.is_empty() && step >= *start {
                    solo_tid = Some(cand[rng.below(cand.len())]);
                }
            }
            if let Some(st) = solo_tid {
                tid_v = st;
            } else if *when_pinned {
                tid_v = usize::MAX;
            }
            let tid = &tid_v;
            if step >= *start && *tid < g.threads.len() && g.threads[*tid].in_try && !solo_done {
                if !solo_active {
                    solo_active = true;
                    solo_steps = 0;
                    g.trace.push(Rec::Info { text: format!("solo {} begins", tid) });
                }
                if enabled.contains(tid) {
                    solo_steps += 1;
                    if solo_steps > *bound {
                        return Outcome::SoloExceeded(*tid, solo_steps);
                    }
                    g.schedule.push(*tid);
                    g.granted = Some(*tid);
                    g.threads[*tid].state = ThState::Running;
                    drop(g);
                    s.cv.notify_all();
                    continue;
                } else {
                    // blocked on a lock held by a frozen thread: that is waiting for another thread
                    return Outcome::SoloExceeded(*tid, solo_steps);
                }
            } else if solo_active {
                solo_active = false;
                solo_done = true;
                g.trace.push(Rec::Info { text: format!("solo ends after {} steps", solo_steps) });
            }
        }
        if let Strategy::FreezeThenSolo { delay, bound } = strat {
            if fts_phase == 0 {
                if let Some((i, _)) = g.threads.iter().enumerate().find(|(_, th)| matches!(&th.state, ThState::AtPoint(e) if e.kind == Kind::Tau && (e.what == "clone_mid" || e.what == "view_mid"))) {
                    fts_victim = i;
                    fts_phase = 1;
                    fts_until = step + *delay;
                    g.trace.push(Rec::Info { text: format!("freeze {}", i) });
                }
            }
            if fts_phase == 1 && step >= fts_until {
                let cand: Vec<usize> = (0..g.threads.len()).filter(|i| *i != fts_victim && g.threads[*i].in_try && enabled.contains(i)).collect();
                if !cand.is_empty() {
                    fts_solo = cand[rng.below(cand.len())];
                    fts_phase = 2;
                    solo_steps = 0;
                    g.trace.push(Rec::Info { text: format!("solo {} begins", fts_solo) });
                }
            }
            if fts_phase == 2 {
                if g.threads[fts_solo].in_try {
                    if enabled.contains(&fts_solo) {
                        solo_steps += 1;
                        if solo_steps > *bound {
                            return Outcome::SoloExceeded(fts_solo, solo_steps);
                        }
                        g.schedule.push(fts_solo);
                        g.granted = Some(fts_solo);
                        g.threads[fts_solo].state = ThState::Running;
                        drop(g);
                        s.cv.notify_all();
                        continue;
                    } else {
                        return Outcome::SoloExceeded(fts_solo, solo_steps);
                    }
                } else {
                    g.trace.push(Rec::Info { text: format!("solo ends after {} steps", solo_steps) });
                    fts_phase = 3;
                }
            }
        }
        let pick = match strat {
            Strategy::FreezeThenSolo { .. } => {
                let others: Vec<usize> = cands.iter().cloned().filter(|&i| !(fts_phase == 1 && i == fts_victim)).collect();
                if others.is_empty() { fts_phase = 3; cands[rng.below(cands.len())] } else { others[rng.below(others.len())] }
            }
            Strategy::Random => cands[rng.below(cands.len())],
            Strategy::Pct { .. } => {
                let p = *cands.iter().max_by_key(|&&i| prio[i]).unwrap();
                if change_points.contains(&step) {
                    low += 1;
                    prio[p] = 100 - low.min(99);
                }
                // yielding / sleeping threads drop in priority
                if let ThState::AtPoint(ev) = &g.threads[p].state {
                    if matches!(ev.kind, Kind::Yield | Kind::Sleep) && ev.what != "start" {
                        low += 1;
                        prio[p] = 100 - low.min(99);
                    }
                }
                p
            }
            Strategy::Stall { victim, at } => {
                let others: Vec<usize> = cands
                    .iter()
                    .cloned()
                    .filter(|&i| !(i == *victim && g.threads[i].steps >= *at))
                    .collect();
                if others.is_empty() {
                    cands[rng.below(cands.len())]
                } else {
                    others[rng.below(others.len())]
                }
            }
            Strategy::Solo { .. } => cands[rng.below(cands.len())],
            Strategy::Stall2 { victim, at1, run1, at2 } => {
                let vsteps = g.threads.get(*victim).map(|t| t.steps).unwrap_or(0);
                let others: Vec<usize> = cands.iter().cloned().filter(|&i| i != *victim).collect();
                let hold = match s2_phase {
                    0 => vsteps >= *at1,
                    1 => {
                        if vsteps >= *at1 + *at2 { s2_phase = 2; true } else { false }
                    }
                    2 => true,
                    _ => false,
                };
                if hold && !others.is_empty() && !(s2_phase == 0 && s2_others >= *run1) {
                    if s2_phase == 0 { s2_others += 1; }
                    others[rng.below(others.len())]
                } else if hold {
                    // nobody else can move (or the first hold has lasted long enough): release
                    s2_phase = if s2_phase == 0 { 1 } else { 3 };
                    if cands.contains(victim) { *victim } else { cands[rng.below(cands.len())] }
                } else {
                    cands[rng.below(cands.len())]
                }
            }
            Strategy::Script(ph) => {
                let nth = g.threads.len();
                loop {
                    if script_pos >= ph.len() {
                        break;
                    }
                    let (th, over) = match &ph[script_pos] {
                        Ph::Steps(th, n) => (*th, script_used >= *n),
                        Ph::UntilThreads(th, n) => (*th, nth >= *n),
                        Ph::ToEnd(th) => (*th, false),
                    };
                    if over || !enabled.contains(&th) {
                        script_pos += 1;
                        script_used = 0;
                        continue;
                    }
                    break;
                }
                if script_pos < ph.len() {
                    script_used += 1;
                    match &ph[script_pos] {
                        Ph::Steps(th, _) | Ph::UntilThreads(th, _) | Ph::ToEnd(th) => *th,
                    }
                } else {
                    cands[rng.below(cands.len())]
                }
            }
            Strategy::Replay(v) => {
                let p = if replay_pos < v.len() && enabled.contains(&v[replay_pos]) {
                    v[replay_pos]
                } else if replay_pos < v.len() {
                    // replay diverged: fall back to the first enabled thread
                    enabled[0]
                } else {
                    cands[0]
                };
                replay_pos += 1;
                p
            }
        };
        g.schedule.push(pick);
        g.granted = Some(pick);
        g.threads[pick].state = ThState::Running;
        drop(g);
        s.cv.notify_all();
    }
}

/// Abort all managed threads (after a deadlock / livelock / budget verdict).
pub fn abort_all(s: &Arc<Sched>) {
    let mut g = s.inner.lock().unwrap();
    g.abort = true;
    drop(g);
    s.cv.notify_all();
}

pub fn ord_str(o: Option<Ordering>) -> &'static str {
    match o {
        None => "-",
        Some(Ordering::Relaxed) => "rlx",
        Some(Ordering::Acquire) => "acq",
        Some(Ordering::Release) => "rel",
        Some(Ordering::AcqRel) => "acqrel",
        Some(Ordering::SeqCst) => "sc",
        Some(_) => "?",
    }
}

pub fn kind_str(k: Kind) -> &'static str {
    match k {
        Kind::Load => "load",
        Kind::Store => "store",
        Kind::Cas => "cas",
        Kind::CasWeak => "casw",
        Kind::FetchAdd => "fadd",
        Kind::FetchSub => "fsub",
        Kind::FetchOr => "for",
        Kind::FetchAnd => "fand",
        Kind::Fence => "fence",
        Kind::Lock => "lock",
        Kind::TryLock => "trylock",
        Kind::Unlock => "unlock",
        Kind::CvWait => "cvwait",
        Kind::CvNotifyAll => "cvnotify",
        Kind::Yield => "yield",
        Kind::Sleep => "sleep",
        Kind::Tau => "tau",
        Kind::Alloc => "alloc",
        Kind::Dealloc => "dealloc",
    }
}
