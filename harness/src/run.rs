//! Running one scenario under the deterministic scheduler.
use crate::api::*;
use crate::sched::*;
use futures::executor::NotifyHandle;
use multiqueue2::verif_hooks::{set_runtime, Event, Kind, Runtime};
use std::sync::{Arc, Mutex};

#[derive(Clone, Debug, PartialEq)]
pub enum Epilogue {
    /// fill to Full, drain every stream, drop senders, drain to the end, drop all
    Probe,
    /// drop leftovers: senders first
    DropSendersFirst,
    /// drop leftovers: receivers first
    DropReceiversFirst,
}

#[derive(Clone, Debug)]
pub struct Scenario {
    pub cfg: QCfg,
    pub main: Vec<Op>,
    pub epilogue: Epilogue,
    pub family: String,
}

pub struct RunResult {
    pub outcome: Outcome,
    pub trace: Vec<Rec>,
    pub calls: Vec<CallRec>,
    pub schedule: Vec<usize>,
    pub reg: Reg,
    pub panics: Vec<String>,
    pub nthreads: usize,
    pub steps: usize,
    /// thread states at the end (for hang analysis)
    pub final_states: Vec<String>,
    pub epilogue_calls_from: usize,
    pub names: std::collections::HashMap<usize, String>,
}

struct RtWrap {
    inner: SchedRt,
    reg: Reg,
}

impl Runtime for RtWrap {
    fn before(&self, ev: &Event) {
        self.inner.before(ev);
        if ev.kind == Kind::Tau && (ev.what == "write" || ev.what == "read") {
            slot_access(&self.reg, my_tid(), ev.what, ev.addr);
        }
    }
    fn after(&self, r: usize, ok: bool) {
        self.inner.after(r, ok)
    }
    fn note(&self, ev: &Event) {
        self.inner.note(ev)
    }
    fn cv_block(&self, cv: usize, m: usize) {
        self.inner.cv_block(cv, m)
    }
}

fn thread_body(
    sched: Arc<Sched>,
    shared: Arc<Mutex<Shared>>,
    reg: Reg,
    notes: Arc<Mutex<Vec<usize>>>,
    tid: usize,
    slots: Vec<Slot>,
    ops: Vec<Op>,
    create: Option<QCfg>,
) {
    set_runtime(Some(Arc::new(RtWrap { inner: SchedRt(sched.clone()), reg: reg.clone() })));
    set_reg(Some(reg.clone()));
    sched.thread_start(tid);
    let notify = NotifyHandle::from(Arc::new(SchedNotify(Some(sched.clone()), notes.clone())));
    let mut ctx = Ctx { sched: Some(sched.clone()), shared: shared.clone(), slots, notify, task_id: tid };
    let res = std::panic::catch_unwind(std::panic::AssertUnwindSafe(|| {
        if let Some(cfg) = create {
            sched.call_begin(format!("create {}", cfg.text()));
            let (s, r) = crate::api::create(&cfg);
            let st = {
                let mut g = shared.lock().unwrap();
                g.next_stream += 1;
                g.next_stream - 1
            };
            let mk = |ctx: &mut Ctx, h: H| {
                let gid = {
                    let mut g = ctx.shared.lock().unwrap();
                    g.next_gid += 1;
                    g.next_gid - 1
                };
                ctx.shared.lock().unwrap().bind(&h, gid, st);
                ctx.slots.push(Slot { h: Some(h), gid, stream: st });
            };
            mk(&mut ctx, s);
            mk(&mut ctx, r);
            sched.call_end("created g0 g1 s0".into());
        }
        for op in &ops {
            match op {
                Op::Spawn(hs, cops) => {
                    let mut moved = Vec::new();
                    for &h in hs {
                        if h < ctx.slots.len() {
                            let s = &mut ctx.slots[h];
                            if let Some(hh) = s.h.take() {
                                moved.push(Slot { h: Some(hh), gid: s.gid, stream: s.stream });
                            }
                        }
                    }
                    let child = sched.register();
                    let gids: Vec<String> = moved.iter().map(|s| format!("g{}", s.gid)).collect();
                    sched.record(Rec::Spawn { tid, child });
                    sched.record(Rec::Info { text: format!("moved {} {}", child, gids.join(" ")) });
                    let (s2, sh2, r2, n2, ops2) = (sched.clone(), shared.clone(), reg.clone(), notes.clone(), cops.clone());
                    std::thread::Builder::new()
                        .stack_size(256 * 1024)
                        .spawn(move || thread_body(s2, sh2, r2, n2, child, moved, ops2, None))
                        .unwrap();
                    // wait until the child has reached its start point (keeps runs deterministic)
                    loop {
                        let g = sched.inner.lock().unwrap();
                        if !matches!(g.threads[child].state, ThState::NotStarted) {
                            break;
                        }
                        drop(g);
                        std::thread::yield_now();
                    }
                }
                _ => {
                    ctx.exec(op);
                }
            }
        }
    }));
    if let Err(e) = res {
        let msg = if let Some(s) = e.downcast_ref::<&str>() {
            s.to_string()
        } else if let Some(s) = e.downcast_ref::<String>() {
            s.clone()
        } else {
            "panic".to_string()
        };
        shared.lock().unwrap().panics.push(format!("thread {}: {}", tid, msg));
        sched.record(Rec::Info { text: format!("panic {} {}", tid, msg.replace(' ', "_")) });
        // a panicking call never recorded its end
        {
            let mut g = sched.inner.lock().unwrap();
            g.threads[tid].in_call = false;
        }
    }
    // hand the remaining handles to the epilogue
    {
        let mut g = shared.lock().unwrap();
        for s in ctx.slots.drain(..) {
            if s.h.is_some() {
                g.leftovers.push(s);
            }
        }
    }
    set_runtime(None);
    sched.thread_done(tid);
}

fn epilogue_ops(slots: &[Slot], ep: &Epilogue) -> Vec<Op> {
    let mut ops = Vec::new();
    let senders: Vec<usize> = (0..slots.len()).filter(|&i| slots[i].h.as_ref().unwrap().is_sender()).collect();
    let receivers: Vec<usize> = (0..slots.len()).filter(|&i| !slots[i].h.as_ref().unwrap().is_sender()).collect();
    let recv_op = |i: usize| -> Op {
        match slots[i].h.as_ref().unwrap() {
            H::BFR(_) | H::MFR(_) => Op::Poll(i),
            H::BFU(_) | H::MFU(_) => Op::Poll(i),
            H::BU(_) | H::MU(_) => Op::TryRecvView(i),
            _ => Op::TryRecv(i),
        }
    };
    match ep {
        Epilogue::Probe => {
            // one representative handle per stream
            let mut reps: Vec<usize> = Vec::new();
            let mut seen = std::collections::HashSet::new();
            for &r in &receivers {
                if seen.insert(slots[r].stream) {
                    reps.push(r);
                }
            }
            if let Some(&s) = senders.first() {
                if !receivers.is_empty() {
                    // fill: at most 40 tries
                    ops.push(Op::SendRetry(s, 1));
                    for _ in 0..40 {
                        ops.push(Op::TrySend(s));
                    }
                }
            }
            for &r in &reps {
                for _ in 0..80 {
                    ops.push(recv_op(r));
                }
            }
            for &s in &senders {
                ops.push(Op::Drop(s));
            }
            for &r in &reps {
                ops.push(recv_op(r));
                ops.push(recv_op(r));
            }
            for &r in &receivers {
                ops.push(Op::Drop(r));
            }
        }
        Epilogue::DropSendersFirst => {
            for &s in &senders {
                ops.push(Op::Drop(s));
            }
            for &r in &receivers {
                ops.push(Op::Drop(r));
            }
        }
        Epilogue::DropReceiversFirst => {
            for &r in &receivers {
                ops.push(Op::Drop(r));
            }
            for &s in &senders {
                ops.push(Op::Drop(s));
            }
        }
    }
    ops
}

/// The probe's fill/drain loops stop early: this executes epilogue ops with early exits.
fn epilogue_body(ctx: &mut Ctx, ops: &[Op]) {
    let mut skip_send = false;
    let mut done_recv: std::collections::HashSet<usize> = std::collections::HashSet::new();
    for op in ops {
        match op {
            Op::TrySend(_) | Op::SendRetry(..) => {
                if skip_send {
                    continue;
                }
                let r = ctx.exec(op);
                if !r.starts_with("ok") {
                    skip_send = true;
                }
            }
            Op::TryRecv(h) | Op::Poll(h) | Op::TryRecvView(h) => {
                if done_recv.contains(h) {
                    continue;
                }
                let r = ctx.exec(op);
                if !(r.starts_with("ok") || r.starts_with("some")) {
                    done_recv.insert(*h);
                }
            }
            Op::Drop(_) => {
                done_recv.clear();
                ctx.exec(op);
            }
            _ => {
                ctx.exec(op);
            }
        }
    }
}

pub fn run_scenario(sc: &Scenario, strat: &Strategy, seed: u64, budget: usize) -> RunResult {
    let sched = Sched::new();
    let shared = Arc::new(Mutex::new(Shared::default()));
    let reg: Reg = Arc::new(Mutex::new(Registry::default()));
    let notes = Arc::new(Mutex::new(Vec::new()));
    let mut rng = Rng(seed);
    sched.record(Rec::Info { text: format!("cfg {}", sc.cfg.text()) });
    let t0 = sched.register();
    {
        let (s2, sh2, r2, n2, ops2, cfg) = (sched.clone(), shared.clone(), reg.clone(), notes.clone(), sc.main.clone(), sc.cfg.clone());
        std::thread::Builder::new()
            .stack_size(256 * 1024)
            .spawn(move || thread_body(s2, sh2, r2, n2, t0, Vec::new(), ops2, Some(cfg)))
            .unwrap();
    }
    let mut outcome = control(&sched, strat, &mut rng, budget);
    let epi_from = shared.lock().unwrap().calls.len();
    if outcome == Outcome::Finished && shared.lock().unwrap().panics.is_empty() {
        // epilogue as one more managed thread
        let slots: Vec<Slot> = shared.lock().unwrap().leftovers.drain(..).collect();
        if !slots.is_empty() {
            let ops = epilogue_ops(&slots, &sc.epilogue);
            let te = sched.register();
            sched.record(Rec::Info { text: format!("epilogue {}", te) });
            let (s2, sh2, r2, n2) = (sched.clone(), shared.clone(), reg.clone(), notes.clone());
            std::thread::Builder::new()
                .stack_size(256 * 1024)
                .spawn(move || {
                    set_runtime(Some(Arc::new(RtWrap { inner: SchedRt(s2.clone()), reg: r2.clone() })));
                    set_reg(Some(r2.clone()));
                    s2.thread_start(te);
                    let notify = NotifyHandle::from(Arc::new(SchedNotify(Some(s2.clone()), n2)));
                    let mut ctx = Ctx { sched: Some(s2.clone()), shared: sh2.clone(), slots, notify, task_id: te };
                    let res = std::panic::catch_unwind(std::panic::AssertUnwindSafe(|| epilogue_body(&mut ctx, &ops)));
                    if res.is_err() {
                        sh2.lock().unwrap().panics.push(format!("epilogue thread {} panicked", te));
                    }
                    // whatever is left is dropped here, still under the scheduler
                    let _ = std::panic::catch_unwind(std::panic::AssertUnwindSafe(|| ctx.slots.clear()));
                    set_runtime(None);
                    s2.thread_done(te);
                })
                .unwrap();
            outcome = control(&sched, &Strategy::Replay(vec![]), &mut rng, budget + 20000);
        }
    }
    if outcome != Outcome::Finished {
        abort_all(&sched);
    }
    let g = sched.inner.lock().unwrap();
    let final_states = g
        .threads
        .iter()
        .map(|t| match &t.state {
            ThState::AtPoint(e) => format!("at:{}:{:#x}{}", kind_str(e.kind), e.addr, if t.in_call { ":incall" } else { "" }),
            ThState::CvBlocked { .. } => "cvblocked".to_string(),
            ThState::TaskParked(k) => format!("parked:{}", k),
            ThState::Done => "done".to_string(),
            ThState::Running => "running".to_string(),
            ThState::NotStarted => "notstarted".to_string(),
        })
        .collect();
    let sh = shared.lock().unwrap();
    RunResult {
        outcome,
        trace: g.trace.clone(),
        calls: sh.calls.clone(),
        schedule: g.schedule.clone(),
        reg,
        panics: sh.panics.clone(),
        nthreads: g.threads.len(),
        steps: g.total_steps,
        final_states,
        epilogue_calls_from: epi_from,
        names: sh.names.clone(),
    }
}

/// Trace in the line protocol shared with the Lean driver.
pub fn trace_text(trace: &[Rec], names: &std::collections::HashMap<usize, String>) -> String {
    let mut out = String::new();
    // objects allocated through alloc.rs get names by allocation order per type
    let mut names = names.clone();
    let mut counters: std::collections::HashMap<String, usize> = std::collections::HashMap::new();
    let mut unknown = 0usize;
    for r in trace {
        if let Rec::Note { ev, .. } = r {
            if ev.kind == Kind::Alloc {
                let short = ev.what.rsplit("::").next().unwrap_or(ev.what).split('<').next().unwrap().to_string();
                let c = counters.entry(short.clone()).or_insert(0);
                if short == "ReaderGroup" {
                    names.entry(ev.addr).or_insert(format!("grp.{}", *c));
                }
                *c += 1;
            }
        }
    }
    let mut nm = |a: usize| -> String {
        if a == 0 {
            return "-".to_string();
        }
        if let Some(n) = names.get(&a) {
            return n.clone();
        }
        let n = format!("u.{}", unknown);
        unknown += 1;
        names.insert(a, n.clone());
        n
    };
    for r in trace {
        match r {
            Rec::Ev { tid, ev, res, ok } => {
                let w = nm(ev.addr);
                // pointer-valued words: translate values too
                let (a, b, res) = if w == "readers" {
                    (
                        if ev.a == 0 { "0".to_string() } else { nm(ev.a) },
                        if ev.b == 0 { "0".to_string() } else { nm(ev.b) },
                        if *res == 0 { "0".to_string() } else { nm(*res) },
                    )
                } else {
                    let a = if ev.kind == Kind::CvWait { nm(ev.a) } else { ev.a.to_string() };
                    (a, ev.b.to_string(), res.to_string())
                };
                out.push_str(&format!(
                    "ev {} {} {} {} {} {} {} {} {} {}\n",
                    tid,
                    kind_str(ev.kind),
                    w,
                    ord_str(ev.ord),
                    ord_str(ev.ord2),
                    a,
                    b,
                    res,
                    if *ok { 1 } else { 0 },
                    if ev.what.is_empty() { "-" } else { ev.what }
                ));
            }
            Rec::Note { tid, ev } => {
                out.push_str(&format!(
                    "note {} {} {} {} {} {}\n",
                    tid,
                    kind_str(ev.kind),
                    nm(ev.addr),
                    ev.a,
                    ev.b,
                    if ev.what.is_empty() { "-".to_string() } else { ev.what.replace(' ', "") }
                ));
            }
            Rec::Call { tid, text } => out.push_str(&format!("call {} {}\n", tid, text)),
            Rec::Ret { tid, text } => out.push_str(&format!("ret {} {}\n", tid, text)),
            Rec::Spawn { tid, child } => out.push_str(&format!("spawn {} {}\n", tid, child)),
            Rec::Notify { tid, task } => out.push_str(&format!("notify {} {}\n", tid, task)),
            Rec::Park { tid, task } => out.push_str(&format!("park {} {}\n", tid, task)),
            Rec::Info { text } => out.push_str(&format!("info {}\n", text)),
        }
    }
    out
}
