//! C17: memory returned on teardown, bounded under churn. Measured with a counting global allocator
//! (every heap block of the process) around code that uses only the raw API with plain payloads.
use crate::sched::Rng;
use multiqueue2::*;
use std::alloc::{GlobalAlloc, Layout, System};
use std::sync::atomic::{AtomicIsize, Ordering};

pub struct Counting;
pub static LIVE_BYTES: AtomicIsize = AtomicIsize::new(0);
pub static LIVE_BLOCKS: AtomicIsize = AtomicIsize::new(0);

// ---- blocks allocated while a thread is inside an API call of the crate (C17 under concurrency) ----
// A fixed open-addressing table (no allocation inside the allocator): pointer -> size. A block enters the table
// when it is allocated by a thread that is inside a crate call and leaves it when it is freed, by whoever.
// After a scenario has dropped every handle and the harness has dropped the run's records, the table must be
// empty: what is left was allocated by the queue and never released.
const TSIZE: usize = 1 << 17;
static TPTR: [std::sync::atomic::AtomicUsize; TSIZE] = [const { std::sync::atomic::AtomicUsize::new(0) }; TSIZE];
static TLEN: [std::sync::atomic::AtomicUsize; TSIZE] = [const { std::sync::atomic::AtomicUsize::new(0) }; TSIZE];
pub static TRACKED_BYTES: AtomicIsize = AtomicIsize::new(0);
pub static DBG_SIZE: std::sync::atomic::AtomicUsize = std::sync::atomic::AtomicUsize::new(usize::MAX);
pub static TRACKED_BLOCKS: AtomicIsize = AtomicIsize::new(0);
thread_local! {
    static IN_CALL: std::cell::Cell<bool> = const { std::cell::Cell::new(false) };
}
pub fn set_in_call(b: bool) {
    IN_CALL.with(|c| c.set(b));
}
thread_local! {
    static SUSPEND: std::cell::Cell<u32> = const { std::cell::Cell::new(0) };
}
/// harness code that runs inside a crate call (scheduler hooks, payload clone/drop, closures, task notification)
pub struct Suspend;
impl Suspend {
    pub fn new() -> Suspend {
        let _ = SUSPEND.try_with(|c| c.set(c.get() + 1));
        Suspend
    }
}
impl Drop for Suspend {
    fn drop(&mut self) {
        let _ = SUSPEND.try_with(|c| c.set(c.get().saturating_sub(1)));
    }
}
fn in_call() -> bool {
    IN_CALL.try_with(|c| c.get()).unwrap_or(false) && SUSPEND.try_with(|c| c.get() == 0).unwrap_or(false)
}
fn t_insert(p: usize, len: usize) {
    let mut i = (p >> 4) & (TSIZE - 1);
    for _ in 0..TSIZE {
        let cur = TPTR[i].load(Ordering::Relaxed);
        if (cur == 0 || cur == 1) && TPTR[i].compare_exchange(cur, p, Ordering::AcqRel, Ordering::Relaxed).is_ok() {
            TLEN[i].store(len, Ordering::Relaxed);
            TRACKED_BYTES.fetch_add(len as isize, Ordering::Relaxed);
            TRACKED_BLOCKS.fetch_add(1, Ordering::Relaxed);
            return;
        }
        i = (i + 1) & (TSIZE - 1);
    }
}
fn t_remove(p: usize) -> bool {
    let mut i = (p >> 4) & (TSIZE - 1);
    for _ in 0..TSIZE {
        let cur = TPTR[i].load(Ordering::Acquire);
        if cur == 0 {
            return false;
        }
        if cur == p {
            let len = TLEN[i].load(Ordering::Relaxed);
            TPTR[i].store(1, Ordering::Release);
            TRACKED_BYTES.fetch_sub(len as isize, Ordering::Relaxed);
            TRACKED_BLOCKS.fetch_sub(1, Ordering::Relaxed);
            return true;
        }
        i = (i + 1) & (TSIZE - 1);
    }
    false
}
/// a block the queue released but the harness keeps (quarantine for the use-after-free monitor)
pub fn t_forget(p: usize) {
    t_remove(p);
}
/// forget everything (between scenarios)
pub fn t_reset() {
    for i in 0..TSIZE {
        TPTR[i].store(0, Ordering::Relaxed);
    }
    TRACKED_BYTES.store(0, Ordering::Relaxed);
    TRACKED_BLOCKS.store(0, Ordering::Relaxed);
}
/// what is left in the table: (address, size)
pub fn t_left() -> Vec<(usize, usize)> {
    let _s = Suspend::new();
    let mut v = Vec::new();
    for i in 0..TSIZE {
        let p = TPTR[i].load(Ordering::Relaxed);
        if p > 1 {
            v.push((p, TLEN[i].load(Ordering::Relaxed)));
        }
    }
    v
}
pub fn tracked() -> (isize, isize) {
    (TRACKED_BYTES.load(Ordering::SeqCst), TRACKED_BLOCKS.load(Ordering::SeqCst))
}

unsafe impl GlobalAlloc for Counting {
    unsafe fn alloc(&self, l: Layout) -> *mut u8 {
        let p = System.alloc(l);
        if !p.is_null() {
            LIVE_BYTES.fetch_add(l.size() as isize, Ordering::Relaxed);
            LIVE_BLOCKS.fetch_add(1, Ordering::Relaxed);
            if in_call() {
                t_insert(p as usize, l.size());
                if DBG_SIZE.load(Ordering::Relaxed) == l.size() {
                    let _s = Suspend::new();
                    eprintln!("ALLOC {:#x} {}\n{}", p as usize, l.size(), std::backtrace::Backtrace::force_capture());
                }
            }
        }
        p
    }
    unsafe fn dealloc(&self, p: *mut u8, l: Layout) {
        LIVE_BYTES.fetch_sub(l.size() as isize, Ordering::Relaxed);
        LIVE_BLOCKS.fetch_sub(1, Ordering::Relaxed);
        if TRACKED_BLOCKS.load(Ordering::Relaxed) > 0 {
            t_remove(p as usize);
        }
        System.dealloc(p, l)
    }
    unsafe fn realloc(&self, p: *mut u8, l: Layout, new: usize) -> *mut u8 {
        let was = TRACKED_BLOCKS.load(Ordering::Relaxed) > 0 && t_remove(p as usize);
        let q = System.realloc(p, l, new);
        if !q.is_null() {
            LIVE_BYTES.fetch_add(new as isize - l.size() as isize, Ordering::Relaxed);
            if was || in_call() {
                t_insert(q as usize, new);
            }
        } else if was {
            t_insert(p as usize, l.size());
        }
        q
    }
}

fn live() -> (isize, isize) {
    (LIVE_BYTES.load(Ordering::SeqCst), LIVE_BLOCKS.load(Ordering::SeqCst))
}

enum Hx {
    BS(BroadcastSender<u64>),
    BR(BroadcastReceiver<u64>),
    BU(BroadcastUniReceiver<u64>),
    MS(MPMCSender<u64>),
    MR(MPMCReceiver<u64>),
    MU(MPMCUniReceiver<u64>),
    BFS(BroadcastFutSender<u64>),
    BFR(BroadcastFutReceiver<u64>),
    MFS(MPMCFutSender<u64>),
    MFR(MPMCFutReceiver<u64>),
}

/// one random history on a fresh queue, then every handle is dropped in a random order;
/// returns (description, bytes delta, blocks delta)
fn teardown_case(rng: &mut Rng, flavour: usize, cap: u64, len: usize) -> (String, isize, isize) {
    let mut desc = format!("flavour={} cap={} ops=", ["bcast", "mpmc", "bcast_fut", "mpmc_fut"][flavour], cap);
    // the description string is allocated before the measurement starts and kept until after it
    desc.reserve(len * 4 + 64);
    let before = live();
    {
        let mut hs: Vec<Hx> = Vec::with_capacity(64);
        match flavour {
            0 => {
                let (s, r) = broadcast_queue::<u64>(cap);
                hs.push(Hx::BS(s));
                hs.push(Hx::BR(r));
            }
            1 => {
                let (s, r) = mpmc_queue::<u64>(cap);
                hs.push(Hx::MS(s));
                hs.push(Hx::MR(r));
            }
            2 => {
                let (s, r) = broadcast_fut_queue::<u64>(cap);
                hs.push(Hx::BFS(s));
                hs.push(Hx::BFR(r));
            }
            _ => {
                let (s, r) = mpmc_fut_queue::<u64>(cap);
                hs.push(Hx::MFS(s));
                hs.push(Hx::MFR(r));
            }
        }
        let mut v = 0u64;
        for _ in 0..len {
            if hs.is_empty() {
                break;
            }
            let i = rng.below(hs.len());
            let op = rng.below(8);
            let mut push: Option<Hx> = None;
            let mut remove = false;
            match (&hs[i], op) {
                (Hx::BS(s), 0..=3) => {
                    v += 1;
                    let _ = s.try_send(v);
                    desc.push('s');
                }
                (Hx::MS(s), 0..=3) => {
                    v += 1;
                    let _ = s.try_send(v);
                    desc.push('s');
                }
                (Hx::BFS(s), 0..=3) => {
                    v += 1;
                    let _ = s.try_send(v);
                    desc.push('s');
                }
                (Hx::MFS(s), 0..=3) => {
                    v += 1;
                    let _ = s.try_send(v);
                    desc.push('s');
                }
                (Hx::BS(s), 4) if hs.len() < 60 => {
                    push = Some(Hx::BS(s.clone()));
                    desc.push('c');
                }
                (Hx::MS(s), 4) if hs.len() < 60 => {
                    push = Some(Hx::MS(s.clone()));
                    desc.push('c');
                }
                (Hx::BFS(s), 4) if hs.len() < 60 => {
                    push = Some(Hx::BFS(s.clone()));
                    desc.push('c');
                }
                (Hx::MFS(s), 4) if hs.len() < 60 => {
                    push = Some(Hx::MFS(s.clone()));
                    desc.push('c');
                }
                (Hx::BR(r), 0..=2) => {
                    let _ = r.try_recv();
                    desc.push('r');
                }
                (Hx::MR(r), 0..=2) => {
                    let _ = r.try_recv();
                    desc.push('r');
                }
                (Hx::BFR(r), 0..=2) => {
                    let _ = r.try_recv();
                    desc.push('r');
                }
                (Hx::MFR(r), 0..=2) => {
                    let _ = r.try_recv();
                    desc.push('r');
                }
                (Hx::BU(r), 0..=2) => {
                    let _ = r.try_recv_view(|x| *x);
                    desc.push('v');
                }
                (Hx::MU(r), 0..=2) => {
                    let _ = r.try_recv_view(|x| *x);
                    desc.push('v');
                }
                (Hx::BR(r), 3) if hs.len() < 60 => {
                    push = Some(Hx::BR(r.clone()));
                    desc.push('C');
                }
                (Hx::MR(r), 3) if hs.len() < 60 => {
                    push = Some(Hx::MR(r.clone()));
                    desc.push('C');
                }
                (Hx::BFR(r), 3) if hs.len() < 60 => {
                    push = Some(Hx::BFR(r.clone()));
                    desc.push('C');
                }
                (Hx::MFR(r), 3) if hs.len() < 60 => {
                    push = Some(Hx::MFR(r.clone()));
                    desc.push('C');
                }
                (Hx::BR(r), 4) if hs.len() < 60 => {
                    push = Some(Hx::BR(r.add_stream()));
                    desc.push('A');
                }
                (Hx::BFR(r), 4) if hs.len() < 60 => {
                    push = Some(Hx::BFR(r.add_stream()));
                    desc.push('A');
                }
                (_, 5) | (_, 6) => {
                    remove = true;
                    desc.push('d');
                }
                (Hx::BR(_), 7) | (Hx::MR(_), 7) | (Hx::BU(_), 7) | (Hx::MU(_), 7) => {
                    // conversions
                    let h = hs.swap_remove(i);
                    let nh = match h {
                        Hx::BR(r) => match r.into_single() {
                            Ok(u) => Hx::BU(u),
                            Err(r) => Hx::BR(r),
                        },
                        Hx::MR(r) => match r.into_single() {
                            Ok(u) => Hx::MU(u),
                            Err(r) => Hx::MR(r),
                        },
                        Hx::BU(u) => Hx::BR(u.into_multi()),
                        Hx::MU(u) => Hx::MR(u.into_multi()),
                        o => o,
                    };
                    hs.push(nh);
                    desc.push('x');
                }
                _ => {}
            }
            if let Some(h) = push {
                hs.push(h);
            }
            if remove {
                drop(hs.swap_remove(i));
            }
        }
        // teardown in a random order
        while !hs.is_empty() {
            let i = rng.below(hs.len());
            drop(hs.swap_remove(i));
        }
    }
    let after = live();
    (desc, after.0 - before.0, after.1 - before.1)
}

/// churn with a fixed pair of handles that operates every `k` cycles; returns live bytes after
/// warm-up and after `cycles` more cycles (each measured after a settle phase)
fn churn_case(kind: usize, k: usize, warm: usize, cycles: usize, early_drop: bool) -> (isize, isize, isize) {
    let before = live();
    let (tx, rx) = broadcast_queue::<u64>(8);
    if early_drop {
        // F11 history: a non-last handle of the stream is dropped early
        let c = rx.clone();
        drop(c);
    }
    let mut v = 0u64;
    let mut cycle = |i: usize| {
        match kind {
            0 => drop(rx.add_stream()),
            1 => drop(rx.clone()),
            2 => drop(tx.clone()),
            _ => {
                let s = rx.add_stream();
                match s.into_single() {
                    Ok(u) => drop(u.into_multi()),
                    Err(r) => drop(r),
                }
            }
        }
        if i % k == 0 {
            v += 1;
            let _ = tx.try_send(v);
            let _ = rx.try_recv();
        }
    };
    let mut settle = |tx: &BroadcastSender<u64>, rx: &BroadcastReceiver<u64>| {
        for j in 0..64u64 {
            drop(rx.add_stream());
            let _ = tx.try_send(j);
            let _ = rx.try_recv();
        }
    };
    for i in 0..warm {
        cycle(i);
    }
    // measured twice: straight after the cycles (growth that only a later add_stream would release counts as
    // growth) and after a settle phase
    let a_raw = live().0 - before.0;
    settle(&tx, &rx);
    let a = live().0 - before.0;
    for i in 0..cycles {
        cycle(i);
    }
    let b_raw = live().0 - before.0;
    settle(&tx, &rx);
    let b = live().0 - before.0;
    let (a, b) = if b_raw - a_raw > b - a { (a_raw, b_raw) } else { (a, b) };
    drop(tx);
    drop(rx);
    let c = live().0 - before.0;
    (a, b, c)
}

pub fn main(args: &[String]) {
    let arg = |n: &str| args.iter().position(|a| a == n).and_then(|i| args.get(i + 1)).cloned();
    let seed: u64 = arg("--seed").and_then(|s| s.parse().ok()).unwrap_or(1);
    let cases: usize = arg("--cases").and_then(|s| s.parse().ok()).unwrap_or(400);
    let cycles: usize = arg("--cycles").and_then(|s| s.parse().ok()).unwrap_or(20000);
    let mut rng = Rng(seed);
    let mut bad = 0;
    let mut samples: Vec<String> = Vec::new();
    // (a) teardown
    for i in 0..cases {
        let flavour = i % 4;
        let cap = (i / 4 % 10) as u64;
        let len = 5 + rng.below(120);
        let (desc, db, dn) = teardown_case(&mut rng, flavour, cap, len);
        if db != 0 || dn != 0 {
            bad += 1;
            if bad <= 5 {
                println!("MONITOR property=C17 :: teardown leaves {} bytes in {} blocks allocated: {}", db, dn, desc);
            }
        }
        if samples.len() < 3 {
            samples.push(format!("teardown {} -> {} bytes {} blocks", desc, db, dn));
        }
    }
    println!("teardown cases={} leaking={}", cases, bad);
    // (b) churn plateau
    let mut churn_runs = 0;
    for kind in 0..4 {
        for &k in &[1usize, 4, 16, 64] {
            for &early in &[false, true] {
                let warm = cycles / 10;
                let (a, b, c) = churn_case(kind, k, warm.max(500), cycles, early);
                churn_runs += 1;
                let name = ["add_stream/drop", "clone receiver/drop", "clone sender/drop", "add_stream+into_single+into_multi/drop"][kind];
                if b - a > 16 * 1024 {
                    println!(
                        "MONITOR property=C17 :: memory grows with the number of {} cycles: {} bytes after warm-up, {} bytes after {} more cycles (handles operate every {} cycles, early drop of a non-last handle: {})",
                        name, a, b, cycles, k, early
                    );
                }
                if c != 0 {
                    println!("MONITOR property=C17 :: {} bytes still allocated after the churn run's teardown ({} k={})", c, name, k);
                }
                if samples.len() < 6 {
                    samples.push(format!("churn {} k={} early={} warm={}B after={}B teardown={}B", name, k, early, a, b, c));
                }
            }
        }
    }
    println!("churn runs={} cycles={}", churn_runs, cycles);
    for s in samples {
        println!("SAMPLE {}", s);
    }
}
