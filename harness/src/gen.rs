//! Scenario generators, one per family. Every random choice comes from the one `Rng`.
use crate::api::*;
use crate::run::*;
use crate::sched::Rng;

pub const FAMILIES: &[&str] = &["ring", "churn", "streams", "disc", "wake", "fut", "mem", "view", "scan"];

fn pick<T: Clone>(r: &mut Rng, v: &[T]) -> T {
    v[r.below(v.len())].clone()
}

fn plain_wait(r: &mut Rng) -> WaitCfg {
    pick(r, &[WaitCfg::Busy, WaitCfg::Yield(1, 1), WaitCfg::Yield(0, 2), WaitCfg::Yield(1, 0), WaitCfg::Block(0, 0), WaitCfg::Block(1, 1), WaitCfg::Block(2, 0)])
}

/// handle slots of thread 0 after `create`: 0 = sender, 1 = receiver (stream 0)
pub fn gen(family: &str, r: &mut Rng) -> Scenario {
    match family {
        "ring" => ring(r, false),
        "view" => ring(r, true),
        "churn" => churn(r),
        "streams" => streams(r),
        "disc" => disc(r),
        "wake" => wake(r),
        "fut" => fut(r),
        "mem" => mem(r),
        "scan" => scan(r),
        "pin" => pin(r),
        "pinf" => pinf(r),
        "kf1" => kf1(r),
        "kf12" => kf12(r),
        _ => ring(r, false),
    }
}

fn producer(h: usize, n: usize, retries: usize, drop_at_end: bool) -> Vec<Op> {
    let mut v = Vec::new();
    for _ in 0..n {
        v.push(Op::SendRetry(h, retries));
    }
    if drop_at_end {
        v.push(Op::Drop(h));
    }
    v
}

/// P producers, S streams (broadcast) with K consumers each. Shared streams only use try-style
/// receives (F2/F13 are steered away from); sole consumers may block.
fn ring(r: &mut Rng, view: bool) -> Scenario {
    let bcast = r.chance(2, 3);
    let cap = pick(r, &[0u64, 1, 2, 2, 3, 4]);
    let cfg = QCfg { bcast, fut: false, cap, wait: plain_wait(r), fspins: None };
    let nprod = 1 + r.below(2);
    let nstreams = if bcast { 1 + r.below(3) } else { 1 };
    let nvals = 2 + r.below(4);
    let mut main: Vec<Op> = Vec::new();
    let mut next = 2usize; // next free slot in thread 0
    // streams: slot 1 is stream 0; add more
    let mut stream_slots = vec![1usize];
    for _ in 1..nstreams {
        main.push(Op::AddStream(1));
        stream_slots.push(next);
        next += 1;
    }
    // consumers
    let mut spawns: Vec<Op> = Vec::new();
    for &ss in &stream_slots {
        let k = if view { 1 } else { 1 + r.below(2) };
        let mut slots = vec![ss];
        for _ in 1..k {
            main.push(Op::Clone(ss));
            slots.push(next);
            next += 1;
        }
        for (ci, &sl) in slots.iter().enumerate() {
            let mut ops = Vec::new();
            if k == 1 {
                if view {
                    ops.push(Op::IntoSingle(0));
                    if r.chance(1, 2) {
                        for _ in 0..nvals * nprod {
                            ops.push(Op::RecvView(0));
                        }
                    } else {
                        for _ in 0..nvals * nprod + 2 {
                            ops.push(Op::TryRecvView(0));
                        }
                        if r.chance(1, 2) {
                            ops.push(Op::IntoMulti(0));
                            ops.push(Op::TryRecv(0));
                        }
                    }
                } else if r.chance(1, 2) {
                    ops.push(Op::IterAll(0));
                } else {
                    ops.push(Op::TryIter(0, nvals * nprod + 1));
                    ops.push(Op::TryIter(0, nvals * nprod + 1));
                }
            } else {
                let _ = ci;
                if r.chance(1, 3) {
                    ops.push(Op::IterAll(0));
                } else {
                    ops.push(Op::TryIter(0, nvals));
                    ops.push(Op::TryRecv(0));
                    ops.push(Op::TryIter(0, nvals));
                }
            }
            spawns.push(Op::Spawn(vec![sl], ops));
        }
    }
    // producers
    if nprod == 2 {
        main.push(Op::Clone(0));
        let s2 = next;
        spawns.push(Op::Spawn(vec![s2], producer(0, nvals, 6, true)));
    }
    main.extend(spawns);
    main.extend(producer(0, nvals, 6, true));
    Scenario { cfg, main, epilogue: Epilogue::Probe, family: if view { "view".into() } else { "ring".into() } }
}

/// sender count 1->2->1 and consumer count 1->2->1 while traffic flows
fn churn(r: &mut Rng) -> Scenario {
    let bcast = r.chance(1, 2);
    let cap = pick(r, &[1u64, 2, 4]);
    let cfg = QCfg { bcast, fut: false, cap, wait: pick(r, &[WaitCfg::Busy, WaitCfg::Yield(1, 1), WaitCfg::Block(0, 0)]), fspins: None };
    let nvals = 3 + r.below(3);
    let mut main = Vec::new();
    // consumer thread: owns the receiver; clones and drops a second handle, converts back and forth
    let mut cons = Vec::new();
    for i in 0..nvals {
        cons.push(Op::TryRecv(0));
        if i == 0 {
            cons.push(Op::Clone(0));
        }
        if i == 1 {
            cons.push(Op::TryRecv(1));
            if r.chance(1, 2) {
                cons.push(Op::Drop(1));
            } else {
                cons.push(Op::Unsub(1));
            }
        }
        if i == 2 && r.chance(1, 2) {
            cons.push(Op::IntoSingle(0));
            cons.push(Op::TryRecvView(0));
            cons.push(Op::IntoMulti(0));
        }
    }
    cons.push(Op::TryIter(0, nvals * 2));
    main.push(Op::Spawn(vec![1], cons));
    // second producer comes and goes
    main.push(Op::SendRetry(0, 4));
    main.push(Op::Clone(0));
    main.push(Op::Spawn(vec![2], producer(0, 2, 4, true)));
    for _ in 0..nvals {
        main.push(Op::SendRetry(0, 4));
    }
    if r.chance(1, 2) {
        main.push(Op::Drop(0));
    }
    Scenario { cfg, main, epilogue: Epilogue::Probe, family: "churn".into() }
}

/// add_stream / unsubscribe during traffic. add_stream is only called on a handle that is the sole
/// handle of its stream (F1 is steered away from).
fn streams(r: &mut Rng) -> Scenario {
    let cap = pick(r, &[1u64, 2, 4]);
    let cfg = QCfg { bcast: true, fut: false, cap, wait: pick(r, &[WaitCfg::Busy, WaitCfg::Yield(1, 1), WaitCfg::Block(0, 0)]), fspins: None };
    let nvals = 3 + r.below(4);
    let mut main = Vec::new();
    let mut cons = Vec::new();
    cons.push(Op::TryRecv(0));
    cons.push(Op::AddStream(0)); // slot 1 = new stream
    cons.push(Op::TryRecv(0));
    cons.push(Op::TryRecv(1));
    if r.chance(1, 2) {
        // hand the new stream to another thread
        cons.push(Op::Spawn(vec![1], vec![Op::TryIter(0, nvals + 2), Op::TryIter(0, nvals + 2)]));
    } else if r.chance(1, 2) {
        cons.push(Op::Unsub(1));
    } else {
        cons.push(Op::TryIter(1, nvals));
        cons.push(Op::Drop(1));
    }
    cons.push(Op::TryIter(0, nvals + 2));
    cons.push(Op::TryIter(0, nvals + 2));
    // a second original stream with its own consumer that may leave early
    main.push(Op::AddStream(1)); // slot 2
    let mut c2 = vec![Op::TryIter(0, 2)];
    if r.chance(1, 2) {
        c2.push(Op::Drop(0));
    } else {
        c2.push(Op::TryIter(0, nvals + 2));
    }
    main.push(Op::Spawn(vec![2], c2));
    main.push(Op::Spawn(vec![1], cons));
    main.extend(producer(0, nvals, 8, r.chance(1, 2)));
    Scenario { cfg, main, epilogue: Epilogue::Probe, family: "streams".into() }
}

/// last sender's final sends and drop racing sole consumers on every stream
fn disc(r: &mut Rng) -> Scenario {
    let bcast = r.chance(2, 3);
    let cap = pick(r, &[1u64, 2, 4]);
    let cfg = QCfg { bcast, fut: false, cap, wait: plain_wait(r), fspins: None };
    let nvals = 1 + r.below(4);
    let nstreams = if bcast { 1 + r.below(2) } else { 1 };
    let mut main = Vec::new();
    let mut slots = vec![1usize];
    let mut next = 2;
    for _ in 1..nstreams {
        main.push(Op::AddStream(1));
        slots.push(next);
        next += 1;
    }
    let two_senders = r.chance(1, 2);
    if two_senders {
        main.push(Op::Clone(0));
    }
    for &sl in &slots {
        let ops = match r.below(4) {
            0 => vec![Op::IterAll(0)],
            1 => vec![Op::IntoSingle(0), Op::RecvView(0), Op::RecvView(0), Op::RecvView(0), Op::RecvView(0), Op::RecvView(0), Op::RecvView(0)],
            2 => {
                let mut v = Vec::new();
                for _ in 0..nvals * 2 + 3 {
                    v.push(Op::TryRecv(0));
                }
                v
            }
            _ => vec![Op::Recv(0), Op::TryIter(0, 8), Op::Recv(0), Op::Recv(0), Op::Recv(0), Op::Recv(0), Op::Recv(0), Op::Recv(0)],
        };
        main.push(Op::Spawn(vec![sl], ops));
    }
    if two_senders {
        main.push(Op::Spawn(vec![next], producer(0, nvals, 5, true)));
    }
    main.extend(producer(0, nvals, 5, true));
    Scenario { cfg, main, epilogue: Epilogue::Probe, family: "disc".into() }
}

/// blocked receivers (sole consumer per stream, F2 steered away from) woken by sends and by the last drop
fn wake(r: &mut Rng) -> Scenario {
    let bcast = r.chance(2, 3);
    let cap = pick(r, &[1u64, 2, 4]);
    let wait = pick(r, &[WaitCfg::Busy, WaitCfg::Yield(0, 1), WaitCfg::Yield(0, 0), WaitCfg::Yield(2, 0), WaitCfg::Yield(2, 2), WaitCfg::Block(0, 0), WaitCfg::Block(1, 0), WaitCfg::Block(0, 1), WaitCfg::Block(2, 2)]);
    let cfg = QCfg { bcast, fut: false, cap, wait, fspins: None };
    let nvals = 1 + r.below(4);
    let nstreams = if bcast { 1 + r.below(3) } else { 1 };
    let mut main = Vec::new();
    let mut slots = vec![1usize];
    let mut next = 2;
    for _ in 1..nstreams {
        main.push(Op::AddStream(1));
        slots.push(next);
        next += 1;
    }
    let mut stayers = 0;
    for (si, &sl) in slots.iter().enumerate() {
        // a stream may leave after one value, but never the last one (F12 is steered away from)
        let may_leave = stayers > 0 || si + 1 < slots.len();
        let ops = if may_leave && r.chance(1, 3) {
            vec![Op::Recv(0), Op::Drop(0)]
        } else if r.chance(1, 3) {
            stayers += 1;
            // two blocked consumers share the stream
            main.push(Op::Clone(sl));
            main.push(Op::Spawn(vec![next], vec![Op::IterAll(0)]));
            next += 1;
            vec![Op::IterAll(0)]
        } else if r.chance(1, 2) {
            stayers += 1;
            vec![Op::IterAll(0)]
        } else {
            stayers += 1;
            vec![Op::IntoSingle(0), Op::RecvView(0), Op::Recv(0), Op::RecvView(0), Op::RecvView(0), Op::RecvView(0), Op::RecvView(0)]
        };
        main.push(Op::Spawn(vec![sl], ops));
    }
    main.extend(producer(0, nvals.max(1), 8, true));
    Scenario { cfg, main, epilogue: Epilogue::DropSendersFirst, family: "wake".into() }
}

/// futures handles with a deterministic executor: one task per thread
fn fut(r: &mut Rng) -> Scenario {
    let bcast = r.chance(1, 2);
    let cap = pick(r, &[1u64, 2, 2]);
    let fspins = if bcast { pick(r, &[Some((0usize, 0usize)), Some((1, 1)), Some((2, 0))]) } else { None };
    let cfg = QCfg { bcast, fut: true, cap, wait: WaitCfg::Busy, fspins };
    let nvals = 2 + r.below(3);
    let mut main = Vec::new();
    let n = crate::monitors::valid_wrap(cap);
    let nstreams = if bcast { 1 + r.below(2) } else { 1 };
    let mut slots = vec![1usize];
    let mut next = 2;
    for _ in 1..nstreams {
        main.push(Op::AddStream(1));
        slots.push(next);
        next += 1;
    }
    for &sl in &slots {
        // shared futures streams only on mpmc or with N >= 2 (F8b steered away from)
        let shared = r.chance(1, 3) && (!bcast || n >= 2);
        let total = nvals + 1;
        if shared {
            main.push(Op::Clone(sl));
            let s2 = next;
            next += 1;
            let mut a = Vec::new();
            let mut b = Vec::new();
            for _ in 0..total {
                a.push(Op::Poll(0));
                b.push(Op::Poll(0));
            }
            main.push(Op::Spawn(vec![sl], a));
            main.push(Op::Spawn(vec![s2], b));
        } else {
            let mut ops = Vec::new();
            if r.chance(1, 3) {
                ops.push(Op::IntoSingle(0));
            }
            // a stream may leave early while senders are still (possibly parked) sending, never the last one
            let leaves = r.chance(1, 3) && sl != slots[0];
            for _ in 0..(if leaves { 1 + r.below(2) } else { total }) {
                ops.push(Op::StreamNext(0));
            }
            if leaves {
                ops.push(Op::Drop(0));
            }
            main.push(Op::Spawn(vec![sl], ops));
        }
    }
    let mut p = Vec::new();
    for _ in 0..nvals {
        p.push(Op::SinkSend(0));
    }
    p.push(Op::Drop(0));
    if r.chance(1, 2) {
        main.push(Op::Clone(0));
        let mut p2 = Vec::new();
        for _ in 0..2 {
            p2.push(Op::SinkSend(0));
        }
        p2.push(Op::Drop(0));
        main.push(Op::Spawn(vec![next], p2));
    }
    main.extend(p);
    Scenario { cfg, main, epilogue: Epilogue::DropSendersFirst, family: "fut".into() }
}

/// enough retirements to run reclamation cycles repeatedly, writers mid-scan, idle handles
fn mem(r: &mut Rng) -> Scenario {
    let cfg = QCfg { bcast: true, fut: false, cap: pick(r, &[1u64, 2]), wait: WaitCfg::Busy, fspins: None };
    let mut main = Vec::new();
    // an idle receiver handle on its own stream that never operates? it would block the producers: idle *sender* clone instead
    if r.chance(1, 2) {
        main.push(Op::Clone(0)); // idle sender, never used, slot 2
    }
    let mut churn = Vec::new();
    let cycles = 12 + r.below(6);
    for i in 0..cycles {
        churn.push(Op::AddStream(0));
        if i % 3 == 0 {
            churn.push(Op::TryRecv(0));
        }
        churn.push(Op::Drop(1 + i));
    }
    churn.push(Op::TryIter(0, 20));
    main.push(Op::Spawn(vec![1], churn));
    for _ in 0..6 {
        main.push(Op::SendRetry(0, 3));
    }
    Scenario { cfg, main, epilogue: Epilogue::Probe, family: "mem".into() }
}

/// writers scanning the stream list of a full queue while streams are removed and added
fn scan(r: &mut Rng) -> Scenario {
    let cap = pick(r, &[1u64, 2]);
    let cfg = QCfg { bcast: true, fut: false, cap, wait: WaitCfg::Busy, fspins: None };
    let n = crate::monitors::valid_wrap(cap);
    let mut main = Vec::new();
    let extra = 2 + r.below(4);
    // streams 1..extra on slots 2.. ; all start at 0
    for _ in 0..extra {
        main.push(Op::AddStream(1));
    }
    // fill the ring so that every further send has to scan
    for _ in 0..n {
        main.push(Op::TrySend(0));
    }
    // each extra stream is removed (or drained and removed) by its own thread
    for i in 0..extra {
        let ops = match r.below(3) {
            0 => vec![Op::Drop(0)],
            1 => vec![Op::TryRecv(0), Op::Drop(0)],
            _ => vec![Op::AddStream(0), Op::Drop(0), Op::TryRecv(1), Op::Unsub(1)],
        };
        main.push(Op::Spawn(vec![2 + i], ops));
    }
    // the first stream keeps consuming a little
    main.push(Op::Spawn(vec![1], vec![Op::TryRecv(0), Op::TryRecv(0), Op::TryRecv(0)]));
    let two = r.chance(1, 2);
    if two {
        main.push(Op::Clone(0));
        main.push(Op::Spawn(vec![2 + extra], vec![Op::SendRetry(0, 3), Op::SendRetry(0, 3), Op::Drop(0)]));
    }
    for _ in 0..4 {
        main.push(Op::SendRetry(0, 3));
    }
    Scenario { cfg, main, epilogue: Epilogue::Probe, family: "scan".into() }
}

/// the unpinned read of a lone consumer (F16, fixed): consumer A of a shared stream is held right after it has
/// loaded its position, its sibling B takes that position and leaves, A goes on (with `is_single` true it would
/// skip the pin), and the producer wraps onto the slot A is reading. Run under `Strategy::Script`.
fn pin(r: &mut Rng) -> Scenario {
    let cap = pick(r, &[1u64, 1, 2]);
    let n = crate::monitors::valid_wrap(cap);
    let cfg = QCfg { bcast: r.chance(3, 4), fut: false, cap, wait: WaitCfg::Busy, fspins: None };
    let mut main = Vec::new();
    main.push(Op::Clone(1)); // slot 2: sibling handle B of stream 0
    for _ in 0..n {
        main.push(Op::TrySend(0));
    }
    main.push(Op::Spawn(vec![1], vec![Op::TryRecv(0), Op::TryRecv(0)]));
    main.push(Op::Spawn(vec![2], vec![Op::TryRecv(0), Op::Drop(0)]));
    for _ in 0..(n + 1) {
        main.push(Op::SendRetry(0, 3));
    }
    Scenario { cfg, main, epilogue: Epilogue::Probe, family: "pin".into() }
}

/// the transient pin and the parked sender (F17, fixed): consumer A of a shared stream of a futures queue holds a
/// pin while its sibling B takes the position and returns (its wake-up of the senders finds nobody parked); the
/// sender task finds the slot pinned, reports Full and parks; A gives up the pin, finds nothing to receive and
/// waits — in a blocking `recv` without having woken the sender. Run under `Strategy::Script`.
fn pinf(r: &mut Rng) -> Scenario {
    let cap = pick(r, &[1u64, 1, 2]);
    let n = crate::monitors::valid_wrap(cap);
    let bcast = r.chance(3, 4);
    // (the move-out futures queue has no constructor with spin counts)
    let cfg = QCfg { bcast, fut: true, cap, wait: WaitCfg::Busy, fspins: if bcast { Some((1, 1)) } else { None } };
    let mut main = Vec::new();
    main.push(Op::Clone(1)); // slot 2: sibling handle B of stream 0
    for _ in 0..n {
        main.push(Op::StartSend(0));
    }
    let a_op = if r.chance(2, 3) { Op::Recv(0) } else { Op::Poll(0) };
    main.push(Op::Spawn(vec![1], vec![a_op, Op::TryRecv(0)]));
    main.push(Op::Spawn(vec![2], vec![Op::TryRecv(0)]));
    main.push(Op::SinkSend(0));
    main.push(Op::SinkSend(0));
    main.push(Op::Drop(0));
    Scenario { cfg, main, epilogue: Epilogue::Probe, family: "pinf".into() }
}

/// known finding F1: add_stream by a handle that shares its stream with a consumer that keeps receiving
/// while the producer wraps the ring (the new stream may be published at a stale position)
fn kf1(r: &mut Rng) -> Scenario {
    let cap = pick(r, &[1u64, 2, 2, 4]);
    let n = crate::monitors::valid_wrap(cap);
    let cfg = QCfg { bcast: true, fut: false, cap, wait: WaitCfg::Busy, fspins: None };
    let mut main = Vec::new();
    main.push(Op::Clone(1)); // slot 2: sibling handle B of stream 0
    for _ in 0..n {
        main.push(Op::TrySend(0));
    }
    // A adds a stream, B drains
    main.push(Op::Spawn(vec![1], vec![Op::AddStream(0), Op::TryIter(0, 3 * n), Op::TryIter(1, 3 * n)]));
    main.push(Op::Spawn(vec![2], vec![Op::TryIter(0, 3 * n), Op::TryIter(0, 3 * n)]));
    for _ in 0..(2 * n + 2) {
        main.push(Op::SendRetry(0, 3));
    }
    Scenario { cfg, main, epilogue: Epilogue::Probe, family: "kf1".into() }
}

/// known finding F12: sends in flight while the last stream of a move-out queue is removed
fn kf12(r: &mut Rng) -> Scenario {
    let cfg = QCfg { bcast: false, fut: false, cap: pick(r, &[1u64, 1, 2]), wait: WaitCfg::Busy, fspins: None };
    let mut main = Vec::new();
    main.push(Op::TrySend(0));
    main.push(Op::Spawn(vec![1], vec![Op::TryRecv(0), Op::Drop(0)]));
    if r.chance(1, 2) {
        main.push(Op::Clone(0));
        main.push(Op::Spawn(vec![2], vec![Op::SendRetry(0, 2), Op::SendRetry(0, 2), Op::Drop(0)]));
    }
    for _ in 0..4 {
        main.push(Op::SendRetry(0, 2));
    }
    main.push(Op::Drop(0));
    Scenario { cfg, main, epilogue: Epilogue::DropSendersFirst, family: "kf12".into() }
}
