//! Payload type with identity, the handle table and the interpreter of API operations.
use crate::sched::{my_tid, Sched};
use futures::executor::{spawn, Notify, NotifyHandle};
use futures::{Async, AsyncSink, Sink, Stream};
use multiqueue2::wait::{BlockingWait, BusyWait, YieldingWait};
use multiqueue2::*;
use std::collections::HashMap;
use std::sync::mpsc::{TryRecvError, TrySendError};
use std::sync::{Arc, Mutex};

// ---------------------------------------------------------------------------------------------
// payload registry (ledger + overlap monitor); one per run

#[derive(Default)]
pub struct Registry {
    pub next_oid: u64,
    /// oid -> (vid, drops, parent oid)
    pub objs: HashMap<u64, (u64, u32, u64)>,
    /// active clone/view bodies: tid -> (addr, oid, kind)
    pub active: HashMap<usize, (usize, u64, &'static str)>,
    pub violations: Vec<String>,
    pub births: u64,
    pub clones: u64,
    pub drops: u64,
}

pub type Reg = Arc<Mutex<Registry>>;

thread_local! {
    pub static REG: std::cell::RefCell<Option<Reg>> = std::cell::RefCell::new(None);
}

pub fn set_reg(r: Option<Reg>) {
    REG.with(|x| *x.borrow_mut() = r);
}
fn reg() -> Option<Reg> {
    REG.try_with(|x| x.borrow().clone()).unwrap_or(None)
}

pub struct P {
    pub vid: u64,
    pub chk: u64,
    pub oid: u64,
}

impl P {
    pub fn new(vid: u64) -> P {
        let mut oid = 0;
        if let Some(r) = reg() {
            let mut g = r.lock().unwrap();
            g.next_oid += 1;
            oid = g.next_oid;
            g.objs.insert(oid, (vid, 0, 0));
            g.births += 1;
        }
        P { vid, chk: !vid, oid }
    }
    fn snapshot(&self) -> (u64, u64, u64) {
        unsafe {
            let p = self as *const P;
            (
                std::ptr::read_volatile(&(*p).vid),
                std::ptr::read_volatile(&(*p).chk),
                std::ptr::read_volatile(&(*p).oid),
            )
        }
    }
}

fn body_begin(p: &P, kind: &'static str) -> (u64, u64, u64) {
    let _sus = crate::allocs::Suspend::new();
    let addr = p as *const P as usize;
    let s = p.snapshot();
    if let Some(r) = reg() {
        let mut g = r.lock().unwrap();
        if s.1 != !s.0 {
            g.violations.push(format!("C04 {} of a torn value at {:#x}: vid={} chk={:#x}", kind, addr, s.0, s.1));
        }
        match g.objs.get(&s.2) {
            None => g.violations.push(format!("C04 {} of an unknown object oid={} at {:#x}", kind, s.2, addr)),
            Some(&(_, d, _)) if d > 0 => {
                g.violations.push(format!("C04 {} of a dropped object oid={} vid={} at {:#x}", kind, s.2, s.0, addr))
            }
            _ => {}
        }
        g.active.insert(my_tid(), (addr, s.2, kind));
    }
    s
}

fn body_end(p: &P, kind: &'static str, s: (u64, u64, u64)) {
    let _sus = crate::allocs::Suspend::new();
    let addr = p as *const P as usize;
    let e = p.snapshot();
    if let Some(r) = reg() {
        let mut g = r.lock().unwrap();
        g.active.remove(&my_tid());
        if e != s {
            g.violations.push(format!(
                "C04 value changed during {} at {:#x}: vid {}->{} oid {}->{}",
                kind, addr, s.0, e.0, s.2, e.2
            ));
        }
        if let Some(&(_, d, _)) = g.objs.get(&s.2) {
            if d > 0 {
                g.violations.push(format!("C04 object oid={} vid={} dropped during {}", s.2, s.0, kind));
            }
        }
    }
}

impl Clone for P {
    fn clone(&self) -> P {
        let _sus = crate::allocs::Suspend::new();
        let s = body_begin(self, "clone");
        multiqueue2::verif_hooks::tau("clone_mid", self as *const P as usize);
        body_end(self, "clone", s);
        let mut oid = 0;
        if let Some(r) = reg() {
            let mut g = r.lock().unwrap();
            g.next_oid += 1;
            oid = g.next_oid;
            g.objs.insert(oid, (s.0, 0, s.2));
            g.clones += 1;
        }
        P { vid: s.0, chk: !s.0, oid }
    }
}

impl Drop for P {
    fn drop(&mut self) {
        let _sus = crate::allocs::Suspend::new();
        let addr = self as *const P as usize;
        multiqueue2::verif_hooks::tau("drop", addr);
        if let Some(r) = reg() {
            let mut g = r.lock().unwrap();
            g.drops += 1;
            let oid = self.oid;
            let vid = self.vid;
            let act: Vec<(usize, (usize, u64, &'static str))> = g.active.iter().map(|(a, b)| (*a, *b)).collect();
            for (t, (a, o, k)) in act {
                if o == oid && t != my_tid() {
                    g.violations.push(format!("C04 object oid={} vid={} dropped while thread {} is in {} at {:#x}", oid, vid, t, k, a));
                }
            }
            match g.objs.get_mut(&oid) {
                None => g.violations.push(format!("C05 drop of unknown object oid={} vid={}", oid, vid)),
                Some(e) => {
                    e.1 += 1;
                    if e.1 > 1 {
                        let d = e.1;
                        g.violations.push(format!("C05 object oid={} vid={} dropped {} times", oid, vid, d));
                    }
                }
            }
        }
    }
}

/// called by the scheduler runtime on a `tau write` / `tau read` at a slot address
pub fn slot_access(regy: &Reg, tid: usize, what: &str, addr: usize) {
    let mut g = regy.lock().unwrap();
    if what == "write" {
        let act: Vec<(usize, (usize, u64, &'static str))> = g.active.iter().map(|(a, b)| (*a, *b)).collect();
        for (t, (a, o, k)) in act {
            if a == addr && t != tid {
                g.violations.push(format!("C04 slot {:#x} written by thread {} while thread {} is in {} of oid={}", addr, tid, t, k, o));
            }
        }
    }
}

fn view(p: &P) -> u64 {
    let _sus = crate::allocs::Suspend::new();
    let s = body_begin(p, "view");
    multiqueue2::verif_hooks::tau("view_mid", p as *const P as usize);
    body_end(p, "view", s);
    s.0
}

pub type ViewFn = Box<dyn FnMut(&P) -> u64 + Send>;
fn view_fn() -> ViewFn {
    Box::new(|p: &P| {
        let _sus = crate::allocs::Suspend::new();
        view(p)
    })
}

// ---------------------------------------------------------------------------------------------
// handles

pub enum H {
    BS(BroadcastSender<P>),
    BR(BroadcastReceiver<P>),
    BU(BroadcastUniReceiver<P>),
    BFS(BroadcastFutSender<P>),
    BFR(BroadcastFutReceiver<P>),
    BFU(BroadcastFutUniReceiver<u64, ViewFn, P>),
    MS(MPMCSender<P>),
    MR(MPMCReceiver<P>),
    MU(MPMCUniReceiver<P>),
    MFS(MPMCFutSender<P>),
    MFR(MPMCFutReceiver<P>),
    MFU(MPMCFutUniReceiver<u64, ViewFn, P>),
}

impl H {
    pub fn kind(&self) -> &'static str {
        match self {
            H::BS(_) => "BS",
            H::BR(_) => "BR",
            H::BU(_) => "BU",
            H::BFS(_) => "BFS",
            H::BFR(_) => "BFR",
            H::BFU(_) => "BFU",
            H::MS(_) => "MS",
            H::MR(_) => "MR",
            H::MU(_) => "MU",
            H::MFS(_) => "MFS",
            H::MFR(_) => "MFR",
            H::MFU(_) => "MFU",
        }
    }
    pub fn layout(&self) -> multiqueue2::verif_hooks::Layout {
        match self {
            H::BS(x) => x.verif_layout(),
            H::BR(x) => x.verif_layout(),
            H::BU(x) => x.verif_layout(),
            H::BFS(x) => x.verif_layout(),
            H::BFR(x) => x.verif_layout(),
            H::BFU(x) => x.verif_layout(),
            H::MS(x) => x.verif_layout(),
            H::MR(x) => x.verif_layout(),
            H::MU(x) => x.verif_layout(),
            H::MFS(x) => x.verif_layout(),
            H::MFR(x) => x.verif_layout(),
            H::MFU(x) => x.verif_layout(),
        }
    }
    pub fn is_sender(&self) -> bool {
        matches!(self, H::BS(_) | H::BFS(_) | H::MS(_) | H::MFS(_))
    }
}

#[derive(Clone, Debug, PartialEq)]
pub enum WaitCfg {
    Busy,
    Yield(usize, usize),
    Block(usize, usize),
    BlockDefault,
    YieldDefault,
}

#[derive(Clone, Debug, PartialEq)]
pub struct QCfg {
    pub bcast: bool,
    pub fut: bool,
    pub cap: u64,
    pub wait: WaitCfg,
    /// futures spins (None = default constructor)
    pub fspins: Option<(usize, usize)>,
}

impl QCfg {
    pub fn text(&self) -> String {
        let w = match &self.wait {
            WaitCfg::Busy => "busy".to_string(),
            WaitCfg::Yield(a, b) => format!("yield:{}:{}", a, b),
            WaitCfg::Block(a, b) => format!("block:{}:{}", a, b),
            WaitCfg::BlockDefault => "block:50:50".to_string(),
            WaitCfg::YieldDefault => "yield:50:50".to_string(),
        };
        let f = match self.fspins {
            None => "fut:50:50".to_string(),
            Some((a, b)) => format!("fut:{}:{}", a, b),
        };
        format!(
            "flavour={} kind={} cap={} wait={}",
            if self.bcast { "bcast" } else { "mpmc" },
            if self.fut { "fut" } else { "plain" },
            self.cap,
            if self.fut { f } else { w }
        )
    }
}

pub fn create(cfg: &QCfg) -> (H, H) {
    if cfg.fut {
        if cfg.bcast {
            let (s, r) = match cfg.fspins {
                None => broadcast_fut_queue::<P>(cfg.cap),
                Some((a, b)) => broadcast_fut_queue_with::<P>(cfg.cap, a, b),
            };
            (H::BFS(s), H::BFR(r))
        } else {
            // mpmc_fut_queue has no _with variant
            let (s, r) = mpmc_fut_queue::<P>(cfg.cap);
            (H::MFS(s), H::MFR(r))
        }
    } else if cfg.bcast {
        let (s, r) = match cfg.wait {
            WaitCfg::Busy => broadcast_queue_with::<P, _>(cfg.cap, BusyWait::new()),
            WaitCfg::Yield(a, b) => broadcast_queue_with::<P, _>(cfg.cap, YieldingWait::with_spins(a, b)),
            WaitCfg::YieldDefault => broadcast_queue_with::<P, _>(cfg.cap, YieldingWait::new()),
            WaitCfg::Block(a, b) => broadcast_queue_with::<P, _>(cfg.cap, BlockingWait::with_spins(a, b)),
            WaitCfg::BlockDefault => broadcast_queue::<P>(cfg.cap),
        };
        (H::BS(s), H::BR(r))
    } else {
        let (s, r) = match cfg.wait {
            WaitCfg::Busy => mpmc_queue_with::<P, _>(cfg.cap, BusyWait::new()),
            WaitCfg::Yield(a, b) => mpmc_queue_with::<P, _>(cfg.cap, YieldingWait::with_spins(a, b)),
            WaitCfg::YieldDefault => mpmc_queue_with::<P, _>(cfg.cap, YieldingWait::new()),
            WaitCfg::Block(a, b) => mpmc_queue_with::<P, _>(cfg.cap, BlockingWait::with_spins(a, b)),
            WaitCfg::BlockDefault => mpmc_queue::<P>(cfg.cap),
        };
        (H::MS(s), H::MR(r))
    }
}

// ---------------------------------------------------------------------------------------------
// operations

#[derive(Clone, Debug, PartialEq)]
pub enum Op {
    TrySend(usize),
    TryRecv(usize),
    Recv(usize),
    TryRecvView(usize),
    RecvView(usize),
    /// `try_iter()` style: receive until the first error, at most n values
    TryIter(usize, usize),
    /// consuming blocking iterator: receive until the end
    IterAll(usize),
    Clone(usize),
    AddStream(usize),
    Drop(usize),
    Unsub(usize),
    IntoSingle(usize),
    IntoMulti(usize),
    StartSend(usize),
    PollComplete(usize),
    Poll(usize),
    /// task-level: send one value through the sink, parking on NotReady
    SinkSend(usize),
    /// task-level: next item of the stream, parking on NotReady
    StreamNext(usize),
    /// try_send, retrying up to n times on Full (yielding between tries)
    SendRetry(usize, usize),
    /// move handles (slots) to a new thread running `ops`
    Spawn(Vec<usize>, Vec<Op>),
}

impl Op {
    pub fn text(&self) -> String {
        match self {
            Op::TrySend(h) => format!("try_send {}", h),
            Op::TryRecv(h) => format!("try_recv {}", h),
            Op::Recv(h) => format!("recv {}", h),
            Op::TryRecvView(h) => format!("try_recv_view {}", h),
            Op::RecvView(h) => format!("recv_view {}", h),
            Op::TryIter(h, n) => format!("try_iter {} {}", h, n),
            Op::IterAll(h) => format!("iter_all {}", h),
            Op::Clone(h) => format!("clone {}", h),
            Op::AddStream(h) => format!("add_stream {}", h),
            Op::Drop(h) => format!("drop {}", h),
            Op::Unsub(h) => format!("unsub {}", h),
            Op::IntoSingle(h) => format!("into_single {}", h),
            Op::IntoMulti(h) => format!("into_multi {}", h),
            Op::StartSend(h) => format!("start_send {}", h),
            Op::PollComplete(h) => format!("poll_complete {}", h),
            Op::Poll(h) => format!("poll {}", h),
            Op::SinkSend(h) => format!("sink_send {}", h),
            Op::StreamNext(h) => format!("stream_next {}", h),
            Op::SendRetry(h, n) => format!("send_retry {} {}", h, n),
            Op::Spawn(hs, ops) => format!(
                "spawn [{}] [{}]",
                hs.iter().map(|x| x.to_string()).collect::<Vec<_>>().join(","),
                ops.iter().map(|o| o.text()).collect::<Vec<_>>().join(";")
            ),
        }
    }
}

/// A completed API call as the monitors see it.
#[derive(Clone, Debug)]
pub struct CallRec {
    pub tid: usize,
    pub gid: usize,
    pub hkind: &'static str,
    pub stream: usize,
    pub op: String,
    pub res: String,
    /// value id involved (sent / received / handed back), if any
    pub vid: Option<u64>,
    pub t0: usize,
    pub t1: usize,
    /// new handle gid created by this call (clone / add_stream / conversions)
    pub new_gid: Option<usize>,
    pub steps: usize,
}

pub struct Slot {
    pub h: Option<H>,
    pub gid: usize,
    pub stream: usize,
}

#[derive(Default)]
pub struct Shared {
    pub next_gid: usize,
    pub next_stream: usize,
    pub next_vid: u64,
    pub next_ghost: usize,
    pub calls: Vec<CallRec>,
    /// handles returned by finished threads (for the epilogue)
    pub leftovers: Vec<Slot>,
    pub panics: Vec<String>,
    /// address -> symbolic word name
    pub names: HashMap<usize, String>,
}

impl Shared {
    /// record the names of the words behind a handle
    pub fn bind(&mut self, h: &H, gid: usize, stream: usize) {
        let _sus = crate::allocs::Suspend::new();
        self.bind_tok(h, gid, stream, gid)
    }

    /// `tokid`: the id under which the handle's memory token is known
    pub fn bind_tok(&mut self, h: &H, gid: usize, stream: usize, tokid: usize) {
        let _sus = crate::allocs::Suspend::new();
        let l = h.layout();
        let n = &mut self.names;
        n.entry(l.head).or_insert("head".into());
        n.entry(l.tail_cache).or_insert("tc".into());
        n.entry(l.writers).or_insert("writers".into());
        n.entry(l.readers).or_insert("readers".into());
        n.entry(l.signal).or_insert("signal".into());
        n.entry(l.epoch).or_insert("epoch".into());
        n.entry(l.mem_manager).or_insert("mxmgr".into());
        n.entry(l.wait_to_free).or_insert("mxwtf".into());
        if l.wait != 0 {
            n.entry(l.wait).or_insert("cwait".into());
            n.entry(l.prod_wait).or_insert("pwait".into());
        }
        for i in 0..l.capacity {
            n.entry(l.data + i * l.data_stride + l.wraps_off).or_insert(format!("tag.{}", i));
            n.entry(l.data + i * l.data_stride + l.val_off).or_insert(format!("val.{}", i));
            n.entry(l.refs + i * l.refs_stride + l.refcnt_off).or_insert(format!("ref.{}", i));
        }
        if l.token != 0 {
            n.insert(l.token, format!("tok.{}", tokid));
        }
        if l.pos != 0 {
            n.insert(l.pos, format!("pos.{}", stream));
            n.insert(l.meta, format!("ncons.{}", stream));
        }
    }
}

pub struct Ctx {
    pub sched: Option<Arc<Sched>>,
    pub shared: Arc<Mutex<Shared>>,
    pub slots: Vec<Slot>,
    pub notify: NotifyHandle,
    pub task_id: usize,
}

pub struct SchedNotify(pub Option<Arc<Sched>>, pub Arc<Mutex<Vec<usize>>>);
impl Notify for SchedNotify {
    fn notify(&self, id: usize) {
        let _sus = crate::allocs::Suspend::new();
        self.1.lock().unwrap().push(id);
        if let Some(s) = &self.0 {
            s.task_notify(id);
        }
    }
}

fn in_task<R, F: FnOnce() -> R>(ctx_notify: &NotifyHandle, id: usize, f: F) -> R {
    let mut f = Some(f);
    let mut t = spawn(futures::future::lazy(move || Ok::<R, ()>((f.take().unwrap())())));
    match t.poll_future_notify(ctx_notify, id) {
        Ok(Async::Ready(r)) => r,
        _ => unreachable!(),
    }
}

fn send_res(r: Result<(), TrySendError<P>>) -> (String, Option<P>) {
    match r {
        Ok(()) => ("ok".into(), None),
        Err(TrySendError::Full(p)) => ("full".into(), Some(p)),
        Err(TrySendError::Disconnected(p)) => ("disc".into(), Some(p)),
    }
}

fn recv_res(r: Result<P, TryRecvError>) -> (String, Option<P>) {
    match r {
        Ok(p) => ("ok".into(), Some(p)),
        Err(TryRecvError::Empty) => ("empty".into(), None),
        Err(TryRecvError::Disconnected) => ("disc".into(), None),
    }
}

fn check_returned(p: &P, what: &str) -> Option<String> {
    if p.chk != !p.vid {
        return Some(format!("C04 {} returned a torn value vid={} chk={:#x}", what, p.vid, p.chk));
    }
    if let Some(r) = reg() {
        let g = r.lock().unwrap();
        match g.objs.get(&p.oid) {
            None => return Some(format!("C04 {} returned an unknown object oid={}", what, p.oid)),
            Some(&(_, d, _)) if d > 0 => {
                return Some(format!("C04 {} returned an already dropped object oid={} vid={}", what, p.oid, p.vid))
            }
            _ => {}
        }
    }
    None
}

impl Ctx {
    fn now(&self) -> usize {
        match &self.sched {
            Some(s) => s.now(),
            None => 0,
        }
    }

    fn begin(&self, text: String) -> usize {
        if let Some(s) = &self.sched {
            s.call_begin(text);
        }
        let n = self.now();
        crate::allocs::set_in_call(true);
        n
    }

    fn alloc_gid(&self) -> usize {
        let mut g = self.shared.lock().unwrap();
        g.next_gid += 1;
        g.next_gid - 1
    }

    fn new_slot(&mut self, h: H, stream: usize, gid: usize) -> usize {
        let _sus = crate::allocs::Suspend::new();
        self.shared.lock().unwrap().bind(&h, gid, stream);
        self.slots.push(Slot { h: Some(h), gid, stream });
        gid
    }

    fn new_stream(&self) -> usize {
        let mut g = self.shared.lock().unwrap();
        g.next_stream += 1;
        g.next_stream - 1
    }

    fn fresh_vid(&self) -> u64 {
        let mut g = self.shared.lock().unwrap();
        g.next_vid += 1;
        g.next_vid
    }

    /// Executes one op; returns the result text (also recorded).
    pub fn exec(&mut self, op: &Op) -> String {
        let tid = my_tid();
        let hidx = match op {
            Op::TrySend(h) | Op::TryRecv(h) | Op::Recv(h) | Op::TryRecvView(h) | Op::RecvView(h) | Op::TryIter(h, _)
            | Op::IterAll(h) | Op::Clone(h) | Op::AddStream(h) | Op::Drop(h) | Op::Unsub(h) | Op::IntoSingle(h)
            | Op::IntoMulti(h) | Op::StartSend(h) | Op::PollComplete(h) | Op::Poll(h) | Op::SinkSend(h)
            | Op::StreamNext(h) | Op::SendRetry(h, _) => *h,
            Op::Spawn(..) => usize::MAX,
        };
        if hidx == usize::MAX {
            return "spawn".into();
        }
        if hidx >= self.slots.len() || self.slots[hidx].h.is_none() {
            return "nohandle".into();
        }
        // composite ops expand to several calls
        match op {
            Op::TryIter(h, n) => {
                let mut out = Vec::new();
                for _ in 0..*n {
                    let r = self.exec(&Op::TryRecv(*h));
                    let stop = !r.starts_with("ok");
                    out.push(r);
                    if stop {
                        break;
                    }
                }
                return out.join(",");
            }
            Op::IterAll(h) => {
                let mut out = Vec::new();
                loop {
                    let r = self.exec(&Op::Recv(*h));
                    let stop = !r.starts_with("ok");
                    out.push(r);
                    if stop {
                        break;
                    }
                }
                let _ = self.exec(&Op::Drop(*h));
                return out.join(",");
            }
            Op::SendRetry(h, n) => {
                let mut last = String::new();
                for i in 0..*n {
                    last = self.exec(&Op::TrySend(*h));
                    if !last.starts_with("full") {
                        break;
                    }
                    if i + 1 < *n {
                        multiqueue2::verif_hooks::yield_now();
                    }
                }
                return last;
            }
            Op::SinkSend(h) => {
                // one value; park and retry on NotReady
                let vid = self.fresh_vid();
                let mut first = true;
                loop {
                    let r = self.exec_call(&Op::StartSend(*h), *h, Some(vid), first);
                    first = false;
                    if r.starts_with("notready") {
                        if let Some(s) = &self.sched {
                            s.task_park(self.task_id);
                        } else {
                            return r;
                        }
                    } else {
                        return r;
                    }
                }
            }
            Op::StreamNext(h) => loop {
                let r = self.exec_call(&Op::Poll(*h), *h, None, true);
                if r == "notready" {
                    if let Some(s) = &self.sched {
                        s.task_park(self.task_id);
                    } else {
                        return r;
                    }
                } else {
                    return r;
                }
            },
            _ => {}
        }
        let _ = tid;
        self.exec_call(op, hidx, None, true)
    }

    fn exec_call(&mut self, op: &Op, hidx: usize, forced_vid: Option<u64>, new_value: bool) -> String {
        let tid = my_tid();
        let gid = self.slots[hidx].gid;
        let stream = self.slots[hidx].stream;
        let hkind = self.slots[hidx].h.as_ref().unwrap().kind();
        let mut vid: Option<u64> = None;
        let mut new_gid: Option<usize> = None;
        let mut viol: Option<String> = None;
        let mut hold: Vec<P> = Vec::new();
        let optext = op.text().split(' ').next().unwrap().to_string();
        // values are created before the call begins so that the payload constructor is outside
        let payload = match op {
            Op::TrySend(_) | Op::StartSend(_) => {
                let v = forced_vid.unwrap_or_else(|| self.fresh_vid());
                vid = Some(v);
                let _ = new_value;
                Some(P::new(v))
            }
            _ => None,
        };
        // ids of handles / streams this call will create are fixed before it starts
        let mut pre_gid: Option<usize> = None;
        let mut pre_stream: Option<usize> = None;
        match op {
            Op::Clone(_) => pre_gid = Some(self.alloc_gid()),
            Op::AddStream(_) => {
                pre_gid = Some(self.alloc_gid());
                pre_stream = Some(self.new_stream());
            }
            Op::IntoMulti(_) if hkind == "BFU" || hkind == "MFU" => {
                pre_stream = Some(self.new_stream());
                let mut g = self.shared.lock().unwrap();
                g.next_ghost += 1;
                pre_gid = Some(1_000_000 + g.next_ghost);
            }
            // the futures into_single clones the receiver and drops the old handle: the clone gets an id
            Op::IntoSingle(_) if hkind == "BFR" || hkind == "MFR" => {
                // ghost id (never a real handle): does not disturb the numbering of handles
                let mut g = self.shared.lock().unwrap();
                g.next_ghost += 1;
                pre_gid = Some(1_000_000 + g.next_ghost);
            }
            _ => {}
        }
        let t0 = self.begin(format!(
            "{} g{} {} s{}{}{}{}",
            optext,
            gid,
            hkind,
            stream,
            vid.map(|v| format!(" v{}", v)).unwrap_or_default(),
            pre_gid.map(|v| format!(" ng{}", v)).unwrap_or_default(),
            pre_stream.map(|v| format!(" ns{}", v)).unwrap_or_default()
        ));
        let notify = self.notify.clone();
        let task_id = self.task_id;
        let res: String = {
            let slot = &mut self.slots[hidx];
            match op {
                Op::TrySend(_) => {
                    let p = payload.unwrap();
                    let r = match slot.h.as_ref().unwrap() {
                        H::BS(s) => s.try_send(p),
                        H::BFS(s) => s.try_send(p),
                        H::MS(s) => s.try_send(p),
                        H::MFS(s) => s.try_send(p),
                        _ => return self.bad(t0),
                    };
                    let (t, back) = send_res(r);
                    if let Some(b) = back {
                        if b.vid != vid.unwrap() {
                            viol = Some(format!("C15 send handed back a different value: sent v{} got v{}", vid.unwrap(), b.vid));
                        }
                        if let Some(m) = check_returned(&b, "try_send error") {
                            viol = Some(m);
                        }
                        hold.push(b);
                    }
                    t
                }
                Op::StartSend(_) => {
                    let p = payload.unwrap();
                    let r = match slot.h.as_mut().unwrap() {
                        H::BFS(s) => in_task(&notify, task_id, || s.start_send(p)),
                        H::MFS(s) => in_task(&notify, task_id, || s.start_send(p)),
                        _ => return self.bad(t0),
                    };
                    match r {
                        Ok(AsyncSink::Ready) => "ready".into(),
                        Ok(AsyncSink::NotReady(b)) => {
                            if b.vid != vid.unwrap() {
                                viol = Some(format!("C15 start_send NotReady handed back v{} for v{}", b.vid, vid.unwrap()));
                            }
                            hold.push(b);
                            "notready".into()
                        }
                        Err(e) => {
                            if e.0.vid != vid.unwrap() {
                                viol = Some(format!("C15 start_send Err handed back v{} for v{}", e.0.vid, vid.unwrap()));
                            }
                            hold.push(e.0);
                            "err".into()
                        }
                    }
                }
                Op::PollComplete(_) => {
                    let r = match slot.h.as_mut().unwrap() {
                        H::BFS(s) => in_task(&notify, task_id, || s.poll_complete().map_err(|_| ())),
                        H::MFS(s) => in_task(&notify, task_id, || s.poll_complete().map_err(|_| ())),
                        _ => return self.bad(t0),
                    };
                    match r {
                        Ok(Async::Ready(())) => "ready".into(),
                        Ok(Async::NotReady) => "notready".into(),
                        Err(_) => "err".into(),
                    }
                }
                Op::TryRecv(_) => {
                    let r: Result<Result<P, u64>, TryRecvError> = match slot.h.as_mut().unwrap() {
                        H::BR(r) => r.try_recv().map(Ok),
                        H::BU(r) => r.try_recv().map(Ok),
                        H::BFR(r) => r.try_recv().map(Ok),
                        H::BFU(r) => r.try_recv().map(Err),
                        H::MR(r) => r.try_recv().map(Ok),
                        H::MU(r) => r.try_recv().map(Ok),
                        H::MFR(r) => r.try_recv().map(Ok),
                        H::MFU(r) => r.try_recv().map(Err),
                        _ => return self.bad(t0),
                    };
                    match r {
                        Ok(Ok(p)) => {
                            vid = Some(p.vid);
                            viol = check_returned(&p, "try_recv");
                            hold.push(p);
                            "ok".into()
                        }
                        Ok(Err(v)) => {
                            vid = Some(v);
                            "ok".into()
                        }
                        Err(TryRecvError::Empty) => "empty".into(),
                        Err(TryRecvError::Disconnected) => "disc".into(),
                    }
                }
                Op::Recv(_) => {
                    let r: Result<Result<P, u64>, ()> = match slot.h.as_mut().unwrap() {
                        H::BR(r) => r.recv().map(Ok).map_err(|_| ()),
                        H::BU(r) => r.recv().map(Ok).map_err(|_| ()),
                        H::BFR(r) => r.recv().map(Ok).map_err(|_| ()),
                        H::BFU(r) => r.recv().map(Err).map_err(|_| ()),
                        H::MR(r) => r.recv().map(Ok).map_err(|_| ()),
                        H::MU(r) => r.recv().map(Ok).map_err(|_| ()),
                        H::MFR(r) => r.recv().map(Ok).map_err(|_| ()),
                        H::MFU(r) => r.recv().map(Err).map_err(|_| ()),
                        _ => return self.bad(t0),
                    };
                    match r {
                        Ok(Ok(p)) => {
                            vid = Some(p.vid);
                            viol = check_returned(&p, "recv");
                            hold.push(p);
                            "ok".into()
                        }
                        Ok(Err(v)) => {
                            vid = Some(v);
                            "ok".into()
                        }
                        Err(()) => "disc".into(),
                    }
                }
                Op::TryRecvView(_) => {
                    let r = match slot.h.as_mut().unwrap() {
                        H::BU(r) => r.try_recv_view(view).map_err(|e| e.1),
                        H::MU(r) => r.try_recv_view(view).map_err(|e| e.1),
                        _ => return self.bad(t0),
                    };
                    match r {
                        Ok(v) => {
                            vid = Some(v);
                            "ok".into()
                        }
                        Err(TryRecvError::Empty) => "empty".into(),
                        Err(TryRecvError::Disconnected) => "disc".into(),
                    }
                }
                Op::RecvView(_) => {
                    let r = match slot.h.as_mut().unwrap() {
                        H::BU(r) => r.recv_view(view).map_err(|_| ()),
                        H::MU(r) => r.recv_view(view).map_err(|_| ()),
                        _ => return self.bad(t0),
                    };
                    match r {
                        Ok(v) => {
                            vid = Some(v);
                            "ok".into()
                        }
                        Err(()) => "disc".into(),
                    }
                }
                Op::Poll(_) => {
                    let r: Result<Async<Option<Result<P, u64>>>, ()> = match slot.h.as_mut().unwrap() {
                        H::BFR(r) => in_task(&notify, task_id, || r.poll().map(|a| a.map(|o| o.map(Ok)))),
                        H::BFU(r) => in_task(&notify, task_id, || r.poll().map(|a| a.map(|o| o.map(Err)))),
                        H::MFR(r) => in_task(&notify, task_id, || r.poll().map(|a| a.map(|o| o.map(Ok)))),
                        H::MFU(r) => in_task(&notify, task_id, || r.poll().map(|a| a.map(|o| o.map(Err)))),
                        _ => return self.bad(t0),
                    };
                    match r {
                        Ok(Async::Ready(Some(Ok(p)))) => {
                            vid = Some(p.vid);
                            viol = check_returned(&p, "poll");
                            hold.push(p);
                            "some".into()
                        }
                        Ok(Async::Ready(Some(Err(v)))) => {
                            vid = Some(v);
                            "some".into()
                        }
                        Ok(Async::Ready(None)) => "none".into(),
                        Ok(Async::NotReady) => "notready".into(),
                        Err(()) => "err".into(),
                    }
                }
                Op::Clone(_) => {
                    let nh = match slot.h.as_ref().unwrap() {
                        H::BS(s) => H::BS(s.clone()),
                        H::BR(r) => H::BR(r.clone()),
                        H::BFS(s) => H::BFS(s.clone()),
                        H::BFR(r) => H::BFR(r.clone()),
                        H::MS(s) => H::MS(s.clone()),
                        H::MR(r) => H::MR(r.clone()),
                        H::MFS(s) => H::MFS(s.clone()),
                        H::MFR(r) => H::MFR(r.clone()),
                        _ => return self.bad(t0),
                    };
                    let g = self.new_slot(nh, stream, pre_gid.unwrap());
                    new_gid = Some(g);
                    format!("new g{}", g)
                }
                Op::AddStream(_) => {
                    let nh = match slot.h.as_ref().unwrap() {
                        H::BR(r) => H::BR(r.add_stream()),
                        H::BFR(r) => H::BFR(r.add_stream()),
                        H::BFU(r) => H::BFU(r.add_stream_with(view_fn())),
                        H::MFU(r) => H::MFU(r.add_stream_with(view_fn())),
                        _ => return self.bad(t0),
                    };
                    let st = pre_stream.unwrap();
                    let g = self.new_slot(nh, st, pre_gid.unwrap());
                    new_gid = Some(g);
                    format!("new g{} s{}", g, st)
                }
                Op::Drop(_) => {
                    let h = slot.h.take().unwrap();
                    drop(h);
                    "dropped".into()
                }
                Op::Unsub(_) => {
                    let h = slot.h.take().unwrap();
                    match h {
                        H::BS(s) => {
                            s.unsubscribe();
                            "unit".into()
                        }
                        H::BFS(s) => {
                            s.unsubscribe();
                            "unit".into()
                        }
                        H::MS(s) => {
                            s.unsubscribe();
                            "unit".into()
                        }
                        H::MFS(s) => {
                            s.unsubscribe();
                            "unit".into()
                        }
                        H::BR(r) => format!("{}", r.unsubscribe()),
                        H::BFR(r) => format!("{}", r.unsubscribe()),
                        H::BFU(r) => format!("{}", r.unsubscribe()),
                        H::MR(r) => format!("{}", r.unsubscribe()),
                        H::MFR(r) => format!("{}", r.unsubscribe()),
                        H::MFU(r) => format!("{}", r.unsubscribe()),
                        H::BU(r) => {
                            r.unsubscribe();
                            "unit".into()
                        }
                        H::MU(r) => format!("{}", r.unsubscribe()),
                    }
                }
                Op::IntoSingle(_) => {
                    let h = slot.h.take().unwrap();
                    let (nh, t) = match h {
                        H::BR(r) => match r.into_single() {
                            Ok(u) => (H::BU(u), "single"),
                            Err(r) => (H::BR(r), "notsingle"),
                        },
                        H::MR(r) => match r.into_single() {
                            Ok(u) => (H::MU(u), "single"),
                            Err(r) => (H::MR(r), "notsingle"),
                        },
                        H::BFR(r) => match r.into_single(view_fn()) {
                            Ok(u) => (H::BFU(u), "single"),
                            Err((_, r)) => (H::BFR(r), "notsingle"),
                        },
                        H::MFR(r) => match r.into_single(view_fn()) {
                            Ok(u) => (H::MFU(u), "single"),
                            Err((_, r)) => (H::MFR(r), "notsingle"),
                        },
                        other => {
                            slot.h = Some(other);
                            return self.bad(t0);
                        }
                    };
                    self.shared.lock().unwrap().bind_tok(&nh, gid, stream, pre_gid.unwrap_or(gid));
                    let slot = &mut self.slots[hidx];
                    slot.h = Some(nh);
                    t.into()
                }
                Op::IntoMulti(_) => {
                    let h = slot.h.take().unwrap();
                    match h {
                        H::BU(r) => {
                            slot.h = Some(H::BR(r.into_multi()));
                            "multi".into()
                        }
                        H::MU(r) => {
                            slot.h = Some(H::MR(r.into_multi()));
                            "multi".into()
                        }
                        // the futures variants create a NEW stream and drop the old handle
                        H::BFU(r) => {
                            let n = H::BFR(r.into_multi());
                            let st = pre_stream.unwrap();
                            self.shared.lock().unwrap().bind_tok(&n, gid, st, pre_gid.unwrap_or(gid));
                            let slot = &mut self.slots[hidx];
                            slot.h = Some(n);
                            slot.stream = st;
                            format!("multi s{}", st)
                        }
                        H::MFU(r) => {
                            let n = H::MFR(r.into_multi());
                            let st = pre_stream.unwrap();
                            self.shared.lock().unwrap().bind_tok(&n, gid, st, pre_gid.unwrap_or(gid));
                            let slot = &mut self.slots[hidx];
                            slot.h = Some(n);
                            slot.stream = st;
                            format!("multi s{}", st)
                        }
                        other => {
                            slot.h = Some(other);
                            return self.bad(t0);
                        }
                    }
                }
                _ => "unsupported".into(),
            }
        };
        crate::allocs::set_in_call(false);
        let mut steps = 0;
        if let Some(s) = &self.sched {
            steps = s.inner.lock().unwrap().threads[tid].call_steps;
            s.call_end(format!("{}{}", res, vid.map(|v| format!(" v{}", v)).unwrap_or_default()));
        }
        drop(hold);
        let t1 = self.now();
        let mut g = self.shared.lock().unwrap();
        if let Some(v) = viol {
            if let Some(r) = reg() {
                r.lock().unwrap().violations.push(v);
            }
        }
        g.calls.push(CallRec { tid, gid, hkind, stream, op: optext, res: res.clone(), vid, t0, t1, new_gid, steps });
        match vid {
            Some(v) => format!("{} v{}", res, v),
            None => res,
        }
    }

    fn bad(&mut self, _t0: usize) -> String {
        if let Some(s) = &self.sched {
            s.call_end("badop".into());
        }
        "badop".into()
    }
}
