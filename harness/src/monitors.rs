//! Property monitors: evaluate the properties directly on a real execution (API-level history,
//! payload ledger, scheduler verdict). Independent of the Lean model.
use crate::api::*;
use crate::run::*;
use crate::sched::Outcome;
use std::collections::{HashMap, HashSet};

#[derive(Clone, Debug)]
pub struct Violation {
    pub prop: &'static str,
    pub msg: String,
}

pub fn valid_wrap(cap: u64) -> usize {
    if cap == 0 {
        1
    } else {
        (cap as usize).next_power_of_two()
    }
}

fn is_send(c: &CallRec) -> bool {
    c.op == "try_send" || c.op == "start_send"
}
fn send_ok(c: &CallRec) -> bool {
    is_send(c) && (c.res == "ok" || c.res == "ready")
}
fn is_recv(c: &CallRec) -> bool {
    matches!(c.op.as_str(), "try_recv" | "recv" | "try_recv_view" | "recv_view" | "poll")
}
fn recv_ok(c: &CallRec) -> bool {
    is_recv(c) && (c.res == "ok" || c.res == "some")
}
fn recv_end(c: &CallRec) -> bool {
    is_recv(c) && (c.res == "disc" || c.res == "none")
}

pub struct History {
    pub n: usize,
    pub accepted: Vec<u64>,
    pub refused: HashSet<u64>,
    /// stream -> delivered vids (in call-completion order)
    pub delivered: HashMap<usize, Vec<u64>>,
    /// stream -> (parent stream, t0, t1) of the add_stream call (absent for stream 0)
    pub created: HashMap<usize, (usize, usize, usize)>,
    /// gid -> (stream, is_sender, created_at, drop_t0, drop_t1)
    pub handles: HashMap<usize, (usize, bool, usize, Option<usize>, Option<usize>)>,
    /// must-precede relation on vids (transitively closed): before[a] contains b  <=>  a < b
    pub before: HashMap<u64, HashSet<u64>>,
    pub cyclic: Option<(u64, u64)>,
    pub send_of: HashMap<u64, usize>,
}

pub fn build_history(calls: &[CallRec], cap: u64) -> History {
    let n = valid_wrap(cap);
    let mut h = History {
        n,
        accepted: vec![],
        refused: HashSet::new(),
        delivered: HashMap::new(),
        created: HashMap::new(),
        handles: HashMap::new(),
        before: HashMap::new(),
        cyclic: None,
        send_of: HashMap::new(),
    };
    h.handles.insert(0, (0, true, 0, None, None));
    h.handles.insert(1, (0, false, 0, None, None));
    for (i, c) in calls.iter().enumerate() {
        if send_ok(c) {
            h.accepted.push(c.vid.unwrap());
            h.send_of.insert(c.vid.unwrap(), i);
            // a sink retry of the same message that finally went through
            h.refused.remove(&c.vid.unwrap());
        } else if is_send(c) {
            h.refused.insert(c.vid.unwrap());
        }
        if recv_ok(c) {
            h.delivered.entry(c.stream).or_default().push(c.vid.unwrap());
        }
        match c.op.as_str() {
            "clone" => {
                if let Some(g) = c.new_gid {
                    let snd = h.handles.get(&c.gid).map(|x| x.1).unwrap_or(false);
                    h.handles.insert(g, (c.stream, snd, c.t1, None, None));
                }
            }
            "add_stream" => {
                if let Some(g) = c.new_gid {
                    // stream id is in the result text: "new gK sM"
                    let st: usize = c.res.split(" s").nth(1).and_then(|x| x.parse().ok()).unwrap_or(0);
                    h.handles.insert(g, (st, false, c.t1, None, None));
                    h.created.insert(st, (c.stream, c.t0, c.t1));
                }
            }
            "into_multi" => {
                if c.res.starts_with("multi s") {
                    let st: usize = c.res[7..].parse().unwrap_or(0);
                    h.created.insert(st, (c.stream, c.t0, c.t1));
                    if let Some(e) = h.handles.get_mut(&c.gid) {
                        e.0 = st;
                    }
                }
            }
            "drop" | "unsub" => {
                if let Some(e) = h.handles.get_mut(&c.gid) {
                    e.3 = Some(c.t0);
                    e.4 = Some(c.t1);
                }
            }
            _ => {}
        }
    }
    // order constraints
    let mut edges: Vec<(u64, u64)> = Vec::new();
    // per consumer handle
    let mut per_handle: HashMap<usize, Vec<u64>> = HashMap::new();
    for c in calls.iter().filter(|c| recv_ok(c)) {
        per_handle.entry(c.gid).or_default().push(c.vid.unwrap());
    }
    for v in per_handle.values() {
        for w in v.windows(2) {
            edges.push((w[0], w[1]));
        }
    }
    // per producer handle + real time
    let sends: Vec<&CallRec> = calls.iter().filter(|c| send_ok(c)).collect();
    let mut per_prod: HashMap<usize, Vec<u64>> = HashMap::new();
    for c in &sends {
        per_prod.entry(c.gid).or_default().push(c.vid.unwrap());
    }
    for v in per_prod.values() {
        for w in v.windows(2) {
            edges.push((w[0], w[1]));
        }
    }
    for a in &sends {
        for b in &sends {
            if a.t1 <= b.t0 && a.vid != b.vid {
                edges.push((a.vid.unwrap(), b.vid.unwrap()));
            }
        }
    }
    // transitive closure (small)
    let mut before: HashMap<u64, HashSet<u64>> = HashMap::new();
    for &(a, b) in &edges {
        before.entry(a).or_default().insert(b);
    }
    let keys: Vec<u64> = h.accepted.clone();
    let mut changed = true;
    while changed {
        changed = false;
        for &a in &keys {
            let succ: Vec<u64> = before.get(&a).map(|s| s.iter().cloned().collect()).unwrap_or_default();
            let mut add: Vec<u64> = Vec::new();
            for b in succ {
                if let Some(sb) = before.get(&b) {
                    for &c in sb {
                        if !before.get(&a).map(|s| s.contains(&c)).unwrap_or(false) {
                            add.push(c);
                        }
                    }
                }
            }
            if !add.is_empty() {
                changed = true;
                let e = before.entry(a).or_default();
                for c in add {
                    e.insert(c);
                }
            }
        }
    }
    for &a in &keys {
        if before.get(&a).map(|s| s.contains(&a)).unwrap_or(false) {
            h.cyclic = Some((a, a));
        }
    }
    h.before = before;
    h
}

fn lt(h: &History, a: u64, b: u64) -> bool {
    h.before.get(&a).map(|s| s.contains(&b)).unwrap_or(false)
}

pub fn analyze(sc: &Scenario, r: &RunResult) -> Vec<Violation> {
    let mut out: Vec<Violation> = Vec::new();
    let calls = &r.calls;
    let h = build_history(calls, sc.cfg.cap);
    let acc: HashSet<u64> = h.accepted.iter().cloned().collect();
    let finished = r.outcome == Outcome::Finished;

    // payload-level monitors (C04, C05, C15 identity) recorded during the run
    for v in r.reg.lock().unwrap().violations.iter() {
        let prop = if v.starts_with("C04") {
            "C04"
        } else if v.starts_with("C05") {
            "C05"
        } else {
            "C15"
        };
        out.push(Violation { prop, msg: v.clone() });
    }
    for p in &r.panics {
        out.push(Violation { prop: "C09", msg: format!("panic: {}", p) });
    }
    // a run cut off by the step budget finishes outside the scheduler: its remaining calls carry no usable
    // time stamps, so the history-based monitors below do not apply to it
    if r.outcome == Outcome::Budget {
        return out;
    }

    // C02: one order consistent with producers, real time and every consumer
    if let Some((a, _)) = h.cyclic {
        out.push(Violation { prop: "C02", msg: format!("ordering constraints are cyclic around v{}", a) });
    }

    // C01: per stream — no duplicates, only accepted values, never a refused one
    for (s, d) in &h.delivered {
        let mut seen = HashSet::new();
        for &v in d {
            if !seen.insert(v) {
                out.push(Violation { prop: "C01", msg: format!("stream {} delivered v{} twice", s, v) });
            }
            if h.refused.contains(&v) {
                out.push(Violation { prop: "C01", msg: format!("stream {} delivered v{} whose send was refused", s, v) });
            } else if !acc.contains(&v) {
                // the send may still be in flight only if the run did not finish
                if finished {
                    out.push(Violation { prop: "C01", msg: format!("stream {} delivered v{} which was never accepted", s, v) });
                }
            }
        }
        // gap: a < y < b with a, b delivered and y accepted but not delivered on this stream
        let ds: HashSet<u64> = d.iter().cloned().collect();
        if finished {
            for &y in &h.accepted {
                if ds.contains(&y) {
                    continue;
                }
                let after_some = d.iter().any(|&a| lt(&h, a, y));
                let before_some = d.iter().any(|&b| lt(&h, y, b));
                if after_some && before_some {
                    let prop = if h.created.contains_key(s) { "C10" } else { "C01" };
                    out.push(Violation { prop, msg: format!("stream {} skipped v{} (delivered values before and after it)", s, y) });
                }
            }
        }
    }

    // which streams were drained to the end / to empty by the epilogue probe?
    let mut drained: HashSet<usize> = HashSet::new();
    if finished && sc.epilogue == Epilogue::Probe {
        for c in &calls[r.epilogue_calls_from.min(calls.len())..] {
            if is_recv(c) && (c.res == "empty" || c.res == "disc" || c.res == "none" || c.res == "notready") {
                drained.insert(c.stream);
            }
        }
    }
    // also streams whose consumer saw the end during the run
    for c in calls.iter().filter(|c| recv_end(c)) {
        if finished {
            drained.insert(c.stream);
        }
    }
    // completeness (C01 / C10): a drained stream delivered every accepted value after its start
    for &s in &drained {
        let d: Vec<u64> = h.delivered.get(&s).cloned().unwrap_or_default();
        let ds: HashSet<u64> = d.iter().cloned().collect();
        // a stream is "complete" only if some handle of it survived until the drain
        for &y in &h.accepted {
            if ds.contains(&y) {
                continue;
            }
            let must = match h.created.get(&s) {
                None => true, // original stream: subscribed from the start
                Some(&(parent, _t0, t1)) => {
                    // accepted strictly after the stream existed, or after something it delivered,
                    // or not yet consumed by the parent when the call returned
                    let sent_after = h.send_of.get(&y).map(|&i| calls[i].t0 >= t1).unwrap_or(false);
                    let after_delivered = d.iter().any(|&a| lt(&h, a, y));
                    let parent_later = calls
                        .iter()
                        .filter(|c| recv_ok(c) && c.stream == parent && c.vid == Some(y))
                        .any(|c| c.t0 >= t1);
                    sent_after || after_delivered || parent_later
                }
            };
            if must {
                // the end of a stream can only be claimed when nothing is left
                let prop = if h.created.contains_key(&s) { "C10" } else { "C01" };
                out.push(Violation { prop, msg: format!("stream {} was drained but never delivered accepted v{}", s, y) });
            }
        }
        // C10: a new stream must not deliver values its parent had consumed before the call began
        if let Some(&(parent, t0, _)) = h.created.get(&s) {
            for &y in &d {
                let parent_before = calls
                    .iter()
                    .filter(|c| recv_ok(c) && c.stream == parent && c.vid == Some(y))
                    .any(|c| c.t1 <= t0);
                // only meaningful when the caller is the parent's sole consumer... any consumer: position is monotone
                if parent_before {
                    out.push(Violation { prop: "C10", msg: format!("new stream {} delivered v{} which its parent stream {} had consumed before add_stream began", s, y, parent) });
                }
            }
        }
    }

    // C03 window: for an accepted send x, the values that definitely precede x and whose consumption on a
    // stream (subscribed for the whole run) had not begun when x returned must number < N
    if h.cyclic.is_none() {
        let streams: Vec<usize> = h.handles.values().filter(|e| !e.1).map(|e| e.0).collect::<HashSet<_>>().into_iter().collect();
        for &s in &streams {
            if h.created.contains_key(&s) {
                continue; // original streams only (start known exactly)
            }
            // stream must have a live handle throughout: skip if all handles of s were dropped at some time
            let hs: Vec<&(usize, bool, usize, Option<usize>, Option<usize>)> = h.handles.values().filter(|e| !e.1 && e.0 == s).collect();
            let all_dropped_at: Option<usize> = if hs.iter().all(|e| e.3.is_some()) { hs.iter().map(|e| e.3.unwrap()).max() } else { None };
            for (xi, x) in calls.iter().enumerate().filter(|(_, c)| send_ok(c)) {
                let _ = xi;
                if let Some(t) = all_dropped_at {
                    if x.t1 >= t {
                        continue;
                    }
                }
                let xv = x.vid.unwrap();
                let mut pending = 0usize;
                for &y in &h.accepted {
                    if y == xv || !lt(&h, y, xv) {
                        continue;
                    }
                    let begun = calls.iter().any(|c| recv_ok(c) && c.stream == s && c.vid == Some(y) && c.t0 < x.t1);
                    if !begun {
                        pending += 1;
                    }
                }
                if pending >= h.n {
                    out.push(Violation {
                        prop: "C03",
                        msg: format!("send of v{} returned Ok while {} earlier values were not yet being consumed by stream {} (N={})", xv, pending, s, h.n),
                    });
                }
            }
        }
    }

    // C07: the end is reported only when every sender handle has begun dropping and nothing is undelivered; and stays
    let senders: Vec<&(usize, bool, usize, Option<usize>, Option<usize>)> = h.handles.values().filter(|e| e.1).collect();
    let mut ended: HashSet<usize> = HashSet::new();
    for c in calls.iter() {
        if recv_end(c) {
            for e in &senders {
                let alive = match e.3 {
                    None => e.2 < c.t1,
                    Some(t0) => e.2 < c.t1 && t0 >= c.t1,
                };
                if alive {
                    out.push(Violation { prop: "C07", msg: format!("g{} on stream {} reported the end while a sender handle was alive", c.gid, c.stream) });
                    break;
                }
            }
            // undelivered: accepted before, not delivered to this stream by a call that began before this one ended
            let start_ok = !h.created.contains_key(&c.stream);
            if start_ok {
                for &y in &h.accepted {
                    let si = h.send_of[&y];
                    if calls[si].t1 > c.t0 {
                        continue;
                    }
                    let got = calls.iter().any(|d| recv_ok(d) && d.stream == c.stream && d.vid == Some(y) && d.t0 < c.t1);
                    if !got {
                        out.push(Violation { prop: "C07", msg: format!("g{} on stream {} reported the end although accepted v{} was undelivered", c.gid, c.stream, y) });
                    }
                }
            }
            ended.insert(c.gid);
        } else if is_recv(c) && ended.contains(&c.gid) {
            out.push(Violation { prop: "C07", msg: format!("g{} reported the end and later returned '{}'", c.gid, c.res) });
        }
    }

    // C13: after every receiver is gone, sends must fail as Disconnected / Err
    let receivers: Vec<&(usize, bool, usize, Option<usize>, Option<usize>)> = h.handles.values().filter(|e| !e.1).collect();
    if !receivers.is_empty() && receivers.iter().all(|e| e.4.is_some()) {
        let t_all = receivers.iter().map(|e| e.4.unwrap()).max().unwrap();
        for c in calls.iter().filter(|c| is_send(c) && c.t0 >= t_all) {
            if c.res != "disc" && c.res != "err" {
                out.push(Violation { prop: "C13", msg: format!("send of v{} after the last receiver was dropped returned '{}'", c.vid.unwrap_or(0), c.res) });
            }
        }
    }

    // C11: unsubscribe's boolean
    {
        // per stream: order of decrements is not visible here; sequentially the last one must say true
        let mut per_stream: HashMap<usize, Vec<&CallRec>> = HashMap::new();
        for c in calls.iter().filter(|c| (c.op == "unsub" || c.op == "drop") && !c.hkind.ends_with('S')) {
            per_stream.entry(c.stream).or_default().push(c);
        }
        for (s, v) in per_stream {
            let total_handles = h.handles.values().filter(|e| !e.1 && e.0 == s).count();
            if v.len() == total_handles && total_handles > 0 {
                // the stream is gone: exactly one "true" may be reported, and if the last call (by start time,
                // non-overlapping) is an unsubscribe it must say true
                let trues = v.iter().filter(|c| c.res == "true").count();
                let unsubs = v.iter().filter(|c| c.op == "unsub" && (c.res == "true" || c.res == "false")).count();
                if trues > 1 {
                    out.push(Violation { prop: "C11", msg: format!("stream {}: {} unsubscribe calls returned true", s, trues) });
                }
                let last = v.iter().max_by_key(|c| c.t0).unwrap();
                let others_done = v.iter().all(|c| c.gid == last.gid || c.t1 <= last.t0);
                if others_done && last.op == "unsub" && last.res == "false" {
                    out.push(Violation { prop: "C11", msg: format!("stream {}: the last handle's unsubscribe returned false", s) });
                }
                if unsubs == v.len() && trues == 0 {
                    out.push(Violation { prop: "C11", msg: format!("stream {}: every handle unsubscribed and none was told it was the last", s) });
                }
            }
        }
    }

    // hangs: C08 (plain) / C14 (futures)
    match &r.outcome {
        Outcome::Deadlock(ts) | Outcome::Livelock(ts) => {
            let live_senders = senders.iter().filter(|e| e.4.is_none()).count();
            // sender handles whose drop has at least begun count as gone
            let live_senders_strict = senders.iter().filter(|e| e.3.is_none()).count();
            let _ = live_senders;
            for &t in ts {
                // which call is the thread in?  last Call record without Ret
                let mut cur: Option<String> = None;
                for rec in &r.trace {
                    match rec {
                        crate::sched::Rec::Call { tid, text } if *tid == t => cur = Some(text.clone()),
                        crate::sched::Rec::Ret { tid, .. } if *tid == t => cur = None,
                        _ => {}
                    }
                }
                let parked = r.final_states.get(t).map(|s| s.starts_with("parked")).unwrap_or(false);
                let text = match (&cur, parked) {
                    (Some(c), _) => c.clone(),
                    (None, true) => {
                        // parked between polls: the last call of that thread
                        let mut last = String::new();
                        for rec in &r.trace {
                            if let crate::sched::Rec::Call { tid, text } = rec {
                                if *tid == t {
                                    last = text.clone();
                                }
                            }
                        }
                        last
                    }
                    _ => continue,
                };
                let toks: Vec<&str> = text.split(' ').collect();
                let op = toks[0];
                let stream: usize = toks.iter().find(|x| x.starts_with('s') && x[1..].parse::<usize>().is_ok()).map(|x| x[1..].parse().unwrap()).unwrap_or(0);
                let fut = op == "poll" || op == "start_send";
                let prop = if fut { "C14" } else { "C08" };
                if matches!(op, "recv" | "recv_view" | "poll") {
                    let d: HashSet<u64> = h.delivered.get(&stream).map(|v| v.iter().cloned().collect()).unwrap_or_default();
                    let undel: Vec<u64> = h
                        .accepted
                        .iter()
                        .cloned()
                        .filter(|y| !d.contains(y))
                        .filter(|y| match h.created.get(&stream) {
                            None => true,
                            Some(&(_, _, t1)) => calls[h.send_of[y]].t0 >= t1 || d.iter().any(|&a| lt(&h, a, *y)),
                        })
                        .collect();
                    if live_senders_strict == 0 {
                        out.push(Violation { prop, msg: format!("thread {} stays blocked in {} on stream {} although every sender is gone", t, op, stream) });
                    } else if !undel.is_empty() {
                        out.push(Violation { prop, msg: format!("thread {} stays blocked in {} on stream {} although v{} is queued for it", t, op, stream, undel[0]) });
                    } else if matches!(r.outcome, Outcome::Livelock(_)) && op == "poll" {
                        out.push(Violation { prop: "C15", msg: format!("thread {} spins inside poll on stream {} instead of returning NotReady", t, stream) });
                    }
                } else if op == "start_send" {
                    // could the send be accepted now?
                    let live_streams: HashSet<usize> = h.handles.values().filter(|e| !e.1 && e.4.is_none()).map(|e| e.0).collect();
                    if live_streams.is_empty() && !receivers.is_empty() {
                        out.push(Violation { prop: "C13", msg: format!("sink task {} stays parked although every receiver is gone", t) });
                    } else {
                        let mut worst = 0usize;
                        let mut known = true;
                        for &s in &live_streams {
                            if h.created.contains_key(&s) {
                                known = false;
                                continue;
                            }
                            let dl = h.delivered.get(&s).map(|v| v.len()).unwrap_or(0);
                            worst = worst.max(h.accepted.len().saturating_sub(dl));
                        }
                        if known && worst < h.n {
                            out.push(Violation { prop: "C14", msg: format!("sink task {} stays parked although only {} of {} slots are in use", t, worst, h.n) });
                        }
                    }
                } else if matches!(op, "try_send" | "try_recv" | "try_recv_view") {
                    out.push(Violation { prop: "C18", msg: format!("thread {} is stuck inside {}", t, op) });
                }
            }
        }
        _ => {}
    }

    // C18: a try operation running alone (all other threads frozen) must return within a bound of its own steps
    if let Outcome::SoloExceeded(t, n) = &r.outcome {
        let mut cur = String::new();
        for rec in &r.trace {
            if let crate::sched::Rec::Call { tid, text } = rec {
                if tid == t {
                    cur = text.clone();
                }
            }
        }
        out.push(Violation { prop: "C18", msg: format!("thread {} running alone did not finish `{}` within {} of its own steps (other threads frozen mid-operation)", t, cur, n) });
    }
    // solo step counts of completed try operations (max), for the evidence
    // C06 quiescent probe (epilogue): exactly N - outstanding sends accepted, every stream drains its outstanding values
    if finished && sc.epilogue == Epilogue::Probe && out.is_empty() {
        let ep = &calls[r.epilogue_calls_from.min(calls.len())..];
        let before: Vec<CallRec> = calls[..r.epilogue_calls_from.min(calls.len())].to_vec();
        let hb = build_history(&before, sc.cfg.cap);
        let live_streams: HashSet<usize> = hb.handles.values().filter(|e| !e.1 && e.4.is_none()).map(|e| e.0).collect();
        let any_sender = hb.handles.values().any(|e| e.1 && e.4.is_none());
        let all_original = live_streams.iter().all(|s| !hb.created.contains_key(s));
        if any_sender && !live_streams.is_empty() && all_original {
            let outstanding: usize = live_streams
                .iter()
                .map(|s| hb.accepted.len() - hb.delivered.get(s).map(|v| v.len()).unwrap_or(0))
                .max()
                .unwrap_or(0);
            let filled = ep.iter().filter(|c| send_ok(c)).count();
            let refused = ep.iter().any(|c| is_send(c) && !send_ok(c));
            if refused && filled + outstanding != hb.n {
                let msg = format!("quiescent queue accepted {} sends with {} outstanding, expected {} (N={})", filled, outstanding, hb.n - outstanding.min(hb.n), hb.n);
                out.push(Violation { prop: "C06", msg: msg.clone() });
                // a stream that was removed earlier must not limit the senders any more
                let removed = hb.handles.values().filter(|e| !e.1).map(|e| e.0).collect::<HashSet<_>>().iter().any(|s| !live_streams.contains(s));
                if removed && filled + outstanding < hb.n {
                    out.push(Violation { prop: "C11", msg: format!("after a stream was removed: {}", msg) });
                }
            }
            for &s in &live_streams {
                let exp = hb.accepted.len() - hb.delivered.get(&s).map(|v| v.len()).unwrap_or(0) + filled;
                let got = ep.iter().filter(|c| recv_ok(c) && c.stream == s).count();
                let stopped = ep.iter().any(|c| is_recv(c) && c.stream == s && !recv_ok(c));
                if stopped && got != exp {
                    out.push(Violation { prop: "C06", msg: format!("quiescent stream {} drained {} values, expected {}", s, got, exp) });
                }
            }
        }
    }

    // C16: no access to freed bookkeeping memory, no double free (freed blocks are quarantined by the
    // hook, so addresses are never reused within a run)
    {
        use multiqueue2::verif_hooks::Kind;
        let mut freed: Vec<(usize, usize, String, usize)> = Vec::new(); // (start, len, type, trace index)
        let mut live: HashMap<usize, usize> = HashMap::new();
        let mut reported = 0;
        for (i, rec) in r.trace.iter().enumerate() {
            match rec {
                crate::sched::Rec::Note { ev, tid } if ev.kind == Kind::Alloc => {
                    live.insert(ev.addr, ev.b.max(1));
                    let _ = tid;
                }
                crate::sched::Rec::Note { ev, tid } if ev.kind == Kind::Dealloc => {
                    if freed.iter().any(|f| f.0 == ev.addr) {
                        out.push(Violation { prop: "C16", msg: format!("double free of {} at {:#x} by thread {}", ev.what, ev.addr, tid) });
                    } else if live.remove(&ev.addr).is_none() && reported < 3 {
                        // freeing something the ledger never saw allocated
                        reported += 1;
                        out.push(Violation { prop: "C16", msg: format!("free of unknown block {} at {:#x} by thread {}", ev.what, ev.addr, tid) });
                    }
                    freed.push((ev.addr, ev.b.max(1), ev.what.to_string(), i));
                }
                crate::sched::Rec::Ev { ev, tid, .. } if ev.addr != 0 => {
                    if let Some(f) = freed.iter().find(|f| ev.addr >= f.0 && ev.addr < f.0 + f.1) {
                        if reported < 3 {
                            reported += 1;
                            let short = f.2.rsplit("::").next().unwrap_or(&f.2);
                            out.push(Violation {
                                prop: "C16",
                                msg: format!("use after free: thread {} {} at {:#x} inside a freed {} (freed at trace index {}, accessed at {})", tid, crate::sched::kind_str(ev.kind), ev.addr, short, f.3, i),
                            });
                        }
                    }
                }
                _ => {}
            }
        }
    }

    // C05 ledger at the very end: everything born or cloned is dropped exactly once
    if finished {
        let g = r.reg.lock().unwrap();
        for (oid, (vid, d, _)) in g.objs.iter() {
            if *d == 0 {
                out.push(Violation { prop: "C05", msg: format!("payload oid={} vid={} was never dropped", oid, vid) });
            }
        }
    }
    out
}
