//! Differential input for the index arithmetic: evaluates the crate's own functions (through the
//! cfg-only `verif_api`) on a grid of edge values + PRNG values; the Lean driver (`mqdrv arith`)
//! evaluates the model's Nat-level definitions on the same lines.
use crate::sched::Rng;
use multiqueue2::verif_api as api;
use std::io::Write;

pub fn main(args: &[String]) {
    let out = args.iter().position(|a| a == "--out").and_then(|i| args.get(i + 1)).cloned().unwrap_or("/dev/stdout".into());
    let seed: u64 = args.iter().position(|a| a == "--seed").and_then(|i| args.get(i + 1)).and_then(|s| s.parse().ok()).unwrap_or(1);
    let mut f = std::io::BufWriter::new(std::fs::File::create(out).unwrap());
    let mut rng = Rng(seed);
    // counts stay below 2^62 (the model's range); the initial flag is usize::MAX
    let init = api::INITIAL_QUEUE_FLAG;
    let mut vals: Vec<usize> = vec![0, 1, 2, 3, 4, 5, 7, 8, 9, 15, 16, 17, 31, 32, 63, 64, 65, 1000, 1 << 20, (1 << 40) + 3, (1usize << 61) - 1, 1usize << 61];
    for _ in 0..40 {
        vals.push((rng.next() % (1u64 << 61)) as usize);
        vals.push((rng.next() % 64) as usize);
    }
    let wraps: [u64; 7] = [1, 2, 4, 8, 16, 1024, 1 << 30];
    let mut n = 0usize;
    // wait::check(seq, at, wc)
    for &seq in &vals {
        for &at in vals.iter().chain([init].iter()) {
            // neighbours matter most: also at = seq, seq±1, seq+wrap
            for &wc in &[0usize, 1, 2] {
                writeln!(f, "check {} {} {} | {}", seq, at, wc, api::wait_check(seq, at, wc) as u8).unwrap();
                n += 1;
            }
        }
        for d in [0usize, 1, 2, 4, 8] {
            for &wc in &[0usize, 1] {
                writeln!(f, "check {} {} {} | {}", seq, seq + d, wc, api::wait_check(seq, seq + d, wc) as u8).unwrap();
                if seq >= d {
                    writeln!(f, "check {} {} {} | {}", seq, seq - d, wc, api::wait_check(seq, seq - d, wc) as u8).unwrap();
                }
                n += 2;
            }
        }
    }
    for &w in &wraps {
        for &a in &vals {
            let (idx, tag) = api::tx_get(a, w);
            writeln!(f, "txget {} {} | {} {}", a, w, idx, tag).unwrap();
            writeln!(f, "commitdirect {} {} | {}", a, w, api::tx_commit_direct(a, w, 1)).unwrap();
            for d in [0usize, 1, w as usize, w as usize + 1, 2 * w as usize] {
                // matches_previous(loaded = a, val)
                for val in [a.wrapping_sub(d), a, a + d] {
                    if val < (1usize << 62) {
                        writeln!(f, "matchprev {} {} {} | {}", a, w, val, api::tx_matches_previous(a, w, val) as u8).unwrap();
                        n += 1;
                    }
                }
                let (ok, newv) = api::tx_commit(a, a + d, w, 1);
                writeln!(f, "commit {} {} {} | {} {}", a, a + d, w, ok as u8, newv).unwrap();
                let (diff, far) = api::past(a, a + d);
                writeln!(f, "past {} {} | {} {}", a, a + d, if far { 0 } else { diff }, far as u8).unwrap();
                if a >= d {
                    let (diff, far) = api::past(a, a - d);
                    writeln!(f, "past {} {} | {} {}", a, a - d, if far { 0 } else { diff }, far as u8).unwrap();
                    writeln!(f, "getprev {} {} | {}", a, d, api::get_previous(a, d as u64)).unwrap();
                }
                n += 4;
            }
        }
    }
    for c in 0u64..70 {
        writeln!(f, "validwrap {} | {}", c, api::get_valid_wrap(c)).unwrap();
        n += 1;
    }
    for &c in &[100u64, 1000, 1023, 1024, 1025, 65535, 65536, 65537, (1 << 40) + 1] {
        writeln!(f, "validwrap {} | {}", c, api::get_valid_wrap(c)).unwrap();
        n += 1;
    }
    for &v in vals.iter().chain([init].iter()) {
        writeln!(f, "istagged {} | {}", v, api::is_tagged(v) as u8).unwrap();
        n += 1;
    }
    for flags in 0usize..4 {
        for op in 0u8..4 {
            let (ha, ge, gr, w, r) = api::signal_op(flags, op);
            writeln!(f, "signal {} {} | {} {} {} {} {}", flags, op, ha as u8, ge as u8, gr as u8, w, r as u8).unwrap();
            n += 1;
        }
    }
    eprintln!("arith lines={}", n);
}
