//! Sequential differential driver: the real API, one call at a time on one thread, against
//! the Lean reference model `MQ.Spec` (property C09 and the sequential halves of C05, C11,
//! C13, C15).
//!
//! `mqharness seq --mode exhaustive|random|f5 --depth D --count K --seed S --caps 0,1,2,3
//!                --out <file> --json <file> --replays <dir> [--rt none|null] [--slow-polls n]`
//! `mqharness seq --replay <file>`
//!
//! Output file = input of `mqdrv spec`:
//! ```text
//! === <name>
//! cfg flavour=.. kind=.. cap=.. wait=..
//! <Op::text()> | <Ctx::exec result>
//! try_iter <h> <n> | iter v1 v2          (the crate's real non-blocking iterators)
//! iter_all <h> | iter v1 v2 end           (the crate's real consuming iterators)
//! ledger | live=[v1 v2] births=3 clones=1 bad=0
//! ```
//! No scheduler.  A call that could block for ever is never issued: `recv`, `recv_view` and
//! the consuming iterators only when the shadow state (kept from the *real* results) says a
//! value or the end is available.  A watchdog thread turns a call that still does not return
//! into a `MONITOR property=C09` line, a replay file and exit code 3.
use crate::api::*;
use crate::sched::Rng;
use futures::executor::NotifyHandle;
use multiqueue2::verif_hooks::{set_runtime, Event, Runtime};
use std::collections::{BTreeMap, BTreeSet};
use std::io::Write;
use std::sync::atomic::{AtomicU64, Ordering};
use std::sync::{Arc, Mutex};

// ---------------------------------------------------------------------------------------------
// optional pass-through runtime: every primitive still runs on the real atomics/locks; only
// `sleep` and `yield_now` become no-ops (so that `poll` on an empty queue does not cost 100 ms)

struct NullRt;
impl Runtime for NullRt {
    fn before(&self, _: &Event) {}
    fn after(&self, _: usize, _: bool) {}
    fn note(&self, _: &Event) {}
    fn cv_block(&self, _: usize, _: usize) {
        panic!("condvar wait in a sequential run");
    }
    fn quarantine(&self) -> bool {
        false
    }
}

// ---------------------------------------------------------------------------------------------
// operations of the sequential alphabet

#[derive(Clone, Debug, PartialEq)]
pub enum SOp {
    Api(Op),
    /// the crate's `try_iter()` / `try_iter_with()`: at most n items
    TryIter(usize, usize),
    /// the crate's consuming iterator (`into_iter()` / `iter_with()`), to the end
    IterAll(usize),
    Ledger,
}

impl SOp {
    fn text(&self) -> String {
        match self {
            SOp::Api(o) => o.text(),
            SOp::TryIter(h, n) => format!("try_iter {} {}", h, n),
            SOp::IterAll(h) => format!("iter_all {}", h),
            SOp::Ledger => "ledger".into(),
        }
    }
    fn name(&self) -> String {
        self.text().split(' ').next().unwrap().to_string()
    }
    fn handle(&self) -> Option<usize> {
        match self {
            SOp::Api(o) => match o {
                Op::TrySend(h) | Op::TryRecv(h) | Op::Recv(h) | Op::TryRecvView(h) | Op::RecvView(h) | Op::Clone(h)
                | Op::AddStream(h) | Op::Drop(h) | Op::Unsub(h) | Op::IntoSingle(h) | Op::IntoMulti(h)
                | Op::StartSend(h) | Op::PollComplete(h) | Op::Poll(h) => Some(*h),
                _ => None,
            },
            SOp::TryIter(h, _) | SOp::IterAll(h) => Some(*h),
            SOp::Ledger => None,
        }
    }
}

fn parse_sop(s: &str) -> Option<SOp> {
    let t: Vec<&str> = s.split_whitespace().collect();
    let h: usize = t.get(1).and_then(|x| x.parse().ok()).unwrap_or(0);
    let n: usize = t.get(2).and_then(|x| x.parse().ok()).unwrap_or(0);
    Some(match *t.first()? {
        "ledger" => SOp::Ledger,
        "try_iter" => SOp::TryIter(h, n),
        "iter_all" => SOp::IterAll(h),
        "try_send" => SOp::Api(Op::TrySend(h)),
        "try_recv" => SOp::Api(Op::TryRecv(h)),
        "recv" => SOp::Api(Op::Recv(h)),
        "try_recv_view" => SOp::Api(Op::TryRecvView(h)),
        "recv_view" => SOp::Api(Op::RecvView(h)),
        "clone" => SOp::Api(Op::Clone(h)),
        "add_stream" => SOp::Api(Op::AddStream(h)),
        "drop" => SOp::Api(Op::Drop(h)),
        "unsub" => SOp::Api(Op::Unsub(h)),
        "into_single" => SOp::Api(Op::IntoSingle(h)),
        "into_multi" => SOp::Api(Op::IntoMulti(h)),
        "start_send" => SOp::Api(Op::StartSend(h)),
        "poll_complete" => SOp::Api(Op::PollComplete(h)),
        "poll" => SOp::Api(Op::Poll(h)),
        _ => return None,
    })
}

// ---------------------------------------------------------------------------------------------
// shadow of the abstract state, maintained from the real results (never from predictions)

const RS: u8 = 0;
const RR: u8 = 1;
const RU: u8 = 2;

#[derive(Clone, Debug)]
struct ASlot {
    role: u8,
    strm: usize,
    live: bool,
}

#[derive(Clone, Debug)]
struct Abs {
    bcast: bool,
    fut: bool,
    n: usize,
    head: usize,
    cur: BTreeMap<usize, usize>,
    slots: Vec<ASlot>,
    /// streams on which a receive has reported the end
    ended: BTreeSet<usize>,
}

fn valid_wrap(cap: u64) -> usize {
    if cap == 0 {
        1
    } else {
        cap.next_power_of_two() as usize
    }
}

impl Abs {
    fn new(cfg: &QCfg) -> Abs {
        let mut cur = BTreeMap::new();
        cur.insert(0, 0);
        Abs {
            bcast: cfg.bcast,
            fut: cfg.fut,
            n: valid_wrap(cfg.cap),
            head: 0,
            cur,
            slots: vec![ASlot { role: RS, strm: 0, live: true }, ASlot { role: RR, strm: 0, live: true }],
            ended: BTreeSet::new(),
        }
    }
    fn live(&self, h: usize) -> Option<&ASlot> {
        self.slots.get(h).filter(|s| s.live)
    }
    fn senders(&self) -> Vec<usize> {
        (0..self.slots.len()).filter(|&i| self.slots[i].live && self.slots[i].role == RS).collect()
    }
    fn receivers(&self) -> Vec<usize> {
        (0..self.slots.len()).filter(|&i| self.slots[i].live && self.slots[i].role != RS).collect()
    }
    fn cnt(&self, s: usize) -> usize {
        self.slots.iter().filter(|x| x.live && x.role != RS && x.strm == s).count()
    }
    fn nstreams(&self) -> usize {
        self.cur.len()
    }
    fn avail(&self, h: usize) -> bool {
        match self.live(h) {
            Some(x) if x.role != RS => self.cur.get(&x.strm).map(|&c| c < self.head).unwrap_or(false),
            _ => false,
        }
    }
    /// a blocking receive on h returns
    fn returns(&self, h: usize) -> bool {
        self.avail(h) || self.senders().is_empty()
    }
    fn full(&self) -> bool {
        self.cur.values().any(|&c| self.head - c >= self.n)
    }
    fn kind(&self, h: usize) -> String {
        match self.live(h) {
            None => "dead".into(),
            Some(x) => format!(
                "{}{}{}",
                if self.bcast { "B" } else { "M" },
                if self.fut { "F" } else { "" },
                ["S", "R", "U"][x.role as usize]
            ),
        }
    }
    /// does the handle type have this call?
    fn valid(&self, op: &SOp) -> bool {
        let h = match op.handle() {
            Some(h) => h,
            None => return true,
        };
        let x = match self.live(h) {
            Some(x) => x,
            None => return false,
        };
        match op {
            SOp::Api(o) => match o {
                Op::TrySend(_) => x.role == RS,
                Op::StartSend(_) | Op::PollComplete(_) => x.role == RS && self.fut,
                Op::TryRecv(_) | Op::Recv(_) => x.role != RS,
                Op::TryRecvView(_) | Op::RecvView(_) => x.role == RU && !self.fut,
                Op::Poll(_) => x.role != RS && self.fut,
                Op::Clone(_) => x.role != RU,
                Op::AddStream(_) => (x.role == RR && self.bcast) || (x.role == RU && self.fut),
                Op::Drop(_) | Op::Unsub(_) => true,
                Op::IntoSingle(_) => x.role == RR,
                Op::IntoMulti(_) => x.role == RU,
                _ => false,
            },
            SOp::TryIter(..) | SOp::IterAll(_) => x.role != RS && !self.fut,
            SOp::Ledger => true,
        }
    }
    fn remove_handle(&mut self, h: usize) {
        let s = self.slots[h].strm;
        let recv = self.slots[h].role != RS;
        self.slots[h].live = false;
        if recv && self.cnt(s) == 0 {
            self.cur.remove(&s);
        }
    }
    /// follow the real result
    fn apply(&mut self, op: &SOp, res: &str) {
        let first = res.split(' ').next().unwrap_or("");
        let h = match op.handle() {
            Some(h) => h,
            None => return,
        };
        if first == "nohandle" || first == "badop" || first == "PANIC" {
            return;
        }
        let x = match self.live(h) {
            Some(x) => x.clone(),
            None => return,
        };
        match op {
            SOp::Api(o) => match o {
                Op::TrySend(_) | Op::StartSend(_) => {
                    if first == "ok" || first == "ready" {
                        self.head += 1;
                    }
                }
                Op::TryRecv(_) | Op::Recv(_) | Op::TryRecvView(_) | Op::RecvView(_) | Op::Poll(_) => {
                    if first == "ok" || first == "some" {
                        *self.cur.entry(x.strm).or_insert(0) += 1;
                    }
                    if first == "disc" || first == "none" {
                        self.ended.insert(x.strm);
                    }
                }
                Op::Clone(_) => {
                    if first == "new" {
                        self.slots.push(ASlot { role: x.role, strm: x.strm, live: true });
                    }
                }
                Op::AddStream(_) => {
                    if first == "new" {
                        let st: usize = res.rsplit(" s").next().and_then(|t| t.parse().ok()).unwrap_or(usize::MAX);
                        let c = self.cur.get(&x.strm).cloned().unwrap_or(0);
                        self.cur.insert(st, c);
                        self.slots.push(ASlot { role: x.role, strm: st, live: true });
                    }
                }
                Op::Drop(_) | Op::Unsub(_) => self.remove_handle(h),
                Op::IntoSingle(_) => {
                    if first == "single" {
                        self.slots[h].role = RU;
                    }
                }
                Op::IntoMulti(_) => {
                    if res == "multi" {
                        self.slots[h].role = RR;
                    } else if first == "multi" {
                        let st: usize = res.rsplit(" s").next().and_then(|t| t.parse().ok()).unwrap_or(usize::MAX);
                        let c = self.cur.get(&x.strm).cloned().unwrap_or(0);
                        self.cur.insert(st, c);
                        self.slots[h].role = RR;
                        self.slots[h].strm = st;
                        if self.cnt(x.strm) == 0 {
                            self.cur.remove(&x.strm);
                        }
                    }
                }
                _ => {}
            },
            SOp::TryIter(..) => {
                let k = res.split(' ').filter(|t| t.starts_with('v')).count();
                *self.cur.entry(x.strm).or_insert(0) += k;
            }
            SOp::IterAll(_) => {
                let k = res.split(' ').filter(|t| t.starts_with('v')).count();
                *self.cur.entry(x.strm).or_insert(0) += k;
                if res.ends_with(" end") || res == "iter end" {
                    self.ended.insert(x.strm);
                }
                self.remove_handle(h);
            }
            SOp::Ledger => {}
        }
    }
}

// ---------------------------------------------------------------------------------------------
// the real queue

struct Real {
    ctx: Option<Ctx>,
    reg: Reg,
}

fn panic_text(e: Box<dyn std::any::Any + Send>) -> String {
    if let Some(s) = e.downcast_ref::<&str>() {
        s.to_string()
    } else if let Some(s) = e.downcast_ref::<String>() {
        s.clone()
    } else {
        "panic".to_string()
    }
}

impl Real {
    fn new(cfg: &QCfg) -> Result<Real, String> {
        let reg: Reg = Arc::new(Mutex::new(Registry::default()));
        set_reg(Some(reg.clone()));
        let shared = Arc::new(Mutex::new(Shared::default()));
        let notes = Arc::new(Mutex::new(Vec::new()));
        let notify = NotifyHandle::from(Arc::new(SchedNotify(None, notes)));
        let mut ctx = Ctx { sched: None, shared: shared.clone(), slots: Vec::new(), notify, task_id: 0 };
        let made = std::panic::catch_unwind(std::panic::AssertUnwindSafe(|| create(cfg)));
        match made {
            Ok((s, r)) => {
                {
                    let mut g = shared.lock().unwrap();
                    g.next_stream = 1;
                    g.next_gid = 2;
                }
                ctx.slots.push(Slot { h: Some(s), gid: 0, stream: 0 });
                ctx.slots.push(Slot { h: Some(r), gid: 1, stream: 0 });
                Ok(Real { ctx: Some(ctx), reg })
            }
            Err(e) => Err(panic_text(e)),
        }
    }

    fn ledger(&self) -> String {
        let g = self.reg.lock().unwrap();
        let mut live: Vec<u64> = g.objs.values().filter(|o| o.1 == 0).map(|o| o.0).collect();
        live.sort();
        format!(
            "live=[{}] births={} clones={} bad={}",
            live.iter().map(|v| format!("v{}", v)).collect::<Vec<_>>().join(" "),
            g.births,
            g.clones,
            if g.violations.is_empty() { 0 } else { 1 }
        )
    }

    fn try_iter(ctx: &mut Ctx, h: usize, n: usize) -> String {
        let slot = match ctx.slots.get(h) {
            Some(s) => s,
            None => return "nohandle".into(),
        };
        let vs: Vec<u64> = match slot.h.as_ref() {
            None => return "nohandle".into(),
            Some(H::BR(r)) => r.try_iter().take(n).map(|p| p.vid).collect(),
            Some(H::MR(r)) => r.try_iter().take(n).map(|p| p.vid).collect(),
            Some(H::BU(r)) => r.try_iter_with(|p: &P| p.vid).take(n).collect(),
            Some(H::MU(r)) => r.try_iter_with(|p: &P| p.vid).take(n).collect(),
            Some(_) => return "badop".into(),
        };
        std::iter::once("iter".to_string()).chain(vs.iter().map(|v| format!("v{}", v))).collect::<Vec<_>>().join(" ")
    }

    fn iter_all(ctx: &mut Ctx, h: usize) -> String {
        let slot = match ctx.slots.get_mut(h) {
            Some(s) => s,
            None => return "nohandle".into(),
        };
        let hd = match slot.h.take() {
            None => return "nohandle".into(),
            Some(x) => x,
        };
        let vs: Vec<u64> = match hd {
            H::BR(r) => r.into_iter().map(|p| p.vid).collect(),
            H::MR(r) => r.into_iter().map(|p| p.vid).collect(),
            H::BU(r) => r.iter_with(|p: &P| p.vid).collect(),
            H::MU(r) => r.iter_with(|p: &P| p.vid).collect(),
            other => {
                slot.h = Some(other);
                return "badop".into();
            }
        };
        std::iter::once("iter".to_string())
            .chain(vs.iter().map(|v| format!("v{}", v)))
            .chain(std::iter::once("end".to_string()))
            .collect::<Vec<_>>()
            .join(" ")
    }

    /// one call on the real API; a panic is a result
    fn exec(&mut self, op: &SOp) -> String {
        if let SOp::Ledger = op {
            return self.ledger();
        }
        let ctx = match self.ctx.as_mut() {
            Some(c) => c,
            None => return "nohandle".into(),
        };
        let r = std::panic::catch_unwind(std::panic::AssertUnwindSafe(|| match op {
            SOp::Api(o) => ctx.exec(o),
            SOp::TryIter(h, n) => Real::try_iter(ctx, *h, *n),
            SOp::IterAll(h) => Real::iter_all(ctx, *h),
            SOp::Ledger => unreachable!(),
        }));
        match r {
            Ok(s) => s,
            Err(e) => {
                // the handles may be in any state now: never touch them again
                if let Some(c) = self.ctx.take() {
                    std::mem::forget(c);
                }
                format!("PANIC {}", panic_text(e).replace('\n', " ").replace('|', "/"))
            }
        }
    }
}

// ---------------------------------------------------------------------------------------------
// watchdog

static CALL_START_MS: AtomicU64 = AtomicU64::new(0);

struct Watch {
    t0: std::time::Instant,
    cur: Arc<Mutex<(String, String)>>, // (sequence name, text so far)
}

impl Watch {
    fn start(replays: String, limit_ms: u64) -> Watch {
        let w = Watch { t0: std::time::Instant::now(), cur: Arc::new(Mutex::new((String::new(), String::new()))) };
        let cur = w.cur.clone();
        let t0 = w.t0;
        std::thread::spawn(move || loop {
            std::thread::sleep(std::time::Duration::from_millis(250));
            let s = CALL_START_MS.load(Ordering::SeqCst);
            if s == 0 {
                continue;
            }
            let now = t0.elapsed().as_millis() as u64 + 1;
            if now > s + limit_ms {
                let g = cur.lock().unwrap();
                std::fs::create_dir_all(&replays).ok();
                let path = format!("{}/seq-{}-hang.seq", replays, g.0);
                std::fs::write(&path, format!("{}# the last call above did not return within {} ms\n", g.1, limit_ms)).ok();
                let last = g.1.lines().last().unwrap_or("").to_string();
                println!("MONITOR property=C09 replay={} :: call did not return within {} ms: {} (sequence {})", path, limit_ms, last, g.0);
                let opn = last.split(' ').next().unwrap_or("");
                let futq = g.1.lines().any(|l| l.starts_with("cfg ") && l.contains("kind=fut"));
                if matches!(opn, "poll" | "start_send" | "poll_complete") || (futq && matches!(opn, "try_recv" | "recv")) {
                    println!("MONITOR property=C15 replay={} :: futures-handle call did not return within {} ms: {} (sequence {})", path, limit_ms, last, g.0);
                }
                std::process::exit(3);
            }
        });
        w
    }
    fn call_begin(&self) {
        CALL_START_MS.store(self.t0.elapsed().as_millis() as u64 + 1, Ordering::SeqCst);
    }
    fn call_end(&self) {
        CALL_START_MS.store(0, Ordering::SeqCst);
    }
}

// ---------------------------------------------------------------------------------------------
// running one sequence

#[derive(Default)]
struct Stats {
    m: BTreeMap<String, usize>,
    sequences: usize,
    calls: usize,
    samples: Vec<String>,
}

impl Stats {
    fn bump(&mut self, k: String) {
        *self.m.entry(k).or_default() += 1;
    }
}

struct SeqRun {
    text: String,
    /// shadow state before the teardown
    abs: Abs,
    viols: Vec<(String, String)>,
    ncalls: usize,
    panicked: bool,
}

struct Runner<'a> {
    watch: &'a Watch,
    stats: &'a mut Stats,
}

/// monitors that need nothing but the call, its result and the shadow state before it
fn monitors(abs: &Abs, op: &SOp, res: &str, viols: &mut Vec<(String, String)>) {
    let first = res.split(' ').next().unwrap_or("");
    if first == "PANIC" {
        let fut_call = matches!(op, SOp::Api(Op::StartSend(_)) | SOp::Api(Op::Poll(_)) | SOp::Api(Op::PollComplete(_)))
            || (abs.fut && matches!(op, SOp::Api(Op::TryRecv(_)) | SOp::Api(Op::Recv(_))));
        viols.push(("C09".into(), format!("{} panicked: {}", op.text(), res)));
        if fut_call {
            viols.push(("C15".into(), format!("{} on a futures handle panicked: {}", op.text(), res)));
        }
        return;
    }
    let h = match op.handle() {
        Some(h) => h,
        None => return,
    };
    let x = match abs.live(h) {
        Some(x) => x,
        None => return,
    };
    if !abs.valid(op) {
        return;
    }
    match op {
        SOp::Api(Op::TrySend(_)) | SOp::Api(Op::StartSend(_)) => {
            let sink = matches!(op, SOp::Api(Op::StartSend(_)));
            let no_recv = abs.receivers().is_empty();
            let refused = if sink { "err" } else { "disc" };
            if no_recv && first != refused {
                viols.push(("C13".into(), format!("{} with every receiver gone returned '{}' (expected {})", op.text(), res, refused)));
            }
            if !no_recv {
                let want = if abs.full() {
                    if sink {
                        "notready"
                    } else {
                        "full"
                    }
                } else if sink {
                    "ready"
                } else {
                    "ok"
                };
                if first != want {
                    let p = if sink { "C15" } else { "C09" };
                    viols.push((p.into(), format!("{} returned '{}' but the queue {} (head={} window={})", op.text(), res, if abs.full() { "is full" } else { "has room" }, abs.head, abs.n)));
                }
            }
        }
        SOp::Api(Op::Unsub(_)) => {
            if first == "true" || first == "false" {
                let last = abs.cnt(x.strm) == 1;
                if (first == "true") != last {
                    viols.push(("C11".into(), format!("{} returned {} but the stream had {} handle(s)", op.text(), first, abs.cnt(x.strm))));
                }
            }
        }
        SOp::Api(Op::TryRecv(_)) | SOp::Api(Op::Recv(_)) | SOp::Api(Op::TryRecvView(_)) | SOp::Api(Op::RecvView(_)) | SOp::Api(Op::Poll(_)) => {
            let poll = matches!(op, SOp::Api(Op::Poll(_)));
            let p = if poll || abs.fut { "C15" } else { "C09" };
            let end = first == "disc" || first == "none";
            if abs.ended.contains(&x.strm) && !end {
                viols.push((p.into(), format!("{} returned '{}' after the end of stream s{} had been reported", op.text(), res, x.strm)));
            }
            if end && (!abs.senders().is_empty() || abs.avail(h)) {
                viols.push((p.into(), format!("{} reported the end with {} sender(s) alive and value available={}", op.text(), abs.senders().len(), abs.avail(h))));
            }
            if !end {
                let got = first == "ok" || first == "some";
                if got != abs.avail(h) {
                    viols.push((p.into(), format!("{} returned '{}' but value available={}", op.text(), res, abs.avail(h))));
                }
            }
        }
        _ => {}
    }
}

fn registry_viols(reg: &Reg, from: usize, viols: &mut Vec<(String, String)>) -> usize {
    let g = reg.lock().unwrap();
    for v in g.violations.iter().skip(from) {
        let p = if v.starts_with("C15") { "C15" } else { "C05" };
        viols.push((p.into(), v.clone()));
    }
    g.violations.len()
}

impl<'a> Runner<'a> {
    /// Runs `ops` (stopping at a panic), then drops every remaining handle in an order drawn
    /// from `rng`, then checks the ledger.  `next` may extend the sequence on the fly.
    fn run(&mut self, name: &str, cfg: &QCfg, ops: &mut dyn FnMut(&Abs, usize) -> Option<SOp>, rng: &mut Rng, count_stats: bool) -> SeqRun {
        let mut text = format!("=== {}\ncfg {}\n", name, cfg.text());
        let mut viols: Vec<(String, String)> = Vec::new();
        let mut abs = Abs::new(cfg);
        {
            let mut g = self.watch.cur.lock().unwrap();
            g.0 = name.to_string();
            g.1 = text.clone();
        }
        let mut real = match Real::new(cfg) {
            Ok(r) => r,
            Err(e) => {
                viols.push(("C09".into(), format!("create panicked: {}", e)));
                text.push_str(&format!("create | PANIC {}\n", e));
                return SeqRun { text, abs, viols, ncalls: 0, panicked: true };
            }
        };
        let mut ncalls = 0usize;
        let mut seen_viol = 0usize;
        let mut panicked = false;
        let mut one = |real: &mut Real, abs: &mut Abs, op: &SOp, text: &mut String, viols: &mut Vec<(String, String)>, stats: &mut Stats, watch: &Watch| -> bool {
            let line0 = format!("{} | ", op.text());
            {
                let mut g = watch.cur.lock().unwrap();
                g.1.push_str(&line0);
                g.1.push('\n');
            }
            let hk = op.handle().map(|h| abs.kind(h)).unwrap_or_else(|| "-".into());
            watch.call_begin();
            let res = real.exec(op);
            watch.call_end();
            text.push_str(&line0);
            text.push_str(&res);
            text.push('\n');
            {
                let mut g = watch.cur.lock().unwrap();
                let l = g.1.len();
                g.1.truncate(l - 1);
                g.1.push_str(&res);
                g.1.push('\n');
            }
            monitors(abs, op, &res, viols);
            seen_viol = registry_viols(&real.reg, seen_viol, viols);
            if count_stats {
                let first = if let SOp::Ledger = op { "ledger" } else { res.split(' ').next().unwrap_or("") };
                stats.bump(format!("op:{}", op.name()));
                stats.bump(format!("result:{}:{}", op.name(), first));
                stats.bump(format!("handle:{}", hk));
                stats.calls += 1;
            }
            abs.apply(op, &res);
            !res.starts_with("PANIC")
        };
        loop {
            let op = match ops(&abs, ncalls) {
                Some(o) => o,
                None => break,
            };
            ncalls += 1;
            if !one(&mut real, &mut abs, &op, &mut text, &mut viols, self.stats, self.watch) {
                panicked = true;
                break;
            }
        }
        let before = abs.clone();
        if !panicked {
            // teardown: every remaining handle, in a random order
            let mut live: Vec<usize> = (0..abs.slots.len()).filter(|&i| abs.slots[i].live).collect();
            while !live.is_empty() {
                let i = rng.below(live.len());
                let h = live.swap_remove(i);
                ncalls += 1;
                let op = if rng.chance(1, 4) { SOp::Api(Op::Unsub(h)) } else { SOp::Api(Op::Drop(h)) };
                if !one(&mut real, &mut abs, &op, &mut text, &mut viols, self.stats, self.watch) {
                    panicked = true;
                    break;
                }
            }
        }
        if !panicked {
            ncalls += 1;
            one(&mut real, &mut abs, &SOp::Ledger, &mut text, &mut viols, self.stats, self.watch);
            // every payload object the run created has been dropped exactly once
            let g = real.reg.lock().unwrap();
            let mut never: Vec<u64> = g.objs.values().filter(|o| o.1 == 0).map(|o| o.0).collect();
            let mut twice: Vec<u64> = g.objs.values().filter(|o| o.1 > 1).map(|o| o.0).collect();
            never.sort();
            twice.sort();
            if !never.is_empty() {
                viols.push(("C05".into(), format!("after teardown {} payload object(s) were never dropped: values {:?}", never.len(), never)));
            }
            if !twice.is_empty() {
                viols.push(("C05".into(), format!("after teardown {} payload object(s) were dropped more than once: values {:?}", twice.len(), twice)));
            }
            if g.births + g.clones != g.drops {
                viols.push(("C05".into(), format!("ledger does not balance: births {} + clones {} != drops {}", g.births, g.clones, g.drops)));
            }
        }
        set_reg(None);
        if count_stats {
            self.stats.sequences += 1;
            self.stats.bump(format!("cfg:{}-{}", if cfg.bcast { "bcast" } else { "mpmc" }, if cfg.fut { "fut" } else { "plain" }));
            self.stats.bump(format!("cap:{}", cfg.cap));
            self.stats.bump(format!("N:{}", valid_wrap(cfg.cap)));
            let b = match ncalls {
                0..=4 => "0-4",
                5..=9 => "5-9",
                10..=19 => "10-19",
                20..=99 => "20-99",
                100..=199 => "100-199",
                200..=299 => "200-299",
                300..=399 => "300-399",
                _ => "400+",
            };
            self.stats.bump(format!("len:{}", b));
            self.stats.bump(format!("max_senders:{}", before.senders().len().min(9)));
        }
        SeqRun { text, abs: before, viols, ncalls, panicked }
    }
}

// ---------------------------------------------------------------------------------------------
// generators

#[derive(Clone, Copy, PartialEq)]
enum RtMode {
    None,
    Null,
}

struct GenCfg {
    rt: RtMode,
    /// allow add_stream / into_multi on the mpmc futures single-consumer receiver (finding F5)
    f5: bool,
}

/// The exhaustive alphabet: 17 letters, each resolved against the current handle table
/// ("first / last live handle of the needed kind"); letters that do not apply are skipped.
const LETTERS: usize = 17;

fn letter(abs: &Abs, l: usize, g: &GenCfg, slow: &mut usize) -> Option<SOp> {
    let ss = abs.senders();
    let rs = abs.receivers();
    let first_role = |role: u8| rs.iter().cloned().find(|&h| abs.slots[h].role == role);
    let poll_ok = |h: usize, slow: &mut usize| -> bool {
        if abs.returns(h) || g.rt == RtMode::Null {
            true
        } else if *slow > 0 {
            *slow -= 1;
            true
        } else {
            false
        }
    };
    let op = match l {
        // 0: try_send on the first sender
        0 => SOp::Api(Op::TrySend(*ss.first()?)),
        // 1: futures: start_send on the first sender; plain: try_send on the last sender if it is another one
        1 => {
            if abs.fut {
                SOp::Api(Op::StartSend(*ss.first()?))
            } else {
                if ss.len() < 2 {
                    return None;
                }
                SOp::Api(Op::TrySend(*ss.last()?))
            }
        }
        // 2: try_recv on the first receiver handle
        2 => SOp::Api(Op::TryRecv(*rs.first()?)),
        // 3: try_recv on the last receiver handle (if another one)
        3 => {
            if rs.len() < 2 {
                return None;
            }
            SOp::Api(Op::TryRecv(*rs.last()?))
        }
        // 4: blocking recv on the first receiver handle that will return
        4 => SOp::Api(Op::Recv(rs.iter().cloned().find(|&h| abs.returns(h))?)),
        // 5: plain: try_recv_view on the first single-consumer receiver; futures: poll on the first receiver
        5 => {
            if abs.fut {
                let h = *rs.first()?;
                if !poll_ok(h, slow) {
                    return None;
                }
                SOp::Api(Op::Poll(h))
            } else {
                SOp::Api(Op::TryRecvView(first_role(RU)?))
            }
        }
        // 6: plain: recv_view on the first single-consumer receiver that will return; futures: poll on the last receiver
        6 => {
            if abs.fut {
                if rs.len() < 2 {
                    return None;
                }
                let h = *rs.last()?;
                if !poll_ok(h, slow) {
                    return None;
                }
                SOp::Api(Op::Poll(h))
            } else {
                SOp::Api(Op::RecvView(rs.iter().cloned().find(|&h| abs.slots[h].role == RU && abs.returns(h))?))
            }
        }
        // 7: clone the first shared receiver
        7 => SOp::Api(Op::Clone(first_role(RR)?)),
        // 8: clone the first sender
        8 => SOp::Api(Op::Clone(*ss.first()?)),
        // 9: add_stream on the first handle that has it
        9 => {
            let h = rs.iter().cloned().find(|&h| {
                let x = &abs.slots[h];
                (x.role == RR && abs.bcast) || (x.role == RU && abs.fut && (abs.bcast || g.f5))
            })?;
            SOp::Api(Op::AddStream(h))
        }
        // 10: drop the last receiver handle
        10 => SOp::Api(Op::Drop(*rs.last()?)),
        // 11: unsubscribe the first receiver handle
        11 => SOp::Api(Op::Unsub(*rs.first()?)),
        // 12: drop the first sender
        12 => SOp::Api(Op::Drop(*ss.first()?)),
        // 13: unsubscribe the last sender
        13 => SOp::Api(Op::Unsub(*ss.last()?)),
        // 14: into_single on the first shared receiver
        14 => SOp::Api(Op::IntoSingle(first_role(RR)?)),
        // 15: into_multi on the first single-consumer receiver
        15 => {
            let h = first_role(RU)?;
            if abs.fut && !abs.bcast && !g.f5 {
                return None;
            }
            SOp::Api(Op::IntoMulti(h))
        }
        // 16: futures: poll_complete on the first sender; plain: the non-blocking iterator (2 items) on the first receiver
        16 => {
            if abs.fut {
                SOp::Api(Op::PollComplete(*ss.first()?))
            } else {
                SOp::TryIter(*rs.first()?, 2)
            }
        }
        _ => return None,
    };
    Some(op)
}

struct RandPlan {
    len: usize,
    /// out of 100: weight of sending vs receiving
    send_bias: usize,
    slow: usize,
    /// may the last sender / last receiver go away before the final fifth of the sequence?
    early_end: bool,
    /// calls still allowed once one side (all senders or all receivers) is gone
    tail: usize,
}

fn pick<T: Clone>(rng: &mut Rng, v: &[T]) -> Option<T> {
    if v.is_empty() {
        None
    } else {
        Some(v[rng.below(v.len())].clone())
    }
}

fn random_op(abs: &Abs, i: usize, plan: &mut RandPlan, g: &GenCfg, rng: &mut Rng) -> Option<SOp> {
    if i >= plan.len {
        return None;
    }
    let ss = abs.senders();
    let rs = abs.receivers();
    if ss.is_empty() && rs.is_empty() {
        return None;
    }
    if ss.is_empty() || rs.is_empty() {
        // one side is gone for good: a bounded tail (drain to the end / refused sends)
        if plan.tail == 0 {
            return None;
        }
        plan.tail -= 1;
    }
    let late = i * 10 >= plan.len * 8;
    let mut c: Vec<(usize, SOp)> = Vec::new();
    let ws = plan.send_bias * 4;
    let wr = (100 - plan.send_bias) * 4;
    if let Some(s) = pick(rng, &ss) {
        if abs.fut {
            c.push((ws / 2, SOp::Api(Op::TrySend(s))));
            c.push((ws / 2, SOp::Api(Op::StartSend(s))));
            c.push((10, SOp::Api(Op::PollComplete(s))));
        } else {
            c.push((ws, SOp::Api(Op::TrySend(s))));
        }
        if ss.len() < 4 {
            c.push((12, SOp::Api(Op::Clone(s))));
        }
        let w = if ss.len() > 1 {
            10
        } else if late {
            12
        } else if plan.early_end && rng.chance(1, 3) {
            1
        } else {
            0
        };
        c.push((w, SOp::Api(Op::Drop(s))));
        c.push(((w + 1) / 2, SOp::Api(Op::Unsub(s))));
    }
    if let Some(r) = pick(rng, &rs) {
        let x = abs.slots[r].clone();
        c.push((wr / 2, SOp::Api(Op::TryRecv(r))));
        if abs.returns(r) {
            c.push((wr / 4, SOp::Api(Op::Recv(r))));
        }
        if abs.fut {
            if abs.returns(r) {
                c.push((wr / 2, SOp::Api(Op::Poll(r))));
            } else if g.rt == RtMode::Null {
                c.push((wr / 4, SOp::Api(Op::Poll(r))));
            } else if plan.slow > 0 {
                c.push((2, SOp::Api(Op::Poll(r))));
            }
        } else {
            if x.role == RU {
                c.push((wr / 2, SOp::Api(Op::TryRecvView(r))));
                if abs.returns(r) {
                    c.push((wr / 4, SOp::Api(Op::RecvView(r))));
                }
            }
            c.push((12, SOp::TryIter(r, 1 + rng.below(4))));
            if ss.is_empty() {
                c.push((10, SOp::IterAll(r)));
            }
        }
        if x.role == RR {
            if abs.cnt(x.strm) < 3 {
                c.push((14, SOp::Api(Op::Clone(r))));
            }
            c.push((10, SOp::Api(Op::IntoSingle(r))));
        }
        if x.role == RU && (abs.bcast || !abs.fut || g.f5) {
            c.push((10, SOp::Api(Op::IntoMulti(r))));
        }
        let can_add = (x.role == RR && abs.bcast) || (x.role == RU && abs.fut && (abs.bcast || g.f5));
        if can_add && abs.nstreams() < 4 {
            c.push((if g.f5 { 40 } else { 14 }, SOp::Api(Op::AddStream(r))));
        }
        let w = if rs.len() > 1 {
            12
        } else if late {
            12
        } else if plan.early_end && rng.chance(1, 3) {
            1
        } else {
            0
        };
        c.push((w, SOp::Api(Op::Drop(r))));
        c.push((w, SOp::Api(Op::Unsub(r))));
    }
    c.push((6, SOp::Ledger));
    // a call the handle type does not have, or on a dead / missing slot (never one that blocks)
    {
        let h = rng.below(abs.slots.len() + 1);
        let o = match rng.below(11) {
            0 => Op::TrySend(h),
            1 => Op::TryRecv(h),
            2 => Op::TryRecvView(h),
            3 => Op::Clone(h),
            4 => Op::AddStream(h),
            5 => Op::IntoSingle(h),
            6 => Op::IntoMulti(h),
            7 => Op::StartSend(h),
            8 => Op::PollComplete(h),
            9 => Op::Poll(h),
            _ => Op::Drop(h),
        };
        let op = SOp::Api(o);
        if !abs.valid(&op) {
            c.push((3, op));
        }
    }
    let total: usize = c.iter().map(|x| x.0).sum();
    let mut k = rng.below(total);
    for (w, op) in c {
        if k < w {
            if let SOp::Api(Op::Poll(h)) = &op {
                if !abs.returns(*h) && g.rt == RtMode::None && abs.valid(&op) {
                    plan.slow = plan.slow.saturating_sub(1);
                }
            }
            return Some(op);
        }
        k -= w;
    }
    None
}

// ---------------------------------------------------------------------------------------------
// command line

fn arg<'a>(args: &'a [String], name: &str) -> Option<&'a str> {
    args.iter().position(|a| a == name).and_then(|i| args.get(i + 1)).map(|s| s.as_str())
}

fn jstr(s: &str) -> String {
    let mut o = String::from("\"");
    for c in s.chars() {
        match c {
            '"' => o.push_str("\\\""),
            '\\' => o.push_str("\\\\"),
            '\n' => o.push_str("\\n"),
            c if (c as u32) < 0x20 => o.push(' '),
            c => o.push(c),
        }
    }
    o.push('"');
    o
}

fn parse_cfg_line(s: &str) -> QCfg {
    let kv: std::collections::HashMap<&str, &str> = s.split(' ').filter_map(|x| x.split_once('=')).collect();
    let fut = kv.get("kind") == Some(&"fut");
    let w: Vec<&str> = kv.get("wait").unwrap_or(&"busy").split(':').collect();
    let a: usize = w.get(1).and_then(|x| x.parse().ok()).unwrap_or(0);
    let b: usize = w.get(2).and_then(|x| x.parse().ok()).unwrap_or(0);
    let wait = match w[0] {
        "yield" => WaitCfg::Yield(a, b),
        "block" => WaitCfg::Block(a, b),
        _ => WaitCfg::Busy,
    };
    QCfg {
        bcast: kv.get("flavour") == Some(&"bcast"),
        fut,
        cap: kv.get("cap").and_then(|x| x.parse().ok()).unwrap_or(1),
        wait,
        fspins: if fut && w[0] == "fut" && !(a == 50 && b == 50) { Some((a, b)) } else { None },
    }
}

fn wait_for(rng: &mut Rng) -> WaitCfg {
    match rng.below(4) {
        0 => WaitCfg::Busy,
        1 => WaitCfg::Yield(2, 2),
        2 => WaitCfg::Block(2, 2),
        _ => WaitCfg::BlockDefault,
    }
}

struct Sink {
    out: Option<std::io::BufWriter<std::fs::File>>,
    replays: String,
    viols: Vec<(String, String, String)>,
    failing: usize,
}

impl Sink {
    fn take(&mut self, name: &str, r: &SeqRun) {
        if let Some(f) = self.out.as_mut() {
            f.write_all(r.text.as_bytes()).unwrap();
        }
        if !r.viols.is_empty() {
            self.failing += 1;
            let path = format!("{}/seq-{}.seq", self.replays, name);
            if self.failing <= 40 {
                std::fs::create_dir_all(&self.replays).ok();
                let mut t = r.text.clone();
                for (p, m) in &r.viols {
                    t.push_str(&format!("# MONITOR property={} :: {}\n", p, m));
                }
                std::fs::write(&path, t).ok();
            } else {
                // enough files; the sequence is still in --out
                return;
            }
            for (p, m) in &r.viols {
                if self.viols.len() < 2000 {
                    self.viols.push((p.clone(), m.clone(), path.clone()));
                }
            }
        }
    }
}

fn replay(path: &str, rt: RtMode) {
    let text = std::fs::read_to_string(path).expect("replay file");
    let mut cfg: Option<QCfg> = None;
    let mut ops: Vec<SOp> = Vec::new();
    let mut name = "replay".to_string();
    for l in text.lines() {
        let l = l.trim();
        if l.is_empty() || l.starts_with('#') {
            continue;
        }
        if let Some(n) = l.strip_prefix("=== ") {
            if cfg.is_some() {
                break; // first sequence only
            }
            name = n.trim().to_string();
        } else if let Some(c) = l.strip_prefix("cfg ") {
            cfg = Some(parse_cfg_line(c));
        } else {
            let op = l.split(" | ").next().unwrap_or("");
            if let Some(o) = parse_sop(op) {
                ops.push(o);
            }
        }
    }
    let cfg = cfg.expect("cfg line");
    // the runner appends its own final ledger line
    if ops.last() == Some(&SOp::Ledger) {
        ops.pop();
    }
    if rt == RtMode::Null {
        set_runtime(Some(Arc::new(NullRt)));
    }
    let watch = Watch::start("/tmp".into(), 20000);
    let mut stats = Stats::default();
    let mut runner = Runner { watch: &watch, stats: &mut stats };
    let mut rng = Rng(1);
    // the recorded sequence already contains its teardown; nothing is appended unless handles are left
    let mut it = ops.into_iter();
    let mut blocked: Option<String> = None;
    let mut next = |abs: &Abs, _i: usize| -> Option<SOp> {
        let op = it.next()?;
        // never replay a call that would block for ever
        let blocks = match &op {
            SOp::Api(Op::Recv(h)) | SOp::Api(Op::RecvView(h)) | SOp::IterAll(h) => abs.valid(&op) && !abs.returns(*h),
            _ => false,
        };
        if blocks {
            blocked = Some(op.text());
            return None;
        }
        Some(op)
    };
    let r = runner.run(&name, &cfg, &mut next, &mut rng, false);
    print!("{}", r.text);
    if let Some(b) = blocked {
        println!("# stopped before '{}': it would block for ever", b);
    }
    for (p, m) in &r.viols {
        println!("# MONITOR property={} :: {}", p, m);
    }
    println!("# replayed calls={} violations={}", r.ncalls, r.viols.len());
}

pub fn main(args: &[String]) {
    // panics are results here; keep stderr quiet
    std::panic::set_hook(Box::new(|_| {}));
    let rt = match arg(args, "--rt") {
        Some("null") => RtMode::Null,
        _ => RtMode::None,
    };
    if let Some(p) = arg(args, "--replay") {
        replay(p, rt);
        return;
    }
    let mode = arg(args, "--mode").unwrap_or("random").to_string();
    let depth: usize = arg(args, "--depth").and_then(|s| s.parse().ok()).unwrap_or(4);
    let count: usize = arg(args, "--count").and_then(|s| s.parse().ok()).unwrap_or(100);
    let seed: u64 = arg(args, "--seed").and_then(|s| s.parse().ok()).unwrap_or(1);
    let caps: Vec<u64> = arg(args, "--caps").unwrap_or("0,1,2,3").split(',').filter_map(|s| s.parse().ok()).collect();
    let replays = arg(args, "--replays").unwrap_or("/verif/replays").to_string();
    let slow_polls: usize = arg(args, "--slow-polls").and_then(|s| s.parse().ok()).unwrap_or(4);
    let min_len: usize = arg(args, "--min-len").and_then(|s| s.parse().ok()).unwrap_or(100);
    let max_len: usize = arg(args, "--max-len").and_then(|s| s.parse().ok()).unwrap_or(400);
    let tag = arg(args, "--tag").unwrap_or("s").to_string();
    let flavours: Vec<(bool, bool)> = match arg(args, "--only") {
        Some(s) => s
            .split(',')
            .map(|x| (x.starts_with("bcast"), x.ends_with("fut")))
            .collect(),
        None => vec![(true, false), (false, false), (true, true), (false, true)],
    };
    let out = arg(args, "--out").map(|p| std::io::BufWriter::with_capacity(1 << 20, std::fs::File::create(p).unwrap()));
    let mut sink = Sink { out, replays: replays.clone(), viols: Vec::new(), failing: 0 };
    if rt == RtMode::Null {
        set_runtime(Some(Arc::new(NullRt)));
    }
    let hang_ms: u64 = arg(args, "--hang-ms").and_then(|s| s.parse().ok()).unwrap_or(20000);
    let watch = Watch::start(replays.clone(), hang_ms);
    let mut stats = Stats::default();
    let t0 = std::time::Instant::now();
    let mut slow_left = slow_polls;
    let alphabet: &str = "try_send(first sender); start_send(first sender)|try_send(last sender); try_recv(first receiver); try_recv(last receiver); recv(first receiver that returns); poll(first receiver)|try_recv_view(first uni); poll(last receiver)|recv_view(first uni that returns); clone(first shared receiver); clone(first sender); add_stream(first handle that has it); drop(last receiver); unsub(first receiver); drop(first sender); unsub(last sender); into_single(first shared receiver); into_multi(first uni); poll_complete(first sender)|try_iter 2(first receiver)";
    match mode.as_str() {
        "exhaustive" => {
            let g = GenCfg { rt, f5: false };
            let mut idx = 0usize;
            for &(bcast, fut) in &flavours {
                for &cap in &caps {
                    let cfg = QCfg { bcast, fut, cap, wait: if fut { WaitCfg::Busy } else { WaitCfg::Block(2, 2) }, fspins: None };
                    // iterative DFS over sequences of concrete ops
                    let mut stack: Vec<Vec<SOp>> = vec![Vec::new()];
                    while let Some(prefix) = stack.pop() {
                        idx += 1;
                        let name = format!("{}x-{}{}-c{}-{}", tag, if bcast { "b" } else { "m" }, if fut { "f" } else { "p" }, cap, idx);
                        let mut rng = Rng(seed.wrapping_mul(0x9E37_79B9).wrapping_add(idx as u64));
                        let mut i = 0usize;
                        let pre = prefix.clone();
                        let mut next = |_abs: &Abs, _k: usize| -> Option<SOp> {
                            let r = pre.get(i).cloned();
                            i += 1;
                            r
                        };
                        let r = {
                            let mut runner = Runner { watch: &watch, stats: &mut stats };
                            runner.run(&name, &cfg, &mut next, &mut rng, true)
                        };
                        if stats.samples.len() < 4 && prefix.len() == depth && idx % 97 == 0 {
                            stats.samples.push(r.text.replace('\n', " ; "));
                        }
                        sink.take(&name, &r);
                        if prefix.len() < depth && !r.panicked {
                            for l in (0..LETTERS).rev() {
                                if let Some(op) = letter(&r.abs, l, &g, &mut slow_left) {
                                    let mut p = prefix.clone();
                                    p.push(op);
                                    stack.push(p);
                                }
                            }
                        }
                    }
                }
            }
        }
        "random" | "f5" => {
            let f5 = mode == "f5";
            let g = GenCfg { rt, f5 };
            for i in 0..count {
                let mut rng = Rng(seed.wrapping_mul(0x9E37_79B9).wrapping_add(0x51ED_2701).wrapping_add(i as u64 * 7919));
                let (bcast, fut) = if f5 { (false, true) } else { flavours[i % flavours.len()] };
                let cap = if caps.is_empty() { 1 } else { caps[rng.below(caps.len())] };
                let cfg = QCfg { bcast, fut, cap, wait: if fut { WaitCfg::Busy } else { wait_for(&mut rng) }, fspins: None };
                let len = if f5 { 10 + rng.below(30) } else { min_len + rng.below(max_len.saturating_sub(min_len) + 1) };
                let mut plan = RandPlan { len, send_bias: [30, 45, 55, 70][rng.below(4)], slow: slow_left.min(1), early_end: rng.chance(1, 4), tail: 8 + rng.below(25) };
                let had = plan.slow;
                let name = format!("{}{}-{}-{}", tag, if f5 { "f5" } else { "r" }, seed, i);
                let mut rng2 = Rng(rng.next());
                let mut first = f5;
                let mut next = |abs: &Abs, k: usize| -> Option<SOp> {
                    if first {
                        // F5 needs a single-consumer futures receiver on the move-out queue
                        first = false;
                        return Some(SOp::Api(Op::IntoSingle(1)));
                    }
                    random_op(abs, k, &mut plan, &g, &mut rng2)
                };
                let r = {
                    let mut runner = Runner { watch: &watch, stats: &mut stats };
                    runner.run(&name, &cfg, &mut next, &mut rng, true)
                };
                slow_left -= had - plan.slow.min(had);
                if stats.samples.len() < 3 {
                    let s: String = r.text.replace('\n', " ; ");
                    stats.samples.push(s.chars().take(600).collect());
                }
                sink.take(&name, &r);
            }
        }
        other => {
            println!("unknown mode {}", other);
            return;
        }
    }
    if let Some(f) = sink.out.as_mut() {
        f.flush().unwrap();
    }
    let secs = t0.elapsed().as_secs_f64();
    for (p, m, path) in &sink.viols {
        println!("MONITOR property={} replay={} :: {}", p, path, m);
    }
    if let Some(jp) = arg(args, "--json") {
        let mut j = String::from("{");
        j.push_str(&format!(
            "\"mode\":{},\"depth\":{},\"seed\":{},\"rt\":{},\"sequences\":{},\"calls\":{},\"failing_sequences\":{},\"seconds\":{:.3},\"calls_per_second\":{:.0},",
            jstr(&mode),
            depth,
            seed,
            jstr(if rt == RtMode::Null { "null" } else { "none" }),
            stats.sequences,
            stats.calls,
            sink.failing,
            secs,
            stats.calls as f64 / secs.max(1e-9)
        ));
        j.push_str(&format!("\"alphabet\":{},", jstr(alphabet)));
        j.push_str("\"stats\":{");
        j.push_str(&stats.m.iter().map(|(k, v)| format!("{}:{}", jstr(k), v)).collect::<Vec<_>>().join(","));
        j.push_str("},\"samples\":[");
        j.push_str(&stats.samples.iter().map(|s| jstr(s)).collect::<Vec<_>>().join(","));
        j.push_str("],\"violations\":[");
        j.push_str(
            &sink
                .viols
                .iter()
                .map(|(p, m, r)| format!("{{\"prop\":{},\"msg\":{},\"replay\":{}}}", jstr(p), jstr(m), jstr(r)))
                .collect::<Vec<_>>()
                .join(","),
        );
        j.push_str("]}");
        std::fs::write(jp, j).unwrap();
    }
    println!(
        "seq mode={} sequences={} calls={} failing={} violations={} seconds={:.2} calls_per_second={:.0}",
        mode,
        stats.sequences,
        stats.calls,
        sink.failing,
        sink.viols.len(),
        secs,
        stats.calls as f64 / secs.max(1e-9)
    );
}
