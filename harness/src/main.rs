mod allocs;
mod api;
mod arith;
mod gen;
mod monitors;
mod run;
mod sched;
mod seq;

use api::*;
use run::*;
use sched::*;
use std::collections::{BTreeMap, HashMap};
use std::io::Write;

#[global_allocator]
static GLOBAL: allocs::Counting = allocs::Counting;

fn parse_ops(s: &str) -> Vec<Op> {
    // split on ';' at bracket depth 0
    let mut out = Vec::new();
    let mut depth = 0;
    let mut cur = String::new();
    for ch in s.chars() {
        match ch {
            '[' => {
                depth += 1;
                cur.push(ch)
            }
            ']' => {
                depth -= 1;
                cur.push(ch)
            }
            ';' if depth == 0 => {
                if !cur.trim().is_empty() {
                    out.push(parse_op(cur.trim()));
                }
                cur.clear();
            }
            _ => cur.push(ch),
        }
    }
    if !cur.trim().is_empty() {
        out.push(parse_op(cur.trim()));
    }
    out
}

fn parse_op(s: &str) -> Op {
    let s = s.trim();
    if let Some(rest) = s.strip_prefix("spawn ") {
        // spawn [a,b] [ops]
        let close = rest.find(']').unwrap();
        let hs: Vec<usize> = rest[1..close].split(',').filter(|x| !x.is_empty()).map(|x| x.trim().parse().unwrap()).collect();
        let rest2 = rest[close + 1..].trim();
        let inner = &rest2[1..rest2.len() - 1];
        return Op::Spawn(hs, parse_ops(inner));
    }
    let t: Vec<&str> = s.split(' ').collect();
    let h: usize = t.get(1).and_then(|x| x.parse().ok()).unwrap_or(0);
    let n: usize = t.get(2).and_then(|x| x.parse().ok()).unwrap_or(0);
    match t[0] {
        "try_send" => Op::TrySend(h),
        "try_recv" => Op::TryRecv(h),
        "recv" => Op::Recv(h),
        "try_recv_view" => Op::TryRecvView(h),
        "recv_view" => Op::RecvView(h),
        "try_iter" => Op::TryIter(h, n),
        "iter_all" => Op::IterAll(h),
        "clone" => Op::Clone(h),
        "add_stream" => Op::AddStream(h),
        "drop" => Op::Drop(h),
        "unsub" => Op::Unsub(h),
        "into_single" => Op::IntoSingle(h),
        "into_multi" => Op::IntoMulti(h),
        "start_send" => Op::StartSend(h),
        "poll_complete" => Op::PollComplete(h),
        "poll" => Op::Poll(h),
        "sink_send" => Op::SinkSend(h),
        "stream_next" => Op::StreamNext(h),
        "send_retry" => Op::SendRetry(h, n),
        other => panic!("unknown op {}", other),
    }
}

fn parse_cfg(s: &str) -> QCfg {
    let kv: HashMap<&str, &str> = s.split(' ').filter_map(|x| x.split_once('=')).collect();
    let fut = kv.get("kind") == Some(&"fut");
    let w: Vec<&str> = kv.get("wait").unwrap_or(&"busy").split(':').collect();
    let a: usize = w.get(1).and_then(|x| x.parse().ok()).unwrap_or(0);
    let b: usize = w.get(2).and_then(|x| x.parse().ok()).unwrap_or(0);
    let wait = match w[0] {
        "busy" => WaitCfg::Busy,
        "yield" => WaitCfg::Yield(a, b),
        "block" => WaitCfg::Block(a, b),
        _ => WaitCfg::Busy,
    };
    QCfg {
        bcast: kv.get("flavour") == Some(&"bcast"),
        fut,
        cap: kv.get("cap").and_then(|x| x.parse().ok()).unwrap_or(1),
        wait,
        fspins: if fut && w[0] == "fut" && !(a == 50 && b == 50) { Some((a, b)) } else { None },
    }
}

pub fn scenario_text(sc: &Scenario) -> String {
    let mut s = String::new();
    s.push_str(&format!("family {}\n", sc.family));
    s.push_str(&format!("cfg {}\n", sc.cfg.text()));
    s.push_str(&format!(
        "epilogue {}\n",
        match sc.epilogue {
            Epilogue::Probe => "probe",
            Epilogue::DropSendersFirst => "senders_first",
            Epilogue::DropReceiversFirst => "receivers_first",
        }
    ));
    for op in &sc.main {
        s.push_str(&format!("op {}\n", op.text()));
    }
    s
}

pub fn parse_replay(text: &str) -> (Scenario, Vec<usize>, Vec<String>) {
    let mut sc = Scenario {
        cfg: QCfg { bcast: true, fut: false, cap: 1, wait: WaitCfg::Busy, fspins: None },
        main: vec![],
        epilogue: Epilogue::Probe,
        family: "replay".into(),
    };
    let mut sched = Vec::new();
    let mut props = Vec::new();
    for l in text.lines() {
        let (k, v) = l.split_once(' ').unwrap_or((l, ""));
        match k {
            "family" => sc.family = v.to_string(),
            "cfg" => sc.cfg = parse_cfg(v),
            "epilogue" => {
                sc.epilogue = match v {
                    "probe" => Epilogue::Probe,
                    "senders_first" => Epilogue::DropSendersFirst,
                    _ => Epilogue::DropReceiversFirst,
                }
            }
            "op" => sc.main.push(parse_op(v)),
            "schedule" => sched = v.split(' ').filter_map(|x| x.parse().ok()).collect(),
            "prop" => props.push(v.to_string()),
            _ => {}
        }
    }
    (sc, sched, props)
}

fn jstr(s: &str) -> String {
    let mut o = String::from("\"");
    for c in s.chars() {
        match c {
            '"' => o.push_str("\\\""),
            '\\' => o.push_str("\\\\"),
            '\n' => o.push_str("\\n"),
            c if (c as u32) < 0x20 => o.push(' '),
            c => o.push(c),
        }
    }
    o.push('"');
    o
}

fn arg<'a>(args: &'a [String], name: &str) -> Option<&'a str> {
    args.iter().position(|a| a == name).and_then(|i| args.get(i + 1)).map(|s| s.as_str())
}

fn explore(args: &[String]) {
    if let Ok(v) = std::env::var("MQ_LEAKBT") {
        allocs::DBG_SIZE.store(v.parse().unwrap_or(usize::MAX), std::sync::atomic::Ordering::Relaxed);
    }
    let families: Vec<String> = arg(args, "--families").unwrap_or("ring").split(',').map(|s| s.to_string()).collect();
    let count: usize = arg(args, "--count").and_then(|s| s.parse().ok()).unwrap_or(50);
    let seed: u64 = arg(args, "--seed").and_then(|s| s.parse().ok()).unwrap_or(1);
    let budget: usize = arg(args, "--budget").and_then(|s| s.parse().ok()).unwrap_or(6000);
    let traces_path = arg(args, "--traces");
    let json_path = arg(args, "--json");
    let replay_dir = arg(args, "--replays").unwrap_or("/verif/replays");
    let tag = arg(args, "--tag").unwrap_or("x");
    let mut tf = traces_path.map(|p| std::io::BufWriter::new(std::fs::File::create(p).unwrap()));
    let mut stats: BTreeMap<String, usize> = BTreeMap::new();
    let mut viols: Vec<(String, String, String)> = Vec::new(); // prop, msg, replay
    let mut samples: Vec<String> = Vec::new();
    let mut distinct: std::collections::HashSet<u64> = std::collections::HashSet::new();
    let mut total_steps = 0usize;
    let mut total_calls = 0usize;
    let only: Option<usize> = arg(args, "--only").and_then(|s| s.parse().ok());
    // --sweep T:D:W — stall thread T at each of its own steps D-2 .. D+W (three run seeds each)
    let sweep: Option<(usize, usize, usize)> = arg(args, "--sweep").and_then(|s| {
        let v: Vec<usize> = s.split(':').filter_map(|x| x.parse().ok()).collect();
        if v.len() == 3 { Some((v[0], v[1], v[2])) } else { None }
    });
    let mut jobs: Vec<(usize, Option<(usize, usize, u64)>)> = Vec::new();
    for i in 0..count {
        if let Some(o) = only {
            if o != i { continue; }
        }
        match sweep {
            Some((t, d, wd)) => {
                for off in 0..(wd + 3) {
                    for k in 0..3u64 {
                        jobs.push((i, Some((t, (d + off).saturating_sub(2), k))));
                    }
                }
            }
            None => jobs.push((i, None)),
        }
    }
    for (i, sw) in jobs {
        let fam = &families[i % families.len()];
        let mut rng = Rng(seed.wrapping_mul(0x9E37_79B9).wrapping_add(i as u64 * 7919));
        let mut sc = gen::gen(fam, &mut rng);
        if arg(args, "--solo").is_some() && !sc.cfg.fut {
            // C18 is about wait strategies that need no notification
            sc.cfg.wait = if rng.chance(1, 2) { WaitCfg::Busy } else { WaitCfg::Yield(1, 1) };
        }
        let solo_only = arg(args, "--solo").is_some();
        let strat = if solo_only {
            if rng.chance(1, 2) { Strategy::FreezeThenSolo { delay: rng.below(60), bound: 150 } } else { Strategy::Solo { start: 20 + rng.below(200), tid: rng.below(4), bound: 150, when_pinned: rng.chance(1, 2) } }
        } else { match rng.below(7) {
            0 | 1 => Strategy::Random,
            2 => Strategy::Pct { d: 1 },
            3 => Strategy::Pct { d: 2 },
            4 => Strategy::Pct { d: 3 },
            5 => Strategy::Stall { victim: rng.below(4), at: rng.below(120) },
            _ => Strategy::Stall2 { victim: 1 + rng.below(3), at1: rng.below(40), run1: 20 + rng.below(200), at2: 1 + rng.below(12) },
        } };
        // the known-finding family F1 needs its window held open: the adding thread stalls right after its snapshot
        let strat = if fam == "kf1" && rng.chance(3, 4) { Strategy::Stall { victim: 1, at: 2 } } else { strat };
        // the pin family needs a two-stage hold: see gen::pin
        let strat = if fam == "pin" && rng.chance(5, 6) {
            Strategy::Script(vec![Ph::UntilThreads(0, 3), Ph::Steps(1, 3 + rng.below(6)), Ph::ToEnd(2), Ph::Steps(1, 1 + rng.below(5)), Ph::Steps(0, 8 + rng.below(10))])
        } else { strat };
        let strat = if fam == "pinf" && rng.chance(5, 6) {
            Strategy::Script(vec![Ph::UntilThreads(0, 3), Ph::Steps(1, 7 + rng.below(6)), Ph::ToEnd(2), Ph::ToEnd(0), Ph::ToEnd(1)])
        } else { strat };
        let strat = match sw { Some((t, at, _)) => Strategy::Stall { victim: t, at }, None => strat };
        let sname = match &strat {
            Strategy::Random => "random".to_string(),
            Strategy::Script(_) => "script".to_string(),
            Strategy::Pct { d } => format!("pct{}", d),
            Strategy::Stall { .. } => "stall".to_string(),
            Strategy::Stall2 { .. } => "stall2".to_string(),
            Strategy::Solo { .. } => "solo".to_string(),
            Strategy::FreezeThenSolo { .. } => "freeze_solo".to_string(),
            _ => "replay".to_string(),
        };
        allocs::t_reset();
        let run_seed = rng.next().wrapping_add(match sw { Some((_, at, k)) => (at as u64) * 31 + k * 1_000_003, None => 0 });
        let r = run_scenario(&sc, &strat, run_seed, budget);
        let mut vs = monitors::analyze(&sc, &r);
        total_steps += r.steps;
        total_calls += r.calls.len();
        *stats.entry(format!("family:{}", fam)).or_default() += 1;
        *stats.entry(format!("strategy:{}", sname)).or_default() += 1;
        *stats.entry(format!("outcome:{}", match &r.outcome { Outcome::Finished => "finished", Outcome::Deadlock(_) => "deadlock", Outcome::Livelock(_) => "livelock", Outcome::Budget => "budget", Outcome::SoloExceeded(..) => "solo_exceeded" })).or_default() += 1;
        *stats.entry(format!("N:{}", monitors::valid_wrap(sc.cfg.cap))).or_default() += 1;
        *stats.entry(format!("threads:{}", r.nthreads)).or_default() += 1;
        *stats.entry(format!("flavour:{}", if sc.cfg.bcast { "bcast" } else { "mpmc" })).or_default() += 1;
        for c in &r.calls {
            *stats.entry(format!("result:{}:{}", c.op, c.res.split(' ').next().unwrap())).or_default() += 1;
        }
        // distinct: hash of the schedule + scenario text
        let mut hsh = 1469598103934665603u64;
        for b in scenario_text(&sc).bytes().chain(r.schedule.iter().map(|&x| x as u8)) {
            hsh ^= b as u64;
            hsh = hsh.wrapping_mul(1099511628211);
        }
        if r.nthreads >= 2 && r.steps >= 20 {
            distinct.insert(hsh);
        }
        if samples.len() < 3 {
            samples.push(format!("{} | {} | threads={} steps={} calls={} outcome={:?}", sc.cfg.text(), sc.main.iter().map(|o| o.text()).collect::<Vec<_>>().join("; "), r.nthreads, r.steps, r.calls.len(), r.outcome));
        }
        let name = match sw { Some((_, at, k)) => format!("{}-{}-{}-{}-sw{}-{}", tag, fam, seed, i, at, k), None => format!("{}-{}-{}-{}", tag, fam, seed, i) };
        if let Some(f) = tf.as_mut() {
            writeln!(f, "=== {}", name).unwrap();
            f.write_all(trace_text(&r.trace, &r.names).as_bytes()).unwrap();
        }
        // C17 under concurrency: every block the queue allocated during the run has been released by now
        let finished = matches!(r.outcome, Outcome::Finished);
        let schedule_text = r.schedule.iter().map(|x| x.to_string()).collect::<Vec<_>>().join(" ");
        let dbg_names = if std::env::var("MQ_LEAKDBG").is_ok() { Some(r.names.clone()) } else { None };
        drop(r);
        if finished {
            let (tb, tn) = allocs::tracked();
            if tn != 0 {
                if std::env::var("MQ_LEAKDBG").is_ok() {
                    eprintln!("LEFT {:?}", allocs::t_left().iter().map(|(p, l)| format!("{:#x}:{}:{:?}", p, l, dbg_names.as_ref().and_then(|n| n.get(p)))).collect::<Vec<_>>());
                }
                vs.push(monitors::Violation { prop: "C17", msg: format!("{} bytes in {} blocks that the queue allocated during the run are still allocated after the last handle was dropped", tb, tn) });
            }
        }
        if !vs.is_empty() {
            std::fs::create_dir_all(replay_dir).ok();
            let path = format!("{}/{}.replay", replay_dir, name);
            let mut t = String::new();
            for v in &vs {
                t.push_str(&format!("prop {}\nmsg {}\n", v.prop, v.msg));
            }
            t.push_str(&scenario_text(&sc));
            t.push_str(&format!("schedule {}\n", schedule_text));
            std::fs::write(&path, t).unwrap();
            for v in &vs {
                viols.push((v.prop.to_string(), v.msg.clone(), path.clone()));
            }
        }
    }
    for (p, m, path) in &viols {
        println!("MONITOR property={} replay={} :: {}", p, path, m);
    }
    if let Some(jp) = json_path {
        let mut j = String::from("{");
        j.push_str(&format!("\"runs\":{},\"distinct_nontrivial\":{},\"steps\":{},\"calls\":{},", count, distinct.len(), total_steps, total_calls));
        j.push_str("\"stats\":{");
        j.push_str(&stats.iter().map(|(k, v)| format!("{}:{}", jstr(k), v)).collect::<Vec<_>>().join(","));
        j.push_str("},\"samples\":[");
        j.push_str(&samples.iter().map(|s| jstr(s)).collect::<Vec<_>>().join(","));
        j.push_str("],\"violations\":[");
        j.push_str(&viols.iter().map(|(p, m, r)| format!("{{\"prop\":{},\"msg\":{},\"replay\":{}}}", jstr(p), jstr(m), jstr(r))).collect::<Vec<_>>().join(","));
        j.push_str("]}");
        std::fs::write(jp, j).unwrap();
    }
    println!("explored runs={} distinct={} steps={} calls={} violations={}", count, distinct.len(), total_steps, total_calls, viols.len());
}

fn replay(args: &[String]) {
    let path = &args[2];
    let text = std::fs::read_to_string(path).unwrap();
    let (sc, sched, props) = parse_replay(&text);
    let r = run_scenario(&sc, &Strategy::Replay(sched), 1, 20000);
    let vs = monitors::analyze(&sc, &r);
    if let Some(tp) = arg(args, "--traces") {
        let mut f = std::fs::File::create(tp).unwrap();
        writeln!(f, "=== replay").unwrap();
        f.write_all(trace_text(&r.trace, &r.names).as_bytes()).unwrap();
    }
    println!("replay outcome={:?} steps={} expected_props={:?}", r.outcome, r.steps, props);
    for v in &vs {
        println!("MONITOR property={} :: {}", v.prop, v.msg);
    }
    if arg(args, "--show").is_some() {
        for c in &r.calls {
            println!("{:?}", c);
        }
    }
}

fn main() {
    let args: Vec<String> = std::env::args().collect();
    let cmd = args.get(1).map(|s| s.as_str()).unwrap_or("help");
    match cmd {
        "explore" => explore(&args),
        "replay" => replay(&args),
        "arith" => arith::main(&args),
        "alloc" => allocs::main(&args),
        "seq" => seq::main(&args),
        _ => println!("usage: mqharness explore|replay ..."),
    }
}
