mod api;
mod run;
mod sched;

use api::*;
use run::*;
use sched::*;

fn main() {
    let args: Vec<String> = std::env::args().collect();
    let cmd = args.get(1).map(|s| s.as_str()).unwrap_or("demo");
    match cmd {
        "demo" => {
            let sc = Scenario {
                cfg: QCfg { bcast: true, fut: false, cap: 2, wait: WaitCfg::Block(0, 0), fspins: None },
                main: vec![
                    Op::Clone(1),
                    Op::Spawn(vec![1], vec![Op::Recv(0), Op::Recv(0)]),
                    Op::Spawn(vec![2], vec![Op::Recv(0), Op::TryRecv(0)]),
                    Op::TrySend(0),
                    Op::TrySend(0),
                    Op::TrySend(0),
                ],
                epilogue: Epilogue::Probe,
                family: "demo".into(),
            };
            let seed: u64 = args.get(2).and_then(|s| s.parse().ok()).unwrap_or(1);
            let r = run_scenario(&sc, &Strategy::Random, seed, 5000);
            print!("{}", trace_text(&r.trace, &r.names));
            eprintln!("outcome {:?} steps {} threads {} panics {:?}", r.outcome, r.steps, r.nthreads, r.panics);
            for c in &r.calls {
                eprintln!("{:?}", c);
            }
            eprintln!("viol {:?}", r.reg.lock().unwrap().violations);
        }
        _ => {}
    }
}
