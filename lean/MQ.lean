import MQ.Model.Core
