import MQ.Model.Accept
import MQ.Model.ArithDrv
import MQ.Model.SpecDrv
open MQ

partial def readAll (h : IO.FS.Stream) (acc : Array String) : IO (Array String) := do
  let line ← h.getLine
  if line.isEmpty then return acc else readAll h (acc.push line)

/-- `mqdrv core` reads traces separated by lines `=== <name>` and prints one verdict per trace. -/
def runCore : IO Unit := do
  let lines ← readAll (← IO.getStdin) #[]
  let mut cur : List String := []
  let mut name := ""
  let mut started := false
  let flush := fun (name : String) (ls : List String) => do
    match acceptAll ls.reverse with
    | .ok a =>
        IO.println s!"OK {name} events={a.events} skipped={a.skipped} calls={a.calls} torn={a.σ.torn} taintAdd={a.σ.taintAdd} taintNoStream={a.σ.taintNoStream} hyp={a.hyp.length} outside={a.outside.getD 0} pcs={",".intercalate a.pcs} rets={",".intercalate a.rets}"
        if !a.hyp.isEmpty then IO.println s!"HYP {name} {" ".intercalate a.hyp}"
    | .error e => IO.println s!"MISMATCH {name} {e}"
  for l in lines do
    if l.startsWith "=== " then
      if started then flush name cur
      name := (l.drop 4).trimAscii.toString
      cur := []
      started := true
    else cur := l :: cur
  if started then flush name cur

def main (args : List String) : IO Unit := do
  match args with
  | ["core"] => runCore
  | ["arith"] => do
      let lines ← readAll (← IO.getStdin) #[]
      let mut bad := 0
      let mut n := 0
      for l in lines do
        n := n + 1
        match MQ.Arith.evalLine l with
        | none => pure ()
        | some m =>
            bad := bad + 1
            if bad ≤ 10 then IO.println s!"ARITH-MISMATCH {l.trimAscii.toString} model={m}"
      IO.println s!"ARITH lines={n} mismatches={bad}"
  | ["spec"] => MQ.Spec.runSpec
  | _ => IO.println "usage: mqdrv core < traces"
