import MQ.Props.SpecThms
import MQ.Inv.RingMain
import MQ.Inv.DiscMain
/-!
# C07 — sender disconnect: every stream drains everything, then sees the end
-/
namespace MQ

/-- Spec (all call sequences): a receive reports the end only when no sender is left, and from then on every
receive on that stream reports the end. -/
theorem C07_spec_end_stable (b f : Bool) (cap : Nat) (cs : List Spec.Call) (c : Spec.Call) (h : Nat)
    (x : Spec.Slot) (hc : c.recvSlot = some h) (hx : Spec.getSlot (Spec.run (Spec.init b f cap) cs) h = some x)
    (he : (Spec.step (Spec.run (Spec.init b f cap) cs) c).2.isEnd) :
    (Spec.run (Spec.init b f cap) cs).senders = 0 ∧
    ∀ (cs' : List Spec.Call) (c' : Spec.Call) (h' : Nat) (x' : Spec.Slot),
      c'.recvSlot = some h' →
      Spec.getSlot (Spec.run (Spec.step (Spec.run (Spec.init b f cap) cs) c).1 cs') h' = some x' →
      x'.strm = x.strm →
      ((Spec.step (Spec.run (Spec.step (Spec.run (Spec.init b f cap) cs) c).1 cs') c').2.isEnd ∨
        (Spec.step (Spec.run (Spec.step (Spec.run (Spec.init b f cap) cs) c).1 cs') c').2 = Spec.Result.badop) :=
  Spec.end_stable_reachable b f cap cs c h x hc hx he

/-- Core (every interleaving — partial: F1/F12 excluded): if the position `p` a consumer examines is the
current position of its registered stream, the slot does not carry tag `p`, and no send is in flight
(no thread holds a claim — which is the case once `writers = 0`, since a sender handle is counted for the
whole duration of its sends), then nothing is left for that stream: `p = head`. This is the state in which
the disconnect double check reports the end. -/
theorem C07_tag_mismatch_means_drained_partial (N : Nat) (bcast : Bool) (wait : WaitK) (fut : Bool) (hN : 0 < N)
    (ls : List Label) (σ : St) (r : GoodRun (init N bcast wait fut) ls σ) (s p : Nat)
    (hs : s ∈ σ.groups σ.cur) (hp : σ.pos s = p) (hq : ∀ t, (σ.th t).pc.claim = none)
    (htag : σ.tag (p % σ.N) ≠ some p) : p = σ.head := by
  have I := rinv_goodRun r (rinv_init N bcast wait fut hN)
  have h1 := I.g.posle s hs
  have hw := I.g.win s hs
  simp only [St.ring] at h1 hw
  rcases Nat.lt_or_ge p σ.head with hlt | hge
  · rcases I.slots p hlt (by show σ.head ≤ p + σ.N; omega) with ⟨t, ht⟩ | h
    · rw [hq t] at ht; cases ht
    · exact absurd h.1 htag
  · omega

/-- Core: the end is decided only after the position was re-checked: from the program point after the
second tag load (`r3b`), `Disconnected` is produced exactly when the stream is still at the examined position;
otherwise the receive starts over with the reloaded position. -/
theorem C07_disc_only_if_position_current (σ : St) (t inp p : Nat) (sg : Bool) (hpc : (σ.th t).pc = .r3b p sg) :
    (σ.pos (σ.th t).s = p → (stepRun σ t inp).2 = recvDone (σ.flush t) t .disc (p % σ.N)) ∧
    (σ.pos (σ.th t).s ≠ p → ((stepRun σ t inp).2.th t).pc = .r7 sg) := by
  constructor
  · intro h; simp only [stepRun, hpc, h, ↓reduceIte]
  · intro h; simp only [stepRun, hpc, h, ↓reduceIte]; simp [St.goto, St.flush, St.setTh, upd]

/-! ### the disconnect double check is sound (`DInv`, `MQ/Inv/Disc*.lean`)

Executions: `NRun` (every label; only the F1/F12 exclusions; no futures handle conversions). -/

/-- C07 (soundness of `Disconnected`, shared or single streams): in the state from which a receive returns
`Disconnected` — program point `r3b`, the stream still at the examined position `p` — no sender handle is counted
any more, no send is in flight, the stream has consumed *everything* that was ever accepted (`p = head`), and its
delivery list is the whole log from the position where the stream started: nothing accepted is lost to it. -/
theorem C07_disconnected_means_drained_partial (N : Nat) (bcast : Bool) (wait : WaitK) (fut : Bool) (hN : 0 < N)
    (ls : List Label) (σ : St) (r : NRun (init N bcast wait fut) ls σ) (t p : Nat) (sg : Bool)
    (hpc : (σ.th t).pc = .r3b p sg) (hpos : σ.pos (σ.th t).s = p) :
    σ.writers = 0 ∧ (∀ u, (σ.th u).pc.claim = none) ∧ p = σ.head ∧
    σ.dlv (σ.th t).s = σ.log.drop (σ.start (σ.th t).s) :=
  disc_sound (dall_nrun r (dall_init N bcast wait fut hN)) t p (Or.inl (by rw [hpc]; rfl)) (by rw [hpc]; rfl) hpos

/-- C07 (the same for the view path of a sole consumer): at the second tag load (`v3`), if the tag is still not the
position's, the stream is drained and no sender exists. -/
theorem C07_view_disconnected_means_drained_partial (N : Nat) (bcast : Bool) (wait : WaitK) (fut : Bool) (hN : 0 < N)
    (ls : List Label) (σ : St) (r : NRun (init N bcast wait fut) ls σ) (t p : Nat)
    (hpc : (σ.th t).pc = .v3 p) (htag : σ.tag (p % σ.N) ≠ some p) :
    σ.writers = 0 ∧ (∀ u, (σ.th u).pc.claim = none) ∧ p = σ.head ∧
    σ.dlv (σ.th t).s = σ.log.drop (σ.start (σ.th t).s) := by
  have A := dall_nrun r (dall_init N bcast wait fut hN)
  have L := A.i.loc t; simp only [Loc, hpc] at L
  exact disc_sound A t p (Or.inr ⟨by rw [hpc]; rfl, htag⟩) (by rw [hpc]; rfl) L

/-- C07 (what the double check relies on): between the `writers == 0` load and the report, `writers` is — and
stays — zero, and from the second tag load on the tag is — and stays — missing. -/
theorem C07_double_check_facts_partial (N : Nat) (bcast : Bool) (wait : WaitK) (fut : Bool) (hN : 0 < N)
    (ls : List Label) (σ : St) (r : NRun (init N bcast wait fut) ls σ) (t p : Nat) (b : Bool)
    (h : (σ.th t).pc.dpos = some (p, b)) : σ.writers = 0 ∧ (b = true → σ.tag (p % σ.N) ≠ some p) :=
  (dall_nrun r (dall_init N bcast wait fut hN)).d.chk t p b h

end MQ
