import MQ.Props.SpecThms
import MQ.Inv.RingMain
/-!
# C07 — sender disconnect: every stream drains everything, then sees the end
-/
namespace MQ

/-- Spec (all call sequences): a receive reports the end only when no sender is left, and from then on every
receive on that stream reports the end. -/
theorem C07_spec_end_stable (b f : Bool) (cap : Nat) (cs : List Spec.Call) (c : Spec.Call) (h : Nat)
    (x : Spec.Slot) (hc : c.recvSlot = some h) (hx : Spec.getSlot (Spec.run (Spec.init b f cap) cs) h = some x)
    (he : (Spec.step (Spec.run (Spec.init b f cap) cs) c).2.isEnd) :
    (Spec.run (Spec.init b f cap) cs).senders = 0 ∧
    ∀ (cs' : List Spec.Call) (c' : Spec.Call) (h' : Nat) (x' : Spec.Slot),
      c'.recvSlot = some h' →
      Spec.getSlot (Spec.run (Spec.step (Spec.run (Spec.init b f cap) cs) c).1 cs') h' = some x' →
      x'.strm = x.strm →
      ((Spec.step (Spec.run (Spec.step (Spec.run (Spec.init b f cap) cs) c).1 cs') c').2.isEnd ∨
        (Spec.step (Spec.run (Spec.step (Spec.run (Spec.init b f cap) cs) c).1 cs') c').2 = Spec.Result.badop) :=
  Spec.end_stable_reachable b f cap cs c h x hc hx he

/-- Core (every interleaving — partial: F1/F12 excluded): if the position `p` a consumer examines is the
current position of its registered stream, the slot does not carry tag `p`, and no send is in flight
(no thread holds a claim — which is the case once `writers = 0`, since a sender handle is counted for the
whole duration of its sends), then nothing is left for that stream: `p = head`. This is the state in which
the disconnect double check reports the end. -/
theorem C07_tag_mismatch_means_drained_partial (N : Nat) (bcast : Bool) (wait : WaitK) (fut : Bool) (hN : 0 < N)
    (ls : List Label) (σ : St) (r : GoodRun (init N bcast wait fut) ls σ) (s p : Nat)
    (hs : s ∈ σ.groups σ.cur) (hp : σ.pos s = p) (hq : ∀ t, (σ.th t).pc.claim = none)
    (htag : σ.tag (p % σ.N) ≠ some p) : p = σ.head := by
  have I := rinv_goodRun r (rinv_init N bcast wait fut hN)
  have h1 := I.g.posle s hs
  have hw := I.g.win s hs
  simp only [St.ring] at h1 hw
  rcases Nat.lt_or_ge p σ.head with hlt | hge
  · rcases I.slots p hlt (by show σ.head ≤ p + σ.N; omega) with ⟨t, ht⟩ | h
    · rw [hq t] at ht; cases ht
    · exact absurd h.1 htag
  · omega

/-- Core: the end is decided only after the position was re-checked: from the program point after the
second tag load (`r3b`), `Disconnected` is produced exactly when the stream is still at the examined position;
otherwise the receive starts over with the reloaded position. -/
theorem C07_disc_only_if_position_current (σ : St) (t inp p : Nat) (sg : Bool) (hpc : (σ.th t).pc = .r3b p sg) :
    (σ.pos (σ.th t).s = p → (stepRun σ t inp).2 = recvDone (σ.flush t) t .disc (p % σ.N)) ∧
    (σ.pos (σ.th t).s ≠ p → ((stepRun σ t inp).2.th t).pc = .r7 sg) := by
  constructor
  · intro h; simp only [stepRun, hpc, h, ↓reduceIte]
  · intro h; simp only [stepRun, hpc, h, ↓reduceIte]; simp [St.goto, St.flush, St.setTh, upd]

end MQ
