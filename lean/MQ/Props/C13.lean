import MQ.Props.SpecThms
import MQ.Inv.Frame2
import MQ.Inv.NRMain
/-!
# C13 — with no receivers left, sends fail as Disconnected and never hang
Sequential level (`Spec`, tied by the differential) and micro-step level (`Core`, tied by the event
correspondence): the no-reader flag is set by the removal of the last stream and is never cleared; a send
whose first step sees the flag returns `Disconnected` without touching the ring.
-/
namespace MQ

/-- Spec: once no receiver is left, every later state has the flag, the log never grows again, every
`try_send` returns `Disconnected(v)` and every `start_send` returns `Err(v)` — for all call sequences. -/
theorem C13_spec_sends_fail {σ : Spec.State} (hn : σ.noRecv = true) (cs : List Spec.Call) :
    (Spec.run σ cs).noRecv = true ∧ (Spec.run σ cs).log = σ.log ∧
    ∀ h x, Spec.getSlot (Spec.run σ cs) h = some x → x.role = Spec.Role.S →
      (Spec.step (Spec.run σ cs) (Spec.Call.trySend h)).2 = Spec.Result.discV (Spec.run σ cs).nextVid ∧
      (Spec.step (Spec.run σ cs) (Spec.Call.trySend h)).1.log = σ.log ∧
      ((Spec.run σ cs).fut = true →
        (Spec.step (Spec.run σ cs) (Spec.Call.startSend h)).2 = Spec.Result.errV (Spec.run σ cs).nextVid ∧
        (Spec.step (Spec.run σ cs) (Spec.Call.startSend h)).1.log = σ.log) :=
  Spec.sends_after_noRecv_run hn cs

/-- Spec: the flag is up exactly when no stream is left -/
theorem C13_spec_flag_iff (b f : Bool) (cap : Nat) (cs : List Spec.Call) :
    (Spec.run (Spec.init b f cap) cs).noRecv = true ↔ ∀ s, (Spec.run (Spec.init b f cap) cs).cur s = none :=
  Spec.noRecv_iff_no_stream b f cap cs

/-- Core: the first step of a send (the signal load) with the no-reader flag up leaves every ring word alone
and continues either with the token refresh (epoch bit also set) or directly with the disconnect decision -/
theorem C13_core_send_sees_flag (σ : St) (t inp : Nat) (hpc : (σ.th t).pc = .s0) :
    (stepRun σ t inp).2.ring = σ.ring ∧
    (σ.sigE = false → (stepRun σ t inp).2 = mgrDone (σ.flush t) t .sendStart) ∧
    (σ.sigE = true → ((stepRun σ t inp).2.th t).pc = .u1 .sendStart) := by
  refine ⟨stepRun_ring_same σ t inp (by rw [hpc]; rfl), ?_, ?_⟩
  · intro h; simp only [stepRun, hpc, h]; simp
  · intro h; simp only [stepRun, hpc, h]; simp [St.goto, St.flush, St.setTh, upd]

/-- Core: once the token refresh (if any) is done, a send that finds the no-reader flag up ends the inner
`try_send` with `Disconnected` — it never loads `head`, never touches the ring -/
theorem C13_core_flag_means_disc (σ : St) (t : Nat) (hf : σ.noReader = true) :
    mgrDone σ t .sendStart = sendDone σ t .disc := by
  simp [mgrDone, hf]

/-- Core: an inner `try_send` that ended with `Disconnected` makes `try_send` return `Disconnected` and
`start_send` return `Err` — it never parks and never retries. -/
theorem C13_core_disc_returns (σ : St) (t : Nat) :
    ((sendDone σ t .disc).th t).pc = .ret .disc ∨ ((sendDone σ t .disc).th t).pc = .ret .err := by
  unfold sendDone
  simp only []
  split
  · right; simp [St.goto, St.setTh, upd]
  · left; simp [St.goto, St.setTh, upd]

/-! ### the no-reader flag (`NRInv`, `MQ/Inv/NRMain.lean`) -/

/-- C13 (the no-reader flag is accurate and final): in every execution without the futures handle conversions —
including the removal of the last stream — once the flag is up no stream is on the list, no receiver handle is
counted on any stream, and this remains so after every further step: the flag never goes up early, and nothing can
bring a receiver back. -/
theorem C13_flag_means_no_receiver (N : Nat) (bcast : Bool) (wait : WaitK) (fut : Bool) (ls : List Label)
    (h : ∀ l ∈ ls, l.noConv) (hf : (runFrom (init N bcast wait fut) ls).noReader = true) :
    (runFrom (init N bcast wait fut) ls).groups (runFrom (init N bcast wait fut) ls).cur = [] ∧
    ∀ s, (runFrom (init N bcast wait fut) ls).cl s = [] := by
  obtain ⟨n, m, _⟩ := nr_run _ ls h (nr_init N bcast wait fut) (minv_init N bcast wait fut) (reginv_init N bcast wait fut)
  exact ⟨n.flag hf, no_handle_of_no_stream m (n.flag hf)⟩

/-- C13: an empty stream list is final (a stream can only be added through a counted receiver handle) -/
theorem C13_no_stream_is_final (N : Nat) (bcast : Bool) (wait : WaitK) (fut : Bool) (ls : List Label)
    (h : ∀ l ∈ ls, l.noConv) (x inp : Nat)
    (he : (runFrom (init N bcast wait fut) ls).groups (runFrom (init N bcast wait fut) ls).cur = []) :
    (stepRun (runFrom (init N bcast wait fut) ls) x inp).2.groups (stepRun (runFrom (init N bcast wait fut) ls) x inp).2.cur = [] := by
  obtain ⟨_, m, r⟩ := nr_run _ ls h (nr_init N bcast wait fut) (minv_init N bcast wait fut) (reginv_init N bcast wait fut)
  exact empty_stable x inp m r he

end MQ
