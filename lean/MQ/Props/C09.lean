import MQ.Props.SpecThms
/-!
# C09 — single-threaded behaviour of the whole API equals a reference model

The property is itself a correspondence: the real API and `Spec` are run on the same call sequences
(exhaustive up to a depth + random long ones, `tools/engine_c09.py`) and every return value is compared.
The theorems here are what makes "behaves like `Spec`" meaningful: `Spec` is total and deterministic by
construction (`Spec.step : State → Call → State × Result` is a function — there is no call on which it
fails or panics), keeps a well-formedness invariant along every call sequence, and has the window /
ordering / end-of-stream properties for *all* call sequences (induction over the list of calls).
-/
namespace MQ
open Spec

/-- every state reached by any call sequence from any fresh queue is well-formed -/
theorem C09_spec_wellformed (b f : Bool) (cap : Nat) (cs : List Call) : WF (run (init b f cap) cs) :=
  wf_reachable b f cap cs

/-- the capacity is the requested capacity rounded up to a power of two, minimum 1, for ever -/
theorem C09_capacity (b f : Bool) (cap : Nat) (cs : List Call) :
    (run (init b f cap) cs).N = validWrap cap ∧ cap ≤ validWrap cap ∧ 1 ≤ validWrap cap ∧ ∃ k, validWrap cap = 2 ^ k :=
  ⟨N_reachable b f cap cs, validWrap_spec cap⟩

/-- window: after any call sequence every live stream is at most N behind the log -/
theorem C09_window (b f : Bool) (cap : Nat) (cs : List Call) (s c : Nat)
    (h : (run (init b f cap) cs).cur s = some c) :
    (run (init b f cap) cs).log.length - c ≤ validWrap cap ∧ c ≤ (run (init b f cap) cs).log.length :=
  ⟨window_run b f cap cs s c h, cursor_le_head b f cap cs s c h⟩

/-- a send is accepted exactly when a receiver exists and every live stream has room -/
theorem C09_send_accept_iff (b f : Bool) (cap : Nat) (cs : List Call) :
    let σ := run (init b f cap) cs
    (send σ).2.1 = SendOut.ok ↔ (σ.noRecv = false ∧ ∀ s c, σ.cur s = some c → σ.log.length - c < σ.N) :=
  send_accept_iff (wf_reachable b f cap cs)

/-- every successful receive returns the log entry at the stream's cursor and advances it by one -/
theorem C09_recv_in_order (b f : Bool) (cap : Nat) (cs : List Call) (c : Call) (h v : Nat)
    (hc : c.recvSlot = some h) (hv : (step (run (init b f cap) cs) c).2.delivered = some v) :
    ∃ x k, getSlot (run (init b f cap) cs) h = some x ∧
      (run (init b f cap) cs).cur x.strm = some k ∧ k < (run (init b f cap) cs).log.length ∧
      (run (init b f cap) cs).log[k]? = some v ∧
      (run (init b f cap) (cs ++ [c])).cur x.strm = some (k + 1) :=
  recv_in_order_reachable b f cap cs c h v hc hv

/-- the log is append-only along every call sequence -/
theorem C09_log_prefix (σ : State) (cs : List Call) : σ.log <+: (run σ cs).log := log_prefix_run σ cs

end MQ
