import MQ.Props.SpecThms
import MQ.Inv.RingMain
import MQ.Inv.RemFrame
/-!
# C11 — removing a stream releases its back-pressure and nothing else
-/
namespace MQ

/-- Spec: `unsubscribe` on a receiver returns `true` exactly when no other live receiver handle is on the
same stream — for every call sequence. -/
theorem C11_spec_unsub_bool (b f : Bool) (cap : Nat) (cs : List Spec.Call) (h : Nat) (x : Spec.Slot) (r : Bool)
    (hx : Spec.getSlot (Spec.run (Spec.init b f cap) cs) h = some x) (hr : x.role ≠ Spec.Role.S)
    (hb : (Spec.step (Spec.run (Spec.init b f cap) cs) (Spec.Call.unsub h)).2 = Spec.Result.bool r) :
    r = true ↔ ∀ j y, j ≠ h → Spec.getSlot (Spec.run (Spec.init b f cap) cs) j = some y → y.role ≠ Spec.Role.S →
      y.strm ≠ x.strm :=
  Spec.unsub_reachable b f cap cs h x r hx hr hb

/-- Core: the CAS of `remove_reader` takes the stream out of the current group and leaves every remaining
stream's window, tail-cache and delivery facts intact: the ring invariant is preserved by that step
(for every interleaving; `hne`: it is not the last stream). -/
theorem C11_core_remove_preserves {σ : St} (t inp c ng : Nat) (I : RInv σ)
    (hne : (stepRun σ t inp).2.groups (stepRun σ t inp).2.cur ≠ [])
    (hpc : (σ.th t).pc = .rr2 c ng) : RInv (stepRun σ t inp).2 :=
  rinv_run_rr2 t inp c ng I hne hpc

/-- Core: after a successful `remove_reader` CAS the removed stream is not registered any more, so no later
full-test refresh counts it (`reg` is what `get_max_diff` scans once it validated the group pointer). -/
theorem C11_core_removed_not_registered {σ : St} (t inp c ng : Nat) (I : RInv σ)
    (hpc : (σ.th t).pc = .rr2 c ng) (hok : σ.cur = c) :
    (σ.th t).s ∉ (stepRun σ t inp).2.groups (stepRun σ t inp).2.cur := by
  have L := I.loc t
  simp only [Loc, hpc] at L
  obtain ⟨_, _, L3⟩ := L
  simp only [stepRun, hpc, hok, ↓reduceIte]
  repeat' split
  all_goals
    simp [St.goto, St.gotoF, St.setTh, St.flush]
    simp only [St.ring] at L3
    rw [L3]
    simp

/-- C11 ("… and nothing else", structural — every state, every interleaving, no exclusion): a step of a thread inside
the removal of a receiver handle — the decrement of the stream's consumer count (`un1`/`dr1`), for the last handle the
`remove_reader` loop that takes the stream off the list (`rr1`–`rr5`), the release of the old list and of the position
block through the memory manager, and `remove_token` — leaves every piece of queue data alone: write index, tail cache,
sender count, all tags, contents and pin counters, the log, the list of destroyed values, and the position, delivery
list and start marker of *every* stream; only the consumer count of the handle's own stream changes. The removal
therefore consumes nothing and destroys nothing on any stream; what it does change is the stream list (`C11_core_*`)
and, after the last stream, the no-reader flag (C13). -/
theorem C11_removal_frame (σ : St) (t inp : Nat) (ha : (σ.th t).pc.inRecvRemove = true) :
    let σ' := (stepRun σ t inp).2
    σ'.head = σ.head ∧ σ'.tc = σ.tc ∧ σ'.writers = σ.writers ∧ σ'.tag = σ.tag ∧ σ'.cont = σ.cont ∧ σ'.ref = σ.ref ∧
    σ'.log = σ.log ∧ σ'.drops = σ.drops ∧ σ'.pos = σ.pos ∧ σ'.dlv = σ.dlv ∧ σ'.start = σ.start ∧
    (∀ s', s' ≠ (σ.th t).s → σ'.ncons s' = σ.ncons s') :=
  removal_touches_no_data σ t inp ha

/-- C11: the removal program is closed — its next program point is again inside it, or the wake-up of the other side
(`notify` of the blocking / futures wait strategy), or the release of the handle's `Arc` -/
theorem C11_removal_stays_in_its_program (σ : St) (t inp : Nat) (ha : (σ.th t).pc.inRecvRemove = true) :
    ((stepRun σ t inp).2.th t).pc.inRecvRemove = true ∨ (∃ b k, ((stepRun σ t inp).2.th t).pc = .nf b k) ∨
    (∃ k, ((stepRun σ t inp).2.th t).pc = .nb1 k) ∨ (∃ r, ((stepRun σ t inp).2.th t).pc = .arc r) :=
  removal_stays_in_its_program σ t inp ha

/-- non-vacuity: the entry points of `drop` / `unsubscribe` on a receiver are inside the program, a receive is not -/
example : (PC.dr1).inRecvRemove = true ∧ (PC.un1).inRecvRemove = true ∧ (PC.rr2 1 2).inRecvRemove = true ∧
    (PC.r0).inRecvRemove = false := by decide

end MQ
