import MQ.Props.SpecThms
import MQ.Inv.RingMain
/-!
# C11 — removing a stream releases its back-pressure and nothing else
-/
namespace MQ

/-- Spec: `unsubscribe` on a receiver returns `true` exactly when no other live receiver handle is on the
same stream — for every call sequence. -/
theorem C11_spec_unsub_bool (b f : Bool) (cap : Nat) (cs : List Spec.Call) (h : Nat) (x : Spec.Slot) (r : Bool)
    (hx : Spec.getSlot (Spec.run (Spec.init b f cap) cs) h = some x) (hr : x.role ≠ Spec.Role.S)
    (hb : (Spec.step (Spec.run (Spec.init b f cap) cs) (Spec.Call.unsub h)).2 = Spec.Result.bool r) :
    r = true ↔ ∀ j y, j ≠ h → Spec.getSlot (Spec.run (Spec.init b f cap) cs) j = some y → y.role ≠ Spec.Role.S →
      y.strm ≠ x.strm :=
  Spec.unsub_reachable b f cap cs h x r hx hr hb

/-- Core: the CAS of `remove_reader` takes the stream out of the current group and leaves every remaining
stream's window, tail-cache and delivery facts intact: the ring invariant is preserved by that step
(for every interleaving; `hne`: it is not the last stream). -/
theorem C11_core_remove_preserves {σ : St} (t inp c ng : Nat) (I : RInv σ)
    (hne : (stepRun σ t inp).2.groups (stepRun σ t inp).2.cur ≠ [])
    (hpc : (σ.th t).pc = .rr2 c ng) : RInv (stepRun σ t inp).2 :=
  rinv_run_rr2 t inp c ng I hne hpc

/-- Core: after a successful `remove_reader` CAS the removed stream is not registered any more, so no later
full-test refresh counts it (`reg` is what `get_max_diff` scans once it validated the group pointer). -/
theorem C11_core_removed_not_registered {σ : St} (t inp c ng : Nat) (I : RInv σ)
    (hpc : (σ.th t).pc = .rr2 c ng) (hok : σ.cur = c) :
    (σ.th t).s ∉ (stepRun σ t inp).2.groups (stepRun σ t inp).2.cur := by
  have L := I.loc t
  simp only [Loc, hpc] at L
  obtain ⟨_, _, L3⟩ := L
  simp only [stepRun, hpc, hok, ↓reduceIte]
  repeat' split
  all_goals
    simp [St.goto, St.gotoF, St.setTh, St.flush]
    simp only [St.ring] at L3
    rw [L3]
    simp

end MQ
