import MQ.Inv.PosFrame
import MQ.Inv.RingMain
import MQ.Inv.LogFrame
/-!
# C01 — exactly-once delivery of every accepted value to every stream

Ghost state of `Core`: `log` is appended exactly at the claim step of a send (`head` CAS success /
single-writer store), `dlv s` exactly at the commit step of a receive on stream `s`.
-/
namespace MQ

/-- C01: in every reachable state, what stream `s` has delivered so far is exactly the segment of the log
between the position where the stream started and its current position — nothing is delivered twice,
skipped, or delivered without having been accepted. (Shared streams: the commit step appends to the one
`dlv s`, so each position goes to exactly one consumer.) -/
theorem C01_exactly_once_partial (N : Nat) (bcast : Bool) (wait : WaitK) (fut : Bool) (hN : 0 < N)
    (ls : List Label) (σ : St) (r : GoodRun (init N bcast wait fut) ls σ) :
    ∀ s, s ∈ σ.groups σ.cur →
      σ.dlv s = (σ.log.drop (σ.start s)).take (σ.pos s - σ.start s) ∧
      σ.start s ≤ σ.pos s ∧ σ.pos s ≤ σ.log.length := by
  intro s hs
  have I := rinv_goodRun r (rinv_init N bcast wait fut hN)
  refine ⟨I.g.dlv s hs, I.g.startle s hs, ?_⟩
  have := I.g.posle s hs
  have := I.g.loglen
  simp only [St.ring] at *
  omega

/-- C01: the log has one entry per claimed position (`head` positions have been accepted so far). -/
theorem C01_log_length_partial (N : Nat) (bcast : Bool) (wait : WaitK) (fut : Bool) (hN : 0 < N)
    (ls : List Label) (σ : St) (r : GoodRun (init N bcast wait fut) ls σ) :
    σ.log.length = σ.head :=
  (rinv_goodRun r (rinv_init N bcast wait fut hN)).g.loglen

/-- C01: two threads never hold a claim on the same position (an accepted value has one writer). -/
theorem C01_single_writer_partial (N : Nat) (bcast : Bool) (wait : WaitK) (fut : Bool) (hN : 0 < N)
    (ls : List Label) (σ : St) (r : GoodRun (init N bcast wait fut) ls σ) (t1 t2 h : Nat)
    (h1 : (σ.th t1).pc.claim = some h) (h2 : (σ.th t2).pc.claim = some h) : t1 = t2 :=
  (rinv_goodRun r (rinv_init N bcast wait fut hN)).claiminj t1 t2 h h1 h2

/-- a value refused by a send is never delivered: the log grows only at a claim step (program point `hd`,
whose successor is the value write and the `Ok` return), every other step leaves it untouched -/
theorem C01_log_grows_only_at_claim (σ : St) (t inp : Nat) (h : ∀ m hh, (σ.th t).pc ≠ .hd m hh) :
    (stepRun σ t inp).2.log = σ.log := by
  rcases stepRun_log σ t inp with e | e
  · exact e
  · -- the log was extended: then the ring changed, and among the ring-changing pcs only `hd` touches the log
    by_cases hr : (σ.th t).pc.ringChanging = false
    · exact log_of_ring (stepRun_ring_same σ t inp hr)
    · cases hpc : (σ.th t).pc <;> rw [hpc] at hr <;> simp only [PC.ringChanging] at hr
      all_goals first
        | (exfalso; exact hr rfl)
        | (exfalso; exact h _ _ hpc)
        | skip
      all_goals (simp only [stepRun, hpc]; repeat' split)
      all_goals first | rfl | (simp; done) | (simp [St.flush, St.setTh]; done)

/-- C01 / C02 (structural — every state, every interleaving, no exclusion): a stream's position and its delivery list
move together and one value at a time. Every step either leaves all positions and delivery lists alone, or advances the
stepping thread's own stream to `p + 1` and appends exactly one value to that stream's delivery list (the commit of a
receive — `r9`, `v4`), or initialises the new stream of an `add_stream` (its position, an empty delivery list). No step
moves a position without recording a delivery, records a delivery without moving the position, touches another
stream's position, or moves a position by more than the one committed value. -/
theorem C01_position_and_delivery_move_together (σ : St) (t inp : Nat) :
    ((stepRun σ t inp).2.pos = σ.pos ∧ (stepRun σ t inp).2.dlv = σ.dlv) ∨
    (∃ p v, (stepRun σ t inp).2.pos = upd σ.pos (σ.th t).s (p + 1) ∧
      (stepRun σ t inp).2.dlv = upd σ.dlv (σ.th t).s (σ.dlv (σ.th t).s ++ [v])) ∨
    (∃ raw, (stepRun σ t inp).2.pos = upd σ.pos (σ.th t).ns raw ∧ (stepRun σ t inp).2.dlv = upd σ.dlv (σ.th t).ns []) :=
  pos_dlv_together σ t inp

end MQ
