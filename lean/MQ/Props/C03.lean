import MQ.Inv.HeadFrame
import MQ.Inv.RingMain
/-!
# C03 — capacity bound: never more than N unconsumed values, never an overwrite

Statements over the micro-step model `Core`, for every number of threads, handles and streams, every
`N ≥ 1`, both flavours, every wait strategy, and every schedule at single-operation granularity:
`GoodRun σ₀ ls σ` quantifies over all label sequences `ls` whose steps satisfy `StepOK`
(mode facts + the two known triggers F1/F12 excluded, see `MQ.StepOK`).
-/
namespace MQ

/-- C03 (window): in every state reached from a fresh queue, every registered stream is at most `N`
behind the head: `head ≤ pos s + N`. Hence at most `N` accepted values are unconsumed by the slowest
stream, and the claim of index `i + N` can only happen after every registered stream committed index `i`. -/
theorem C03_window_partial (N : Nat) (bcast : Bool) (wait : WaitK) (fut : Bool) (hN : 0 < N)
    (ls : List Label) (σ : St) (r : GoodRun (init N bcast wait fut) ls σ) :
    ∀ s, s ∈ σ.groups σ.cur → σ.head ≤ σ.pos s + σ.N ∧ σ.pos s ≤ σ.head :=
  fun s hs =>
    let I := rinv_goodRun r (rinv_init N bcast wait fut hN)
    ⟨I.g.win s hs, I.g.posle s hs⟩

/-- C03 (no overwrite): a position that some registered stream has not consumed yet is either still being
written by the one thread that claimed it, or its slot holds exactly the logged value under its own tag. -/
theorem C03_no_overwrite_partial (N : Nat) (bcast : Bool) (wait : WaitK) (fut : Bool) (hN : 0 < N)
    (ls : List Label) (σ : St) (r : GoodRun (init N bcast wait fut) ls σ)
    (s i : Nat) (hs : s ∈ σ.groups σ.cur) (h1 : σ.pos s ≤ i) (h2 : i < σ.head) :
    (∃ t, (σ.th t).pc.claim = some i) ∨
      (σ.tag (i % σ.N) = some i ∧ σ.cont (i % σ.N) = σ.log[i]?) := by
  have I := rinv_goodRun r (rinv_init N bcast wait fut hN)
  have hw := I.g.win s hs
  exact I.slots i h2 (by simp only [St.ring] at *; omega)

/-- C03 (tail cache is sound): the writers' cached tail never exceeds any registered stream's position and
the head never runs more than `N` ahead of it — this is what makes the equality full-test sufficient. -/
theorem C03_tail_cache_partial (N : Nat) (bcast : Bool) (wait : WaitK) (fut : Bool) (hN : 0 < N)
    (ls : List Label) (σ : St) (r : GoodRun (init N bcast wait fut) ls σ) :
    σ.head ≤ σ.tc + σ.N ∧ ∀ s, s ∈ σ.groups σ.cur → σ.tc ≤ σ.pos s :=
  let I := rinv_goodRun r (rinv_init N bcast wait fut hN)
  ⟨I.g.tcN, I.g.tcle⟩

/-- the hypotheses are satisfiable: the fresh queue is a good run of length 0 with one registered stream -/
example : GoodRun (init 2 true .busy false) [] (init 2 true .busy false) ∧
    (0 : Nat) ∈ (init 2 true .busy false).groups (init 2 true .busy false).cur :=
  ⟨GoodRun.nil _, by simp [init, upd]⟩

/-- C03 / C01 (structural — every state, every interleaving, no exclusion): the write index and the log of accepted
values move together. Every step leaves both alone, except the claim step `hd` of a position `h`, which sets the index
to `h + 1` and appends exactly the caller's value to the log. So a slot is claimed for exactly one accepted value, the
index never moves without a value being accepted (nor a value accepted without the index moving), and nothing but a
sender's claim — which comes after the full-test (`C03_window_partial`) — moves it. -/
theorem C03_write_index_and_log_move_together (σ : St) (t inp : Nat) :
    ((stepRun σ t inp).2.head = σ.head ∧ (stepRun σ t inp).2.log = σ.log) ∨
    (∃ m h, (σ.th t).pc = .hd m h ∧ (stepRun σ t inp).2.head = h + 1 ∧
      (stepRun σ t inp).2.log = σ.log ++ [(σ.th t).v]) :=
  head_log_together σ t inp

end MQ
