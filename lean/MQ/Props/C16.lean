import MQ.Inv.EpochMain
import MQ.Inv.GrpFree
import MQ.Inv.PosFree
/-!
# C16 — deferred reclamation of internal bookkeeping is memory safe

Objects that go through the memory manager: reader groups (`grp k`), stream position blocks (`posO s`), handle
tokens. `freed` is the ghost list of objects released so far. A thread *dereferences* a group pointer — and the
position words of the streams listed in it — while it scans the stream list (`g2`, the writers' tail refresh)
or copies it (`a2`, `add_stream`).

`SafeRun`: executions of `Core` from a fresh queue in which every step satisfies
* `LockStepOK` — a blocking `lock()` is taken only on a free mutex (mutexes are mutual exclusion),
* `ELabelOK` — handle ownership: one thread per handle, one token per handle, the token is registered while
  the handle operates, only the last consumer of a registered stream removes it, the destructor runs when no
  other thread is inside a call. (Rust ownership + reference counting; not proved here — `_partial`.)
Nothing is assumed about the ring: the registry facts the argument needs (`RegInv`, MQ/Inv/Reg*.lean) are proved
for **every** execution, so the theorems also cover the regions of the open findings F1/F12, the removal of the
last stream, and teardown. Any number of threads, handles and streams; any interleaving at the granularity of
single shared-memory operations; any number of reclamation cycles. Both hypotheses are evaluated by the trace
acceptor before every step of every real execution (`MQ/Model/Hyp.lean`, sound by `MQ/Inv/HypSound.lean`).
-/
namespace MQ

/-- C16 (no use after free — partial, see header): in every reachable state, a writer that is about to read
entry `i` of the stream list `p` it loaded — the list itself and the position block of the stream found there —
reads live memory; so does `add_stream` when it copies the list it loaded. -/
theorem C16_no_use_after_free_partial (N : Nat) (bcast : Bool) (wait : WaitK) (fut : Bool)
    (ls : List Label) (σ : St) (r : SafeRun (init N bcast wait fut) ls σ) (t : Nat) :
    (∀ m h tl p i md, (σ.th t).pc = .g2 m h tl p i md →
        Obj.grp p ∉ σ.freed ∧ ∀ sid, sid ∈ σ.groups p → Obj.posO sid ∉ σ.freed) ∧
    (∀ c, (σ.th t).pc = .a2 c → Obj.grp c ∉ σ.freed) := by
  have A := allInv_safeRun r (allInv_init N bcast wait fut)
  have L := A.e.loc t
  refine ⟨?_, ?_⟩
  · intro m h tl p i md hpc
    simp only [ELoc, hpc, holdFacts, prot] at L
    exact ⟨L.2.1.1, fun sid hs => (L.2.2 sid hs).1⟩
  · intro c hpc
    simp only [ELoc, hpc, holdFacts, prot] at L
    exact L.2.1.1

/-- C16 (what is retired stays unreachable — partial): a group that was passed to `free` is never the published
list again, and a position block that was passed to `free` belongs to a stream that is in no published list —
so no pointer to a retired object can be acquired after its retirement. -/
theorem C16_retired_is_unreachable_partial (N : Nat) (bcast : Bool) (wait : WaitK) (fut : Bool)
    (ls : List Label) (σ : St) (r : SafeRun (init N bcast wait fut) ls σ) :
    (∀ k, Obj.grp k ∈ σ.wtf ++ σ.tofree ++ σ.freed → k < σ.cur) ∧
    (∀ s, Obj.posO s ∈ σ.wtf ++ σ.tofree ++ σ.freed → s ∉ σ.groups σ.cur) := by
  have A := allInv_safeRun r (allInv_init N bcast wait fut)
  exact ⟨fun k hk => A.e.pipeG k hk, fun s hs => (A.e.pipeP s hs).2⟩

/-- C16 (the epoch argument — partial): at the moment the scan of the token vector completes and the pending
batch is about to be released, no other thread holds a group of that batch or the position block of a stream
listed in a group it holds. -/
theorem C16_release_only_when_unheld_partial (N : Nat) (bcast : Bool) (wait : WaitK) (fut : Bool)
    (ls : List Label) (σ : St) (r : SafeRun (init N bcast wait fut) ls σ) (x u : Nat) (k : MK) (e i p : Nat)
    (hpc : (σ.th x).pc = .f4 k e i) (hv : σ.tokv (σ.toks.getD i 0) = e) (hlast : ¬ i + 1 < σ.toks.length)
    (hu : u ≠ x) (hp : (σ.th u).pc.holdG = some p) :
    Obj.grp p ∉ σ.tofree ∧ ∀ sid, sid ∈ σ.groups p → Obj.posO sid ∉ σ.tofree := by
  have A := allInv_safeRun r (allInv_init N bcast wait fut)
  have L := A.e.loc u
  have hf : holdFacts σ (tokOf σ u) p := by
    cases hq : (σ.th u).pc <;> rw [hq] at hp <;> simp only [PC.holdG] at hp <;> (try (cases hp; done))
    all_goals (injection hp with hp; subst hp; simp only [ELoc, hq] at L; exact L)
  obtain ⟨f1, ⟨_, f3⟩, f4⟩ := hf
  exact ⟨fun h => scan_success_no_holder A.e A.m hpc hv hlast hu f1 h (f3 h),
         fun sid hs h => scan_success_no_holder A.e A.m hpc hv hlast hu f1 h ((f4 sid hs).2 h)⟩

theorem mgrDone_freed (σ : St) (t : Nat) (k : MK) : (mgrDone σ t k).freed = σ.freed :=
  congrArg EData.freed (edata_mgrDone σ t k)
theorem freeTail_freed (σ : St) (t : Nat) (k : MK) : (freeTail σ t k).freed = σ.freed :=
  congrArg EData.freed (edata_freeTail σ t k)
theorem freeEnd_freed (σ : St) (t : Nat) (k : MK) : (freeEnd σ t k).freed = σ.freed :=
  congrArg EData.freed (edata_freeEnd σ t k)

/-- C16 (release sites): objects are released only by a completed scan (`f4`) or by the destructor (`tdm`). -/
theorem C16_release_sites (σ : St) (t inp : Nat)
    (h4 : ∀ k e i, (σ.th t).pc ≠ .f4 k e i) (hd : (σ.th t).pc ≠ .tdm) :
    (stepRun σ t inp).2.freed = σ.freed := by
  cases hs : (σ.th t).pc.mgrSrc
  · have := congrArg Mgr.freed (stepRun_mgr_same σ t inp hs); simpa [St.mgr] using this
  · cases hpc : (σ.th t).pc <;> rw [hpc] at hs <;> (try (simp [PC.mgrSrc] at hs; done))
    case f4 k e i => exact absurd hpc (h4 k e i)
    case tdm => exact absurd hpc hd
    all_goals
      simp only [stepRun, hpc]
      repeat' split
    all_goals first
      | rfl
      | (simp only [mgrDone_freed, freeTail_freed, freeEnd_freed]; done)
      | (simp only [mgrDone_freed, freeTail_freed, freeEnd_freed] <;> rfl)

/-- non-vacuity: the fresh queue is a `SafeRun` of length 0; its published list is group 1 with stream 0 -/
example : SafeRun (init 2 true .busy false) [] (init 2 true .busy false) ∧
    (init 2 true .busy false).groups (init 2 true .busy false).cur = [0] :=
  ⟨SafeRun.nil _, by simp [init, upd]⟩

/-! ### nothing is released twice (stream lists and position blocks) -/

/-- C16 (no double release of a stream list): in every execution in which the two manager mutexes are mutual
exclusion, every stream list (`ReaderGroup`) occurs at most once in the retirement pipeline — waiting, pending or
released — and therefore is released at most once. (The list is passed to `free` by the thread whose CAS replaced
it; the id of the current list only grows.) -/
theorem C16_stream_list_released_once_partial (N : Nat) (bcast : Bool) (wait : WaitK) (fut : Bool)
    (ls : List Label) (σ : St) (r : LockRun (init N bcast wait fut) ls σ) (c : Nat) :
    σ.freed.count (Obj.grp c) ≤ 1 ∧ σ.mgr.pipe.count (Obj.grp c) ≤ 1 := by
  obtain ⟨g, _, _⟩ := ginv_lockRun r (ginv_init N bcast wait fut) (mgi_init N bcast wait fut) (reginv_init N bcast wait fut)
  exact ⟨freed_group_once g c, g.once c⟩

/-- C16 (no double release of a position block): along every `SafeRun` the position block of a stream occurs at
most once in the retirement pipeline, hence is released at most once. (It is passed to `free` by the thread whose
CAS took the stream off the list; that CAS is only made for a stream that is on the list, and a stream whose block
is owed or in the pipeline is not on the list any more.) -/
theorem C16_position_block_released_once_partial (N : Nat) (bcast : Bool) (wait : WaitK) (fut : Bool)
    (ls : List Label) (σ : St) (r : SafeRun (init N bcast wait fut) ls σ) (s : Nat) :
    σ.freed.count (Obj.posO s) ≤ 1 ∧ σ.mgr.pipe.count (Obj.posO s) ≤ 1 := by
  obtain ⟨p, _⟩ := pinv_safeRun r (pinv_init N bcast wait fut) (allInv_init N bcast wait fut)
  exact ⟨freed_once p.o _ trivial, p.o.once _ trivial⟩

/-- C16: every `free` call is given the object its place in the program stands for (the old list after a list
CAS, the position block after the list of a removed stream, the token at the end of a drop) -/
theorem C16_free_is_given_the_right_object_partial (N : Nat) (bcast : Bool) (wait : WaitK) (fut : Bool)
    (ls : List Label) (σ : St) (r : SafeRun (init N bcast wait fut) ls σ) (t : Nat) (k : MK) (ob : Obj)
    (h : (σ.th t).pc = .f1 k ob) : shapeOK k ob (σ.th t).s :=
  (pinv_safeRun r (pinv_init N bcast wait fut) (allInv_init N bcast wait fut)).1.shape t k ob h

end MQ
