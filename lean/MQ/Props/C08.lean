import MQ.Inv.RingMain
import MQ.Inv.WakeMain
/-!
# C08 — a blocked receiver always wakes when a value or the end is available
Decided as the safety facts that make it true under any fair scheduler.
-/
namespace MQ

/-- the wake-up condition is true once the awaited position is published -/
theorem C08_check_true_when_published (seq w : Nat) : checkVal seq (some seq) w = true := by
  simp [checkVal]

/-- … and once the last sender is gone, whatever the slot holds -/
theorem C08_check_true_when_no_writers (seq : Nat) (tg : Option Nat) : checkVal seq tg 0 = true := by
  simp [checkVal]

/-- the condition is stable: tags of a slot only grow, so once true (for a written slot) it stays true -/
theorem C08_check_monotone (seq c c' w : Nat) (h : checkVal seq (some c) w = true) (hc : c ≤ c') (hw : w ≠ 0) :
    checkVal seq (some c') w = true := by
  simp [checkVal] at h ⊢
  rcases h with h | h | h
  · exact absurd h hw
  · right; omega
  · right; omega

/-- a never-written slot does not satisfy the condition while a sender is alive (so blocking waits really
block on a fresh queue instead of spinning) -/
theorem C08_check_false_on_fresh_slot (seq w : Nat) (hw : w ≠ 0) : checkVal seq none w = false := by
  simp [checkVal, hw]

/-- C08 (pairing): `recv` hands the wait strategy the sequence number `seq` together with slot `j` only when
`seq` is the stream's current position and `j` is the slot of that position; otherwise it retries the receive
instead of waiting (program point `w0`, for the blocking `recv` and the shared `Stream::poll`). -/
theorem C08_pairing (σ : St) (t inp j : Nat) (hpc : (σ.th t).pc = .w0 j)
    (ho : (σ.th t).outer = .recv ∨ (σ.th t).outer = .poll false) :
    (σ.pos (σ.th t).s % σ.N ≠ j → ((stepRun σ t inp).2.th t).pc = .is1) ∧
    (σ.pos (σ.th t).s % σ.N = j → (stepRun σ t inp).2 = startWait (σ.flush t) t j (σ.pos (σ.th t).s)) := by
  constructor
  · intro h
    rcases ho with ho | ho <;> simp [stepRun, hpc, ho, h, St.goto, St.flush, St.setTh, upd]
  · intro h
    rcases ho with ho | ho <;> simp [stepRun, hpc, ho, h]

/-- every round of every wait loop evaluates the condition: a `yield` step of a wait is always followed by a
check (`c1`), for all spin configurations — also `YieldingWait::with_spins(_, 0)`. -/
theorem C08_yield_then_check (σ : St) (t inp j seq : Nat) (ph : WPh) (hpc : (σ.th t).pc = .wy j seq ph) :
    ((stepRun σ t inp).2.th t).pc = .c1 j seq ph := by
  simp only [stepRun, hpc]
  cases ph <;> simp [St.goto, St.flush, St.setTh, upd]

/-- the yield loop is entered with at least one check per round -/
theorem C08_yield_loop_has_check (σ : St) (t j seq a b : Nat) (hw : σ.wait = .yielding a b) :
    ((startWait σ t j seq).th t).pc = .c1 j seq (.spin1 a) ∨
    ((startWait σ t j seq).th t).pc = .wy j seq (.yloop (max b 1)) := by
  unfold startWait
  simp only [hw]
  split
  · left; simp [St.goto, St.setTh, upd]
  · right; simp [St.goto, St.setTh, upd]

/-- C08 (no lost wake-up on the condvar — for every execution in which the condvar's mutex is mutual exclusion):
in every reachable state of a `BlockingWait` queue, if a consumer is waiting on the condvar (or has decided to,
under the lock) for slot `j` / sequence number `seq` and its wake-up condition `check(seq, tag[j], writers)` holds
*now*, then some thread is a pending notifier: it has published a slot or taken the writer count down and has
not yet executed `notify_all` (`od`, `nb1`, `nb2`, or the sender-drop path). Since a pending notifier only stops
being one by executing `notify_all`, which releases every waiter, no waiter can be left behind. -/
theorem C08_no_lost_wakeup_partial (N : Nat) (bcast : Bool) (wait : WaitK) (fut : Bool)
    (ls : List Label) (σ : St) (r : WRun (init N bcast wait fut) ls σ) (a b : Nat) (hw : σ.wait = .blocking a b)
    (t j seq : Nat)
    (hs : (σ.th t).pc = .wcvw j seq ∨ ((σ.th t).pc = .wblk j seq ∧ t ∈ σ.cvWaiters))
    (hc : checkVal seq (σ.tag j) σ.writers = true) : ∃ u, (σ.th u).pc.pendB = true :=
  (winv_wrun r (winv_init N bcast wait fut)).w1 a b hw t j seq hs hc

/-- C08 (a pending notifier stays one until it notifies): its next own step is again a pending-notifier step,
unless it is the `notify_all` itself. -/
theorem C08_pending_notifier_persists (σ : St) (x inp a b : Nat) (hw : σ.wait = .blocking a b)
    (hp : (σ.th x).pc.pendB = true) (hn : ∀ k, (σ.th x).pc ≠ .nb2 k) :
    ((stepRun σ x inp).2.th x).pc.pendB = true :=
  pendB_step σ x inp a b hw hp hn

/-- C08 (`notify_all` releases everybody): after the notifier's step no thread is in the waiter set. -/
theorem C08_notify_all_releases (σ : St) (x inp k : Nat) (hpc : (σ.th x).pc = .nb2 k) :
    (stepRun σ x inp).2.cvWaiters = [] := by
  simp only [stepRun, hpc]
  exact congrArg WData.cvWaiters (afterNotify_wdata _ x k)

/-- the mutex of the condvar is held exactly inside its critical sections -/
theorem C08_condvar_mutex_partial (N : Nat) (bcast : Bool) (wait : WaitK) (fut : Bool)
    (ls : List Label) (σ : St) (r : WRun (init N bcast wait fut) ls σ) (t : Nat) :
    (σ.th t).pc.wHeld = true ↔ σ.wlockOwner = some t :=
  (winv_wrun r (winv_init N bcast wait fut)).own t

/-- C08 (a publisher always notifies): on a queue whose wait strategy needs notifications, a sender that has
published a value (the tag store `ts`, possibly followed by the drop of the overwritten value `od`) goes on to the
notification program (`nb1`: condvar, `nf false`: consumers' task list) — never directly to its return. For all
states and all outer calls (`try_send`, `start_send`). -/
theorem C08_publisher_goes_to_notify (σ : St) (t inp : Nat) (hn : σ.wait.needsNotify = true)
    (hpc : (∃ h o, (σ.th t).pc = .ts h o) ∨ (∃ h, (σ.th t).pc = .od h)) :
    (∃ h, ((stepRun σ t inp).2.th t).pc = .od h) ∨ (∃ k, ((stepRun σ t inp).2.th t).pc = .nb1 k) ∨
    (∃ k, ((stepRun σ t inp).2.th t).pc = .nf false k) := by
  rcases hpc with ⟨h, o, hpc⟩ | ⟨h, hpc⟩
  all_goals
    cases hw : σ.wait <;> simp [WaitK.needsNotify, hw] at hn
  all_goals
    simp only [stepRun, hpc, sendDone, startNotify, hw]
    (repeat' split) <;> simp_all [WaitK.needsNotify, St.goto, St.gotoF, St.flush, St.setTh, St.setHd, upd]

/-- C08 (a dropped sender always notifies): the end of a sender drop — after `writers` was decremented, which may
make the wait condition of every blocked receiver true — is the notification program -/
theorem C08_sender_drop_goes_to_notify (σ : St) (t : Nat) (hn : σ.wait.needsNotify = true) :
    (∃ k, ((sendDropTail σ t).th t).pc = .nb1 k) ∨ (∃ k, ((sendDropTail σ t).th t).pc = .nf false k) := by
  unfold sendDropTail
  cases hw : σ.wait <;> simp [WaitK.needsNotify, hw] at hn <;> simp [St.goto, St.setTh, upd]

end MQ
