import MQ.Inv.RingMain
import MQ.Inv.LogFrame
/-!
# C02 — all streams see one FIFO order consistent with producers and real time
The common total order is the ghost `log` (claim order).
-/
namespace MQ

/-- C02: any two registered streams deliver contiguous segments of the *same* log; on the positions both
have delivered they therefore agree value by value (one common total order). -/
theorem C02_common_order_partial (N : Nat) (bcast : Bool) (wait : WaitK) (fut : Bool) (hN : 0 < N)
    (ls : List Label) (σ : St) (r : GoodRun (init N bcast wait fut) ls σ)
    (s1 s2 : Nat) (h1 : s1 ∈ σ.groups σ.cur) (h2 : s2 ∈ σ.groups σ.cur) :
    σ.dlv s1 = (σ.log.drop (σ.start s1)).take (σ.pos s1 - σ.start s1) ∧
    σ.dlv s2 = (σ.log.drop (σ.start s2)).take (σ.pos s2 - σ.start s2) :=
  let I := rinv_goodRun r (rinv_init N bcast wait fut hN)
  ⟨I.g.dlv s1 h1, I.g.dlv s2 h2⟩

/-- the i-th delivery of a stream is the log entry at `start + i` -/
theorem C02_delivery_index_partial (N : Nat) (bcast : Bool) (wait : WaitK) (fut : Bool) (hN : 0 < N)
    (ls : List Label) (σ : St) (r : GoodRun (init N bcast wait fut) ls σ)
    (s i : Nat) (hs : s ∈ σ.groups σ.cur) (hi : i < σ.pos s - σ.start s) :
    (σ.dlv s)[i]? = σ.log[σ.start s + i]? := by
  have I := rinv_goodRun r (rinv_init N bcast wait fut hN)
  have hd := I.g.dlv s hs
  simp only [St.ring] at hd
  rw [hd, List.getElem?_take_of_lt hi, List.getElem?_drop]

/-- C02: the order is fixed once and for all — one step never changes or reorders what is already in the
log, it can only append the value the stepping thread is sending (at its claim step). Values therefore keep
their relative order for ever, and a send whose claim step happens later — in particular one that began
after another send returned — is later in the order. -/
theorem C02_log_append_only (σ : St) (t inp : Nat) :
    (stepRun σ t inp).2.log = σ.log ∨ (stepRun σ t inp).2.log = σ.log ++ [(σ.th t).v] :=
  stepRun_log σ t inp

/-- along any sequence of `run` steps the log only grows by appending -/
theorem C02_log_prefix (σ : St) (sched : List (Nat × Nat)) :
    ∃ suffix, (sched.foldl (fun s (p : Nat × Nat) => (stepRun s p.1 p.2).2) σ).log = σ.log ++ suffix := by
  induction sched generalizing σ with
  | nil => exact ⟨[], by simp⟩
  | cons p ps ih =>
    obtain ⟨suf, hs⟩ := ih (stepRun σ p.1 p.2).2
    rcases stepRun_log σ p.1 p.2 with h | h
    · exact ⟨suf, by simp only [List.foldl_cons]; rw [hs, h]⟩
    · exact ⟨[(σ.th p.1).v] ++ suf, by simp only [List.foldl_cons]; rw [hs, h, List.append_assoc]⟩

end MQ
