import MQ.Inv.MgrPipe
/-!
# C17 — memory is returned on teardown and bounded under churn: the retirement pipeline

Everything the queue allocates after construction (reader groups, stream positions, handle tokens) is
released through `MemoryManager::free`. The theorems follow every object from the moment it is passed to
`free` (`wait_to_free` → pending batch `tofree` → released), for every execution of the micro-step model
`Core` in which a blocking `lock()` only succeeds on a free mutex (`LockRun`; mutexes are modelled as mutual
exclusion, not verified) — any number of threads, handles, streams, any interleaving, including `try_lock`
failures and reclamation cycles that overlap with `remove_token`.

What is *not* in these theorems: that every replaced group / removed stream / dropped handle is eventually
passed to `free`, and that the ring buffers and the last group are released by the destructors — that pairing
is visible in the model's program (`a3 → f1`, `rr2 → f1 → f1`, `rt1 → f1`, `tdr`, `tdm`) and is tied to the
real code by the event correspondence (every `lock`/`try_lock`/epoch event is compared) and, byte for byte, by
the counting-allocator engine.
-/
namespace MQ

/-- C17 (nothing retired is lost, nothing else is released): in every state reachable from a fresh queue, the
multiset `wait_to_free ⊎ tofree ⊎ released` is exactly the multiset of objects passed to `free` so far. In
particular no object is released twice unless it was retired twice, and none disappears. -/
theorem C17_pipeline_is_what_was_retired (N : Nat) (bcast : Bool) (wait : WaitK) (fut : Bool)
    (ls : List Label) (σ : St) (r : LockRun (init N bcast wait fut) ls σ) :
    (σ.wtf ++ σ.tofree ++ σ.freed).Perm (retiredBy (init N bcast wait fut) ls) := by
  have := pipe_lockRun r (mgi_init N bcast wait fut)
  simpa [Mgr.pipe, St.mgr, init] using this

/-- C17 (`add_freeable` never drops a batch): `start_free` *overwrites* `tofree` with the waiting list; whenever
it does so (inner epoch = epoch, checked under the manager mutex) the previous batch has already been released. -/
theorem C17_batch_never_overwritten (N : Nat) (bcast : Bool) (wait : WaitK) (fut : Bool)
    (ls : List Label) (σ : St) (r : LockRun (init N bcast wait fut) ls σ) (t : Nat) (k : MK)
    (hpc : (σ.th t).pc = .f8 k) (hie : σ.iepoch = σ.epoch) : σ.tofree = [] :=
  batch_empty_at_f8 (mgi_lockRun r (mgi_init N bcast wait fut)) t k hpc hie

/-- C17 (teardown): the destructor's step on the manager releases everything that is still waiting or pending;
afterwards both lists are empty. -/
theorem C17_teardown_releases_everything (σ : St) (t inp : Nat) (hpc : (σ.th t).pc = .tdm) :
    let σ' := (stepRun σ t inp).2
    σ'.wtf = [] ∧ σ'.tofree = [] ∧ (∀ x, x ∈ σ.wtf ++ σ.tofree ++ σ.freed → x ∈ σ'.freed) := by
  simp only [stepRun, hpc]
  refine ⟨rfl, rfl, ?_⟩
  intro x hx
  simp [St.goto, St.flush, St.setTh] at hx ⊢
  rcases hx with h | h | h <;> simp [h]

/-- C17 (mutual exclusion and epochs): in every reachable state each manager mutex is held exactly by the
thread whose program point is inside its critical section, the inner epoch is the epoch or one behind, and no
token is ahead of the epoch. -/
theorem C17_manager_invariant (N : Nat) (bcast : Bool) (wait : WaitK) (fut : Bool)
    (ls : List Label) (σ : St) (r : LockRun (init N bcast wait fut) ls σ) :
    (∀ t, (σ.th t).pc.mgrHeld = true ↔ σ.mgrOwner = some t) ∧
    (∀ t, (σ.th t).pc.wtfHeld = true ↔ σ.wtfOwner = some t) ∧
    (σ.iepoch = σ.epoch ∨ σ.iepoch + 1 = σ.epoch) ∧ (∀ g, σ.tokv g ≤ σ.epoch) := by
  have I := mgi_lockRun r (mgi_init N bcast wait fut)
  exact ⟨I.ownM, I.ownW, I.ep, I.tokle⟩

/-- C17 (a reclamation cycle completes once every handle has announced): a thread scanning the token vector
that finds the last token at the epoch releases the whole pending batch and closes the cycle. -/
theorem C17_scan_success_releases_batch (σ : St) (t inp : Nat) (k : MK) (e i : Nat)
    (hpc : (σ.th t).pc = .f4 k e i) (hv : σ.tokv (σ.toks.getD i 0) = e) (hlast : ¬ i + 1 < σ.toks.length) :
    let σ' := (stepRun σ t inp).2
    σ'.tofree = [] ∧ σ'.freed = σ.freed ++ σ.tofree ∧ σ'.iepoch = e := by
  simp only [stepRun, hpc, hv, if_true, hlast, if_false]
  simp [St.goto, St.flush, St.setTh]

/-- non-vacuity: the fresh queue is a `LockRun` of length 0 and its pipeline is empty -/
example : LockRun (init 2 true .busy false) [] (init 2 true .busy false) ∧
    (init 2 true .busy false).wtf = [] := ⟨LockRun.nil _, rfl⟩

end MQ
