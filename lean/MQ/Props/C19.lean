/-
  C19 — a handle can be moved to another thread only when that is sound for what it carries:
  every handle type is `Send` exactly when the payload is `Send` (for broadcast handles: and `Sync`;
  for the futures single-consumer receivers: and the stored closure is `Send`), and no handle type is `Sync`.

  Quantifier: the complete finite matrix  12 public handle types × 4 payload classes × 2 closure classes
  (`C19.matrix`, 96 entries; entries that violate the bounds declared on the struct itself, such as
  `BroadcastUniReceiver<Cell<u8>>`, do not exist in Rust and are excluded by `Entry.wf`).  Everything is
  decidable, so `decide` over the whole table is a proof.

  Where things are:
  * MQ/Traits/Resolver.lean   hand-written auto-trait resolver (`isSend`, `isSync`, `wellFormed`);
  * MQ/Gen/Traits.lean        GENERATED from /repo on every check: structs, fields, `unsafe impl`s;
  * MQ/Traits/Spec.lean       `Handle`, `Payload`, `Closure`, `Entry`, the demanded table `C19_spec`,
                              the full statement `C19_full : Prop`, the known-finding set `C19.knownF14`;
  * MQ/Gen/TraitsVerdict.lean GENERATED: the theorem that depends on the state of the sources,
        sources meet the spec   →  `theorem C19_table : C19_full`
        otherwise               →  `theorem C19_full_false : ¬ C19_full` (concrete witness) and
                                   `theorem C19_failing_exact : C19.failing = [...]`;
    which one is stated is a hint from the translator; the kernel checks it, so a wrong hint breaks the build;
  * this file: the theorems that must hold in BOTH states.  They fail (and `check C19` reports it) as soon as
    any entry outside the known finding F14 deviates — e.g. `T: Sync` dropped from `BroadcastSender`'s impl,
    or any handle becoming `Sync`.
  The tie to rustc (probe crate, same matrix, one compilation) is done by tools/engine_c19.py.
-/
import MQ.Gen.TraitsVerdict
namespace MQ
open Traits

/-! ### the generated table has the shape the specification assumes -/

/-- adts 0..11 of the generated table are the 12 handle types, with the expected type parameters -/
theorem C19_handles_tied :
    (Gen.table.adts.take 12).map (fun d => (d.name, d.params)) = Handle.all.map (fun h => (h.name, h.params)) := by
  decide

/-- every index in the generated table is in range -/
theorem C19_table_closed : Gen.table.closed = true := by decide

/-- the matrix is complete -/
theorem C19_matrix_complete (e : Entry) : e ∈ C19.matrix := by
  obtain ⟨h, p, c⟩ := e
  cases h <;> cases p <;> cases c <;> decide

/-! ### the property, as far as it holds whatever the state of F14 -/

/-- no handle type is `Sync`, for any payload and closure (all 12 types, no exception) -/
theorem C19_never_sync : ∀ e ∈ C19.matrix, e.wf = true → e.isSync = false := by decide

/-- no handle is less `Send` than demanded (all 12 types, no exception) -/
theorem C19_send_complete : ∀ e ∈ C19.matrix, e.wf = true → (C19_spec e).1 = true → e.isSend = true := by decide

/-- C19 on every entry outside the known finding F14 (`C19.knownF14`: `BroadcastFutSender`/`BroadcastFutReceiver`
    with a `Send`, non-`Sync` payload; the two `..FutUniReceiver` with a payload or closure that must make them
    non-`Send`).  Once F14 is repaired this is subsumed by `C19_table`. -/
theorem C19_partial :
    ∀ e ∈ C19.matrix, e.wf = true → C19.knownF14 e = false →
      e.isSend = (C19_spec e).1 ∧ e.isSync = (C19_spec e).2 := by decide

/-- the known finding only ever excuses "is `Send` although it must not be" -/
theorem C19_known_scope : ∀ e ∈ C19.matrix, C19.knownF14 e = true → (C19_spec e).1 = false := by decide

/-- the full statement is exactly "no failing entry" (so `C19_failing_exact` in the generated verdict file
    pins the state of the sources down completely) -/
theorem C19_full_iff : C19_full ↔ C19.failing = [] := by
  unfold C19_full C19.failing
  rw [List.filter_eq_nil_iff]
  constructor
  · intro h e he
    have := h e he
    cases hw : e.wf <;> simp_all
  · intro h e he hw
    have := h e he
    simp_all

/-! ### the resolver's leaves (why the handle structs need explicit impls at all) -/

/-- `Arc<dyn Wait>`: `trait Wait` has no `Send`/`Sync` supertrait, so the `waiter` field is neither -/
theorem C19_arc_dyn_wait :
    isSend Gen.table (.std .arc [.dyn false false]) = false ∧ isSync Gen.table (.std .arc [.dyn false false]) = false := by
  decide

theorem C19_leaf_rules (s y : Bool) :
    stdRule .arc [(s, y)] = (s && y, s && y) ∧ stdRule .cell [(s, y)] = (s, false) ∧
    stdRule .mutex [(s, y)] = (s, s) ∧ stdRule .phantom [(s, y)] = (s, y) ∧ stdRule .rc [(s, y)] = (false, false) := by
  cases s <;> cases y <;> decide

end MQ
