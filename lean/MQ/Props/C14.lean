import MQ.Inv.RingMain
import MQ.Inv.WakeMain
import MQ.Inv.PinMain
/-!
# C14 — a parked futures task is always notified when it can make progress
The protocol facts that exclude a lost wake-up, at the granularity of single shared-memory operations:
park and notify are serialised by the list lock, parking re-checks under that lock, every notifier changes
the state first and drains the list afterwards.
-/
namespace MQ

/-- a consumer task is put on the consumers' list only by the step that evaluated the wake-up condition
*while holding the list lock* and found it false; if the condition holds, the task does not park but retries -/
theorem C14_park_rechecks_under_lock (σ : St) (t j seq : Nat) (b : Bool) :
    (b = true → (checkDone σ t j seq .parked b).cwaitL = σ.cwaitL ∧
      (((checkDone σ t j seq .parked b).th t).pc = .la1 ∨ ((checkDone σ t j seq .parked b).th t).pc = .is1)) ∧
    (b = false → (checkDone σ t j seq .parked b).cwaitL = σ.cwaitL ++ [t] ∧
                 ((checkDone σ t j seq .parked b).th t).pc = .psl) := by
  constructor
  · intro h; subst h
    simp only [checkDone, ↓reduceIte, waitDone]
    constructor
    · split <;> rfl
    · split <;> simp [St.goto, St.setTh, upd]
  · intro h; subst h
    simp [checkDone, St.goto, St.setTh, upd]

/-- the parking program takes the list lock first and then evaluates the condition (`pk` → `c1 … parked`) -/
theorem C14_park_locks_first (σ : St) (t inp j seq : Nat) (hpc : (σ.th t).pc = .pk j seq) :
    ((stepRun σ t inp).2.th t).pc = .c1 j seq .parked := by
  simp [stepRun, hpc, St.goto, St.flush, St.setTh, upd]

/-- a notifier locks the list, takes *all* parked tasks off it and notifies each of them -/
theorem C14_notify_drains (σ : St) (t inp k : Nat) (lst : Bool) (hpc : (σ.th t).pc = .nf lst k) :
    (lst = true → (stepRun σ t inp).2.pwaitL = []) ∧ (lst = false → (stepRun σ t inp).2.cwaitL = []) := by
  have hA : ∀ (τ : St) k, (afterNotify τ t k).pwaitL = τ.pwaitL ∧ (afterNotify τ t k).cwaitL = τ.cwaitL := by
    intro τ k; unfold afterNotify; split <;> exact ⟨rfl, rfl⟩
  constructor
  · intro h; subst h
    simp only [stepRun, hpc]
    repeat' split
    all_goals first
      | rfl
      | (rename_i h; exact absurd trivial h)
      | (rename_i h; simp at h; done)
      | (rw [(hA _ _).1]; rfl)
      | (simp [St.goto, St.setTh, St.flush, teardownStart, stepRun.startNotify2]; done)
  · intro h; subst h
    simp only [stepRun, hpc]
    repeat' split
    all_goals first
      | rfl
      | (rename_i h; exact absurd trivial h)
      | (rename_i h; simp at h; done)
      | (rw [(hA _ _).2]; rfl)
      | (simp [St.goto, St.setTh, St.flush, teardownStart, stepRun.startNotify2]; done)

/-- a sink task is put on the producers' list only by a `try_send` that was attempted while holding the list
lock and came back `Full` (third phase of `send_or_park`); `Ok`/`Disconnected` never park -/
theorem C14_sink_parks_only_after_locked_full (σ : St) (t : Nat) (r : Res) (a b : Nat)
    (hw : σ.wait = .fut a b) (ho : (σ.th t).outer = .startSend 2 0) :
    (r = .full → (sendDone σ t r).pwaitL = σ.pwaitL ++ [t] ∧ ((sendDone σ t r).th t).pc = .ret .notready) ∧
    (r = .disc → (sendDone σ t r).pwaitL = σ.pwaitL ∧ ((sendDone σ t r).th t).pc = .ret .err) := by
  constructor
  · intro h; subst h
    simp [sendDone, ho, hw, St.goto, St.setTh, upd]
  · intro h; subst h
    simp [sendDone, ho, St.goto, St.setTh, upd]

/-- the shared-stream `poll` wakes the producers before it starts to wait (a pin it took and gave up may have
made a sender park): an inner `try_recv` that ended `Empty` continues with the producers' notification -/
theorem C14_poll_empty_notifies_producers (σ : St) (t j : Nat) (ho : (σ.th t).outer = .poll false) :
    ((recvDone σ t .empty j).th t).pc = .nf true 12 := by
  simp [recvDone, ho, St.goto, St.setTh, upd]

/-- C14 (no lost wake-up for a parked consumer task — for every execution in which the consumers' list lock is
mutual exclusion): in every reachable state of a futures queue, if a task is parked on the consumers' list for
slot `j` / sequence number `seq` and its wake-up condition holds *now*, then some thread is a pending notifier
of that list (it has published a slot or taken the writer count down and has not yet drained the list). The
notifier only stops being pending by draining the list, which notifies every parked task. -/
theorem C14_no_lost_wakeup_consumers_partial (N : Nat) (bcast : Bool) (wait : WaitK) (fut : Bool)
    (ls : List Label) (σ : St) (r : WRun (init N bcast wait fut) ls σ) (a b : Nat) (hw : σ.wait = .fut a b)
    (t j seq : Nat) (hp : t ∈ σ.cwaitL) (hf : σ.cwFor t = (j, seq))
    (hc : checkVal seq (σ.tag j) σ.writers = true) : ∃ u, (σ.th u).pc.pendF = true :=
  (winv_wrun r (winv_init N bcast wait fut)).w3 a b hw t j seq ⟨hp, hf⟩ hc

/-- C14 (a pending list notifier stays one until it has drained the list) -/
theorem C14_pending_notifier_persists (σ : St) (x inp a b : Nat) (hw : σ.wait = .fut a b)
    (hp : (σ.th x).pc.pendF = true) (hn : ∀ k, (σ.th x).pc ≠ .nf false k) :
    ((stepRun σ x inp).2.th x).pc.pendF = true :=
  pendF_step σ x inp a b hw hp hn

/-- C14 (senders are woken before a futures receiver waits — F8a, F8b, F17): when an attempt of the blocking `recv` or of
the shared-stream `poll` of a futures receiver ends with `Empty`, the next thing the thread does is `notify_all` on
the senders' list (`nf true 12`); only then does it examine the slot to wait on (`w0`). The failed attempt may have
pinned and released a slot that a sender found pinned. -/
theorem C14_empty_attempt_wakes_senders_first (σ : St) (t j : Nat) (hf : (σ.hs (σ.th t).g).fut = true)
    (ho : (σ.th t).outer = .recv ∨ (σ.th t).outer = .poll false) :
    ((recvDone σ t .empty j).th t).pc = .nf true 12 := by
  rcases ho with ho | ho <;> simp [recvDone, ho, hf, St.goto, St.setTh, upd]

/-- … and the notification step really drains the senders' list and hands every task on it to the notifier -/
theorem C14_notify_drains_senders (σ : St) (t inp k : Nat) (hpc : (σ.th t).pc = .nf true k) :
    (stepRun σ t inp).2.pwaitL = [] := by
  simp only [stepRun, hpc, if_true]
  split
  all_goals first
    | rfl
    | (simp [stepRun.startNotify2, St.goto, St.setTh, teardownStart]; done)
    | (unfold afterNotify; split <;> simp [St.goto, St.setTh]; done)


/-- C14 (a sender that reports `Full` because of a pin has a future notifier): whenever the pin counter of a slot is
not zero, some consumer is inside a pinned section on that slot — a thread in the middle of a receive attempt, which
(see `C14_empty_attempt_wakes_senders_first` and the `nf true` steps that end every futures receive) calls
`notify_all` on the senders' list before it waits or returns. -/
theorem C14_pinned_slot_has_a_consumer_partial (N : Nat) (wait : WaitK) (fut : Bool) (hN : 0 < N) (ls : List Label)
    (σ : St) (r : NRun (init N true wait fut) ls σ) (j : Nat) (h : σ.ref j ≠ 0) : ∃ u, pinned σ u j := by
  obtain ⟨l, _, l2, l3⟩ := (pall_nrun r rfl (pall_init N wait fut hN)).1.p.cnt j
  match l, l3, l2 with
  | [], l3, _ => exact absurd l3 h
  | u :: _, _, l2 => exact ⟨u, (l2 u).mp (List.mem_cons_self ..)⟩

set_option maxHeartbeats 4000000 in
/-- program points of a receive attempt on a shared path (before the outcome is handed to the wait / return logic) -/
def PC.inAttempt : PC → Bool
  | .r0 | .u1 .recvStart | .u2 .recvStart _ | .u3 .recvStart _ | .is1 | .la1 | .la2
  | .r1 _ _ | .r2 _ _ | .r3 _ _ | .r3b _ _ | .r4 _ | .r5 _ _ | .r6 _ | .r7 _ | .rd _ _ | .rc _ _ _ | .r8 _ _ | .r9 _ _ _
  | .fg _ _ => true
  | _ => false

set_option maxHeartbeats 4000000 in
/-- C14 (every exit of a receive attempt of a futures receiver goes through `notify_all`): a thread that is inside a
receive attempt (`try_recv`, blocking `recv`, shared-stream `poll`) on a futures handle either stays inside the
attempt or moves to the step that locks the senders' list and wakes every parked sender (`nf true _`) — it never
goes on to wait or to return directly. The one exception is `poll` returning `None` (`Disconnected`: no sender
handle is left, see C07). This is what F8a, F8b and F17 violated. -/
theorem C14_attempt_exits_through_notify (σ : St) (t inp : Nat) (hf : (σ.hs (σ.th t).g).fut = true)
    (ho : (σ.th t).outer = .tryRecv ∨ (σ.th t).outer = .recv ∨ (σ.th t).outer = .poll false)
    (ha : (σ.th t).pc.inAttempt = true) :
    ((stepRun σ t inp).2.th t).pc.inAttempt = true ∨ (∃ k, ((stepRun σ t inp).2.th t).pc = .nf true k) ∨
    ((stepRun σ t inp).2.th t).pc = .ret .none_ := by
  cases hpc : (σ.th t).pc
  case u1 k => cases k <;> (rw [hpc] at ha; first | (simp [PC.inAttempt] at ha; done) | (rcases ho with ho | ho | ho <;> (pin_unf hpc <;> (repeat' split) <;> simp_all [PC.inAttempt, St.goto, St.gotoF, St.flush, St.setTh, St.setHd, upd])))
  case u2 k e => cases k <;> (rw [hpc] at ha; first | (simp [PC.inAttempt] at ha; done) | (rcases ho with ho | ho | ho <;> (pin_unf hpc <;> (repeat' split) <;> simp_all [PC.inAttempt, St.goto, St.gotoF, St.flush, St.setTh, St.setHd, upd])))
  case u3 k e => cases k <;> (rw [hpc] at ha; first | (simp [PC.inAttempt] at ha; done) | (rcases ho with ho | ho | ho <;> (pin_unf hpc <;> (repeat' split) <;> simp_all [PC.inAttempt, St.goto, St.gotoF, St.flush, St.setTh, St.setHd, upd])))
  all_goals (rw [hpc] at ha; first | (simp [PC.inAttempt] at ha; done) | (rcases ho with ho | ho | ho <;> (pin_unf hpc <;> (repeat' split) <;> simp_all [PC.inAttempt, St.goto, St.gotoF, St.flush, St.setTh, St.setHd, upd])))


/-- C14: the end of a receiver drop / unsubscribe / conversion on a futures handle — after its stream's count was
decremented and, for the last consumer, the stream taken off the list (which may make room for a parked sender) —
is the step that wakes the senders -/
theorem C14_receiver_drop_wakes_senders (σ : St) (t : Nat) (hf : (σ.hs (σ.th t).g).fut = true) :
    ∃ k, ((recvDropTail σ t).th t).pc = .nf true k := by
  unfold recvDropTail
  simp only [hf, if_true]
  refine ⟨(match (σ.th t).outer with | .unsub => 9 | .intoSingleFut => 10 | .intoMultiFut => 11 | _ => 6), ?_⟩
  simp [St.goto, St.setTh, upd]
  cases (σ.th t).outer <;> rfl

end MQ
