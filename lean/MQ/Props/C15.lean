import MQ.Props.SpecThms
import MQ.Inv.Frame2
/-!
# C15 — futures handles obey the Sink/Stream contract and match the plain queue
`poll`/`start_send` are the same inner `try_recv`/`try_send` programs of `Core` with a different outer
continuation; sequentially they return what `Spec` predicts (differential, incl. polls on a fresh queue).
-/
namespace MQ

/-- Spec: a `Stream` that reported the end reports it for ever, and only with no sender left
(`None`-stability, all call sequences; `badop` = the handle was consumed meanwhile). -/
theorem C15_spec_none_stable (b f : Bool) (cap : Nat) (cs : List Spec.Call) (c : Spec.Call) (h : Nat)
    (x : Spec.Slot) (hc : c.recvSlot = some h) (hx : Spec.getSlot (Spec.run (Spec.init b f cap) cs) h = some x)
    (he : (Spec.step (Spec.run (Spec.init b f cap) cs) c).2.isEnd) :
    (Spec.run (Spec.init b f cap) cs).senders = 0 ∧
    ∀ (cs' : List Spec.Call) (c' : Spec.Call) (h' : Nat) (x' : Spec.Slot),
      c'.recvSlot = some h' →
      Spec.getSlot (Spec.run (Spec.step (Spec.run (Spec.init b f cap) cs) c).1 cs') h' = some x' →
      x'.strm = x.strm →
      ((Spec.step (Spec.run (Spec.step (Spec.run (Spec.init b f cap) cs) c).1 cs') c').2.isEnd ∨
        (Spec.step (Spec.run (Spec.step (Spec.run (Spec.init b f cap) cs) c).1 cs') c').2 = Spec.Result.badop) :=
  Spec.end_stable_reachable b f cap cs c h x hc hx he

/-- Core: whatever `start_send` returns, an inner `try_send` that ended `Full` never leaves the value in the
queue: the outcome is `NotReady` (possibly after re-trying and parking) — `sendDone` with `full` changes no
ring word. -/
theorem C15_core_full_changes_nothing (σ : St) (t : Nat) : (sendDone σ t .full).ring = σ.ring :=
  sendDone_ring σ t .full

/-- Core: an inner `try_send` that ended `Ok` under `start_send` leads to `Ready` after the two notifications,
never to `NotReady` (the message is not handed back once it was enqueued). -/
theorem C15_core_ok_is_ready (σ : St) (t ph cnt : Nat) (ho : (σ.th t).outer = .startSend ph cnt) :
    ((sendDone σ t .ok).th t).pc = .ret .ready ∨ ((sendDone σ t .ok).th t).pc = .nb1 1 ∨
    ((sendDone σ t .ok).th t).pc = .nf false 1 := by
  unfold sendDone
  simp only [ho]
  split
  · unfold startNotify
    split
    · right; left; simp [St.goto, St.setTh, upd]
    · right; right; simp [St.goto, St.setTh, upd]
    · rename_i h1 h2 h3
      cases hw : σ.wait <;> simp_all [WaitK.needsNotify]
  · left; simp [St.goto, St.setTh, upd]

/-- Core (`NotReady` parks the task): when the last attempt of `start_send` — the one made while holding the
senders' list lock — ends `Full`, the task is put on the senders' list in the same step and `NotReady` is returned;
a task is never told `NotReady` without being registered for a wake-up. -/
theorem C15_core_notready_registers (σ : St) (t cnt a b : Nat) (ho : (σ.th t).outer = .startSend 2 cnt)
    (hw : σ.wait = .fut a b) :
    (sendDone σ t .full).pwaitL = σ.pwaitL ++ [t] ∧ ((sendDone σ t .full).th t).pc = .ret .notready := by
  unfold sendDone
  simp [ho, hw, St.goto, St.setTh, upd]

/-- Core: the earlier attempts (spinning, yielding) that end `Full` only lead to the next attempt — they neither
return nor park -/
theorem C15_core_full_retries_first (σ : St) (t cnt a b : Nat) (ho : (σ.th t).outer = .startSend 0 cnt)
    (hw : σ.wait = .fut a b) :
    ((sendDone σ t .full).th t).pc = .s0 ∨ ((sendDone σ t .full).th t).pc = .sy ∨ ((sendDone σ t .full).th t).pc = .spl := by
  unfold sendDone
  simp only [ho, hw, if_true]
  by_cases h1 : cnt + 1 < a
  · left; simp [h1, St.goto, St.setTh, upd]
  · by_cases h2 : 0 < b
    · right; left; simp [h1, h2, St.goto, St.setTh, upd]
    · right; right; simp [h1, h2, St.goto, St.setTh, upd]

end MQ
