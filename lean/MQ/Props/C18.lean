import MQ.Inv.Solo2
/-!
# C18 — try operations never wait for another thread

`soloRun σ t inps k`: thread `t` takes `k` steps while every other thread is frozen wherever it happens to be.
The theorems hold in **every** state `σ` — reachable or not, with the other threads at arbitrary program
points holding arbitrary claims, pins and locks — because the measure `mu` (`MQ/Inv/Solo.lean`) only looks at
`t`'s own program point and at the words `t` re-validates.
-/
namespace MQ

def returned (σ : St) (t : Nat) : Prop := ∃ r, (σ.th t).pc = .ret r

/-- is the thread inside one of the three try operations -/
def tryOuter (o : Outer) : Prop := o = .trySend ∨ o = .tryRecv ∨ o = .tryRecvView

/-- C18 (one step): an own step of a try operation that has not returned yet keeps the thread inside the
operation, strictly decreases the bound, and is not an event that can wait (no lock, condvar, sleep, yield). -/
theorem C18_own_step (σ : St) (t inp : Nat) (W : TryWF σ t) (ho : tryOuter (σ.th t).outer)
    (hr : ¬ returned σ t) :
    TryWF (stepRun σ t inp).2 t ∧ mu (stepRun σ t inp).2 t < mu σ t ∧
    (stepRun σ t inp).1.kind.blocking = false ∧ tryOuter ((stepRun σ t inp).2.th t).outer := by
  have hr' : ∀ r, (σ.th t).pc ≠ .ret r := fun r e => hr ⟨r, e⟩
  rcases ho with ho | ho | ho
  · obtain ⟨a, b, c, d, _⟩ := solo_send σ t inp W ho hr'
    exact ⟨a, b, c, by rw [d]; exact Or.inl ho⟩
  · obtain ⟨a, b, c, d, _⟩ := solo_recv σ t inp W (Or.inl ho) hr'
    exact ⟨a, b, c, by rw [d]; exact Or.inr (Or.inl ho)⟩
  · obtain ⟨a, b, c, d, _⟩ := solo_recv σ t inp W (Or.inr ho) hr'
    exact ⟨a, b, c, by rw [d]; exact Or.inr (Or.inr ho)⟩

/-- C18 (termination, any frozen context): running alone from any state inside a try operation, the thread
returns after at most `mu σ t` own steps, whatever the inputs. -/
theorem C18_solo_returns (σ : St) (t : Nat) (inps : Nat → Nat) (W : TryWF σ t) (ho : tryOuter (σ.th t).outer) :
    ∃ k, k ≤ mu σ t ∧ returned (soloRun σ t inps k) t := by
  -- strong statement for the induction: after k steps either returned earlier or the measure dropped by k
  have key : ∀ k, (∃ j, j ≤ k ∧ j ≤ mu σ t ∧ returned (soloRun σ t inps j) t) ∨
      (TryWF (soloRun σ t inps k) t ∧ tryOuter ((soloRun σ t inps k).th t).outer ∧
        mu (soloRun σ t inps k) t + k ≤ mu σ t) := by
    intro k
    induction k with
    | zero => exact Or.inr ⟨W, ho, by simp [soloRun]⟩
    | succ k ih =>
      rcases ih with ⟨j, hj, hj2, hret⟩ | ⟨W', ho', hm⟩
      · exact Or.inl ⟨j, by omega, hj2, hret⟩
      · by_cases hr : returned (soloRun σ t inps k) t
        · exact Or.inl ⟨k, by omega, by omega, hr⟩
        · obtain ⟨a, b, _, d⟩ := C18_own_step _ t (inps k) W' ho' hr
          exact Or.inr ⟨a, d, by simp only [soloRun]; omega⟩
  rcases key (mu σ t + 1) with ⟨j, _, hj2, hret⟩ | ⟨_, _, hm⟩
  · exact ⟨j, hj2, hret⟩
  · omega

/-- C18 (the bound): the number of own steps is linear in the number of streams the writer has to scan; it
does not depend on the capacity, on the number of threads, or on anything another thread does. -/
theorem C18_bound (σ : St) (t : Nat) :
    mu σ t ≤ 3 * max 1 (σ.groups σ.cur).length + 40 + (σ.groups (σ.th t).pc.scanned).length :=
  mu_le σ t

/-- C18 (no waiting event): every event of a solo run of a try operation is a plain atomic access or a value
operation — never a lock, a condvar wait, a sleep or a yield. -/
theorem C18_no_waiting_event (σ : St) (t : Nat) (inps : Nat → Nat) (W : TryWF σ t) (ho : tryOuter (σ.th t).outer)
    (k : Nat) (hk : ∀ j, j ≤ k → ¬ returned (soloRun σ t inps j) t) :
    (stepRun (soloRun σ t inps k) t (inps k)).1.kind.blocking = false := by
  have key : ∀ j, j ≤ k → TryWF (soloRun σ t inps j) t ∧ tryOuter ((soloRun σ t inps j).th t).outer := by
    intro j
    induction j with
    | zero => intro _; exact ⟨W, ho⟩
    | succ j ih =>
      intro hj
      obtain ⟨W', ho'⟩ := ih (by omega)
      obtain ⟨a, _, _, d⟩ := C18_own_step _ t (inps j) W' ho' (hk j (by omega))
      exact ⟨a, d⟩
  obtain ⟨W', ho'⟩ := key k (Nat.le_refl k)
  exact (C18_own_step _ t (inps k) W' ho' (hk k (Nat.le_refl k))).2.2.1

/-- C18 (entry): a call of a try operation on a live, unused, non-futures handle of a queue whose wait strategy
needs no notification puts the thread into `TryWF` — from any state, so the three theorems above apply to
"every reachable state with all other threads frozen, one thread runs a single try operation". -/
theorem C18_call_enters (σ : St) (t g v ng ns : Nat) (o : Outer) (ho : tryOuter o)
    (hc : callOk σ t o g ng ns = true) (hw : σ.wait.needsNotify = false) (hf : (σ.hs g).fut = false) :
    TryWF (step σ (.call t o g v ng ns)) t ∧ tryOuter ((step σ (.call t o g v ng ns)).th t).outer := by
  simp only [step, hc, if_true]
  rcases ho with ho | ho | ho <;> subst ho
  all_goals
    refine ⟨⟨?_, ?_, ?_⟩, ?_⟩ <;>
    simp [callEntry, callPrep, needStream, St.goto, St.setTh, St.setHd, upd, tryPC, tryOuter, hw, hf]

/-- non-vacuity: the initial state of a busy-wait broadcast queue, thread 0 calling `try_send` on handle 0 -/
example : callOk (init 2 true .busy false) 0 .trySend 0 0 0 = true ∧ (init 2 true .busy false).wait.needsNotify = false
    ∧ ((init 2 true .busy false).hs 0).fut = false := by
  simp [callOk, init, kindOk, needStream, upd, WaitK.needsNotify]

end MQ
