import MQ.Inv.RingMain
/-!
# C04 — consumers only ever observe complete, live values
`cont i` is the value a slot holds (changed only by the value-write step of the thread that claimed a
position of that slot). A thread at `vw`/`vd` is inside the view closure, at `rc` inside `Clone`.
-/
namespace MQ

/-- C04 (view closures, sole consumer — partial: F1/F12 excluded): in every reachable state, while a thread is
inside its view closure on position `p`, the slot holds exactly the value logged at `p`, under its own tag,
and the stream is still at `p` — so no writer can have passed the full-test for that slot. -/
theorem C04_view_stable_partial (N : Nat) (bcast : Bool) (wait : WaitK) (fut : Bool) (hN : 0 < N)
    (ls : List Label) (σ : St) (r : GoodRun (init N bcast wait fut) ls σ) (t p : Nat) (c : Option Nat)
    (hpc : (σ.th t).pc = .vw p c ∨ (σ.th t).pc = .vd p c) (hreg : (σ.th t).s ∈ σ.groups σ.cur) :
    σ.cont (p % σ.N) = c ∧ c = σ.log[p]? ∧ σ.tag (p % σ.N) = some p ∧ σ.pos (σ.th t).s = p := by
  have I := rinv_goodRun r (rinv_init N bcast wait fut hN)
  have L := I.loc t
  have key : σ.pos (σ.th t).s = p ∧ p < σ.head ∧ σ.tag (p % σ.N) = some p ∧ c = σ.log[p]? := by
    rcases hpc with h | h
    · unfold Loc at L; rw [h] at L; exact L
    · unfold Loc at L; rw [h] at L; exact L
  obtain ⟨k1, k2, k3, k4⟩ := key
  have hs : sawTag σ.ring (σ.th t).s p := ⟨k2, fun _ => k3⟩
  have := cont_of_sawTag I hreg hs (by omega)
  exact ⟨by rw [this, k4], k4, k3, k1⟩

/-- C04 (clone on a shared stream — the value that is returned): whenever a consumer is about to commit
position `p` with the value `c` it read, and the stream is still at `p`, then `c` is the logged value. A read
that overlapped an overwrite can therefore never be returned: its commit fails. -/
theorem C04_returned_value_is_logged_partial (N : Nat) (bcast : Bool) (wait : WaitK) (fut : Bool) (hN : 0 < N)
    (ls : List Label) (σ : St) (r : GoodRun (init N bcast wait fut) ls σ) (t p : Nat) (sg : Bool) (c : Option Nat)
    (hpc : (σ.th t).pc = .r9 p sg c) (hpos : σ.pos (σ.th t).s = p) : c = σ.log[p]? := by
  have I := rinv_goodRun r (rinv_init N bcast wait fut hN)
  have L := I.loc t
  simp only [Loc, hpc] at L
  exact L.2.2 (by show σ.pos (σ.th t).s ≤ p; omega)

/-- C04 (writers): the only step that changes a slot's content is the value write of the thread holding the
claim on a position of that slot, and that position is not consumed by any registered stream yet. -/
theorem C04_write_needs_claim_partial (N : Nat) (bcast : Bool) (wait : WaitK) (fut : Bool) (hN : 0 < N)
    (ls : List Label) (σ : St) (r : GoodRun (init N bcast wait fut) ls σ) (t h : Nat) (o : Bool)
    (hpc : (σ.th t).pc = .wr h o) :
    h < σ.head ∧ σ.head ≤ h + σ.N ∧ (∀ s, s ∈ σ.groups σ.cur → σ.pos s ≤ h) ∧ σ.tag (h % σ.N) ≠ some h := by
  have I := rinv_goodRun r (rinv_init N bcast wait fut hN)
  obtain ⟨a, b, c, d⟩ := claim_inwin I t h (by rw [hpc]; rfl)
  exact ⟨a, b, d, c⟩

end MQ
