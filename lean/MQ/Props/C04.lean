import MQ.Inv.RingMain
import MQ.Inv.PinMain
import MQ.Inv.SlotFrame
/-!
# C04 — consumers only ever observe complete, live values
`cont i` is the value a slot holds (changed only by the value-write step of the thread that claimed a
position of that slot). A thread at `vw`/`vd` is inside the view closure, at `rc` inside `Clone`.
-/
namespace MQ

/-- C04 (view closures, sole consumer — partial: F1/F12 excluded): in every reachable state, while a thread is
inside its view closure on position `p`, the slot holds exactly the value logged at `p`, under its own tag,
and the stream is still at `p` — so no writer can have passed the full-test for that slot. -/
theorem C04_view_stable_partial (N : Nat) (bcast : Bool) (wait : WaitK) (fut : Bool) (hN : 0 < N)
    (ls : List Label) (σ : St) (r : GoodRun (init N bcast wait fut) ls σ) (t p : Nat) (c : Option Nat)
    (hpc : (σ.th t).pc = .vw p c ∨ (σ.th t).pc = .vd p c) (hreg : (σ.th t).s ∈ σ.groups σ.cur) :
    σ.cont (p % σ.N) = c ∧ c = σ.log[p]? ∧ σ.tag (p % σ.N) = some p ∧ σ.pos (σ.th t).s = p := by
  have I := rinv_goodRun r (rinv_init N bcast wait fut hN)
  have L := I.loc t
  have key : σ.pos (σ.th t).s = p ∧ p < σ.head ∧ σ.tag (p % σ.N) = some p ∧ c = σ.log[p]? := by
    rcases hpc with h | h
    · unfold Loc at L; rw [h] at L; exact L
    · unfold Loc at L; rw [h] at L; exact L
  obtain ⟨k1, k2, k3, k4⟩ := key
  have hs : sawTag σ.ring (σ.th t).s p := ⟨k2, fun _ => k3⟩
  have := cont_of_sawTag I hreg hs (by omega)
  exact ⟨by rw [this, k4], k4, k3, k1⟩

/-- C04 (clone on a shared stream — the value that is returned): whenever a consumer is about to commit
position `p` with the value `c` it read, and the stream is still at `p`, then `c` is the logged value. A read
that overlapped an overwrite can therefore never be returned: its commit fails. -/
theorem C04_returned_value_is_logged_partial (N : Nat) (bcast : Bool) (wait : WaitK) (fut : Bool) (hN : 0 < N)
    (ls : List Label) (σ : St) (r : GoodRun (init N bcast wait fut) ls σ) (t p : Nat) (sg : Bool) (c : Option Nat)
    (hpc : (σ.th t).pc = .r9 p sg c) (hpos : σ.pos (σ.th t).s = p) : c = σ.log[p]? := by
  have I := rinv_goodRun r (rinv_init N bcast wait fut hN)
  have L := I.loc t
  simp only [Loc, hpc] at L
  exact L.2.2 (by show σ.pos (σ.th t).s ≤ p; omega)

/-- C04 (writers): the only step that changes a slot's content is the value write of the thread holding the
claim on a position of that slot, and that position is not consumed by any registered stream yet. -/
theorem C04_write_needs_claim_partial (N : Nat) (bcast : Bool) (wait : WaitK) (fut : Bool) (hN : 0 < N)
    (ls : List Label) (σ : St) (r : GoodRun (init N bcast wait fut) ls σ) (t h : Nat) (o : Bool)
    (hpc : (σ.th t).pc = .wr h o) :
    h < σ.head ∧ σ.head ≤ h + σ.N ∧ (∀ s, s ∈ σ.groups σ.cur → σ.pos s ≤ h) ∧ σ.tag (h % σ.N) ≠ some h := by
  have I := rinv_goodRun r (rinv_init N bcast wait fut hN)
  obtain ⟨a, b, c, d⟩ := claim_inwin I t h (by rw [hpc]; rfl)
  exact ⟨a, b, d, c⟩

/-! ### the pin protocol of shared broadcast streams (`PinInv`, `MQ/Inv/Pin*.lean`)

Executions: `NRun` — every label of every thread, any number of threads, handles and streams, with only the
exclusions of the two open findings (F1, F12) and without the two futures handle conversions. Broadcast queues
(`bcast = true`; a move-out queue has no clone and no pin). These theorems are about the code *after* the repair of
F16: with the old order of the two loads in `try_recv` the statement is false, and the attempt to prove it is what
exhibited the failing schedule. -/

/-- C04 (no torn read): the ghost flag `torn` — set by the model when the slot a consumer is cloning (or viewing)
differs from what it read — is never set. -/
theorem C04_no_torn_read_partial (N : Nat) (wait : WaitK) (fut : Bool) (hN : 0 < N) (ls : List Label) (σ : St)
    (r : NRun (init N true wait fut) ls σ) : σ.torn = false :=
  (pall_nrun r rfl (pall_init N wait fut hN)).1.p.torn

/-- C04 (clone sees what was read): whenever a consumer is about to clone position `p` (program point `rc`), the
slot still holds exactly the value it read — whether it holds a pin (shared stream) or is the stream's only
consumer (no pin). -/
theorem C04_clone_reads_stable_value_partial (N : Nat) (wait : WaitK) (fut : Bool) (hN : 0 < N) (ls : List Label) (σ : St)
    (r : NRun (init N true wait fut) ls σ) (t p : Nat) (sg : Bool) (c : Option Nat)
    (hpc : (σ.th t).pc = .rc p sg c) : σ.cont (p % σ.N) = c :=
  (pall_nrun r rfl (pall_init N wait fut hN)).1.p.stable t p sg c hpc

/-- C04 (pin count): the pin counter of every slot equals the number of consumers that are inside a pinned
section on that slot — it never under- or overflows, and a producer that reads zero really is alone. -/
theorem C04_pin_count_exact_partial (N : Nat) (wait : WaitK) (fut : Bool) (hN : 0 < N) (ls : List Label) (σ : St)
    (r : NRun (init N true wait fut) ls σ) (j : Nat) :
    ∃ l : List Nat, l.Nodup ∧ (∀ t, t ∈ l ↔ pinned σ t j) ∧ σ.ref j = l.length :=
  (pall_nrun r rfl (pall_init N wait fut hN)).1.p.cnt j

/-- C04 (writer / reader exclusion): a producer that has passed the pin check for position `h` and can still
claim it (or has claimed it and not yet published) and a consumer inside a validated pinned read of position `p`
are never on the same slot. -/
theorem C04_writer_reader_exclusion_partial (N : Nat) (wait : WaitK) (fut : Bool) (hN : 0 < N) (ls : List Label) (σ : St)
    (r : NRun (init N true wait fut) ls σ) (w t h p : Nat)
    (hw : (σ.th w).pc.wPos = some h) (hl : (σ.th w).pc.isHd = true → σ.head = h)
    (hr : (σ.th t).pc.rdPos = some p) : h % σ.N ≠ p % σ.N :=
  fun e => (pall_nrun r rfl (pall_init N wait fut hN)).1.p.excl w t h p hw hl hr e

/-- C04 (the unpinned read is safe): a consumer that skipped the pin because it was its stream's only consumer
works on the stream's current position. -/
theorem C04_unpinned_reader_is_current_partial (N : Nat) (wait : WaitK) (fut : Bool) (hN : 0 < N) (ls : List Label) (σ : St)
    (r : NRun (init N true wait fut) ls σ) (t p : Nat) (h : (σ.th t).pc.sgPos = some p) : σ.pos (σ.th t).s = p :=
  (pall_nrun r rfl (pall_init N wait fut hN)).1.p.sgp t p h

/-- the premises are satisfiable: the empty execution, and a first step -/
example : NRun (init 4 true .busy false) [.call 0 .tryRecv 1 0 0 0] (step (init 4 true .busy false) (.call 0 .tryRecv 1 0 0 0)) :=
  .cons rfl (.nil _)

/-- C04 (structural — every state, every interleaving, no exclusion): no step of a consumer, of a handle operation, of
the memory manager or of the teardown writes a slot. A slot's content changes at exactly one program point — `wr`, the
value write of a thread that went through the claim — and only in the slot `h % N` of the claimed position; a slot's
tag changes at exactly one program point — `ts`, the publication that follows that write — and only for that slot,
to the claimed position. So whatever a consumer reads from a slot was put there, whole, by one writer's `wr` step
(the model's value write is one step: `ptr::write` of a `T` is not observable half-done by a reader that the pin
/ sole-consumer protocol keeps out — `C04_writer_reader_exclusion_partial`). -/
theorem C04_slots_written_only_by_claiming_writer (σ : St) (t inp : Nat) :
    ((stepRun σ t inp).2.cont = σ.cont ∨
      ∃ h old, (σ.th t).pc = .wr h old ∧ (stepRun σ t inp).2.cont = upd σ.cont (h % σ.N) (some (σ.th t).v)) ∧
    ((stepRun σ t inp).2.tag = σ.tag ∨
      ∃ h old, (σ.th t).pc = .ts h old ∧ (stepRun σ t inp).2.tag = upd σ.tag (h % σ.N) (some h)) :=
  ⟨cont_written_only_at_wr σ t inp, tag_written_only_at_ts σ t inp⟩

/-- … in particular a thread that is not at the value write leaves every slot's content alone -/
theorem C04_no_write_outside_wr (σ : St) (t inp : Nat) (h : ∀ p old, (σ.th t).pc ≠ .wr p old) :
    (stepRun σ t inp).2.cont = σ.cont := by
  rcases cont_written_only_at_wr σ t inp with e | ⟨p, old, hp, _⟩
  · exact e
  · exact absurd hp (h p old)

end MQ
