import MQ.Inv.DropFrame
import MQ.Inv.RingMain
import MQ.Inv.Solo
/-!
# C05 — every payload the queue owns is destroyed exactly once

The model records every payload the *queue* drops in the ghost list `drops` (the value that sat in the slot).
A payload the queue took (`log`) leaves it in exactly one of these ways:
* move-out queue: a consumer moves it out (`dlv`, one stream — F5 excluded) or drops it in place after a view;
* clone-out queue: the writer that overwrites the slot drops the old value;
* whatever is still in the ring when the last handle goes is dropped by the destructor.
Refused values never enter `log` (`C01_log_grows_only_at_claim`).

Proved here for every state / every execution of `Core`:
the only four program points that drop; an overwritten value has been consumed by every registered stream;
the two destructor loops drop each slot / each unconsumed position exactly once and nothing else.
Open findings F5 (two streams on a move-out queue) and F12 (sends in flight while the last stream is removed)
are outside `GoodRun`; the destructor theorems are about the destructor's own loop (a thread that runs it is
the last owner of the queue, so it runs alone).
-/
namespace MQ

/-- C05 (drop sites): a step changes the list of values dropped by the queue only at the four drop sites —
overwrite (`od`), in-place drop after a view (`vd`), and the two destructor loops (`tdbd`, `tmd`) — and there it
appends exactly one value. -/
theorem C05_drop_sites (σ : St) (t inp : Nat) :
    (stepRun σ t inp).2.drops = σ.drops ∨
    ((σ.th t).pc.dropSite = true ∧ ∃ v, (stepRun σ t inp).2.drops = σ.drops ++ [v]) := by
  cases h : (σ.th t).pc.dropSite
  · exact Or.inl (stepRun_drops_same σ t inp h)
  · right
    refine ⟨rfl, ?_⟩
    cases hpc : (σ.th t).pc <;> rw [hpc] at h <;> (try (simp [PC.dropSite] at h; done))
    case od hh => exact ⟨(σ.th t).aux - 1, by simp only [stepRun, hpc]; simp [St.flush, St.setTh]⟩
    case vd p c => exact ⟨c.getD 0, by simp only [stepRun, hpc]; simp [St.flush, St.setTh, St.goto]⟩
    case tdbd i =>
      refine ⟨(σ.cont i).getD 0, ?_⟩
      simp only [stepRun, hpc]; split <;> simp [St.flush, St.setTh, St.goto]
    case tmd c => exact ⟨(σ.cont (c % σ.N)).getD 0, by simp only [stepRun, hpc]; simp [St.flush, St.setTh, St.goto]⟩

/-- C05 (an overwritten value is dead — partial: F1/F12 excluded): when a writer is about to overwrite a slot
that holds the value of an earlier position `q`, every registered stream has already consumed `q`. So the
value the writer drops afterwards cannot be reached by any consumer any more. -/
theorem C05_overwritten_value_was_consumed_partial (N : Nat) (bcast : Bool) (wait : WaitK) (fut : Bool) (hN : 0 < N)
    (ls : List Label) (σ : St) (r : GoodRun (init N bcast wait fut) ls σ) (t h q : Nat) (o : Bool)
    (hpc : (σ.th t).pc = .wr h o) (hq : σ.tag (h % σ.N) = some q) :
    q + σ.N ≤ h ∧ ∀ s, s ∈ σ.groups σ.cur → q < σ.pos s := by
  have I := rinv_goodRun r (rinv_init N bcast wait fut hN)
  have L := I.loc t
  simp only [Loc, hpc] at L
  obtain ⟨L1, L2, L3, L4⟩ := L
  have G := I.g
  obtain ⟨w1, w2⟩ := G.tagwf _ _ hq
  have hN' := G.hN
  have hne : q ≠ h := by intro e; rw [e] at hq; exact L3 hq
  simp only [St.ring] at *
  -- q ≡ h (mod N), q < head ≤ h + N, q ≠ h  ⇒  q + N ≤ h
  have hhead : σ.head ≤ h + σ.N := by
    obtain ⟨s0, hs0⟩ := List.exists_mem_of_ne_nil _ G.regne
    have := G.win s0 hs0; have := L2 s0 hs0; simp only [St.ring] at *; omega
  have key : q + σ.N ≤ h := by
    rcases Nat.lt_or_ge q h with hlt | hge
    · -- q < h and q ≡ h: the distance is a positive multiple of N
      have hm : (h - q) % σ.N = 0 := Nat.sub_mod_eq_zero_of_mod_eq (by rw [w2])
      have hd := Nat.dvd_of_mod_eq_zero hm
      have := Nat.le_of_dvd (by omega) hd
      omega
    · exfalso
      have hgt : h < q := by omega
      have hm : (q - h) % σ.N = 0 := Nat.sub_mod_eq_zero_of_mod_eq (by rw [w2])
      have hd := Nat.dvd_of_mod_eq_zero hm
      have := Nat.le_of_dvd (by omega) hd
      omega
  refine ⟨key, ?_⟩
  intro s hs
  have := G.win s hs
  simp only [St.ring] at this
  omega

/-! ### the destructor loops -/

/-- values the clone-out destructor drops from slot `i` on: the content of every slot that was ever written -/
def writtenFrom (σ : St) : Nat → Nat → List Nat
  | _, 0 => []
  | i, n + 1 => (if (σ.tag i).isSome then [(σ.cont i).getD 0] else []) ++ writtenFrom σ (i + 1) n

/-- number of own steps the clone-out destructor needs from slot `i` with `n` slots left -/
def tdbSteps (σ : St) : Nat → Nat → Nat
  | _, 0 => 0
  | i, n + 1 => (if (σ.tag i).isSome then 2 else 1) + tdbSteps σ (i + 1) n

theorem soloRun_add (σ : St) (t : Nat) (inps : Nat → Nat) (a b : Nat) :
    soloRun σ t inps (a + b) = soloRun (soloRun σ t inps a) t (fun j => inps (a + j)) b := by
  induction b with
  | zero => rfl
  | succ b ih =>
    have : a + (b + 1) = (a + b) + 1 := rfl
    rw [this]; simp only [soloRun]; rw [ih]

/-- what the loop needs to stay the same while it runs -/
structure SameRing (σ σ' : St) : Prop where
  tag : σ'.tag = σ.tag
  cont : σ'.cont = σ.cont
  N : σ'.N = σ.N
  head : σ'.head = σ.head

theorem writtenFrom_congr {σ σ' : St} (h : SameRing σ σ') (i n : Nat) : writtenFrom σ' i n = writtenFrom σ i n := by
  induction n generalizing i with
  | zero => rfl
  | succ n ih => simp only [writtenFrom, h.tag, h.cont, ih]

theorem tdbSteps_congr {σ σ' : St} (h : SameRing σ σ') (i n : Nat) : tdbSteps σ' i n = tdbSteps σ i n := by
  induction n generalizing i with
  | zero => rfl
  | succ n ih => simp only [tdbSteps, h.tag, ih]

/-- C05 (clone-out destructor): running alone from slot `i` (as the last owner does), the destructor reaches the
cursor's destructor after visiting each of the remaining slots once; it drops exactly the contents of the
slots that were ever written, in slot order, each once, and never touches an unwritten slot. -/
theorem C05_teardown_bcast_loop (n : Nat) : ∀ (σ : St) (t i : Nat) (inps : Nat → Nat),
    (σ.th t).pc = .tdb i → i + (n + 1) = σ.N →
    let σ' := soloRun σ t inps (tdbSteps σ i (n + 1))
    (σ'.th t).pc = .tdr ∧ σ'.drops = σ.drops ++ writtenFrom σ i (n + 1) ∧ SameRing σ σ' := by
  induction n with
  | zero =>
    intro σ t i inps hpc hN
    simp only [tdbSteps, writtenFrom, Nat.add_zero, List.append_nil]
    cases htag : (σ.tag i).isSome
    · simp only [Bool.false_eq_true, if_false, soloRun, stepRun, hpc, htag]
      have : ¬ (i + 1 < σ.N) := by omega
      simp [this, St.goto, St.flush, St.setTh, upd]
      exact ⟨rfl, rfl, rfl, rfl⟩
    · simp only [if_true, soloRun, stepRun, hpc, htag]
      have : ¬ (i + 1 < σ.N) := by omega
      simp [this, St.goto, St.flush, St.setTh, upd, stepRun]
      exact ⟨rfl, rfl, rfl, rfl⟩
  | succ n ih =>
    intro σ t i inps hpc hN
    have hlt : i + 1 < σ.N := by omega
    cases htag : (σ.tag i).isSome
    · -- unwritten slot: one step, nothing dropped
      let σ1 := (stepRun σ t (inps 0)).2
      have h1pc : (σ1.th t).pc = .tdb (i + 1) := by
        simp only [σ1, stepRun, hpc, htag]; simp [hlt, St.goto, St.flush, St.setTh, upd]
      have h1d : σ1.drops = σ.drops := by
        simp only [σ1, stepRun, hpc, htag]; simp [hlt, St.goto, St.flush, St.setTh]
      have h1s : SameRing σ σ1 := by
        simp only [σ1, stepRun, hpc, htag]; simp only [Bool.false_eq_true, if_false, hlt, if_true]
        exact ⟨rfl, rfl, rfl, rfl⟩
      have hrec := ih σ1 t (i + 1) (fun j => inps (1 + j)) h1pc (by rw [h1s.N]; omega)
      have hsteps : tdbSteps σ i (n + 1 + 1) = 1 + tdbSteps σ1 (i + 1) (n + 1) := by
        rw [tdbSteps_congr h1s]; simp [tdbSteps, htag]
      have hw : writtenFrom σ i (n + 1 + 1) = writtenFrom σ1 (i + 1) (n + 1) := by
        rw [writtenFrom_congr h1s]; simp [writtenFrom, htag]
      simp only [hsteps, soloRun_add, hw]
      have e1 : soloRun σ t inps 1 = σ1 := rfl
      rw [e1]
      obtain ⟨r1, r2, r3⟩ := hrec
      exact ⟨r1, by rw [r2, h1d], ⟨by rw [r3.tag, h1s.tag], by rw [r3.cont, h1s.cont], by rw [r3.N, h1s.N], by rw [r3.head, h1s.head]⟩⟩
    · -- written slot: load the tag, drop the content
      let σ1 := (stepRun σ t (inps 0)).2
      have h1pc : (σ1.th t).pc = .tdbd i := by
        simp only [σ1, stepRun, hpc, htag]; simp [St.goto, St.flush, St.setTh, upd]
      have h1d : σ1.drops = σ.drops := by
        simp only [σ1, stepRun, hpc, htag]; simp [St.goto, St.flush, St.setTh]
      have h1s : SameRing σ σ1 := by
        simp only [σ1, stepRun, hpc, htag]; simp only [if_true]
        exact ⟨rfl, rfl, rfl, rfl⟩
      let σ2 := (stepRun σ1 t (inps 1)).2
      have hlt1 : i + 1 < σ1.N := by rw [h1s.N]; exact hlt
      have h2pc : (σ2.th t).pc = .tdb (i + 1) := by
        simp only [σ2, stepRun, h1pc]; simp [hlt1, St.goto, St.flush, St.setTh, upd]
      have h2d : σ2.drops = σ.drops ++ [(σ.cont i).getD 0] := by
        simp only [σ2, stepRun, h1pc]; simp [hlt1, St.goto, St.flush, St.setTh, h1d, h1s.cont]
      have h2s : SameRing σ σ2 := by
        have : SameRing σ1 σ2 := by
          simp only [σ2, stepRun, h1pc]; simp only [hlt1, if_true]
          exact ⟨rfl, rfl, rfl, rfl⟩
        exact ⟨by rw [this.tag, h1s.tag], by rw [this.cont, h1s.cont], by rw [this.N, h1s.N], by rw [this.head, h1s.head]⟩
      have hrec := ih σ2 t (i + 1) (fun j => inps (2 + j)) h2pc (by rw [h2s.N]; omega)
      have hsteps : tdbSteps σ i (n + 1 + 1) = 2 + tdbSteps σ2 (i + 1) (n + 1) := by
        rw [tdbSteps_congr h2s]; simp [tdbSteps, htag]
      have hw : writtenFrom σ i (n + 1 + 1) = [(σ.cont i).getD 0] ++ writtenFrom σ2 (i + 1) (n + 1) := by
        rw [writtenFrom_congr h2s]; simp [writtenFrom, htag]
      simp only [hsteps, soloRun_add, hw]
      have e2 : soloRun σ t inps 2 = σ2 := rfl
      rw [e2]
      obtain ⟨r1, r2, r3⟩ := hrec
      exact ⟨r1, by rw [r2, h2d, List.append_assoc], ⟨by rw [r3.tag, h2s.tag], by rw [r3.cont, h2s.cont], by rw [r3.N, h2s.N], by rw [r3.head, h2s.head]⟩⟩

/-- values the move-out destructor drops: the contents of positions `c, c+1, …` -/
def rangeFrom (σ : St) : Nat → Nat → List Nat
  | _, 0 => []
  | c, n + 1 => (σ.cont (c % σ.N)).getD 0 :: rangeFrom σ (c + 1) n

theorem rangeFrom_congr {σ σ' : St} (h : SameRing σ σ') (c n : Nat) : rangeFrom σ' c n = rangeFrom σ c n := by
  induction n generalizing c with
  | zero => rfl
  | succ n ih => simp only [rangeFrom, h.cont, h.N, ih]

/-- C05 (move-out destructor): running alone from position `c ≤ head` (the position of the last stream that
left), the destructor drops exactly the contents of positions `c … head-1`, each once and in order, and
stops — consumed positions are not touched. -/
theorem C05_teardown_mpmc_loop (n : Nat) : ∀ (σ : St) (t c : Nat) (inps : Nat → Nat),
    (σ.th t).pc = .tm1 c → c + n = σ.head →
    let σ' := soloRun σ t inps (5 * n + 2)
    (σ'.th t).pc = .tdr ∧ σ'.drops = σ.drops ++ rangeFrom σ c n ∧ SameRing σ σ' := by
  induction n with
  | zero =>
    intro σ t c inps hpc hh
    have hc : c = σ.head := by omega
    simp only [Nat.mul_zero, Nat.zero_add, soloRun, rangeFrom, List.append_nil]
    have p1 : ((stepRun σ t (inps 0)).2.th t).pc = .tm2 c := by
      simp only [stepRun, hpc]; simp [St.goto, St.flush, St.setTh, upd]
    have s1 : SameRing σ (stepRun σ t (inps 0)).2 := by
      simp only [stepRun, hpc]; exact ⟨rfl, rfl, rfl, rfl⟩
    have d1 : (stepRun σ t (inps 0)).2.drops = σ.drops := by
      simp only [stepRun, hpc]; rfl
    generalize (stepRun σ t (inps 0)).2 = σ1 at p1 s1 d1
    have hc1 : c = σ1.head := by rw [s1.head]; exact hc
    refine ⟨?_, ?_, ?_⟩
    · simp only [stepRun, p1]; simp [hc1, St.goto, St.flush, St.setTh, upd]
    · simp only [stepRun, p1]; simp [hc1, St.goto, St.flush, St.setTh, d1]
    · have : SameRing σ1 (stepRun σ1 t (inps 1)).2 := by
        simp only [stepRun, p1]; simp only [hc1, if_true]; exact ⟨rfl, rfl, rfl, rfl⟩
      exact ⟨by rw [this.tag, s1.tag], by rw [this.cont, s1.cont], by rw [this.N, s1.N], by rw [this.head, s1.head]⟩
  | succ n ih =>
    intro σ t c inps hpc hh
    have hne : c ≠ σ.head := by omega
    -- five steps: tm1, tm2, tm3, tmd, tm4
    have p1 : ((soloRun σ t inps 1).th t).pc = .tm2 c ∧ SameRing σ (soloRun σ t inps 1) ∧ (soloRun σ t inps 1).drops = σ.drops := by
      simp only [soloRun, stepRun, hpc]
      exact ⟨by simp [St.goto, St.flush, St.setTh, upd], ⟨rfl, rfl, rfl, rfl⟩, rfl⟩
    generalize h1 : soloRun σ t inps 1 = σ1 at p1
    obtain ⟨q1, s1, d1⟩ := p1
    have hne1 : c ≠ σ1.head := by rw [s1.head]; exact hne
    have p2 : ((stepRun σ1 t (inps 1)).2.th t).pc = .tm3 c ∧ SameRing σ1 (stepRun σ1 t (inps 1)).2 ∧ (stepRun σ1 t (inps 1)).2.drops = σ1.drops := by
      simp only [stepRun, q1, hne1, if_false]
      exact ⟨by simp [St.goto, St.flush, St.setTh, upd], ⟨rfl, rfl, rfl, rfl⟩, rfl⟩
    generalize h2 : (stepRun σ1 t (inps 1)).2 = σ2 at p2
    obtain ⟨q2, s2, d2⟩ := p2
    have p3 : ((stepRun σ2 t (inps 2)).2.th t).pc = .tmd c ∧ SameRing σ2 (stepRun σ2 t (inps 2)).2 ∧ (stepRun σ2 t (inps 2)).2.drops = σ2.drops := by
      simp only [stepRun, q2]
      exact ⟨by simp [St.goto, St.flush, St.setTh, upd], ⟨rfl, rfl, rfl, rfl⟩, rfl⟩
    generalize h3 : (stepRun σ2 t (inps 2)).2 = σ3 at p3
    obtain ⟨q3, s3, d3⟩ := p3
    have p4 : ((stepRun σ3 t (inps 3)).2.th t).pc = .tm4 c ∧ SameRing σ3 (stepRun σ3 t (inps 3)).2 ∧
        (stepRun σ3 t (inps 3)).2.drops = σ3.drops ++ [(σ3.cont (c % σ3.N)).getD 0] := by
      simp only [stepRun, q3]
      exact ⟨by simp [St.goto, St.flush, St.setTh, upd], ⟨rfl, rfl, rfl, rfl⟩, rfl⟩
    generalize h4 : (stepRun σ3 t (inps 3)).2 = σ4 at p4
    obtain ⟨q4, s4, d4⟩ := p4
    have p5 : ((stepRun σ4 t (inps 4)).2.th t).pc = .tm1 (c + 1) ∧ SameRing σ4 (stepRun σ4 t (inps 4)).2 ∧ (stepRun σ4 t (inps 4)).2.drops = σ4.drops := by
      simp only [stepRun, q4]
      exact ⟨by simp [St.goto, St.flush, St.setTh, upd], ⟨rfl, rfl, rfl, rfl⟩, rfl⟩
    generalize h5 : (stepRun σ4 t (inps 4)).2 = σ5 at p5
    obtain ⟨q5, s5, d5⟩ := p5
    have s05 : SameRing σ σ5 :=
      ⟨by rw [s5.tag, s4.tag, s3.tag, s2.tag, s1.tag], by rw [s5.cont, s4.cont, s3.cont, s2.cont, s1.cont],
       by rw [s5.N, s4.N, s3.N, s2.N, s1.N], by rw [s5.head, s4.head, s3.head, s2.head, s1.head]⟩
    have e5 : soloRun σ t inps 5 = σ5 := by
      simp only [soloRun] at h1 ⊢
      rw [h1, h2, h3, h4, h5]
    have hsteps : 5 * (n + 1) + 2 = 5 + (5 * n + 2) := by omega
    have hrec := ih σ5 t (c + 1) (fun j => inps (5 + j)) q5 (by rw [s05.head]; omega)
    rw [hsteps, soloRun_add, e5]
    obtain ⟨r1, r2, r3⟩ := hrec
    refine ⟨r1, ?_, ⟨by rw [r3.tag, s05.tag], by rw [r3.cont, s05.cont], by rw [r3.N, s05.N], by rw [r3.head, s05.head]⟩⟩
    rw [r2, d5, d4, d3, d2, d1, rangeFrom_congr s05]
    simp only [rangeFrom, List.append_assoc, List.singleton_append]
    rw [s3.cont, s2.cont, s1.cont, s3.N, s2.N, s1.N]

/-- non-vacuity of the clone-out loop theorem: a two-slot queue with one written slot -/
example : writtenFrom { (init 2 true .busy false) with tag := upd (fun _ => none) 0 (some 0), cont := upd (fun _ => none) 0 (some 7) } 0 2 = [7] := by
  simp [writtenFrom, upd]

end MQ
