import MQ.Inv.RingMain
import MQ.Inv.ModeDefs
/-!
# C12 — handles may be cloned and dropped during traffic without visible effect
-/
namespace MQ

/-- C12 (mode switches are safe): whenever the handle accounting invariant `MInv` holds — `writers` counts
exactly the counted sender handles, `num_consumers` the counted receiver handles of a stream, a counted
handle in Uni/Single mode (or a view handle) is the only counted one, two threads never use the same handle —
a thread on the single-writer path is the only thread that can touch `head`/`tail_cache`, and a consumer that
commits with a plain store is the only active consumer of its stream. These are exactly the hypotheses
(`ModeOK`) under which the ring invariant is preserved. -/
theorem C12_single_paths_exclusive {σ : St} (M : MInv σ) : ModeOK σ := modeOK_of_minv M

/-- C12 (clone / drop / convert steps are ordinary steps): the ring invariant — exactly-once, order, window —
is preserved by *every* label of the model, including the call, return and `Arc`-release steps of clone,
drop, unsubscribe, into_single and into_multi and every micro-step of those programs (`cs1`, `ds1`, `cr1`,
`dr1`, `rr*`, `a*`, `isg`); no extra hypothesis is needed for them beyond `StepOK`. -/
theorem C12_every_step_preserves_partial {σ : St} (l : Label) (I : RInv σ) (h : StepOK σ l) : RInv (step σ l) :=
  rinv_step l I h

/-- the steps that only move handle counters never change a ring word: sender clone / drop -/
theorem C12_sender_clone_drop_frame (σ : St) (t inp : Nat) (h : (σ.th t).pc = .cs1 ∨ (σ.th t).pc = .ds1) :
    (stepRun σ t inp).2.ring = σ.ring := by
  rcases h with h | h <;> exact stepRun_ring_same σ t inp (by rw [h]; rfl)

/-- … and receiver clone / the decrement of a drop -/
theorem C12_receiver_clone_drop_frame (σ : St) (t inp : Nat) (h : (σ.th t).pc = .cr1 ∨ (σ.th t).pc = .dr1) :
    (stepRun σ t inp).2.ring = σ.ring := by
  rcases h with h | h <;> exact stepRun_ring_same σ t inp (by rw [h]; rfl)

end MQ
