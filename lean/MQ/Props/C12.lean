import MQ.Inv.ModeMain
import MQ.Props.C01
/-!
# C12 — handles may be cloned and dropped during traffic without visible effect
-/
namespace MQ

/-- C12 (mode switches are safe): whenever the handle accounting invariant `MInv` holds — `writers` counts
exactly the counted sender handles, `num_consumers` the counted receiver handles of a stream, a counted
handle in Uni/Single mode (or a view handle) is the only counted one, two threads never use the same handle —
a thread on the single-writer path is the only thread that can touch `head`/`tail_cache`, and a consumer that
commits with a plain store is the only active consumer of its stream. These are exactly the hypotheses
(`ModeOK`) under which the ring invariant is preserved. -/
theorem C12_single_paths_exclusive {σ : St} (M : MInv σ) : ModeOK σ := modeOK_of_minv M

/-- C12 (clone / drop / convert steps are ordinary steps): the ring invariant — exactly-once, order, window —
is preserved by *every* label of the model, including the call, return and `Arc`-release steps of clone,
drop, unsubscribe, into_single and into_multi and every micro-step of those programs (`cs1`, `ds1`, `cr1`,
`dr1`, `rr*`, `a*`, `isg`); no extra hypothesis is needed for them beyond `StepOK`. -/
theorem C12_every_step_preserves_partial {σ : St} (l : Label) (I : RInv σ) (h : StepOK σ l) : RInv (step σ l) :=
  rinv_step l I h

/-- the steps that only move handle counters never change a ring word: sender clone / drop -/
theorem C12_sender_clone_drop_frame (σ : St) (t inp : Nat) (h : (σ.th t).pc = .cs1 ∨ (σ.th t).pc = .ds1) :
    (stepRun σ t inp).2.ring = σ.ring := by
  rcases h with h | h <;> exact stepRun_ring_same σ t inp (by rw [h]; rfl)

/-- … and receiver clone / the decrement of a drop -/
theorem C12_receiver_clone_drop_frame (σ : St) (t inp : Nat) (h : (σ.th t).pc = .cr1 ∨ (σ.th t).pc = .dr1) :
    (stepRun σ t inp).2.ring = σ.ring := by
  rcases h with h | h <;> exact stepRun_ring_same σ t inp (by rw [h]; rfl)

/-! ### the handle accounting is an invariant — `ModeOK` is a theorem

Scope (`Label.noConv`): executions that never call `into_single` / `into_multi` of the *futures* receivers (these
two calls re-wire an existing handle to another stream inside one call; the accounting of that hand-over is not
covered). Everything else is covered: clone and drop of senders and receivers, `add_stream`, `unsubscribe`,
`into_single` / `into_multi` of the plain receivers, all send / receive / view / wait / notify programs, the
manager's sub-programs, teardown. -/

/-- C12 (accounting): in every state of every such execution `writers` is the number of counted sender handles,
`num_consumers` of a stream the number of its counted receiver handles, a counted Uni/Single/view handle is the
only counted one, live idle handles are counted, no two threads use — or create — the same handle. -/
theorem C12_handle_accounting_partial (N : Nat) (bcast : Bool) (wait : WaitK) (fut : Bool) (ls : List Label)
    (h : ∀ l ∈ ls, l.noConv) : MInv (runFrom (init N bcast wait fut) ls) :=
  (minv_run _ ls h (minv_init N bcast wait fut) (reginv_init N bcast wait fut)).1

/-- C12: hence the fast paths are exclusive in every such execution — no hypothesis left. -/
theorem C12_single_paths_exclusive_all_runs_partial (N : Nat) (bcast : Bool) (wait : WaitK) (fut : Bool)
    (ls : List Label) (h : ∀ l ∈ ls, l.noConv) : ModeOK (runFrom (init N bcast wait fut) ls) :=
  modeOK_run N bcast wait fut ls h

/-- C12 (bridge): an execution whose steps satisfy only the exclusions of the two known findings (`StepOK'`: no
`add_stream` publication racing with a commit on the parent stream — F1; the stream list never becomes empty —
F12) and that does not use the two futures conversions is a `GoodRun`: every `GoodRun` theorem of C01–C07
applies to it without any assumption about modes. -/
theorem C12_goodRun_without_mode_hypothesis (N : Nat) (bcast : Bool) (wait : WaitK) (fut : Bool)
    (ls : List Label) (σ : St) (r : NRun (init N bcast wait fut) ls σ) : GoodRun (init N bcast wait fut) ls σ :=
  (goodRun_of_nrun r (minv_init N bcast wait fut) (reginv_init N bcast wait fut)).1

/-- … for instance exactly-once delivery (C01) -/
theorem C12_exactly_once_without_mode_hypothesis_partial (N : Nat) (bcast : Bool) (wait : WaitK) (fut : Bool)
    (hN : 0 < N) (ls : List Label) (σ : St) (r : NRun (init N bcast wait fut) ls σ) :
    ∀ s, s ∈ σ.groups σ.cur →
      σ.dlv s = (σ.log.drop (σ.start s)).take (σ.pos s - σ.start s) ∧
      σ.start s ≤ σ.pos s ∧ σ.pos s ≤ σ.log.length :=
  C01_exactly_once_partial N bcast wait fut hN ls σ (C12_goodRun_without_mode_hypothesis N bcast wait fut ls σ r)

/-- the premises are satisfiable: a sender clone call is an `NRun` step from the initial state -/
example : NRun (init 4 true .busy false) [.call 0 .clone 0 0 2 0] (step (init 4 true .busy false) (.call 0 .clone 0 0 2 0)) :=
  .cons rfl (.nil _)

end MQ
