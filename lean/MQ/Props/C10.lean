import MQ.Inv.RingMain
import MQ.Inv.AddFrame
import MQ.Inv.AddRun
/-!
# C10 — add_stream starts at the parent position with no gap and no side effects
-/
namespace MQ

/-- C10 (start position): when `add_stream`'s CAS publishes the new stream `ns`, the stream starts — position,
`start` marker, empty delivery list — at the snapshot `raw` of the parent position, which was loaded inside
the call (program point `a2`). -/
theorem C10_start (σ : St) (t inp c raw ng : Nat) (hpc : (σ.th t).pc = .a3 c raw ng) (hok : σ.cur = c) :
    let σ' := (stepRun σ t inp).2
    σ'.pos (σ.th t).ns = raw ∧ σ'.start (σ.th t).ns = raw ∧ σ'.dlv (σ.th t).ns = [] ∧ σ'.cur = ng := by
  subst hok
  simp only [stepRun, hpc, ↓reduceIte]
  repeat' split
  all_goals simp [St.goto, St.gotoF, St.setTh, St.flush, upd]

/-- C10 (no gap, no side effects — partial: F1 excluded): if the parent position still equals the snapshot when
the CAS succeeds, the whole ring invariant — window and tail-cache facts for *all* streams old and new, and
`dlv s = log[start s, pos s)` for the new stream too — holds after the step, for every interleaving. -/
theorem C10_no_side_effect_partial {σ : St} (t inp c raw ng : Nat) (I : RInv σ) (M : ModeOK σ)
    (hut : σ.cur = c → σ.pos (σ.th t).s = raw) (hpc : (σ.th t).pc = .a3 c raw ng) :
    RInv (stepRun σ t inp).2 :=
  rinv_run_a3 t inp c raw ng I M hut hpc

/-- C10: the model records exactly the excluded case: the ghost flag `taintAdd` is raised by the publishing CAS
iff the parent position differs from the snapshot at that moment (known finding F1). -/
theorem C10_taint_iff (σ : St) (t inp c raw ng : Nat) (hpc : (σ.th t).pc = .a3 c raw ng) (hok : σ.cur = c)
    (h0 : σ.taintAdd = false) :
    (stepRun σ t inp).2.taintAdd = true ↔ σ.pos (σ.th t).s ≠ raw := by
  subst hok
  simp only [stepRun, hpc, ↓reduceIte]
  repeat' split
  all_goals simp [St.goto, St.gotoF, St.setTh, St.flush, upd, h0]

/-- C10 (no side effects, structural — for every state, reachable or not, and every interleaving): a step of a thread
that is inside `add_stream` (publication loop `a1`–`a3`, then the release of the old stream list through the memory
manager, up to the return of the new handle) stays inside that program, keeps the call's arguments, and leaves the
queue's data alone: write index, tail cache, sender count, every slot's tag, content and pin counter, the log of
sent values, the list of destroyed values, the no-reader flag, and — for every stream other than the new one — its
position, delivery list, start marker and consumer count. Nothing is consumed, dropped or reordered by `add_stream`;
the only data it writes are the new stream's own cells (`C10_start`). Proved by cases over all program points
(`MQ/Inv/AddFrame.lean`). -/
theorem C10_add_stream_frame (σ : St) (t inp : Nat) (ho : (σ.th t).outer = .addStream)
    (ha : (σ.th t).pc.inAdd = true) :
    let σ' := (stepRun σ t inp).2
    ((σ'.th t).pc.inAdd = true ∧ (σ'.th t).outer = .addStream ∧ (σ'.th t).ns = (σ.th t).ns) ∧
    σ'.head = σ.head ∧ σ'.tc = σ.tc ∧ σ'.writers = σ.writers ∧ σ'.tag = σ.tag ∧ σ'.cont = σ.cont ∧ σ'.ref = σ.ref ∧
    σ'.log = σ.log ∧ σ'.drops = σ.drops ∧ σ'.noReader = σ.noReader ∧
    (∀ s', s' ≠ (σ.th t).ns → σ'.pos s' = σ.pos s' ∧ σ'.dlv s' = σ.dlv s' ∧ σ'.start s' = σ.start s' ∧
      σ'.ncons s' = σ.ncons s') := by
  obtain ⟨h1, h2, h3⟩ := C10_add_stream_stays_in_its_program σ t inp ho ha
  exact ⟨⟨h1, h2.trans ho, h3⟩, C10_add_stream_touches_no_data σ t inp ha⟩

/-- non-vacuity: the dispatch of an `add_stream` call puts the thread at `a1`, which is inside the program -/
example : (PC.a1).inAdd = true ∧ (PC.a3 1 0 2).inAdd = true ∧ (PC.ret .new).inAdd = true ∧ (PC.r0).inAdd = false := by
  decide

/-- a step never turns another call into an `add_stream` call (so the hypothesis `outer = addStream` above is set by
the call's dispatch only) -/
theorem C10_outer_only_from_dispatch (σ : St) (t inp : Nat)
    (h : ((stepRun σ t inp).2.th t).outer = .addStream) : (σ.th t).outer = .addStream :=
  outer_add_of_step σ t inp h

/-- C10 (no side effects — every execution, no exclusion: the F1 window, the futures conversions and teardown are
all inside): in every state reachable from the initial one by *any* sequence of labels, a thread whose call is
`add_stream` and that has not returned yet is inside `add_stream`'s own program (`AddI`, an inductive invariant over
every label, `MQ/Inv/AddRun.lean`), so each of its steps leaves the queue's data alone (`C10_add_stream_frame`):
nothing is consumed, destroyed, reordered or re-positioned on behalf of the caller or of any other stream. -/
theorem C10_add_stream_is_data_neutral_in_every_run (N : Nat) (bcast : Bool) (wait : WaitK) (fut : Bool)
    (ls : List Label) (t inp : Nat) :
    let σ := ls.foldl step (init N bcast wait fut)
    (σ.th t).outer = .addStream → (σ.th t).pc ≠ .idle →
    let σ' := (stepRun σ t inp).2
    ((σ'.th t).pc.inAdd = true ∧ (σ'.th t).outer = .addStream ∧ (σ'.th t).ns = (σ.th t).ns) ∧
    σ'.head = σ.head ∧ σ'.tc = σ.tc ∧ σ'.writers = σ.writers ∧ σ'.tag = σ.tag ∧ σ'.cont = σ.cont ∧ σ'.ref = σ.ref ∧
    σ'.log = σ.log ∧ σ'.drops = σ.drops ∧ σ'.noReader = σ.noReader ∧
    (∀ s', s' ≠ (σ.th t).ns → σ'.pos s' = σ.pos s' ∧ σ'.dlv s' = σ.dlv s' ∧ σ'.start s' = σ.start s' ∧
      σ'.ncons s' = σ.ncons s') := by
  intro σ ho hi
  rcases addI_run N bcast wait fut ls t ho with h | h
  · exact absurd h hi
  · exact C10_add_stream_frame σ t inp ho h

/-- non-vacuity: after the dispatch of an `add_stream` call on the initial receiver handle the hypotheses hold -/
example : let σ := [Label.call 5 .addStream 1 0 2 1].foldl step (init 4 true .busy false)
    (σ.th 5).outer = .addStream ∧ (σ.th 5).pc = .a1 := by
  decide

end MQ
