import MQ.Inv.RingMain
/-!
# C10 — add_stream starts at the parent position with no gap and no side effects
-/
namespace MQ

/-- C10 (start position): when `add_stream`'s CAS publishes the new stream `ns`, the stream starts — position,
`start` marker, empty delivery list — at the snapshot `raw` of the parent position, which was loaded inside
the call (program point `a2`). -/
theorem C10_start (σ : St) (t inp c raw ng : Nat) (hpc : (σ.th t).pc = .a3 c raw ng) (hok : σ.cur = c) :
    let σ' := (stepRun σ t inp).2
    σ'.pos (σ.th t).ns = raw ∧ σ'.start (σ.th t).ns = raw ∧ σ'.dlv (σ.th t).ns = [] ∧ σ'.cur = ng := by
  subst hok
  simp only [stepRun, hpc, ↓reduceIte]
  repeat' split
  all_goals simp [St.goto, St.gotoF, St.setTh, St.flush, upd]

/-- C10 (no gap, no side effects — partial: F1 excluded): if the parent position still equals the snapshot when
the CAS succeeds, the whole ring invariant — window and tail-cache facts for *all* streams old and new, and
`dlv s = log[start s, pos s)` for the new stream too — holds after the step, for every interleaving. -/
theorem C10_no_side_effect_partial {σ : St} (t inp c raw ng : Nat) (I : RInv σ) (M : ModeOK σ)
    (hut : σ.cur = c → σ.pos (σ.th t).s = raw) (hpc : (σ.th t).pc = .a3 c raw ng) :
    RInv (stepRun σ t inp).2 :=
  rinv_run_a3 t inp c raw ng I M hut hpc

/-- C10: the model records exactly the excluded case: the ghost flag `taintAdd` is raised by the publishing CAS
iff the parent position differs from the snapshot at that moment (known finding F1). -/
theorem C10_taint_iff (σ : St) (t inp c raw ng : Nat) (hpc : (σ.th t).pc = .a3 c raw ng) (hok : σ.cur = c)
    (h0 : σ.taintAdd = false) :
    (stepRun σ t inp).2.taintAdd = true ↔ σ.pos (σ.th t).s ≠ raw := by
  subst hok
  simp only [stepRun, hpc, ↓reduceIte]
  repeat' split
  all_goals simp [St.goto, St.gotoF, St.setTh, St.flush, upd, h0]

end MQ
