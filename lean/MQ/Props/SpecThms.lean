import MQ.Model.Spec
/-!
# Theorems about `Spec`, for all call sequences

* `WF` — well-formedness of a `Spec` state; `wf_init`, `wf_step`, `wf_run`.
* `validWrap_spec` — the window is a power of two, ≥ 1 and ≥ the requested capacity.
* (a) `window_run`, `window_from`, `send_accept_iff` — C03 sequential: every live stream is at
  most `N` behind the head; a send is accepted iff the flag is down and every stream has room.
* (b) `cursor_le_head`, `recv_delivers`, `recv_in_order_reachable`, `log_step`,
  `log_prefix_run`, `cur_frame` — C01/C02 sequential: a successful receive returns `log[cursor]`
  and advances that cursor by one; nothing else moves a cursor; the log is append-only.
* (c) `noRecv_step`, `noRecv_run`, `trySend_noRecv`, `startSend_noRecv`,
  `sends_after_noRecv_run`, `noRecv_iff_no_stream` — C13.
* (d) `end_gives_ended`, `ended_step`, `ended_recv`, `end_stable` — C07 sequential.
* (e) `unsub_result`, `unsub_bool_iff`, `unsub_true_iff_only_handle` — C11.
* examples at the end: concrete non-trivial states that meet the hypotheses.
-/
namespace MQ.Spec

/-! ## list facts -/

theorem getSlot_some {σ : State} {h : Nat} {x : Slot} (hx : getSlot σ h = some x) :
    σ.slots[h]? = some x ∧ x.live = true := by
  unfold getSlot at hx
  split at hx
  · rename_i y hy
    split at hx
    · simp at hx; subst hx; exact ⟨hy, by assumption⟩
    · simp at hx
  · simp at hx

theorem getSlot_lt {σ : State} {h : Nat} {x : Slot} (hx : getSlot σ h = some x) :
    h < σ.slots.length := by
  have := (getSlot_some hx).1
  exact (List.getElem?_eq_some_iff.mp this).1

theorem getSlot_getElem {σ : State} {h : Nat} {x : Slot} (hx : getSlot σ h = some x) :
    σ.slots[h]'(getSlot_lt hx) = x := by
  have := (getSlot_some hx).1
  exact (List.getElem?_eq_some_iff.mp this).2

theorem getSlot_mem {σ : State} {h : Nat} {x : Slot} (hx : getSlot σ h = some x) :
    x ∈ σ.slots := List.mem_of_getElem? (getSlot_some hx).1

theorem countP_set_same {p : Slot → Bool} {l : List Slot} {i : Nat} {a : Slot} (h : i < l.length)
    (hp : p a = p l[i]) : (l.set i a).countP p = l.countP p := by
  rw [List.countP_set h, hp]
  have : (if p l[i] = true then 1 else 0) ≤ l.countP p := List.boole_getElem_le_countP (p := p) h
  omega

theorem countP_set_dec {p : Slot → Bool} {l : List Slot} {i : Nat} {a : Slot} (h : i < l.length)
    (h1 : p l[i] = true) (h2 : p a = false) : (l.set i a).countP p = l.countP p - 1 := by
  rw [List.countP_set h, h1, h2]; simp

theorem countP_set_inc {p : Slot → Bool} {l : List Slot} {i : Nat} {a : Slot} (h : i < l.length)
    (h1 : p l[i] = false) (h2 : p a = true) : (l.set i a).countP p = l.countP p + 1 := by
  rw [List.countP_set h, h1, h2]; simp

theorem countP_pos_of_getElem {p : Slot → Bool} {l : List Slot} {i : Nat} (h : i < l.length)
    (h1 : p l[i] = true) : 0 < l.countP p := by
  have : (if p l[i] = true then 1 else 0) ≤ l.countP p := List.boole_getElem_le_countP (p := p) h
  rw [if_pos h1] at this; exact this

/-! ## well-formedness -/

structure WF (σ : State) : Prop where
  curLt : ∀ s c, σ.cur s = some c → s < σ.nextStrm
  curLe : ∀ s c, σ.cur s = some c → c ≤ σ.log.length
  window : ∀ s c, σ.cur s = some c → σ.log.length - c ≤ σ.N
  cntEq : ∀ s, σ.cnt s = countR σ.slots s
  liveIff : ∀ s, (σ.cur s).isSome = true ↔ 0 < σ.cnt s
  sendersEq : σ.senders = countS σ.slots
  slotStrm : ∀ x ∈ σ.slots, x.strm < σ.nextStrm
  noRecvIff : σ.noRecv = true ↔ ∀ s, σ.cur s = none

theorem wf_init (b f : Bool) (cap : Nat) : WF (init b f cap) := by
  constructor
  · intro s c h; simp [init] at h; simp [init]; omega
  · intro s c h; simp [init] at h; simp [init]; omega
  · intro s c h; simp [init] at h; simp [init]
  · intro s
    by_cases hs : s = 0 <;> simp [init, countR, Slot.isRecvOn, List.countP_cons, hs]
    omega
  · intro s; by_cases hs : s = 0 <;> simp [init, hs]
  · simp [init, countS, Slot.isSender]
  · intro x hx; simp [init] at hx; rcases hx with rfl | rfl <;> simp [init]
  · simp [init]


theorem WF.of_eq {σ τ : State} (h : WF σ) (h1 : τ.log = σ.log) (h2 : τ.N = σ.N)
    (h3 : τ.cur = σ.cur) (h4 : τ.cnt = σ.cnt) (h5 : τ.senders = σ.senders)
    (h6 : τ.noRecv = σ.noRecv) (h7 : τ.slots = σ.slots) (h8 : τ.nextStrm = σ.nextStrm) : WF τ := by
  constructor
  · rw [h3, h8]; exact h.curLt
  · rw [h3, h1]; exact h.curLe
  · rw [h3, h1, h2]; exact h.window
  · rw [h4, h7]; exact h.cntEq
  · rw [h3, h4]; exact h.liveIff
  · rw [h5, h7]; exact h.sendersEq
  · rw [h7, h8]; exact h.slotStrm
  · rw [h6, h3]; exact h.noRecvIff

theorem hasRoom_spec {σ : State} (h : hasRoom σ = true) :
    ∀ s c, s < σ.nextStrm → σ.cur s = some c → σ.log.length - c < σ.N := by
  intro s c hs hc
  unfold hasRoom at h
  rw [List.all_eq_true] at h
  have := h s (List.mem_range.mpr hs)
  simp [hc] at this
  exact this

theorem noStreams_iff {cur : Nat → Option Nat} {n : Nat} (hlt : ∀ s c, cur s = some c → s < n) :
    noStreams cur n = true ↔ ∀ s, cur s = none := by
  unfold noStreams
  rw [List.all_eq_true]
  constructor
  · intro h s
    cases hc : cur s with
    | none => rfl
    | some c =>
      have := h s (List.mem_range.mpr (hlt s c hc))
      simp [hc] at this
  · intro h s _; simp [h s]

/-- facts about a live receiver handle in a well-formed state -/
theorem recv_slot_facts {σ : State} (w : WF σ) {h : Nat} {x : Slot} (hx : getSlot σ h = some x)
    (hr : x.role ≠ Role.S) :
    x.isRecvOn x.strm = true ∧ 0 < σ.cnt x.strm ∧ (σ.cur x.strm).isSome = true ∧ x.strm < σ.nextStrm := by
  have hl := (getSlot_some hx).2
  have hp : x.isRecvOn x.strm = true := by simp [Slot.isRecvOn, hl, hr]
  have hpos : 0 < σ.cnt x.strm := by
    rw [w.cntEq]
    have := countP_pos_of_getElem (p := fun y => y.isRecvOn x.strm) (getSlot_lt hx)
      (by rw [getSlot_getElem hx]; exact hp)
    exact this
  exact ⟨hp, hpos, (w.liveIff _).mpr hpos, w.slotStrm x (getSlot_mem hx)⟩

theorem wf_send {σ : State} (w : WF σ) : WF (send σ).1 := by
  unfold send
  simp only
  split
  · exact w.of_eq rfl rfl rfl rfl rfl rfl rfl rfl
  · split
    · rename_i hroom
      have hr := hasRoom_spec hroom
      constructor
      · exact w.curLt
      · intro s c hc; have := w.curLe s c hc; simp; omega
      · intro s c hc
        have := hr s c (w.curLt s c hc) hc
        simp; omega
      · exact w.cntEq
      · exact w.liveIff
      · exact w.sendersEq
      · exact w.slotStrm
      · exact w.noRecvIff
    · exact w.of_eq rfl rfl rfl rfl rfl rfl rfl rfl

theorem wf_badSend {σ : State} (w : WF σ) : WF (badSend σ) :=
  w.of_eq rfl rfl rfl rfl rfl rfl rfl rfl

theorem wf_teardown {σ : State} (w : WF σ) : WF (teardown σ) := by
  unfold teardown
  split
  · split
    · exact w.of_eq rfl rfl rfl rfl rfl rfl rfl rfl
    · exact w.of_eq rfl rfl rfl rfl rfl rfl rfl rfl
  · exact w

theorem wf_recvOn {σ : State} (w : WF σ) (sid : Nat) (cl : Bool) : WF (recvOn σ sid cl).1 := by
  unfold recvOn
  split
  · exact w
  · rename_i c hc
    split
    · rename_i v hv
      have hlt : c < σ.log.length := (List.getElem?_eq_some_iff.mp hv).1
      have core : WF { σ with cur := fun s => if s = sid then some (c + 1) else σ.cur s } := by
        constructor
        · intro s k hk
          by_cases hs : s = sid
          · subst hs; exact w.curLt _ _ hc
          · simp [hs] at hk; exact w.curLt _ _ hk
        · intro s k hk
          by_cases hs : s = sid
          · simp [hs] at hk; simp; omega
          · simp [hs] at hk; exact w.curLe _ _ hk
        · intro s k hk
          by_cases hs : s = sid
          · simp [hs] at hk; have := w.window _ _ hc; simp; omega
          · simp [hs] at hk; exact w.window _ _ hk
        · exact w.cntEq
        · intro s
          by_cases hs : s = sid
          · subst hs; simp; have := (w.liveIff s).mp (by simp [hc]); exact this
          · simp [hs]; exact w.liveIff s
        · exact w.sendersEq
        · exact w.slotStrm
        · have hn : σ.noRecv = false := by
            cases hb : σ.noRecv with
            | false => rfl
            | true => have := w.noRecvIff.mp hb sid; simp [hc] at this
          simp [hn]
          exact ⟨sid, by simp⟩
      split
      · exact core.of_eq rfl rfl rfl rfl rfl rfl rfl rfl
      · exact core.of_eq rfl rfl rfl rfl rfl rfl rfl rfl
    · split <;> exact w


theorem countR_append (l : List Slot) (y : Slot) (s : Nat) :
    countR (l ++ [y]) s = countR l s + (if y.isRecvOn s = true then 1 else 0) := by
  simp [countR, List.countP_append]

theorem countS_append (l : List Slot) (y : Slot) :
    countS (l ++ [y]) = countS l + (if y.isSender = true then 1 else 0) := by
  simp [countS, List.countP_append]

theorem mem_set_strm {l : List Slot} {h : Nat} {y z : Slot} {n : Nat}
    (hl : ∀ x ∈ l, x.strm < n) (hy : y.strm < n) (hz : z ∈ l.set h y) : z.strm < n := by
  rcases List.mem_or_eq_of_mem_set hz with h1 | h1
  · exact hl z h1
  · subst h1; exact hy

theorem wf_cloneS {σ : State} (w : WF σ) {x : Slot} (hx : x ∈ σ.slots) (g : Nat) :
    WF { σ with slots := σ.slots ++ [{ role := Role.S, strm := x.strm, gid := g, live := true }],
                nextGid := σ.nextGid + 1, senders := σ.senders + 1 } := by
  constructor
  · exact w.curLt
  · exact w.curLe
  · exact w.window
  · intro s; simp [countR_append, Slot.isRecvOn]; exact w.cntEq s
  · exact w.liveIff
  · simp [countS_append, Slot.isSender, w.sendersEq]
  · intro y hy
    simp at hy
    rcases hy with hy | hy
    · exact w.slotStrm y hy
    · subst hy; exact w.slotStrm x hx
  · exact w.noRecvIff

theorem wf_cloneR {σ : State} (w : WF σ) {h : Nat} {x : Slot} (hx : getSlot σ h = some x)
    (hr : x.role ≠ Role.S) (g : Nat) :
    WF { σ with slots := σ.slots ++ [{ role := Role.R, strm := x.strm, gid := g, live := true }],
                nextGid := σ.nextGid + 1,
                cnt := fun s => if s = x.strm then σ.cnt s + 1 else σ.cnt s } := by
  obtain ⟨_, hpos, hsome, hlt⟩ := recv_slot_facts w hx hr
  constructor
  · exact w.curLt
  · exact w.curLe
  · exact w.window
  · intro s
    by_cases hs : s = x.strm
    · subst hs; simp [countR_append, Slot.isRecvOn, w.cntEq]
    · have : ¬ x.strm = s := fun e => hs e.symm
      simp [countR_append, Slot.isRecvOn, hs, this]; exact w.cntEq s
  · intro s
    by_cases hs : s = x.strm
    · subst hs; simp [hsome]
    · simp [hs]; exact w.liveIff s
  · simp [countS_append, Slot.isSender, w.sendersEq]
  · intro y hy
    simp at hy
    rcases hy with hy | hy
    · exact w.slotStrm y hy
    · subst hy; exact hlt
  · exact w.noRecvIff

theorem countR_fresh {σ : State} (w : WF σ) : countR σ.slots σ.nextStrm = 0 := by
  simp only [countR, List.countP_eq_zero]
  intro y hy
  have := w.slotStrm y hy
  simp [Slot.isRecvOn]
  intro _ _; omega

theorem noRecv_false_of_cur {σ : State} (w : WF σ) {s c : Nat} (hc : σ.cur s = some c) :
    σ.noRecv = false := by
  cases hb : σ.noRecv with
  | false => rfl
  | true => have := w.noRecvIff.mp hb s; simp [hc] at this

theorem wf_addStream {σ : State} (w : WF σ) {h : Nat} {x : Slot} (hx : getSlot σ h = some x)
    (hr : x.role ≠ Role.S) : WF (addStream σ x) := by
  obtain ⟨_, hpos, hsome, hlt⟩ := recv_slot_facts w hx hr
  obtain ⟨c, hc⟩ := Option.isSome_iff_exists.mp hsome
  unfold addStream
  constructor
  · intro s k hk
    by_cases hs : s = σ.nextStrm
    · simp [hs]
    · simp [hs] at hk; have := w.curLt s k hk; simp; omega
  · intro s k hk
    by_cases hs : s = σ.nextStrm
    · simp [hs] at hk; exact w.curLe _ _ hk
    · simp [hs] at hk; exact w.curLe _ _ hk
  · intro s k hk
    by_cases hs : s = σ.nextStrm
    · simp [hs] at hk; exact w.window _ _ hk
    · simp [hs] at hk; exact w.window _ _ hk
  · intro s
    by_cases hs : s = σ.nextStrm
    · subst hs; simp [countR_append, Slot.isRecvOn, countR_fresh w, hr]
    · have : ¬ σ.nextStrm = s := fun e => hs e.symm
      simp [countR_append, Slot.isRecvOn, hs, this]; exact w.cntEq s
  · intro s
    by_cases hs : s = σ.nextStrm
    · simp [hs, hsome]
    · simp [hs]; exact w.liveIff s
  · simp [countS_append, Slot.isSender, hr, w.sendersEq]
  · intro y hy
    simp at hy
    rcases hy with hy | hy
    · have := w.slotStrm y hy; show y.strm < σ.nextStrm + 1; omega
    · subst hy; simp
  · simp [noRecv_false_of_cur w hc]
    exact ⟨x.strm, by have : ¬ x.strm = σ.nextStrm := by omega
                      simp [this, hc]⟩


/-- counts after replacing slot `h` (a live sender) by something that is neither -/
theorem countS_kill {σ : State} {h : Nat} {x y : Slot} (hx : getSlot σ h = some x)
    (hr : x.role = Role.S) (hy : y.isSender = false) :
    countS (σ.slots.set h y) = countS σ.slots - 1 := by
  unfold countS
  apply countP_set_dec (getSlot_lt hx)
  · rw [getSlot_getElem hx]; simp [Slot.isSender, hr, (getSlot_some hx).2]
  · exact hy

theorem countR_same {σ : State} {h : Nat} {x y : Slot} (hx : getSlot σ h = some x) (s : Nat)
    (hy : y.isRecvOn s = x.isRecvOn s) :
    countR (σ.slots.set h y) s = countR σ.slots s := by
  unfold countR
  apply countP_set_same (getSlot_lt hx)
  rw [getSlot_getElem hx]; exact hy

theorem countS_same {σ : State} {h : Nat} {x y : Slot} (hx : getSlot σ h = some x)
    (hy : y.isSender = x.isSender) :
    countS (σ.slots.set h y) = countS σ.slots := by
  unfold countS
  apply countP_set_same (getSlot_lt hx)
  rw [getSlot_getElem hx]; exact hy

theorem countR_dec {σ : State} {h : Nat} {x y : Slot} (hx : getSlot σ h = some x) (s : Nat)
    (h1 : x.isRecvOn s = true) (h2 : y.isRecvOn s = false) :
    countR (σ.slots.set h y) s = countR σ.slots s - 1 := by
  unfold countR
  apply countP_set_dec (getSlot_lt hx)
  · rw [getSlot_getElem hx]; exact h1
  · exact h2

theorem countR_inc {σ : State} {h : Nat} {x y : Slot} (hx : getSlot σ h = some x) (s : Nat)
    (h1 : x.isRecvOn s = false) (h2 : y.isRecvOn s = true) :
    countR (σ.slots.set h y) s = countR σ.slots s + 1 := by
  unfold countR
  apply countP_set_inc (getSlot_lt hx)
  · rw [getSlot_getElem hx]; exact h1
  · exact h2

theorem wf_dropSend {σ : State} (w : WF σ) {h : Nat} {x : Slot} (hx : getSlot σ h = some x)
    (hr : x.role = Role.S) : WF (dropSend σ h x) := by
  unfold dropSend killSlot
  constructor
  · exact w.curLt
  · exact w.curLe
  · exact w.window
  · intro s
    show σ.cnt s = countR (σ.slots.set h { x with live := false }) s
    rw [countR_same hx s (by simp [Slot.isRecvOn, hr])]; exact w.cntEq s
  · exact w.liveIff
  · show σ.senders - 1 = countS (σ.slots.set h { x with live := false })
    rw [countS_kill hx hr (by simp [Slot.isSender]), w.sendersEq]
  · intro z hz
    exact mem_set_strm (y := { x with live := false }) w.slotStrm (w.slotStrm x (getSlot_mem hx)) hz
  · exact w.noRecvIff

theorem wf_dropRecv {σ : State} (w : WF σ) {h : Nat} {x : Slot} (hx : getSlot σ h = some x)
    (hr : x.role ≠ Role.S) : WF (dropRecv σ h x) := by
  obtain ⟨hp, hpos, hsome, hlt⟩ := recv_slot_facts w hx hr
  have hdead : ∀ s, ({ x with live := false } : Slot).isRecvOn s = false := by
    intro s; simp [Slot.isRecvOn]
  have hother : ∀ s, s ≠ x.strm → x.isRecvOn s = false := by
    intro s hs; simp [Slot.isRecvOn]; intro _ _ e; exact hs e.symm
  unfold dropRecv killSlot
  simp only
  split
  · rename_i hle
    have h1 : σ.cnt x.strm = 1 := by omega
    have hlt' : ∀ s c, (if s = x.strm then Option.none else σ.cur s) = some c → s < σ.nextStrm := by
      intro s c hc
      by_cases hs : s = x.strm
      · simp [hs] at hc
      · simp [hs] at hc; exact w.curLt s c hc
    constructor
    · exact hlt'
    · intro s c hc
      by_cases hs : s = x.strm
      · simp [hs] at hc
      · simp [hs] at hc; exact w.curLe s c hc
    · intro s c hc
      by_cases hs : s = x.strm
      · simp [hs] at hc
      · simp [hs] at hc; exact w.window s c hc
    · intro s
      by_cases hs : s = x.strm
      · subst hs
        show (if x.strm = x.strm then 0 else σ.cnt x.strm) = countR (σ.slots.set h { x with live := false }) x.strm
        rw [countR_dec hx _ hp (hdead _), ← w.cntEq, h1]; simp
      · show (if s = x.strm then 0 else σ.cnt s) = countR (σ.slots.set h { x with live := false }) s
        rw [countR_same hx s (by rw [hdead, hother s hs])]; simp [hs]; exact w.cntEq s
    · intro s
      by_cases hs : s = x.strm
      · simp [hs]
      · simp [hs]; exact w.liveIff s
    · show σ.senders = countS (σ.slots.set h { x with live := false })
      rw [countS_same hx (by simp [Slot.isSender, hr]), w.sendersEq]
    · intro z hz
      exact mem_set_strm (y := { x with live := false }) w.slotStrm hlt hz
    · show (σ.noRecv || noStreams (fun s => if s = x.strm then Option.none else σ.cur s) σ.nextStrm) = true ↔
        ∀ s, (if s = x.strm then Option.none else σ.cur s) = Option.none
      rw [Bool.or_eq_true, noStreams_iff hlt']
      constructor
      · intro hh
        rcases hh with hh | hh
        · intro s; have := w.noRecvIff.mp hh s; simp [this]
        · exact hh
      · intro hh; exact Or.inr hh
  · rename_i hgt
    constructor
    · exact w.curLt
    · exact w.curLe
    · exact w.window
    · intro s
      by_cases hs : s = x.strm
      · subst hs
        show (if x.strm = x.strm then σ.cnt x.strm - 1 else σ.cnt x.strm) = countR (σ.slots.set h { x with live := false }) x.strm
        rw [countR_dec hx _ hp (hdead _), ← w.cntEq]; simp
      · show (if s = x.strm then σ.cnt s - 1 else σ.cnt s) = countR (σ.slots.set h { x with live := false }) s
        rw [countR_same hx s (by rw [hdead, hother s hs])]; simp [hs]; exact w.cntEq s
    · intro s
      by_cases hs : s = x.strm
      · subst hs; simp [hsome]; omega
      · simp [hs]; exact w.liveIff s
    · show σ.senders = countS (σ.slots.set h { x with live := false })
      rw [countS_same hx (by simp [Slot.isSender, hr]), w.sendersEq]
    · intro z hz
      exact mem_set_strm (y := { x with live := false }) w.slotStrm hlt hz
    · exact w.noRecvIff

theorem wf_setRole {σ : State} (w : WF σ) {h : Nat} {x : Slot} (hx : getSlot σ h = some x)
    (hr : x.role ≠ Role.S) {r : Role} (hr' : r ≠ Role.S) : WF (setRole σ h x r) := by
  unfold setRole
  constructor
  · exact w.curLt
  · exact w.curLe
  · exact w.window
  · intro s
    show σ.cnt s = countR (σ.slots.set h { x with role := r }) s
    rw [countR_same hx s (by simp [Slot.isRecvOn, hr, hr'])]; exact w.cntEq s
  · exact w.liveIff
  · show σ.senders = countS (σ.slots.set h { x with role := r })
    rw [countS_same hx (by simp [Slot.isSender, hr, hr']), w.sendersEq]
  · intro z hz
    exact mem_set_strm (y := { x with role := r }) w.slotStrm (w.slotStrm x (getSlot_mem hx)) hz
  · exact w.noRecvIff


theorem wf_intoMultiFut {σ : State} (w : WF σ) {h : Nat} {x : Slot} (hx : getSlot σ h = some x)
    (hr : x.role ≠ Role.S) : WF (intoMultiFut σ h x) := by
  obtain ⟨hp, hpos, hsome, hlt⟩ := recv_slot_facts w hx hr
  obtain ⟨c, hc⟩ := Option.isSome_iff_exists.mp hsome
  have hl := (getSlot_some hx).2
  have hne : ¬ x.strm = σ.nextStrm := by omega
  have hne' : ¬ σ.nextStrm = x.strm := by omega
  have hnew : ∀ s, ({ x with role := Role.R, strm := σ.nextStrm } : Slot).isRecvOn s = decide (σ.nextStrm = s) := by
    intro s; simp [Slot.isRecvOn, hl]
  have hold : ∀ s, x.isRecvOn s = decide (x.strm = s) := by
    intro s; simp [Slot.isRecvOn, hl, hr]
  have hcnt : ∀ s, countR (σ.slots.set h { x with role := Role.R, strm := σ.nextStrm }) s =
      if s = σ.nextStrm then 1 else if s = x.strm then σ.cnt s - 1 else σ.cnt s := by
    intro s
    by_cases h1 : s = σ.nextStrm
    · subst h1
      rw [countR_inc hx _ (by rw [hold]; simp [hne]) (by rw [hnew]; simp), countR_fresh w]; simp
    · by_cases h2 : s = x.strm
      · subst h2
        rw [countR_dec hx _ hp (by rw [hnew]; simp [hne']), ← w.cntEq]; simp [h1]
      · have e1 : ¬ σ.nextStrm = s := fun e => h1 e.symm
        have e2 : ¬ x.strm = s := fun e => h2 e.symm
        rw [countR_same hx s (by rw [hnew, hold]; simp [e1, e2]), ← w.cntEq]; simp [h1, h2]
  have hS : countS (σ.slots.set h { x with role := Role.R, strm := σ.nextStrm }) = σ.senders := by
    rw [countS_same hx (by simp [Slot.isSender, hr]), w.sendersEq]
  have hmem : ∀ z ∈ σ.slots.set h { x with role := Role.R, strm := σ.nextStrm }, z.strm < σ.nextStrm + 1 := by
    intro z hz
    exact mem_set_strm (y := { x with role := Role.R, strm := σ.nextStrm }) (n := σ.nextStrm + 1)
      (fun y hy => by have := w.slotStrm y hy; omega) (by simp) hz
  have hnr := noRecv_false_of_cur w hc
  unfold intoMultiFut
  simp only
  split
  · rename_i hle
    have h1 : σ.cnt x.strm = 1 := by omega
    constructor
    · intro s k hk
      show s < σ.nextStrm + 1
      by_cases hs : s = σ.nextStrm
      · omega
      · by_cases hs2 : s = x.strm
        · subst hs2; simp [hne] at hk
        · simp [hs, hs2] at hk; have := w.curLt s k hk; omega
    · intro s k hk
      by_cases hs : s = σ.nextStrm
      · simp [hs] at hk; exact w.curLe _ _ hk
      · by_cases hs2 : s = x.strm
        · subst hs2; simp [hne] at hk
        · simp [hs, hs2] at hk; exact w.curLe _ _ hk
    · intro s k hk
      by_cases hs : s = σ.nextStrm
      · simp [hs] at hk; exact w.window _ _ hk
      · by_cases hs2 : s = x.strm
        · subst hs2; simp [hne] at hk
        · simp [hs, hs2] at hk; exact w.window _ _ hk
    · intro s
      show (if s = σ.nextStrm then 1 else if s = x.strm then 0 else σ.cnt s) = _
      rw [hcnt s]
      by_cases hs : s = σ.nextStrm
      · simp [hs]
      · by_cases hs2 : s = x.strm
        · subst hs2; simp [hs, h1]
        · simp [hs, hs2]
    · intro s
      by_cases hs : s = σ.nextStrm
      · simp [hs, hsome]
      · by_cases hs2 : s = x.strm
        · subst hs2; simp [hne]
        · simp [hs, hs2]; exact w.liveIff s
    · exact hS.symm
    · exact hmem
    · show σ.noRecv = true ↔ _
      simp [hnr]
      exact ⟨σ.nextStrm, by simp [hc]⟩
  · rename_i hgt
    constructor
    · intro s k hk
      show s < σ.nextStrm + 1
      by_cases hs : s = σ.nextStrm
      · omega
      · simp [hs] at hk; have := w.curLt s k hk; omega
    · intro s k hk
      by_cases hs : s = σ.nextStrm
      · simp [hs] at hk; exact w.curLe _ _ hk
      · simp [hs] at hk; exact w.curLe _ _ hk
    · intro s k hk
      by_cases hs : s = σ.nextStrm
      · simp [hs] at hk; exact w.window _ _ hk
      · simp [hs] at hk; exact w.window _ _ hk
    · intro s
      show (if s = σ.nextStrm then 1 else if s = x.strm then σ.cnt s - 1 else σ.cnt s) = _
      rw [hcnt s]
    · intro s
      by_cases hs : s = σ.nextStrm
      · simp [hs, hsome]
      · by_cases hs2 : s = x.strm
        · subst hs2; simp [hs, hsome]; omega
        · simp [hs, hs2]; exact w.liveIff s
    · exact hS.symm
    · exact hmem
    · show σ.noRecv = true ↔ _
      simp [hnr]
      exact ⟨σ.nextStrm, by simp [hc]⟩

theorem wf_bumpGid {σ : State} (w : WF σ) : WF { σ with nextGid := σ.nextGid + 1 } :=
  w.of_eq rfl rfl rfl rfl rfl rfl rfl rfl

theorem wf_bumpBoth {σ : State} (w : WF σ) :
    WF { σ with nextGid := σ.nextGid + 1, nextStrm := σ.nextStrm + 1 } := by
  constructor
  · intro s c hc; have := w.curLt s c hc; show s < σ.nextStrm + 1; omega
  · exact w.curLe
  · exact w.window
  · exact w.cntEq
  · exact w.liveIff
  · exact w.sendersEq
  · intro y hy; have := w.slotStrm y hy; show y.strm < σ.nextStrm + 1; omega
  · exact w.noRecvIff


/-- every API call preserves well-formedness -/
theorem wf_step {σ : State} (w : WF σ) (c : Call) : WF (step σ c).1 := by
  cases c with
  | trySend h =>
    simp only [step]
    split
    · exact w
    · split
      · exact wf_send w
      · exact wf_badSend w
  | startSend h =>
    simp only [step]
    split
    · exact w
    · split
      · exact wf_send w
      · exact wf_badSend w
  | pollComplete h =>
    simp only [step]
    split
    · exact w
    · split <;> exact w
  | tryRecv h =>
    simp only [step]
    split
    · exact w
    · split
      · exact w
      · exact wf_recvOn w _ _
  | recv h =>
    simp only [step]
    split
    · exact w
    · split
      · exact w
      · exact wf_recvOn w _ _
  | tryRecvView h =>
    simp only [step]
    split
    · exact w
    · split
      · exact wf_recvOn w _ _
      · exact w
  | recvView h =>
    simp only [step]
    split
    · exact w
    · split
      · exact wf_recvOn w _ _
      · exact w
  | poll h =>
    simp only [step]
    split
    · exact w
    · split
      · exact wf_recvOn w _ _
      · exact w
  | clone h =>
    simp only [step]
    split
    · exact w
    · rename_i x hx
      split
      · exact wf_cloneS w (getSlot_mem hx) _
      · rename_i hr
        exact wf_cloneR w hx (by rw [hr]; decide) _
      · exact wf_bumpGid w
  | addStream h =>
    simp only [step]
    split
    · exact w
    · rename_i x hx
      split
      · rename_i hc
        have hr : x.role ≠ Role.S := by
          rcases hc with ⟨h1, _⟩ | ⟨h1, _⟩ <;> (rw [h1]; decide)
        exact wf_addStream w hx hr
      · exact wf_bumpBoth w
  | drop h =>
    simp only [step]
    split
    · exact w
    · rename_i x hx
      split
      · rename_i hr; exact wf_teardown (wf_dropSend w hx hr)
      · rename_i hr; exact wf_teardown (wf_dropRecv w hx hr)
  | unsub h =>
    simp only [step]
    split
    · exact w
    · rename_i x hx
      split
      · rename_i hr; exact wf_teardown (wf_dropSend w hx hr)
      · rename_i hr
        split
        · exact wf_teardown (wf_dropRecv w hx hr)
        · exact wf_teardown (wf_dropRecv w hx hr)
  | intoSingle h =>
    simp only [step]
    split
    · exact w
    · rename_i x hx
      split
      · rename_i hr
        split
        · exact wf_setRole w hx (by rw [hr]; decide) (by decide)
        · exact w
      · exact w
  | intoMulti h =>
    simp only [step]
    split
    · exact w
    · rename_i x hx
      split
      · rename_i hr
        split
        · exact wf_intoMultiFut w hx (by rw [hr]; decide)
        · exact wf_setRole w hx (by rw [hr]; decide) (by decide)
      · exact w

theorem wf_run {σ : State} (w : WF σ) (cs : List Call) : WF (run σ cs) := by
  induction cs generalizing σ with
  | nil => exact w
  | cons c cs ih => exact ih (wf_step w c)

/-- every state reachable from `create` is well-formed -/
theorem wf_reachable (b f : Bool) (cap : Nat) (cs : List Call) : WF (run (init b f cap) cs) :=
  wf_run (wf_init b f cap) cs


/-! ## the window constant -/
theorem pow2ge_go_spec (n : Nat) : ∀ fuel p, (∃ k, p = 2 ^ k) → n ≤ p * 2 ^ fuel →
    (n ≤ pow2ge.go n fuel p ∧ ∃ k, pow2ge.go n fuel p = 2 ^ k) := by
  intro fuel
  induction fuel with
  | zero => intro p hp hn; simp [pow2ge.go] at hn ⊢; exact ⟨hn, hp⟩
  | succ f ih =>
    intro p hp hn
    simp only [pow2ge.go]
    split
    · rename_i h; exact ⟨h, hp⟩
    · apply ih
      · obtain ⟨k, hk⟩ := hp; exact ⟨k + 1, by rw [hk, Nat.pow_succ]; omega⟩
      · rw [Nat.pow_succ] at hn
        calc n ≤ p * (2 ^ f * 2) := hn
          _ = 2 * p * 2 ^ f := by rw [Nat.mul_comm (2^f) 2, ← Nat.mul_assoc, Nat.mul_comm p 2]

/-- the window is a power of two, at least 1 and at least the requested capacity -/
theorem validWrap_spec (cap : Nat) : cap ≤ validWrap cap ∧ 1 ≤ validWrap cap ∧ ∃ k, validWrap cap = 2 ^ k := by
  unfold validWrap
  split
  · rename_i h; subst h; exact ⟨by omega, by omega, 0, rfl⟩
  · have := pow2ge_go_spec cap cap 1 ⟨0, rfl⟩ (by simp; exact Nat.le_of_lt Nat.lt_two_pow_self)
    unfold pow2ge
    obtain ⟨a, k, hk⟩ := this
    refine ⟨a, ?_, k, hk⟩
    rw [hk]; exact Nat.one_le_two_pow

/-! ## frame facts: what each call can change -/

@[simp] theorem send_N (σ : State) : (send σ).1.N = σ.N := by
  unfold send; simp only; split; rfl; split <;> rfl
@[simp] theorem recvOn_N (σ : State) (s : Nat) (cl : Bool) : (recvOn σ s cl).1.N = σ.N := by
  unfold recvOn; split; rfl; split; (split <;> rfl); (split <;> rfl)
@[simp] theorem teardown_N (σ : State) : (teardown σ).N = σ.N := by
  unfold teardown; split; (split <;> rfl); rfl
@[simp] theorem dropRecv_N (σ : State) (h : Nat) (x : Slot) : (dropRecv σ h x).N = σ.N := by
  unfold dropRecv; simp only; split <;> rfl
@[simp] theorem intoMultiFut_N (σ : State) (h : Nat) (x : Slot) : (intoMultiFut σ h x).N = σ.N := by
  unfold intoMultiFut; simp only; split <;> rfl

theorem N_step (σ : State) (c : Call) : (step σ c).1.N = σ.N := by
  cases c <;> simp only [step] <;> (repeat' split) <;> simp [badSend, dropSend, addStream, setRole]

theorem N_run (σ : State) (cs : List Call) : (run σ cs).N = σ.N := by
  induction cs generalizing σ with
  | nil => rfl
  | cons c cs ih => simp [run, ih, N_step]

@[simp] theorem recvOn_log (σ : State) (s : Nat) (cl : Bool) : (recvOn σ s cl).1.log = σ.log := by
  unfold recvOn; split; rfl; split; (split <;> rfl); (split <;> rfl)
@[simp] theorem teardown_log (σ : State) : (teardown σ).log = σ.log := by
  unfold teardown; split; (split <;> rfl); rfl
@[simp] theorem dropRecv_log (σ : State) (h : Nat) (x : Slot) : (dropRecv σ h x).log = σ.log := by
  unfold dropRecv; simp only; split <;> rfl
@[simp] theorem intoMultiFut_log (σ : State) (h : Nat) (x : Slot) : (intoMultiFut σ h x).log = σ.log := by
  unfold intoMultiFut; simp only; split <;> rfl

/-- the only way the log changes: an accepted send appends the fresh id -/
theorem send_log (σ : State) :
    (send σ).1.log = if (send σ).2.1 = SendOut.ok then σ.log ++ [σ.nextVid] else σ.log := by
  unfold send; simp only; split
  · simp
  · split <;> simp

theorem send_noRecv_out {σ : State} (h : σ.noRecv = true) :
    (send σ).2.1 = SendOut.disc ∧ (send σ).2.2 = σ.nextVid ∧ (send σ).1.log = σ.log := by
  unfold send; simp [h]

theorem send_ok_iff (σ : State) :
    (send σ).2.1 = SendOut.ok ↔ (σ.noRecv = false ∧ hasRoom σ = true) := by
  unfold send; simp only; split
  · rename_i h; simp [h]
  · rename_i h; split <;> simp_all

/-- append-only: a call leaves the log alone or appends exactly one id (only a send does) -/
theorem log_step (σ : State) (c : Call) :
    (step σ c).1.log = σ.log ∨
      (σ.noRecv = false ∧ (step σ c).1.log = σ.log ++ [σ.nextVid] ∧
        ∃ h, c = Call.trySend h ∨ c = Call.startSend h) := by
  cases c with
  | trySend h =>
    simp only [step]; split
    · left; rfl
    · split
      · by_cases hk : (send σ).2.1 = SendOut.ok
        · right; exact ⟨((send_ok_iff σ).mp hk).1, by rw [send_log, if_pos hk], h, Or.inl rfl⟩
        · left; show (send σ).1.log = σ.log; rw [send_log, if_neg hk]
      · left; rfl
  | startSend h =>
    simp only [step]; split
    · left; rfl
    · split
      · by_cases hk : (send σ).2.1 = SendOut.ok
        · right; exact ⟨((send_ok_iff σ).mp hk).1, by rw [send_log, if_pos hk], h, Or.inr rfl⟩
        · left; show (send σ).1.log = σ.log; rw [send_log, if_neg hk]
      · left; rfl
  | _ => left; simp only [step] <;> (repeat' split) <;> simp [dropSend, addStream, setRole]

theorem log_prefix_step (σ : State) (c : Call) : σ.log <+: (step σ c).1.log := by
  rcases log_step σ c with h | ⟨_, h, _⟩ <;> rw [h]
  · exact List.prefix_refl _
  · exact List.prefix_append _ _

theorem log_prefix_run (σ : State) (cs : List Call) : σ.log <+: (run σ cs).log := by
  induction cs generalizing σ with
  | nil => exact List.prefix_refl _
  | cons c cs ih => exact List.IsPrefix.trans (log_prefix_step σ c) (ih _)


/-! ## (a) the window — C03, sequentially -/

theorem N_reachable (b f : Bool) (cap : Nat) (cs : List Call) :
    (run (init b f cap) cs).N = validWrap cap := by
  rw [N_run]; rfl

/-- In every reachable state every live stream is at most `N` positions behind the head. -/
theorem window_run (b f : Bool) (cap : Nat) (cs : List Call) (s c : Nat)
    (h : (run (init b f cap) cs).cur s = some c) :
    (run (init b f cap) cs).log.length - c ≤ validWrap cap := by
  have := (wf_reachable b f cap cs).window s c h
  rwa [N_reachable] at this

/-- ... and from any well-formed state onwards -/
theorem window_from {σ : State} (w : WF σ) (cs : List Call) (s c : Nat)
    (h : (run σ cs).cur s = some c) : (run σ cs).log.length - c ≤ σ.N := by
  have := (wf_run w cs).window s c h
  rwa [N_run] at this

/-- a send is accepted exactly when the flag is down and every live stream has room -/
theorem send_accept_iff {σ : State} (w : WF σ) :
    (send σ).2.1 = SendOut.ok ↔
      (σ.noRecv = false ∧ ∀ s c, σ.cur s = some c → σ.log.length - c < σ.N) := by
  rw [send_ok_iff]
  constructor
  · intro ⟨h1, h2⟩
    exact ⟨h1, fun s c hc => hasRoom_spec h2 s c (w.curLt s c hc) hc⟩
  · intro ⟨h1, h2⟩
    refine ⟨h1, ?_⟩
    unfold hasRoom
    rw [List.all_eq_true]
    intro s _
    cases hc : σ.cur s with
    | none => rfl
    | some c => simp; exact h2 s c hc

/-! ## (c) no receivers left — C13 -/

@[simp] theorem send_noRecv (σ : State) : (send σ).1.noRecv = σ.noRecv := by
  unfold send; simp only; split; rfl; split <;> rfl
@[simp] theorem recvOn_noRecv (σ : State) (s : Nat) (cl : Bool) : (recvOn σ s cl).1.noRecv = σ.noRecv := by
  unfold recvOn; split; rfl; split; (split <;> rfl); (split <;> rfl)
@[simp] theorem teardown_noRecv (σ : State) : (teardown σ).noRecv = σ.noRecv := by
  unfold teardown; split; (split <;> rfl); rfl
@[simp] theorem intoMultiFut_noRecv (σ : State) (h : Nat) (x : Slot) :
    (intoMultiFut σ h x).noRecv = σ.noRecv := by
  unfold intoMultiFut; simp only; split <;> rfl
theorem dropRecv_noRecv (σ : State) (h : Nat) (x : Slot) (hn : σ.noRecv = true) :
    (dropRecv σ h x).noRecv = true := by
  unfold dropRecv; simp only; split <;> simp [hn]

/-- the no-receiver flag is never cleared -/
theorem noRecv_step (σ : State) (c : Call) (hn : σ.noRecv = true) : (step σ c).1.noRecv = true := by
  cases c <;> simp only [step] <;> (repeat' split) <;>
    simp [badSend, dropSend, addStream, setRole, dropRecv_noRecv, hn]

theorem noRecv_run (σ : State) (cs : List Call) (hn : σ.noRecv = true) : (run σ cs).noRecv = true := by
  induction cs generalizing σ with
  | nil => exact hn
  | cons c cs ih => exact ih _ (noRecv_step σ c hn)

/-- with the flag up the log never changes again -/
theorem log_step_noRecv (σ : State) (c : Call) (hn : σ.noRecv = true) : (step σ c).1.log = σ.log := by
  rcases log_step σ c with h | ⟨h, _⟩
  · exact h
  · rw [hn] at h; cases h

theorem log_run_noRecv (σ : State) (cs : List Call) (hn : σ.noRecv = true) : (run σ cs).log = σ.log := by
  induction cs generalizing σ with
  | nil => rfl
  | cons c cs ih => simp only [run]; rw [ih _ (noRecv_step σ c hn), log_step_noRecv σ c hn]

/-- `try_send` on a live sender with the flag up hands the value back as Disconnected -/
theorem trySend_noRecv {σ : State} {h : Nat} {x : Slot} (hx : getSlot σ h = some x)
    (hr : x.role = Role.S) (hn : σ.noRecv = true) :
    (step σ (Call.trySend h)).2 = Result.discV σ.nextVid ∧ (step σ (Call.trySend h)).1.log = σ.log := by
  obtain ⟨h1, h2, h3⟩ := send_noRecv_out hn
  simp only [step, hx, hr, if_true]
  rw [h1, h2]; exact ⟨rfl, h3⟩

/-- `start_send` on a live futures sender with the flag up resolves to an error -/
theorem startSend_noRecv {σ : State} {h : Nat} {x : Slot} (hx : getSlot σ h = some x)
    (hr : x.role = Role.S) (hf : σ.fut = true) (hn : σ.noRecv = true) :
    (step σ (Call.startSend h)).2 = Result.errV σ.nextVid ∧ (step σ (Call.startSend h)).1.log = σ.log := by
  obtain ⟨h1, h2, h3⟩ := send_noRecv_out hn
  simp only [step, hx, hr, hf, and_self, if_true]
  rw [h1, h2]; exact ⟨rfl, h3⟩

/-- C13 for whole runs: once the flag is set (the last stream was removed), after any further
calls `cs` it is still set, the log is what it was, and a send on any live sender handle is
refused with the caller's value (`disc v` / `err v`). -/
theorem sends_after_noRecv_run {σ : State} (hn : σ.noRecv = true) (cs : List Call) :
    (run σ cs).noRecv = true ∧ (run σ cs).log = σ.log ∧
    ∀ h x, getSlot (run σ cs) h = some x → x.role = Role.S →
      (step (run σ cs) (Call.trySend h)).2 = Result.discV (run σ cs).nextVid ∧
      (step (run σ cs) (Call.trySend h)).1.log = σ.log ∧
      ((run σ cs).fut = true →
        (step (run σ cs) (Call.startSend h)).2 = Result.errV (run σ cs).nextVid ∧
        (step (run σ cs) (Call.startSend h)).1.log = σ.log) := by
  have h1 := noRecv_run σ cs hn
  have h2 := log_run_noRecv σ cs hn
  refine ⟨h1, h2, ?_⟩
  intro h x hx hr
  have a := trySend_noRecv hx hr h1
  refine ⟨a.1, by rw [a.2, h2], ?_⟩
  intro hf
  have b := startSend_noRecv hx hr hf h1
  exact ⟨b.1, by rw [b.2, h2]⟩

/-- the flag is raised exactly by the removal of the last stream: in well-formed states it is
equivalent to "no stream is live" -/
theorem noRecv_iff_no_stream (b f : Bool) (cap : Nat) (cs : List Call) :
    (run (init b f cap) cs).noRecv = true ↔ ∀ s, (run (init b f cap) cs).cur s = none :=
  (wf_reachable b f cap cs).noRecvIff


/-! ## (b) cursors and delivered values — C01 / C02, sequentially -/

/-- the calls that receive, and the slot they receive on -/
def Call.recvSlot : Call → Option Nat
  | .tryRecv h => some h
  | .recv h => some h
  | .tryRecvView h => some h
  | .recvView h => some h
  | .poll h => some h
  | _ => Option.none

/-- the value a receive call delivered, if any -/
def Result.delivered : Result → Option Nat
  | .okV v => some v
  | .someV v => some v
  | _ => Option.none

theorem cursor_le_head (b f : Bool) (cap : Nat) (cs : List Call) (s c : Nat)
    (h : (run (init b f cap) cs).cur s = some c) : c ≤ (run (init b f cap) cs).log.length :=
  (wf_reachable b f cap cs).curLe s c h

theorem recvOn_val {σ : State} {sid : Nat} {cl : Bool} {v : Nat}
    (h : (recvOn σ sid cl).2 = RecvOut.val v) :
    ∃ k, σ.cur sid = some k ∧ σ.log[k]? = some v ∧
      (recvOn σ sid cl).1.cur sid = some (k + 1) ∧
      (∀ s, s ≠ sid → (recvOn σ sid cl).1.cur s = σ.cur s) := by
  cases hk : σ.cur sid with
  | none => simp [recvOn, hk] at h
  | some k =>
    cases hv : σ.log[k]? with
    | none =>
      simp only [recvOn, hk, hv] at h
      split at h <;> cases h
    | some v' =>
      by_cases hb : σ.bcast = true
      · simp [recvOn, hk, hv, hb] at h ⊢
        subst h
        exact ⟨rfl, fun s hs => by simp [hs]⟩
      · simp [recvOn, hk, hv, hb] at h ⊢
        subst h
        exact ⟨rfl, fun s hs => by simp [hs]⟩

theorem recvOn_noval {σ : State} {sid : Nat} {cl : Bool}
    (h : ∀ v, (recvOn σ sid cl).2 ≠ RecvOut.val v) : (recvOn σ sid cl).1 = σ := by
  cases hk : σ.cur sid with
  | none => simp [recvOn, hk]
  | some k =>
    cases hv : σ.log[k]? with
    | none =>
      simp only [recvOn, hk, hv]
      split <;> rfl
    | some v' =>
      exfalso
      apply h v'
      by_cases hb : σ.bcast = true <;> simp [recvOn, hk, hv, hb]

theorem tryResult_delivered {r : RecvOut} {v : Nat} (h : (tryResult r).delivered = some v) :
    r = RecvOut.val v := by
  cases r <;> simp [tryResult, Result.delivered] at h ⊢; exact h
theorem blockResult_delivered {r : RecvOut} {v : Nat} (h : (blockResult r).delivered = some v) :
    r = RecvOut.val v := by
  cases r <;> simp [blockResult, Result.delivered] at h ⊢; exact h
theorem pollResult_delivered {r : RecvOut} {v : Nat} (h : (pollResult r).delivered = some v) :
    r = RecvOut.val v := by
  cases r <;> simp [pollResult, Result.delivered] at h ⊢; exact h

/-- Every successful receive (`ok v` / `some v`) through handle `h` returns exactly the log entry
at the cursor of the handle's stream and advances that cursor by one; no other cursor moves and
the log is untouched. -/
theorem recv_delivers {σ : State} {c : Call} {h v : Nat} (hc : c.recvSlot = some h)
    (hv : (step σ c).2.delivered = some v) :
    ∃ x k, getSlot σ h = some x ∧ x.role ≠ Role.S ∧ σ.cur x.strm = some k ∧ σ.log[k]? = some v ∧
      (step σ c).1.cur x.strm = some (k + 1) ∧
      (∀ s, s ≠ x.strm → (step σ c).1.cur s = σ.cur s) ∧
      (step σ c).1.log = σ.log := by
  cases c with
  | tryRecv h' =>
    simp [Call.recvSlot] at hc; subst hc
    simp only [step] at hv ⊢
    cases hx : getSlot σ h' with
    | none => simp [hx, Result.delivered] at hv
    | some x =>
      simp only [hx] at hv ⊢
      by_cases hr : x.role = Role.S
      · simp [hr, Result.delivered] at hv
      · simp only [hr, if_false] at hv ⊢
        obtain ⟨k, a, b, c, d⟩ := recvOn_val (tryResult_delivered hv)
        exact ⟨x, k, rfl, hr, a, b, c, d, by simp⟩
  | recv h' =>
    simp [Call.recvSlot] at hc; subst hc
    simp only [step] at hv ⊢
    cases hx : getSlot σ h' with
    | none => simp [hx, Result.delivered] at hv
    | some x =>
      simp only [hx] at hv ⊢
      by_cases hr : x.role = Role.S
      · simp [hr, Result.delivered] at hv
      · simp only [hr, if_false] at hv ⊢
        obtain ⟨k, a, b, c, d⟩ := recvOn_val (blockResult_delivered hv)
        exact ⟨x, k, rfl, hr, a, b, c, d, by simp⟩
  | tryRecvView h' =>
    simp [Call.recvSlot] at hc; subst hc
    simp only [step] at hv ⊢
    cases hx : getSlot σ h' with
    | none => simp [hx, Result.delivered] at hv
    | some x =>
      simp only [hx] at hv ⊢
      by_cases hr : x.role = Role.U ∧ σ.fut = false
      · simp only [hr, and_self, if_true] at hv ⊢
        obtain ⟨k, a, b, c, d⟩ := recvOn_val (tryResult_delivered hv)
        exact ⟨x, k, rfl, by rw [hr.1]; decide, a, b, c, d, by simp⟩
      · simp [hr, Result.delivered] at hv
  | recvView h' =>
    simp [Call.recvSlot] at hc; subst hc
    simp only [step] at hv ⊢
    cases hx : getSlot σ h' with
    | none => simp [hx, Result.delivered] at hv
    | some x =>
      simp only [hx] at hv ⊢
      by_cases hr : x.role = Role.U ∧ σ.fut = false
      · simp only [hr, and_self, if_true] at hv ⊢
        obtain ⟨k, a, b, c, d⟩ := recvOn_val (blockResult_delivered hv)
        exact ⟨x, k, rfl, by rw [hr.1]; decide, a, b, c, d, by simp⟩
      · simp [hr, Result.delivered] at hv
  | poll h' =>
    simp [Call.recvSlot] at hc; subst hc
    simp only [step] at hv ⊢
    cases hx : getSlot σ h' with
    | none => simp [hx, Result.delivered] at hv
    | some x =>
      simp only [hx] at hv ⊢
      by_cases hr : x.role ≠ Role.S ∧ σ.fut = true
      · rw [if_pos hr] at hv ⊢
        obtain ⟨k, a, b, c, d⟩ := recvOn_val (pollResult_delivered hv)
        exact ⟨x, k, rfl, hr.1, a, b, c, d, by simp⟩
      · simp [hr, Result.delivered] at hv
  | _ => simp [Call.recvSlot] at hc


/-! ## (e) `unsubscribe` — C11 -/

/-- what `unsubscribe` on a live receiver handle returns: `()` for the plain broadcast
single-consumer receiver, otherwise the boolean "the stream had exactly one handle" -/
theorem unsub_result {σ : State} (w : WF σ) {h : Nat} {x : Slot} (hx : getSlot σ h = some x)
    (hr : x.role ≠ Role.S) :
    (step σ (Call.unsub h)).2 =
      if x.role = Role.U ∧ σ.bcast = true ∧ σ.fut = false then Result.unit
      else Result.bool (decide (countR σ.slots x.strm = 1)) := by
  simp only [step, hx, hr, if_false]
  split
  · rfl
  · rw [w.cntEq]

/-- C11: the boolean is `true` exactly when the handle was the last one on its stream -/
theorem unsub_bool_iff {σ : State} (w : WF σ) {h : Nat} {x : Slot} (hx : getSlot σ h = some x)
    (hr : x.role ≠ Role.S) {b : Bool} (hb : (step σ (Call.unsub h)).2 = Result.bool b) :
    b = true ↔ countR σ.slots x.strm = 1 := by
  rw [unsub_result w hx hr] at hb
  split at hb
  · cases hb
  · simp at hb; rw [← hb]; simp

theorem countP_eq_one_iff {p : Slot → Bool} {l : List Slot} {i : Nat} (hi : i < l.length)
    (hp : p l[i] = true) :
    l.countP p = 1 ↔ ∀ j (hj : j < l.length), j ≠ i → p l[j] = false := by
  induction l generalizing i with
  | nil => simp at hi
  | cons a l ih =>
    cases i with
    | zero =>
      simp at hp
      simp only [List.countP_cons, hp, if_true]
      constructor
      · intro h0 j hj hne
        have h0' : l.countP p = 0 := by omega
        rw [List.countP_eq_zero] at h0'
        cases j with
        | zero => exact absurd rfl hne
        | succ j =>
          simp at hj ⊢
          have := h0' l[j] (List.getElem_mem _)
          simpa using this
      · intro hall
        have : l.countP p = 0 := by
          rw [List.countP_eq_zero]
          intro b hb
          obtain ⟨j, hj, rfl⟩ := List.getElem_of_mem hb
          have := hall (j + 1) (by simp; omega) (by omega)
          simpa using this
        omega
    | succ i =>
      simp at hi hp
      have hpos : 0 < l.countP p := countP_pos_of_getElem hi hp
      simp only [List.countP_cons]
      by_cases ha : p a = true
      · simp only [ha, if_true]
        constructor
        · intro h0; omega
        · intro hall
          have := hall 0 (by simp) (by omega)
          simp [ha] at this
      · simp only [ha, if_false, Nat.add_zero, Bool.false_eq_true]
        rw [ih hi hp]
        constructor
        · intro hall j hj hne
          cases j with
          | zero => simpa using ha
          | succ j =>
            simp at hj ⊢
            exact hall j hj (by omega)
        · intro hall j hj hne
          have := hall (j + 1) (by simp; omega) (by omega)
          simpa using this

/-- C11, spelled out on the handle table: `unsubscribe` returns `true` exactly when no *other*
live receiver handle is on the same stream. -/
theorem unsub_true_iff_only_handle {σ : State} (w : WF σ) {h : Nat} {x : Slot}
    (hx : getSlot σ h = some x) (hr : x.role ≠ Role.S) {b : Bool}
    (hb : (step σ (Call.unsub h)).2 = Result.bool b) :
    b = true ↔ ∀ j y, j ≠ h → getSlot σ j = some y → y.role ≠ Role.S → y.strm ≠ x.strm := by
  rw [unsub_bool_iff w hx hr hb]
  have hi := getSlot_lt hx
  have hp : (fun y : Slot => y.isRecvOn x.strm) (σ.slots[h]'hi) = true := by
    rw [getSlot_getElem hx]; exact (recv_slot_facts w hx hr).1
  unfold countR
  rw [countP_eq_one_iff hi hp]
  constructor
  · intro hall j y hne hy hyr hys
    have hj := getSlot_lt hy
    have := hall j hj hne
    rw [getSlot_getElem hy] at this
    simp [Slot.isRecvOn, (getSlot_some hy).2, hyr, hys] at this
  · intro hall j hj hne
    cases hl : (σ.slots[j]'hj).live with
    | false => simp [Slot.isRecvOn, hl]
    | true =>
      have hy : getSlot σ j = some (σ.slots[j]'hj) := by
        unfold getSlot; simp [List.getElem?_eq_getElem hj, hl]
      by_cases hyr : (σ.slots[j]'hj).role = Role.S
      · simp [Slot.isRecvOn, hyr]
      · have := hall j _ hne hy hyr
        simp [Slot.isRecvOn, this]


/-! ## more frame facts: cursors, sender count, stream ids -/

@[simp] theorem send_cur (σ : State) : (send σ).1.cur = σ.cur := by
  unfold send; simp only; split; rfl; split <;> rfl
@[simp] theorem send_senders (σ : State) : (send σ).1.senders = σ.senders := by
  unfold send; simp only; split; rfl; split <;> rfl
@[simp] theorem send_nextStrm (σ : State) : (send σ).1.nextStrm = σ.nextStrm := by
  unfold send; simp only; split; rfl; split <;> rfl
@[simp] theorem recvOn_senders (σ : State) (s : Nat) (cl : Bool) : (recvOn σ s cl).1.senders = σ.senders := by
  unfold recvOn; split; rfl; split; (split <;> rfl); (split <;> rfl)
@[simp] theorem recvOn_nextStrm (σ : State) (s : Nat) (cl : Bool) : (recvOn σ s cl).1.nextStrm = σ.nextStrm := by
  unfold recvOn; split; rfl; split; (split <;> rfl); (split <;> rfl)
@[simp] theorem teardown_cur (σ : State) : (teardown σ).cur = σ.cur := by
  unfold teardown; split; (split <;> rfl); rfl
@[simp] theorem teardown_senders (σ : State) : (teardown σ).senders = σ.senders := by
  unfold teardown; split; (split <;> rfl); rfl
@[simp] theorem teardown_nextStrm (σ : State) : (teardown σ).nextStrm = σ.nextStrm := by
  unfold teardown; split; (split <;> rfl); rfl
@[simp] theorem dropRecv_senders (σ : State) (h : Nat) (x : Slot) : (dropRecv σ h x).senders = σ.senders := by
  unfold dropRecv; simp only; split <;> rfl
@[simp] theorem dropRecv_nextStrm (σ : State) (h : Nat) (x : Slot) : (dropRecv σ h x).nextStrm = σ.nextStrm := by
  unfold dropRecv; simp only; split <;> rfl
@[simp] theorem intoMultiFut_senders (σ : State) (h : Nat) (x : Slot) : (intoMultiFut σ h x).senders = σ.senders := by
  unfold intoMultiFut; simp only; split <;> rfl
@[simp] theorem intoMultiFut_nextStrm (σ : State) (h : Nat) (x : Slot) :
    (intoMultiFut σ h x).nextStrm = σ.nextStrm + 1 := by
  unfold intoMultiFut; simp only; split <;> rfl

theorem dropRecv_cur (σ : State) (h : Nat) (x : Slot) (s : Nat) :
    (dropRecv σ h x).cur s = σ.cur s ∨ (dropRecv σ h x).cur s = Option.none := by
  unfold dropRecv; simp only; split
  · by_cases hs : s = x.strm <;> simp [hs]
  · left; rfl

theorem intoMultiFut_cur (σ : State) (h : Nat) (x : Slot) (s : Nat) (hs : s ≠ σ.nextStrm) :
    (intoMultiFut σ h x).cur s = σ.cur s ∨ (intoMultiFut σ h x).cur s = Option.none := by
  unfold intoMultiFut; simp only; split
  · by_cases hs2 : s = x.strm
    · right; simp [hs2]; intro e; exact absurd (hs2 ▸ e) hs
    · left; simp [hs, hs2]
  · left; simp [hs]

theorem addStream_cur (σ : State) (x : Slot) (s : Nat) (hs : s ≠ σ.nextStrm) :
    (addStream σ x).cur s = σ.cur s := by
  unfold addStream; simp [hs]

/-- a receive moves at most the cursor of its own stream, by one, delivering the log entry there -/
theorem recvOn_cur_cases (σ : State) (sid : Nat) (cl : Bool) (s k : Nat) (hk : σ.cur s = some k) :
    (recvOn σ sid cl).1.cur s = some k ∨
      (sid = s ∧ (recvOn σ sid cl).1.cur s = some (k + 1) ∧
        ∃ v, (recvOn σ sid cl).2 = RecvOut.val v ∧ σ.log[k]? = some v) := by
  by_cases hv : ∃ v, (recvOn σ sid cl).2 = RecvOut.val v
  · obtain ⟨v, hv⟩ := hv
    obtain ⟨k', a, b, c, d⟩ := recvOn_val hv
    by_cases hs : s = sid
    · subst hs
      rw [hk] at a; cases a
      right; exact ⟨rfl, c, v, hv, b⟩
    · left; rw [d s hs]; exact hk
  · left
    rw [recvOn_noval (fun v hv' => hv ⟨v, hv'⟩)]; exact hk

theorem tryResult_val (r : RecvOut) (v : Nat) (h : r = RecvOut.val v) : (tryResult r).delivered = some v := by
  subst h; rfl
theorem blockResult_val (r : RecvOut) (v : Nat) (h : r = RecvOut.val v) : (blockResult r).delivered = some v := by
  subst h; rfl
theorem pollResult_val (r : RecvOut) (v : Nat) (h : r = RecvOut.val v) : (pollResult r).delivered = some v := by
  subst h; rfl

/-- Cursor frame (the "in order" half of C01/C02): one call leaves the cursor of a live stream
where it was, or removes the stream, or — only a successful receive through a handle of that very
stream — advances it by exactly one while delivering the log entry it pointed at. -/
theorem cur_frame {σ : State} (w : WF σ) (c : Call) (s k : Nat) (hk : σ.cur s = some k) :
    (step σ c).1.cur s = some k ∨ (step σ c).1.cur s = Option.none ∨
    ((step σ c).1.cur s = some (k + 1) ∧
      ∃ h x v, c.recvSlot = some h ∧ getSlot σ h = some x ∧ x.strm = s ∧
        (step σ c).2.delivered = some v ∧ σ.log[k]? = some v) := by
  have hlt : s ≠ σ.nextStrm := by have := w.curLt s k hk; omega
  cases c with
  | trySend h =>
    left; simp only [step]; split
    · exact hk
    · split <;> simp [badSend, hk]
  | startSend h =>
    left; simp only [step]; split
    · exact hk
    · split <;> simp [badSend, hk]
  | pollComplete h =>
    left; simp only [step]; split
    · exact hk
    · split <;> exact hk
  | tryRecv h =>
    simp only [step]
    cases hx : getSlot σ h with
    | none => left; exact hk
    | some x =>
      simp only []
      by_cases hr : x.role = Role.S
      · left; simp [hr, hk]
      · simp only [hr, if_false]
        rcases recvOn_cur_cases σ x.strm (clonesOut σ x) s k hk with h1 | ⟨h1, h2, v, h3, h4⟩
        · left; exact h1
        · right; right
          exact ⟨h2, h, x, v, rfl, hx, h1, tryResult_val _ _ h3, h4⟩
  | recv h =>
    simp only [step]
    cases hx : getSlot σ h with
    | none => left; exact hk
    | some x =>
      simp only []
      by_cases hr : x.role = Role.S
      · left; simp [hr, hk]
      · simp only [hr, if_false]
        rcases recvOn_cur_cases σ x.strm (clonesOut σ x) s k hk with h1 | ⟨h1, h2, v, h3, h4⟩
        · left; exact h1
        · right; right
          exact ⟨h2, h, x, v, rfl, hx, h1, blockResult_val _ _ h3, h4⟩
  | tryRecvView h =>
    simp only [step]
    cases hx : getSlot σ h with
    | none => left; exact hk
    | some x =>
      simp only []
      by_cases hr : x.role = Role.U ∧ σ.fut = false
      · rw [if_pos hr]
        rcases recvOn_cur_cases σ x.strm false s k hk with h1 | ⟨h1, h2, v, h3, h4⟩
        · left; exact h1
        · right; right
          exact ⟨h2, h, x, v, rfl, hx, h1, tryResult_val _ _ h3, h4⟩
      · left; rw [if_neg hr]; exact hk
  | recvView h =>
    simp only [step]
    cases hx : getSlot σ h with
    | none => left; exact hk
    | some x =>
      simp only []
      by_cases hr : x.role = Role.U ∧ σ.fut = false
      · rw [if_pos hr]
        rcases recvOn_cur_cases σ x.strm false s k hk with h1 | ⟨h1, h2, v, h3, h4⟩
        · left; exact h1
        · right; right
          exact ⟨h2, h, x, v, rfl, hx, h1, blockResult_val _ _ h3, h4⟩
      · left; rw [if_neg hr]; exact hk
  | poll h =>
    simp only [step]
    cases hx : getSlot σ h with
    | none => left; exact hk
    | some x =>
      simp only []
      by_cases hr : x.role ≠ Role.S ∧ σ.fut = true
      · rw [if_pos hr]
        rcases recvOn_cur_cases σ x.strm (clonesOut σ x) s k hk with h1 | ⟨h1, h2, v, h3, h4⟩
        · left; exact h1
        · right; right
          exact ⟨h2, h, x, v, rfl, hx, h1, pollResult_val _ _ h3, h4⟩
      · left; rw [if_neg hr]; exact hk
  | clone h =>
    left; simp only [step]; split
    · exact hk
    · split <;> exact hk
  | addStream h =>
    left; simp only [step]; split
    · exact hk
    · split
      · show (addStream σ _).cur s = some k
        rw [addStream_cur σ _ s hlt]; exact hk
      · exact hk
  | drop h =>
    simp only [step]; split
    · left; exact hk
    · rename_i x hx
      split
      · left; simp [dropSend, hk]
      · rcases dropRecv_cur σ h x s with h1 | h1
        · left; simp [h1, hk]
        · right; left; simp [h1]
  | unsub h =>
    simp only [step]; split
    · left; exact hk
    · rename_i x hx
      split
      · left; simp [dropSend, hk]
      · split
        · rcases dropRecv_cur σ h x s with h1 | h1
          · left; simp [h1, hk]
          · right; left; simp [h1]
        · rcases dropRecv_cur σ h x s with h1 | h1
          · left; simp [h1, hk]
          · right; left; simp [h1]
  | intoSingle h =>
    left; simp only [step]; split
    · exact hk
    · split
      · split <;> exact hk
      · exact hk
  | intoMulti h =>
    simp only [step]; split
    · left; exact hk
    · rename_i x hx
      split
      · split
        · rcases intoMultiFut_cur σ h x s hlt with h1 | h1
          · left; simp [h1, hk]
          · right; left; simp [h1]
        · left; exact hk
      · left; exact hk


/-! ## (d) the end of a stream — C07, sequentially -/

/-- a receive reported the end of the stream: `Disconnected` / `RecvError` / `Ready(None)` -/
def Result.isEnd : Result → Prop
  | .disc => True
  | .none => True
  | _ => False

/-- stream `s` is over: no sender is left and the stream (if it still exists) is drained -/
structure Ended (σ : State) (s : Nat) : Prop where
  noSenders : σ.senders = 0
  lt : s < σ.nextStrm
  drained : ∀ k, σ.cur s = some k → k = σ.log.length

theorem recvOn_ended {σ : State} {sid : Nat} {cl : Bool} (h : (recvOn σ sid cl).2 = RecvOut.ended) :
    σ.senders = 0 ∧ ∃ k, σ.cur sid = some k ∧ σ.log[k]? = Option.none := by
  cases hk : σ.cur sid with
  | none => simp [recvOn, hk] at h
  | some k =>
    cases hv : σ.log[k]? with
    | none =>
      simp only [recvOn, hk, hv] at h
      split at h
      · rename_i h0; exact ⟨h0, k, rfl, hv⟩
      · cases h
    | some v' =>
      by_cases hb : σ.bcast = true <;> simp [recvOn, hk, hv, hb] at h

theorem tryResult_end {r : RecvOut} (h : (tryResult r).isEnd) : r = RecvOut.ended := by
  cases r <;> simp [tryResult, Result.isEnd] at h ⊢
theorem blockResult_end {r : RecvOut} (h : (blockResult r).isEnd) : r = RecvOut.ended := by
  cases r <;> simp [blockResult, Result.isEnd] at h ⊢
theorem pollResult_end {r : RecvOut} (h : (pollResult r).isEnd) : r = RecvOut.ended := by
  cases r <;> simp [pollResult, Result.isEnd] at h ⊢

theorem ended_of_recvOn {σ : State} (w : WF σ) {sid : Nat} {cl : Bool}
    (h : (recvOn σ sid cl).2 = RecvOut.ended) : Ended σ sid := by
  obtain ⟨h0, k, hk, hv⟩ := recvOn_ended h
  refine ⟨h0, w.curLt sid k hk, ?_⟩
  intro k' hk'
  rw [hk] at hk'; cases hk'
  have h1 := w.curLe sid k hk
  have h2 : σ.log.length ≤ k := by
    rw [List.getElem?_eq_none_iff] at hv; exact hv
  omega

/-- (d), first half: when a receive through a live handle reports the end, no sender is alive
and the handle's stream is drained. -/
theorem end_gives_ended {σ : State} (w : WF σ) {c : Call} {h : Nat} {x : Slot}
    (hc : c.recvSlot = some h) (hx : getSlot σ h = some x) (he : (step σ c).2.isEnd) :
    Ended σ x.strm := by
  cases c with
  | tryRecv h' =>
    simp [Call.recvSlot] at hc; subst hc
    simp only [step, hx] at he
    by_cases hr : x.role = Role.S
    · simp [hr, Result.isEnd] at he
    · simp only [hr, if_false] at he
      exact ended_of_recvOn w (tryResult_end he)
  | recv h' =>
    simp [Call.recvSlot] at hc; subst hc
    simp only [step, hx] at he
    by_cases hr : x.role = Role.S
    · simp [hr, Result.isEnd] at he
    · simp only [hr, if_false] at he
      exact ended_of_recvOn w (blockResult_end he)
  | tryRecvView h' =>
    simp [Call.recvSlot] at hc; subst hc
    simp only [step, hx] at he
    by_cases hr : x.role = Role.U ∧ σ.fut = false
    · rw [if_pos hr] at he
      exact ended_of_recvOn w (tryResult_end he)
    · rw [if_neg hr] at he; simp [Result.isEnd] at he
  | recvView h' =>
    simp [Call.recvSlot] at hc; subst hc
    simp only [step, hx] at he
    by_cases hr : x.role = Role.U ∧ σ.fut = false
    · rw [if_pos hr] at he
      exact ended_of_recvOn w (blockResult_end he)
    · rw [if_neg hr] at he; simp [Result.isEnd] at he
  | poll h' =>
    simp [Call.recvSlot] at hc; subst hc
    simp only [step, hx] at he
    by_cases hr : x.role ≠ Role.S ∧ σ.fut = true
    · rw [if_pos hr] at he
      exact ended_of_recvOn w (pollResult_end he)
    · rw [if_neg hr] at he; simp [Result.isEnd] at he
  | _ => simp [Call.recvSlot] at hc

theorem end_senders_zero {σ : State} (w : WF σ) {c : Call} {h : Nat} {x : Slot}
    (hc : c.recvSlot = some h) (hx : getSlot σ h = some x) (he : (step σ c).2.isEnd) :
    σ.senders = 0 := (end_gives_ended w hc hx he).noSenders

/-- with no sender counted there is no live sender handle -/
theorem no_sender_slot {σ : State} (w : WF σ) (h0 : σ.senders = 0) {h : Nat} {x : Slot}
    (hx : getSlot σ h = some x) : x.role ≠ Role.S := by
  intro hr
  have h1 : countS σ.slots = 0 := by rw [← w.sendersEq]; exact h0
  unfold countS at h1
  rw [List.countP_eq_zero] at h1
  have := h1 x (getSlot_mem hx)
  simp [Slot.isSender, hr, (getSlot_some hx).2] at this

theorem recvOn_ended_state {σ : State} {s : Nat} (e : Ended σ s) (sid : Nat) (cl : Bool) :
    Ended (recvOn σ sid cl).1 s := by
  refine ⟨by simp [e.noSenders], by simp [e.lt], ?_⟩
  intro k hk
  simp only [recvOn_log]
  cases hc : σ.cur s with
  | none =>
    -- the stream does not exist; a receive cannot create it
    exfalso
    by_cases hv : ∃ v, (recvOn σ sid cl).2 = RecvOut.val v
    · obtain ⟨v, hv⟩ := hv
      obtain ⟨k', a, b, c, d⟩ := recvOn_val hv
      by_cases hs : s = sid
      · subst hs; rw [hc] at a; cases a
      · rw [d s hs, hc] at hk; cases hk
    · rw [recvOn_noval (fun v hv' => hv ⟨v, hv'⟩), hc] at hk; cases hk
  | some k0 =>
    have hk0 := e.drained k0 hc
    rcases recvOn_cur_cases σ sid cl s k0 hc with h1 | ⟨_, _, v, _, h4⟩
    · rw [h1] at hk; cases hk; exact hk0
    · exfalso
      rw [hk0] at h4
      have : σ.log[σ.log.length]? = Option.none := List.getElem?_eq_none_iff.mpr (Nat.le_refl _)
      rw [this] at h4; cases h4

/-- (d), the invariant: once a stream is over it stays over, whatever is called next -/
theorem ended_step {σ : State} (w : WF σ) {s : Nat} (e : Ended σ s) (c : Call) :
    Ended (step σ c).1 s := by
  have hlt : s ≠ σ.nextStrm := by have := e.lt; omega
  have hns : ∀ {h x}, getSlot σ h = some x → x.role ≠ Role.S := fun hx => no_sender_slot w e.noSenders hx
  cases c with
  | trySend h =>
    simp only [step]; split
    · exact e
    · rename_i x hx
      simp only [hns hx, if_false]
      exact ⟨e.noSenders, e.lt, e.drained⟩
  | startSend h =>
    simp only [step]; split
    · exact e
    · rename_i x hx
      have : ¬ (x.role = Role.S ∧ σ.fut = true) := fun hh => hns hx hh.1
      rw [if_neg this]
      exact ⟨e.noSenders, e.lt, e.drained⟩
  | pollComplete h =>
    simp only [step]; split
    · exact e
    · split <;> exact e
  | tryRecv h =>
    simp only [step]; split
    · exact e
    · split
      · exact e
      · exact recvOn_ended_state e _ _
  | recv h =>
    simp only [step]; split
    · exact e
    · split
      · exact e
      · exact recvOn_ended_state e _ _
  | tryRecvView h =>
    simp only [step]; split
    · exact e
    · split
      · exact recvOn_ended_state e _ _
      · exact e
  | recvView h =>
    simp only [step]; split
    · exact e
    · split
      · exact recvOn_ended_state e _ _
      · exact e
  | poll h =>
    simp only [step]; split
    · exact e
    · split
      · exact recvOn_ended_state e _ _
      · exact e
  | clone h =>
    simp only [step]; split
    · exact e
    · rename_i x hx
      split
      · rename_i hr; exact absurd hr (hns hx)
      · exact ⟨e.noSenders, e.lt, e.drained⟩
      · exact ⟨e.noSenders, e.lt, e.drained⟩
  | addStream h =>
    simp only [step]; split
    · exact e
    · rename_i x hx
      split
      · refine ⟨e.noSenders, ?_, ?_⟩
        · show s < σ.nextStrm + 1; have := e.lt; omega
        · intro k hk
          rw [addStream_cur σ x s hlt] at hk
          exact e.drained k hk
      · refine ⟨e.noSenders, ?_, e.drained⟩
        show s < σ.nextStrm + 1; have := e.lt; omega
  | drop h =>
    simp only [step]; split
    · exact e
    · rename_i x hx
      simp only [hns hx, if_false]
      refine ⟨by simp [e.noSenders], by simp [e.lt], ?_⟩
      intro k hk
      simp only [teardown_cur, teardown_log, dropRecv_log] at hk ⊢
      rcases dropRecv_cur σ h x s with h1 | h1
      · rw [h1] at hk; exact e.drained k hk
      · rw [h1] at hk; cases hk
  | unsub h =>
    simp only [step]; split
    · exact e
    · rename_i x hx
      simp only [hns hx, if_false]
      have core : Ended (teardown (dropRecv σ h x)) s := by
        refine ⟨by simp [e.noSenders], by simp [e.lt], ?_⟩
        intro k hk
        simp only [teardown_cur, teardown_log, dropRecv_log] at hk ⊢
        rcases dropRecv_cur σ h x s with h1 | h1
        · rw [h1] at hk; exact e.drained k hk
        · rw [h1] at hk; cases hk
      split <;> exact core
  | intoSingle h =>
    simp only [step]; split
    · exact e
    · split
      · split
        · exact ⟨e.noSenders, e.lt, e.drained⟩
        · exact e
      · exact e
  | intoMulti h =>
    simp only [step]; split
    · exact e
    · rename_i x hx
      split
      · split
        · refine ⟨by simp [e.noSenders], by simp; have := e.lt; omega, ?_⟩
          intro k hk
          simp only [intoMultiFut_log]
          rcases intoMultiFut_cur σ h x s hlt with h1 | h1
          · rw [h1] at hk; exact e.drained k hk
          · rw [h1] at hk; cases hk
        · exact ⟨e.noSenders, e.lt, e.drained⟩
      · exact e

theorem ended_run {σ : State} (w : WF σ) {s : Nat} (e : Ended σ s) (cs : List Call) :
    Ended (run σ cs) s := by
  induction cs generalizing σ with
  | nil => exact e
  | cons c cs ih => exact ih (wf_step w c) (ended_step w e c)

theorem recvOn_of_ended {σ : State} (w : WF σ) {h : Nat} {x : Slot} (hx : getSlot σ h = some x)
    (hr : x.role ≠ Role.S) (e : Ended σ x.strm) (cl : Bool) :
    (recvOn σ x.strm cl).2 = RecvOut.ended := by
  obtain ⟨_, _, hsome, _⟩ := recv_slot_facts w hx hr
  obtain ⟨k, hk⟩ := Option.isSome_iff_exists.mp hsome
  have hk0 := e.drained k hk
  have hv : σ.log[k]? = Option.none := by
    rw [hk0]; exact List.getElem?_eq_none_iff.mpr (Nat.le_refl _)
  simp [recvOn, hk, hv, e.noSenders]

/-- a receive through a live handle of a stream that is over reports the end (or is a call the
handle type does not have) -/
theorem ended_recv {σ : State} (w : WF σ) {c : Call} {h : Nat} {x : Slot}
    (hc : c.recvSlot = some h) (hx : getSlot σ h = some x) (e : Ended σ x.strm) :
    (step σ c).2.isEnd ∨ (step σ c).2 = Result.badop := by
  cases c with
  | tryRecv h' =>
    simp [Call.recvSlot] at hc; subst hc
    simp only [step, hx]
    by_cases hr : x.role = Role.S
    · right; simp [hr]
    · left; simp only [hr, if_false]; rw [recvOn_of_ended w hx hr e]; trivial
  | recv h' =>
    simp [Call.recvSlot] at hc; subst hc
    simp only [step, hx]
    by_cases hr : x.role = Role.S
    · right; simp [hr]
    · left; simp only [hr, if_false]; rw [recvOn_of_ended w hx hr e]; trivial
  | tryRecvView h' =>
    simp [Call.recvSlot] at hc; subst hc
    simp only [step, hx]
    by_cases hr : x.role = Role.U ∧ σ.fut = false
    · left; rw [if_pos hr]
      rw [recvOn_of_ended w hx (by rw [hr.1]; decide) e]; trivial
    · right; rw [if_neg hr]
  | recvView h' =>
    simp [Call.recvSlot] at hc; subst hc
    simp only [step, hx]
    by_cases hr : x.role = Role.U ∧ σ.fut = false
    · left; rw [if_pos hr]
      rw [recvOn_of_ended w hx (by rw [hr.1]; decide) e]; trivial
    · right; rw [if_neg hr]
  | poll h' =>
    simp [Call.recvSlot] at hc; subst hc
    simp only [step, hx]
    by_cases hr : x.role ≠ Role.S ∧ σ.fut = true
    · left; rw [if_pos hr]
      rw [recvOn_of_ended w hx hr.1 e]; trivial
    · right; rw [if_neg hr]
  | _ => simp [Call.recvSlot] at hc

/-- **(d) C07, sequentially.**  If a receive through live handle `h` (on stream `x.strm`)
reports the end, then no sender is alive, and after any further calls `cs` every receive through
any live handle `h'` of that stream reports the end again (never a value, never `empty` /
`notready` / would-block); the log has not grown. -/
theorem end_stable {σ : State} (w : WF σ) {c : Call} {h : Nat} {x : Slot}
    (hc : c.recvSlot = some h) (hx : getSlot σ h = some x) (he : (step σ c).2.isEnd) :
    σ.senders = 0 ∧
    ∀ (cs : List Call) (c' : Call) (h' : Nat) (x' : Slot),
      c'.recvSlot = some h' → getSlot (run (step σ c).1 cs) h' = some x' → x'.strm = x.strm →
      ((step (run (step σ c).1 cs) c').2.isEnd ∨ (step (run (step σ c).1 cs) c').2 = Result.badop) := by
  have e := end_gives_ended w hc hx he
  refine ⟨e.noSenders, ?_⟩
  intro cs c' h' x' hc' hx' hs
  have w1 := wf_step w c
  have e1 := ended_step w e c
  have e2 := ended_run w1 e1 cs
  have w2 := wf_run w1 cs
  rw [← hs] at e2
  exact ended_recv w2 hc' hx' e2


/-! ## the same facts for every state reachable from `create` -/

theorem run_snoc (σ : State) (cs : List Call) (c : Call) :
    run σ (cs ++ [c]) = (step (run σ cs) c).1 := by
  induction cs generalizing σ with
  | nil => rfl
  | cons a cs ih => exact ih _

theorem recv_in_order_reachable (b f : Bool) (cap : Nat) (cs : List Call) (c : Call) (h v : Nat)
    (hc : c.recvSlot = some h)
    (hv : (step (run (init b f cap) cs) c).2.delivered = some v) :
    ∃ x k, getSlot (run (init b f cap) cs) h = some x ∧
      (run (init b f cap) cs).cur x.strm = some k ∧ k < (run (init b f cap) cs).log.length ∧
      (run (init b f cap) cs).log[k]? = some v ∧
      (run (init b f cap) (cs ++ [c])).cur x.strm = some (k + 1) := by
  obtain ⟨x, k, a, _, b', c', d, _, _⟩ := recv_delivers hc hv
  refine ⟨x, k, a, b', (List.getElem?_eq_some_iff.mp c').1, c', ?_⟩
  rw [run_snoc]; exact d

theorem unsub_reachable (b f : Bool) (cap : Nat) (cs : List Call) (h : Nat) (x : Slot) (r : Bool)
    (hx : getSlot (run (init b f cap) cs) h = some x) (hr : x.role ≠ Role.S)
    (hb : (step (run (init b f cap) cs) (Call.unsub h)).2 = Result.bool r) :
    r = true ↔ ∀ j y, j ≠ h → getSlot (run (init b f cap) cs) j = some y → y.role ≠ Role.S →
      y.strm ≠ x.strm :=
  unsub_true_iff_only_handle (wf_reachable b f cap cs) hx hr hb

theorem end_stable_reachable (b f : Bool) (cap : Nat) (cs : List Call) (c : Call) (h : Nat) (x : Slot)
    (hc : c.recvSlot = some h) (hx : getSlot (run (init b f cap) cs) h = some x)
    (he : (step (run (init b f cap) cs) c).2.isEnd) :
    (run (init b f cap) cs).senders = 0 ∧
    ∀ (cs' : List Call) (c' : Call) (h' : Nat) (x' : Slot),
      c'.recvSlot = some h' →
      getSlot (run (step (run (init b f cap) cs) c).1 cs') h' = some x' → x'.strm = x.strm →
      ((step (run (step (run (init b f cap) cs) c).1 cs') c').2.isEnd ∨
        (step (run (step (run (init b f cap) cs) c).1 cs') c').2 = Result.badop) :=
  end_stable (wf_reachable b f cap cs) hc hx he

/-! ## the hypotheses are satisfiable: concrete non-trivial states -/

/-- a broadcast queue, capacity 3 (window 4): fill it, a second handle and a second stream, drain
one stream partly, drop the sender -/
def exCalls : List Call :=
  [.trySend 0, .trySend 0, .trySend 0, .trySend 0, .trySend 0,   -- the fifth is refused
   .clone 1, .addStream 1, .tryRecv 1, .tryRecv 2, .tryRecv 3, .intoSingle 3, .tryRecvView 3,
   .drop 0]

def exState : State := run (init true false 3) exCalls

example : results (init true false 3) exCalls =
    [.okV 1, .okV 2, .okV 3, .okV 4, .fullV 5, .newH 2, .newHS 3 1, .okV 1, .okV 2, .okV 1,
     .single, .okV 2, .dropped] := by decide

example : WF exState := wf_reachable _ _ _ _
/-- (a) is tight: stream 0 had the whole window in flight when the fifth send was refused -/
example : (run (init true false 3) (exCalls.take 4)).log.length - 0 = validWrap 3 := by decide
example : exState.cur 0 = some 2 ∧ exState.cur 1 = some 2 ∧ exState.log = [1, 2, 3, 4] ∧
    exState.senders = 0 ∧ exState.cnt 0 = 2 ∧ exState.cnt 1 = 1 := by decide
/-- (b): the next receive on stream 0 delivers `log[2]` -/
example : (step exState (.tryRecv 2)).2.delivered = some 3 := by decide
/-- (e): stream 0 has two handles, stream 1 one -/
example : (step exState (.unsub 1)).2 = .bool false ∧ (step exState (.unsub 3)).2 = .unit ∧
    (step (step exState (.unsub 1)).1 (.unsub 2)).2 = .bool true := by decide
/-- (d): drain stream 1, then the end is reported, and again after more calls -/
def exDrained : State := run exState [.tryRecv 3, .recvView 3]
example : (step exDrained (.tryRecvView 3)).2 = .disc := by decide
example : (step exDrained (.tryRecvView 3)).2.isEnd := by
  have : (step exDrained (.tryRecvView 3)).2 = .disc := by decide
  rw [this]; trivial
example : (step (run exDrained [.tryRecvView 3, .intoMulti 3, .clone 3, .tryRecv 1]) (.recv 4)).2 = .disc := by
  decide
/-- (c): drop every receiver of a futures mpmc queue: the flag goes up, sends are refused -/
def exNoRecv : State := run (init false true 1) [.startSend 0, .clone 1, .drop 1, .unsub 2]
example : exNoRecv.noRecv = true ∧ (step exNoRecv (.trySend 0)).2 = .discV 2 ∧
    (step exNoRecv (.startSend 0)).2 = .errV 2 ∧ exNoRecv.log = [1] := by decide


end MQ.Spec
