import MQ.Inv.RingMain
import MQ.Inv.PinMain
/-!
# C06 — spurious Full/Empty is only transient: quiescent state equals the model
-/
namespace MQ

/-- no thread holds a claim -/
def NoClaims (σ : St) : Prop := ∀ t, (σ.th t).pc.claim = none

/-- C06 (quiescent ring — partial: F1/F12 excluded): in a reachable state in which no send is in flight,
every position a registered stream has not consumed yet is completely published: its slot carries its own
tag and exactly the logged value. So each stream can drain precisely its `head - pos s` outstanding values,
in log order, and nothing else. -/
theorem C06_quiescent_published_partial (N : Nat) (bcast : Bool) (wait : WaitK) (fut : Bool) (hN : 0 < N)
    (ls : List Label) (σ : St) (r : GoodRun (init N bcast wait fut) ls σ) (hq : NoClaims σ)
    (s i : Nat) (hs : s ∈ σ.groups σ.cur) (h1 : σ.pos s ≤ i) (h2 : i < σ.head) :
    σ.tag (i % σ.N) = some i ∧ σ.cont (i % σ.N) = σ.log[i]? := by
  have I := rinv_goodRun r (rinv_init N bcast wait fut hN)
  have hw := I.g.win s hs
  rcases I.slots i h2 (by simp only [St.ring] at *; omega) with ⟨t, ht⟩ | h
  · rw [hq t] at ht; cases ht
  · exact h

/-- C06: in such a state the writers' tail cache is a lower bound of every stream, so the number of further
sends the equality full-test lets through is exactly `N - (head - min pos)` once the cache is refreshed. -/
theorem C06_quiescent_room_partial (N : Nat) (bcast : Bool) (wait : WaitK) (fut : Bool) (hN : 0 < N)
    (ls : List Label) (σ : St) (r : GoodRun (init N bcast wait fut) ls σ) :
    ∀ s, s ∈ σ.groups σ.cur → σ.tc ≤ σ.pos s ∧ σ.pos s ≤ σ.head ∧ σ.head ≤ σ.tc + σ.N := by
  intro s hs
  have I := rinv_goodRun r (rinv_init N bcast wait fut hN)
  exact ⟨I.g.tcle s hs, I.g.posle s hs, I.g.tcN⟩

/-- C06 (no pin is left behind): in a reachable state of a broadcast queue in which no consumer is inside a
receive attempt — in particular in every quiescent state — every pin counter is zero, so a send cannot be refused
because of a pin: a `Full` caused by a pin is transient. (`PinInv`: the counter is exactly the number of consumers
inside a pinned section.) -/
theorem C06_no_pin_left_behind_partial (N : Nat) (wait : WaitK) (fut : Bool) (hN : 0 < N) (ls : List Label) (σ : St)
    (r : NRun (init N true wait fut) ls σ) (hq : ∀ t, (σ.th t).pc.pinPos = none) : ∀ j, σ.ref j = 0 := by
  intro j
  obtain ⟨l, _, l2, l3⟩ := (pall_nrun r rfl (pall_init N wait fut hN)).1.p.cnt j
  match l, l3, l2 with
  | [], l3, _ => exact l3
  | u :: _, _, l2 =>
    obtain ⟨p, hp, _⟩ := (l2 u).mp (List.mem_cons_self ..)
    rw [hq u] at hp; cases hp

end MQ
