import MQ.Inv.ModeStep
import MQ.Inv.ModeLemmas
import MQ.Inv.RegMain
import MQ.Inv.HsFrame
/-! # ModeInv — preservation by `run` steps -/
set_option linter.unusedSimpArgs false
set_option linter.unusedVariables false
namespace MQ

theorem mth (σ : St) (x inp u : Nat) : (stepRun σ x inp).2.th u = if u = x then (stepRun σ x inp).2.th x else σ.th u := by
  split
  · rename_i h; rw [h]
  · rename_i h; exact stepRun_th σ x inp u h

theorem stepRun_idle (σ : St) (x inp : Nat) (h : (σ.th x).pc = .idle) : (stepRun σ x inp).2 = σ := by
  simp only [stepRun, h]

/-- a `run` step never returns a thread to `idle` -/
theorem not_idle_step (σ : St) (x inp : Nat) (L : TLoc σ (σ.th x)) (h : ((stepRun σ x inp).2.th x).pc ≠ .idle) :
    (σ.th x).pc ≠ .idle := by
  intro e; rw [stepRun_idle σ x inp e] at h; exact h e

theorem htab_fields {σ σ' : St} (h : σ'.htab = σ.htab) :
    σ'.writers = σ.writers ∧ σ'.ncons = σ.ncons ∧ σ'.sl = σ.sl ∧ σ'.cl = σ.cl ∧ σ'.hs = σ.hs :=
  ⟨congrArg HTab.writers h, congrArg HTab.ncons h, congrArg HTab.sl h, congrArg HTab.cl h, congrArg HTab.hs h⟩

/-- every stream that still has a counted handle stays registered across a step that does not touch the table:
the only step that takes a stream off the list is the publication by the last consumer, whose stream has no
counted handle left -/
theorem reg_pres {σ : St} (x inp : Nat) (M : MInv σ) (R : RegInv σ) (hs : (σ.th x).pc.hSrc = false) :
    ∀ s, σ.cl s ≠ [] → s ∈ (stepRun σ x inp).2.groups (stepRun σ x inp).2.cur := by
  intro s hne
  have hreg : s ∈ σ.groups σ.cur := by have := M.clReg s hne; simpa [reg, St.ring] using this
  have hlt := R.curlt
  by_cases hspec : (∃ c, (σ.th x).pc = .a2 c) ∨ (σ.th x).pc = .rr1 ∨ (∃ c ng, (σ.th x).pc = .rr2 c ng)
  · rcases hspec with ⟨c, hpc⟩ | hpc | ⟨c, ng, hpc⟩
    · simp only [stepRun, hpc]
      simp only [St.gotoF, St.setTh, St.flush, upd]
      rw [if_neg (by omega)]; exact hreg
    · simp only [stepRun, hpc]
      simp only [St.goto, St.setTh, St.flush, upd]
      rw [if_neg (by omega)]; exact hreg
    · have L := R.loc x; simp only [RLoc, hpc] at L
      obtain ⟨l3, l4, l5⟩ := L
      have hrem := ((M.thr x).rem (by rw [hpc]; rfl)).1
      by_cases hc : σ.cur = c
      · have hsne : s ≠ (σ.th x).s := by intro e; rw [e] at hne; exact hne hrem
        have : s ∈ σ.groups ng := by
          rw [l5, ← hc]; exact List.mem_filter.mpr ⟨hreg, by simpa using hsne⟩
        simp only [stepRun, hpc, hc, if_true]; split <;> exact this
      · simp only [stepRun, hpc, hc, if_false]
        simp only [St.goto, St.setTh, St.flush, upd]
        rw [if_neg (by omega)]; exact hreg
  · have hr := stepRun_ereg_same σ x inp (by
      intro c raw ng
      refine ⟨?_, ?_, ?_, ?_⟩
      · intro e; exact hspec (Or.inl ⟨c, e⟩)
      · intro e; rw [e] at hs; cases hs
      · intro e; exact hspec (Or.inr (Or.inl e))
      · intro e; exact hspec (Or.inr (Or.inr ⟨c, ng, e⟩)))
    have h1 : (stepRun σ x inp).2.cur = σ.cur := congrArg EReg.cur hr
    have h2 : (stepRun σ x inp).2.groups = σ.groups := congrArg EReg.groups hr
    rw [h1, h2]; exact hreg

theorem stepRun_est (σ : St) (x inp : Nat) (h : ∀ c raw ng, (σ.th x).pc ≠ .a3 c raw ng) :
    (stepRun σ x inp).2.est = σ.est := by
  by_cases hspec : (∃ c, (σ.th x).pc = .a2 c) ∨ (σ.th x).pc = .rr1 ∨ (∃ c ng, (σ.th x).pc = .rr2 c ng)
  · rcases hspec with ⟨c, hpc⟩ | hpc | ⟨c, ng, hpc⟩
    · simp only [stepRun, hpc]; rfl
    · simp only [stepRun, hpc]; rfl
    · simp only [stepRun, hpc]; repeat' split
      all_goals rfl
  · exact congrArg EReg.est (stepRun_ereg_same σ x inp (by
      intro c raw ng
      refine ⟨?_, h c raw ng, ?_, ?_⟩
      · intro e; exact hspec (Or.inl ⟨c, e⟩)
      · intro e; exact hspec (Or.inr (Or.inl e))
      · intro e; exact hspec (Or.inr (Or.inr ⟨c, ng, e⟩))))

theorem not_a3_of_not_hsrc {pc : PC} (h : pc.hSrc = false) : ∀ c raw ng, pc ≠ .a3 c raw ng := by
  intro c raw ng e; rw [e] at h; cases h

/-- steps that do not touch the handle table -/
theorem minv_run_plain {σ : St} (x inp : Nat) (M : MInv σ) (R : RegInv σ) (hs : (σ.th x).pc.hSrc = false)
    (hi : (σ.th x).pc ≠ .isg) (hi1 : (σ.th x).pc ≠ .is1) : MInv (stepRun σ x inp).2 := by
  have hd := stepRun_htab_same σ x inp hs
  obtain ⟨d1, d2, d3, d4, d5⟩ := htab_fields hd
  have hest := stepRun_est σ x inp (not_a3_of_not_hsrc hs)
  obtain ⟨Lx0, hcr, hng⟩ := tloc_step σ x inp (M.thr x) hs hi hi1
  have cong : ∀ y, TLoc σ y → TLoc (stepRun σ x inp).2 y := fun y L => TLoc_congr hd (by rw [hest]; exact id) L
  refine ⟨by rw [d1, d3]; exact M.wr, by intro s; rw [d2, d4]; exact M.nc s, ?_, ?_, ?_, ?_, ?_, ?_, ?_, ?_, ?_, ?_, ?_⟩
  · intro u; rw [mth]; split
    · exact cong _ Lx0
    · exact cong _ (M.thr u)
  · intro t u htu ht hu
    have gt : ((stepRun σ x inp).2.th t).g = (σ.th t).g := by
      rw [mth]; split
      · rename_i e; subst e; exact stepRun_g σ t inp
      · rfl
    have gu : ((stepRun σ x inp).2.th u).g = (σ.th u).g := by
      rw [mth]; split
      · rename_i e; subst e; exact stepRun_g σ u inp
      · rfl
    have it : (σ.th t).pc ≠ .idle := by
      rw [mth] at ht; split at ht
      · rename_i e; subst e; exact not_idle_step σ t inp (M.thr t) ht
      · exact ht
    have iu : (σ.th u).pc ≠ .idle := by
      rw [mth] at hu; split at hu
      · rename_i e; subst e; exact not_idle_step σ u inp (M.thr u) hu
      · exact hu
    rw [gt, gu]; exact M.excl t u htu it iu
  · intro g; rw [d3, d5]; exact M.uniS g
  · intro g s; rw [d4, d5]; exact M.uniR g s
  · intro s hne
    rw [d4] at hne
    have := reg_pres x inp M R hs s hne
    simpa [reg, St.ring] using this
  · intro g; rw [d3, d5]; exact M.idleS g
  · intro g; rw [d4, d5]; exact M.idleR g
  · intro g; rw [d5]; exact M.aliveUsed g
  · intro g; rw [d3, d5]; exact M.slKind g
  · intro g s; rw [d4, d5]; exact M.clKind g s
  · intro t u htu ht hu
    have ct : (σ.th t).creating ∧ ((stepRun σ x inp).2.th t).ng = (σ.th t).ng := by
      rw [mth] at ht ⊢; split at ht
      · rename_i e; subst e; simp only [if_true]; exact ⟨hcr ht, hng⟩
      · rename_i e; simp only [e, if_false]; exact ⟨ht, trivial⟩
    have cu : (σ.th u).creating ∧ ((stepRun σ x inp).2.th u).ng = (σ.th u).ng := by
      rw [mth] at hu ⊢; split at hu
      · rename_i e; subst e; simp only [if_true]; exact ⟨hcr hu, hng⟩
      · rename_i e; simp only [e, if_false]; exact ⟨hu, trivial⟩
    rw [ct.2, cu.2]; exact M.nginj t u htu ct.1 cu.1

end MQ
