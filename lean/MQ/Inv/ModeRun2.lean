import MQ.Inv.ModeRun
/-! # ModeInv — the steps that change the handle table -/
set_option linter.unusedSimpArgs false
set_option linter.unusedVariables false
set_option maxHeartbeats 4000000
namespace MQ

/-- a handle under construction is not busy, not alive, but handed out -/
theorem creating_facts {σ : St} {y : Th} (L : TLoc σ y) (h : y.creating) :
    (σ.hs y.ng).busy = false ∧ (σ.hs y.ng).alive = false ∧ (σ.hs y.ng).used = true := by
  rcases h with h | h | h | ⟨h, h2⟩
  · obtain ⟨_, _, _, ⟨_, a, b, c, _⟩, _⟩ := L.cs h; exact ⟨c, a, b⟩
  · obtain ⟨_, _, _, ⟨_, a, b, c, _⟩, _, _⟩ := L.cr h; exact ⟨c, a, b⟩
  · obtain ⟨_, _, _, ⟨_, a, b, c⟩, _⟩ := L.add h; exact ⟨c, a, b⟩
  · obtain ⟨a, b, c, _, _⟩ := L.aft h h2; exact ⟨c, a, b⟩

/-- the handles another thread relies on are neither the stepping thread's handle -/
theorem other_handles {σ : St} (M : MInv σ) {x u : Nat} (hux : u ≠ x) (hxi : (σ.th x).pc ≠ .idle) :
    ((σ.th u).pc ≠ .idle → (σ.th u).g ≠ (σ.th x).g) ∧ ((σ.th u).creating → (σ.th u).ng ≠ (σ.th x).g) := by
  refine ⟨fun hu => M.excl u x hux hu hxi, fun hc e => ?_⟩
  have := (creating_facts (M.thr u) hc).1
  rw [e, ((M.thr x).busy hxi).1] at this; cases this

/-- facts of another thread across a step of `x` that changes the table only at `x`'s handle, adds handles to
the counted lists, or removes `x`'s handle from them -/
theorem thr_other {σ σ' : St} (M : MInv σ) {x u : Nat} (hux : u ≠ x) (hxi : (σ.th x).pc ≠ .idle)
    (hhs : ∀ a, a ≠ (σ.th x).g → σ'.hs a = σ.hs a)
    (hsl : ∀ a, a ≠ (σ.th x).g → a ∈ σ.sl → a ∈ σ'.sl)
    (hcl : ∀ a s, a ≠ (σ.th x).g → a ∈ σ.cl s → a ∈ σ'.cl s)
    (hnilr : (σ.th u).pc.remPC = true → σ.cl (σ.th u).s = [] → σ.est (σ.th u).s = true → σ'.cl (σ.th u).s = [])
    (hnila : (σ.th u).pc.addPC = true → σ.cl (σ.th u).ns = [] → σ'.cl (σ.th u).ns = [])
    (hest : σ.est (σ.th u).s = true → σ'.est (σ.th u).s = true)
    (hsing : (σ.th u).pc ≠ .idle → σ.cl (σ.th u).s = [(σ.th u).g] → σ'.cl (σ.th u).s = [(σ.th u).g]) :
    TLoc σ' (σ.th u) := by
  obtain ⟨o1, o2⟩ := other_handles M hux hxi
  exact TLoc_transfer (M.thr u) (fun h => hhs _ (o1 h)) (fun h => hhs _ (o2 h)) (fun h => hsl _ (o1 h))
    (fun h => hsl _ (o2 h)) (fun h s => hcl _ s (o1 h)) (fun h s => hcl _ s (o2 h)) hnilr hnila hest hsing

/-- the stepping thread's own facts at `m1` (writer count load; sole writer switches to the single-writer path) -/
theorem tloc_m1 (σ : St) (x inp : Nat) (L : TLoc σ (σ.th x)) (hpc : (σ.th x).pc = .m1) :
    TLoc (stepRun σ x inp).2 ((stepRun σ x inp).2.th x) := by
  obtain ⟨l1, l2, l3, l4, l5, l6, l7, l8, l9, l10, l11, l12, l13, l14, l15, l16, l17, l18, l19, l20, l21, l22, l23⟩ := L
  simp only [Th.sgOn] at l23
  rw [hpc] at l1 l2 l3 l4 l5 l6 l7 l8 l9 l10 l11 l12 l13 l14 l15 l16 l17 l18 l19 l20 l21 l22 l23
  simp only [stepRun, hpc]
  split
  all_goals
    refine ⟨?_, ?_, ?_, ?_, ?_, ?_, ?_, ?_, ?_, ?_, ?_, ?_, ?_, ?_, ?_, ?_, ?_, ?_, ?_, ?_, ?_, ?_, ?_⟩
  all_goals (simp_all [St.goto, St.gotoF, St.flush, St.setTh, St.setHd, upd,
      PC.sendOp, PC.singleSendX, PC.singleSend, PC.recvOp, PC.recvActive, PC.viewPC, PC.cloneS, PC.remPC, PC.afterNew,
      PC.addPC, PC.kOK, PC.newPath, PC.sgFlag, Th.sgOn, Outer.futConv, Outer.viewCall]; done)

theorem tloc_la1 (σ : St) (x inp : Nat) (L : TLoc σ (σ.th x)) (hpc : (σ.th x).pc = .la1) :
    TLoc (stepRun σ x inp).2 ((stepRun σ x inp).2.th x) := by
  obtain ⟨l1, l2, l3, l4, l5, l6, l7, l8, l9, l10, l11, l12, l13, l14, l15, l16, l17, l18, l19, l20, l21, l22, l23⟩ := L
  simp only [Th.sgOn] at l23
  rw [hpc] at l1 l2 l3 l4 l5 l6 l7 l8 l9 l10 l11 l12 l13 l14 l15 l16 l17 l18 l19 l20 l21 l22 l23
  simp only [stepRun, hpc, stepRun.stepLa2]
  repeat' split
  all_goals
    refine ⟨?_, ?_, ?_, ?_, ?_, ?_, ?_, ?_, ?_, ?_, ?_, ?_, ?_, ?_, ?_, ?_, ?_, ?_, ?_, ?_, ?_, ?_, ?_⟩
  all_goals (simp_all [St.goto, St.gotoF, St.flush, St.setTh, St.setHd, upd,
      PC.sendOp, PC.singleSendX, PC.singleSend, PC.recvOp, PC.recvActive, PC.viewPC, PC.cloneS, PC.remPC, PC.afterNew,
      PC.addPC, PC.kOK, PC.newPath, PC.sgFlag, Th.sgOn, Outer.futConv, Outer.viewCall]; done)

/-- what an `m1` / `la1` step does to the table: at most `uni := true` on the thread's own handle -/
theorem uni_step_facts (σ : St) (x inp : Nat) (M : MInv σ) (h : (σ.th x).pc = .m1 ∨ (σ.th x).pc = .la1) :
    (stepRun σ x inp).2.writers = σ.writers ∧ (stepRun σ x inp).2.ncons = σ.ncons ∧ (stepRun σ x inp).2.sl = σ.sl ∧
    (stepRun σ x inp).2.cl = σ.cl ∧ (stepRun σ x inp).2.ring = σ.ring ∧
    (∀ a, a ≠ (σ.th x).g → (stepRun σ x inp).2.hs a = σ.hs a) ∧
    ((stepRun σ x inp).2.hs (σ.th x).g = σ.hs (σ.th x).g ∨
     ((stepRun σ x inp).2.hs (σ.th x).g = { σ.hs (σ.th x).g with uni := true } ∧
      (((σ.th x).g ∈ σ.sl ∧ (σ.hs (σ.th x).g).sender = true ∧ σ.writers = 1) ∨
       ((σ.th x).g ∈ σ.cl (σ.th x).s ∧ (σ.hs (σ.th x).g).sender = false ∧ σ.ncons (σ.th x).s = 1)))) := by
  rcases h with hpc | hpc
  · have hs := (M.thr x).snd (by rw [hpc]; rfl)
    simp only [stepRun, hpc]; split
    · rename_i hw
      refine ⟨rfl, rfl, rfl, rfl, rfl, ?_, Or.inr ⟨?_, Or.inl ⟨hs.1, hs.2, hw⟩⟩⟩
      · intro a ha; simp [St.gotoF, St.setHd, St.setTh, St.flush, upd, ha]
      · simp [St.gotoF, St.setHd, St.setTh, St.flush, upd]
    · exact ⟨rfl, rfl, rfl, rfl, rfl, fun a _ => rfl, Or.inl rfl⟩
  · have hs := (M.thr x).rcv (by rw [hpc]; rfl)
    simp only [stepRun, hpc]; split
    · have := stepLa2_htab σ (σ.flush x) x (σ.th x) (σ.th x).s
      obtain ⟨d1, d2, d3, d4, d5⟩ := htab_fields this
      refine ⟨d1, d2, d3, d4, stepLa2_ring _ _ _ _ _, fun a _ => by rw [d5]; rfl, Or.inl (by rw [d5]; rfl)⟩
    · split
      · rename_i hw
        refine ⟨rfl, rfl, rfl, rfl, rfl, ?_, Or.inr ⟨?_, Or.inr ⟨hs.1, hs.2, hw⟩⟩⟩
        · intro a ha; simp [St.gotoF, St.setHd, St.setTh, St.flush, upd, ha]
        · simp [St.gotoF, St.setHd, St.setTh, St.flush, upd]
      · exact ⟨rfl, rfl, rfl, rfl, rfl, fun a _ => rfl, Or.inl rfl⟩

theorem minv_run_uni {σ : St} (x inp : Nat) (M : MInv σ) (h : (σ.th x).pc = .m1 ∨ (σ.th x).pc = .la1) :
    MInv (stepRun σ x inp).2 := by
  obtain ⟨e1, e2, e3, e4, e5, e6, e7⟩ := uni_step_facts σ x inp M h
  have hxi : (σ.th x).pc ≠ .idle := by rcases h with h | h <;> (rw [h]; simp)
  have Lx : TLoc (stepRun σ x inp).2 ((stepRun σ x inp).2.th x) := by
    rcases h with h | h
    · exact tloc_m1 σ x inp (M.thr x) h
    · exact tloc_la1 σ x inp (M.thr x) h
  have hest : (stepRun σ x inp).2.est = σ.est := by have := congrArg Ring.est e5; simpa [St.ring] using this
  -- the fields of the own handle other than `uni`
  have hsame : ∀ a, ((stepRun σ x inp).2.hs a).sender = (σ.hs a).sender ∧ ((stepRun σ x inp).2.hs a).alive = (σ.hs a).alive ∧
      ((stepRun σ x inp).2.hs a).busy = (σ.hs a).busy ∧ ((stepRun σ x inp).2.hs a).used = (σ.hs a).used ∧
      ((stepRun σ x inp).2.hs a).view = (σ.hs a).view ∧ ((stepRun σ x inp).2.hs a).stream = (σ.hs a).stream ∧
      (((stepRun σ x inp).2.hs a).uni = true → (σ.hs a).uni = true ∨ a = (σ.th x).g) := by
    intro a
    by_cases ha : a = (σ.th x).g
    · subst ha
      rcases e7 with e | ⟨e, _⟩ <;> rw [e] <;> simp
    · rw [e6 a ha]; exact ⟨rfl, rfl, rfl, rfl, rfl, rfl, fun h => Or.inl h⟩
  refine ⟨by rw [e1, e3]; exact M.wr, by intro s; rw [e2, e4]; exact M.nc s, ?_, ?_, ?_, ?_, ?_, ?_, ?_, ?_, ?_, ?_, ?_⟩
  · intro u; rw [mth]; split
    · exact Lx
    · rename_i hu
      exact thr_other M hu hxi e6 (fun a _ ha => by rw [e3]; exact ha) (fun a s _ ha => by rw [e4]; exact ha)
        (fun _ hs _ => by rw [e4]; exact hs) (fun _ hs => by rw [e4]; exact hs) (by rw [hest]; exact id) (fun _ hs => by rw [e4]; exact hs)
  · intro t u htu ht hu
    have gt : ((stepRun σ x inp).2.th t).g = (σ.th t).g := by
      rw [mth]; split
      · rename_i e; subst e; exact stepRun_g σ t inp
      · rfl
    have gu : ((stepRun σ x inp).2.th u).g = (σ.th u).g := by
      rw [mth]; split
      · rename_i e; subst e; exact stepRun_g σ u inp
      · rfl
    have it : (σ.th t).pc ≠ .idle := by
      rw [mth] at ht; split at ht
      · rename_i e; subst e; exact hxi
      · exact ht
    have iu : (σ.th u).pc ≠ .idle := by
      rw [mth] at hu; split at hu
      · rename_i e; subst e; exact hxi
      · exact hu
    rw [gt, gu]; exact M.excl t u htu it iu
  · -- uniS
    intro g hg hu
    rw [e3] at hg ⊢
    rcases (hsame g).2.2.2.2.2.2 hu with h1 | h1
    · exact M.uniS g hg h1
    · subst h1
      rcases e7 with e | ⟨e, hc⟩
      · rw [e] at hu; exact M.uniS _ hg hu
      · rcases hc with ⟨_, _, hw⟩ | ⟨_, hp, _⟩
        · -- sole writer
          have hl : σ.sl.length = 1 := by rw [← M.wr]; exact hw
          match hsl : σ.sl, hl with
          | [a], _ => rw [hsl] at hg; simp at hg; rw [hg]
        · -- a receiver handle is not in `sl`
          have := (M.slKind _ hg).1; rw [hp] at this; cases this
  · -- uniR
    intro g s hg hu
    rw [e4] at hg ⊢
    have hv : ((stepRun σ x inp).2.hs g).view = (σ.hs g).view := (hsame g).2.2.2.2.1
    rcases hu with hu | hu
    · rcases (hsame g).2.2.2.2.2.2 hu with h1 | h1
      · exact M.uniR g s hg (Or.inl h1)
      · subst h1
        rcases e7 with e | ⟨e, hc⟩
        · rw [e] at hu; exact M.uniR _ s hg (Or.inl hu)
        · rcases hc with ⟨_, hp, _⟩ | ⟨hmem, _, hw⟩
          · have := (M.clKind _ s hg).1; rw [hp] at this; cases this
          · -- sole consumer of its stream; and the handle is counted on that stream only
            have hl : (σ.cl (σ.th x).s).length = 1 := by rw [← M.nc]; exact hw
            have hone : σ.cl (σ.th x).s = [(σ.th x).g] := by
              match hsl : σ.cl (σ.th x).s, hl with
              | [a], _ => rw [hsl] at hmem; simp at hmem; rw [hmem]
            by_cases hs : s = (σ.th x).s
            · rw [hs]; exact hone
            · -- a handle is counted on its own stream only
              exfalso
              have h1 := (M.clKind _ s hg).2.2
              have h2 := (M.thr x).strm hxi
              exact hs (by rw [h2, h1])
    · rw [hv] at hu; exact M.uniR g s hg (Or.inr hu)
  · intro s hs; rw [e4] at hs; rw [e5]; exact M.clReg s hs
  · intro g ha hb hc
    obtain ⟨f1, f2, f3, _⟩ := hsame g
    rw [e3]; exact M.idleS g (by rw [← f2]; exact ha) (by rw [← f3]; exact hb) (by rw [← f1]; exact hc)
  · intro g ha hb hc
    obtain ⟨f1, f2, f3, _, _, f6, _⟩ := hsame g
    rw [e4, f6]; exact M.idleR g (by rw [← f2]; exact ha) (by rw [← f3]; exact hb) (by rw [← f1]; exact hc)
  · intro g ha
    obtain ⟨_, f2, _, f4, _⟩ := hsame g
    rw [f4]; exact M.aliveUsed g (by rw [← f2]; exact ha)
  · intro g hg
    obtain ⟨f1, _, _, f4, _⟩ := hsame g
    rw [e3] at hg; rw [f1, f4]; exact M.slKind g hg
  · intro g s hg
    obtain ⟨f1, _, _, f4, _, f6, _⟩ := hsame g
    rw [e4] at hg; rw [f1, f4, f6]; exact M.clKind g s hg
  · intro t u htu ht hu
    have nx : ¬ ((stepRun σ x inp).2.th x).creating := by
      intro hc
      rcases h with hp | hp
      · simp only [stepRun, hp] at hc
        split at hc <;> simp [Th.creating, St.goto, St.gotoF, St.setHd, St.setTh, St.flush, upd, PC.cloneS, PC.addPC, PC.afterNew] at hc
      · simp only [stepRun, hp, stepRun.stepLa2] at hc
        repeat' split at hc
        all_goals simp [Th.creating, St.goto, St.gotoF, St.setHd, St.setTh, St.flush, upd, PC.cloneS, PC.addPC, PC.afterNew] at hc
    by_cases e1 : t = x
    · subst e1; exact absurd ht nx
    · by_cases e2 : u = x
      · subst e2; exact absurd hu nx
      · rw [stepRun_th σ x inp t e1] at ht ⊢; rw [stepRun_th σ x inp u e2] at hu ⊢
        exact M.nginj t u htu ht hu

macro "tl_auto" : tactic =>
  `(tactic| (simp_all [St.goto, St.gotoF, St.flush, St.setTh, St.setHd, upd,
      PC.sendOp, PC.singleSendX, PC.singleSend, PC.recvOp, PC.recvActive, PC.viewPC, PC.cloneS, PC.remPC, PC.afterNew,
      PC.addPC, PC.kOK, PC.newPath, PC.sgFlag, Th.sgOn, Outer.futConv, Outer.viewCall, newHd, newHd0]; done))

/-- excl / nginj across a step of `x` whose new program point is not a creating one or keeps `ng`, and that never
becomes idle -/
theorem excl_step {σ : St} (x inp : Nat) (M : MInv σ) (hxi : (σ.th x).pc ≠ .idle) :
    ∀ t u, t ≠ u → ((stepRun σ x inp).2.th t).pc ≠ .idle → ((stepRun σ x inp).2.th u).pc ≠ .idle →
      ((stepRun σ x inp).2.th t).g ≠ ((stepRun σ x inp).2.th u).g := by
  intro t u htu ht hu
  have gt : ((stepRun σ x inp).2.th t).g = (σ.th t).g := by
    rw [mth]; split
    · rename_i e; subst e; exact stepRun_g σ t inp
    · rfl
  have gu : ((stepRun σ x inp).2.th u).g = (σ.th u).g := by
    rw [mth]; split
    · rename_i e; subst e; exact stepRun_g σ u inp
    · rfl
  have it : (σ.th t).pc ≠ .idle := by
    rw [mth] at ht; split at ht
    · rename_i e; subst e; exact hxi
    · exact ht
  have iu : (σ.th u).pc ≠ .idle := by
    rw [mth] at hu; split at hu
    · rename_i e; subst e; exact hxi
    · exact hu
  rw [gt, gu]; exact M.excl t u htu it iu

theorem nginj_step {σ : St} (x inp : Nat) (M : MInv σ)
    (hc : ((stepRun σ x inp).2.th x).creating → (σ.th x).creating ∧ ((stepRun σ x inp).2.th x).ng = (σ.th x).ng) :
    ∀ t u, t ≠ u → ((stepRun σ x inp).2.th t).creating → ((stepRun σ x inp).2.th u).creating →
      ((stepRun σ x inp).2.th t).ng ≠ ((stepRun σ x inp).2.th u).ng := by
  intro t u htu ht hu
  have ct : (σ.th t).creating ∧ ((stepRun σ x inp).2.th t).ng = (σ.th t).ng := by
    rw [mth] at ht ⊢; split at ht
    · rename_i e; subst e; simp only [if_true]; exact hc ht
    · rename_i e; simp only [e, if_false]; exact ⟨ht, trivial⟩
  have cu : (σ.th u).creating ∧ ((stepRun σ x inp).2.th u).ng = (σ.th u).ng := by
    rw [mth] at hu ⊢; split at hu
    · rename_i e; subst e; simp only [if_true]; exact hc hu
    · rename_i e; simp only [e, if_false]; exact ⟨hu, trivial⟩
  rw [ct.2, cu.2]; exact M.nginj t u htu ct.1 cu.1

/-- sender clone: the new handle is counted -/
theorem minv_run_cs1 {σ : St} (x inp : Nat) (M : MInv σ) (hpc : (σ.th x).pc = .cs1) : MInv (stepRun σ x inp).2 := by
  have hxi : (σ.th x).pc ≠ .idle := by rw [hpc]; simp
  obtain ⟨c1, c2, c3, c4, c5⟩ := (M.thr x).cs (by rw [hpc]; rfl)
  have e : (stepRun σ x inp).2 = ({ σ.flush x with writers := σ.writers + 1, live := σ.live + 1, sl := σ.sl ++ [(σ.th x).ng] }).goto x (.ret .new) := by
    simp only [stepRun, hpc]
  have e_hs : (stepRun σ x inp).2.hs = σ.hs := by rw [e]; rfl
  have e_sl : (stepRun σ x inp).2.sl = σ.sl ++ [(σ.th x).ng] := by rw [e]; rfl
  have e_cl : (stepRun σ x inp).2.cl = σ.cl := by rw [e]; rfl
  have e_wr : (stepRun σ x inp).2.writers = σ.writers + 1 := by rw [e]; rfl
  have e_nc : (stepRun σ x inp).2.ncons = σ.ncons := by rw [e]; rfl
  have e_ring : (stepRun σ x inp).2.ring = σ.ring := by rw [e]; rfl
  have e_est : (stepRun σ x inp).2.est = σ.est := by rw [e]; rfl
  have Lx : TLoc (stepRun σ x inp).2 ((stepRun σ x inp).2.th x) := by
    obtain ⟨l1, l2, l3, l4, l5, l6, l7, l8, l9, l10, l11, l12, l13, l14, l15, l16, l17, l18, l19, l20, l21, l22, l23⟩ := M.thr x
    simp only [Th.sgOn] at l23
    rw [hpc] at l1 l2 l3 l4 l5 l6 l7 l8 l9 l10 l11 l12 l13 l14 l15 l16 l17 l18 l19 l20 l21 l22 l23
    rw [e]
    refine ⟨?_, ?_, ?_, ?_, ?_, ?_, ?_, ?_, ?_, ?_, ?_, ?_, ?_, ?_, ?_, ?_, ?_, ?_, ?_, ?_, ?_, ?_, ?_⟩
    all_goals tl_auto
  refine ⟨by rw [e_wr, e_sl, M.wr]; simp, by intro s; rw [e_nc, e_cl]; exact M.nc s, ?_, excl_step x inp M hxi,
    ?_, ?_, ?_, ?_, ?_, ?_, ?_, ?_, ?_⟩
  · intro u; rw [mth]; split
    · exact Lx
    · rename_i hu
      exact thr_other M hu hxi (fun a _ => by rw [e_hs]) (fun a _ ha => by rw [e_sl]; simp [ha])
        (fun a s _ ha => by rw [e_cl]; exact ha) (fun _ hs _ => by rw [e_cl]; exact hs) (fun _ hs => by rw [e_cl]; exact hs) (by rw [e_est]; exact id)
        (fun _ hs => by rw [e_cl]; exact hs)
  · -- uniS: after the clone nobody is in Uni mode
    intro g hg hu
    rw [e_hs] at hu; rw [e_sl] at hg
    exfalso
    rcases List.mem_append.mp hg with h | h
    · have := M.uniS g h hu
      have hm : (σ.th x).g ∈ [g] := by rw [← this]; exact c1
      simp at hm; rw [hm] at c3; rw [c3] at hu; cases hu
    · simp at h; rw [h, c5] at hu; cases hu
  · intro g s hg hu; rw [e_cl] at hg ⊢; rw [e_hs] at hu; exact M.uniR g s hg hu
  · intro s hs; rw [e_cl] at hs; rw [e_ring]; exact M.clReg s hs
  · intro g ha hb hc; rw [e_hs] at ha hb hc; rw [e_sl]; simp [M.idleS g ha hb hc]
  · intro g ha hb hc; rw [e_hs] at ha hb hc ⊢; rw [e_cl]; exact M.idleR g ha hb hc
  · intro g ha; rw [e_hs] at ha ⊢; exact M.aliveUsed g ha
  · intro g hg
    rw [e_sl] at hg; rw [e_hs]
    rcases List.mem_append.mp hg with h | h
    · exact M.slKind g h
    · simp at h; rw [h]; exact ⟨c4.1, c4.2.2.1⟩
  · intro g s hg; rw [e_cl] at hg; rw [e_hs]; exact M.clKind g s hg
  · apply nginj_step x inp M
    intro _
    exact ⟨Or.inl (by rw [hpc]; rfl), by rw [e]; simp [St.goto, St.setTh, St.flush, upd]⟩

/-- sender drop: the handle leaves the count -/
theorem minv_run_ds1 {σ : St} (x inp : Nat) (M : MInv σ) (hpc : (σ.th x).pc = .ds1) : MInv (stepRun σ x inp).2 := by
  have hxi : (σ.th x).pc ≠ .idle := by rw [hpc]; simp
  have hg := ((M.thr x).ds hpc).1
  have e : (stepRun σ x inp).2 = ({ σ.flush x with writers := σ.writers - 1, sl := σ.sl.erase (σ.th x).g }).gotoF x (.u1 (.rmTok 0)) [.sc] := by
    simp only [stepRun, hpc]
  have e_hs : (stepRun σ x inp).2.hs = σ.hs := by rw [e]; rfl
  have e_sl : (stepRun σ x inp).2.sl = σ.sl.erase (σ.th x).g := by rw [e]; rfl
  have e_cl : (stepRun σ x inp).2.cl = σ.cl := by rw [e]; rfl
  have e_wr : (stepRun σ x inp).2.writers = σ.writers - 1 := by rw [e]; rfl
  have e_nc : (stepRun σ x inp).2.ncons = σ.ncons := by rw [e]; rfl
  have e_ring : (stepRun σ x inp).2.ring = σ.ring := by rw [e]; rfl
  have e_est : (stepRun σ x inp).2.est = σ.est := by rw [e]; rfl
  have hbusy := ((M.thr x).busy hxi).1
  have Lx : TLoc (stepRun σ x inp).2 ((stepRun σ x inp).2.th x) := by
    obtain ⟨l1, l2, l3, l4, l5, l6, l7, l8, l9, l10, l11, l12, l13, l14, l15, l16, l17, l18, l19, l20, l21, l22, l23⟩ := M.thr x
    simp only [Th.sgOn] at l23
    rw [hpc] at l1 l2 l3 l4 l5 l6 l7 l8 l9 l10 l11 l12 l13 l14 l15 l16 l17 l18 l19 l20 l21 l22 l23
    rw [e]
    refine ⟨?_, ?_, ?_, ?_, ?_, ?_, ?_, ?_, ?_, ?_, ?_, ?_, ?_, ?_, ?_, ?_, ?_, ?_, ?_, ?_, ?_, ?_, ?_⟩
    all_goals tl_auto
  refine ⟨by rw [e_wr, e_sl, M.wr, List.length_erase_of_mem hg], by intro s; rw [e_nc, e_cl]; exact M.nc s, ?_,
    excl_step x inp M hxi, ?_, ?_, ?_, ?_, ?_, ?_, ?_, ?_, ?_⟩
  · intro u; rw [mth]; split
    · exact Lx
    · rename_i hu
      exact thr_other M hu hxi (fun a _ => by rw [e_hs])
        (fun a hne ha => by rw [e_sl]; exact (List.mem_erase_of_ne hne).mpr ha)
        (fun a s _ ha => by rw [e_cl]; exact ha) (fun _ hs _ => by rw [e_cl]; exact hs) (fun _ hs => by rw [e_cl]; exact hs) (by rw [e_est]; exact id)
        (fun _ hs => by rw [e_cl]; exact hs)
  · intro g hg' hu
    rw [e_hs] at hu; rw [e_sl] at hg' ⊢
    exfalso
    have hm := List.mem_of_mem_erase hg'
    have := M.uniS g hm hu
    rw [this] at hg hg'
    simp at hg; rw [hg] at hg'; simp at hg'
  · intro g s hg' hu; rw [e_cl] at hg' ⊢; rw [e_hs] at hu; exact M.uniR g s hg' hu
  · intro s hs; rw [e_cl] at hs; rw [e_ring]; exact M.clReg s hs
  · intro g ha hb hc; rw [e_hs] at ha hb hc; rw [e_sl]
    have hne : g ≠ (σ.th x).g := by intro e'; rw [e', hbusy] at hb; cases hb
    exact (List.mem_erase_of_ne hne).mpr (M.idleS g ha hb hc)
  · intro g ha hb hc; rw [e_hs] at ha hb hc ⊢; rw [e_cl]; exact M.idleR g ha hb hc
  · intro g ha; rw [e_hs] at ha ⊢; exact M.aliveUsed g ha
  · intro g hg'; rw [e_sl] at hg'; rw [e_hs]; exact M.slKind g (List.mem_of_mem_erase hg')
  · intro g s hg'; rw [e_cl] at hg'; rw [e_hs]; exact M.clKind g s hg'
  · apply nginj_step x inp M
    intro hc; exfalso
    rw [e] at hc
    simp [Th.creating, St.gotoF, St.setTh, St.flush, upd, PC.cloneS, PC.addPC, PC.afterNew] at hc

theorem upd_cl_mem {cl : Nat → List Nat} {s s' a : Nat} {l : List Nat} (h : a ∈ cl s') (hl : ∀ b, b ∈ cl s → b ∈ l) :
    a ∈ upd cl s l s' := by
  simp only [upd]; split
  · rename_i e; subst e; exact hl a h
  · exact h

/-- receiver clone: the new handle is counted on the stream, the source leaves Single mode -/
theorem minv_run_cr1 {σ : St} (x inp : Nat) (M : MInv σ) (hpc : (σ.th x).pc = .cr1) : MInv (stepRun σ x inp).2 := by
  have hxi : (σ.th x).pc ≠ .idle := by rw [hpc]; simp
  obtain ⟨c1, c2, c3, c4, c5, c6⟩ := (M.thr x).cr hpc
  have hnc := (M.thr x).noconv hxi
  have hout : (σ.th x).outer ≠ .intoSingleFut := by intro e; rw [e] at hnc; cases hnc
  have hbusy := ((M.thr x).busy hxi).1
  have e : (stepRun σ x inp).2 = (({ σ.flush x with ncons := upd σ.ncons (σ.th x).s (σ.ncons (σ.th x).s + 1), cl := upd σ.cl (σ.th x).s (σ.cl (σ.th x).s ++ [(σ.th x).ng]), live := σ.live + 1 }).setHd (σ.th x).g fun y => { y with uni := false }).goto x (.gt1 .retNew) := by
    simp only [stepRun, hpc, hout, if_false]
  have e_sl : (stepRun σ x inp).2.sl = σ.sl := by rw [e]; rfl
  have e_cl : (stepRun σ x inp).2.cl = upd σ.cl (σ.th x).s (σ.cl (σ.th x).s ++ [(σ.th x).ng]) := by rw [e]; rfl
  have e_wr : (stepRun σ x inp).2.writers = σ.writers := by rw [e]; rfl
  have e_nc : (stepRun σ x inp).2.ncons = upd σ.ncons (σ.th x).s (σ.ncons (σ.th x).s + 1) := by rw [e]; rfl
  have e_ring : (stepRun σ x inp).2.ring = σ.ring := by rw [e]; rfl
  have e_est : (stepRun σ x inp).2.est = σ.est := by rw [e]; rfl
  have e_hs : ∀ a, a ≠ (σ.th x).g → (stepRun σ x inp).2.hs a = σ.hs a := by
    intro a ha; rw [e]; simp [St.goto, St.setHd, St.setTh, St.flush, upd, ha]
  have e_hg : (stepRun σ x inp).2.hs (σ.th x).g = { σ.hs (σ.th x).g with uni := false } := by
    rw [e]; simp [St.goto, St.setHd, St.setTh, St.flush, upd]
  have hsame : ∀ a, ((stepRun σ x inp).2.hs a).sender = (σ.hs a).sender ∧ ((stepRun σ x inp).2.hs a).alive = (σ.hs a).alive ∧
      ((stepRun σ x inp).2.hs a).busy = (σ.hs a).busy ∧ ((stepRun σ x inp).2.hs a).used = (σ.hs a).used ∧
      ((stepRun σ x inp).2.hs a).view = (σ.hs a).view ∧ ((stepRun σ x inp).2.hs a).stream = (σ.hs a).stream ∧
      (((stepRun σ x inp).2.hs a).uni = true → (σ.hs a).uni = true ∧ a ≠ (σ.th x).g) := by
    intro a
    by_cases ha : a = (σ.th x).g
    · subst ha; rw [e_hg]; simp
    · rw [e_hs a ha]; exact ⟨rfl, rfl, rfl, rfl, rfl, rfl, fun h => ⟨h, ha⟩⟩
  have hngne : (σ.th x).ng ≠ (σ.th x).g := by
    intro e'; have := c4.2.2.2.1; rw [e', hbusy] at this; cases this
  have Lx : TLoc (stepRun σ x inp).2 ((stepRun σ x inp).2.th x) := by
    obtain ⟨l1, l2, l3, l4, l5, l6, l7, l8, l9, l10, l11, l12, l13, l14, l15, l16, l17, l18, l19, l20, l21, l22, l23⟩ := M.thr x
    simp only [Th.sgOn] at l23
    rw [hpc] at l1 l2 l3 l4 l5 l6 l7 l8 l9 l10 l11 l12 l13 l14 l15 l16 l17 l18 l19 l20 l21 l22 l23
    rw [e]
    refine ⟨?_, ?_, ?_, ?_, ?_, ?_, ?_, ?_, ?_, ?_, ?_, ?_, ?_, ?_, ?_, ?_, ?_, ?_, ?_, ?_, ?_, ?_, ?_⟩
    all_goals tl_auto
  refine ⟨by rw [e_wr, e_sl]; exact M.wr, ?_, ?_, excl_step x inp M hxi, ?_, ?_, ?_, ?_, ?_, ?_, ?_, ?_, ?_⟩
  · intro s; rw [e_nc, e_cl]; simp only [upd]; split
    · rename_i es; subst es; rw [M.nc]; simp
    · exact M.nc s
  · intro u; rw [mth]; split
    · exact Lx
    · rename_i hu
      obtain ⟨o1, o2⟩ := other_handles M hu hxi
      refine thr_other M hu hxi e_hs (fun a _ ha => by rw [e_sl]; exact ha)
        (fun a s _ ha => by rw [e_cl]; exact upd_cl_mem ha (fun b hb => by simp [hb])) ?_ ?_ (by rw [e_est]; exact id) ?_
      · intro _ hnil _
        rw [e_cl]; simp only [upd]; split
        · rename_i es; rw [es] at hnil; rw [hnil] at c1; cases c1
        · exact hnil
      · intro _ hnil
        rw [e_cl]; simp only [upd]; split
        · rename_i es; rw [es] at hnil; rw [hnil] at c1; cases c1
        · exact hnil
      · intro hui hsing
        rw [e_cl]; simp only [upd]; split
        · rename_i es
          rw [es] at hsing; rw [hsing] at c1; simp at c1
          exact absurd c1.symm (o1 hui)
        · exact hsing
  · intro g hg hu
    rw [e_sl] at hg ⊢
    exact M.uniS g hg ((hsame g).2.2.2.2.2.2 hu).1
  · -- uniR: on the cloned stream nobody is Single or a view any more
    intro g s hg hu
    rw [e_cl] at hg ⊢
    have hflag : (σ.hs g).uni = true ∨ (σ.hs g).view = true := by
      rcases hu with h | h
      · exact Or.inl ((hsame g).2.2.2.2.2.2 h).1
      · rw [(hsame g).2.2.2.2.1] at h; exact Or.inr h
    have hgne : g ≠ (σ.th x).g ∨ ((σ.hs g).view = true) := by
      rcases hu with h | h
      · exact Or.inl ((hsame g).2.2.2.2.2.2 h).2
      · rw [(hsame g).2.2.2.2.1] at h; exact Or.inr h
    simp only [upd] at hg ⊢
    split at hg
    · rename_i es; subst es
      exfalso
      rcases List.mem_append.mp hg with h | h
      · have h1 := M.uniR g _ h hflag
        rw [h1] at c1; simp at c1
        rcases hgne with h2 | h2
        · exact h2 c1.symm
        · rw [← c1, c3] at h2; cases h2
      · simp at h
        rcases hflag with h2 | h2
        · rw [h, c5] at h2; cases h2
        · rw [h, c4.2.2.2.2] at h2; cases h2
    · rename_i es; rw [if_neg es]; exact M.uniR g s hg hflag
  · intro s hs
    rw [e_ring]
    rw [e_cl] at hs
    apply M.clReg
    simp only [upd] at hs; split at hs
    · rename_i es; subst es; exact List.ne_nil_of_mem c1
    · exact hs
  · intro g ha hb hc
    obtain ⟨f1, f2, f3, _⟩ := hsame g
    rw [e_sl]; exact M.idleS g (by rw [← f2]; exact ha) (by rw [← f3]; exact hb) (by rw [← f1]; exact hc)
  · intro g ha hb hc
    obtain ⟨f1, f2, f3, _, _, f6, _⟩ := hsame g
    rw [e_cl, f6]
    exact upd_cl_mem (M.idleR g (by rw [← f2]; exact ha) (by rw [← f3]; exact hb) (by rw [← f1]; exact hc))
      (fun b hb => by simp [hb])
  · intro g ha
    obtain ⟨_, f2, _, f4, _⟩ := hsame g
    rw [f4]; exact M.aliveUsed g (by rw [← f2]; exact ha)
  · intro g hg
    obtain ⟨f1, _, _, f4, _⟩ := hsame g
    rw [e_sl] at hg; rw [f1, f4]; exact M.slKind g hg
  · intro g s hg
    obtain ⟨f1, _, _, f4, _, f6, _⟩ := hsame g
    rw [e_cl] at hg; rw [f1, f4, f6]
    simp only [upd] at hg; split at hg
    · rename_i es; subst es
      rcases List.mem_append.mp hg with h | h
      · exact M.clKind g _ h
      · simp at h; rw [h]; exact ⟨c4.1, c4.2.2.1, c6⟩
    · exact M.clKind g s hg
  · apply nginj_step x inp M
    intro _
    exact ⟨Or.inr (Or.inl hpc), by rw [e]; simp [St.goto, St.setHd, St.setTh, St.flush, upd]⟩

theorem erase_singleton_of_len {l : List Nat} {a : Nat} (h : a ∈ l) (hl : l.length = 1) : l.erase a = [] := by
  match l, hl with
  | [b], _ => simp at h; subst h; simp

/-- receiver drop / unsubscribe: the handle leaves the count of its stream -/
theorem minv_run_dr1 {σ : St} (x inp : Nat) (M : MInv σ) (R : RegInv σ) (hpc : (σ.th x).pc = .dr1) :
    MInv (stepRun σ x inp).2 := by
  have hxi : (σ.th x).pc ≠ .idle := by rw [hpc]; simp
  obtain ⟨c1, c2⟩ := (M.thr x).dr (Or.inr hpc)
  have hnc := (M.thr x).noconv hxi
  have hout : (σ.th x).outer ≠ .intoSingleFut := by intro e; rw [e] at hnc; cases hnc
  have hbusy := ((M.thr x).busy hxi).1
  have hest : σ.est (σ.th x).s = true := by
    have := M.clReg _ (List.ne_nil_of_mem c1)
    exact R.regest _ (by simpa [reg, St.ring] using this)
  have e_sl : (stepRun σ x inp).2.sl = σ.sl := by simp only [stepRun, hpc, hout, if_false]; split <;> rfl
  have e_cl : (stepRun σ x inp).2.cl = upd σ.cl (σ.th x).s ((σ.cl (σ.th x).s).erase (σ.th x).g) := by
    simp only [stepRun, hpc, hout, if_false]; split <;> rfl
  have e_wr : (stepRun σ x inp).2.writers = σ.writers := by simp only [stepRun, hpc, hout, if_false]; split <;> rfl
  have e_nc : (stepRun σ x inp).2.ncons = upd σ.ncons (σ.th x).s (σ.ncons (σ.th x).s - 1) := by
    simp only [stepRun, hpc, hout, if_false]; split <;> rfl
  have e_ring : (stepRun σ x inp).2.ring = σ.ring := by simp only [stepRun, hpc, hout, if_false]; split <;> rfl
  have e_est : (stepRun σ x inp).2.est = σ.est := by simp only [stepRun, hpc, hout, if_false]; split <;> rfl
  have e_hs : (stepRun σ x inp).2.hs = σ.hs := by simp only [stepRun, hpc, hout, if_false]; split <;> rfl
  have Lx : TLoc (stepRun σ x inp).2 ((stepRun σ x inp).2.th x) := by
    obtain ⟨l1, l2, l3, l4, l5, l6, l7, l8, l9, l10, l11, l12, l13, l14, l15, l16, l17, l18, l19, l20, l21, l22, l23⟩ := M.thr x
    simp only [Th.sgOn] at l23
    rw [hpc] at l1 l2 l3 l4 l5 l6 l7 l8 l9 l10 l11 l12 l13 l14 l15 l16 l17 l18 l19 l20 l21 l22 l23
    have hlen := M.nc (σ.th x).s
    simp only [stepRun, hpc, hout, if_false]
    split
    all_goals
      refine ⟨?_, ?_, ?_, ?_, ?_, ?_, ?_, ?_, ?_, ?_, ?_, ?_, ?_, ?_, ?_, ?_, ?_, ?_, ?_, ?_, ?_, ?_, ?_⟩
    all_goals first | tl_auto | skip
    · rename_i hc
      intro _
      simp [St.goto, St.setTh, St.flush, upd] at hc ⊢
      refine ⟨Or.inr ?_, hest⟩
      rw [hc] at hlen
      match hl : σ.cl (σ.th x).s, hlen.symm with
      | [b], _ => rw [hl] at c1; simp at c1; rw [c1]
  have keep : ∀ a s, a ≠ (σ.th x).g → a ∈ σ.cl s → a ∈ upd σ.cl (σ.th x).s ((σ.cl (σ.th x).s).erase (σ.th x).g) s := by
    intro a s hne ha
    simp only [upd]; split
    · rename_i es; subst es; exact (List.mem_erase_of_ne hne).mpr ha
    · exact ha
  have back : ∀ a s, a ∈ upd σ.cl (σ.th x).s ((σ.cl (σ.th x).s).erase (σ.th x).g) s → a ∈ σ.cl s := by
    intro a s ha
    simp only [upd] at ha; split at ha
    · rename_i es; subst es; exact List.mem_of_mem_erase ha
    · exact ha
  refine ⟨by rw [e_wr, e_sl]; exact M.wr, ?_, ?_, excl_step x inp M hxi, ?_, ?_, ?_, ?_, ?_, ?_, ?_, ?_, ?_⟩
  · intro s; rw [e_nc, e_cl]; simp only [upd]; split
    · rename_i es; subst es; rw [M.nc, List.length_erase_of_mem c1]
    · exact M.nc s
  · intro u; rw [mth]; split
    · exact Lx
    · rename_i hu
      obtain ⟨o1, o2⟩ := other_handles M hu hxi
      refine thr_other M hu hxi (fun a _ => by rw [e_hs]) (fun a _ ha => by rw [e_sl]; exact ha)
        (fun a s hne ha => by rw [e_cl]; exact keep a s hne ha) ?_ ?_ (by rw [e_est]; exact id) ?_
      · intro _ hnil _
        rw [e_cl]; simp only [upd]; split
        · rename_i es; rw [es] at hnil; rw [hnil]; rfl
        · exact hnil
      · intro _ hnil
        rw [e_cl]; simp only [upd]; split
        · rename_i es; rw [es] at hnil; rw [hnil]; rfl
        · exact hnil
      · intro hui hsing
        rw [e_cl]; simp only [upd]; split
        · rename_i es
          rw [es] at hsing; rw [hsing] at c1; simp at c1
          exact absurd c1.symm (o1 hui)
        · exact hsing
  · intro g hg hu; rw [e_sl] at hg ⊢; rw [e_hs] at hu; exact M.uniS g hg hu
  · intro g s hg hu
    rw [e_cl] at hg ⊢; rw [e_hs] at hu
    have hm := back g s hg
    have h1 := M.uniR g s hm hu
    simp only [upd] at hg ⊢; split at hg
    · rename_i es; subst es
      exfalso
      rw [h1] at c1 hg; simp at c1; rw [c1] at hg; simp at hg
    · rename_i es; rw [if_neg es]; exact h1
  · intro s hs
    rw [e_ring]; rw [e_cl] at hs
    apply M.clReg
    intro hnil; apply hs
    simp only [upd]; split
    · rename_i es; subst es; rw [hnil]; rfl
    · exact hnil
  · intro g ha hb hc; rw [e_hs] at ha hb hc; rw [e_sl]; exact M.idleS g ha hb hc
  · intro g ha hb hc
    rw [e_hs] at ha hb hc ⊢; rw [e_cl]
    have hne : g ≠ (σ.th x).g := by intro e'; rw [e', hbusy] at hb; cases hb
    exact keep g _ hne (M.idleR g ha hb hc)
  · intro g ha; rw [e_hs] at ha ⊢; exact M.aliveUsed g ha
  · intro g hg; rw [e_sl] at hg; rw [e_hs]; exact M.slKind g hg
  · intro g s hg; rw [e_cl] at hg; rw [e_hs]; exact M.clKind g s (back g s hg)
  · apply nginj_step x inp M
    intro hc; exfalso
    simp only [stepRun, hpc, hout, if_false] at hc
    split at hc <;> simp [Th.creating, St.goto, St.setTh, St.flush, upd, PC.cloneS, PC.addPC, PC.afterNew] at hc

end MQ
