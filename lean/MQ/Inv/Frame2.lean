import MQ.Inv.Frame
/-!
# RingInv — connecting `stepRun` with the preservation lemmas
-/
set_option linter.unusedSimpArgs false
namespace MQ

theorem th_eq_upd (σ : St) (t inp : Nat) :
    (stepRun σ t inp).2.th = upd σ.th t ((stepRun σ t inp).2.th t) := by
  funext u
  by_cases e : u = t
  · subst e; simp [upd]
  · simp [upd, e, stepRun_th _ _ _ _ e]

/-- pcs whose step may change a ring word -/
def PC.ringChanging : PC → Bool
  | .tcs _ _ | .tcc _ _ _ | .hd _ _ | .wr _ _ | .ts _ _ | .r9 _ _ _ | .v4 _ _
  | .a2 _ | .a3 _ _ _ | .rr1 | .rr2 _ _ => true
  | _ => false

theorem stepLa2_ring (σ0 σ : St) (t : Nat) (x : Th) (s : Nat) : (stepRun.stepLa2 σ0 σ t x s).2.ring = σ.ring := by
  unfold stepRun.stepLa2; simp only []; repeat' split
  all_goals rfl

theorem startNotify2_ring (σ : St) (t : Nat) : (stepRun.startNotify2 σ t).ring = σ.ring := rfl

set_option maxHeartbeats 1000000 in
theorem stepRun_ring_same (σ : St) (t inp : Nat) (h : (σ.th t).pc.ringChanging = false) :
    (stepRun σ t inp).2.ring = σ.ring := by
  unfold stepRun
  simp only []
  split
  all_goals (first | (rename_i heq; rw [heq] at h; simp [PC.ringChanging] at h; done) | skip)
  all_goals (repeat' split)
  all_goals first
    | rfl
    | (simp only [sendDone_ring, recvDone_ring, afterNotify_ring, startNotify_ring, teardownStart_ring,
        startWait_ring, checkDone_ring, waitDone_ring, stepLa2_ring, startNotify2_ring, mgrDone_ring, freeTail_ring,
        freeEnd_ring, recvDropTail_ring, sendDropTail_ring,
        ring_setTh, ring_goto, ring_gotoF, ring_setHd, ring_flush] <;> rfl)

end MQ


namespace MQ

/-- pcs about which `Loc` says nothing and that hold no claim -/
def PC.neutral : PC → Bool
  | .st _ _ | .g1 _ _ _ | .g2 _ _ _ _ _ _ | .g3 _ _ _ _ _ | .tcs _ _ | .tcc _ _ _ | .tcl _ | .rf _ _ | .hd _ _
  | .tg _ | .wr _ _ | .ts _ _
  | .r1 _ _ | .r2 _ _ | .r3 _ _ | .r3b _ _ | .r4 _ | .r5 _ _ | .r6 _ | .rd _ _ | .rc _ _ _ | .r8 _ _
  | .r9 _ _ _ | .fg _ _ | .v1 _ | .v2 _ | .v3 _ | .vw _ _ | .vd _ _ | .v4 _ _
  | .a1 | .a2 _ | .a3 _ _ _ | .rr2 _ _ => false
  | _ => true

theorem claim_of_neutral {pc : PC} (h : pc.neutral = true) : pc.claim = none := by
  cases pc <;> first | rfl | (simp [PC.neutral] at h)

macro "neutral_tac" : tactic =>
  `(tactic| ((try simp only []); repeat' split) <;> first | rfl | (simp [PC.neutral, St.goto, St.gotoF, St.setTh, St.setHd, St.flush, upd, *]; done))

section
variable (σ : St) (t : Nat)

theorem afterNotify_neutral (k : Nat) : ((afterNotify σ t k).th t).pc.neutral = true := by
  unfold afterNotify; neutral_tac
theorem teardownStart_neutral (r : Res) : ((teardownStart σ t r).th t).pc.neutral = true := by
  unfold teardownStart; neutral_tac
theorem arcStep_neutral (r : Res) : ((arcStep σ t r).th t).pc.neutral = true := by
  unfold arcStep; neutral_tac
theorem startNotify_neutral (k : Nat) : ((startNotify σ t k).th t).pc.neutral = true := by
  unfold startNotify; split <;> first | exact afterNotify_neutral σ t k | neutral_tac
theorem sendDone_neutral (r : Res) : ((sendDone σ t r).th t).pc.neutral = true := by
  unfold sendDone; (try simp only []); repeat' split
  all_goals first | exact startNotify_neutral σ t _ | neutral_tac
theorem startWait_neutral (j seq : Nat) : ((startWait σ t j seq).th t).pc.neutral = true := by
  unfold startWait; neutral_tac
theorem recvDone_neutral (r : Res) (j : Nat) : ((recvDone σ t r j).th t).pc.neutral = true := by
  unfold recvDone; neutral_tac
theorem waitDone_neutral : ((waitDone σ t).th t).pc.neutral = true := by
  unfold waitDone; neutral_tac
theorem checkDone_neutral (j seq : Nat) (ph : WPh) (b : Bool) : ((checkDone σ t j seq ph b).th t).pc.neutral = true := by
  unfold checkDone; repeat' split
  all_goals first | exact waitDone_neutral _ t | neutral_tac
theorem recvDropTail_neutral : ((recvDropTail σ t).th t).pc.neutral = true := by
  unfold recvDropTail; (try simp only []); repeat' split
  all_goals first | (simp [teardownStart, PC.neutral, St.goto, St.setTh, upd]; done) | neutral_tac
theorem sendDropTail_neutral : ((sendDropTail σ t).th t).pc.neutral = true := by
  unfold sendDropTail; repeat' split
  all_goals first | exact teardownStart_neutral σ t _ | neutral_tac
theorem mgrDone_neutral (k : MK) : ((mgrDone σ t k).th t).pc.neutral = true := by
  unfold mgrDone; (try simp only []); repeat' split
  all_goals first
    | exact sendDone_neutral σ t _
    | exact recvDropTail_neutral _ t
    | exact sendDropTail_neutral _ t
    | neutral_tac
theorem freeEnd_neutral (k : MK) : ((freeEnd σ t k).th t).pc.neutral = true := by
  unfold freeEnd; exact mgrDone_neutral _ t _
theorem freeTail_neutral (k : MK) : ((freeTail σ t k).th t).pc.neutral = true := by
  unfold freeTail; repeat' split
  all_goals first | exact mgrDone_neutral _ t _ | neutral_tac
theorem startNotify2_neutral : ((stepRun.startNotify2 σ t).th t).pc.neutral = true := by
  unfold stepRun.startNotify2; neutral_tac
end

end MQ

namespace MQ

/-- pcs whose step leaves the ring unchanged and ends in a neutral pc -/
def PC.srcNeutral : PC → Bool
  | .idle | .ret _ | .s0 | .m1 | .od _ | .nb1 _ | .nb2 _ | .nf _ _ | .r0 | .c1 _ _ _ | .c2 _ _ _ _ | .wy _ _ _
  | .wl _ _ | .wcvw _ _ | .wblk _ _ | .pk _ _ | .psl | .cs1 | .ds1 | .cr1 | .un1 | .dr1 | .rr3 _ | .rr4 | .rr5
  | .isg | .arc _ | .tdb _ | .tdbd _ | .tm1 _ | .tm2 _ | .tm3 _ | .tmd _ | .tm4 _ | .tdr | .tdm | .sy | .spl | .w0 _
  | .u1 _ | .u2 _ _ | .u3 _ _ | .gt1 _ | .gt2 _ | .f1 _ _ | .f2 _ | .f3 _ | .f4 _ _ _ | .f5 _ | .f7 _ | .f8 _
  | .f9 _ _ | .f10 _ | .rt1 _ => true
  | _ => false

set_option maxHeartbeats 1000000 in
theorem stepRun_neutral (σ : St) (t inp : Nat) (h : (σ.th t).pc.srcNeutral = true) :
    ((stepRun σ t inp).2.th t).pc.neutral = true := by
  have hcl := h
  unfold stepRun
  simp only []
  split
  all_goals (first | (rename_i heq; rw [heq] at h; simp [PC.srcNeutral] at h; done) | skip)
  all_goals (repeat' split)
  all_goals first
    | rfl
    | (rename_i heq; simp only [heq]; rfl)
    | (rename_i heq _; simp only [heq]; rfl)
    | exact sendDone_neutral _ t _
    | exact recvDone_neutral _ t _ _
    | exact checkDone_neutral _ t _ _ _ _
    | exact startWait_neutral _ t _ _
    | exact afterNotify_neutral _ t _
    | exact startNotify_neutral _ t _
    | exact teardownStart_neutral _ t _
    | exact mgrDone_neutral _ t _
    | exact freeTail_neutral _ t _
    | exact freeEnd_neutral _ t _
    | exact startNotify2_neutral _ t
    | (simp [PC.neutral, St.goto, St.gotoF, St.setTh, St.setHd, St.flush, upd, teardownStart]; done)

end MQ

namespace MQ

theorem srcNeutral_not_changing {pc : PC} (h : pc.srcNeutral = true) : pc.ringChanging = false := by
  cases pc <;> first | rfl | (simp [PC.srcNeutral] at h)

theorem srcNeutral_claim {pc : PC} (h : pc.srcNeutral = true) : pc.claim = none := by
  cases pc <;> first | rfl | (simp [PC.srcNeutral] at h)

end MQ


namespace MQ

theorem neutral_not_add {pc : PC} (h : pc.neutral = true) : pc.addPC = false := by
  cases pc <;> first | rfl | (simp [PC.neutral] at h)

section
variable (σ : St) (t : Nat)
@[simp] theorem sendDone_not_add (r : Res) : ((sendDone σ t r).th t).pc.addPC = false :=
  neutral_not_add (sendDone_neutral σ t r)
@[simp] theorem recvDone_not_add (r : Res) (j : Nat) : ((recvDone σ t r j).th t).pc.addPC = false :=
  neutral_not_add (recvDone_neutral σ t r j)
@[simp] theorem checkDone_not_add (j seq : Nat) (ph : WPh) (b : Bool) : ((checkDone σ t j seq ph b).th t).pc.addPC = false :=
  neutral_not_add (checkDone_neutral σ t j seq ph b)
@[simp] theorem startWait_not_add (j seq : Nat) : ((startWait σ t j seq).th t).pc.addPC = false :=
  neutral_not_add (startWait_neutral σ t j seq)
@[simp] theorem afterNotify_not_add (k : Nat) : ((afterNotify σ t k).th t).pc.addPC = false :=
  neutral_not_add (afterNotify_neutral σ t k)
@[simp] theorem startNotify_not_add (k : Nat) : ((startNotify σ t k).th t).pc.addPC = false :=
  neutral_not_add (startNotify_neutral σ t k)
@[simp] theorem teardownStart_not_add (r : Res) : ((teardownStart σ t r).th t).pc.addPC = false :=
  neutral_not_add (teardownStart_neutral σ t r)
@[simp] theorem mgrDone_not_add (k : MK) : ((mgrDone σ t k).th t).pc.addPC = false :=
  neutral_not_add (mgrDone_neutral σ t k)
@[simp] theorem freeTail_not_add (k : MK) : ((freeTail σ t k).th t).pc.addPC = false :=
  neutral_not_add (freeTail_neutral σ t k)
@[simp] theorem freeEnd_not_add (k : MK) : ((freeEnd σ t k).th t).pc.addPC = false :=
  neutral_not_add (freeEnd_neutral σ t k)
@[simp] theorem startNotify2_not_add : ((stepRun.startNotify2 σ t).th t).pc.addPC = false :=
  neutral_not_add (startNotify2_neutral σ t)
end

@[simp] theorem stepLa2_not_add (σ0 σ : St) (t : Nat) (x : Th) (s : Nat) :
    ((stepRun.stepLa2 σ0 σ t x s).2.th t).pc.addPC = false := by
  unfold stepRun.stepLa2; simp only []; repeat' split
  all_goals (simp [PC.addPC, St.goto, St.setTh, upd])

set_option maxHeartbeats 2000000 in
/-- only the `add_stream` program points lead to `add_stream` program points -/
theorem stepRun_not_add (σ : St) (t inp : Nat) (h : (σ.th t).pc.addPC = false) :
    ((stepRun σ t inp).2.th t).pc.addPC = false := by
  unfold stepRun
  simp only []
  split
  all_goals (first | (rename_i heq; rw [heq] at h; simp [PC.addPC] at h; done) | skip)
  all_goals (repeat' split)
  all_goals first
    | (simp only [sendDone_not_add, recvDone_not_add, checkDone_not_add, startWait_not_add, afterNotify_not_add,
        startNotify_not_add, teardownStart_not_add, mgrDone_not_add, freeTail_not_add, freeEnd_not_add, startNotify2_not_add, stepLa2_not_add]; done)
    | (simp [PC.addPC, th_goto, th_gotoF, th_setTh, th_flush, th_setHd]; done)
    | (rename_i heq; simp [heq, PC.addPC]; done)
    | (rename_i heq _; simp [heq, PC.addPC]; done)
    | (simp [PC.addPC, St.goto, St.gotoF, St.setTh, St.setHd, St.flush, upd, teardownStart]; done)

theorem stepLa2_ns (σ0 σ : St) (t : Nat) (x : Th) (s : Nat) :
    ((stepRun.stepLa2 σ0 σ t x s).2.th t).ns = (σ.th t).ns := by
  unfold stepRun.stepLa2; simp only []; repeat' split
  all_goals (simp [St.goto, St.setTh, upd])

end MQ
