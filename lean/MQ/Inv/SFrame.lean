import MQ.Inv.PinFrame
/-! # a `run` step never changes the stream recorded in the thread (`Th.s` is fixed at the call) -/
set_option linter.unusedSimpArgs false
namespace MQ

macro "s_tac" : tactic =>
  `(tactic| ((try simp only []); repeat' split) <;> first | rfl | (simp [St.goto, St.gotoF, St.setTh, St.setHd, St.flush, upd, *]; done))

section
variable (σ : St) (t : Nat)
theorem afterNotify_sfld (k : Nat) : ((afterNotify σ t k).th t).s = (σ.th t).s := by
  unfold afterNotify; s_tac
theorem teardownStart_sfld (r : Res) : ((teardownStart σ t r).th t).s = (σ.th t).s := by
  unfold teardownStart; s_tac
theorem startNotify_sfld (k : Nat) : ((startNotify σ t k).th t).s = (σ.th t).s := by
  unfold startNotify; split <;> first | exact afterNotify_sfld σ t k | s_tac
theorem sendDone_sfld (r : Res) : ((sendDone σ t r).th t).s = (σ.th t).s := by
  unfold sendDone; (try simp only []); repeat' split
  all_goals first | (rw [startNotify_sfld]; done) | s_tac
theorem startWait_sfld (j seq : Nat) : ((startWait σ t j seq).th t).s = (σ.th t).s := by
  unfold startWait; s_tac
theorem recvDone_sfld (r : Res) (j : Nat) : ((recvDone σ t r j).th t).s = (σ.th t).s := by
  unfold recvDone; s_tac
theorem waitDone_sfld : ((waitDone σ t).th t).s = (σ.th t).s := by
  unfold waitDone; s_tac
theorem checkDone_sfld (j seq : Nat) (ph : WPh) (b : Bool) : ((checkDone σ t j seq ph b).th t).s = (σ.th t).s := by
  unfold checkDone; repeat' split
  all_goals first | exact waitDone_sfld _ t | (rw [waitDone_sfld]; done) | s_tac
theorem recvDropTail_sfld : ((recvDropTail σ t).th t).s = (σ.th t).s := by
  unfold recvDropTail; (try simp only []); repeat' split
  all_goals first | (simp [teardownStart, St.goto, St.setTh, upd]; done) | s_tac
theorem sendDropTail_sfld : ((sendDropTail σ t).th t).s = (σ.th t).s := by
  unfold sendDropTail; repeat' split
  all_goals first | exact teardownStart_sfld σ t _ | s_tac
theorem mgrDone_sfld (k : MK) : ((mgrDone σ t k).th t).s = (σ.th t).s := by
  unfold mgrDone; (try simp only []); repeat' split
  all_goals first
    | exact sendDone_sfld σ t _
    | (rw [recvDropTail_sfld]; done)
    | (rw [sendDropTail_sfld]; done)
    | s_tac
theorem freeEnd_sfld (k : MK) : ((freeEnd σ t k).th t).s = (σ.th t).s := by
  unfold freeEnd; (rw [mgrDone_sfld])
theorem freeTail_sfld (k : MK) : ((freeTail σ t k).th t).s = (σ.th t).s := by
  unfold freeTail; repeat' split
  all_goals first | (rw [mgrDone_sfld]; done) | s_tac
theorem startNotify2_sfld : ((stepRun.startNotify2 σ t).th t).s = (σ.th t).s := by
  unfold stepRun.startNotify2; s_tac
end

theorem stepLa2_sfld (σ0 σ : St) (t : Nat) (x : Th) (s : Nat) :
    ((stepRun.stepLa2 σ0 σ t x s).2.th t).s = (σ.th t).s := by
  unfold stepRun.stepLa2; simp only []; repeat' split
  all_goals (simp [St.goto, St.setTh, upd])

set_option maxHeartbeats 2000000 in
/-- a `run` step never changes which handle the thread is using -/
theorem stepRun_sfld (σ : St) (t inp : Nat) : ((stepRun σ t inp).2.th t).s = (σ.th t).s := by
  unfold stepRun
  simp only []
  split
  all_goals (repeat' split)
  all_goals first
    | rfl
    | (simp only [sendDone_sfld, recvDone_sfld, checkDone_sfld, startWait_sfld, afterNotify_sfld, startNotify_sfld, teardownStart_sfld,
        mgrDone_sfld, freeTail_sfld, freeEnd_sfld, startNotify2_sfld, stepLa2_sfld]; simp [St.goto, St.gotoF, St.setTh, St.setHd, St.flush, upd]; done)
    | (simp [St.goto, St.gotoF, St.setTh, St.setHd, St.flush, upd, teardownStart]; done)


end MQ
