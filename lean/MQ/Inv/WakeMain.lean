import MQ.Inv.WakeRun
import MQ.Inv.RingMain
/-! # WakeInv holds in every reachable state (under the mutex hypothesis) -/
set_option linter.unusedSimpArgs false
set_option linter.unusedVariables false
namespace MQ

/-- a label that leaves the wake-up data alone and moves `t` between program points outside `wPhase`, none of
them a pending notifier -/
theorem winv_of_frame {σ σ' : St} (t : Nat) (I : WInv σ) (hd : σ'.wdata = σ.wdata)
    (hth : ∀ u, u ≠ t → σ'.th u = σ.th u)
    (hs : (σ.th t).pc.wPhase = false ∨ ∃ j seq, (σ.th t).pc = .wblk j seq ∧ t ∉ σ.cvWaiters)
    (hnp : (σ.th t).pc.pendB = false ∧ (σ.th t).pc.pendF = false)
    (ht : (σ'.th t).pc.wPhase = false) (hok : (σ'.th t).pc.wOK = true) : WInv σ' := by
  obtain ⟨d1, d2, d3, d4, d5, d6, d7⟩ := wd_fields hd
  obtain ⟨p1, p2, p3, p4, p5⟩ := wphase_facts ht
  have held0 : (σ.th t).pc.wHeld = false := by
    rcases hs with h | ⟨j, seq, h, _⟩
    · exact (wphase_facts h).1
    · rw [h]; rfl
  have keepB : ∀ u, (σ.th u).pc.pendB = true → (σ'.th u).pc.pendB = true := by
    intro u hu
    by_cases e : u = t
    · subst e; rw [hnp.1] at hu; cases hu
    · rw [hth u e]; exact hu
  have keepF : ∀ u, (σ.th u).pc.pendF = true → (σ'.th u).pc.pendF = true := by
    intro u hu
    by_cases e : u = t
    · subst e; rw [hnp.2] at hu; cases hu
    · rw [hth u e]; exact hu
  refine ⟨?_, ?_, ?_, ?_, ?_, ?_⟩
  · intro u
    by_cases e : u = t
    · subst e; exact hok
    · rw [hth u e]; exact I.ok u
  · intro u; rw [d3]
    by_cases e : u = t
    · subst e; rw [p1]; constructor
      · intro h; cases h
      · intro h; exact absurd h (not_owner_of_not_held I held0)
    · rw [hth u e]; exact I.own u
  · intro a b hw u j seq hsb hc
    rw [d7] at hw; rw [d1, d2] at hc
    have hs' : subjB σ u j seq := by
      unfold subjB at hsb ⊢
      by_cases e : u = t
      · subst e
        rcases hsb with h | ⟨h, _⟩
        · exact absurd h (p2 j seq)
        · exact absurd h (p3 j seq)
      · rw [hth u e, d4] at hsb; exact hsb
    obtain ⟨w, hw'⟩ := I.w1 a b hw u j seq hs' hc
    exact ⟨w, keepB w hw'⟩
  · intro a b hw u j seq tg h hne
    rw [d7] at hw; rw [d1] at hne
    by_cases e : u = t
    · subst e; exact absurd h (p4 j seq tg)
    · rw [hth u e] at h
      obtain ⟨w, hw'⟩ := I.w2 a b hw u j seq tg h hne
      exact ⟨w, keepB w hw'⟩
  · intro a b hw u j seq hsf hc
    rw [d7] at hw; rw [d1, d2] at hc
    have hs' : subjF σ u j seq := by unfold subjF at hsf ⊢; rw [d5, d6] at hsf; exact hsf
    obtain ⟨w, hw'⟩ := I.w3 a b hw u j seq hs' hc
    exact ⟨w, keepF w hw'⟩
  · intro a b hw u j seq tg h hne
    rw [d7] at hw; rw [d1] at hne
    by_cases e : u = t
    · subst e; exact absurd h (p5 j seq tg)
    · rw [hth u e] at h
      obtain ⟨w, hw'⟩ := I.w4 a b hw u j seq tg h hne
      exact ⟨w, keepF w hw'⟩

theorem callPrep_wdata (σ : St) (t : Nat) (o : Outer) (g v ng ns : Nat) : (callPrep σ t o g v ng ns).wdata = σ.wdata := by
  unfold callPrep; simp only []; split <;> rfl

theorem callEntry_wdata (σ1 : St) (t : Nat) (o : Outer) (g ng ns : Nat) : (callEntry σ1 t o g ng ns).wdata = σ1.wdata := by
  unfold callEntry; simp only []; repeat' split
  all_goals rfl

theorem callEntry_wplain (σ1 : St) (t : Nat) (o : Outer) (g ng ns : Nat) (hp : (σ1.th t).pc = .idle) :
    ((callEntry σ1 t o g ng ns).th t).pc.wPhase = false ∧ ((callEntry σ1 t o g ng ns).th t).pc.wOK = true := by
  unfold callEntry; simp only []; repeat' split
  all_goals simp [St.goto, St.setTh, St.setHd, upd, PC.wPhase, PC.wOK, hp]

theorem winv_call {σ : St} (t : Nat) (o : Outer) (g v ng ns : Nat) (I : WInv σ) :
    WInv (step σ (.call t o g v ng ns)) := by
  simp only [step]
  split
  · rename_i hok
    simp only [callOk, Bool.and_eq_true, decide_eq_true_eq, Bool.not_eq_true', Bool.and_eq_false_iff] at hok
    obtain ⟨⟨⟨⟨⟨hidle, _⟩, _⟩, _⟩, _⟩, _⟩ := hok
    obtain ⟨hpcP, _⟩ := callPrep_pc σ t o g v ng ns
    obtain ⟨w1, w2⟩ := callEntry_wplain (callPrep σ t o g v ng ns) t o g ng ns (by rw [hpcP, hidle])
    apply winv_of_frame t I
    · rw [callEntry_wdata, callPrep_wdata]
    · intro u hu; rw [callEntry_th_ne _ _ _ _ _ _ _ hu, callPrep_th_ne _ _ _ _ _ _ _ _ hu]
    · left; rw [hidle]; rfl
    · rw [hidle]; exact ⟨rfl, rfl⟩
    · exact w1
    · exact w2
  · exact I

theorem winv_retn {σ : St} (t : Nat) (I : WInv σ) : WInv (step σ (.retn t)) := by
  simp only [step]
  split
  · rename_i r hpc
    repeat' split
    all_goals
      apply winv_of_frame t I
      · simp only [wdata_setHd, wdata_flush, wdata_goto]
      · intro u hu; simp [St.goto, St.flush, St.setTh, St.setHd, upd, hu]
      · left; rw [hpc]; rfl
      · rw [hpc]; exact ⟨rfl, rfl⟩
      · simp [St.goto, St.flush, St.setTh, St.setHd, upd, PC.wPhase]
      · simp [St.goto, St.flush, St.setTh, St.setHd, upd, PC.wOK]
  · exact I

theorem winv_arc {σ : St} (t : Nat) (I : WInv σ) : WInv (step σ (.arc t)) := by
  simp only [step]
  split
  · rename_i r hpc
    apply winv_of_frame t I (arcStep_wdata σ t r) (fun u hu => arcStep_th σ t r u hu)
    · left; rw [hpc]; rfl
    · rw [hpc]; exact ⟨rfl, rfl⟩
    · exact arcStep_wplain σ t r
    · unfold arcStep; simp only []; repeat' split
      all_goals simp [St.goto, St.setTh, upd, PC.wOK]
  · exact I

theorem winv_wake {σ : St} (t : Nat) (I : WInv σ) : WInv (step σ (.wake t)) := by
  simp only [step]
  split
  · rename_i j seq hpc
    split
    · exact I
    · rename_i hc
      have hnot : t ∉ σ.cvWaiters := by
        intro hm; apply hc; simp [List.contains_iff_mem, hm]
      apply winv_of_frame t I
      · rfl
      · intro u hu; simp [St.goto, St.setTh, upd, hu]
      · right; exact ⟨j, seq, hpc, hnot⟩
      · rw [hpc]; exact ⟨rfl, rfl⟩
      · simp [St.goto, St.setTh, upd, PC.wPhase]
      · simp [St.goto, St.setTh, upd, PC.wOK]
  · exact I

def WStepOK (σ : St) : Label → Prop
  | .run x _ => WLockOK σ x
  | _ => True

theorem winv_step {σ : St} (l : Label) (I : WInv σ) (h : WStepOK σ l) : WInv (step σ l) := by
  cases l
  case call t o g v ng ns => exact winv_call t o g v ng ns I
  case run x inp => exact winv_stepRun x inp I h
  case retn t => exact winv_retn t I
  case arc t => exact winv_arc t I
  case wake t => exact winv_wake t I

theorem winv_init (N : Nat) (bcast : Bool) (wait : WaitK) (fut : Bool) : WInv (init N bcast wait fut) := by
  refine ⟨?_, ?_, ?_, ?_, ?_, ?_⟩
  · intro t; simp [init, PC.wOK]
  · intro t; simp [init, PC.wHeld]
  · intro a b _ t j seq hs; simp [init, subjB] at hs
  · intro a b _ t j seq tg h; simp [init] at h
  · intro a b _ t j seq hs; simp [init, subjF] at hs
  · intro a b _ t j seq tg h; simp [init] at h

inductive WRun : St → List Label → St → Prop
  | nil (σ : St) : WRun σ [] σ
  | cons {σ : St} {l : Label} {ls : List Label} {σ' : St} :
      WStepOK σ l → WRun (step σ l) ls σ' → WRun σ (l :: ls) σ'

theorem winv_wrun {σ σ' : St} {ls : List Label} (r : WRun σ ls σ') (I : WInv σ) : WInv σ' := by
  induction r with
  | nil => exact I
  | cons h _ ih => exact ih (winv_step _ I h)

end MQ
