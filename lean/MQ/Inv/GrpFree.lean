import MQ.Inv.MgrPipe
import MQ.Inv.RegMain
import MQ.Inv.NRMain
/-!
# No stream list is released twice

A stream list (`ReaderGroup`) is passed to `free` by the thread whose CAS on `readers` replaced it — `add_stream`
(`a3`) or the removal of a stream (`rr2`). The current list id only grows, every retired id is below it, and a
thread that still owes the retirement of a list (`rr3`, `f1`) is the only one to do so: every list enters the
retirement pipeline at most once, hence is released at most once.
-/
set_option linter.unusedSimpArgs false
set_option linter.unusedVariables false
set_option maxHeartbeats 4000000
namespace MQ

/-- the stream list whose retirement the thread still owes -/
def PC.owesG : PC → Option Nat
  | .rr3 old => some old
  | .f1 _ (.grp c) => some c
  | _ => none

structure GInv (σ : St) : Prop where
  lt : ∀ c, Obj.grp c ∈ σ.mgr.pipe → c < σ.cur
  once : ∀ c, σ.mgr.pipe.count (Obj.grp c) ≤ 1
  ow : ∀ t c, (σ.th t).pc.owesG = some c → c < σ.cur ∧ σ.mgr.pipe.count (Obj.grp c) = 0
  oinj : ∀ t u c, t ≠ u → (σ.th t).pc.owesG = some c → (σ.th u).pc.owesG = some c → False

theorem count_zero_of_not_mem {l : List Obj} {a : Obj} (h : a ∉ l) : l.count a = 0 := List.count_eq_zero.mpr h

/-- a transition that leaves the pipeline (as a multiset) and `cur` alone and changes what `x` owes in no way -/
theorem ginv_same {σ σ' : St} (x : Nat) (G : GInv σ)
    (hth : ∀ u, u ≠ x → σ'.th u = σ.th u)
    (hp : σ'.mgr.pipe.Perm σ.mgr.pipe) (hc : σ'.cur = σ.cur)
    (ho : (σ'.th x).pc.owesG = (σ.th x).pc.owesG) : GInv σ' := by
  have tho : ∀ u, (σ'.th u).pc.owesG = (σ.th u).pc.owesG := by
    intro u; by_cases e : u = x
    · subst e; exact ho
    · rw [hth u e]
  refine ⟨?_, ?_, ?_, ?_⟩
  · intro c h; rw [hc]; exact G.lt c (hp.mem_iff.mp h)
  · intro c; rw [hp.count_eq]; exact G.once c
  · intro t c h; rw [hc, hp.count_eq]; rw [tho t] at h; exact G.ow t c h
  · intro t u c htu h1 h2; rw [tho t] at h1; rw [tho u] at h2; exact G.oinj t u c htu h1 h2


/-- a step that retires a stream list: `cur` moves up to `ng`, the thread now owes the old list -/
theorem ginv_retire {σ σ' : St} (x ng : Nat) (G : GInv σ)
    (hth : ∀ u, u ≠ x → σ'.th u = σ.th u)
    (hp : σ'.mgr.pipe = σ.mgr.pipe) (hc : σ'.cur = ng) (hlt : σ.cur < ng)
    (hold : (σ.th x).pc.owesG = none) (hnew : (σ'.th x).pc.owesG = some σ.cur) : GInv σ' := by
  have hnm : Obj.grp σ.cur ∉ σ.mgr.pipe := fun h => by have := G.lt _ h; omega
  refine ⟨?_, ?_, ?_, ?_⟩
  · intro c h; rw [hp] at h; rw [hc]; have := G.lt c h; omega
  · intro c; rw [hp]; exact G.once c
  · intro t c h; rw [hc, hp]
    by_cases e : t = x
    · subst e; rw [hnew] at h; injection h with h; subst h
      exact ⟨hlt, count_zero_of_not_mem hnm⟩
    · rw [hth t e] at h; have := G.ow t c h; exact ⟨by omega, this.2⟩
  · intro t u c htu h1 h2
    by_cases et : t = x
    · subst et
      have eu : u ≠ t := fun e => htu e.symm
      rw [hnew] at h1; injection h1 with h1; subst h1
      rw [hth u eu] at h2; have := (G.ow u _ h2).1; omega
    · by_cases eu : u = x
      · subst eu
        rw [hnew] at h2; injection h2 with h2; subst h2
        rw [hth t et] at h1; have := (G.ow t _ h1).1; omega
      · rw [hth t et] at h1; rw [hth u eu] at h2; exact G.oinj t u c htu h1 h2

/-- the step that passes an object to `free` -/
theorem ginv_f1 {σ σ' : St} (x : Nat) (ob : Obj) (G : GInv σ)
    (hth : ∀ u, u ≠ x → σ'.th u = σ.th u)
    (hp : σ'.mgr.pipe.Perm (σ.mgr.pipe ++ [ob])) (hc : σ'.cur = σ.cur)
    (hold : ∀ c, ob = .grp c → (σ.th x).pc.owesG = some c)
    (hold' : ∀ c, (σ.th x).pc.owesG = some c → ob = .grp c)
    (hnew : (σ'.th x).pc.owesG = none) : GInv σ' := by
  refine ⟨?_, ?_, ?_, ?_⟩
  · intro c h; rw [hc]
    rcases List.mem_append.mp (hp.mem_iff.mp h) with h | h
    · exact G.lt c h
    · simp at h; exact (G.ow x c (hold c h.symm)).1
  · intro c; rw [hp.count_eq, List.count_append]
    by_cases e : ob = .grp c
    · have := (G.ow x c (hold c e)).2; rw [this, e]; simp
    · have : [ob].count (Obj.grp c) = 0 := by
        apply count_zero_of_not_mem; simp; exact fun h => e h.symm
      rw [this]; exact G.once c
  · intro t c h; rw [hc, hp.count_eq, List.count_append]
    have et : t ≠ x := by intro e; subst e; rw [hnew] at h; cases h
    rw [hth t et] at h
    obtain ⟨a, b⟩ := G.ow t c h
    refine ⟨a, ?_⟩
    rw [b]
    have : [ob].count (Obj.grp c) = 0 := by
      apply count_zero_of_not_mem; simp
      intro e
      exact G.oinj t x c et h (hold c e.symm)
    rw [this]
  · intro t u c htu h1 h2
    have et : t ≠ x := by intro e; subst e; rw [hnew] at h1; cases h1
    have eu : u ≠ x := by intro e; subst e; rw [hnew] at h2; cases h2
    rw [hth t et] at h1; rw [hth u eu] at h2; exact G.oinj t u c htu h1 h2


/-- owing a stream list starts only at the two CAS steps and at `rr3` (which already owes it) -/
theorem owes_src (σ : St) (x inp : Nat) (c : Nat) (h : ((stepRun σ x inp).2.th x).pc.owesG = some c) :
    (∃ c' raw ng, (σ.th x).pc = .a3 c' raw ng) ∨ (∃ c' ng, (σ.th x).pc = .rr2 c' ng) ∨ (∃ o, (σ.th x).pc = .rr3 o) := by
  cases hpc : (σ.th x).pc
  case a3 c' raw ng => exact Or.inl ⟨c', raw, ng, rfl⟩
  case rr2 c' ng => exact Or.inr (Or.inl ⟨c', ng, rfl⟩)
  case rr3 o => exact Or.inr (Or.inr ⟨o, rfl⟩)
  case hd m h' => exfalso; cases m <;> (revert h; pin_unf hpc; (repeat' split) <;> simp_all [PC.owesG, St.goto, St.gotoF, St.flush, St.setTh, St.setHd, upd])
  case g3 m h' tl p md => exfalso; cases m <;> cases md <;> (revert h; pin_unf hpc; (repeat' split) <;> simp [PC.owesG, St.goto, St.gotoF, St.flush, St.setTh, St.setHd, upd])
  all_goals (exfalso; revert h; pin_unf hpc; (repeat' split) <;> simp_all [PC.owesG, St.goto, St.gotoF, St.flush, St.setTh, St.setHd, upd])

theorem stepRun_cur (σ : St) (x inp : Nat) (h : ∀ c raw ng, (σ.th x).pc ≠ .a3 c raw ng ∧ (σ.th x).pc ≠ .rr2 c ng) :
    (stepRun σ x inp).2.cur = σ.cur := by
  by_cases hs : ∀ c raw ng, (σ.th x).pc ≠ .a2 c ∧ (σ.th x).pc ≠ .a3 c raw ng ∧ (σ.th x).pc ≠ .rr1 ∧ (σ.th x).pc ≠ .rr2 c ng
  · exact congrArg EReg.cur (stepRun_ereg_same σ x inp hs)
  · cases hpc : (σ.th x).pc
    all_goals first | (exfalso; apply hs; intro c raw ng; rw [hpc]; simp; done) | skip
    case a2 c => simp only [stepRun, hpc]; rfl
    case a3 c raw ng => exact absurd hpc (h c raw ng).1
    case rr1 => simp only [stepRun, hpc]; rfl
    case rr2 c ng => exact absurd hpc (h c 0 ng).2

theorem ginv_stepRun {σ : St} (x inp : Nat) (G : GInv σ) (I : MInvS σ) (R : RegInv σ) : GInv (stepRun σ x inp).2 := by
  have hperm := pipe_stepRun x inp I
  have hth := fun u (hu : u ≠ x) => stepRun_th σ x inp u hu
  cases hpc : (σ.th x).pc
  case f1 k ob =>
    rw [hpc] at hperm; simp only [PC.retires] at hperm
    apply ginv_f1 x ob G hth hperm (stepRun_cur σ x inp (by intro c raw ng; rw [hpc]; simp))
    · intro c e; rw [hpc, e]; rfl
    · intro c e; rw [hpc] at e; cases ob <;> simp [PC.owesG] at e ⊢; exact e
    · simp only [stepRun, hpc]; simp [St.goto, St.setTh, St.flush, upd, PC.owesG]
  case a3 c raw ng =>
    have L := R.loc x; simp only [RLoc, hpc] at L
    have hp : (stepRun σ x inp).2.mgr = σ.mgr := stepRun_mgr_same σ x inp (by rw [hpc]; rfl)
    by_cases hc : σ.cur = c
    · subst hc
      apply ginv_retire x ng G hth (by rw [hp]) (by simp only [stepRun, hpc, if_true]; rfl) L.2.2.1 (by rw [hpc]; rfl)
      simp only [stepRun, hpc, if_true]; simp [St.gotoF, St.setTh, St.flush, upd, PC.owesG]
    · apply ginv_same x G hth (by rw [hp]) (by simp only [stepRun, hpc, hc, if_false]; rfl)
      rw [hpc]; simp only [stepRun, hpc, hc, if_false]; simp [St.gotoF, St.setTh, St.flush, upd, PC.owesG]
  case rr2 c ng =>
    have L := R.loc x; simp only [RLoc, hpc] at L
    have hp : (stepRun σ x inp).2.mgr = σ.mgr := stepRun_mgr_same σ x inp (by rw [hpc]; rfl)
    by_cases hc : σ.cur = c
    · subst hc
      apply ginv_retire x ng G hth (by rw [hp]) (by simp only [stepRun, hpc, if_true]; split <;> rfl) L.1 (by rw [hpc]; rfl)
      simp only [stepRun, hpc, if_true]; split <;> simp [St.gotoF, St.setTh, St.flush, upd, PC.owesG]
    · apply ginv_same x G hth (by rw [hp]) (by simp only [stepRun, hpc, hc, if_false]; rfl)
      rw [hpc]; simp only [stepRun, hpc, hc, if_false]; simp [St.goto, St.setTh, St.flush, upd, PC.owesG]
  case rr3 o =>
    have hp : (stepRun σ x inp).2.mgr = σ.mgr := stepRun_mgr_same σ x inp (by rw [hpc]; rfl)
    apply ginv_same x G hth (by rw [hp]) (by simp only [stepRun, hpc]; rfl)
    rw [hpc]; simp only [stepRun, hpc]; simp [St.goto, St.setTh, St.flush, upd, PC.owesG]
  all_goals
    have hr : (σ.th x).pc.retires = [] := by rw [hpc]; rfl
    rw [hr, List.append_nil] at hperm
    apply ginv_same x G hth hperm (stepRun_cur σ x inp (by intro c raw ng; rw [hpc]; simp))
    cases ho : ((stepRun σ x inp).2.th x).pc.owesG
    · rw [hpc]; rfl
    · exfalso
      rcases owes_src σ x inp _ ho with ⟨a, b, c', e⟩ | ⟨a, b, e⟩ | ⟨a, e⟩ <;> rw [hpc] at e <;> cases e


theorem callEntry_owes (σb : St) (t : Nat) (o : Outer) (g ng ns : Nat) (h : (σb.th t).pc = .idle) :
    ((callEntry σb t o g ng ns).th t).pc.owesG = none := by
  unfold callEntry; cases o
  all_goals simp only []
  all_goals repeat' split
  all_goals first | (simp [St.goto, St.setTh, St.setHd, upd, PC.owesG]; done) | (rw [h]; rfl)

theorem ginv_step {σ : St} (l : Label) (G : GInv σ) (I : MInvS σ) (R : RegInv σ) : GInv (step σ l) := by
  have hperm := pipe_step l I
  cases l
  case run x inp => exact ginv_stepRun x inp G I R
  case call t o g v ng ns =>
    simp only [List.append_nil] at hperm
    by_cases hc : callOk σ t o g ng ns = true
    rotate_left
    · have : step σ (.call t o g v ng ns) = σ := by simp only [step, hc]; rfl
      rw [this]; exact G
    have e : step σ (.call t o g v ng ns) = callEntry (callPrep σ t o g v ng ns) t o g ng ns := by
      simp only [step, hc, if_true]
    simp only [callOk, Bool.and_eq_true, decide_eq_true_eq, Bool.not_eq_true', Bool.and_eq_false_iff] at hc
    obtain ⟨⟨⟨⟨⟨hidle, _⟩, _⟩, _⟩, _⟩, _⟩ := hc
    have hp : ((callPrep σ t o g v ng ns).th t).pc = .idle := by rw [(callPrep_pc σ t o g v ng ns).1]; exact hidle
    obtain ⟨_, _, _, _, _, _, _, _, p9, p10, _⟩ := callPrep_facts σ t o g v ng ns
    obtain ⟨_, _, _, _, _, q6, _, q8⟩ := callEntry_frame (callPrep σ t o g v ng ns) t o g ng ns
    refine ginv_same t G (fun u hu => by rw [e, q8 u hu, p10 u hu]) hperm (by rw [e, q6, p9]) ?_
    rw [e, callEntry_owes _ t o g ng ns hp, hidle]; rfl
  case retn t =>
    simp only [List.append_nil] at hperm
    by_cases hr : ∃ r, (σ.th t).pc = .ret r
    rotate_left
    · have : step σ (.retn t) = σ := by
        simp only [step]; split
        · rename_i r h; exact absurd ⟨r, h⟩ hr
        · rfl
      rw [this]; exact G
    obtain ⟨r, hpc⟩ := hr
    have hform : ∃ f, step σ (.retn t) = { ((σ.goto t .idle).flush t) with hs := f } := by
      simp only [step, hpc]; repeat' split
      all_goals exact ⟨_, rfl⟩
    obtain ⟨f, hf⟩ := hform
    refine ginv_same t G (fun u hu => by rw [hf]; simp [St.goto, St.flush, St.setTh, upd, hu]) hperm (by rw [hf]; rfl) ?_
    rw [hf, hpc]; simp [St.goto, St.flush, St.setTh, upd, PC.owesG]
  case arc t =>
    simp only [List.append_nil] at hperm
    by_cases hr : ∃ r, (σ.th t).pc = .arc r
    rotate_left
    · have : step σ (.arc t) = σ := by
        simp only [step]; split
        · rename_i r h; exact absurd ⟨r, h⟩ hr
        · rfl
      rw [this]; exact G
    obtain ⟨r, hpc⟩ := hr
    have e : step σ (.arc t) = arcStep σ t r := by simp only [step, hpc]
    refine ginv_same t G (fun u hu => by rw [e]; exact arcStep_th σ t r u hu) hperm
      (by rw [e]; exact congrArg Ring.cur (arcStep_ring σ t r)) ?_
    rw [e, hpc]; unfold arcStep; simp only []
    (repeat' split) <;> simp [St.goto, St.setTh, upd, PC.owesG]
  case wake t =>
    simp only [List.append_nil] at hperm
    by_cases hr : ∃ j seq, (σ.th t).pc = .wblk j seq ∧ ¬ (σ.cvWaiters.contains t || σ.wlockOwner.isSome) = true
    rotate_left
    · have : step σ (.wake t) = σ := by
        simp only [step]; split
        · rename_i j seq h
          split
          · rfl
          · rename_i h2; exact absurd ⟨j, seq, h, h2⟩ hr
        · rfl
      rw [this]; exact G
    obtain ⟨j, seq, hpc, hc⟩ := hr
    have e : step σ (.wake t) = σ.goto t (.c1 j seq .after) := by simp only [step, hpc]; rw [if_neg hc]
    refine ginv_same t G (fun u hu => by rw [e]; simp [St.goto, St.setTh, upd, hu]) hperm (by rw [e]; rfl) ?_
    rw [e, hpc]; simp [St.goto, St.setTh, upd, PC.owesG]

theorem ginv_init (N : Nat) (bcast : Bool) (wait : WaitK) (fut : Bool) : GInv (init N bcast wait fut) := by
  refine ⟨?_, ?_, ?_, ?_⟩
  · intro c h; simp [init, Mgr.pipe, St.mgr] at h
  · intro c; simp [init, Mgr.pipe, St.mgr]
  · intro t c h; simp [init, PC.owesG] at h
  · intro t u c _ h; simp [init, PC.owesG] at h

/-- along every execution in which the two manager mutexes are mutual exclusion -/
theorem ginv_lockRun {σ σ' : St} {ls : List Label} (r : LockRun σ ls σ') (G : GInv σ) (I : MInvS σ) (R : RegInv σ) :
    GInv σ' ∧ MInvS σ' ∧ RegInv σ' := by
  induction r with
  | nil => exact ⟨G, I, R⟩
  | cons h _ ih => exact ih (ginv_step _ G I R) (mgi_step _ I h) (reginv_step _ R)

/-- no stream list is released twice -/
theorem freed_group_once {σ : St} (G : GInv σ) (c : Nat) : σ.freed.count (Obj.grp c) ≤ 1 := by
  have := G.once c
  simp only [Mgr.pipe, St.mgr, List.count_append] at this
  omega

end MQ
