import MQ.Inv.MgrFrame
/-! # MgrInv — preservation by `run` steps -/
set_option linter.unusedSimpArgs false
set_option linter.unusedVariables false
namespace MQ

theorem lockTr_same {held : PC → Bool} {o : Option Nat} {pc pc' : PC} {t : Nat} (h : held pc' = held pc) :
    LockTr held o o pc pc' t := Or.inl ⟨rfl, h⟩

/-- steps outside the manager's sub-programs -/
theorem mgi_run_plain {σ : St} (t inp : Nat) (I : MgI σ.mgr σ.th) (hs : (σ.th t).pc.mgrSrc = false) :
    MgI (stepRun σ t inp).2.mgr (stepRun σ t inp).2.th := by
  rw [th_eq_upd, stepRun_mgr_same _ _ _ hs]
  obtain ⟨p1, p2, p3, p4, p5⟩ := mPlain_facts (stepRun_plain σ t inp hs)
  obtain ⟨q2, q3, q5⟩ := not_src_plain_held hs
  refine mgi_update I p1 (lockTr_same (by rw [p2, q2])) (lockTr_same (by rw [p3, q3])) I.ep ?_ I.tokle (p4 _) (fun u _ => I.loc u)
  intro h1 h2 _
  apply I.idle h1
  intro u k c
  by_cases e : u = t
  · subst e; exact q5 k c
  · exact h2 u k c e

/-- `mgrDone` touches no manager word and lands on a plain program point -/
theorem mgrDone_facts (σ : St) (t : Nat) (k : MK) :
    (mgrDone σ t k).mgr = σ.mgr ∧ ((mgrDone σ t k).th t).pc.mPlain = true :=
  ⟨mgrDone_mgr σ t k, mgrDone_plain σ t k⟩

theorem isRm1_of_ok {k : MK} (h : (!k.isRm1) = true) : k.isRm1 = false := by
  cases h' : k.isRm1 <;> simp_all

theorem ok2 {a b : Bool} (h : (!a && !b) = true) : a = false ∧ b = false := by
  cases a <;> cases b <;> simp_all

theorem mgi_run_u1 {σ : St} (t inp : Nat) (k : MK) (I : MgI σ.mgr σ.th) (hpc : (σ.th t).pc = .u1 k) :
    MgI (stepRun σ t inp).2.mgr (stepRun σ t inp).2.th := by
  rw [th_eq_upd]
  have hok := I.ok t; rw [hpc] at hok
  simp only [stepRun, hpc]
  refine mgi_update I ?_ (lockTr_same ?_) (lockTr_same ?_) I.ep ?_ I.tokle ?_ (fun u _ => I.loc u)
  · simpa [St.goto, St.flush, St.setTh, upd, PC.mgrOK] using hok
  · simp [St.goto, St.flush, St.setTh, upd, PC.mgrHeld, hpc]
  · simp [St.goto, St.flush, St.setTh, upd, PC.wtfHeld, hpc]
  · intro h1 h2 _
    apply I.idle h1
    intro u k' c
    by_cases e : u = t
    · subst e; rw [hpc]; simp
    · exact h2 u k' c e
  · simp [St.goto, St.flush, St.setTh, upd, MLoc, St.mgr]

/-- preservation when epoch, inner epoch and the pending batch stay as they are -/
theorem mgi_update_P1 {m m' : Mgr} {th : Nat → Th} {t : Nat} {x' : Th} (I : MgI m th)
    (c_ok : x'.pc.mgrOK = true)
    (c_M : LockTr PC.mgrHeld m.mgrOwner m'.mgrOwner (th t).pc x'.pc t)
    (c_W : LockTr PC.wtfHeld m.wtfOwner m'.wtfOwner (th t).pc x'.pc t)
    (he : m'.epoch = m.epoch) (hi : m'.iepoch = m.iepoch) (hf : m'.tofree = m.tofree)
    (c_tok : ∀ g, m'.tokv g ≤ m.epoch)
    (hsrc9 : ∀ k c, (th t).pc ≠ .f9 k c)
    (c_loc : MLoc m' x'.pc) : MgI m' (upd th t x') := by
  refine mgi_update I c_ok c_M c_W (by rw [he, hi]; exact I.ep) ?_ (by intro g; rw [he]; exact c_tok g) c_loc
    (fun u _ => MLoc_congr (I.loc u) he hi)
  intro h1 h2 _
  rw [hf]
  apply I.idle (by rw [← he, ← hi]; exact h1)
  intro u k c
  by_cases e : u = t
  · subst e; exact hsrc9 k c
  · exact h2 u k c e

/-- what `freeTail` does -/
theorem freeTail_cases (σ : St) (t : Nat) (k : MK) :
    ((freeTail σ t k).mgr = σ.mgr ∧ ((freeTail σ t k).th t).pc = .f7 k) ∨
    ((freeTail σ t k).mgr = { σ.mgr with wtfOwner := none } ∧ ((freeTail σ t k).th t).pc.mPlain = true) := by
  unfold freeTail
  split
  · left; exact ⟨rfl, by simp [St.goto, St.setTh, upd]⟩
  · right; exact ⟨by rw [mgrDone_mgr]; rfl, mgrDone_plain _ t _⟩

/-- what `freeEnd` does -/
theorem freeEnd_cases (σ : St) (t : Nat) (k : MK) :
    (freeEnd σ t k).mgr = { σ.mgr with wtfOwner := none } ∧ ((freeEnd σ t k).th t).pc.mPlain = true := by
  unfold freeEnd
  exact ⟨by rw [mgrDone_mgr]; rfl, mgrDone_plain _ t _⟩

macro "msimp" : tactic =>
  `(tactic| simp [St.goto, St.gotoF, St.flush, St.setTh, St.setHd, upd, St.mgr, Mgr.released, PC.mgrOK, PC.mgrHeld, PC.wtfHeld, MLoc,
      MK.isRmTokFree, MK.isRm1] at *)

theorem mgi_run_u2 {σ : St} (t inp : Nat) (k : MK) (e : Nat) (I : MgI σ.mgr σ.th) (hpc : (σ.th t).pc = .u2 k e) :
    MgI (stepRun σ t inp).2.mgr (stepRun σ t inp).2.th := by
  rw [th_eq_upd]
  have hok := I.ok t; rw [hpc] at hok
  have hl := I.loc t; rw [hpc] at hl
  simp only [stepRun, hpc]
  split
  · obtain ⟨hm, hp⟩ := mgrDone_facts (σ.flush t) t k
    obtain ⟨p1, p2, p3, p4, p5⟩ := mPlain_facts hp
    rw [hm]
    exact mgi_update_P1 I p1 (lockTr_same (by rw [p2, hpc]; rfl)) (lockTr_same (by rw [p3, hpc]; rfl)) rfl rfl rfl
      I.tokle (by rw [hpc]; simp) (p4 _)
  · refine mgi_update_P1 I ?_ (lockTr_same ?_) (lockTr_same ?_) rfl rfl rfl I.tokle (by rw [hpc]; simp) ?_
    · msimp; exact hok
    · rw [hpc]; msimp
    · rw [hpc]; msimp
    · msimp; exact hl

theorem mgi_run_u3 {σ : St} (t inp : Nat) (k : MK) (e : Nat) (I : MgI σ.mgr σ.th) (hpc : (σ.th t).pc = .u3 k e) :
    MgI (stepRun σ t inp).2.mgr (stepRun σ t inp).2.th := by
  rw [th_eq_upd]
  have hl := I.loc t; rw [hpc] at hl
  simp only [stepRun, hpc]
  obtain ⟨hm, hp⟩ := mgrDone_facts ({ σ.flush t with tokv := upd σ.tokv (σ.hs (σ.th t).g).tok e }) t k
  obtain ⟨p1, p2, p3, p4, p5⟩ := mPlain_facts hp
  rw [hm]
  refine mgi_update_P1 I p1 (lockTr_same (by rw [p2, hpc]; rfl)) (lockTr_same (by rw [p3, hpc]; rfl)) rfl rfl rfl
      ?_ (by rw [hpc]; simp) (p4 _)
  intro g
  have := I.tokle g
  simp only [St.mgr, St.flush, St.setTh, upd, MLoc] at *
  split <;> omega

theorem mgi_run_gt1 {σ : St} (t inp : Nat) (k : MK) (I : MgI σ.mgr σ.th) (L : LockOK σ t) (hpc : (σ.th t).pc = .gt1 k) :
    MgI (stepRun σ t inp).2.mgr (stepRun σ t inp).2.th := by
  rw [th_eq_upd]
  have hok := I.ok t; rw [hpc] at hok
  simp only [LockOK, hpc] at L
  simp only [stepRun, hpc]
  refine mgi_update_P1 I ?_ (Or.inr (Or.inl ⟨L, rfl, ?_⟩)) (lockTr_same ?_) rfl rfl rfl I.tokle (by rw [hpc]; simp) ?_
  · msimp; exact hok
  · msimp
  · rw [hpc]; msimp
  · msimp

theorem mgi_run_gt2 {σ : St} (t inp : Nat) (k : MK) (I : MgI σ.mgr σ.th) (hpc : (σ.th t).pc = .gt2 k) :
    MgI (stepRun σ t inp).2.mgr (stepRun σ t inp).2.th := by
  rw [th_eq_upd]
  have hown := (I.ownM t).mp (by rw [hpc]; rfl)
  simp only [stepRun, hpc]
  obtain ⟨hm, hp⟩ := mgrDone_facts ({ σ.flush t with tokv := upd σ.tokv (σ.th t).ng σ.epoch, toks := σ.toks ++ [(σ.th t).ng], mgrOwner := none }) t k
  obtain ⟨p1, p2, p3, p4, p5⟩ := mPlain_facts hp
  rw [hm]
  refine mgi_update_P1 I p1 (Or.inr (Or.inr ⟨hown, rfl, p2⟩)) (lockTr_same (by rw [p3, hpc]; rfl)) rfl rfl rfl
      ?_ (by rw [hpc]; simp) (p4 _)
  intro g
  have := I.tokle g
  simp only [St.mgr, St.flush, St.setTh, upd] at *
  split <;> omega

theorem mgi_run_f1 {σ : St} (t inp : Nat) (k : MK) (ob : Obj) (I : MgI σ.mgr σ.th) (L : LockOK σ t)
    (hpc : (σ.th t).pc = .f1 k ob) : MgI (stepRun σ t inp).2.mgr (stepRun σ t inp).2.th := by
  rw [th_eq_upd]
  simp only [LockOK, hpc] at L
  simp only [stepRun, hpc]
  refine mgi_update_P1 I ?_ (lockTr_same ?_) (Or.inr (Or.inl ⟨L, rfl, ?_⟩)) rfl rfl rfl I.tokle (by rw [hpc]; simp) ?_
  · msimp
  · rw [hpc]; msimp
  · msimp
  · msimp

/-- continuing with `freeTail` from a program point inside the list's critical section; `hM` says whether the
manager mutex was held by the thread and is released on the way -/
theorem mgi_freeTail {σ σ1 : St} {t : Nat} {k : MK} (I : MgI σ.mgr σ.th)
    (hW : (σ.th t).pc.wtfHeld = true) (hsrc9 : ∀ k c, (σ.th t).pc ≠ .f9 k c)
    (h1 : σ1.mgr = σ.mgr ∧ (σ.th t).pc.mgrHeld = false ∨
          σ1.mgr = { σ.mgr with mgrOwner := none } ∧ (σ.th t).pc.mgrHeld = true ∨
          σ1.mgr = { σ.mgr with mgrOwner := none, sigE := false } ∧ (σ.th t).pc.mgrHeld = true) :
    MgI (freeTail σ1 t k).mgr (upd σ.th t ((freeTail σ1 t k).th t)) := by
  have ownW := (I.ownW t).mp hW
  rcases freeTail_cases σ1 t k with ⟨hm, hp⟩ | ⟨hm, hp⟩
  · rw [hm]
    have c_ok : ((freeTail σ1 t k).th t).pc.mgrOK = true := by rw [hp]; rfl
    have c_loc : ∀ m, MLoc m ((freeTail σ1 t k).th t).pc := by intro m; rw [hp]; simp [MLoc]
    rcases h1 with ⟨e1, e2⟩ | ⟨e1, e2⟩ | ⟨e1, e2⟩
    · rw [e1]
      exact mgi_update_P1 I c_ok (lockTr_same (by rw [hp, e2]; rfl)) (lockTr_same (by rw [hp, hW]; rfl)) rfl rfl rfl
        I.tokle hsrc9 (c_loc _)
    · rw [e1]
      have ownM := (I.ownM t).mp e2
      exact mgi_update_P1 I c_ok (Or.inr (Or.inr ⟨ownM, rfl, by rw [hp]; rfl⟩))
        (lockTr_same (by rw [hp, hW]; rfl)) rfl rfl rfl I.tokle hsrc9 (c_loc _)
    · rw [e1]
      have ownM := (I.ownM t).mp e2
      exact mgi_update_P1 I c_ok (Or.inr (Or.inr ⟨ownM, rfl, by rw [hp]; rfl⟩))
        (lockTr_same (by rw [hp, hW]; rfl)) rfl rfl rfl I.tokle hsrc9 (c_loc _)
  · obtain ⟨p1, p2, p3, p4, p5⟩ := mPlain_facts hp
    rw [hm]
    rcases h1 with ⟨e1, e2⟩ | ⟨e1, e2⟩ | ⟨e1, e2⟩
    · rw [e1]
      exact mgi_update_P1 I p1 (lockTr_same (by rw [p2, e2])) (Or.inr (Or.inr ⟨ownW, rfl, p3⟩)) rfl rfl rfl
        I.tokle hsrc9 (p4 _)
    · rw [e1]
      have ownM := (I.ownM t).mp e2
      exact mgi_update_P1 I p1 (Or.inr (Or.inr ⟨ownM, rfl, p2⟩)) (Or.inr (Or.inr ⟨ownW, rfl, p3⟩)) rfl rfl rfl
        I.tokle hsrc9 (p4 _)
    · rw [e1]
      have ownM := (I.ownM t).mp e2
      exact mgi_update_P1 I p1 (Or.inr (Or.inr ⟨ownM, rfl, p2⟩)) (Or.inr (Or.inr ⟨ownW, rfl, p3⟩)) rfl rfl rfl
        I.tokle hsrc9 (p4 _)

/-- continuing with `freeEnd` -/
theorem mgi_freeEnd {σ σ1 : St} {t : Nat} {k : MK} (I : MgI σ.mgr σ.th)
    (hW : (σ.th t).pc.wtfHeld = true) (hsrc9 : ∀ k c, (σ.th t).pc ≠ .f9 k c)
    (h1 : σ1.mgr = σ.mgr ∧ (σ.th t).pc.mgrHeld = false ∨
          σ1.mgr = { σ.mgr with mgrOwner := none } ∧ (σ.th t).pc.mgrHeld = true ∨
          σ1.mgr = { σ.mgr with mgrOwner := none, sigE := true } ∧ (σ.th t).pc.mgrHeld = true) :
    MgI (freeEnd σ1 t k).mgr (upd σ.th t ((freeEnd σ1 t k).th t)) := by
  have ownW := (I.ownW t).mp hW
  obtain ⟨hm, hp⟩ := freeEnd_cases σ1 t k
  obtain ⟨p1, p2, p3, p4, p5⟩ := mPlain_facts hp
  rw [hm]
  rcases h1 with ⟨e1, e2⟩ | ⟨e1, e2⟩ | ⟨e1, e2⟩
  · rw [e1]
    exact mgi_update_P1 I p1 (lockTr_same (by rw [p2, e2])) (Or.inr (Or.inr ⟨ownW, rfl, p3⟩)) rfl rfl rfl
      I.tokle hsrc9 (p4 _)
  · rw [e1]
    have ownM := (I.ownM t).mp e2
    exact mgi_update_P1 I p1 (Or.inr (Or.inr ⟨ownM, rfl, p2⟩)) (Or.inr (Or.inr ⟨ownW, rfl, p3⟩)) rfl rfl rfl
      I.tokle hsrc9 (p4 _)
  · rw [e1]
    have ownM := (I.ownM t).mp e2
    exact mgi_update_P1 I p1 (Or.inr (Or.inr ⟨ownM, rfl, p2⟩)) (Or.inr (Or.inr ⟨ownW, rfl, p3⟩)) rfl rfl rfl
      I.tokle hsrc9 (p4 _)

theorem mgi_run_f2 {σ : St} (t inp : Nat) (k : MK) (I : MgI σ.mgr σ.th) (hpc : (σ.th t).pc = .f2 k) :
    MgI (stepRun σ t inp).2.mgr (stepRun σ t inp).2.th := by
  rw [th_eq_upd]
  simp only [stepRun, hpc]
  split
  · rename_i hnone
    have hnone' : σ.mgr.mgrOwner = none := by simpa [St.mgr] using hnone
    refine mgi_update_P1 I ?_ (Or.inr (Or.inl ⟨hnone', rfl, ?_⟩)) (lockTr_same ?_) rfl rfl rfl I.tokle (by rw [hpc]; simp) ?_
    · msimp
    · msimp
    · rw [hpc]; msimp
    · msimp
  · exact mgi_freeTail I (by rw [hpc]; rfl) (by rw [hpc]; simp) (Or.inl ⟨rfl, by rw [hpc]; rfl⟩)

theorem mgi_run_f3 {σ : St} (t inp : Nat) (k : MK) (I : MgI σ.mgr σ.th) (hpc : (σ.th t).pc = .f3 k) :
    MgI (stepRun σ t inp).2.mgr (stepRun σ t inp).2.th := by
  rw [th_eq_upd]
  simp only [stepRun, hpc]
  split
  · exact mgi_freeTail I (by rw [hpc]; rfl) (by rw [hpc]; simp) (Or.inr (Or.inl ⟨rfl, by rw [hpc]; rfl⟩))
  · refine mgi_update_P1 I ?_ (lockTr_same ?_) (lockTr_same ?_) rfl rfl rfl I.tokle (by rw [hpc]; simp) ?_
    · msimp
    · rw [hpc]; msimp
    · rw [hpc]; msimp
    · msimp

theorem mgi_run_f4 {σ : St} (t inp : Nat) (k : MK) (e i : Nat) (I : MgI σ.mgr σ.th) (hpc : (σ.th t).pc = .f4 k e i) :
    MgI (stepRun σ t inp).2.mgr (stepRun σ t inp).2.th := by
  rw [th_eq_upd]
  have hl := I.loc t; rw [hpc] at hl
  simp only [MLoc] at hl
  have hown := (I.ownM t).mp (by rw [hpc]; rfl)
  simp only [stepRun, hpc]
  split
  · split
    · refine mgi_update_P1 I ?_ (lockTr_same ?_) (lockTr_same ?_) rfl rfl rfl I.tokle (by rw [hpc]; simp) ?_
      · msimp
      · rw [hpc]; msimp
      · rw [hpc]; msimp
      · msimp; exact hl
    · -- every token has announced epoch `e`: the pending batch is released
      refine mgi_update I ?_ (lockTr_same ?_) (lockTr_same ?_) ?_ ?_ ?_ ?_ ?_
      · msimp
      · rw [hpc]; msimp
      · rw [hpc]; msimp
      · left; msimp; exact hl
      · intro _ _ _; msimp
      · intro g; have := I.tokle g; msimp; exact this
      · msimp
      · intro u hu
        have hnh := other_not_held I hown hu
        obtain ⟨n4, n9⟩ := held_not_f4_f9 hnh
        have := I.loc u
        cases hq : (σ.th u).pc <;> rw [hq] at this n4 n9 <;> simp only [MLoc] at this ⊢
        case u2 k' e' => simpa [St.mgr, St.flush, St.setTh, St.goto] using this
        case u3 k' e' => simpa [St.mgr, St.flush, St.setTh, St.goto] using this
        case f4 k' e' i' => exact absurd rfl (n4 k' e' i')
        case f9 k' c' => exact absurd rfl (n9 k' c')
  · exact mgi_freeTail I (by rw [hpc]; rfl) (by rw [hpc]; simp) (Or.inr (Or.inl ⟨rfl, by rw [hpc]; rfl⟩))

theorem mgi_run_f5 {σ : St} (t inp : Nat) (k : MK) (I : MgI σ.mgr σ.th) (hpc : (σ.th t).pc = .f5 k) :
    MgI (stepRun σ t inp).2.mgr (stepRun σ t inp).2.th := by
  rw [th_eq_upd]
  simp only [stepRun, hpc]
  exact mgi_freeTail I (by rw [hpc]; rfl) (by rw [hpc]; simp) (Or.inr (Or.inr ⟨rfl, by rw [hpc]; rfl⟩))

theorem mgi_run_f7 {σ : St} (t inp : Nat) (k : MK) (I : MgI σ.mgr σ.th) (hpc : (σ.th t).pc = .f7 k) :
    MgI (stepRun σ t inp).2.mgr (stepRun σ t inp).2.th := by
  rw [th_eq_upd]
  simp only [stepRun, hpc]
  split
  · rename_i hnone
    have hnone' : σ.mgr.mgrOwner = none := by simpa [St.mgr] using hnone
    refine mgi_update_P1 I ?_ (Or.inr (Or.inl ⟨hnone', rfl, ?_⟩)) (lockTr_same ?_) rfl rfl rfl I.tokle (by rw [hpc]; simp) ?_
    · msimp
    · msimp
    · rw [hpc]; msimp
    · msimp
  · exact mgi_freeEnd I (by rw [hpc]; rfl) (by rw [hpc]; simp) (Or.inl ⟨rfl, by rw [hpc]; rfl⟩)

theorem mgi_run_f8 {σ : St} (t inp : Nat) (k : MK) (I : MgI σ.mgr σ.th) (hpc : (σ.th t).pc = .f8 k) :
    MgI (stepRun σ t inp).2.mgr (stepRun σ t inp).2.th := by
  rw [th_eq_upd]
  simp only [stepRun, hpc]
  split
  · rename_i hie
    refine mgi_update I ?_ (lockTr_same ?_) (lockTr_same ?_) ?_ ?_ ?_ ?_ ?_
    · msimp
    · rw [hpc]; msimp
    · rw [hpc]; msimp
    · left; msimp; exact hie
    · intro _ _ h9; exfalso; exact h9 k σ.epoch (by msimp)
    · intro g; have := I.tokle g; msimp; exact this
    · msimp; exact hie
    · intro u hu; exact MLoc_congr (I.loc u) rfl rfl
  · exact mgi_freeEnd I (by rw [hpc]; rfl) (by rw [hpc]; simp) (Or.inr (Or.inl ⟨rfl, by rw [hpc]; rfl⟩))

theorem mgi_run_f9 {σ : St} (t inp : Nat) (k : MK) (c : Nat) (I : MgI σ.mgr σ.th) (hpc : (σ.th t).pc = .f9 k c) :
    MgI (stepRun σ t inp).2.mgr (stepRun σ t inp).2.th := by
  rw [th_eq_upd]
  have hl := I.loc t; rw [hpc] at hl
  simp only [MLoc] at hl
  obtain ⟨hc, hie⟩ := hl
  have hown := (I.ownM t).mp (by rw [hpc]; rfl)
  simp only [stepRun, hpc]
  refine mgi_update I ?_ (lockTr_same ?_) (lockTr_same ?_) ?_ ?_ ?_ ?_ ?_
  · msimp
  · rw [hpc]; msimp
  · rw [hpc]; msimp
  · right; msimp; omega
  · intro h1 _ _; exfalso; msimp; omega
  · intro g; have := I.tokle g; msimp; omega
  · msimp
  · intro u hu
    have hnh := other_not_held I hown hu
    obtain ⟨n4, n9⟩ := held_not_f4_f9 hnh
    exact MLoc_mono (I.loc u) (by simp [St.mgr, St.goto, St.flush, St.setTh] at hc ⊢; omega) n4 n9

theorem mgi_run_f10 {σ : St} (t inp : Nat) (k : MK) (I : MgI σ.mgr σ.th) (hpc : (σ.th t).pc = .f10 k) :
    MgI (stepRun σ t inp).2.mgr (stepRun σ t inp).2.th := by
  rw [th_eq_upd]
  simp only [stepRun, hpc]
  exact mgi_freeEnd I (by rw [hpc]; rfl) (by rw [hpc]; simp) (Or.inr (Or.inr ⟨rfl, by rw [hpc]; rfl⟩))

theorem mgi_run_rt1 {σ : St} (t inp : Nat) (kk : Nat) (I : MgI σ.mgr σ.th) (hpc : (σ.th t).pc = .rt1 kk) :
    MgI (stepRun σ t inp).2.mgr (stepRun σ t inp).2.th := by
  rw [th_eq_upd]
  simp only [stepRun, hpc]
  refine mgi_update_P1 I ?_ (lockTr_same ?_) (lockTr_same ?_) rfl rfl rfl I.tokle (by rw [hpc]; simp) ?_
  · msimp
  · rw [hpc]; msimp
  · rw [hpc]; msimp
  · msimp

theorem mgi_run_tdm {σ : St} (t inp : Nat) (I : MgI σ.mgr σ.th) (hpc : (σ.th t).pc = .tdm) :
    MgI (stepRun σ t inp).2.mgr (stepRun σ t inp).2.th := by
  rw [th_eq_upd]
  simp only [stepRun, hpc]
  refine mgi_update I ?_ (lockTr_same ?_) (lockTr_same ?_) ?_ ?_ ?_ ?_ ?_
  · msimp
  · rw [hpc]; msimp
  · rw [hpc]; msimp
  · have := I.ep; msimp; exact this
  · intro _ _ _; msimp
  · intro g; have := I.tokle g; msimp; exact this
  · msimp
  · intro u hu; exact MLoc_congr (I.loc u) rfl rfl

/-- MgrInv is preserved by every `run` step (given the mutex hypothesis) -/
theorem mgi_stepRun {σ : St} (t inp : Nat) (I : MgI σ.mgr σ.th) (L : LockOK σ t) :
    MgI (stepRun σ t inp).2.mgr (stepRun σ t inp).2.th := by
  cases hs : (σ.th t).pc.mgrSrc
  · exact mgi_run_plain t inp I hs
  · cases hpc : (σ.th t).pc <;> rw [hpc] at hs <;> (try (simp [PC.mgrSrc] at hs; done))
    case u1 k => exact mgi_run_u1 t inp k I hpc
    case u2 k e => exact mgi_run_u2 t inp k e I hpc
    case u3 k e => exact mgi_run_u3 t inp k e I hpc
    case gt1 k => exact mgi_run_gt1 t inp k I L hpc
    case gt2 k => exact mgi_run_gt2 t inp k I hpc
    case f1 k ob => exact mgi_run_f1 t inp k ob I L hpc
    case f2 k => exact mgi_run_f2 t inp k I hpc
    case f3 k => exact mgi_run_f3 t inp k I hpc
    case f4 k e i => exact mgi_run_f4 t inp k e i I hpc
    case f5 k => exact mgi_run_f5 t inp k I hpc
    case f7 k => exact mgi_run_f7 t inp k I hpc
    case f8 k => exact mgi_run_f8 t inp k I hpc
    case f9 k c => exact mgi_run_f9 t inp k c I hpc
    case f10 k => exact mgi_run_f10 t inp k I hpc
    case rt1 kk => exact mgi_run_rt1 t inp kk I hpc
    case tdm => exact mgi_run_tdm t inp I hpc

end MQ
