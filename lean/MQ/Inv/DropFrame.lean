import MQ.Inv.Frame2
/-! The ghost list of values dropped by the queue changes only at the four drop sites. -/
set_option linter.unusedSimpArgs false
namespace MQ

section
variable (σ : St) (t : Nat)
@[simp] theorem afterNotify_drops (k : Nat) : (afterNotify σ t k).drops = σ.drops := by
  unfold afterNotify; split <;> rfl
@[simp] theorem teardownStart_drops (r : Res) : (teardownStart σ t r).drops = σ.drops := rfl
@[simp] theorem startNotify_drops (k : Nat) : (startNotify σ t k).drops = σ.drops := by
  unfold startNotify; split <;> first | rfl | exact afterNotify_drops σ t k
@[simp] theorem sendDone_drops (r : Res) : (sendDone σ t r).drops = σ.drops := by
  unfold sendDone; simp only []; repeat' split
  all_goals first | exact startNotify_drops σ t _ | rfl
@[simp] theorem startWait_drops (j seq : Nat) : (startWait σ t j seq).drops = σ.drops := by
  unfold startWait; simp only []; repeat' split
  all_goals rfl
@[simp] theorem recvDone_drops (r : Res) (j : Nat) : (recvDone σ t r j).drops = σ.drops := by
  unfold recvDone; simp only []; repeat' split
  all_goals rfl
@[simp] theorem waitDone_drops : (waitDone σ t).drops = σ.drops := by
  unfold waitDone; simp only []; repeat' split
  all_goals rfl
@[simp] theorem checkDone_drops (j seq : Nat) (ph : WPh) (b : Bool) : (checkDone σ t j seq ph b).drops = σ.drops := by
  unfold checkDone; repeat' split
  all_goals first | rfl | exact waitDone_drops _ t
@[simp] theorem recvDropTail_drops : (recvDropTail σ t).drops = σ.drops := by
  unfold recvDropTail; simp only []; repeat' split
  all_goals rfl
@[simp] theorem sendDropTail_drops : (sendDropTail σ t).drops = σ.drops := by
  unfold sendDropTail; repeat' split
  all_goals rfl
@[simp] theorem mgrDone_drops (k : MK) : (mgrDone σ t k).drops = σ.drops := by
  unfold mgrDone; simp only []; repeat' split
  all_goals first | rfl | exact sendDone_drops σ t _ | (simp only [recvDropTail_drops, sendDropTail_drops])
@[simp] theorem freeEnd_drops (k : MK) : (freeEnd σ t k).drops = σ.drops := by
  unfold freeEnd; simp only [mgrDone_drops]
@[simp] theorem freeTail_drops (k : MK) : (freeTail σ t k).drops = σ.drops := by
  unfold freeTail; repeat' split
  all_goals first | rfl | (simp only [mgrDone_drops])
@[simp] theorem startNotify2_drops : (stepRun.startNotify2 σ t).drops = σ.drops := rfl
@[simp] theorem goto_drops (pc : PC) : (σ.goto t pc).drops = σ.drops := rfl
@[simp] theorem gotoF_drops (pc : PC) (f : List Ord) : (σ.gotoF t pc f).drops = σ.drops := rfl
@[simp] theorem setTh_drops (f : Th → Th) : (σ.setTh t f).drops = σ.drops := rfl
@[simp] theorem flush_drops : (σ.flush t).drops = σ.drops := rfl
@[simp] theorem setHd_drops (g : Nat) (f : Hd → Hd) : (σ.setHd g f).drops = σ.drops := rfl
end

@[simp] theorem stepLa2_drops (σ0 σ : St) (t : Nat) (x : Th) (s : Nat) : (stepRun.stepLa2 σ0 σ t x s).2.drops = σ.drops := by
  unfold stepRun.stepLa2; simp only []; repeat' split
  all_goals rfl

/-- the program points at which the queue drops a payload it owns -/
def PC.dropSite : PC → Bool
  | .od _ | .vd _ _ | .tdbd _ | .tmd _ => true
  | _ => false

set_option maxHeartbeats 2000000 in
/-- outside the four drop sites no step changes the list of dropped values -/
theorem stepRun_drops_same (σ : St) (t inp : Nat) (h : (σ.th t).pc.dropSite = false) :
    (stepRun σ t inp).2.drops = σ.drops := by
  unfold stepRun
  simp only []
  split
  all_goals (first | (rename_i heq; rw [heq] at h; simp [PC.dropSite] at h; done) | skip)
  all_goals (repeat' split)
  all_goals first
    | (simp only [sendDone_drops, recvDone_drops, checkDone_drops, startWait_drops, afterNotify_drops, startNotify_drops,
        teardownStart_drops, mgrDone_drops, freeTail_drops, freeEnd_drops, startNotify2_drops, goto_drops, gotoF_drops,
        setTh_drops, flush_drops, setHd_drops, stepLa2_drops]; done)
    | rfl

end MQ
