import MQ.Inv.RingRun2
set_option linter.unusedSimpArgs false
namespace MQ

theorem rinv_run_la1 {σ : St} (t inp : Nat) (I : RInv σ)
    (hpc : (σ.th t).pc = .la1) : RInv (stepRun σ t inp).2 := by
  apply rinv_run_same t inp I (by rw [hpc]; rfl) (by rw [hpc]; rfl)
  · simp only [stepRun, hpc, stepRun.stepLa2]; simp only [St.ring] at *; repeat' split
    all_goals simp [Loc, St.goto, St.gotoF, St.flush, St.setTh, St.setHd, upd]
  · simp only [stepRun, hpc, stepRun.stepLa2]; repeat' split
    all_goals simp [St.goto, St.gotoF, St.flush, St.setTh, St.setHd, upd, PC.claim]

theorem rinv_run_la2 {σ : St} (t inp : Nat) (I : RInv σ)
    (hpc : (σ.th t).pc = .la2) : RInv (stepRun σ t inp).2 := by
  apply rinv_run_same t inp I (by rw [hpc]; rfl) (by rw [hpc]; rfl)
  · simp only [stepRun, hpc, stepRun.stepLa2]; simp only [St.ring] at *; repeat' split
    all_goals simp [Loc, St.goto, St.gotoF, St.flush, St.setTh, St.setHd, upd]
  · simp only [stepRun, hpc, stepRun.stepLa2]; repeat' split
    all_goals simp [St.goto, St.gotoF, St.flush, St.setTh, St.setHd, upd, PC.claim]

theorem rinv_run_is1 {σ : St} (t inp : Nat) (I : RInv σ)
    (hpc : (σ.th t).pc = .is1) : RInv (stepRun σ t inp).2 := by
  apply rinv_run_same t inp I (by rw [hpc]; rfl) (by rw [hpc]; rfl)
  · run_unfold hpc
    all_goals simp [Loc, St.goto, St.flush, St.setTh, upd]
  · run_unfold hpc
    all_goals simp [St.goto, St.flush, St.setTh, upd, PC.claim]

theorem rinv_run_r1 {σ : St} (t inp : Nat) (p : Nat) (sg : Bool) (I : RInv σ)
    (hpc : (σ.th t).pc = .r1 p sg) : RInv (stepRun σ t inp).2 := by
  have g := I.g
  have L := I.loc t
  simp only [Loc, hpc] at L
  apply rinv_run_same t inp I (by rw [hpc]; rfl) (by rw [hpc]; rfl)
  · run_unfold hpc
    all_goals
      simp [Loc, sawTag, St.goto, St.flush, St.setTh, upd]
      first
        | exact L
        | (rename_i htag _ ; have := (g.tagwf _ _ htag).1; simp only [St.ring] at this; exact ⟨⟨this, fun _ => htag⟩, L⟩)
        | (rename_i htag _ _; have := (g.tagwf _ _ htag).1; simp only [St.ring] at this; exact ⟨⟨this, fun _ => htag⟩, L⟩)
        | (rename_i htag; have := (g.tagwf _ _ htag).1; simp only [St.ring] at this; exact ⟨⟨this, fun _ => htag⟩, L⟩)
  · run_unfold hpc
    all_goals simp [St.goto, St.flush, St.setTh, upd, PC.claim]

end MQ

namespace MQ

macro "recv_same" hpc:ident L:ident : tactic =>
  `(tactic| (
    first
    | (run_unfold $hpc:ident
       all_goals first
         | exact loc_of_neutral (recvDone_neutral _ _ _ _)
         | (simp [Loc, sawTag, St.goto, St.gotoF, St.flush, St.setTh, upd]; done)
         | (simp [Loc, sawTag, St.goto, St.gotoF, St.flush, St.setTh, upd]; exact $L:ident)
         | (simp [Loc, sawTag, St.goto, St.gotoF, St.flush, St.setTh, upd] at *; exact $L:ident))))

macro "recv_claim" hpc:ident : tactic =>
  `(tactic| (
    run_unfold $hpc:ident
    all_goals first
      | exact claim_of_neutral (recvDone_neutral _ _ _ _)
      | (simp [St.goto, St.gotoF, St.flush, St.setTh, upd, PC.claim])))

theorem rinv_run_r2 {σ : St} (t inp : Nat) (p : Nat) (sg : Bool) (I : RInv σ)
    (hpc : (σ.th t).pc = .r2 p sg) : RInv (stepRun σ t inp).2 := by
  have L := I.loc t
  simp only [Loc, hpc] at L
  apply rinv_run_same t inp I (by rw [hpc]; rfl) (by rw [hpc]; rfl)
  · recv_same hpc L
  · recv_claim hpc

theorem rinv_run_r3 {σ : St} (t inp : Nat) (p : Nat) (sg : Bool) (I : RInv σ)
    (hpc : (σ.th t).pc = .r3 p sg) : RInv (stepRun σ t inp).2 := by
  have L := I.loc t
  simp only [Loc, hpc] at L
  apply rinv_run_same t inp I (by rw [hpc]; rfl) (by rw [hpc]; rfl)
  · recv_same hpc L
  · recv_claim hpc

theorem rinv_run_r3b {σ : St} (t inp : Nat) (p : Nat) (sg : Bool) (I : RInv σ)
    (hpc : (σ.th t).pc = .r3b p sg) : RInv (stepRun σ t inp).2 := by
  have L := I.loc t
  simp only [Loc, hpc] at L
  apply rinv_run_same t inp I (by rw [hpc]; rfl) (by rw [hpc]; rfl)
  · recv_same hpc L
  · recv_claim hpc

theorem rinv_run_r4 {σ : St} (t inp : Nat) (p : Nat) (I : RInv σ)
    (hpc : (σ.th t).pc = .r4 p) : RInv (stepRun σ t inp).2 := by
  have L := I.loc t
  simp only [Loc, hpc] at L
  apply rinv_run_same t inp I (by rw [hpc]; rfl) (by rw [hpc]; rfl)
  · recv_same hpc L
  · recv_claim hpc

theorem rinv_run_r5 {σ : St} (t inp : Nat) (p : Nat) (sg : Bool) (I : RInv σ)
    (hpc : (σ.th t).pc = .r5 p sg) : RInv (stepRun σ t inp).2 := by
  have L := I.loc t
  simp only [Loc, hpc] at L
  apply rinv_run_same t inp I (by rw [hpc]; rfl) (by rw [hpc]; rfl)
  · recv_same hpc L
  · recv_claim hpc

theorem rinv_run_r6 {σ : St} (t inp : Nat) (p : Nat) (I : RInv σ)
    (hpc : (σ.th t).pc = .r6 p) : RInv (stepRun σ t inp).2 := by
  have L := I.loc t
  simp only [Loc, hpc] at L
  apply rinv_run_same t inp I (by rw [hpc]; rfl) (by rw [hpc]; rfl)
  · recv_same hpc L
  · recv_claim hpc

theorem rinv_run_r7 {σ : St} (t inp : Nat) (sg : Bool) (I : RInv σ)
    (hpc : (σ.th t).pc = .r7 sg) : RInv (stepRun σ t inp).2 := by
  apply rinv_run_same t inp I (by rw [hpc]; rfl) (by rw [hpc]; rfl)
  · run_unfold hpc
    simp [Loc, St.goto, St.flush, St.setTh, upd]
  · recv_claim hpc

theorem rinv_run_fg {σ : St} (t inp : Nat) (p' : Nat) (sg : Bool) (I : RInv σ)
    (hpc : (σ.th t).pc = .fg p' sg) : RInv (stepRun σ t inp).2 := by
  have L := I.loc t
  simp only [Loc, hpc] at L
  apply rinv_run_same t inp I (by rw [hpc]; rfl) (by rw [hpc]; rfl)
  · run_unfold hpc
    simp [Loc, St.goto, St.flush, St.setTh, upd, L]
  · recv_claim hpc

theorem rinv_run_r8 {σ : St} (t inp : Nat) (p : Nat) (c : Option Nat) (I : RInv σ)
    (hpc : (σ.th t).pc = .r8 p c) : RInv (stepRun σ t inp).2 := by
  have L := I.loc t
  simp only [Loc, hpc] at L
  apply rinv_run_same t inp I (by rw [hpc]; rfl) (by rw [hpc]; rfl)
  · recv_same hpc L
  · recv_claim hpc

theorem rinv_run_rc {σ : St} (t inp : Nat) (p : Nat) (sg : Bool) (c : Option Nat) (I : RInv σ)
    (hpc : (σ.th t).pc = .rc p sg c) : RInv (stepRun σ t inp).2 := by
  have L := I.loc t
  simp only [Loc, hpc] at L
  apply rinv_run_same t inp I (by rw [hpc]; rfl) (by rw [hpc]; rfl)
  · recv_same hpc L
  · recv_claim hpc

end MQ

namespace MQ

/-- a published, not yet consumed position holds its logged value -/
theorem cont_of_sawTag {σ : St} (I : RInv σ) {s p : Nat} (hreg : reg σ.ring s) (hs : sawTag σ.ring s p)
    (hp : σ.pos s ≤ p) : σ.cont (p % σ.N) = σ.log[p]? := by
  have g := I.g
  have hw := g.win s hreg
  have htag := hs.2 hp
  rcases I.slots p hs.1 (by simp only [St.ring] at *; omega) with ⟨u, hu⟩ | hpub
  · exact absurd htag (claim_inwin I u p hu).2.2.1
  · exact hpub.2

theorem rinv_run_rd {σ : St} (t inp : Nat) (p : Nat) (sg : Bool) (I : RInv σ) (M : ModeOK σ)
    (hpc : (σ.th t).pc = .rd p sg) : RInv (stepRun σ t inp).2 := by
  have L := I.loc t
  simp only [Loc, hpc] at L
  have hreg := M.regd t (by rw [hpc]; rfl)
  have key := fun hp => cont_of_sawTag I hreg L.1 hp
  apply rinv_run_same t inp I (by rw [hpc]; rfl) (by rw [hpc]; rfl)
  · run_unfold hpc
    all_goals
      simp [Loc, sawTag, St.goto, St.gotoF, St.flush, St.setTh, upd]
      simp [sawTag] at L
      exact ⟨L.1, L.2, key⟩
  · recv_claim hpc

theorem others_not_singleRecv {σ : St} (M : ModeOK σ) (t : Nat) (h : (σ.th t).pc.recvActive = true) :
    ∀ u, u ≠ t → (σ.th u).singleRecv = true → (σ.th u).s ≠ (σ.th t).s := by
  intro u hu hs e
  exact M.recv t u (Ne.symm hu) h hs e.symm

theorem log_getD {l : List Nat} {p : Nat} {c : Option Nat} (h : p < l.length) (hc : c = l[p]?) :
    l[p]? = some (c.getD 0) := by
  subst hc; simp [List.getElem?_eq_getElem h]

theorem rinv_run_r9 {σ : St} (t inp : Nat) (p : Nat) (sg : Bool) (c : Option Nat) (I : RInv σ) (M : ModeOK σ)
    (hpc : (σ.th t).pc = .r9 p sg c) : RInv (stepRun σ t inp).2 := by
  have g := I.g
  have L := I.loc t
  simp only [Loc, hpc] at L
  obtain ⟨⟨L1, L2⟩, L3, L4⟩ := L
  have hreg := M.regd t (by rw [hpc]; rfl)
  have hcl : (σ.th t).pc.claim = none := by rw [hpc]; rfl
  have hlen := g.loglen
  by_cases hok : σ.pos (σ.th t).s = p
  · -- the commit happens (store, or CAS success)
    have hv := log_getD (by simp only [St.ring] at *; omega) (L4 (by simp only [St.ring] at *; omega))
    have hring : (stepRun σ t inp).2.ring =
        { σ.ring with pos := upd σ.ring.pos (σ.th t).s (p + 1),
                      dlv := upd σ.ring.dlv (σ.th t).s (σ.ring.dlv (σ.th t).s ++ [c.getD 0]) } := by
      simp only [stepRun, hpc]; (try simp only [hok]); repeat' split
      all_goals first | (simp only [recvDone_ring]; rfl) | simp_all
    unfold RInv
    rw [th_eq_upd, hring]
    apply rinvR_pos I (others_not_singleRecv M t (by rw [hpc]; rfl)) hreg hok L1
      (L2 (by simp only [St.ring] at *; omega)) hv hcl
    · simp only [stepRun, hpc]; (try simp only [hok]); repeat' split
      all_goals first | exact loc_of_neutral (recvDone_neutral _ _ _ _) | simp_all
    · simp only [stepRun, hpc]; (try simp only [hok]); repeat' split
      all_goals first | exact claim_of_neutral (recvDone_neutral _ _ _ _) | simp_all
    · exact stepRun_not_add _ _ _ (by rw [hpc]; rfl)
  · -- CAS fails (a store-committing consumer cannot get here)
    have hsingle : (σ.th t).single = false := by
      cases e : (σ.th t).single
      · rfl
      · exact absurd (L3 e) hok
    have hring : (stepRun σ t inp).2.ring = σ.ring := by
      simp only [stepRun, hpc, hsingle]; repeat' split
      all_goals first | rfl | simp_all
    apply rinv_run_same' t inp I hring (by rw [hpc]; rfl)
    · simp only [stepRun, hpc, hsingle]; repeat' split
      all_goals first
        | (simp_all; done)
        | (simp [Loc, St.goto, St.flush, St.setTh, upd, hsingle]; done)
    · simp only [stepRun, hpc, hsingle]; repeat' split
      all_goals first
        | (simp_all; done)
        | (simp [St.goto, St.flush, St.setTh, upd, PC.claim]; done)

end MQ

namespace MQ

theorem rinv_run_v1 {σ : St} (t inp : Nat) (p : Nat) (I : RInv σ) (M : ModeOK σ)
    (hpc : (σ.th t).pc = .v1 p) : RInv (stepRun σ t inp).2 := by
  have g := I.g
  have L := I.loc t
  simp only [Loc, hpc] at L
  have hreg := M.regd t (by rw [hpc]; rfl)
  apply rinv_run_same t inp I (by rw [hpc]; rfl) (by rw [hpc]; rfl)
  · run_unfold hpc
    · rename_i htag
      have hlt := (g.tagwf _ _ htag).1
      have hs : sawTag σ.ring (σ.th t).s p := ⟨hlt, fun _ => htag⟩
      have := cont_of_sawTag I hreg hs (by simp only [St.ring] at *; omega)
      simp [Loc, St.goto, St.flush, St.setTh, upd]
      simp only [St.ring] at hlt
      exact ⟨L, hlt, htag, this⟩
    · simp [Loc, St.goto, St.flush, St.setTh, upd]; exact L
  · recv_claim hpc

theorem rinv_run_v2 {σ : St} (t inp : Nat) (p : Nat) (I : RInv σ)
    (hpc : (σ.th t).pc = .v2 p) : RInv (stepRun σ t inp).2 := by
  have L := I.loc t
  simp only [Loc, hpc] at L
  apply rinv_run_same t inp I (by rw [hpc]; rfl) (by rw [hpc]; rfl)
  · recv_same hpc L
  · recv_claim hpc

theorem rinv_run_v3 {σ : St} (t inp : Nat) (p : Nat) (I : RInv σ)
    (hpc : (σ.th t).pc = .v3 p) : RInv (stepRun σ t inp).2 := by
  have L := I.loc t
  simp only [Loc, hpc] at L
  apply rinv_run_same t inp I (by rw [hpc]; rfl) (by rw [hpc]; rfl)
  · recv_same hpc L
  · recv_claim hpc

theorem rinv_run_vw {σ : St} (t inp : Nat) (p : Nat) (c : Option Nat) (I : RInv σ)
    (hpc : (σ.th t).pc = .vw p c) : RInv (stepRun σ t inp).2 := by
  have L := I.loc t
  simp only [Loc, hpc] at L
  apply rinv_run_same t inp I (by rw [hpc]; rfl) (by rw [hpc]; rfl)
  · recv_same hpc L
  · recv_claim hpc

theorem rinv_run_vd {σ : St} (t inp : Nat) (p : Nat) (c : Option Nat) (I : RInv σ)
    (hpc : (σ.th t).pc = .vd p c) : RInv (stepRun σ t inp).2 := by
  have L := I.loc t
  simp only [Loc, hpc] at L
  apply rinv_run_same t inp I (by rw [hpc]; rfl) (by rw [hpc]; rfl)
  · recv_same hpc L
  · recv_claim hpc

theorem rinv_run_v4 {σ : St} (t inp : Nat) (p : Nat) (c : Option Nat) (I : RInv σ) (M : ModeOK σ)
    (hpc : (σ.th t).pc = .v4 p c) : RInv (stepRun σ t inp).2 := by
  have g := I.g
  have L := I.loc t
  simp only [Loc, hpc] at L
  obtain ⟨L1, L2, L3, L4⟩ := L
  have hreg := M.regd t (by rw [hpc]; rfl)
  have hcl : (σ.th t).pc.claim = none := by rw [hpc]; rfl
  have hlen := g.loglen
  have hv := log_getD (by simp only [St.ring] at *; omega) L4
  have hring : (stepRun σ t inp).2.ring =
      { σ.ring with pos := upd σ.ring.pos (σ.th t).s (p + 1),
                    dlv := upd σ.ring.dlv (σ.th t).s (σ.ring.dlv (σ.th t).s ++ [c.getD 0]) } := by
    simp only [stepRun, hpc]; simp only [recvDone_ring]; rfl
  unfold RInv
  rw [th_eq_upd, hring]
  apply rinvR_pos I (others_not_singleRecv M t (by rw [hpc]; rfl)) hreg L1 L2 L3 hv hcl
  · simp only [stepRun, hpc]; exact loc_of_neutral (recvDone_neutral _ _ _ _)
  · simp only [stepRun, hpc]; exact claim_of_neutral (recvDone_neutral _ _ _ _)
  · exact stepRun_not_add _ _ _ (by rw [hpc]; rfl)

end MQ
