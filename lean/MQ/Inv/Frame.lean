import MQ.Model.Core
/-! Frame facts about `stepRun`: which parts of the state a step can change. -/
namespace MQ

/-- the position a writer thread has claimed but not yet published -/
def PC.claim : PC → Option Nat
  | .tg h | .wr h _ | .ts h _ => some h
  | _ => none

/-- pcs of `add_stream` (the thread owns an unpublished stream id `ns`) -/
def PC.addPC : PC → Bool
  | .a1 | .a2 _ | .a3 _ _ _ => true
  | _ => false

/-- the ring-relevant part of a state -/
structure Ring where
  N : Nat
  head : Nat
  tc : Nat
  tag : Nat → Option Nat
  cont : Nat → Option Nat
  pos : Nat → Nat
  groups : Nat → List Nat
  cur : Nat
  nextGrp : Nat
  log : List Nat
  dlv : Nat → List Nat
  start : Nat → Nat
  sused : Nat → Bool
  est : Nat → Bool

def St.ring (σ : St) : Ring :=
  { N := σ.N, head := σ.head, tc := σ.tc, tag := σ.tag, cont := σ.cont, pos := σ.pos, groups := σ.groups,
    cur := σ.cur, nextGrp := σ.nextGrp, log := σ.log, dlv := σ.dlv, start := σ.start,
    sused := σ.sused, est := σ.est }

@[simp] theorem ring_setTh (σ : St) (t f) : (σ.setTh t f).ring = σ.ring := rfl
@[simp] theorem ring_goto (σ : St) (t pc) : (σ.goto t pc).ring = σ.ring := rfl
@[simp] theorem ring_gotoF (σ : St) (t pc f) : (σ.gotoF t pc f).ring = σ.ring := rfl
@[simp] theorem ring_setHd (σ : St) (g f) : (σ.setHd g f).ring = σ.ring := rfl
@[simp] theorem ring_flush (σ : St) (t) : (σ.flush t).ring = σ.ring := rfl

@[simp] theorem th_setTh (σ : St) (t f u) : (σ.setTh t f).th u = if u = t then f (σ.th t) else σ.th u := by
  simp [St.setTh, upd]
@[simp] theorem th_goto (σ : St) (t pc u) : (σ.goto t pc).th u = if u = t then { σ.th t with pc := pc } else σ.th u := by
  simp [St.goto]
@[simp] theorem th_gotoF (σ : St) (t pc f u) :
    (σ.gotoF t pc f).th u = if u = t then { σ.th t with pc := pc, ff := (σ.th t).ff ++ f } else σ.th u := by
  simp [St.gotoF]
@[simp] theorem th_setHd (σ : St) (g f) : (σ.setHd g f).th = σ.th := rfl
@[simp] theorem th_flush (σ : St) (t u) :
    (σ.flush t).th u = if u = t then { σ.th t with ff := [], pn := [] } else σ.th u := by
  simp [St.flush]

/-- other threads are never touched by a step of `t` -/
def OthersSame (t : Nat) (σ σ' : St) : Prop := ∀ u, u ≠ t → σ'.th u = σ.th u

theorem othersSame_refl (t σ) : OthersSame t σ σ := fun _ _ => rfl

end MQ

namespace MQ

macro "frame_simp" : tactic =>
  `(tactic| simp +contextual [St.ring, St.goto, St.gotoF, St.setTh, St.setHd, St.flush, upd, *])

section helpers
variable (σ : St) (t : Nat)

@[simp] theorem afterNotify_ring (k : Nat) : (afterNotify σ t k).ring = σ.ring := by
  unfold afterNotify; split <;> rfl
@[simp] theorem afterNotify_th (k u : Nat) (h : u ≠ t) : (afterNotify σ t k).th u = σ.th u := by
  unfold afterNotify; split <;> frame_simp

@[simp] theorem teardownStart_ring (r : Res) : (teardownStart σ t r).ring = σ.ring := rfl
@[simp] theorem teardownStart_th (r : Res) (u : Nat) (h : u ≠ t) : (teardownStart σ t r).th u = σ.th u := by
  unfold teardownStart; frame_simp

@[simp] theorem arcStep_ring (r : Res) : (arcStep σ t r).ring = σ.ring := by
  unfold arcStep; simp only []; repeat' split
  all_goals rfl
@[simp] theorem arcStep_th (r : Res) (u : Nat) (h : u ≠ t) : (arcStep σ t r).th u = σ.th u := by
  unfold arcStep; simp only []; repeat' split
  all_goals frame_simp

@[simp] theorem startNotify_ring (k : Nat) : (startNotify σ t k).ring = σ.ring := by
  unfold startNotify; split <;> first | rfl | exact afterNotify_ring σ t k
@[simp] theorem startNotify_th (k u : Nat) (h : u ≠ t) : (startNotify σ t k).th u = σ.th u := by
  unfold startNotify; split <;> first | exact afterNotify_th σ t k u h | frame_simp

@[simp] theorem sendDone_ring (r : Res) : (sendDone σ t r).ring = σ.ring := by
  unfold sendDone; simp only []; repeat' split
  all_goals first | exact startNotify_ring σ t _ | rfl
@[simp] theorem sendDone_th (r : Res) (u : Nat) (h : u ≠ t) : (sendDone σ t r).th u = σ.th u := by
  unfold sendDone; simp only []; repeat' split
  all_goals first | exact startNotify_th σ t _ u h | frame_simp

@[simp] theorem startWait_ring (j seq : Nat) : (startWait σ t j seq).ring = σ.ring := by
  unfold startWait; simp only []; repeat' split
  all_goals rfl
@[simp] theorem startWait_th (j seq u : Nat) (h : u ≠ t) : (startWait σ t j seq).th u = σ.th u := by
  unfold startWait; simp only []; repeat' split
  all_goals frame_simp

@[simp] theorem recvDone_ring (r : Res) (j : Nat) : (recvDone σ t r j).ring = σ.ring := by
  unfold recvDone; simp only []; repeat' split
  all_goals rfl
@[simp] theorem recvDone_th (r : Res) (j u : Nat) (h : u ≠ t) : (recvDone σ t r j).th u = σ.th u := by
  unfold recvDone; simp only []; repeat' split
  all_goals frame_simp

@[simp] theorem waitDone_ring : (waitDone σ t).ring = σ.ring := by
  unfold waitDone; simp only []; repeat' split
  all_goals rfl
@[simp] theorem waitDone_th (u : Nat) (h : u ≠ t) : (waitDone σ t).th u = σ.th u := by
  unfold waitDone; simp only []; repeat' split
  all_goals frame_simp

@[simp] theorem checkDone_ring (j seq : Nat) (ph : WPh) (b : Bool) : (checkDone σ t j seq ph b).ring = σ.ring := by
  unfold checkDone; repeat' split
  all_goals first | rfl | exact waitDone_ring _ t
@[simp] theorem checkDone_th (j seq : Nat) (ph : WPh) (b : Bool) (u : Nat) (h : u ≠ t) :
    (checkDone σ t j seq ph b).th u = σ.th u := by
  unfold checkDone; repeat' split
  all_goals first | exact waitDone_th σ t u h | (rw [waitDone_th _ t u h]) | frame_simp

@[simp] theorem recvDropTail_ring : (recvDropTail σ t).ring = σ.ring := by
  unfold recvDropTail; simp only []; repeat' split
  all_goals rfl
@[simp] theorem recvDropTail_th (u : Nat) (h : u ≠ t) : (recvDropTail σ t).th u = σ.th u := by
  unfold recvDropTail; simp only []; repeat' split
  all_goals frame_simp

@[simp] theorem sendDropTail_ring : (sendDropTail σ t).ring = σ.ring := by
  unfold sendDropTail; repeat' split
  all_goals rfl
@[simp] theorem sendDropTail_th (u : Nat) (h : u ≠ t) : (sendDropTail σ t).th u = σ.th u := by
  unfold sendDropTail; repeat' split
  all_goals frame_simp

@[simp] theorem mgrDone_ring (k : MK) : (mgrDone σ t k).ring = σ.ring := by
  unfold mgrDone; simp only []; repeat' split
  all_goals first | rfl | exact sendDone_ring σ t _ | (simp only [recvDropTail_ring, sendDropTail_ring]; done) | (simp only [recvDropTail_ring, sendDropTail_ring]; rfl)
@[simp] theorem mgrDone_th (k : MK) (u : Nat) (h : u ≠ t) : (mgrDone σ t k).th u = σ.th u := by
  unfold mgrDone; simp only []; repeat' split
  all_goals first
    | exact sendDone_th σ t _ u h
    | (simp only [recvDropTail_th _ t u h, sendDropTail_th _ t u h])
    | frame_simp

@[simp] theorem freeEnd_ring (k : MK) : (freeEnd σ t k).ring = σ.ring := by
  unfold freeEnd; simp only [mgrDone_ring]; rfl
@[simp] theorem freeEnd_th (k : MK) (u : Nat) (h : u ≠ t) : (freeEnd σ t k).th u = σ.th u := by
  unfold freeEnd; simp only [mgrDone_th _ t _ u h]

@[simp] theorem freeTail_ring (k : MK) : (freeTail σ t k).ring = σ.ring := by
  unfold freeTail; repeat' split
  all_goals first | rfl | (simp only [mgrDone_ring]; try rfl)
@[simp] theorem freeTail_th (k : MK) (u : Nat) (h : u ≠ t) : (freeTail σ t k).th u = σ.th u := by
  unfold freeTail; repeat' split
  all_goals first | (simp only [mgrDone_th _ t _ u h]) | frame_simp

end helpers
end MQ

namespace MQ

theorem stepLa2_th (σ0 σ : St) (t : Nat) (x : Th) (s u : Nat) (h : u ≠ t) :
    (stepRun.stepLa2 σ0 σ t x s).2.th u = σ.th u := by
  unfold stepRun.stepLa2; simp only []; repeat' split
  all_goals frame_simp

theorem startNotify2_th (σ : St) (t u : Nat) (h : u ≠ t) : (stepRun.startNotify2 σ t).th u = σ.th u := by
  unfold stepRun.startNotify2; frame_simp

set_option maxHeartbeats 1000000 in
/-- a step of `t` never touches another thread's local state -/
theorem stepRun_th (σ : St) (t inp u : Nat) (h : u ≠ t) : (stepRun σ t inp).2.th u = σ.th u := by
  unfold stepRun
  simp only []
  split
  all_goals (repeat' split)
  all_goals first
    | rfl
    | (simp +contextual [St.goto, St.gotoF, St.setTh, St.setHd, St.flush, upd, h, stepLa2_th, startNotify2_th])

end MQ
