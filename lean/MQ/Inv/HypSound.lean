import MQ.Inv.EpochMain
import MQ.Inv.WakeMain
/-!
# The executable hypothesis checks imply the hypotheses of the theorems

The acceptor evaluates `modeOKb`, `lockOKb`, `eStepOKb`, `eCallOKb`, `eRetOKb` (MQ/Model/Hyp.lean) on the model
state before every step of every real trace, for the threads `0 … T-1`; all other threads are idle.
-/
set_option linter.unusedSimpArgs false
namespace MQ

theorem tokOfB_eq (σ : St) (t : Nat) : tokOfB σ t = tokOf σ t := rfl
theorem holdGB_eq (pc : PC) : pc.holdGB = pc.holdG := by cases pc <;> rfl

theorem idle_facts {pc : PC} (h : pc = .idle) :
    pc.sendActive = false ∧ pc.singleSend = false ∧ pc.recvActive = false ∧ pc.addPC = false := by
  subst h; exact ⟨rfl, rfl, rfl, rfl⟩

theorem modeOKb_sound (σ : St) (T : Nat) (h : modeOKb σ T = true) (hT : ∀ t, T ≤ t → (σ.th t).pc = .idle) :
    ModeOK σ := by
  simp only [modeOKb, Bool.and_eq_true, List.all_eq_true, List.mem_map, List.mem_range, forall_exists_index, and_imp,
    Bool.or_eq_true, Bool.not_eq_true', beq_iff_eq, Bool.and_eq_false_iff] at h
  obtain ⟨h1, h2⟩ := h
  have inT : ∀ t, (σ.th t).pc ≠ .idle → t < T := by
    intro t hne; rcases Nat.lt_or_ge t T with h | h
    · exact h
    · exact absurd (hT t h) hne
  refine ⟨?_, ?_, ?_, ?_⟩
  · intro t u htu ht hu
    have t1 : t < T := inT t (by intro e; rw [e] at ht; cases ht)
    have u1 : u < T := inT u (by intro e; rw [e] at hu; cases hu)
    have := (h1 (t, σ.th t) t t1 rfl (u, σ.th u) u u1 rfl).1
    simp only [htu, false_or, ht, hu] at this
    rcases this with h | h <;> cases h
  · intro t u htu ht hu hs
    have t1 : t < T := inT t (by intro e; rw [e] at ht; cases ht)
    have u1 : u < T := inT u (by
      intro e; unfold Th.singleRecv at hu; rw [e] at hu; cases hu)
    have := (h1 (t, σ.th t) t t1 rfl (u, σ.th u) u u1 rfl).2
    simp only [htu, false_or, ht, hu, hs, beq_self_eq_true] at this
    rcases this with h | h
    · rcases h with h | h <;> cases h
    · cases h
  · intro t ht
    have t1 : t < T := inT t (by intro e; rw [e] at ht; cases ht)
    have := (h2 (t, σ.th t) t t1 rfl).1
    simp only [ht, Bool.false_eq_true, false_or, List.contains_iff_mem] at this
    simpa [reg, St.ring] using this
  · intro t ht
    have t1 : t < T := inT t (by intro e; rw [e] at ht; cases ht)
    have := (h2 (t, σ.th t) t t1 rfl).2
    simp only [ht, Bool.false_eq_true, false_or, List.contains_iff_mem] at this
    simpa [reg, St.ring] using this

theorem lockOKb_sound (σ : St) (t : Nat) (h : lockOKb σ t = true) : LockOK σ t := by
  unfold lockOKb at h; unfold LockOK
  cases hpc : (σ.th t).pc <;> rw [hpc] at h <;> simp only [] at h ⊢
  all_goals (try (simpa [Option.isNone_iff_eq_none] using h))

theorem eStepOKb_sound (σ : St) (x T : Nat) (h : eStepOKb σ x T = true) (hT : ∀ t, T ≤ t → (σ.th t).pc = .idle) :
    EStepOK σ x := by
  have inT : ∀ t, (σ.th t).pc ≠ .idle → t < T := by
    intro t hne; rcases Nat.lt_or_ge t T with h | h
    · exact h
    · exact absurd (hT t h) hne
  simp only [eStepOKb, Bool.and_eq_true, List.all_eq_true, List.mem_filter, List.mem_map, List.mem_range, and_imp,
    forall_exists_index, bne_iff_ne, ne_eq, Bool.and_eq_true, decide_eq_true_eq] at h
  obtain ⟨h1, h2⟩ := h
  have oth : ∀ u, u ≠ x → (σ.th u).pc ≠ .idle →
      (u, σ.th u) ∈ (List.map (fun t => (t, σ.th t)) (List.range T)) ∧ ((u, σ.th u).1 ≠ x ∧ (u, σ.th u).2.pc ≠ .idle) := by
    intro u hu hi
    exact ⟨List.mem_map.mpr ⟨u, List.mem_range.mpr (inT u hi), rfl⟩, hu, hi⟩
  refine ⟨?_, ?_, ?_, ?_, ?_⟩
  · intro u hu hi
    exact h1 (u, σ.th u) u (inT u hi) rfl hu hi
  · intro k hpc u hu hi
    rw [hpc] at h2; simp only [List.all_eq_true, List.mem_filter, List.mem_map, List.mem_range, and_imp,
      forall_exists_index, bne_iff_ne, ne_eq, Bool.and_eq_true, decide_eq_true_eq] at h2
    exact h2 (u, σ.th u) u (inT u hi) rfl hu hi
  · intro hq
    rcases hq with ⟨m, hh, tl, hpc⟩ | hpc | ⟨c, raw, ng, hpc⟩ <;> rw [hpc] at h2 <;>
      simpa [List.contains_iff_mem, tokOf] using h2
  · intro c ng hpc hc
    rw [hpc] at h2
    simp only [Bool.or_eq_true, Bool.not_eq_true', beq_eq_false_iff_ne, ne_eq, List.contains_iff_mem] at h2
    rcases h2 with h | h
    · exact absurd hc h
    · simpa using h
  · intro hpc u hu
    rw [hpc] at h2
    simp only [List.all_eq_true, List.mem_map, List.mem_range, forall_exists_index, and_imp, Bool.or_eq_true,
      beq_iff_eq, Option.isNone_iff_eq_none] at h2
    rcases Nat.lt_or_ge u T with hl | hl
    · rcases h2 (u, σ.th u) u hl rfl with h | h
      · exact absurd h hu
      · rw [← holdGB_eq]; exact h
    · rw [hT u hl]; rfl

theorem eCallOKb_sound (σ : St) (t : Nat) (o : Outer) (g v ng ns T : Nat) (h : eCallOKb σ t o g ng T = true)
    (hT : ∀ t, T ≤ t → (σ.th t).pc = .idle) : ELabelOK σ (.call t o g v ng ns) := by
  intro u hu hi
  have hl : u < T := by
    rcases Nat.lt_or_ge u T with h | h
    · exact h
    · exact absurd (hT u h) hi
  simp only [eCallOKb, List.all_eq_true, List.mem_range, Bool.or_eq_true, beq_iff_eq, Bool.and_eq_true, bne_iff_ne, ne_eq,
    Bool.not_eq_true'] at h
  rcases h u hl with (h | h) | h
  · exact absurd h hu
  · exact absurd h hi
  · refine ⟨h.1, fun hc => ?_⟩
    rcases h.2 with h2 | h2
    · rw [hc] at h2; cases h2
    · exact h2

theorem eRetOKb_sound (σ : St) (t T : Nat) (h : eRetOKb σ t T = true)
    (hT : ∀ t, T ≤ t → (σ.th t).pc = .idle) : ELabelOK σ (.retn t) := by
  intro u hu hi
  have hl : u < T := by
    rcases Nat.lt_or_ge u T with h | h
    · exact h
    · exact absurd (hT u h) hi
  simp only [eRetOKb, List.all_eq_true, List.mem_range, Bool.or_eq_true, beq_iff_eq, Bool.and_eq_true, bne_iff_ne, ne_eq,
    Bool.not_eq_true'] at h
  rcases h u hl with (h | h) | h
  · exact absurd h hu
  · exact absurd h hi
  · refine ⟨h.1, fun hc => ?_⟩
    rcases h.2 with h2 | h2
    · rw [hc] at h2; cases h2
    · exact h2

theorem wLockOKb_sound (σ : St) (x T : Nat) (h : wLockOKb σ x T = true) (hT : ∀ t, T ≤ t → (σ.th t).pc = .idle) :
    WLockOK σ x := by
  unfold wLockOKb at h; unfold WLockOK
  cases hpc : (σ.th x).pc <;> rw [hpc] at h <;> simp only [] at h ⊢
  case nb1 k => simpa [Option.isNone_iff_eq_none] using h
  case wl j seq => simpa [Option.isNone_iff_eq_none] using h
  case nf lst k =>
    cases lst <;> simp only [] at h ⊢
    intro u j seq tg hq
    rcases Nat.lt_or_ge u T with hl | hl
    · simp only [List.all_eq_true, List.mem_range] at h
      have := h u hl
      rw [hq] at this; simp at this
    · rw [hT u hl] at hq; cases hq

end MQ
