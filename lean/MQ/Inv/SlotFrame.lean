import MQ.Inv.ModeMain
import MQ.Inv.PinRun
/-!
# Slot writes (C04): contents and tags are written at one program point each, in the claimed slot only
-/
namespace MQ

set_option maxHeartbeats 4000000 in
/-- slot contents are written at one program point only (`wr`, the value write of the thread that claimed the
position), and only in the claimed slot -/
theorem cont_written_only_at_wr (σ : St) (t inp : Nat) :
    (stepRun σ t inp).2.cont = σ.cont ∨
    ∃ h old, (σ.th t).pc = .wr h old ∧ (stepRun σ t inp).2.cont = upd σ.cont (h % σ.N) (some (σ.th t).v) := by
  cases hpc : (σ.th t).pc
  case hd m h => cases m <;> (pin_unf hpc <;> (repeat' split) <;> first | (left; rfl) | (simp [St.goto, St.gotoF, St.flush, St.setTh, St.setHd, upd]; done) | (exfalso; simp_all; done))
  all_goals (pin_unf hpc <;> (repeat' split) <;> first | (left; rfl) | (simp [St.goto, St.gotoF, St.flush, St.setTh, St.setHd, upd]; done) | (exfalso; simp_all; done))

set_option maxHeartbeats 4000000 in
/-- tags are stored at one program point only (`ts`, the publication), and only for the claimed slot -/
theorem tag_written_only_at_ts (σ : St) (t inp : Nat) :
    (stepRun σ t inp).2.tag = σ.tag ∨
    ∃ h old, (σ.th t).pc = .ts h old ∧ (stepRun σ t inp).2.tag = upd σ.tag (h % σ.N) (some h) := by
  cases hpc : (σ.th t).pc
  case hd m h => cases m <;> (pin_unf hpc <;> (repeat' split) <;> first | (left; rfl) | (simp [St.goto, St.gotoF, St.flush, St.setTh, St.setHd, upd]; done) | (exfalso; simp_all; done))
  all_goals (pin_unf hpc <;> (repeat' split) <;> first | (left; rfl) | (simp [St.goto, St.gotoF, St.flush, St.setTh, St.setHd, upd]; done) | (exfalso; simp_all; done))

end MQ
