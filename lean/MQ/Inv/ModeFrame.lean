import MQ.Inv.ModeDefs
import MQ.Inv.Frame2
/-! # ModeInv — frame lemmas: which steps touch the handle table and the counts -/
set_option linter.unusedSimpArgs false
namespace MQ

structure HTab where
  writers : Nat
  ncons : Nat → Nat
  sl : List Nat
  cl : Nat → List Nat
  hs : Nat → Hd

def St.htab (σ : St) : HTab := { writers := σ.writers, ncons := σ.ncons, sl := σ.sl, cl := σ.cl, hs := σ.hs }

@[simp] theorem htab_setTh (σ : St) (t f) : (σ.setTh t f).htab = σ.htab := rfl
@[simp] theorem htab_goto (σ : St) (t pc) : (σ.goto t pc).htab = σ.htab := rfl
@[simp] theorem htab_gotoF (σ : St) (t pc f) : (σ.gotoF t pc f).htab = σ.htab := rfl
@[simp] theorem htab_flush (σ : St) (t) : (σ.flush t).htab = σ.htab := rfl

section helpers
variable (σ : St) (t : Nat)
@[simp] theorem afterNotify_htab (k : Nat) : (afterNotify σ t k).htab = σ.htab := by
  unfold afterNotify; split <;> rfl
@[simp] theorem teardownStart_htab (r : Res) : (teardownStart σ t r).htab = σ.htab := rfl
@[simp] theorem arcStep_htab (r : Res) : (arcStep σ t r).htab = σ.htab := by
  unfold arcStep; simp only []; repeat' split
  all_goals rfl
@[simp] theorem startNotify_htab (k : Nat) : (startNotify σ t k).htab = σ.htab := by
  unfold startNotify; split <;> first | rfl | exact afterNotify_htab σ t k
@[simp] theorem sendDone_htab (r : Res) : (sendDone σ t r).htab = σ.htab := by
  unfold sendDone; simp only []; repeat' split
  all_goals first | exact startNotify_htab σ t _ | rfl
@[simp] theorem startWait_htab (j seq : Nat) : (startWait σ t j seq).htab = σ.htab := by
  unfold startWait; simp only []; repeat' split
  all_goals rfl
@[simp] theorem recvDone_htab (r : Res) (j : Nat) : (recvDone σ t r j).htab = σ.htab := by
  unfold recvDone; simp only []; repeat' split
  all_goals rfl
@[simp] theorem waitDone_htab : (waitDone σ t).htab = σ.htab := by
  unfold waitDone; simp only []; repeat' split
  all_goals rfl
@[simp] theorem checkDone_htab (j seq : Nat) (ph : WPh) (b : Bool) : (checkDone σ t j seq ph b).htab = σ.htab := by
  unfold checkDone; repeat' split
  all_goals first | rfl | exact waitDone_htab _ t
@[simp] theorem recvDropTail_htab : (recvDropTail σ t).htab = σ.htab := by
  unfold recvDropTail; simp only []; repeat' split
  all_goals rfl
@[simp] theorem sendDropTail_htab : (sendDropTail σ t).htab = σ.htab := by
  unfold sendDropTail; repeat' split
  all_goals rfl
@[simp] theorem mgrDone_htab (k : MK) : (mgrDone σ t k).htab = σ.htab := by
  unfold mgrDone; simp only []; repeat' split
  all_goals first
    | rfl
    | exact sendDone_htab σ t _
    | (simp only [recvDropTail_htab, sendDropTail_htab]; done)
    | (simp only [recvDropTail_htab, sendDropTail_htab]; rfl)
@[simp] theorem freeEnd_htab (k : MK) : (freeEnd σ t k).htab = σ.htab := by
  unfold freeEnd; simp only [mgrDone_htab]; rfl
@[simp] theorem freeTail_htab (k : MK) : (freeTail σ t k).htab = σ.htab := by
  unfold freeTail; repeat' split
  all_goals first | rfl | (simp only [mgrDone_htab]; try rfl)
@[simp] theorem startNotify2_htab : (stepRun.startNotify2 σ t).htab = σ.htab := rfl
end helpers

@[simp] theorem stepLa2_htab (σ0 σ : St) (t : Nat) (x : Th) (s : Nat) : (stepRun.stepLa2 σ0 σ t x s).2.htab = σ.htab := by
  unfold stepRun.stepLa2; simp only []; repeat' split
  all_goals rfl

/-- sources whose step may change the handle table or a count -/
def PC.hSrc : PC → Bool
  | .m1 | .la1 | .cs1 | .ds1 | .cr1 | .dr1 | .a3 _ _ _ => true
  | _ => false

set_option maxHeartbeats 2000000 in
theorem stepRun_htab_same (σ : St) (t inp : Nat) (h : (σ.th t).pc.hSrc = false) :
    (stepRun σ t inp).2.htab = σ.htab := by
  unfold stepRun
  simp only []
  split
  all_goals (first | (rename_i heq; rw [heq] at h; simp [PC.hSrc] at h; done) | skip)
  all_goals (repeat' split)
  all_goals first
    | (simp only [sendDone_htab, recvDone_htab, afterNotify_htab, startNotify_htab, teardownStart_htab,
        startWait_htab, checkDone_htab, waitDone_htab, stepLa2_htab, startNotify2_htab, mgrDone_htab, freeTail_htab,
        freeEnd_htab, recvDropTail_htab, sendDropTail_htab,
        htab_setTh, htab_goto, htab_gotoF, htab_flush]; done)
    | (simp only [sendDone_htab, recvDone_htab, afterNotify_htab, startNotify_htab, teardownStart_htab,
        startWait_htab, checkDone_htab, waitDone_htab, stepLa2_htab, startNotify2_htab, mgrDone_htab, freeTail_htab,
        freeEnd_htab, recvDropTail_htab, sendDropTail_htab,
        htab_setTh, htab_goto, htab_gotoF, htab_flush] <;> rfl)
    | rfl

end MQ
