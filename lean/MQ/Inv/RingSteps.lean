import MQ.Inv.RingDefs
/-!
# RingInv — preservation lemmas at the (Ring, thread table) level
-/
set_option linter.unusedSimpArgs false

namespace MQ

theorem upd_claim_cases {th : Nat → Th} {t : Nat} {x' : Th} (u : Nat) :
    (upd th t x' u) = if u = t then x' else th u := by simp [upd]

/-- a step that changes no ring word: only `t`'s locals move -/
theorem rinvR_same {R : Ring} {th : Nat → Th} {t : Nat} {x' : Th} (I : RInvR R th)
    (hl : Loc R x') (hc : x'.pc.claim = (th t).pc.claim)
    (hns : x'.pc.addPC = true → (th t).pc.addPC = true ∧ x'.ns = (th t).ns) : RInvR R (upd th t x') := by
  obtain ⟨g, loc, slots, inj, nsinj⟩ := I
  refine ⟨g, ?_, ?_, ?_, ?_⟩
  · intro u; by_cases e : u = t
    · subst e; simpa using hl
    · simpa [upd, e] using loc u
  · intro i h1 h2
    rcases slots i h1 h2 with ⟨u, hu⟩ | h
    · left; refine ⟨u, ?_⟩
      by_cases e : u = t
      · subst e; simp [hc, hu]
      · simpa [upd, e] using hu
    · exact Or.inr h
  · intro t1 t2 h h1 h2
    have e1 : (th t1).pc.claim = some h := by
      by_cases e : t1 = t
      · subst e; simpa [hc] using h1
      · simpa [upd, e] using h1
    have e2 : (th t2).pc.claim = some h := by
      by_cases e : t2 = t
      · subst e; simpa [hc] using h2
      · simpa [upd, e] using h2
    exact inj t1 t2 h e1 e2
  · intro t1 t2 h1 h2 e
    have f : ∀ u, (upd th t x' u).pc.addPC = true → (th u).pc.addPC = true ∧ (upd th t x' u).ns = (th u).ns := by
      intro u hu
      by_cases eu : u = t
      · subst eu; simp only [upd_same] at hu ⊢; exact hns hu
      · simp only [upd_ne _ _ _ _ eu] at hu ⊢; exact ⟨hu, trivial⟩
    obtain ⟨a1, b1⟩ := f t1 h1
    obtain ⟨a2, b2⟩ := f t2 h2
    exact nsinj t1 t2 a1 a2 (by rw [← b1, ← b2]; exact e)

/-- every claim lies in the window and is unpublished -/
theorem claim_inwin {R : Ring} {th : Nat → Th} (I : RInvR R th) (t h : Nat)
    (hc : (th t).pc.claim = some h) :
    h < R.head ∧ R.head ≤ h + R.N ∧ R.tag (h % R.N) ≠ some h ∧ (∀ s, reg R s → R.pos s ≤ h) := by
  have L := I.loc t
  have g := I.g
  obtain ⟨s0, hs0⟩ := List.exists_mem_of_ne_nil _ g.regne
  have hw := g.win s0 hs0
  unfold Loc at L
  cases hq : (th t).pc <;> rw [hq] at L hc <;> simp only [PC.claim] at hc <;> try cases hc
  all_goals
    simp only [] at L
    have hp := L.2.1 s0 hs0
    exact ⟨L.1, by omega, L.2.2.1, L.2.1⟩

end MQ

namespace MQ

/-- `tc` grows (by a thread that is not `x`; single-mode writers are excluded by `ModeOK`) -/
theorem loc_tc_stable {R : Ring} {x : Th} {c : Nat} (hq : Loc R x) (hc : R.tc ≤ c)
    (hs : x.pc.singleSend = false) : Loc { R with tc := c } x := by
  obtain ⟨pc, g, v, outer, ff, pn, ng, ns, s, single, aux⟩ := x
  cases pc
  case st m h =>
    cases m <;> simp only [Loc, PC.singleSend] at hq hs ⊢
    · cases hs
    · exact ⟨hq.1, by omega, by simp⟩
  case g1 m h tl =>
    cases m <;> simp only [Loc, PC.singleSend] at hq hs ⊢
    · cases hs
    · exact ⟨hq.1, by omega, hq.2.2.1, by simp⟩
  case g2 m h tl p i md =>
    cases m <;> simp only [Loc, PC.singleSend] at hq hs ⊢
    · cases hs
    · obtain ⟨a, b, c1, e, f, _⟩ := hq
      exact ⟨a, by omega, c1, e, f, by simp⟩
  case g3 m h tl p r =>
    cases m <;> cases r <;> simp only [Loc, PC.singleSend] at hq hs ⊢
    · cases hs
    · cases hs
    · exact ⟨hq.1, by omega, hq.2.2.1, by simp⟩
    · obtain ⟨a, b, c1, e, f, _⟩ := hq
      exact ⟨a, by omega, c1, e, f, by simp⟩
  case tcs h cur => simp only [PC.singleSend] at hs; cases hs
  case tcc h tl cur =>
    simp only [Loc, reg] at hq ⊢
    obtain ⟨a, b, c1, d, e, f⟩ := hq
    exact ⟨a, b, c1, d, by omega, f⟩
  case tcl h => simp only [Loc] at hq ⊢; omega
  case rf m h =>
    cases m <;> simp only [Loc, PC.singleSend] at hq hs ⊢
    · cases hs
    · exact ⟨hq.1, by omega, by simp⟩
  case hd m h =>
    cases m <;> simp only [Loc, PC.singleSend] at hq hs ⊢
    · cases hs
    · exact ⟨hq.1, by omega, by simp⟩
  all_goals (simp only [Loc, reg, sawTag] at hq ⊢; try exact hq)

end MQ

namespace MQ

/-- assembling the invariant after a step of thread `t` -/
theorem rinvR_mk {R R' : Ring} {th : Nat → Th} {t : Nat} {x' : Th} (I : RInvR R th) (hg : Glob R')
    (hst : ∀ u, u ≠ t → Loc R' (th u)) (hl : Loc R' x')
    (hslots : ∀ i, i < R'.head → R'.head ≤ i + R'.N →
      (∃ u, (upd th t x' u).pc.claim = some i) ∨ (R'.tag (i % R'.N) = some i ∧ R'.cont (i % R'.N) = R'.log[i]?))
    (hinj : ∀ u h, u ≠ t → (th u).pc.claim = some h → x'.pc.claim ≠ some h)
    (hns : x'.pc.addPC = true → (th t).pc.addPC = true ∧ x'.ns = (th t).ns) :
    RInvR R' (upd th t x') := by
  refine ⟨hg, ?_, hslots, ?_, ?_⟩
  · intro u; by_cases e : u = t
    · subst e; simpa using hl
    · simpa [upd, e] using hst u e
  · intro t1 t2 h h1 h2
    by_cases e1 : t1 = t <;> by_cases e2 : t2 = t
    · rw [e1, e2]
    · subst e1; simp [upd, e2] at h1 h2; exact absurd h1 (hinj t2 h e2 h2)
    · subst e2; simp [upd, e1] at h1 h2; exact absurd h2 (hinj t1 h e1 h1)
    · simp [upd, e1, e2] at h1 h2; exact I.claiminj t1 t2 h h1 h2
  · intro t1 t2 h1 h2 e
    have f : ∀ u, (upd th t x' u).pc.addPC = true → (th u).pc.addPC = true ∧ (upd th t x' u).ns = (th u).ns := by
      intro u hu
      by_cases eu : u = t
      · subst eu; simp only [upd_same] at hu ⊢; exact hns hu
      · simp only [upd_ne _ _ _ _ eu] at hu ⊢; exact ⟨hu, trivial⟩
    obtain ⟨a1, b1⟩ := f t1 h1
    obtain ⟨a2, b2⟩ := f t2 h2
    exact I.nsinj t1 t2 a1 a2 (by rw [← b1, ← b2]; exact e)

/-- old slot facts carry over when tags, contents, log prefix and head are unchanged and `t` keeps its claim -/
theorem slots_same {R : Ring} {th : Nat → Th} {t : Nat} {x' : Th} (I : RInvR R th)
    (hc : x'.pc.claim = (th t).pc.claim) (i : Nat) (h1 : i < R.head) (h2 : R.head ≤ i + R.N) :
    (∃ u, (upd th t x' u).pc.claim = some i) ∨ (R.tag (i % R.N) = some i ∧ R.cont (i % R.N) = R.log[i]?) := by
  rcases I.slots i h1 h2 with ⟨u, hu⟩ | h
  · left; refine ⟨u, ?_⟩
    by_cases e : u = t
    · subst e; simp [hc, hu]
    · simpa [upd, e] using hu
  · exact Or.inr h

theorem rinvR_tc {R : Ring} {th : Nat → Th} {t : Nat} {x' : Th} {c : Nat} (I : RInvR R th)
    (M : ∀ u, u ≠ t → (th u).pc.singleSend = false)
    (h1 : R.tc ≤ c) (h2 : ∀ s, reg R s → c ≤ R.pos s) (h3 : R.head ≤ c + R.N)
    (hl : Loc { R with tc := c } x') (hc : x'.pc.claim = (th t).pc.claim) (hxa : x'.pc.addPC = false) :
    RInvR { R with tc := c } (upd th t x') := by
  have g := I.g
  refine rinvR_mk I ?_ ?_ hl ?_ ?_ (by intro e; rw [hxa] at e; cases e)
  · exact { g with tcle := h2, tcN := h3 }
  · intro u hu; exact loc_tc_stable (I.loc u) h1 (M u hu)
  · intro i a b; exact slots_same I hc i a b
  · intro u h hu hcu e
    rw [hc] at e
    exact hu (I.claiminj u t h hcu e)

end MQ

namespace MQ

theorem getElem?_append_lt {l : List Nat} {v p : Nat} (h : p < l.length) : (l ++ [v])[p]? = l[p]? := by
  rw [List.getElem?_append_left h]

/-- `head` grows by one and the log is extended (claim by another thread) -/
theorem loc_head_stable {R : Ring} {x : Th} {v : Nat} (g : Glob R) (hq : Loc R x)
    (hs : x.pc.singleSend = false) :
    Loc { R with head := R.head + 1, log := R.log ++ [v] } x := by
  have hl := g.loglen
  obtain ⟨pc, g', v', outer, ff, pn, ng, ns, s, single, aux⟩ := x
  cases pc
  case st m h =>
    cases m <;> simp only [Loc, PC.singleSend] at hq hs ⊢
    · cases hs
    · exact ⟨by omega, hq.2.1, by simp⟩
  case g1 m h tl =>
    cases m <;> simp only [Loc, PC.singleSend] at hq hs ⊢
    · cases hs
    · exact ⟨by omega, hq.2.1, hq.2.2.1, by simp⟩
  case g2 m h tl p i md =>
    cases m <;> simp only [Loc, PC.singleSend] at hq hs ⊢
    · cases hs
    · obtain ⟨a, b, c1, e, f, _⟩ := hq
      exact ⟨by omega, b, c1, e, f, by simp⟩
  case g3 m h tl p r =>
    cases m <;> cases r <;> simp only [Loc, PC.singleSend] at hq hs ⊢
    · cases hs
    · cases hs
    · exact ⟨by omega, hq.2.1, hq.2.2.1, by simp⟩
    · obtain ⟨a, b, c1, e, f, _⟩ := hq
      exact ⟨by omega, b, c1, e, f, by simp⟩
  case tcs h cur => simp only [PC.singleSend] at hs; cases hs
  case tcc h tl cur =>
    simp only [Loc, reg] at hq ⊢
    obtain ⟨a, b, c1, d, e, f⟩ := hq
    exact ⟨by omega, b, c1, d, e, f⟩
  case tcl h => simp only [Loc] at hq ⊢; omega
  case rf m h =>
    cases m <;> simp only [Loc, PC.singleSend] at hq hs ⊢
    · cases hs
    · exact ⟨by omega, hq.2.1, by simp⟩
  case hd m h =>
    cases m <;> simp only [Loc, PC.singleSend] at hq hs ⊢
    · cases hs
    · exact ⟨by omega, hq.2.1, by simp⟩
  case tg h | wr h o =>
    simp only [Loc, reg] at hq ⊢
    obtain ⟨a, b, c, d⟩ := hq
    exact ⟨by omega, b, c, by rw [getElem?_append_lt (by omega)]; exact d⟩
  case ts h o =>
    simp only [Loc, reg] at hq ⊢
    obtain ⟨a, b, c, d, e⟩ := hq
    exact ⟨by omega, b, c, by rw [getElem?_append_lt (by omega)]; exact d, e⟩
  case r4 p | r5 p sg | r6 p | rd p sg =>
    simp only [Loc, sawTag] at hq ⊢
    exact ⟨⟨by omega, hq.1.2⟩, hq.2⟩
  case rc p sg c | r8 p c | r9 p sg c =>
    simp only [Loc, sawTag] at hq ⊢
    obtain ⟨⟨a, b⟩, c1, d⟩ := hq
    exact ⟨⟨by omega, b⟩, c1, fun hp => by rw [getElem?_append_lt (by omega)]; exact d hp⟩
  case vw p c | vd p c | v4 p c =>
    simp only [Loc] at hq ⊢
    obtain ⟨a, b, c1, d⟩ := hq
    exact ⟨a, by omega, c1, by rw [getElem?_append_lt (by omega)]; exact d⟩
  all_goals (simp only [Loc, reg, sawTag] at hq ⊢; try exact hq)

end MQ

namespace MQ

theorem take_drop_append {l : List Nat} {v st p : Nat} (h1 : st ≤ p) (h2 : p ≤ l.length) :
    ((l ++ [v]).drop st).take (p - st) = (l.drop st).take (p - st) := by
  rw [List.drop_append_of_le_length (by omega)]
  rw [List.take_append_of_le_length (by simp; omega)]

/-- the claim step: `head` CAS / store succeeds -/
theorem rinvR_head {R : Ring} {th : Nat → Th} {t : Nat} {x' : Th} {v h : Nat} (I : RInvR R th)
    (M : ∀ u, u ≠ t → (th u).pc.singleSend = false)
    (hh : R.head = h) (hlt : h < R.tc + R.N) (hnc : (th t).pc.claim = none)
    (hx : x'.pc = .tg h) (hv : x'.v = v) :
    RInvR { R with head := h + 1, log := R.log ++ [v] } (upd th t x') := by
  have g := I.g
  have hl := g.loglen
  subst hh
  refine rinvR_mk I ?_ ?_ ?_ ?_ ?_ (by intro e; rw [hx] at e; cases e)
  · refine { hN := g.hN, regne := g.regne, posle := ?_, win := ?_, tcle := g.tcle, tcN := ?_, loglen := ?_,
             startle := g.startle, dlv := ?_, tagwf := ?_, curlt := g.curlt, regest := g.regest, estsub := g.estsub }
    · intro s hs; have := g.posle s hs; simp only []; omega
    · intro s hs; have := g.tcle s hs; simp only []; omega
    · simp only []; omega
    · simp [hl]
    · intro s hs
      simp only []
      rw [g.dlv s hs, take_drop_append (g.startle s hs) (by have := g.posle s hs; omega)]
    · intro j t' ht'; have := g.tagwf j t' ht'; simp only []; omega
  · intro u hu; exact loc_head_stable g (I.loc u) (M u hu)
  · simp only [Loc, hx, reg]
    refine ⟨by omega, fun s hs => g.posle s hs, ?_, ?_⟩
    · intro e; have := (g.tagwf _ _ e).1; omega
    · rw [List.getElem?_append_right (by omega)]; simp [hl, hv]
  · intro i h1 h2
    simp only [] at h1 h2 ⊢
    rcases Nat.lt_or_ge i R.head with hi | hi
    · rcases I.slots i hi (by omega) with ⟨u, hu⟩ | hp
      · left; refine ⟨u, ?_⟩
        by_cases e : u = t
        · subst e; rw [hnc] at hu; cases hu
        · simpa [upd, e] using hu
      · right
        refine ⟨hp.1, ?_⟩
        rw [getElem?_append_lt (by omega)]; exact hp.2
    · left; refine ⟨t, ?_⟩
      have : i = R.head := by omega
      simp [upd, hx, PC.claim, this]
  · intro u h' hu hcu e
    rw [hx] at e; simp only [PC.claim, Option.some.injEq] at e
    have := (claim_inwin I u h' hcu).1
    omega

end MQ

namespace MQ

/-- a slot's content changes (value write by the claimant of that slot) -/
theorem loc_cont_stable {R : Ring} {x : Th} {j : Nat} {c : Option Nat} (hq : Loc R x)
    (hne : ∀ h', x.pc.claim = some h' → h' % R.N ≠ j) :
    Loc { R with cont := upd R.cont j c } x := by
  obtain ⟨pc, g', v', outer, ff, pn, ng, ns, s, single, aux⟩ := x
  cases pc
  case ts h o =>
    simp only [Loc, reg, PC.claim] at hq hne ⊢
    obtain ⟨a, b, c1, d, e⟩ := hq
    exact ⟨a, b, c1, d, by rw [upd_ne _ _ _ _ (hne h rfl)]; exact e⟩
  case g3 m h tl p r => cases r <;> (simp only [Loc, reg] at hq ⊢; exact hq)
  all_goals (simp only [Loc, reg, sawTag] at hq ⊢; try exact hq)

/-- two claims (or a claim and a published position) in the window occupy different slots -/
theorem window_slot_ne {R : Ring} {a b : Nat} (ha : a < R.head) (ha' : R.head ≤ a + R.N)
    (hb : b < R.head) (hb' : R.head ≤ b + R.N) (hne : a ≠ b) : a % R.N ≠ b % R.N := by
  intro e; exact hne (mod_window_inj e (by omega) (by omega))

/-- the value write of the claimant of `h` -/
theorem rinvR_cont {R : Ring} {th : Nat → Th} {t : Nat} {x' : Th} {h v : Nat} {o : Bool} (I : RInvR R th)
    (hpc : (th t).pc = .wr h o) (hv : (th t).v = v) (hx : x'.pc = .ts h o) (hxv : x'.v = v) (hxs : x'.s = (th t).s) :
    RInvR { R with cont := upd R.cont (h % R.N) (some v) } (upd th t x') := by
  have g := I.g
  have hcl : (th t).pc.claim = some h := by simp [hpc, PC.claim]
  obtain ⟨c1, c2, c3, c4⟩ := claim_inwin I t h hcl
  have L := I.loc t
  simp only [Loc, hpc, hv] at L
  refine rinvR_mk I ?_ ?_ ?_ ?_ ?_ (by intro e; rw [hx] at e; cases e)
  · exact { g with }
  · intro u hu
    apply loc_cont_stable (I.loc u)
    intro h' hc'
    obtain ⟨d1, d2, _, _⟩ := claim_inwin I u h' hc'
    apply window_slot_ne d1 d2 c1 c2
    intro e; subst e; exact hu (I.claiminj u t h' hc' hcl)
  · simp only [Loc, hx, hxv, reg]
    exact ⟨L.1, L.2.1, L.2.2.1, L.2.2.2, by simp⟩
  · intro i h1 h2
    simp only [] at h1 h2 ⊢
    rcases I.slots i h1 h2 with ⟨u, hu⟩ | hp
    · left; refine ⟨u, ?_⟩
      by_cases e : u = t
      · subst e; rw [hcl] at hu; simp [upd, hx, PC.claim]; simpa using hu
      · simpa [upd, e] using hu
    · right
      have hne : i ≠ h := by intro e; subst e; exact c3 hp.1
      have := window_slot_ne h1 h2 c1 c2 hne
      exact ⟨hp.1, by rw [upd_ne _ _ _ _ this]; exact hp.2⟩
  · intro u h' hu hcu e
    rw [hx] at e; simp only [PC.claim, Option.some.injEq] at e
    subst e; exact hu (I.claiminj u t _ hcu hcl)

end MQ

namespace MQ

/-- the claimant of `h` publishes its tag: facts of the other threads survive -/
theorem loc_tag_stable {R : Ring} {x : Th} {h : Nat} (g : Glob R) (hq : Loc R x)
    (hh : h < R.head) (hw : R.head ≤ h + R.N) (hpos : ∀ s, reg R s → R.pos s ≤ h)
    (hne : x.pc.claim ≠ some h) (hreg : x.pc.recvActive = true → reg R x.s) :
    Loc { R with tag := upd R.tag (h % R.N) (some h) } x := by
  obtain ⟨pc, g', v', outer, ff, pn, ng, ns, s, single, aux⟩ := x
  have key : ∀ p, reg R s → R.pos s ≤ p → p < R.head → p % R.N = h % R.N → p = h := by
    intro p hs hp hlt e
    have := g.win s hs
    exact mod_window_inj e (by omega) (by omega)
  cases pc
  case tg h' | wr h' o =>
    simp only [Loc, reg, PC.claim, ne_eq, Option.some.injEq] at hq hne ⊢
    obtain ⟨a, b, c, d⟩ := hq
    refine ⟨a, b, ?_, d⟩
    by_cases e : h' % R.N = h % R.N
    · rw [e, upd_same]; intro e2; cases e2; exact hne rfl
    · rw [upd_ne _ _ _ _ e]; exact c
  case ts h' o =>
    simp only [Loc, reg, PC.claim, ne_eq, Option.some.injEq] at hq hne ⊢
    obtain ⟨a, b, c, d, e'⟩ := hq
    refine ⟨a, b, ?_, d, e'⟩
    by_cases e : h' % R.N = h % R.N
    · rw [e, upd_same]; intro e2; cases e2; exact hne rfl
    · rw [upd_ne _ _ _ _ e]; exact c
  case r4 p | r5 p sg | r6 p | rd p sg =>
    simp only [Loc, sawTag, PC.recvActive] at hq hreg ⊢
    refine ⟨⟨hq.1.1, fun hp => ?_⟩, hq.2⟩
    by_cases e : p % R.N = h % R.N
    · have := key p (hreg trivial) hp hq.1.1 e; subst this; rw [upd_same]
    · rw [upd_ne _ _ _ _ e]; exact hq.1.2 hp
  case rc p sg c | r8 p c | r9 p sg c =>
    simp only [Loc, sawTag, PC.recvActive] at hq hreg ⊢
    refine ⟨⟨hq.1.1, fun hp => ?_⟩, hq.2⟩
    by_cases e : p % R.N = h % R.N
    · have := key p (hreg trivial) hp hq.1.1 e; subst this; rw [upd_same]
    · rw [upd_ne _ _ _ _ e]; exact hq.1.2 hp
  case vw p c | vd p c | v4 p c =>
    simp only [Loc, PC.recvActive] at hq hreg ⊢
    obtain ⟨a, b, c1, d⟩ := hq
    refine ⟨a, b, ?_, d⟩
    by_cases e : p % R.N = h % R.N
    · have := key p (hreg trivial) (by omega) b e; subst this; rw [upd_same]
    · rw [upd_ne _ _ _ _ e]; exact c1
  case g3 m h' tl p r => cases r <;> (simp only [Loc, reg] at hq ⊢; exact hq)
  all_goals (simp only [Loc, reg, sawTag] at hq ⊢; try exact hq)

/-- the tag store of the claimant of `h` -/
theorem rinvR_tag {R : Ring} {th : Nat → Th} {t : Nat} {x' : Th} {h : Nat} {o : Bool} (I : RInvR R th)
    (hreg : ∀ u, (th u).pc.recvActive = true → reg R (th u).s)
    (hpc : (th t).pc = .ts h o)
    (hl : Loc { R with tag := upd R.tag (h % R.N) (some h) } x') (hxc : x'.pc.claim = none)
    (hxa : x'.pc.addPC = false) :
    RInvR { R with tag := upd R.tag (h % R.N) (some h) } (upd th t x') := by
  have g := I.g
  have hcl : (th t).pc.claim = some h := by simp [hpc, PC.claim]
  obtain ⟨c1, c2, c3, c4⟩ := claim_inwin I t h hcl
  have L := I.loc t
  simp only [Loc, hpc] at L
  refine rinvR_mk I ?_ ?_ hl ?_ ?_ (by intro e; rw [hxa] at e; cases e)
  · refine { g with tagwf := ?_ }
    intro j t' ht'
    by_cases e : j = h % R.N
    · subst e; simp only [upd_same, Option.some.injEq] at ht'; subst ht'; exact ⟨c1, rfl⟩
    · simp only [upd_ne _ _ _ _ e] at ht'; exact g.tagwf j t' ht'
  · intro u hu
    apply loc_tag_stable g (I.loc u) c1 c2 c4 _ (hreg u)
    intro hc'; exact hu (I.claiminj u t h hc' hcl)
  · intro i h1 h2
    simp only [] at h1 h2 ⊢
    by_cases ei : i = h
    · subst ei; right
      exact ⟨by rw [upd_same], by rw [L.2.2.2.2, L.2.2.2.1]⟩
    · rcases I.slots i h1 h2 with ⟨u, hu⟩ | hp
      · left; refine ⟨u, ?_⟩
        by_cases e : u = t
        · subst e; rw [hcl] at hu; simp only [Option.some.injEq] at hu; exact absurd hu.symm ei
        · simpa [upd, e] using hu
      · right
        have := window_slot_ne h1 h2 c1 c2 ei
        exact ⟨by rw [upd_ne _ _ _ _ this]; exact hp.1, hp.2⟩
  · intro u h' hu hcu e
    rw [hxc] at e; cases e

end MQ

namespace MQ

theorem upd_pos_ge (pos : Nat → Nat) (s p s' : Nat) (h : pos s = p) : pos s' ≤ upd pos s (p + 1) s' := by
  by_cases e : s' = s
  · subst e; simp [upd]; omega
  · simp [upd, e]

/-- a consumer of stream `s` commits position `p`: facts of the other threads survive -/
theorem loc_pos_stable {R : Ring} {x : Th} {s p : Nat} {d : List Nat} (hq : Loc R x)
    (hp : R.pos s = p) (htag : R.tag (p % R.N) = some p)
    (hsr : x.singleRecv = true → x.s ≠ s) :
    Loc { R with pos := upd R.pos s (p + 1), dlv := upd R.dlv s d } x := by
  obtain ⟨pc, g', v', outer, ff, pn, ng, ns, sx, single, aux⟩ := x
  have mono := fun s' => upd_pos_ge R.pos s p s' hp
  have claimfix : ∀ h', (∀ s', reg R s' → R.pos s' ≤ h') → R.tag (h' % R.N) ≠ some h' →
      ∀ s', reg R s' → upd R.pos s (p + 1) s' ≤ h' := by
    intro h' b c s' hs'
    by_cases e : s' = s
    · subst e; simp only [upd_same]
      have := b s' hs'
      have : p ≠ h' := by intro e; subst e; exact c htag
      omega
    · simp only [upd_ne _ _ _ _ e]; exact b s' hs'
  cases pc
  case g2 m h tl q i md =>
    simp only [Loc] at hq ⊢
    obtain ⟨a, b, c, e, f, k⟩ := hq
    exact ⟨a, b, c, e, fun hc => ⟨(f hc).1, (f hc).2.1, fun j h1 h2 => Nat.le_trans ((f hc).2.2 j h1 h2) (mono _)⟩, k⟩
  case g3 m h tl q r =>
    cases r <;> simp only [Loc] at hq ⊢
    · exact hq
    · obtain ⟨a, b, c, e, f, k⟩ := hq
      exact ⟨a, b, c, e, fun hc => ⟨(f hc).1, fun j h2 => Nat.le_trans ((f hc).2 j h2) (mono _)⟩, k⟩
  case tcs h cur =>
    simp only [Loc, reg] at hq ⊢
    obtain ⟨a, b, c, d1, e⟩ := hq
    exact ⟨a, b, c, d1, fun s' hs' => Nat.le_trans (e s' hs') (mono _)⟩
  case tcc h tl cur =>
    simp only [Loc, reg] at hq ⊢
    obtain ⟨a, b, c, d1, e, f⟩ := hq
    exact ⟨a, b, c, d1, e, fun s' hs' => Nat.le_trans (f s' hs') (mono _)⟩
  case tg h' | wr h' o =>
    simp only [Loc, reg] at hq ⊢
    obtain ⟨a, b, c, d1⟩ := hq
    exact ⟨a, claimfix h' b c, c, d1⟩
  case ts h' o =>
    simp only [Loc, reg] at hq ⊢
    obtain ⟨a, b, c, d1, e⟩ := hq
    exact ⟨a, claimfix h' b c, c, d1, e⟩
  case r1 p' sg | r2 p' sg | r3 p' sg | r3b p' sg =>
    simp only [Loc, Th.singleRecv] at hq hsr ⊢
    intro hs; rw [upd_ne _ _ _ _ (hsr hs)]; exact hq hs
  case r4 p' | r5 p' sg | r6 p' | rd p' sg =>
    simp only [Loc, sawTag, Th.singleRecv] at hq hsr ⊢
    refine ⟨⟨hq.1.1, fun h1 => hq.1.2 (Nat.le_trans (mono _) h1)⟩, ?_⟩
    intro hs; rw [upd_ne _ _ _ _ (hsr hs)]; exact hq.2 hs
  case rc p' sg c | r8 p' c | r9 p' sg c =>
    simp only [Loc, sawTag, Th.singleRecv] at hq hsr ⊢
    refine ⟨⟨hq.1.1, fun h1 => hq.1.2 (Nat.le_trans (mono _) h1)⟩, ?_, fun h1 => hq.2.2 (Nat.le_trans (mono _) h1)⟩
    intro hs; rw [upd_ne _ _ _ _ (hsr hs)]; exact hq.2.1 hs
  case v1 p' | v2 p' | v3 p' =>
    simp only [Loc, Th.singleRecv] at hq hsr ⊢
    rw [upd_ne _ _ _ _ (hsr trivial)]; exact hq
  case vw p' c | vd p' c | v4 p' c =>
    simp only [Loc, Th.singleRecv] at hq hsr ⊢
    rw [upd_ne _ _ _ _ (hsr trivial)]; exact hq
  all_goals (simp only [Loc, reg, sawTag] at hq ⊢; try exact hq)

end MQ

namespace MQ

theorem take_succ_drop {l : List Nat} {st p v : Nat} (h1 : st ≤ p) (hv : l[p]? = some v) :
    (l.drop st).take (p + 1 - st) = (l.drop st).take (p - st) ++ [v] := by
  have e : p + 1 - st = (p - st) + 1 := by omega
  rw [e, List.take_succ]
  have : (l.drop st)[p - st]? = some v := by
    rw [List.getElem?_drop]; have : st + (p - st) = p := by omega
    rw [this]; exact hv
  rw [this]; rfl

/-- a consumer commits position `p` of stream `s` (CAS success or sole-consumer store) -/
theorem rinvR_pos {R : Ring} {th : Nat → Th} {t : Nat} {x' : Th} {s p v : Nat} (I : RInvR R th)
    (M : ∀ u, u ≠ t → (th u).singleRecv = true → (th u).s ≠ s)
    (hreg : reg R s) (hp : R.pos s = p) (hlt : p < R.head) (htag : R.tag (p % R.N) = some p)
    (hv : R.log[p]? = some v) (hnc : (th t).pc.claim = none)
    (hl : Loc { R with pos := upd R.pos s (p + 1), dlv := upd R.dlv s (R.dlv s ++ [v]) } x')
    (hxc : x'.pc.claim = none) (hxa : x'.pc.addPC = false) :
    RInvR { R with pos := upd R.pos s (p + 1), dlv := upd R.dlv s (R.dlv s ++ [v]) } (upd th t x') := by
  have g := I.g
  have mono := fun s' => upd_pos_ge R.pos s p s' hp
  refine rinvR_mk I ?_ ?_ hl ?_ ?_ (by intro e; rw [hxa] at e; cases e)
  · refine { hN := g.hN, regne := g.regne, posle := ?_, win := ?_, tcle := ?_, tcN := g.tcN, loglen := g.loglen,
             startle := ?_, dlv := ?_, tagwf := g.tagwf, curlt := g.curlt, regest := g.regest, estsub := g.estsub }
    · intro s' hs'
      by_cases e : s' = s
      · subst e; simp only [upd_same]; omega
      · simp only [upd_ne _ _ _ _ e]; exact g.posle s' hs'
    · intro s' hs'; exact Nat.le_trans (g.win s' hs') (Nat.add_le_add_right (mono s') _)
    · intro s' hs'; exact Nat.le_trans (g.tcle s' hs') (mono s')
    · intro s' hs'; exact Nat.le_trans (g.startle s' hs') (mono s')
    · intro s' hs'
      by_cases e : s' = s
      · subst e; simp only [upd_same]
        have := g.startle s' hs'
        rw [g.dlv s' hs', hp, take_succ_drop (by omega) hv]
      · simp only [upd_ne _ _ _ _ e]; exact g.dlv s' hs'
  · intro u hu; exact loc_pos_stable (I.loc u) hp htag (M u hu)
  · intro i a b
    rcases I.slots i a b with ⟨u, hu'⟩ | hpub
    · left; refine ⟨u, ?_⟩
      by_cases e : u = t
      · subst e; rw [hnc] at hu'; cases hu'
      · simpa [upd, e] using hu'
    · exact Or.inr hpub
  · intro u h' hu hcu e; rw [hxc] at e; cases e

end MQ

namespace MQ

theorem reg_alloc {R : Ring} {l : List Nat} (hc : R.cur < R.nextGrp) (s : Nat) :
    reg { R with nextGrp := R.nextGrp + 1, groups := upd R.groups R.nextGrp l } s ↔ reg R s := by
  simp only [reg]
  rw [upd_ne _ _ _ _ (by omega)]

/-- a new (unpublished) reader group is allocated -/
theorem loc_alloc_stable {R : Ring} {x : Th} {l : List Nat} (hc : R.cur < R.nextGrp) (hq : Loc R x) :
    Loc { R with nextGrp := R.nextGrp + 1, groups := upd R.groups R.nextGrp l } x := by
  have hr := fun s => @reg_alloc R l hc s
  obtain ⟨pc, g', v', outer, ff, pn, ng, ns, s, single, aux⟩ := x
  cases pc
  case g2 m h tl p i md =>
    simp only [Loc] at hq ⊢
    obtain ⟨a, b, c, e, f, k⟩ := hq
    refine ⟨a, b, c, e, fun hpc => ?_, k⟩
    have : p ≠ R.nextGrp := by omega
    rw [upd_ne _ _ _ _ this]; exact f hpc
  case g3 m h tl p r =>
    cases r <;> simp only [Loc] at hq ⊢
    · exact hq
    · obtain ⟨a, b, c, e, f, k⟩ := hq
      refine ⟨a, b, c, e, fun hpc => ?_, k⟩
      have : p ≠ R.nextGrp := by omega
      rw [upd_ne _ _ _ _ this]; exact f hpc
  case tcs h cur =>
    simp only [Loc] at hq ⊢
    obtain ⟨a, b, c, d, e⟩ := hq
    exact ⟨a, b, c, d, fun s' hs' => e s' ((hr s').mp hs')⟩
  case tcc h tl cur =>
    simp only [Loc] at hq ⊢
    obtain ⟨a, b, c, d, e, f⟩ := hq
    exact ⟨a, b, c, d, e, fun s' hs' => f s' ((hr s').mp hs')⟩
  case tg h | wr h o =>
    simp only [Loc] at hq ⊢
    obtain ⟨a, b, c, d⟩ := hq
    exact ⟨a, fun s' hs' => b s' ((hr s').mp hs'), c, d⟩
  case ts h o =>
    simp only [Loc] at hq ⊢
    obtain ⟨a, b, c, d, e⟩ := hq
    exact ⟨a, fun s' hs' => b s' ((hr s').mp hs'), c, d, e⟩
  case a3 c raw ng' =>
    simp only [Loc] at hq ⊢
    obtain ⟨a, b, c1, d, e⟩ := hq
    refine ⟨a, b, c1, by omega, ?_⟩
    rw [upd_ne _ _ _ _ (by omega), upd_ne _ _ _ _ (by omega)]; exact e
  case rr2 c ng' =>
    simp only [Loc] at hq ⊢
    obtain ⟨a, b, e⟩ := hq
    refine ⟨a, by omega, ?_⟩
    rw [upd_ne _ _ _ _ (by omega), upd_ne _ _ _ _ (by omega)]; exact e
  all_goals (simp only [Loc, sawTag] at hq ⊢; try exact hq)

theorem rinvR_alloc {R : Ring} {th : Nat → Th} {t : Nat} {x' : Th} {l : List Nat} (I : RInvR R th)
    (hl : Loc { R with nextGrp := R.nextGrp + 1, groups := upd R.groups R.nextGrp l } x')
    (hc : x'.pc.claim = (th t).pc.claim)
    (hns : x'.pc.addPC = true → (th t).pc.addPC = true ∧ x'.ns = (th t).ns) :
    RInvR { R with nextGrp := R.nextGrp + 1, groups := upd R.groups R.nextGrp l } (upd th t x') := by
  have g := I.g
  have hr := fun s => @reg_alloc R l g.curlt s
  refine rinvR_mk I ?_ ?_ hl ?_ ?_ hns
  · refine { hN := g.hN, regne := ?_, posle := ?_, win := ?_, tcle := ?_, tcN := g.tcN, loglen := g.loglen,
             startle := ?_, dlv := ?_, tagwf := g.tagwf, curlt := ?_, regest := ?_, estsub := g.estsub }
    · simp only []; rw [upd_ne _ _ _ _ (by have := g.curlt; omega)]; exact g.regne
    · intro s hs; exact g.posle s ((hr s).mp hs)
    · intro s hs; exact g.win s ((hr s).mp hs)
    · intro s hs; exact g.tcle s ((hr s).mp hs)
    · intro s hs; exact g.startle s ((hr s).mp hs)
    · intro s hs; exact g.dlv s ((hr s).mp hs)
    · have := g.curlt; simp only []; omega
    · intro s hs; exact g.regest s ((hr s).mp hs)
  · intro u hu; exact loc_alloc_stable g.curlt (I.loc u)
  · intro i a b; exact slots_same I hc i a b
  · intro u h hu hcu e
    rw [hc] at e
    exact hu (I.claiminj u t h hcu e)

end MQ

namespace MQ

/-- the current group pointer moves forward to a group whose streams were all registered before -/
theorem loc_cur_stable {R : Ring} {x : Th} {ng : Nat} (hq : Loc R x) (hlt : R.cur < ng)
    (hsub : ∀ s', s' ∈ R.groups ng → reg R s') :
    Loc { R with cur := ng } x := by
  obtain ⟨pc, g', v', outer, ff, pn, ng', ns, s, single, aux⟩ := x
  cases pc
  case g2 m h tl p i md =>
    simp only [Loc] at hq ⊢
    obtain ⟨a, b, c, e, f, k⟩ := hq
    exact ⟨a, b, c, by omega, fun hpc => by omega, k⟩
  case g3 m h tl p r =>
    cases r <;> simp only [Loc] at hq ⊢
    · exact hq
    · obtain ⟨a, b, c, e, f, k⟩ := hq
      exact ⟨a, b, c, by omega, fun hpc => by omega, k⟩
  case tcs h cur =>
    simp only [Loc, reg] at hq ⊢
    obtain ⟨a, b, c, d, e⟩ := hq
    exact ⟨a, b, c, d, fun s' hs' => e s' (hsub s' hs')⟩
  case tcc h tl cur =>
    simp only [Loc, reg] at hq ⊢
    obtain ⟨a, b, c, d, e, f⟩ := hq
    exact ⟨a, b, c, d, e, fun s' hs' => f s' (hsub s' hs')⟩
  case tg h | wr h o =>
    simp only [Loc, reg] at hq ⊢
    obtain ⟨a, b, c, d⟩ := hq
    exact ⟨a, fun s' hs' => b s' (hsub s' hs'), c, d⟩
  case ts h o =>
    simp only [Loc, reg] at hq ⊢
    obtain ⟨a, b, c, d, e⟩ := hq
    exact ⟨a, fun s' hs' => b s' (hsub s' hs'), c, d, e⟩
  case a2 c =>
    simp only [Loc] at hq ⊢
    exact ⟨hq.1, hq.2.1, by omega⟩
  all_goals (simp only [Loc, sawTag] at hq ⊢; try exact hq)

/-- `remove_reader`'s CAS succeeds -/
theorem rinvR_remove {R : Ring} {th : Nat → Th} {t : Nat} {x' : Th} {ng : Nat} (I : RInvR R th)
    (hlt : R.cur < ng) (hng : ng < R.nextGrp) (hsub : ∀ s', s' ∈ R.groups ng → reg R s')
    (hne : R.groups ng ≠ [])
    (hl : Loc { R with cur := ng } x') (hc : x'.pc.claim = (th t).pc.claim) (hxa : x'.pc.addPC = false) :
    RInvR { R with cur := ng } (upd th t x') := by
  have g := I.g
  refine rinvR_mk I ?_ ?_ hl ?_ ?_ (by intro e; rw [hxa] at e; cases e)
  · exact { hN := g.hN, regne := hne, posle := fun s hs => g.posle s (hsub s hs),
            win := fun s hs => g.win s (hsub s hs), tcle := fun s hs => g.tcle s (hsub s hs), tcN := g.tcN,
            loglen := g.loglen, startle := fun s hs => g.startle s (hsub s hs),
            dlv := fun s hs => g.dlv s (hsub s hs), tagwf := g.tagwf, curlt := hng,
            regest := fun s hs => g.regest s (hsub s hs), estsub := g.estsub }
  · intro u hu; exact loc_cur_stable (I.loc u) hlt hsub
  · intro i a b; exact slots_same I hc i a b
  · intro u h hu hcu e
    rw [hc] at e
    exact hu (I.claiminj u t h hcu e)

end MQ

namespace MQ

/-- the ring after a successful `add_stream` publication -/
def Ring.added (R : Ring) (ng ns raw : Nat) : Ring :=
  { R with cur := ng, pos := upd R.pos ns raw, dlv := upd R.dlv ns [], start := upd R.start ns raw,
           est := upd R.est ns true }

theorem loc_add_stable {R : Ring} {x : Th} {ng ns raw s : Nat} (g : Glob R) (hq : Loc R x)
    (hlt : R.cur < ng) (hgrp : R.groups ng = R.groups R.cur ++ [ns]) (hs : reg R s) (hraw : R.pos s = raw)
    (hest : R.est ns = false)
    (hxs : x.pc.recvActive = true → x.s ≠ ns) (hxn : x.pc.addPC = true → x.ns ≠ ns) :
    Loc (R.added ng ns raw) x := by
  have hnotreg : ¬ reg R ns := fun h => by have := g.regest ns h; rw [hest] at this; cases this
  have hreg : ∀ s', reg (R.added ng ns raw) s' → (reg R s' ∧ s' ≠ ns) ∨ s' = ns := by
    intro s' h
    simp only [reg, Ring.added, hgrp, List.mem_append, List.mem_singleton] at h
    rcases h with h | h
    · left; exact ⟨h, fun e => hnotreg (e ▸ h)⟩
    · right; exact h
  have posfix : ∀ s', s' ≠ ns → (R.added ng ns raw).pos s' = R.pos s' := fun s' h => by
    simp only [Ring.added, upd_ne _ _ _ _ h]
  have posns : (R.added ng ns raw).pos ns = R.pos s := by simp only [Ring.added, upd_same, hraw]
  have ge_all : ∀ c, (∀ s', reg R s' → c ≤ R.pos s') → ∀ s', reg (R.added ng ns raw) s' → c ≤ (R.added ng ns raw).pos s' := by
    intro c h s' hs'
    rcases hreg s' hs' with ⟨a, b⟩ | e
    · rw [posfix s' b]; exact h s' a
    · subst e; rw [posns]; exact h s hs
  have le_all : ∀ c, (∀ s', reg R s' → R.pos s' ≤ c) → ∀ s', reg (R.added ng ns raw) s' → (R.added ng ns raw).pos s' ≤ c := by
    intro c h s' hs'
    rcases hreg s' hs' with ⟨a, b⟩ | e
    · rw [posfix s' b]; exact h s' a
    · subst e; rw [posns]; exact h s hs
  obtain ⟨pc, g', v', outer, ff, pn, ng', ns', sx, single, aux⟩ := x
  cases pc
  case g2 m h tl p i md =>
    simp only [Loc] at hq ⊢
    obtain ⟨a, b, c, e, f, k⟩ := hq
    exact ⟨a, b, c, by simp only [Ring.added]; omega, fun hpc => by simp only [Ring.added] at hpc; omega, k⟩
  case g3 m h tl p r =>
    cases r <;> simp only [Loc] at hq ⊢
    · exact hq
    · obtain ⟨a, b, c, e, f, k⟩ := hq
      exact ⟨a, b, c, by simp only [Ring.added]; omega, fun hpc => by simp only [Ring.added] at hpc; omega, k⟩
  case tcs h cur =>
    simp only [Loc] at hq ⊢
    obtain ⟨a, b, c, d, e⟩ := hq
    exact ⟨a, b, c, d, ge_all cur e⟩
  case tcc h tl cur =>
    simp only [Loc] at hq ⊢
    obtain ⟨a, b, c, d, e, f⟩ := hq
    exact ⟨a, b, c, d, e, ge_all cur f⟩
  case tg h | wr h o =>
    simp only [Loc] at hq ⊢
    obtain ⟨a, b, c, d⟩ := hq
    exact ⟨a, le_all h b, c, d⟩
  case ts h o =>
    simp only [Loc] at hq ⊢
    obtain ⟨a, b, c, d, e⟩ := hq
    exact ⟨a, le_all h b, c, d, e⟩
  case r1 p sg | r2 p sg | r3 p sg | r3b p sg =>
    simp only [Loc, PC.recvActive] at hq hxs ⊢
    rw [posfix sx (hxs trivial)]; exact hq
  case r4 p | r5 p sg | r6 p | rd p sg =>
    simp only [Loc, sawTag, PC.recvActive] at hq hxs ⊢
    rw [posfix sx (hxs trivial)]; exact hq
  case rc p sg c | r8 p c | r9 p sg c =>
    simp only [Loc, sawTag, PC.recvActive] at hq hxs ⊢
    rw [posfix sx (hxs trivial)]; exact hq
  case v1 p | v2 p | v3 p =>
    simp only [Loc, PC.recvActive] at hq hxs ⊢
    rw [posfix sx (hxs trivial)]; exact hq
  case vw p c | vd p c | v4 p c =>
    simp only [Loc, PC.recvActive] at hq hxs ⊢
    rw [posfix sx (hxs trivial)]; exact hq
  case a1 =>
    simp only [Loc, PC.addPC, Ring.added] at hq hxn ⊢
    exact ⟨hq.1, by rw [upd_ne _ _ _ _ (hxn trivial)]; exact hq.2⟩
  case a2 c =>
    simp only [Loc, PC.addPC, Ring.added] at hq hxn ⊢
    exact ⟨hq.1, by rw [upd_ne _ _ _ _ (hxn trivial)]; exact hq.2.1, by omega⟩
  case a3 c raw' ng'' =>
    simp only [Loc, PC.addPC, Ring.added] at hq hxn ⊢
    obtain ⟨a, b, c1, d, e⟩ := hq
    exact ⟨a, by rw [upd_ne _ _ _ _ (hxn trivial)]; exact b, c1, d, e⟩
  all_goals (simp only [Loc, sawTag] at hq ⊢; try exact hq)

end MQ

namespace MQ

/-- `add_stream`'s CAS succeeds while the parent position still equals the snapshot -/
theorem rinvR_add {R : Ring} {th : Nat → Th} {t : Nat} {x' : Th} {ng ns raw s : Nat} (I : RInvR R th)
    (hregd : ∀ u, (th u).pc.recvActive = true → reg R (th u).s)
    (hpcadd : (th t).pc.addPC = true) (htns : (th t).ns = ns)
    (hlt : R.cur < ng) (hng : ng < R.nextGrp) (hgrp : R.groups ng = R.groups R.cur ++ [ns])
    (hs : reg R s) (hraw : R.pos s = raw) (hest : R.est ns = false) (hsu : R.sused ns = true)
    (hl : Loc (R.added ng ns raw) x') (hc : x'.pc.claim = (th t).pc.claim) (hxa : x'.pc.addPC = false) :
    RInvR (R.added ng ns raw) (upd th t x') := by
  have g := I.g
  have hnotreg : ¬ reg R ns := fun h => by have := g.regest ns h; rw [hest] at this; cases this
  have hreg : ∀ s', reg (R.added ng ns raw) s' → (reg R s' ∧ s' ≠ ns) ∨ s' = ns := by
    intro s' h
    simp only [reg, Ring.added, hgrp, List.mem_append, List.mem_singleton] at h
    rcases h with h | h
    · left; exact ⟨h, fun e => hnotreg (e ▸ h)⟩
    · right; exact h
  refine rinvR_mk I ?_ ?_ hl ?_ ?_ (by intro e; rw [hxa] at e; cases e)
  · refine { hN := g.hN, regne := ?_, posle := ?_, win := ?_, tcle := ?_, tcN := g.tcN, loglen := g.loglen,
             startle := ?_, dlv := ?_, tagwf := g.tagwf, curlt := hng, regest := ?_, estsub := ?_ }
    · simp [Ring.added, hgrp]
    · intro s' hs'
      rcases hreg s' hs' with ⟨a, b⟩ | e
      · simp only [Ring.added, upd_ne _ _ _ _ b]; exact g.posle s' a
      · subst e; simp only [Ring.added, upd_same]; rw [← hraw]; exact g.posle s hs
    · intro s' hs'
      rcases hreg s' hs' with ⟨a, b⟩ | e
      · simp only [Ring.added, upd_ne _ _ _ _ b]; exact g.win s' a
      · subst e; simp only [Ring.added, upd_same]; rw [← hraw]; exact g.win s hs
    · intro s' hs'
      rcases hreg s' hs' with ⟨a, b⟩ | e
      · simp only [Ring.added, upd_ne _ _ _ _ b]; exact g.tcle s' a
      · subst e; simp only [Ring.added, upd_same]; rw [← hraw]; exact g.tcle s hs
    · intro s' hs'
      rcases hreg s' hs' with ⟨a, b⟩ | e
      · simp only [Ring.added, upd_ne _ _ _ _ b]; exact g.startle s' a
      · subst e; simp only [Ring.added, upd_same]; exact Nat.le_refl _
    · intro s' hs'
      rcases hreg s' hs' with ⟨a, b⟩ | e
      · simp only [Ring.added, upd_ne _ _ _ _ b]; exact g.dlv s' a
      · subst e; simp [Ring.added]
    · intro s' hs'
      rcases hreg s' hs' with ⟨a, b⟩ | e
      · simp only [Ring.added, upd_ne _ _ _ _ b]; exact g.regest s' a
      · subst e; simp [Ring.added]
    · intro s' hs'
      by_cases e : s' = ns
      · subst e; exact hsu
      · simp only [Ring.added, upd_ne _ _ _ _ e] at hs' ⊢; exact g.estsub s' hs'
  · intro u hu
    apply loc_add_stable g (I.loc u) hlt hgrp hs hraw hest
    · intro hr e
      have := g.regest _ (hregd u hr)
      rw [e, hest] at this; cases this
    · intro ha e
      exact hu (I.nsinj u t ha hpcadd (by rw [e, htns]))
  · intro i a b; exact slots_same I hc i a b
  · intro u h hu hcu e
    rw [hc] at e
    exact hu (I.claiminj u t h hcu e)

end MQ

namespace MQ

theorem loc_sused_stable {R : Ring} {x : Th} {ns : Nat} (hq : Loc R x) :
    Loc { R with sused := upd R.sused ns true } x := by
  have mono : ∀ s, R.sused s = true → upd R.sused ns true s = true := by
    intro s h; by_cases e : s = ns
    · subst e; simp [upd]
    · simp [upd, e, h]
  obtain ⟨pc, g', v', outer, ff, pn, ng', ns', sx, single, aux⟩ := x
  cases pc
  case g3 m h tl p r => cases r <;> (simp only [Loc, reg] at hq ⊢; exact hq)
  case a1 =>
    simp only [Loc] at hq ⊢; exact ⟨mono _ hq.1, hq.2⟩
  case a2 c =>
    simp only [Loc] at hq ⊢; exact ⟨mono _ hq.1, hq.2⟩
  case a3 c raw ng =>
    simp only [Loc] at hq ⊢; exact ⟨mono _ hq.1, hq.2⟩
  all_goals (simp only [Loc, reg, sawTag] at hq ⊢; try exact hq)

/-- a call that reserves a fresh stream id -/
theorem rinvR_sused {R : Ring} {th : Nat → Th} {t : Nat} {x' : Th} {ns : Nat} (I : RInvR R th)
    (hfresh : R.sused ns = false) (hidle : (th t).pc.claim = none) (hna : (th t).pc.addPC = false)
    (hl : Loc { R with sused := upd R.sused ns true } x') (hc : x'.pc.claim = none)
    (hxns : x'.pc.addPC = true → x'.ns = ns) :
    RInvR { R with sused := upd R.sused ns true } (upd th t x') := by
  have g := I.g
  refine ⟨?_, ?_, ?_, ?_, ?_⟩
  · refine { g with estsub := ?_ }
    intro s hs
    have := g.estsub s hs
    by_cases e : s = ns
    · subst e; simp [upd]
    · simp only [upd_ne _ _ _ _ e]; exact this
  · intro u; by_cases e : u = t
    · subst e; simpa using hl
    · simp only [upd_ne _ _ _ _ e]; exact loc_sused_stable (I.loc u)
  · intro i a b
    rcases I.slots i a b with ⟨u, hu⟩ | h
    · left; refine ⟨u, ?_⟩
      by_cases e : u = t
      · subst e; rw [hidle] at hu; cases hu
      · simpa [upd, e] using hu
    · exact Or.inr h
  · intro t1 t2 h h1 h2
    by_cases e1 : t1 = t <;> by_cases e2 : t2 = t
    · rw [e1, e2]
    · subst e1; simp only [upd_same] at h1; rw [hc] at h1; cases h1
    · subst e2; simp only [upd_same] at h2; rw [hc] at h2; cases h2
    · simp only [upd_ne _ _ _ _ e1, upd_ne _ _ _ _ e2] at h1 h2; exact I.claiminj t1 t2 h h1 h2
  · intro t1 t2 h1 h2 e
    -- a thread already in add_stream holds a used id, the new one is fresh
    have used : ∀ u, u ≠ t → (th u).pc.addPC = true → R.sused (th u).ns = true := by
      intro u _ hu
      have L := I.loc u
      cases hp : (th u).pc <;> rw [hp] at hu <;> simp only [PC.addPC] at hu <;> try cases hu
      all_goals (simp only [Loc, hp] at L; exact L.1)
    by_cases e1 : t1 = t <;> by_cases e2 : t2 = t
    · rw [e1, e2]
    · subst e1
      simp only [upd_same, upd_ne _ _ _ _ e2] at h1 h2 e
      have := used t2 e2 h2
      rw [← e, hxns h1, hfresh] at this; cases this
    · subst e2
      simp only [upd_same, upd_ne _ _ _ _ e1] at h1 h2 e
      have := used t1 e1 h1
      rw [e, hxns h2, hfresh] at this; cases this
    · simp only [upd_ne _ _ _ _ e1, upd_ne _ _ _ _ e2] at h1 h2 e; exact I.nsinj t1 t2 h1 h2 e

end MQ
