import MQ.Inv.ModeRun3
/-! # ModeInv — the labels `arc`, `wake`, `retn`, `call`; the initial state; the run theorem -/
set_option linter.unusedSimpArgs false
set_option linter.unusedVariables false
set_option maxHeartbeats 4000000
namespace MQ

/-- a transition of thread `t` that leaves the handle table, `est` and the ring alone -/
theorem minv_frame {σ σ' : St} (t : Nat) (M : MInv σ)
    (hth : ∀ u, u ≠ t → σ'.th u = σ.th u)
    (hd : σ'.htab = σ.htab) (hest : σ'.est = σ.est) (hring : σ'.ring = σ.ring)
    (Lx : TLoc σ (σ'.th t))
    (hg : (σ'.th t).pc ≠ .idle → (σ.th t).pc ≠ .idle ∧ (σ'.th t).g = (σ.th t).g)
    (hcr : (σ'.th t).creating → (σ.th t).creating ∧ (σ'.th t).ng = (σ.th t).ng) : MInv σ' := by
  obtain ⟨d1, d2, d3, d4, d5⟩ := htab_fields hd
  have cong : ∀ y, TLoc σ y → TLoc σ' y := fun y L => TLoc_congr hd (by rw [hest]; exact id) L
  have thu : ∀ u, (σ'.th u).pc ≠ .idle → (σ.th u).pc ≠ .idle ∧ (σ'.th u).g = (σ.th u).g := by
    intro u h
    by_cases e : u = t
    · subst e; exact hg h
    · rw [hth u e] at h ⊢; exact ⟨h, rfl⟩
  have thc : ∀ u, (σ'.th u).creating → (σ.th u).creating ∧ (σ'.th u).ng = (σ.th u).ng := by
    intro u h
    by_cases e : u = t
    · subst e; exact hcr h
    · rw [hth u e] at h ⊢; exact ⟨h, rfl⟩
  refine ⟨by rw [d1, d3]; exact M.wr, by intro s; rw [d2, d4]; exact M.nc s, ?_, ?_, ?_, ?_, ?_, ?_, ?_, ?_, ?_, ?_, ?_⟩
  · intro u
    by_cases e : u = t
    · subst e; exact cong _ Lx
    · rw [hth u e]; exact cong _ (M.thr u)
  · intro a b hab ha hb
    obtain ⟨a1, a2⟩ := thu a ha
    obtain ⟨b1, b2⟩ := thu b hb
    rw [a2, b2]; exact M.excl a b hab a1 b1
  · intro g; rw [d3, d5]; exact M.uniS g
  · intro g s; rw [d4, d5]; exact M.uniR g s
  · intro s hne; rw [d4] at hne; rw [hring]; exact M.clReg s hne
  · intro g; rw [d3, d5]; exact M.idleS g
  · intro g; rw [d4, d5]; exact M.idleR g
  · intro g; rw [d5]; exact M.aliveUsed g
  · intro g; rw [d3, d5]; exact M.slKind g
  · intro g s; rw [d4, d5]; exact M.clKind g s
  · intro a b hab ha hb
    obtain ⟨a1, a2⟩ := thc a ha
    obtain ⟨b1, b2⟩ := thc b hb
    rw [a2, b2]; exact M.nginj a b hab a1 b1

macro "tl_auto2" : tactic =>
  `(tactic| (simp_all [St.goto, St.gotoF, St.flush, St.setTh, St.setHd, upd,
      PC.sendOp, PC.singleSendX, PC.singleSend, PC.recvOp, PC.recvActive, PC.viewPC, PC.cloneS, PC.remPC, PC.afterNew,
      PC.addPC, PC.kOK, PC.newPath, PC.sgFlag, Th.sgOn, Outer.futConv, Outer.viewCall, newHd, newHd0, Th.creating]; done))

theorem minv_arc {σ : St} (t : Nat) (M : MInv σ) : MInv (step σ (.arc t)) := by
  by_cases hr : ∃ r, (σ.th t).pc = .arc r
  rotate_left
  · have : step σ (.arc t) = σ := by
      simp only [step]; split
      · rename_i r h; exact absurd ⟨r, h⟩ hr
      · rfl
    rw [this]; exact M
  obtain ⟨r, hpc⟩ := hr
  have e : step σ (.arc t) = arcStep σ t r := by simp only [step, hpc]
  rw [e]
  obtain ⟨l1, l2, l3, l4, l5, l6, l7, l8, l9, l10, l11, l12, l13, l14, l15, l16, l17, l18, l19, l20, l21, l22, l23⟩ := M.thr t
  simp only [Th.sgOn] at l23
  rw [hpc] at l1 l2 l3 l4 l5 l6 l7 l8 l9 l10 l11 l12 l13 l14 l15 l16 l17 l18 l19 l20 l21 l22 l23
  have l6' := l6 r rfl
  apply minv_frame t M
  · intro u hu; unfold arcStep; simp only []; repeat' split
    all_goals simp [St.goto, St.setTh, upd, hu]
  · exact arcStep_htab σ t r
  · unfold arcStep; simp only []; repeat' split
    all_goals rfl
  · unfold arcStep; simp only []; repeat' split
    all_goals rfl
  · unfold arcStep; simp only []; repeat' split
    all_goals
      refine ⟨?_, ?_, ?_, ?_, ?_, ?_, ?_, ?_, ?_, ?_, ?_, ?_, ?_, ?_, ?_, ?_, ?_, ?_, ?_, ?_, ?_, ?_, ?_⟩
    all_goals first | tl_auto2 | (cases r <;> tl_auto2)
  · intro _; rw [hpc]; refine ⟨by simp, ?_⟩
    unfold arcStep; simp only []; repeat' split
    all_goals simp [St.goto, St.setTh, upd]
  · intro hc; exfalso
    unfold arcStep at hc; simp only [] at hc
    cases r <;> (repeat' split at hc) <;> simp_all [Th.creating, St.goto, St.setTh, upd, PC.cloneS, PC.addPC, PC.afterNew]

theorem minv_wake {σ : St} (t : Nat) (M : MInv σ) : MInv (step σ (.wake t)) := by
  by_cases hr : ∃ j seq, (σ.th t).pc = .wblk j seq ∧ ¬ (σ.cvWaiters.contains t || σ.wlockOwner.isSome) = true
  rotate_left
  · have : step σ (.wake t) = σ := by
      simp only [step]; split
      · rename_i j seq h
        split
        · rfl
        · rename_i h2; exact absurd ⟨j, seq, h, h2⟩ hr
      · rfl
    rw [this]; exact M
  obtain ⟨j, seq, hpc, hc⟩ := hr
  have e : step σ (.wake t) = σ.goto t (.c1 j seq .after) := by simp only [step, hpc]; rw [if_neg hc]
  rw [e]
  obtain ⟨l1, l2, l3, l4, l5, l6, l7, l8, l9, l10, l11, l12, l13, l14, l15, l16, l17, l18, l19, l20, l21, l22, l23⟩ := M.thr t
  simp only [Th.sgOn] at l23
  rw [hpc] at l1 l2 l3 l4 l5 l6 l7 l8 l9 l10 l11 l12 l13 l14 l15 l16 l17 l18 l19 l20 l21 l22 l23
  apply minv_frame t M
  · intro u hu; simp [St.goto, St.setTh, upd, hu]
  · rfl
  · rfl
  · rfl
  · refine ⟨?_, ?_, ?_, ?_, ?_, ?_, ?_, ?_, ?_, ?_, ?_, ?_, ?_, ?_, ?_, ?_, ?_, ?_, ?_, ?_, ?_, ?_, ?_⟩
    all_goals tl_auto2
  · intro _; rw [hpc]; exact ⟨by simp, by simp [St.goto, St.setTh, upd]⟩
  · intro hc; exfalso
    simp [Th.creating, St.goto, St.setTh, upd, PC.cloneS, PC.addPC, PC.afterNew] at hc

theorem TLoc_idle {σ : St} {y : Th} (h : y.pc = .idle) : TLoc σ y := by
  refine ⟨?_, ?_, ?_, ?_, ?_, ?_, ?_, ?_, ?_, ?_, ?_, ?_, ?_, ?_, ?_, ?_, ?_, ?_, ?_, ?_, ?_, ?_, ?_⟩
  all_goals simp [h, PC.sendOp, PC.singleSendX, PC.singleSend, PC.recvOp, PC.recvActive, PC.viewPC, PC.cloneS, PC.remPC,
    PC.afterNew, PC.addPC, PC.kOK, PC.newPath, PC.sgFlag, Th.sgOn]

theorem not_creating_idle {y : Th} (h : y.pc = .idle) : ¬ y.creating := by
  intro hc; simp [Th.creating, h, PC.cloneS, PC.addPC, PC.afterNew] at hc

/-- a call returns: the handle is free again; a new handle comes to life; `into_single` on the only counted
handle yields a view handle -/
theorem minv_retn {σ : St} (t : Nat) (M : MInv σ) : MInv (step σ (.retn t)) := by
  by_cases hr : ∃ r, (σ.th t).pc = .ret r
  rotate_left
  · have : step σ (.retn t) = σ := by
      simp only [step]; split
      · rename_i r h; exact absurd ⟨r, h⟩ hr
      · rfl
    rw [this]; exact M
  obtain ⟨r, hpc⟩ := hr
  have hxi : (σ.th t).pc ≠ .idle := by rw [hpc]; simp
  obtain ⟨l1, l2, l3, l4, l5, l6, l7, l8, l9, l10, l11, l12, l13, l14, l15, l16, l17, l18, l19, l20, l21, l22, l23⟩ := M.thr t
  simp only [Th.sgOn] at l23
  rw [hpc] at l1 l2 l3 l4 l5 l6 l7 l8 l9 l10 l11 l12 l13 l14 l15 l16 l17 l18 l19 l20 l21 l22 l23
  have hnc := l2 (by simp)
  obtain ⟨hbusy, hused⟩ := l1 (by simp)
  have hstrm := l7 (by simp)
  have hnew : ((σ.th t).outer = .clone ∨ (σ.th t).outer = .addStream) → r = .new := by
    intro ho; apply Classical.byContradiction; intro hne
    have : (PC.ret r).newPath = false := by cases r <;> simp_all [PC.newPath, PC.sgFlag, Th.sgOn, PC.cloneS, PC.addPC, PC.afterNew]
    obtain ⟨a, b⟩ := l22 (by simp) this
    rcases ho with h | h
    · exact a h
    · exact b h
  have haft : ((σ.th t).outer = .clone ∨ (σ.th t).outer = .addStream) →
      (σ.hs (σ.th t).ng).alive = false ∧ (σ.hs (σ.th t).ng).used = true ∧ (σ.hs (σ.th t).ng).busy = false ∧
      ((σ.hs (σ.th t).ng).sender = true → (σ.th t).ng ∈ σ.sl) ∧
      ((σ.hs (σ.th t).ng).sender = false → (σ.th t).ng ∈ σ.cl (σ.hs (σ.th t).ng).stream) := by
    intro ho; have := hnew ho; subst this; exact l21 rfl ho
  have hcrt : ((σ.th t).outer = .clone ∨ (σ.th t).outer = .addStream) → (σ.th t).creating := by
    intro ho; have := hnew ho; subst this; exact Or.inr (Or.inr (Or.inr ⟨by rw [hpc]; rfl, ho⟩))
  have hngne : ((σ.th t).outer = .clone ∨ (σ.th t).outer = .addStream) → (σ.th t).ng ≠ (σ.th t).g := by
    intro ho e; have := (haft ho).2.2.1; rw [e, hbusy] at this; cases this
  have hform : ∃ f, step σ (.retn t) = { ((σ.goto t .idle).flush t) with hs := f } := by
    simp only [step, hpc]; repeat' split
    all_goals exact ⟨_, rfl⟩
  obtain ⟨f, hf⟩ := hform
  have e_sl : (step σ (.retn t)).sl = σ.sl := by rw [hf]; rfl
  have e_cl : (step σ (.retn t)).cl = σ.cl := by rw [hf]; rfl
  have e_wr : (step σ (.retn t)).writers = σ.writers := by rw [hf]; rfl
  have e_nc : (step σ (.retn t)).ncons = σ.ncons := by rw [hf]; rfl
  have e_ring : (step σ (.retn t)).ring = σ.ring := by rw [hf]; rfl
  have e_est : (step σ (.retn t)).est = σ.est := by rw [hf]; rfl
  have e_pc : ((step σ (.retn t)).th t).pc = .idle := by rw [hf]; simp [St.goto, St.flush, St.setTh, upd]
  have e_th : ∀ u, u ≠ t → (step σ (.retn t)).th u = σ.th u := by
    intro u hu; rw [hf]; simp [St.goto, St.flush, St.setTh, upd, hu]
  clear hf f
  have hsame : ∀ a,
      ((step σ (.retn t)).hs a).sender = (σ.hs a).sender ∧ ((step σ (.retn t)).hs a).used = (σ.hs a).used ∧
      ((step σ (.retn t)).hs a).stream = (σ.hs a).stream ∧ ((step σ (.retn t)).hs a).uni = (σ.hs a).uni ∧
      (((step σ (.retn t)).hs a).busy = true → (σ.hs a).busy = true ∧ a ≠ (σ.th t).g) ∧
      (((step σ (.retn t)).hs a).alive = true → (σ.hs a).alive = true ∨
        (a = (σ.th t).ng ∧ ((σ.th t).outer = .clone ∨ (σ.th t).outer = .addStream))) ∧
      (((step σ (.retn t)).hs a).view = true → (σ.hs a).view = true ∨
        (a = (σ.th t).g ∧ (σ.th t).outer = .intoSingle ∧ r = .single)) ∧
      (a ≠ (σ.th t).g → (a ≠ (σ.th t).ng ∨ ¬ ((σ.th t).outer = .clone ∨ (σ.th t).outer = .addStream)) →
        (step σ (.retn t)).hs a = σ.hs a) := by
    intro a
    simp only [step, hpc]
    cases ho : (σ.th t).outer
    all_goals first | (rw [ho] at hnc; cases hnc; done) | skip
    all_goals simp only []
    all_goals (by_cases h1 : a = (σ.th t).g <;> by_cases h2 : a = (σ.th t).ng)
    all_goals first
      | (simp [St.setHd, St.goto, St.flush, St.setTh, upd, h1, h2]; done)
      | (split <;> simp_all [St.setHd, St.goto, St.flush, St.setTh, upd]; done)
      | (simp_all [St.setHd, St.goto, St.flush, St.setTh, upd]; done)
  have hs_eq : ∀ u, u ≠ t → ((σ.th u).pc ≠ .idle → (step σ (.retn t)).hs (σ.th u).g = σ.hs (σ.th u).g) ∧
      ((σ.th u).creating → (step σ (.retn t)).hs (σ.th u).ng = σ.hs (σ.th u).ng) := by
    intro u hu
    obtain ⟨o1, o2⟩ := other_handles M hu hxi
    constructor
    · intro hi
      apply (hsame _).2.2.2.2.2.2.2 (o1 hi)
      by_cases ho : (σ.th t).outer = .clone ∨ (σ.th t).outer = .addStream
      · left; intro e
        have := (haft ho).2.2.1; rw [← e, ((M.thr u).busy hi).1] at this; cases this
      · right; exact ho
    · intro hc
      apply (hsame _).2.2.2.2.2.2.2 (o2 hc)
      by_cases ho : (σ.th t).outer = .clone ∨ (σ.th t).outer = .addStream
      · left; exact M.nginj u t hu hc (hcrt ho)
      · right; exact ho
  refine ⟨by rw [e_wr, e_sl]; exact M.wr, by intro s; rw [e_nc, e_cl]; exact M.nc s, ?_, ?_, ?_, ?_, ?_, ?_, ?_, ?_, ?_, ?_, ?_⟩
  · intro u
    by_cases e : u = t
    · subst e; exact TLoc_idle e_pc
    · rw [e_th u e]
      obtain ⟨q1, q2⟩ := hs_eq u e
      exact TLoc_transfer (M.thr u) q1 q2 (fun _ h => by rw [e_sl]; exact h) (fun _ h => by rw [e_sl]; exact h)
        (fun _ s h => by rw [e_cl]; exact h) (fun _ s h => by rw [e_cl]; exact h)
        (fun _ h _ => by rw [e_cl]; exact h) (fun _ h => by rw [e_cl]; exact h) (by rw [e_est]; exact id)
        (fun _ h => by rw [e_cl]; exact h)
  · intro a b hab ha hb
    have ea : a ≠ t := by intro e; subst e; exact ha e_pc
    have eb : b ≠ t := by intro e; subst e; exact hb e_pc
    rw [e_th a ea] at ha ⊢; rw [e_th b eb] at hb ⊢
    exact M.excl a b hab ha hb
  · intro g hg hu
    rw [e_sl] at hg ⊢; rw [(hsame g).2.2.2.1] at hu; exact M.uniS g hg hu
  · intro g s hg hu
    rw [e_cl] at hg ⊢
    have hflag : ((σ.hs g).uni = true ∨ (σ.hs g).view = true) ∨ (g = (σ.th t).g ∧ (σ.th t).outer = .intoSingle ∧ r = .single) := by
      rcases hu with h | h
      · rw [(hsame g).2.2.2.1] at h; exact Or.inl (Or.inl h)
      · rcases (hsame g).2.2.2.2.2.2.1 h with h' | h'
        · exact Or.inl (Or.inr h')
        · exact Or.inr h'
    rcases hflag with h | ⟨h1, h2, h3⟩
    · exact M.uniR g s hg h
    · subst h3
      have := l20 rfl h2
      have hs : s = (σ.th t).s := by rw [hstrm, ← h1]; exact ((M.clKind g s hg).2.2).symm
      rw [hs, this, h1]
  · intro s hne; rw [e_cl] at hne; rw [e_ring]; exact M.clReg s hne
  · intro a ha hb hc
    rw [e_sl]
    obtain ⟨f1, f2, f3, f4, f5, f6, f7, f8⟩ := hsame a
    rw [f1] at hc
    by_cases h1 : a = (σ.th t).g
    · rcases f6 ha with h | ⟨h, ho⟩
      · rw [h1] at h hc ⊢; exact (l5 (by simp) h).1 hc
      · exact absurd (h1 ▸ h).symm (hngne ho)
    · by_cases h2 : a = (σ.th t).ng ∧ ((σ.th t).outer = .clone ∨ (σ.th t).outer = .addStream)
      · obtain ⟨h2, ho⟩ := h2
        rw [h2] at hc ⊢; exact (haft ho).2.2.2.1 hc
      · have he := f8 h1 (by
          by_cases h3 : a = (σ.th t).ng
          · right; intro ho; exact h2 ⟨h3, ho⟩
          · left; exact h3)
        rw [he] at ha hb; exact M.idleS a ha hb hc
  · intro a ha hb hc
    rw [e_cl]
    obtain ⟨f1, f2, f3, f4, f5, f6, f7, f8⟩ := hsame a
    rw [f1] at hc; rw [f3]
    by_cases h1 : a = (σ.th t).g
    · rcases f6 ha with h | ⟨h, ho⟩
      · rw [h1] at h hc ⊢; exact (l5 (by simp) h).2 hc
      · exact absurd (h1 ▸ h).symm (hngne ho)
    · by_cases h2 : a = (σ.th t).ng ∧ ((σ.th t).outer = .clone ∨ (σ.th t).outer = .addStream)
      · obtain ⟨h2, ho⟩ := h2
        rw [h2] at hc ⊢; exact (haft ho).2.2.2.2 hc
      · have he := f8 h1 (by
          by_cases h3 : a = (σ.th t).ng
          · right; intro ho; exact h2 ⟨h3, ho⟩
          · left; exact h3)
        rw [he] at ha hb; exact M.idleR a ha hb hc
  · intro a ha
    obtain ⟨f1, f2, f3, f4, f5, f6, f7, f8⟩ := hsame a
    rw [f2]
    rcases f6 ha with h | ⟨h, ho⟩
    · exact M.aliveUsed a h
    · rw [h]; exact (haft ho).2.1
  · intro a ha
    obtain ⟨f1, f2, _⟩ := hsame a
    rw [e_sl] at ha; rw [f1, f2]; exact M.slKind a ha
  · intro a s ha
    obtain ⟨f1, f2, f3, _⟩ := hsame a
    rw [e_cl] at ha; rw [f1, f2, f3]; exact M.clKind a s ha
  · intro a b hab ha hb
    have ea : a ≠ t := by intro e; subst e; exact not_creating_idle e_pc ha
    have eb : b ≠ t := by intro e; subst e; exact not_creating_idle e_pc hb
    rw [e_th a ea] at ha ⊢; rw [e_th b eb] at hb ⊢
    exact M.nginj a b hab ha hb

end MQ
