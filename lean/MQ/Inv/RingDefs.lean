import MQ.Inv.Frame
/-!
# RingInv — definitions

The invariant of the ring protocol over `Core`: window, tail cache, slot tags and contents,
claims, reader locals, ghost log and deliveries. `Glob` talks about shared words only,
`Loc` about one thread's locals as a function of its pc and the shared words.
-/
namespace MQ

/-- stream `s` is registered: it is in the current reader group -/
def reg (σ : Ring) (s : Nat) : Prop := s ∈ σ.groups σ.cur

/-- pcs of the single-writer path that rely on being the only writer -/
def PC.singleSend : PC → Bool
  | .st false _ | .g1 false _ _ | .g2 false _ _ _ _ _ | .g3 false _ _ _ _ | .tcs _ _ | .rf false _ | .hd false _ => true
  | _ => false

/-- pcs from which a thread may still change `head` or `tc` -/
def PC.sendActive : PC → Bool
  | .st _ _ | .g1 _ _ _ | .g2 _ _ _ _ _ _ | .g3 _ _ _ _ _ | .tcs _ _ | .tcc _ _ _ | .tcl _ | .rf _ _ | .hd _ _ => true
  | _ => false

/-- pcs of a receive that may still commit a position -/
def PC.recvActive : PC → Bool
  | .r1 _ _ | .r2 _ _ | .r3 _ _ | .r3b _ _ | .r4 _ | .r5 _ _ | .r6 _ | .r7 _ | .rd _ _ | .rc _ _ _
  | .r8 _ _ | .r9 _ _ _ | .fg _ _ | .v1 _ | .v2 _ | .v3 _ | .vw _ _ | .vd _ _ | .v4 _ _ => true
  | _ => false

/-- the thread commits by a plain store (sole consumer of its stream) -/
def Th.singleRecv (x : Th) : Bool :=
  match x.pc with
  | .v1 _ | .v2 _ | .v3 _ | .vw _ _ | .vd _ _ | .v4 _ _ => true
  | .r1 _ _ | .r2 _ _ | .r3 _ _ | .r3b _ _ | .r4 _ | .r5 _ _ | .r6 _ | .r7 _ | .rd _ _ | .rc _ _ _
  | .r8 _ _ | .r9 _ _ _ | .fg _ _ => x.single
  | _ => false

structure Glob (σ : Ring) : Prop where
  hN : 0 < σ.N
  regne : σ.groups σ.cur ≠ []
  posle : ∀ s, reg σ s → σ.pos s ≤ σ.head
  win : ∀ s, reg σ s → σ.head ≤ σ.pos s + σ.N
  tcle : ∀ s, reg σ s → σ.tc ≤ σ.pos s
  tcN : σ.head ≤ σ.tc + σ.N
  loglen : σ.log.length = σ.head
  startle : ∀ s, reg σ s → σ.start s ≤ σ.pos s
  dlv : ∀ s, reg σ s → σ.dlv s = (σ.log.drop (σ.start s)).take (σ.pos s - σ.start s)
  tagwf : ∀ j t, σ.tag j = some t → t < σ.head ∧ t % σ.N = j
  curlt : σ.cur < σ.nextGrp
  regest : ∀ s, reg σ s → σ.est s = true
  estsub : ∀ s, σ.est s = true → σ.sused s = true

/-- facts a reader that examines position `p` of stream `s` has established -/
def sawTag (σ : Ring) (s p : Nat) : Prop :=
  p < σ.head ∧ (σ.pos s ≤ p → σ.tag (p % σ.N) = some p)

/-- Thread-local facts as a function of the thread's pc/locals and the shared words only. -/
def Loc (σ : Ring) (x : Th) : Prop :=
  let s := x.s
  match x.pc with
  | .st m h => h ≤ σ.head ∧ h ≤ σ.tc + σ.N ∧ (m = false → σ.head = h)
  | .g1 m h tl => h ≤ σ.head ∧ tl ≤ σ.tc ∧ h = tl + σ.N ∧ (m = false → σ.head = h ∧ σ.tc = tl)
  | .g2 m h tl p i md =>
      h ≤ σ.head ∧ tl ≤ σ.tc ∧ h = tl + σ.N ∧ p ≤ σ.cur ∧
      (p = σ.cur → md ≤ σ.N ∧ i < (σ.groups p).length ∧
        ∀ j, j < i → j < (σ.groups p).length → h - md ≤ σ.pos ((σ.groups p).getD j 0)) ∧
      (m = false → σ.head = h ∧ σ.tc = tl)
  | .g3 m h tl p (some md) =>
      h ≤ σ.head ∧ tl ≤ σ.tc ∧ h = tl + σ.N ∧ p ≤ σ.cur ∧
      (p = σ.cur → md ≤ σ.N ∧
        ∀ j, j < (σ.groups p).length → h - md ≤ σ.pos ((σ.groups p).getD j 0)) ∧
      (m = false → σ.head = h ∧ σ.tc = tl)
  | .g3 m h tl _ none => h ≤ σ.head ∧ tl ≤ σ.tc ∧ h = tl + σ.N ∧ (m = false → σ.head = h ∧ σ.tc = tl)
  | .tcs h cur => σ.head = h ∧ σ.tc ≤ cur ∧ cur ≤ h ∧ h ≤ σ.tc + σ.N ∧ (∀ s', reg σ s' → cur ≤ σ.pos s')
  | .tcc h tl cur => h ≤ σ.head ∧ tl ≤ cur ∧ cur ≤ h ∧ h = tl + σ.N ∧ tl ≤ σ.tc ∧ (∀ s', reg σ s' → cur ≤ σ.pos s')
  | .tcl h => h ≤ σ.head ∧ h ≤ σ.tc + σ.N
  | .rf m h => h ≤ σ.head ∧ h < σ.tc + σ.N ∧ (m = false → σ.head = h)
  | .hd m h => h ≤ σ.head ∧ h < σ.tc + σ.N ∧ (m = false → σ.head = h)
  | .tg h | .wr h _ =>
      h < σ.head ∧ (∀ s', reg σ s' → σ.pos s' ≤ h) ∧ σ.tag (h % σ.N) ≠ some h ∧ σ.log[h]? = some x.v
  | .ts h _ =>
      h < σ.head ∧ (∀ s', reg σ s' → σ.pos s' ≤ h) ∧ σ.tag (h % σ.N) ≠ some h ∧ σ.log[h]? = some x.v ∧
      σ.cont (h % σ.N) = some x.v
  | .r1 p _ | .r2 p _ | .r3 p _ | .r3b p _ => x.single = true → σ.pos s = p
  | .r4 p | .r5 p _ | .r6 p | .rd p _ => sawTag σ s p ∧ (x.single = true → σ.pos s = p)
  | .rc p _ c | .r8 p c | .r9 p _ c =>
      sawTag σ s p ∧ (x.single = true → σ.pos s = p) ∧ (σ.pos s ≤ p → c = σ.log[p]?)
  | .fg _ _ => x.single = false
  | .a1 => σ.sused x.ns = true ∧ σ.est x.ns = false
  | .a2 c => σ.sused x.ns = true ∧ σ.est x.ns = false ∧ c ≤ σ.cur
  | .a3 c _ ng =>
      σ.sused x.ns = true ∧ σ.est x.ns = false ∧ c < ng ∧ ng < σ.nextGrp ∧ σ.groups ng = σ.groups c ++ [x.ns]
  | .rr2 c ng => c < ng ∧ ng < σ.nextGrp ∧ σ.groups ng = (σ.groups c).filter (· != s)
  | .v1 p | .v2 p | .v3 p => σ.pos s = p
  | .vw p c | .vd p c | .v4 p c => σ.pos s = p ∧ p < σ.head ∧ σ.tag (p % σ.N) = some p ∧ c = σ.log[p]?
  | _ => True

/-- the invariant over (ring, thread table) -/
structure RInvR (σ : Ring) (th : Nat → Th) : Prop where
  g : Glob σ
  loc : ∀ t, Loc σ (th t)
  slots : ∀ i, i < σ.head → σ.head ≤ i + σ.N →
    (∃ t, (th t).pc.claim = some i) ∨ (σ.tag (i % σ.N) = some i ∧ σ.cont (i % σ.N) = σ.log[i]?)
  claiminj : ∀ t1 t2 h, (th t1).pc.claim = some h → (th t2).pc.claim = some h → t1 = t2
  nsinj : ∀ t1 t2, (th t1).pc.addPC = true → (th t2).pc.addPC = true → (th t1).ns = (th t2).ns → t1 = t2

def RInv (σ : St) : Prop := RInvR σ.ring σ.th

/-- Mode hypotheses (what `ModeInv` provides): a single-mode writer is the only active writer;
a store-committing consumer is the only active consumer of its stream; active receives are on
registered streams; `add_stream` is called on a registered stream. -/
structure ModeOK (σ : St) : Prop where
  send : ∀ t u, t ≠ u → (σ.th t).pc.sendActive = true → (σ.th u).pc.singleSend = true → False
  recv : ∀ t u, t ≠ u → (σ.th t).pc.recvActive = true → (σ.th u).singleRecv = true →
    (σ.th t).s = (σ.th u).s → False
  regd : ∀ t, (σ.th t).pc.recvActive = true → reg σ.ring (σ.th t).s
  regadd : ∀ t, (σ.th t).pc.addPC = true → reg σ.ring (σ.th t).s

theorem mod_window_inj {N a b : Nat} (h : a % N = b % N) (h1 : a < b + N) (h2 : b < a + N) : a = b := by
  rcases Nat.lt_or_ge a b with hab | hab
  · have : (b - a) % N = 0 := by
      have := Nat.sub_mod_eq_zero_of_mod_eq h.symm; simpa using this
    have hd := Nat.dvd_of_mod_eq_zero this
    have := Nat.le_of_dvd (by omega) hd
    omega
  · rcases Nat.eq_or_lt_of_le hab with e | hlt
    · exact e.symm
    · have : (a - b) % N = 0 := Nat.sub_mod_eq_zero_of_mod_eq h
      have hd := Nat.dvd_of_mod_eq_zero this
      have := Nat.le_of_dvd (by omega) hd
      omega

end MQ
