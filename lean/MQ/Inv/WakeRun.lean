import MQ.Inv.WakePend
import MQ.Inv.MgrInv
/-! # WakeInv — preservation by `run` steps -/
set_option linter.unusedSimpArgs false
set_option linter.unusedVariables false
namespace MQ

theorem wth (σ : St) (x inp u : Nat) : (stepRun σ x inp).2.th u = if u = x then (stepRun σ x inp).2.th x else σ.th u := by
  split
  · rename_i h; rw [h]
  · rename_i h; exact stepRun_th σ x inp u h

theorem wd_fields {σ σ' : St} (h : σ'.wdata = σ.wdata) :
    σ'.tag = σ.tag ∧ σ'.writers = σ.writers ∧ σ'.wlockOwner = σ.wlockOwner ∧ σ'.cvWaiters = σ.cvWaiters ∧
    σ'.cwaitL = σ.cwaitL ∧ σ'.cwFor = σ.cwFor ∧ σ'.wait = σ.wait :=
  ⟨congrArg WData.tag h, congrArg WData.writers h, congrArg WData.wlockOwner h, congrArg WData.cvWaiters h,
   congrArg WData.cwaitL h, congrArg WData.cwFor h, congrArg WData.wait h⟩

/-- the owner of the condvar's mutex is inside its critical section -/
theorem not_owner_of_not_held {σ : St} (I : WInv σ) {x : Nat} (h : (σ.th x).pc.wHeld = false) : σ.wlockOwner ≠ some x := by
  intro e; have := (I.own x).mpr e; rw [h] at this; cases this

/-- generic: a step that changes none of the data, moves `x` between program points outside `wPhase`, and keeps
`x` a pending notifier if it was one -/
theorem winv_transfer {σ : St} (x inp : Nat) (I : WInv σ)
    (hd : (stepRun σ x inp).2.wdata = σ.wdata)
    (hph0 : (σ.th x).pc.wPhase = false) (hph : ((stepRun σ x inp).2.th x).pc.wPhase = false)
    (hnb2 : ∀ k, (σ.th x).pc ≠ .nb2 k) (hnf : ∀ k, (σ.th x).pc ≠ .nf false k) : WInv (stepRun σ x inp).2 := by
  obtain ⟨d1, d2, d3, d4, d5, d6, d7⟩ := wd_fields hd
  obtain ⟨p1, p2, p3, p4, p5⟩ := wphase_facts hph
  obtain ⟨q1, q2, q3, q4, q5⟩ := wphase_facts hph0
  have pB : ∀ a b, σ.wait = .blocking a b → ∀ u, (σ.th u).pc.pendB = true → ((stepRun σ x inp).2.th u).pc.pendB = true := by
    intro a b hw u hu; rw [wth]; split
    · rename_i e; subst e; exact pendB_step σ u inp a b hw hu hnb2
    · exact hu
  have pF : ∀ a b, σ.wait = .fut a b → ∀ u, (σ.th u).pc.pendF = true → ((stepRun σ x inp).2.th u).pc.pendF = true := by
    intro a b hw u hu; rw [wth]; split
    · rename_i e; subst e; exact pendF_step σ u inp a b hw hu hnf
    · exact hu
  refine ⟨?_, ?_, ?_, ?_, ?_, ?_⟩
  · intro u; rw [wth]; split
    · exact stepRun_wok σ x inp (I.ok x)
    · exact I.ok u
  · intro u; rw [wth, d3]; split
    · rename_i e; subst e
      rw [p1]; constructor
      · intro h; cases h
      · intro h; exact absurd h (not_owner_of_not_held I q1)
    · exact I.own u
  · intro a b hw t j seq hs hc
    rw [d7] at hw; rw [d1, d2] at hc
    have hs' : subjB σ t j seq := by
      unfold subjB at hs ⊢
      rw [wth, d4] at hs
      by_cases e : t = x
      · subst e; simp only [if_true] at hs
        rcases hs with h | ⟨h, _⟩
        · exact absurd h (p2 j seq)
        · exact absurd h (p3 j seq)
      · simpa [e] using hs
    obtain ⟨u, hu⟩ := I.w1 a b hw t j seq hs' hc
    exact ⟨u, pB a b hw u hu⟩
  · intro a b hw t j seq tg hpc hne
    rw [d7] at hw; rw [d1] at hne
    rw [wth] at hpc
    by_cases e : t = x
    · subst e; simp only [if_true] at hpc; exact absurd hpc (p4 j seq tg)
    · simp only [e, if_false] at hpc
      obtain ⟨u, hu⟩ := I.w2 a b hw t j seq tg hpc hne
      exact ⟨u, pB a b hw u hu⟩
  · intro a b hw t j seq hs hc
    rw [d7] at hw; rw [d1, d2] at hc
    have hs' : subjF σ t j seq := by
      unfold subjF at hs ⊢; rw [d5, d6] at hs; exact hs
    obtain ⟨u, hu⟩ := I.w3 a b hw t j seq hs' hc
    exact ⟨u, pF a b hw u hu⟩
  · intro a b hw t j seq tg hpc hne
    rw [d7] at hw; rw [d1] at hne
    rw [wth] at hpc
    by_cases e : t = x
    · subst e; simp only [if_true] at hpc; exact absurd hpc (p5 j seq tg)
    · simp only [e, if_false] at hpc
      obtain ⟨u, hu⟩ := I.w4 a b hw t j seq tg hpc hne
      exact ⟨u, pF a b hw u hu⟩

theorem not_wsrc'_wsrc {pc : PC} (h : pc.wSrc' = false) : pc.wSrc = false := by
  cases pc <;> simp [PC.wSrc', PC.wSrc] at h ⊢

theorem winv_run_plain {σ : St} (x inp : Nat) (I : WInv σ) (hs : (σ.th x).pc.wSrc' = false) :
    WInv (stepRun σ x inp).2 := by
  apply winv_transfer x inp I (stepRun_wdata_same σ x inp (not_wsrc'_wsrc hs)) (not_wsrc_facts hs) (stepRun_wplain σ x inp hs)
  · intro k e; rw [e] at hs; simp [PC.wSrc', PC.wSrc] at hs
  · intro k e; rw [e] at hs; simp [PC.wSrc', PC.wSrc] at hs

/-- generic step lemma: tags, writer count, the consumers' task list and the wait strategy unchanged; `x` stays a
pending notifier if it was one; the condvar's waiter set only loses threads other than `x` -/
theorem winv_gen {σ : St} (x inp : Nat) (I : WInv σ)
    (h_tag : (stepRun σ x inp).2.tag = σ.tag) (h_wr : (stepRun σ x inp).2.writers = σ.writers)
    (h_cw : (stepRun σ x inp).2.cwaitL = σ.cwaitL) (h_cf : (stepRun σ x inp).2.cwFor = σ.cwFor)
    (h_wait : (stepRun σ x inp).2.wait = σ.wait)
    (c_ok : ((stepRun σ x inp).2.th x).pc.wOK = true)
    (c_lock : LockTr PC.wHeld σ.wlockOwner (stepRun σ x inp).2.wlockOwner (σ.th x).pc ((stepRun σ x inp).2.th x).pc x)
    (h_cv : ∀ t, t ≠ x → t ∈ (stepRun σ x inp).2.cvWaiters → t ∈ σ.cvWaiters)
    (kB : (σ.th x).pc.pendB = true → ((stepRun σ x inp).2.th x).pc.pendB = true)
    (kF : (σ.th x).pc.pendF = true → ((stepRun σ x inp).2.th x).pc.pendF = true)
    (selfB : ∀ a b, σ.wait = .blocking a b → ∀ j seq, subjB (stepRun σ x inp).2 x j seq →
      checkVal seq (σ.tag j) σ.writers = true → ∃ u, (σ.th u).pc.pendB = true)
    (self2 : ∀ a b, σ.wait = .blocking a b → ∀ j seq tg, ((stepRun σ x inp).2.th x).pc = .c2 j seq .locked tg →
      σ.tag j ≠ tg → ∃ u, (σ.th u).pc.pendB = true)
    (self4 : ∀ a b, σ.wait = .fut a b → ∀ j seq tg, ((stepRun σ x inp).2.th x).pc = .c2 j seq .parked tg →
      σ.tag j ≠ tg → ∃ u, (σ.th u).pc.pendF = true) : WInv (stepRun σ x inp).2 := by
  have pB : ∀ u, (σ.th u).pc.pendB = true → ((stepRun σ x inp).2.th u).pc.pendB = true := by
    intro u hu; rw [wth]; split
    · rename_i e; subst e; exact kB hu
    · exact hu
  have pF : ∀ u, (σ.th u).pc.pendF = true → ((stepRun σ x inp).2.th u).pc.pendF = true := by
    intro u hu; rw [wth]; split
    · rename_i e; subst e; exact kF hu
    · exact hu
  refine ⟨?_, ?_, ?_, ?_, ?_, ?_⟩
  · intro u; rw [wth]; split
    · exact c_ok
    · exact I.ok u
  · have := own_update (th := σ.th) (t := x) (x' := (stepRun σ x inp).2.th x) I.own c_lock
    intro u; rw [th_eq_upd]; exact this u
  · intro a b hw t j seq hs hc
    rw [h_wait] at hw; rw [h_tag, h_wr] at hc
    by_cases e : t = x
    · subst e
      obtain ⟨u, hu⟩ := selfB a b hw j seq hs hc
      exact ⟨u, pB u hu⟩
    · have hs' : subjB σ t j seq := by
        unfold subjB at hs ⊢
        rw [wth] at hs; simp only [e, if_false] at hs
        rcases hs with h | ⟨h, hm⟩
        · exact Or.inl h
        · exact Or.inr ⟨h, h_cv t e hm⟩
      obtain ⟨u, hu⟩ := I.w1 a b hw t j seq hs' hc
      exact ⟨u, pB u hu⟩
  · intro a b hw t j seq tg hpc hne
    rw [h_wait] at hw; rw [h_tag] at hne
    by_cases e : t = x
    · subst e
      obtain ⟨u, hu⟩ := self2 a b hw j seq tg hpc hne
      exact ⟨u, pB u hu⟩
    · rw [wth] at hpc; simp only [e, if_false] at hpc
      obtain ⟨u, hu⟩ := I.w2 a b hw t j seq tg hpc hne
      exact ⟨u, pB u hu⟩
  · intro a b hw t j seq hs hc
    rw [h_wait] at hw; rw [h_tag, h_wr] at hc
    have hs' : subjF σ t j seq := by
      unfold subjF at hs ⊢; rw [h_cw, h_cf] at hs; exact hs
    obtain ⟨u, hu⟩ := I.w3 a b hw t j seq hs' hc
    exact ⟨u, pF u hu⟩
  · intro a b hw t j seq tg hpc hne
    rw [h_wait] at hw; rw [h_tag] at hne
    by_cases e : t = x
    · subst e
      obtain ⟨u, hu⟩ := self4 a b hw j seq tg hpc hne
      exact ⟨u, pF u hu⟩
    · rw [wth] at hpc; simp only [e, if_false] at hpc
      obtain ⟨u, hu⟩ := I.w4 a b hw t j seq tg hpc hne
      exact ⟨u, pF u hu⟩

macro "wsimp" : tactic =>
  `(tactic| simp [St.goto, St.gotoF, St.flush, St.setTh, St.setHd, upd, PC.wOK, PC.wHeld, PC.pendB, PC.pendF, PC.dropPath, subjB] at *)

theorem winv_run_nb1 {σ : St} (x inp k : Nat) (I : WInv σ) (L : WLockOK σ x) (hpc : (σ.th x).pc = .nb1 k) :
    WInv (stepRun σ x inp).2 := by
  simp only [WLockOK, hpc] at L
  apply winv_gen x inp I
  · simp only [stepRun, hpc]; rfl
  · simp only [stepRun, hpc]; rfl
  · simp only [stepRun, hpc]; rfl
  · simp only [stepRun, hpc]; rfl
  · simp only [stepRun, hpc]; rfl
  · simp only [stepRun, hpc]; wsimp
  · refine Or.inr (Or.inl ⟨L, ?_, ?_⟩) <;> (simp only [stepRun, hpc]; wsimp)
  · intro t _ h; simp only [stepRun, hpc] at h; exact h
  · intro _; simp only [stepRun, hpc]; wsimp
  · intro h; rw [hpc] at h; wsimp
  · intro a b _ j seq hs; simp only [stepRun, hpc] at hs; wsimp
  · intro a b _ j seq tg h; simp only [stepRun, hpc] at h; wsimp
  · intro a b _ j seq tg h; simp only [stepRun, hpc] at h; wsimp

theorem winv_run_wl {σ : St} (x inp j seq : Nat) (I : WInv σ) (L : WLockOK σ x) (hpc : (σ.th x).pc = .wl j seq) :
    WInv (stepRun σ x inp).2 := by
  simp only [WLockOK, hpc] at L
  apply winv_gen x inp I
  · simp only [stepRun, hpc]; rfl
  · simp only [stepRun, hpc]; rfl
  · simp only [stepRun, hpc]; rfl
  · simp only [stepRun, hpc]; rfl
  · simp only [stepRun, hpc]; rfl
  · simp only [stepRun, hpc]; wsimp
  · refine Or.inr (Or.inl ⟨L, ?_, ?_⟩) <;> (simp only [stepRun, hpc]; wsimp)
  · intro t _ h; simp only [stepRun, hpc] at h; exact h
  · intro h; rw [hpc] at h; wsimp
  · intro h; rw [hpc] at h; wsimp
  · intro a b _ j' seq' hs; simp only [stepRun, hpc] at hs; wsimp
  · intro a b _ j' seq' tg h; simp only [stepRun, hpc] at h; wsimp
  · intro a b _ j' seq' tg h; simp only [stepRun, hpc] at h; wsimp

theorem winv_run_c1 {σ : St} (x inp j seq : Nat) (ph : WPh) (I : WInv σ) (hpc : (σ.th x).pc = .c1 j seq ph) :
    WInv (stepRun σ x inp).2 := by
  apply winv_gen x inp I
  · simp only [stepRun, hpc]; rfl
  · simp only [stepRun, hpc]; rfl
  · simp only [stepRun, hpc]; rfl
  · simp only [stepRun, hpc]; rfl
  · simp only [stepRun, hpc]; rfl
  · simp only [stepRun, hpc]; wsimp
  · refine Or.inl ⟨?_, ?_⟩
    · simp only [stepRun, hpc]; rfl
    · simp only [stepRun, hpc]; cases ph <;> wsimp
  · intro t _ h; simp only [stepRun, hpc] at h; exact h
  · intro h; rw [hpc] at h; wsimp
  · intro h; rw [hpc] at h; wsimp
  · intro a b _ j' seq' hs; simp only [stepRun, hpc] at hs; wsimp
  · intro a b _ j' seq' tg h hne
    simp only [stepRun, hpc] at h
    simp [St.goto, St.flush, St.setTh, upd] at h
    obtain ⟨h1, _, _, h4⟩ := h
    subst h1; exact absurd h4 hne
  · intro a b _ j' seq' tg h hne
    simp only [stepRun, hpc] at h
    simp [St.goto, St.flush, St.setTh, upd] at h
    obtain ⟨h1, _, _, h4⟩ := h
    subst h1; exact absurd h4 hne

theorem winv_run_wy {σ : St} (x inp j seq : Nat) (ph : WPh) (I : WInv σ) (hpc : (σ.th x).pc = .wy j seq ph) :
    WInv (stepRun σ x inp).2 := by
  have hok := I.ok x; rw [hpc] at hok
  apply winv_gen x inp I
  · simp only [stepRun, hpc]; rfl
  · simp only [stepRun, hpc]; rfl
  · simp only [stepRun, hpc]; rfl
  · simp only [stepRun, hpc]; rfl
  · simp only [stepRun, hpc]; rfl
  · simp only [stepRun, hpc]; wsimp
  · refine Or.inl ⟨?_, ?_⟩
    · simp only [stepRun, hpc]; rfl
    · simp only [stepRun, hpc]; cases ph <;> wsimp
  · intro t _ h; simp only [stepRun, hpc] at h; exact h
  · intro h; rw [hpc] at h; wsimp
  · intro h; rw [hpc] at h; wsimp
  · intro a b _ j' seq' hs; simp only [stepRun, hpc] at hs; wsimp
  · intro a b _ j' seq' tg h; simp only [stepRun, hpc] at h; wsimp
  · intro a b _ j' seq' tg h; simp only [stepRun, hpc] at h; wsimp

theorem winv_run_wblk {σ : St} (x inp j seq : Nat) (I : WInv σ) (hpc : (σ.th x).pc = .wblk j seq) :
    WInv (stepRun σ x inp).2 := by
  have : (stepRun σ x inp).2 = σ := by simp only [stepRun, hpc]
  rw [this]; exact I

theorem winv_run_wcvw {σ : St} (x inp j seq : Nat) (I : WInv σ) (hpc : (σ.th x).pc = .wcvw j seq) :
    WInv (stepRun σ x inp).2 := by
  have hown := (I.own x).mp (by rw [hpc]; rfl)
  apply winv_gen x inp I
  · simp only [stepRun, hpc]; rfl
  · simp only [stepRun, hpc]; rfl
  · simp only [stepRun, hpc]; rfl
  · simp only [stepRun, hpc]; rfl
  · simp only [stepRun, hpc]; rfl
  · simp only [stepRun, hpc]; wsimp
  · refine Or.inr (Or.inr ⟨hown, ?_, ?_⟩) <;> (simp only [stepRun, hpc]; wsimp)
  · intro t ht h; simp only [stepRun, hpc] at h
    simp [St.goto, St.flush, St.setTh] at h
    rcases h with h | h
    · exact h
    · exact absurd h ht
  · intro h; rw [hpc] at h; wsimp
  · intro h; rw [hpc] at h; wsimp
  · intro a b hw j' seq' hs hc
    -- the thread was already a subject (at `wcvw`) for the same slot and sequence number
    have : subjB σ x j' seq' := by
      simp only [stepRun, hpc] at hs
      unfold subjB at hs ⊢
      simp [St.goto, St.flush, St.setTh, upd] at hs
      left; rw [hpc]; rw [hs.1, hs.2]
    exact I.w1 a b hw x j' seq' this hc
  · intro a b _ j' seq' tg h; simp only [stepRun, hpc] at h; wsimp
  · intro a b _ j' seq' tg h; simp only [stepRun, hpc] at h; wsimp

theorem waitDone_pc (σ : St) (t : Nat) : ((waitDone σ t).th t).pc = .la1 ∨ ((waitDone σ t).th t).pc = .is1 := by
  unfold waitDone; simp only []; split <;> simp [St.goto, St.setTh, upd]

theorem waitDone_wd (σ : St) (t : Nat) : (waitDone σ t).wdata = σ.wdata := waitDone_wdata σ t

/-- `check` under the condvar's mutex -/
theorem winv_run_c2_locked {σ : St} (x inp j seq : Nat) (tg : Option Nat) (I : WInv σ)
    (hpc : (σ.th x).pc = .c2 j seq .locked tg) : WInv (stepRun σ x inp).2 := by
  have hown := (I.own x).mp (by rw [hpc]; rfl)
  by_cases hb : checkVal seq tg σ.writers = true
  · -- condition holds: the guard is dropped, the receive is retried
    have e : (stepRun σ x inp).2 = waitDone { σ.flush x with wlockOwner := none } x := by
      simp only [stepRun, hpc, checkDone, hb, if_true]
    have hd := wd_fields (waitDone_wd { σ.flush x with wlockOwner := none } x)
    obtain ⟨d1, d2, d3, d4, d5, d6, d7⟩ := hd
    rcases waitDone_pc { σ.flush x with wlockOwner := none } x with hp | hp
    · apply winv_gen x inp I
      · rw [e, d1]; rfl
      · rw [e, d2]; rfl
      · rw [e, d5]; rfl
      · rw [e, d6]; rfl
      · rw [e, d7]; rfl
      · rw [e, hp]; rfl
      · refine Or.inr (Or.inr ⟨hown, ?_, ?_⟩)
        · rw [e, d3]
        · rw [e, hp]; rfl
      · intro t _ h; rw [e, d4] at h; exact h
      · intro h; rw [hpc] at h; wsimp
      · intro h; rw [hpc] at h; wsimp
      · intro a b _ j' seq' hs; unfold subjB at hs; rw [e, hp] at hs; simp at hs
      · intro a b _ j' seq' tg' h; rw [e, hp] at h; cases h
      · intro a b _ j' seq' tg' h; rw [e, hp] at h; cases h
    · apply winv_gen x inp I
      · rw [e, d1]; rfl
      · rw [e, d2]; rfl
      · rw [e, d5]; rfl
      · rw [e, d6]; rfl
      · rw [e, d7]; rfl
      · rw [e, hp]; rfl
      · refine Or.inr (Or.inr ⟨hown, ?_, ?_⟩)
        · rw [e, d3]
        · rw [e, hp]; rfl
      · intro t _ h; rw [e, d4] at h; exact h
      · intro h; rw [hpc] at h; wsimp
      · intro h; rw [hpc] at h; wsimp
      · intro a b _ j' seq' hs; unfold subjB at hs; rw [e, hp] at hs; simp at hs
      · intro a b _ j' seq' tg' h; rw [e, hp] at h; cases h
      · intro a b _ j' seq' tg' h; rw [e, hp] at h; cases h
  · -- condition does not hold: wait on the condvar
    have hb' : checkVal seq tg σ.writers = false := by simpa using hb
    apply winv_gen x inp I
    · simp only [stepRun, hpc, checkDone, hb', Bool.false_eq_true, if_false]; rfl
    · simp only [stepRun, hpc, checkDone, hb', Bool.false_eq_true, if_false]; rfl
    · simp only [stepRun, hpc, checkDone, hb', Bool.false_eq_true, if_false]; rfl
    · simp only [stepRun, hpc, checkDone, hb', Bool.false_eq_true, if_false]; rfl
    · simp only [stepRun, hpc, checkDone, hb', Bool.false_eq_true, if_false]; rfl
    · simp only [stepRun, hpc, checkDone, hb', Bool.false_eq_true, if_false]; wsimp
    · refine Or.inl ⟨?_, ?_⟩
      · simp only [stepRun, hpc, checkDone, hb', Bool.false_eq_true, if_false]; rfl
      · simp only [stepRun, hpc, checkDone, hb', Bool.false_eq_true, if_false]; wsimp
    · intro t _ h; simp only [stepRun, hpc, checkDone, hb', Bool.false_eq_true, if_false] at h; exact h
    · intro h; rw [hpc] at h; wsimp
    · intro h; rw [hpc] at h; wsimp
    · intro a b hw j' seq' hs hc
      have hjs : j' = j ∧ seq' = seq := by
        unfold subjB at hs
        simp only [stepRun, hpc, checkDone, hb', Bool.false_eq_true, if_false] at hs
        simp [St.goto, St.flush, St.setTh, upd] at hs
        exact ⟨hs.1.symm, hs.2.symm⟩
      obtain ⟨rfl, rfl⟩ := hjs
      by_cases ht : σ.tag j' = tg
      · rw [ht, hb'] at hc; cases hc
      · exact I.w2 a b hw x j' seq' tg hpc ht
    · intro a b _ j' seq' tg' h
      simp only [stepRun, hpc, checkDone, hb', Bool.false_eq_true, if_false] at h; wsimp
    · intro a b _ j' seq' tg' h
      simp only [stepRun, hpc, checkDone, hb', Bool.false_eq_true, if_false] at h; wsimp

/-- steps after which `x` itself is a pending notifier (it published a slot, or took `writers` down): every
clause is witnessed by `x`, whatever happened to tags and the writer count -/
theorem winv_all_pending {σ : St} (x inp : Nat) (I : WInv σ)
    (h_own : (stepRun σ x inp).2.wlockOwner = σ.wlockOwner) (h_cv : (stepRun σ x inp).2.cvWaiters = σ.cvWaiters)
    (h_wait : (stepRun σ x inp).2.wait = σ.wait)
    (hph0 : (σ.th x).pc.wPhase = false) (hph : ((stepRun σ x inp).2.th x).pc.wPhase = false)
    (c_ok : ((stepRun σ x inp).2.th x).pc.wOK = true)
    (hB : ∀ a b, σ.wait = .blocking a b → ((stepRun σ x inp).2.th x).pc.pendB = true)
    (hF : ∀ a b, σ.wait = .fut a b → ((stepRun σ x inp).2.th x).pc.pendF = true) : WInv (stepRun σ x inp).2 := by
  obtain ⟨p1, p2, p3, p4, p5⟩ := wphase_facts hph
  obtain ⟨q1, q2, q3, q4, q5⟩ := wphase_facts hph0
  refine ⟨?_, ?_, ?_, ?_, ?_, ?_⟩
  · intro u; rw [wth]; split
    · exact c_ok
    · exact I.ok u
  · intro u; rw [wth, h_own]; split
    · rename_i e; subst e
      rw [p1]; constructor
      · intro h; cases h
      · intro h; exact absurd h (not_owner_of_not_held I q1)
    · exact I.own u
  · intro a b hw _ _ _ _ _; rw [h_wait] at hw; exact ⟨x, hB a b hw⟩
  · intro a b hw _ _ _ _ _ _; rw [h_wait] at hw; exact ⟨x, hB a b hw⟩
  · intro a b hw _ _ _ _ _; rw [h_wait] at hw; exact ⟨x, hF a b hw⟩
  · intro a b hw _ _ _ _ _ _; rw [h_wait] at hw; exact ⟨x, hF a b hw⟩

theorem winv_run_ts {σ : St} (x inp h : Nat) (old : Bool) (I : WInv σ) (hpc : (σ.th x).pc = .ts h old) :
    WInv (stepRun σ x inp).2 := by
  apply winv_all_pending x inp I
  · simp only [stepRun, hpc]; split
    · rfl
    · exact congrArg WData.wlockOwner (sendDone_wdata _ x _)
  · simp only [stepRun, hpc]; split
    · rfl
    · exact congrArg WData.cvWaiters (sendDone_wdata _ x _)
  · simp only [stepRun, hpc]; split
    · rfl
    · exact congrArg WData.wait (sendDone_wdata _ x _)
  · rw [hpc]; rfl
  · simp only [stepRun, hpc]; split
    · simp [St.goto, St.flush, St.setTh, upd, PC.wPhase]
    · exact sendDone_wplain _ x _
  · simp only [stepRun, hpc]; split
    · simp [St.goto, St.flush, St.setTh, upd, PC.wOK]
    · exact sendDone_wok _ x _
  · intro a b hw; simp only [stepRun, hpc]; split
    · simp [St.goto, St.flush, St.setTh, upd, PC.pendB]
    · exact sendDone_ok_pendB _ x a b hw
  · intro a b hw; simp only [stepRun, hpc]; split
    · simp [St.goto, St.flush, St.setTh, upd, PC.pendF]
    · exact sendDone_ok_pendF _ x a b hw

theorem winv_run_ds1 {σ : St} (x inp : Nat) (I : WInv σ) (hpc : (σ.th x).pc = .ds1) :
    WInv (stepRun σ x inp).2 := by
  apply winv_all_pending x inp I
  · simp only [stepRun, hpc]; rfl
  · simp only [stepRun, hpc]; rfl
  · simp only [stepRun, hpc]; rfl
  · rw [hpc]; rfl
  · simp only [stepRun, hpc]; simp [St.gotoF, St.flush, St.setTh, upd, PC.wPhase]
  · simp only [stepRun, hpc]; simp [St.gotoF, St.flush, St.setTh, upd, PC.wOK]
  · intro a b _; simp only [stepRun, hpc]; simp [St.gotoF, St.flush, St.setTh, upd, PC.pendB, PC.dropPath, MK.isDropS]
  · intro a b _; simp only [stepRun, hpc]; simp [St.gotoF, St.flush, St.setTh, upd, PC.pendF, PC.dropPath, MK.isDropS]

theorem checkVal_mono (seq : Nat) (tg : Option Nat) (w : Nat) (h : checkVal seq tg (w + 1) = true) :
    checkVal seq tg w = true := by
  unfold checkVal at *
  simp only [Bool.or_eq_true] at *
  rcases h with h | h
  · simp at h
  · exact Or.inr h

/-- a sender clone only raises the writer count: no condition becomes true -/
theorem winv_run_cs1 {σ : St} (x inp : Nat) (I : WInv σ) (hpc : (σ.th x).pc = .cs1) :
    WInv (stepRun σ x inp).2 := by
  have e_tag : (stepRun σ x inp).2.tag = σ.tag := by simp only [stepRun, hpc]; rfl
  have e_wr : (stepRun σ x inp).2.writers = σ.writers + 1 := by simp only [stepRun, hpc]; rfl
  have e_own : (stepRun σ x inp).2.wlockOwner = σ.wlockOwner := by simp only [stepRun, hpc]; rfl
  have e_cv : (stepRun σ x inp).2.cvWaiters = σ.cvWaiters := by simp only [stepRun, hpc]; rfl
  have e_cw : (stepRun σ x inp).2.cwaitL = σ.cwaitL := by simp only [stepRun, hpc]; rfl
  have e_cf : (stepRun σ x inp).2.cwFor = σ.cwFor := by simp only [stepRun, hpc]; rfl
  have e_wait : (stepRun σ x inp).2.wait = σ.wait := by simp only [stepRun, hpc]; rfl
  have e_pc : ((stepRun σ x inp).2.th x).pc = .ret .new := by
    simp only [stepRun, hpc]; simp [St.goto, St.flush, St.setTh, upd]
  have keep : ∀ u, u ≠ x → (stepRun σ x inp).2.th u = σ.th u := fun u hu => stepRun_th σ x inp u hu
  have notx : ∀ u, (σ.th u).pc.pendB = true ∨ (σ.th u).pc.pendF = true → u ≠ x := by
    intro u hu e; subst e; rw [hpc] at hu; rcases hu with h | h <;> simp [PC.pendB, PC.pendF, PC.dropPath] at h
  refine ⟨?_, ?_, ?_, ?_, ?_, ?_⟩
  · intro u; rw [wth]; split
    · rw [e_pc]; rfl
    · exact I.ok u
  · intro u; rw [wth, e_own]; split
    · rename_i e; subst e
      rw [e_pc]; constructor
      · intro h; cases h
      · intro h; exact absurd h (not_owner_of_not_held I (by rw [hpc]; rfl))
    · exact I.own u
  · intro a b hw t j seq hs hc
    rw [e_wait] at hw; rw [e_tag, e_wr] at hc
    have hc' := checkVal_mono _ _ _ hc
    have hs' : subjB σ t j seq := by
      unfold subjB at hs ⊢
      rw [wth, e_cv] at hs
      by_cases e : t = x
      · subst e; simp only [if_true, e_pc] at hs; rcases hs with h | ⟨h, _⟩ <;> cases h
      · simpa [e] using hs
    obtain ⟨u, hu⟩ := I.w1 a b hw t j seq hs' hc'
    exact ⟨u, by rw [keep u (notx u (Or.inl hu))]; exact hu⟩
  · intro a b hw t j seq tg h hne
    rw [e_wait] at hw; rw [e_tag] at hne
    rw [wth] at h
    by_cases e : t = x
    · subst e; simp only [if_true, e_pc] at h; cases h
    · simp only [e, if_false] at h
      obtain ⟨u, hu⟩ := I.w2 a b hw t j seq tg h hne
      exact ⟨u, by rw [keep u (notx u (Or.inl hu))]; exact hu⟩
  · intro a b hw t j seq hs hc
    rw [e_wait] at hw; rw [e_tag, e_wr] at hc
    have hc' := checkVal_mono _ _ _ hc
    have hs' : subjF σ t j seq := by unfold subjF at hs ⊢; rw [e_cw, e_cf] at hs; exact hs
    obtain ⟨u, hu⟩ := I.w3 a b hw t j seq hs' hc'
    exact ⟨u, by rw [keep u (notx u (Or.inr hu))]; exact hu⟩
  · intro a b hw t j seq tg h hne
    rw [e_wait] at hw; rw [e_tag] at hne
    rw [wth] at h
    by_cases e : t = x
    · subst e; simp only [if_true, e_pc] at h; cases h
    · simp only [e, if_false] at h
      obtain ⟨u, hu⟩ := I.w4 a b hw t j seq tg h hne
      exact ⟨u, by rw [keep u (notx u (Or.inr hu))]; exact hu⟩

/-- `notify_all` on the condvar: every waiter is released, so no waiter is left without a notifier -/
theorem winv_run_nb2 {σ : St} (x inp k : Nat) (I : WInv σ) (hpc : (σ.th x).pc = .nb2 k) :
    WInv (stepRun σ x inp).2 := by
  have hown := (I.own x).mp (by rw [hpc]; rfl)
  have hd := wd_fields (afterNotify_wdata ({ σ.flush x with wlockOwner := none, cvWaiters := [] }) x k)
  obtain ⟨d1, d2, d3, d4, d5, d6, d7⟩ := hd
  have e : (stepRun σ x inp).2 = afterNotify ({ σ.flush x with wlockOwner := none, cvWaiters := [] }) x k := by
    simp only [stepRun, hpc]
  have hp : ((stepRun σ x inp).2.th x).pc.wPhase = false := by rw [e]; exact afterNotify_wplain _ x k
  obtain ⟨p1, p2, p3, p4, p5⟩ := wphase_facts hp
  have e_tag : (stepRun σ x inp).2.tag = σ.tag := by rw [e, d1]; rfl
  have e_wr : (stepRun σ x inp).2.writers = σ.writers := by rw [e, d2]; rfl
  have e_own : (stepRun σ x inp).2.wlockOwner = none := by rw [e, d3]
  have e_cv : (stepRun σ x inp).2.cvWaiters = [] := by rw [e, d4]
  have e_cw : (stepRun σ x inp).2.cwaitL = σ.cwaitL := by rw [e, d5]; rfl
  have e_cf : (stepRun σ x inp).2.cwFor = σ.cwFor := by rw [e, d6]; rfl
  have e_wait : (stepRun σ x inp).2.wait = σ.wait := by rw [e, d7]; rfl
  have keep : ∀ u, u ≠ x → (stepRun σ x inp).2.th u = σ.th u := fun u hu => stepRun_th σ x inp u hu
  have nothers : ∀ u, u ≠ x → (σ.th u).pc.wHeld = false := by
    intro u hu
    cases h : (σ.th u).pc.wHeld
    · rfl
    · have := (I.own u).mp h; rw [hown] at this; injection this with this; exact absurd this.symm hu
  have notxF : ∀ u, (σ.th u).pc.pendF = true → u ≠ x := by
    intro u hu e'; subst e'; rw [hpc] at hu; simp [PC.pendF, PC.dropPath] at hu
  refine ⟨?_, ?_, ?_, ?_, ?_, ?_⟩
  · intro u; rw [wth]; split
    · rw [e]; exact afterNotify_wok _ x k
    · exact I.ok u
  · intro u; rw [e_own, wth]; split
    · rename_i e'; subst e'; rw [p1]; simp
    · rename_i hu; rw [nothers u hu]; simp
  · intro a b _ t j seq hs _
    exfalso
    unfold subjB at hs; rw [wth, e_cv] at hs
    by_cases e' : t = x
    · subst e'; simp only [if_true] at hs
      rcases hs with h | ⟨h, _⟩
      · exact p2 j seq h
      · exact p3 j seq h
    · simp only [e', if_false] at hs
      rcases hs with h | ⟨_, h⟩
      · have := nothers t e'; rw [h] at this; cases this
      · cases h
  · intro a b _ t j seq tg h _
    exfalso
    rw [wth] at h
    by_cases e' : t = x
    · subst e'; simp only [if_true] at h; exact p4 j seq tg h
    · simp only [e', if_false] at h
      have := nothers t e'; rw [h] at this; cases this
  · intro a b hw t j seq hs hc
    rw [e_wait] at hw; rw [e_tag, e_wr] at hc
    have hs' : subjF σ t j seq := by unfold subjF at hs ⊢; rw [e_cw, e_cf] at hs; exact hs
    obtain ⟨u, hu⟩ := I.w3 a b hw t j seq hs' hc
    exact ⟨u, by rw [keep u (notxF u hu)]; exact hu⟩
  · intro a b hw t j seq tg h hne
    rw [e_wait] at hw; rw [e_tag] at hne
    rw [wth] at h
    by_cases e' : t = x
    · subst e'; simp only [if_true] at h; exact absurd h (p5 j seq tg)
    · simp only [e', if_false] at h
      obtain ⟨u, hu⟩ := I.w4 a b hw t j seq tg h hne
      exact ⟨u, by rw [keep u (notxF u hu)]; exact hu⟩

/-- facts about one `nf` step (lock a task list, drain it, notify) -/
theorem nf_wdata (σ : St) (x inp k : Nat) (lst : Bool) (hpc : (σ.th x).pc = .nf lst k) :
    (stepRun σ x inp).2.wdata = { σ.wdata with cwaitL := if lst then σ.cwaitL else [] } := by
  cases lst <;> simp only [stepRun, hpc] <;> split
  all_goals first
    | (simp only [afterNotify_wdata, teardownStart_wdata, startNotify2_wdata, wdata_goto, wdata_setTh]; rfl)
    | rfl

theorem nf_target (σ : St) (x inp k : Nat) (lst : Bool) (hpc : (σ.th x).pc = .nf lst k) :
    ((stepRun σ x inp).2.th x).pc.wPhase = false ∧ ((stepRun σ x inp).2.th x).pc.wOK = true := by
  cases lst <;> simp only [stepRun, hpc] <;> split
  all_goals first
    | exact ⟨afterNotify_wplain _ x _, afterNotify_wok _ x _⟩
    | exact ⟨teardownStart_wplain _ x _, teardownStart_wok _ x _⟩
    | exact ⟨startNotify2_wplain _ x, startNotify2_wok _ x⟩
    | (simp [St.goto, St.flush, St.setTh, upd, PC.wPhase, PC.wOK]; done)

theorem nf_facts (σ : St) (x inp k : Nat) (lst : Bool) (hpc : (σ.th x).pc = .nf lst k) :
    (stepRun σ x inp).2.tag = σ.tag ∧ (stepRun σ x inp).2.writers = σ.writers ∧
    (stepRun σ x inp).2.wlockOwner = σ.wlockOwner ∧ (stepRun σ x inp).2.cvWaiters = σ.cvWaiters ∧
    (stepRun σ x inp).2.cwaitL = (if lst then σ.cwaitL else []) ∧ (stepRun σ x inp).2.cwFor = σ.cwFor ∧
    (stepRun σ x inp).2.wait = σ.wait ∧ ((stepRun σ x inp).2.th x).pc.wPhase = false ∧
    ((stepRun σ x inp).2.th x).pc.wOK = true := by
  have h := nf_wdata σ x inp k lst hpc
  obtain ⟨t1, t2⟩ := nf_target σ x inp k lst hpc
  exact ⟨congrArg WData.tag h, congrArg WData.writers h, congrArg WData.wlockOwner h, congrArg WData.cvWaiters h,
    congrArg WData.cwaitL h, congrArg WData.cwFor h, congrArg WData.wait h, t1, t2⟩

theorem winv_run_nf {σ : St} (x inp k : Nat) (lst : Bool) (I : WInv σ) (L : WLockOK σ x)
    (hpc : (σ.th x).pc = .nf lst k) : WInv (stepRun σ x inp).2 := by
  obtain ⟨e_tag, e_wr, e_own, e_cv, e_cw, e_cf, e_wait, hp, hok⟩ := nf_facts σ x inp k lst hpc
  obtain ⟨p1, p2, p3, p4, p5⟩ := wphase_facts hp
  have keep : ∀ u, u ≠ x → (stepRun σ x inp).2.th u = σ.th u := fun u hu => stepRun_th σ x inp u hu
  have notxB : ∀ u, (σ.th u).pc.pendB = true → u ≠ x := by
    intro u hu e'; subst e'; rw [hpc] at hu; simp [PC.pendB, PC.dropPath] at hu
  refine ⟨?_, ?_, ?_, ?_, ?_, ?_⟩
  · intro u; rw [wth]; split
    · exact hok
    · exact I.ok u
  · intro u; rw [wth, e_own]; split
    · rename_i e; subst e
      rw [p1]; constructor
      · intro h; cases h
      · intro h; exact absurd h (not_owner_of_not_held I (by rw [hpc]; rfl))
    · exact I.own u
  · intro a b hw t j seq hs hc
    rw [e_wait] at hw; rw [e_tag, e_wr] at hc
    have hs' : subjB σ t j seq := by
      unfold subjB at hs ⊢
      rw [wth, e_cv] at hs
      by_cases e : t = x
      · subst e; simp only [if_true] at hs
        rcases hs with h | ⟨h, _⟩
        · exact absurd h (p2 j seq)
        · exact absurd h (p3 j seq)
      · simpa [e] using hs
    obtain ⟨u, hu⟩ := I.w1 a b hw t j seq hs' hc
    exact ⟨u, by rw [keep u (notxB u hu)]; exact hu⟩
  · intro a b hw t j seq tg h hne
    rw [e_wait] at hw; rw [e_tag] at hne
    rw [wth] at h
    by_cases e : t = x
    · subst e; simp only [if_true] at h; exact absurd h (p4 j seq tg)
    · simp only [e, if_false] at h
      obtain ⟨u, hu⟩ := I.w2 a b hw t j seq tg h hne
      exact ⟨u, by rw [keep u (notxB u hu)]; exact hu⟩
  · intro a b hw t j seq hs hc
    rw [e_wait] at hw; rw [e_tag, e_wr] at hc
    cases lst
    · -- the consumers' list was drained: nobody is parked any more
      exfalso; unfold subjF at hs; rw [e_cw] at hs; simp at hs
    · have hs' : subjF σ t j seq := by unfold subjF at hs ⊢; rw [e_cw, e_cf] at hs; simpa using hs
      obtain ⟨u, hu⟩ := I.w3 a b hw t j seq hs' hc
      have : u ≠ x := by intro e'; subst e'; rw [hpc] at hu; simp [PC.pendF, PC.dropPath] at hu
      exact ⟨u, by rw [keep u this]; exact hu⟩
  · intro a b hw t j seq tg h hne
    rw [e_wait] at hw; rw [e_tag] at hne
    rw [wth] at h
    by_cases e : t = x
    · subst e; simp only [if_true] at h; exact absurd h (p5 j seq tg)
    · simp only [e, if_false] at h
      cases lst
      · -- the list lock is free: no consumer is inside its park-and-recheck section
        simp only [WLockOK, hpc] at L
        exact absurd h (L t j seq tg)
      · obtain ⟨u, hu⟩ := I.w4 a b hw t j seq tg h hne
        have : u ≠ x := by intro e'; subst e'; rw [hpc] at hu; simp [PC.pendF, PC.dropPath] at hu
        exact ⟨u, by rw [keep u this]; exact hu⟩

/-- `check` under the consumers' list lock (`FutWait::park`) -/
theorem winv_run_c2_parked {σ : St} (x inp j seq : Nat) (tg : Option Nat) (I : WInv σ)
    (hpc : (σ.th x).pc = .c2 j seq .parked tg) : WInv (stepRun σ x inp).2 := by
  by_cases hb : checkVal seq tg σ.writers = true
  · have e : (stepRun σ x inp).2 = waitDone (σ.flush x) x := by
      simp only [stepRun, hpc, checkDone, hb, if_true]
    have hd := wd_fields (waitDone_wd (σ.flush x) x)
    obtain ⟨d1, d2, d3, d4, d5, d6, d7⟩ := hd
    rcases waitDone_pc (σ.flush x) x with hp | hp
    · apply winv_gen x inp I
      · rw [e, d1]; rfl
      · rw [e, d2]; rfl
      · rw [e, d5]; rfl
      · rw [e, d6]; rfl
      · rw [e, d7]; rfl
      · rw [e, hp]; rfl
      · refine Or.inl ⟨?_, ?_⟩
        · rw [e, d3]; rfl
        · rw [e, hp, hpc]; rfl
      · intro t _ h; rw [e, d4] at h; exact h
      · intro h; rw [hpc] at h; wsimp
      · intro h; rw [hpc] at h; wsimp
      · intro a b _ j' seq' hs; unfold subjB at hs; rw [e, hp] at hs; simp at hs
      · intro a b _ j' seq' tg' h; rw [e, hp] at h; cases h
      · intro a b _ j' seq' tg' h; rw [e, hp] at h; cases h
    · apply winv_gen x inp I
      · rw [e, d1]; rfl
      · rw [e, d2]; rfl
      · rw [e, d5]; rfl
      · rw [e, d6]; rfl
      · rw [e, d7]; rfl
      · rw [e, hp]; rfl
      · refine Or.inl ⟨?_, ?_⟩
        · rw [e, d3]; rfl
        · rw [e, hp, hpc]; rfl
      · intro t _ h; rw [e, d4] at h; exact h
      · intro h; rw [hpc] at h; wsimp
      · intro h; rw [hpc] at h; wsimp
      · intro a b _ j' seq' hs; unfold subjB at hs; rw [e, hp] at hs; simp at hs
      · intro a b _ j' seq' tg' h; rw [e, hp] at h; cases h
      · intro a b _ j' seq' tg' h; rw [e, hp] at h; cases h
  · -- the task is put on the list
    have hb' : checkVal seq tg σ.writers = false := by simpa using hb
    have e : (stepRun σ x inp).2 = ({ σ.flush x with cwaitL := σ.cwaitL ++ [x], cwFor := upd σ.cwFor x (j, seq) }).goto x .psl := by
      simp only [stepRun, hpc, checkDone, hb', Bool.false_eq_true, if_false]; rfl
    have e_tag : (stepRun σ x inp).2.tag = σ.tag := by rw [e]; rfl
    have e_wr : (stepRun σ x inp).2.writers = σ.writers := by rw [e]; rfl
    have e_own : (stepRun σ x inp).2.wlockOwner = σ.wlockOwner := by rw [e]; rfl
    have e_cv : (stepRun σ x inp).2.cvWaiters = σ.cvWaiters := by rw [e]; rfl
    have e_cw : (stepRun σ x inp).2.cwaitL = σ.cwaitL ++ [x] := by rw [e]; rfl
    have e_cf : (stepRun σ x inp).2.cwFor = upd σ.cwFor x (j, seq) := by rw [e]; rfl
    have e_wait : (stepRun σ x inp).2.wait = σ.wait := by rw [e]; rfl
    have e_pc : ((stepRun σ x inp).2.th x).pc = .psl := by rw [e]; simp [St.goto, St.setTh, upd]
    have keep : ∀ u, u ≠ x → (stepRun σ x inp).2.th u = σ.th u := fun u hu => stepRun_th σ x inp u hu
    have notx : ∀ u, (σ.th u).pc.pendB = true ∨ (σ.th u).pc.pendF = true → u ≠ x := by
      intro u hu e'; subst e'; rw [hpc] at hu; rcases hu with h | h <;> simp [PC.pendB, PC.pendF, PC.dropPath] at h
    refine ⟨?_, ?_, ?_, ?_, ?_, ?_⟩
    · intro u; rw [wth]; split
      · rw [e_pc]; rfl
      · exact I.ok u
    · intro u; rw [wth, e_own]; split
      · rename_i e'; subst e'
        rw [e_pc]; constructor
        · intro h; cases h
        · intro h; exact absurd h (not_owner_of_not_held I (by rw [hpc]; rfl))
      · exact I.own u
    · intro a b hw t j' seq' hs hc
      rw [e_wait] at hw; rw [e_tag, e_wr] at hc
      have hs' : subjB σ t j' seq' := by
        unfold subjB at hs ⊢
        rw [wth, e_cv] at hs
        by_cases e' : t = x
        · subst e'; simp only [if_true, e_pc] at hs; rcases hs with h | ⟨h, _⟩ <;> cases h
        · simpa [e'] using hs
      obtain ⟨u, hu⟩ := I.w1 a b hw t j' seq' hs' hc
      exact ⟨u, by rw [keep u (notx u (Or.inl hu))]; exact hu⟩
    · intro a b hw t j' seq' tg' h hne
      rw [e_wait] at hw; rw [e_tag] at hne
      rw [wth] at h
      by_cases e' : t = x
      · subst e'; simp only [if_true, e_pc] at h; cases h
      · simp only [e', if_false] at h
        obtain ⟨u, hu⟩ := I.w2 a b hw t j' seq' tg' h hne
        exact ⟨u, by rw [keep u (notx u (Or.inl hu))]; exact hu⟩
    · intro a b hw t j' seq' hs hc
      rw [e_wait] at hw; rw [e_tag, e_wr] at hc
      unfold subjF at hs; rw [e_cw, e_cf] at hs
      by_cases e' : t = x
      · -- the thread that just parked: its recheck was made under the list lock
        subst e'
        simp only [upd_same] at hs
        obtain ⟨_, hjs⟩ := hs
        have h1 : j = j' := congrArg Prod.fst hjs
        have h2 : seq = seq' := congrArg Prod.snd hjs
        subst h1; subst h2
        by_cases ht : σ.tag j = tg
        · rw [ht, hb'] at hc; cases hc
        · obtain ⟨u, hu⟩ := I.w4 a b hw t j seq tg hpc ht
          exact ⟨u, by rw [keep u (notx u (Or.inr hu))]; exact hu⟩
      · have hs' : subjF σ t j' seq' := by
          unfold subjF
          obtain ⟨h1, h2⟩ := hs
          simp only [upd, e', if_false] at h2
          refine ⟨?_, h2⟩
          rcases List.mem_append.mp h1 with h | h
          · exact h
          · simp at h; exact absurd h e'
        obtain ⟨u, hu⟩ := I.w3 a b hw t j' seq' hs' hc
        exact ⟨u, by rw [keep u (notx u (Or.inr hu))]; exact hu⟩
    · intro a b hw t j' seq' tg' h hne
      rw [e_wait] at hw; rw [e_tag] at hne
      rw [wth] at h
      by_cases e' : t = x
      · subst e'; simp only [if_true, e_pc] at h; cases h
      · simp only [e', if_false] at h
        obtain ⟨u, hu⟩ := I.w4 a b hw t j' seq' tg' h hne
        exact ⟨u, by rw [keep u (notx u (Or.inr hu))]; exact hu⟩

theorem checkDone_wd_other (σ : St) (t j seq : Nat) (ph : WPh) (b : Bool) (h1 : ph ≠ .locked) (h2 : ph ≠ .parked) :
    (checkDone σ t j seq ph b).wdata = σ.wdata ∧ ((checkDone σ t j seq ph b).th t).pc.wPhase = false := by
  cases ph <;> simp only [checkDone] <;> (try (exact absurd rfl h1)) <;> (try (exact absurd rfl h2))
  all_goals (repeat' split)
  all_goals first
    | exact ⟨waitDone_wdata _ t, waitDone_wplain _ t⟩
    | exact ⟨rfl, by simp [St.goto, St.setTh, upd, PC.wPhase]⟩

/-- `check` in a spin or yield phase -/
theorem winv_run_c2_other {σ : St} (x inp j seq : Nat) (ph : WPh) (tg : Option Nat) (I : WInv σ)
    (h1 : ph ≠ .locked) (h2 : ph ≠ .parked) (hpc : (σ.th x).pc = .c2 j seq ph tg) : WInv (stepRun σ x inp).2 := by
  have hf := checkDone_wd_other (σ.flush x) x j seq ph (checkVal seq tg σ.writers) h1 h2
  apply winv_transfer x inp I
  · simp only [stepRun, hpc]; rw [hf.1]; rfl
  · rw [hpc]; cases ph <;> first | rfl | exact absurd rfl h1 | exact absurd rfl h2
  · simp only [stepRun, hpc]; exact hf.2
  · intro k e; rw [hpc] at e; cases e
  · intro k e; rw [hpc] at e; cases e

/-- WakeInv is preserved by every `run` step (given the mutex hypothesis) -/
theorem winv_stepRun {σ : St} (x inp : Nat) (I : WInv σ) (L : WLockOK σ x) : WInv (stepRun σ x inp).2 := by
  cases hs : (σ.th x).pc.wSrc'
  · exact winv_run_plain x inp I hs
  · cases hpc : (σ.th x).pc <;> rw [hpc] at hs <;> (try (simp [PC.wSrc', PC.wSrc] at hs; done))
    case ts h old => exact winv_run_ts x inp h old I hpc
    case cs1 => exact winv_run_cs1 x inp I hpc
    case ds1 => exact winv_run_ds1 x inp I hpc
    case nb1 k => exact winv_run_nb1 x inp k I L hpc
    case nb2 k => exact winv_run_nb2 x inp k I hpc
    case wl j seq => exact winv_run_wl x inp j seq I L hpc
    case c1 j seq ph => exact winv_run_c1 x inp j seq ph I hpc
    case c2 j seq ph tg =>
      by_cases h1 : ph = .locked
      · subst h1; exact winv_run_c2_locked x inp j seq tg I hpc
      · by_cases h2 : ph = .parked
        · subst h2; exact winv_run_c2_parked x inp j seq tg I hpc
        · exact winv_run_c2_other x inp j seq ph tg I h1 h2 hpc
    case wy j seq ph => exact winv_run_wy x inp j seq ph I hpc
    case wcvw j seq => exact winv_run_wcvw x inp j seq I hpc
    case wblk j seq => exact winv_run_wblk x inp j seq I hpc
    case nf lst k => exact winv_run_nf x inp k lst I L hpc

end MQ
