import MQ.Inv.PinDefs
set_option linter.unusedSimpArgs false
set_option linter.unusedVariables false
namespace MQ

theorem pinned_congr {σ σ' : St} {t j : Nat} (hN : σ'.N = σ.N) (h : (σ'.th t).pc.pinPos = (σ.th t).pc.pinPos) :
    pinned σ' t j ↔ pinned σ t j := by
  unfold pinned; rw [hN, h]

/-- a step of `x` that leaves `ref`, `cont`, `pos`, `head`, `N`, `torn` alone, keeps `x`'s pin and does not move `x`
into a class it was not in -/
theorem pin_mono {σ σ' : St} (x : Nat) (P : PinInv σ)
    (hth : ∀ u, u ≠ x → σ'.th u = σ.th u)
    (hN : σ'.N = σ.N) (href : σ'.ref = σ.ref) (hcont : σ'.cont = σ.cont) (hpos : σ'.pos = σ.pos)
    (hhead : σ'.head = σ.head) (htorn : σ'.torn = σ.torn)
    (hs : (σ'.th x).s = (σ.th x).s)
    (hpin : (σ'.th x).pc.pinPos = (σ.th x).pc.pinPos)
    (hrd : ∀ p, (σ'.th x).pc.rdPos = some p → (σ.th x).pc.rdPos = some p ∨
      (∀ w h, (σ.th w).pc.wPos = some h → ((σ.th w).pc.isHd = true → σ.head = h) → h % σ.N = p % σ.N → False))
    (hw : ∀ h, (σ'.th x).pc.wPos = some h →
      ((σ.th x).pc.wPos = some h ∧ ((σ.th x).pc.isHd = true → (σ'.th x).pc.isHd = true)) ∨
      (∀ t p, (σ.th t).pc.rdPos = some p → h % σ.N = p % σ.N → False))
    (hsg : ∀ p, (σ'.th x).pc.sgPos = some p → (σ.th x).pc.sgPos = some p ∨ σ.pos (σ.th x).s = p)
    (hrc : ∀ p sg c, (σ'.th x).pc = .rc p sg c → (σ.th x).pc = .rc p sg c ∨ σ.cont (p % σ.N) = c)
    (hr5 : ∀ p, (σ'.th x).pc ≠ .r5 p true)
    (hxor : (σ'.th x).pc.rdPos = none ∨ (σ'.th x).pc.wPos = none) : PinInv σ' := by
  have thp : ∀ u, (σ'.th u).pc.pinPos = (σ.th u).pc.pinPos := by
    intro u; by_cases e : u = x
    · subst e; exact hpin
    · rw [hth u e]
  refine ⟨?_, ?_, ?_, ?_, ?_, by rw [htorn]; exact P.torn⟩
  · intro j
    obtain ⟨l, h1, h2, h3⟩ := P.cnt j
    exact ⟨l, h1, fun t => by rw [h2 t]; exact (pinned_congr hN (thp t)).symm, by rw [href]; exact h3⟩
  · intro u p; by_cases e : u = x
    · subst e; exact hr5 p
    · rw [hth u e]; exact P.r5f u p
  · intro w t h p h1 h2 h3 h4
    rw [hN] at h4; rw [hhead] at h2
    by_cases ew : w = x
    · subst ew
      by_cases et : t = w
      · subst et; rcases hxor with e | e
        · rw [e] at h3; cases h3
        · rw [e] at h1; cases h1
      · rw [hth t et] at h3
        rcases hw h h1 with ⟨a, b⟩ | a
        · exact P.excl w t h p a (fun hh => h2 (b hh)) h3 h4
        · exact a t p h3 h4
    · rw [hth w ew] at h1 h2
      by_cases et : t = x
      · subst et
        rcases hrd p h3 with a | a
        · exact P.excl w t h p h1 h2 a h4
        · exact a w h h1 h2 h4
      · rw [hth t et] at h3; exact P.excl w t h p h1 h2 h3 h4
  · intro u p h; rw [hpos]
    by_cases e : u = x
    · subst e; rw [hs]
      rcases hsg p h with a | a
      · exact P.sgp u p a
      · exact a
    · rw [hth u e] at h ⊢; exact P.sgp u p h
  · intro u p sg c h; rw [hcont, hN]
    by_cases e : u = x
    · subst e
      rcases hrc p sg c h with a | a
      · exact P.stable u p sg c a
      · exact a
    · rw [hth u e] at h; exact P.stable u p sg c h

theorem mem_cons_iff_pin {l : List Nat} {x t : Nat} : t ∈ x :: l ↔ t = x ∨ t ∈ l := List.mem_cons

/-- the pin step: the count of slot `p % N` goes up by one, `x` enters the pinned section -/
theorem pin_pin {σ σ' : St} (x p : Nat) (P : PinInv σ)
    (hth : ∀ u, u ≠ x → σ'.th u = σ.th u)
    (hN : σ'.N = σ.N) (href : σ'.ref = upd σ.ref (p % σ.N) (σ.ref (p % σ.N) + 1)) (hcont : σ'.cont = σ.cont)
    (hpos : σ'.pos = σ.pos) (hhead : σ'.head = σ.head) (htorn : σ'.torn = σ.torn)
    (hold : (σ.th x).pc.pinPos = none) (hnew : (σ'.th x).pc.pinPos = some p)
    (hcls : (σ'.th x).pc.rdPos = none ∧ (σ'.th x).pc.wPos = none ∧ (σ'.th x).pc.sgPos = none ∧
      (∀ q sg c, (σ'.th x).pc ≠ .rc q sg c) ∧ (∀ q, (σ'.th x).pc ≠ .r5 q true)) : PinInv σ' := by
  obtain ⟨c1, c2, c3, c4, c5⟩ := hcls
  refine ⟨?_, ?_, ?_, ?_, ?_, by rw [htorn]; exact P.torn⟩
  · intro j
    obtain ⟨l, h1, h2, h3⟩ := P.cnt j
    have hxn : x ∉ l := by
      intro hx; obtain ⟨q, hq, _⟩ := (h2 x).mp hx; rw [hold] at hq; cases hq
    by_cases ej : j = p % σ.N
    · subst ej
      refine ⟨x :: l, List.nodup_cons.mpr ⟨hxn, h1⟩, ?_, ?_⟩
      · intro t; rw [List.mem_cons]
        by_cases e : t = x
        · subst e; simp only [true_or, true_iff]; exact ⟨p, hnew, by rw [hN]⟩
        · simp only [e, false_or]; rw [h2 t]; unfold pinned; rw [hth t e, hN]
      · rw [href]; simp [upd, h3]
    · refine ⟨l, h1, ?_, ?_⟩
      · intro t
        by_cases e : t = x
        · subst e
          constructor
          · intro ht; exact absurd ht hxn
          · intro ⟨q, hq, hq2⟩; rw [hnew] at hq; injection hq with hq; subst hq; rw [hN] at hq2; exact absurd hq2.symm ej
        · rw [h2 t]; unfold pinned; rw [hth t e, hN]
      · rw [href]; simp [upd, ej, h3]
  · intro u q; by_cases e : u = x
    · subst e; exact c5 q
    · rw [hth u e]; exact P.r5f u q
  · intro w t h q h1 h2 h3 h4
    rw [hN] at h4; rw [hhead] at h2
    have ew : w ≠ x := by intro e; subst e; rw [c2] at h1; cases h1
    have et : t ≠ x := by intro e; subst e; rw [c1] at h3; cases h3
    rw [hth w ew] at h1 h2; rw [hth t et] at h3
    exact P.excl w t h q h1 h2 h3 h4
  · intro u q h; rw [hpos]
    have e : u ≠ x := by intro e; subst e; rw [c3] at h; cases h
    rw [hth u e] at h ⊢; exact P.sgp u q h
  · intro u q sg c h; rw [hcont, hN]
    have e : u ≠ x := by intro e; subst e; exact c4 q sg c h
    rw [hth u e] at h; exact P.stable u q sg c h

/-- the unpin step -/
theorem pin_unpin {σ σ' : St} (x p : Nat) (P : PinInv σ)
    (hth : ∀ u, u ≠ x → σ'.th u = σ.th u)
    (hN : σ'.N = σ.N) (href : σ'.ref = upd σ.ref (p % σ.N) (σ.ref (p % σ.N) - 1)) (hcont : σ'.cont = σ.cont)
    (hpos : σ'.pos = σ.pos) (hhead : σ'.head = σ.head) (htorn : σ'.torn = σ.torn)
    (hold : (σ.th x).pc.pinPos = some p) (hnew : (σ'.th x).pc.pinPos = none)
    (hcls : (σ'.th x).pc.rdPos = none ∧ (σ'.th x).pc.wPos = none ∧ (σ'.th x).pc.sgPos = none ∧
      (∀ q sg c, (σ'.th x).pc ≠ .rc q sg c) ∧ (∀ q, (σ'.th x).pc ≠ .r5 q true)) : PinInv σ' := by
  obtain ⟨c1, c2, c3, c4, c5⟩ := hcls
  refine ⟨?_, ?_, ?_, ?_, ?_, by rw [htorn]; exact P.torn⟩
  · intro j
    obtain ⟨l, h1, h2, h3⟩ := P.cnt j
    by_cases ej : j = p % σ.N
    · subst ej
      have hx : x ∈ l := (h2 x).mpr ⟨p, hold, rfl⟩
      refine ⟨l.erase x, h1.erase x, ?_, ?_⟩
      · intro t
        rw [h1.mem_erase_iff]
        by_cases e : t = x
        · subst e
          constructor
          · intro ⟨a, _⟩; exact absurd rfl a
          · intro ⟨q, hq, _⟩; rw [hnew] at hq; cases hq
        · simp only [ne_eq, e, not_false_eq_true, true_and]; rw [h2 t]; unfold pinned; rw [hth t e, hN]
      · rw [href, List.length_erase_of_mem hx]; simp [upd, h3]
    · refine ⟨l, h1, ?_, ?_⟩
      · intro t
        by_cases e : t = x
        · subst e
          constructor
          · intro ht; obtain ⟨q, hq, hq2⟩ := (h2 t).mp ht; rw [hold] at hq; injection hq with hq; subst hq; exact absurd hq2.symm ej
          · intro ⟨q, hq, _⟩; rw [hnew] at hq; cases hq
        · rw [h2 t]; unfold pinned; rw [hth t e, hN]
      · rw [href]; simp [upd, ej, h3]
  · intro u q; by_cases e : u = x
    · subst e; exact c5 q
    · rw [hth u e]; exact P.r5f u q
  · intro w t h q h1 h2 h3 h4
    rw [hN] at h4; rw [hhead] at h2
    have ew : w ≠ x := by intro e; subst e; rw [c2] at h1; cases h1
    have et : t ≠ x := by intro e; subst e; rw [c1] at h3; cases h3
    rw [hth w ew] at h1 h2; rw [hth t et] at h3
    exact P.excl w t h q h1 h2 h3 h4
  · intro u q h; rw [hpos]
    have e : u ≠ x := by intro e; subst e; rw [c3] at h; cases h
    rw [hth u e] at h ⊢; exact P.sgp u q h
  · intro u q sg c h; rw [hcont, hN]
    have e : u ≠ x := by intro e; subst e; exact c4 q sg c h
    rw [hth u e] at h; exact P.stable u q sg c h

/-- the claim step: `head` moves from `h` to `h + 1`, the claiming producer goes from `hd _ h` to `tg h` -/
theorem pin_claim {σ σ' : St} (x h : Nat) (P : PinInv σ)
    (hth : ∀ u, u ≠ x → σ'.th u = σ.th u)
    (hN : σ'.N = σ.N) (href : σ'.ref = σ.ref) (hcont : σ'.cont = σ.cont) (hpos : σ'.pos = σ.pos)
    (hhead : σ'.head = h + 1) (hh : σ.head = h) (htorn : σ'.torn = σ.torn)
    (hold : ∃ m, (σ.th x).pc = .hd m h) (hnew : (σ'.th x).pc = .tg h)
    (hle : ∀ w m h', (σ.th w).pc = .hd m h' → h' ≤ σ.head) : PinInv σ' := by
  obtain ⟨m, hold⟩ := hold
  refine ⟨?_, ?_, ?_, ?_, ?_, by rw [htorn]; exact P.torn⟩
  · intro j
    obtain ⟨l, h1, h2, h3⟩ := P.cnt j
    refine ⟨l, h1, fun t => ?_, by rw [href]; exact h3⟩
    rw [h2 t]
    by_cases e : t = x
    · subst e; unfold pinned; rw [hnew, hold]; simp [PC.pinPos]
    · unfold pinned; rw [hth t e, hN]
  · intro u q; by_cases e : u = x
    · subst e; rw [hnew]; simp
    · rw [hth u e]; exact P.r5f u q
  · intro w t h' q h1 h2 h3 h4
    rw [hN] at h4
    have et : t ≠ x := by intro e; subst e; rw [hnew] at h3; simp [PC.rdPos] at h3
    rw [hth t et] at h3
    by_cases ew : w = x
    · subst ew
      rw [hnew] at h1; simp [PC.wPos] at h1; subst h1
      exact P.excl w t h q (by rw [hold]; rfl) (fun _ => hh) h3 h4
    · rw [hth w ew] at h1 h2
      refine P.excl w t h' q h1 (fun hd => ?_) h3 h4
      have := h2 hd
      -- a producer at `hd _ h'` has `h' ≤ head`, so `h' = head + 1` is impossible
      cases hpc : (σ.th w).pc <;> rw [hpc] at hd <;> simp [PC.isHd] at hd
      rename_i m' h''
      rw [hpc] at h1; simp [PC.wPos] at h1; subst h1
      have := hle w m' h'' hpc
      omega
  · intro u q hq; rw [hpos]
    have e : u ≠ x := by intro e; subst e; rw [hnew] at hq; simp [PC.sgPos] at hq
    rw [hth u e] at hq ⊢; exact P.sgp u q hq
  · intro u q sg c hq; rw [hcont, hN]
    have e : u ≠ x := by intro e; subst e; rw [hnew] at hq; cases hq
    rw [hth u e] at hq; exact P.stable u q sg c hq

/-- the value write: the content of slot `h % N` changes; no reader is between its read and its clone there -/
theorem pin_wr {σ σ' : St} (x h : Nat) (v : Option Nat) (P : PinInv σ)
    (hth : ∀ u, u ≠ x → σ'.th u = σ.th u)
    (hN : σ'.N = σ.N) (href : σ'.ref = σ.ref) (hcont : σ'.cont = upd σ.cont (h % σ.N) v) (hpos : σ'.pos = σ.pos)
    (hhead : σ'.head = σ.head) (htorn : σ'.torn = σ.torn)
    (hold : ∃ o, (σ.th x).pc = .wr h o)
    (hnew : (σ'.th x).pc.pcls = (none, none, none, none, false))
    (hsgw : ∀ t p c, (σ.th t).pc = .rc p true c → h % σ.N = p % σ.N → False) : PinInv σ' := by
  obtain ⟨o, hold⟩ := hold
  simp only [PC.pcls, Prod.mk.injEq] at hnew
  obtain ⟨n1, n2, n3, n4, n5⟩ := hnew
  refine ⟨?_, ?_, ?_, ?_, ?_, by rw [htorn]; exact P.torn⟩
  · intro j
    obtain ⟨l, h1, h2, h3⟩ := P.cnt j
    refine ⟨l, h1, fun t => ?_, by rw [href]; exact h3⟩
    rw [h2 t]
    by_cases e : t = x
    · subst e; unfold pinned; rw [n1, hold]; simp [PC.pinPos]
    · unfold pinned; rw [hth t e, hN]
  · intro u q; by_cases e : u = x
    · subst e; intro hq; rw [hq] at n5; simp at n5
    · rw [hth u e]; exact P.r5f u q
  · intro w t h' q h1 h2 h3 h4
    rw [hN] at h4; rw [hhead] at h2
    have ew : w ≠ x := by intro e; subst e; rw [n3] at h1; cases h1
    have et : t ≠ x := by intro e; subst e; rw [n2] at h3; cases h3
    rw [hth w ew] at h1 h2; rw [hth t et] at h3
    exact P.excl w t h' q h1 h2 h3 h4
  · intro u q hq; rw [hpos]
    have e : u ≠ x := by intro e; subst e; rw [n4] at hq; cases hq
    rw [hth u e] at hq ⊢; exact P.sgp u q hq
  · intro u q sg c hq; rw [hcont, hN]
    have e : u ≠ x := by intro e; subst e; rw [hq] at n5; simp at n5
    rw [hth u e] at hq
    have hne : h % σ.N ≠ q % σ.N := by
      intro es
      cases sg
      · exact P.excl x u h q (by rw [hold]; rfl) (by rw [hold]; intro hd; cases hd) (by rw [hq]; rfl) es
      · exact hsgw u q c hq es
    simp only [upd]; rw [if_neg (fun e' => hne e'.symm)]
    exact P.stable u q sg c hq

/-- a commit (or the start position of a new stream): `pos s` changes; no unpinned reader is on `s` -/
theorem pin_pos {σ σ' : St} (x s v : Nat) (P : PinInv σ)
    (hth : ∀ u, u ≠ x → σ'.th u = σ.th u)
    (hN : σ'.N = σ.N) (href : σ'.ref = σ.ref) (hcont : σ'.cont = σ.cont) (hpos : σ'.pos = upd σ.pos s v)
    (hhead : σ'.head = σ.head) (htorn : σ'.torn = σ.torn)
    (hold : (σ.th x).pc.pinPos = none)
    (hnew : (σ'.th x).pc.pcls = (none, none, none, none, false))
    (hex : ∀ t p, t ≠ x → (σ.th t).pc.sgPos = some p → (σ.th t).s ≠ s) : PinInv σ' := by
  simp only [PC.pcls, Prod.mk.injEq] at hnew
  obtain ⟨n1, n2, n3, n4, n5⟩ := hnew
  refine ⟨?_, ?_, ?_, ?_, ?_, by rw [htorn]; exact P.torn⟩
  · intro j
    obtain ⟨l, h1, h2, h3⟩ := P.cnt j
    refine ⟨l, h1, fun t => ?_, by rw [href]; exact h3⟩
    rw [h2 t]
    by_cases e : t = x
    · subst e; unfold pinned; rw [n1, hold]; simp
    · unfold pinned; rw [hth t e, hN]
  · intro u q; by_cases e : u = x
    · subst e; intro hq; rw [hq] at n5; simp at n5
    · rw [hth u e]; exact P.r5f u q
  · intro w t h' q h1 h2 h3 h4
    rw [hN] at h4; rw [hhead] at h2
    have ew : w ≠ x := by intro e; subst e; rw [n3] at h1; cases h1
    have et : t ≠ x := by intro e; subst e; rw [n2] at h3; cases h3
    rw [hth w ew] at h1 h2; rw [hth t et] at h3
    exact P.excl w t h' q h1 h2 h3 h4
  · intro u q hq; rw [hpos]
    have e : u ≠ x := by intro e; subst e; rw [n4] at hq; cases hq
    rw [hth u e] at hq ⊢
    simp only [upd]; rw [if_neg (hex u q e hq)]
    exact P.sgp u q hq
  · intro u q sg c hq; rw [hcont, hN]
    have e : u ≠ x := by intro e; subst e; rw [hq] at n5; simp at n5
    rw [hth u e] at hq; exact P.stable u q sg c hq

end MQ
