import MQ.Inv.ModeMain
import MQ.Inv.PinRun
/-!
# Positions and delivery lists move together (C01/C02): one statement over all program points
-/
namespace MQ

set_option maxHeartbeats 4000000 in
theorem pos_dlv_tcc (σ : St) (t inp h c u : Nat) (hpc : (σ.th t).pc = .tcc h c u) :
    ((stepRun σ t inp).2.pos = σ.pos ∧ (stepRun σ t inp).2.dlv = σ.dlv) := by
  by_cases h1 : σ.tc = c
  all_goals (pin_unf hpc; simp only [h1, if_true, if_false]; (repeat' split) <;> first | exact ⟨rfl, rfl⟩ | (simp [St.goto, St.gotoF, St.flush, St.setTh, upd]; done))

set_option maxHeartbeats 4000000 in
/-- positions and delivery lists move together: a step leaves both alone, or advances the stepping thread's own stream
to `p + 1` and appends exactly one value to that stream's delivery list (the commit of a receive), or initialises the
new stream of an `add_stream` (position `raw`, empty delivery list) -/
theorem pos_dlv_together (σ : St) (t inp : Nat) :
    ((stepRun σ t inp).2.pos = σ.pos ∧ (stepRun σ t inp).2.dlv = σ.dlv) ∨
    (∃ p v, (stepRun σ t inp).2.pos = upd σ.pos (σ.th t).s (p + 1) ∧
      (stepRun σ t inp).2.dlv = upd σ.dlv (σ.th t).s (σ.dlv (σ.th t).s ++ [v])) ∨
    (∃ raw, (stepRun σ t inp).2.pos = upd σ.pos (σ.th t).ns raw ∧ (stepRun σ t inp).2.dlv = upd σ.dlv (σ.th t).ns []) := by
  cases hpc : (σ.th t).pc
  case tcc h c u => exact Or.inl (pos_dlv_tcc σ t inp h c u hpc)
  case hd m h => cases m <;> (pin_unf hpc <;> (repeat' split) <;> first | (left; exact ⟨rfl, rfl⟩) | (right; left; exact ⟨_, _, rfl, rfl⟩) | (right; right; exact ⟨_, rfl, rfl⟩) | (simp [St.goto, St.gotoF, St.flush, St.setTh, St.setHd, upd]; done) | (exfalso; simp_all; done))
  all_goals (pin_unf hpc <;> (repeat' split) <;> first | (left; exact ⟨rfl, rfl⟩) | (right; left; exact ⟨_, _, rfl, rfl⟩) | (right; right; exact ⟨_, rfl, rfl⟩) | (simp [St.goto, St.gotoF, St.flush, St.setTh, upd]; done))

end MQ
