import MQ.Inv.RingDefs
/-!
# ModeInv — handle accounting and the single/multi mode switches

`writers` counts exactly the sender handles in the ghost list `sl`, `ncons s` the receiver handles in
`cl s`; a handle whose cached state is Uni/Single (or a view handle) that is counted is the *only* counted
handle of its kind; a thread inside a call holds a counted handle that nobody else uses. From this the
hypotheses `ModeOK` of the ring argument follow (`modeOK_of_minv`).
-/
namespace MQ

/-- calls that use a sender handle -/
def Outer.isSend : Outer → Bool
  | .trySend | .startSend _ _ => true
  | _ => false

/-- calls that end the life of the handle -/
def Outer.isDrop : Outer → Bool
  | .drop | .unsub => true
  | _ => false

/-- program points of `try_send` (the handle is a counted sender) -/
def PC.sendOp : PC → Bool
  | .s0 | .m1 | .sh _ | .st _ _ | .g1 _ _ _ | .g2 _ _ _ _ _ _ | .g3 _ _ _ _ _ | .tcs _ _ | .tcc _ _ _ | .tcl _
  | .rf _ _ | .hd _ _ | .tg _ | .wr _ _ | .ts _ _ | .od _ | .sy | .spl => true
  | _ => false

/-- the single-writer path including the head load before it -/
def PC.singleSendX : PC → Bool
  | .sh false => true
  | pc => pc.singleSend

/-- program points of the receive programs (the handle is a counted receiver of stream `x.s`) -/
def PC.recvOp : PC → Bool
  | .r0 | .la1 | .la2 | .w0 _ | .c1 _ _ _ | .c2 _ _ _ _ | .wy _ _ _ | .wl _ _ | .wcvw _ _ | .wblk _ _ | .pk _ _ | .psl => true
  | pc => pc.recvActive

def PC.viewPC : PC → Bool
  | .v1 _ | .v2 _ | .v3 _ | .vw _ _ | .vd _ _ | .v4 _ _ => true
  | _ => false

/-- after its decrement the last consumer removes the stream -/
def PC.remPC : PC → Bool
  | .rr1 | .rr2 _ _ | .rr3 _ | .rr4 | .rr5 => true
  | _ => false

/-- handle `g` is counted: in `sl` if it is a sender, in `cl s` if it is a receiver of stream `s` -/
def counted (σ : St) (g s : Nat) : Prop :=
  if (σ.hs g).sender then g ∈ σ.sl else g ∈ σ.cl s

/-- the handle whose count the `dr1` decrement takes back -/
def Th.dropTarget (x : Th) : Nat := if x.outer = Outer.intoSingleFut then x.ng else x.g

/-- per-thread facts -/
structure TLoc (σ : St) (x : Th) : Prop where
  /-- the handle of a call is marked busy -/
  busy : x.pc ≠ .idle → (σ.hs x.g).busy = true
  /-- send and receive programs run on a counted handle of the right kind -/
  snd : x.pc.sendOp = true → x.g ∈ σ.sl ∧ (σ.hs x.g).sender = true
  sndUni : x.pc.singleSendX = true → (σ.hs x.g).uni = true
  rcv : x.pc.recvOp = true → x.g ∈ σ.cl x.s ∧ (σ.hs x.g).sender = false
  rcvSingle : x.pc.recvActive = true → x.pc.viewPC = false → x.single = true → (σ.hs x.g).uni = true
  rcvView : x.pc.viewPC = true → (σ.hs x.g).view = true
  /-- clone -/
  cs : x.pc = .cs1 → x.g ∈ σ.sl ∧ (σ.hs x.g).sender = true ∧ (σ.hs x.g).uni = false ∧ x.ng ∉ σ.sl
  cr : x.pc = .cr1 → x.g ∈ σ.cl x.s ∧ (σ.hs x.g).sender = false ∧ x.ng ∉ σ.cl x.s
  /-- drop -/
  ds : x.pc = .ds1 → x.g ∈ σ.sl ∧ (σ.hs x.g).sender = true
  dr : (x.pc = .un1 ∨ x.pc = .dr1) → x.dropTarget ∈ σ.cl x.s
  rem : x.pc.remPC = true → σ.cl x.s = []
  /-- add_stream -/
  add : x.pc.addPC = true → x.g ∈ σ.cl x.s ∧ (σ.hs x.g).sender = false ∧ σ.cl x.ns = []
  isg : x.pc = .isg → x.g ∈ σ.cl x.s ∧ (σ.hs x.g).sender = false

structure MInv (σ : St) : Prop where
  wr : σ.writers = σ.sl.length
  slnd : σ.sl.Nodup
  nc : ∀ s, σ.ncons s = (σ.cl s).length
  clnd : ∀ s, (σ.cl s).Nodup
  thr : ∀ t, TLoc σ (σ.th t)
  /-- two threads inside calls use different handles -/
  excl : ∀ t u, t ≠ u → (σ.th t).pc ≠ .idle → (σ.th u).pc ≠ .idle → (σ.th t).g ≠ (σ.th u).g
  /-- a counted handle in Uni / Single mode, or a view handle, is the only counted one -/
  uniS : ∀ g, g ∈ σ.sl → (σ.hs g).uni = true → σ.sl = [g]
  uniR : ∀ g s, g ∈ σ.cl s → ((σ.hs g).uni = true ∨ (σ.hs g).view = true) → σ.cl s = [g]
  /-- kinds: `sl` holds senders, `cl` receivers -/
  slKind : ∀ g, g ∈ σ.sl → (σ.hs g).sender = true ∧ (σ.hs g).used = true
  clKind : ∀ g s, g ∈ σ.cl s → (σ.hs g).sender = false ∧ (σ.hs g).used = true
  /-- a stream with a counted handle is registered -/
  clReg : ∀ s, σ.cl s ≠ [] → reg σ.ring s
  /-- idle live handles are counted, on their own stream -/
  idleS : ∀ g, (σ.hs g).alive = true → (σ.hs g).busy = false → (σ.hs g).sender = true → g ∈ σ.sl
  idleR : ∀ g, (σ.hs g).alive = true → (σ.hs g).busy = false → (σ.hs g).sender = false → g ∈ σ.cl (σ.hs g).stream
  /-- a busy handle belongs to some thread inside a call -/
  busyOwner : ∀ g, (σ.hs g).busy = true → ∃ t, (σ.th t).pc ≠ .idle ∧ (σ.th t).g = g

theorem list_eq_singleton_mem {l : List Nat} {a b : Nat} (h : l = [a]) (hb : b ∈ l) : b = a := by
  subst h; simpa using hb

/-- the mode hypotheses of the ring argument follow from the handle accounting -/
theorem modeOK_of_minv {σ : St} (M : MInv σ) : ModeOK σ := by
  refine ⟨?_, ?_, ?_, ?_⟩
  · intro t u htu ht hu
    have Lt := M.thr t
    have Lu := M.thr u
    have h1 : (σ.th t).pc.sendOp = true := by
      cases hp : (σ.th t).pc <;> rw [hp] at ht <;> simp [PC.sendActive, PC.sendOp] at ht ⊢
    have h2 : (σ.th u).pc.singleSendX = true := by
      cases hp : (σ.th u).pc <;> rw [hp] at hu <;> simp_all [PC.singleSend, PC.singleSendX]
    have h3 : (σ.th u).pc.sendOp = true := by
      cases hp : (σ.th u).pc <;> rw [hp] at hu <;> simp_all [PC.singleSend, PC.sendOp]
    have gt := (Lt.snd h1).1
    have gu := (Lu.snd h3).1
    have e := M.uniS _ gu (Lu.sndUni h2)
    have := list_eq_singleton_mem e gt
    have nt : (σ.th t).pc ≠ .idle := by intro e'; rw [e'] at ht; cases ht
    have nu : (σ.th u).pc ≠ .idle := by intro e'; rw [e'] at hu; cases hu
    exact M.excl t u htu nt nu this
  · intro t u htu ht hu hs
    have Lt := M.thr t
    have Lu := M.thr u
    have h1 : (σ.th t).pc.recvOp = true := by
      cases hp : (σ.th t).pc <;> rw [hp] at ht <;> simp [PC.recvActive, PC.recvOp] at ht ⊢
    have ha : (σ.th u).pc.recvActive = true := by
      unfold Th.singleRecv at hu
      cases hp : (σ.th u).pc <;> rw [hp] at hu <;> simp_all [PC.recvActive]
    have h3 : (σ.th u).pc.recvOp = true := by
      cases hp : (σ.th u).pc <;> rw [hp] at ha <;> simp_all [PC.recvActive, PC.recvOp]
    have gt := (Lt.rcv h1).1
    have gu := (Lu.rcv h3).1
    have hflag : (σ.hs (σ.th u).g).uni = true ∨ (σ.hs (σ.th u).g).view = true := by
      by_cases hv : (σ.th u).pc.viewPC = true
      · exact Or.inr (Lu.rcvView hv)
      · have hv' : (σ.th u).pc.viewPC = false := by simpa using hv
        have : (σ.th u).single = true := by
          unfold Th.singleRecv at hu
          cases hp : (σ.th u).pc <;> rw [hp] at hu hv' <;> simp_all [PC.viewPC]
        exact Or.inl (Lu.rcvSingle ha hv' this)
    have e := M.uniR _ _ gu hflag
    rw [hs] at gt
    have := list_eq_singleton_mem e gt
    have nt : (σ.th t).pc ≠ .idle := by intro e'; rw [e'] at ht; cases ht
    have nu : (σ.th u).pc ≠ .idle := by intro e'; rw [e'] at ha; cases ha
    exact M.excl t u htu nt nu this
  · intro t ht
    have h1 : (σ.th t).pc.recvOp = true := by
      cases hp : (σ.th t).pc <;> rw [hp] at ht <;> simp [PC.recvActive, PC.recvOp] at ht ⊢
    have := ((M.thr t).rcv h1).1
    exact M.clReg _ (List.ne_nil_of_mem this)
  · intro t ht
    have := ((M.thr t).add ht).1
    exact M.clReg _ (List.ne_nil_of_mem this)

end MQ
