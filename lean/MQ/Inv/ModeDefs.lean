import MQ.Inv.RingDefs
/-!
# ModeInv — handle accounting and the single/multi mode switches

`writers` counts exactly the sender handles in the ghost list `sl`, `ncons s` the receiver handles in
`cl s`; a handle whose cached state is Uni/Single (or a view handle) that is counted is the *only* counted
handle of its kind; a thread inside a call holds a handle that nobody else uses (`busy`). From this the
hypotheses `ModeOK` of the ring argument follow (`modeOK_of_minv`).

Scope: executions without the two futures handle conversions (`into_single` / `into_multi` of the *futures*
receivers), which re-wire a handle to another stream inside one call (`TLoc.noconv`).
-/
namespace MQ

/-- the two futures handle conversions -/
def Outer.futConv : Outer → Bool
  | .intoSingleFut | .intoMultiFut => true
  | _ => false

/-- calls that use the view API (only a uni receiver offers them) -/
def Outer.viewCall : Outer → Bool
  | .tryRecvView | .recvView | .futTryRecvView | .futRecvView | .poll true => true
  | _ => false

/-- program points of `try_send` (the handle is a counted sender) -/
def PC.sendOp : PC → Bool
  | .s0 | .u1 .sendStart | .u2 .sendStart _ | .u3 .sendStart _
  | .m1 | .sh _ | .st _ _ | .g1 _ _ _ | .g2 _ _ _ _ _ _ | .g3 _ _ _ _ _ | .tcs _ _ | .tcc _ _ _ | .tcl _
  | .rf _ _ | .hd _ _ | .tg _ | .wr _ _ | .ts _ _ | .od _ | .sy | .spl => true
  | _ => false

/-- the single-writer path including the head load before it -/
def PC.singleSendX : PC → Bool
  | .sh false => true
  | pc => pc.singleSend

/-- program points of the receive programs (the handle is a counted receiver of stream `x.s`) -/
def PC.recvOp : PC → Bool
  | .r0 | .u1 .recvStart | .u2 .recvStart _ | .u3 .recvStart _ | .is1 | .la1 | .la2 | .w0 _ | .c1 _ _ _ | .c2 _ _ _ _
  | .wy _ _ _ | .wl _ _ | .wcvw _ _ | .wblk _ _ | .pk _ _ | .psl | .nf true 12 => true
  | pc => pc.recvActive

def PC.viewPC : PC → Bool
  | .v1 _ | .v2 _ | .v3 _ | .vw _ _ | .vd _ _ | .v4 _ _ => true
  | _ => false

/-- sender clone in progress -/
def PC.cloneS : PC → Bool
  | .gt1 .cloneS | .gt2 .cloneS | .cs1 => true
  | _ => false

/-- the last consumer is about to take its stream off the list -/
def PC.remPC : PC → Bool
  | .rr1 | .rr2 _ _ => true
  | _ => false

/-- a new handle has been counted and waits to be handed out -/
def PC.afterNew : PC → Bool
  | .f1 .addFree _ | .f2 .addFree | .f3 .addFree | .f4 .addFree _ _ | .f5 .addFree | .f7 .addFree | .f8 .addFree
  | .f9 .addFree _ | .f10 .addFree | .gt1 .retNew | .gt2 .retNew | .ret .new => true
  | _ => false

/-- which continuation a manager sub-program may carry (static) -/
def PC.kOK : PC → Bool
  | .u1 k | .u2 k _ | .u3 k _ =>
      (match k with | .sendStart | .recvStart | .rmTok _ => true | _ => false)
  | .gt1 k | .gt2 k => (match k with | .cloneS | .retNew => true | _ => false)
  | .f1 k _ | .f2 k | .f3 k | .f4 k _ _ | .f5 k | .f7 k | .f8 k | .f9 k _ | .f10 k =>
      (match k with | .addFree | .rmFree1 | .rmFree2 | .rmTokFree _ => true | _ => false)
  | .nf lst k => k != 10 && (k != 12 || lst)
  | _ => true

/-- the record of a handle under construction -/
def newHd (h : Hd) (sender : Bool) : Prop :=
  h.sender = sender ∧ h.alive = false ∧ h.used = true ∧ h.busy = false ∧ h.view = false

/-- the record of a handle under construction by `add_stream` (a view handle's new stream gets a view handle) -/
def newHd0 (h : Hd) (sender : Bool) : Prop :=
  h.sender = sender ∧ h.alive = false ∧ h.used = true ∧ h.busy = false

/-- program points of the calls that create a handle -/
def PC.newPath (pc : PC) : Bool := pc.cloneS || pc == .cr1 || pc.addPC || pc.afterNew

/-- receive program points that carry the per-call flag "this handle was the only counted one of its stream"
(`is_single()` of `try_recv`, loaded before the position) -/
def PC.sgFlag : PC → Bool
  | .r1 _ sg | .r2 _ sg | .r3 _ sg | .r3b _ sg | .r5 _ sg | .rd _ sg | .rc _ sg _ | .r9 _ sg _ | .r7 sg | .fg _ sg => sg
  | _ => false

/-- … including the two program points between the load of the flag and the load of the position -/
def Th.sgOn (x : Th) : Bool :=
  match x.pc with
  | .la1 | .la2 => x.aux == 1 && !x.outer.viewCall
  | pc => pc.sgFlag

/-- per-thread facts -/
structure TLoc (σ : St) (x : Th) : Prop where
  busy : x.pc ≠ .idle → (σ.hs x.g).busy = true ∧ (σ.hs x.g).used = true
  noconv : x.pc ≠ .idle → x.outer.futConv = false
  vo : x.pc ≠ .idle → x.outer.viewCall = true → (σ.hs x.g).view = true
  kok : x.pc.kOK = true
  /-- the handle of a call that does not end its life stays counted -/
  cnt : x.pc ≠ .idle → (σ.hs x.g).alive = true →
    ((σ.hs x.g).sender = true → x.g ∈ σ.sl) ∧ ((σ.hs x.g).sender = false → x.g ∈ σ.cl (σ.hs x.g).stream)
  arcOK : ∀ r, x.pc = .arc r → r ≠ .single ∧ r ≠ .new
  /-- the stream recorded at the call is the handle's stream -/
  strm : x.pc ≠ .idle → x.s = (σ.hs x.g).stream
  snd : x.pc.sendOp = true → x.g ∈ σ.sl ∧ (σ.hs x.g).sender = true
  sndUni : x.pc.singleSendX = true → (σ.hs x.g).uni = true
  rcv : x.pc.recvOp = true → x.g ∈ σ.cl x.s ∧ (σ.hs x.g).sender = false
  rcvSingle : x.pc.recvActive = true → x.pc.viewPC = false → x.single = true → (σ.hs x.g).uni = true
  rcvView : x.pc.viewPC = true → (σ.hs x.g).view = true
  cs : x.pc.cloneS = true →
    x.g ∈ σ.sl ∧ (σ.hs x.g).sender = true ∧ (σ.hs x.g).uni = false ∧ newHd (σ.hs x.ng) true ∧ (σ.hs x.ng).uni = false
  cr : x.pc = .cr1 →
    x.g ∈ σ.cl x.s ∧ (σ.hs x.g).sender = false ∧ (σ.hs x.g).view = false ∧ newHd (σ.hs x.ng) false ∧
    (σ.hs x.ng).uni = false ∧ (σ.hs x.ng).stream = x.s
  ds : x.pc = .ds1 → x.g ∈ σ.sl ∧ (σ.hs x.g).alive = false
  dr : (x.pc = .un1 ∨ x.pc = .dr1) → x.g ∈ σ.cl x.s ∧ (σ.hs x.g).alive = false
  rem : x.pc.remPC = true → σ.cl x.s = [] ∧ σ.est x.s = true
  add : x.pc.addPC = true →
    x.g ∈ σ.cl x.s ∧ (σ.hs x.g).sender = false ∧ σ.cl x.ns = [] ∧ newHd0 (σ.hs x.ng) false ∧ (σ.hs x.ng).stream = x.ns
  isg : x.pc = .isg → x.g ∈ σ.cl x.s ∧ (σ.hs x.g).sender = false
  retS : x.pc = .ret .single → x.outer = .intoSingle → σ.cl x.s = [x.g]
  /-- the new handle is counted, on the stream it will report -/
  aft : x.pc.afterNew = true → (x.outer = .clone ∨ x.outer = .addStream) →
    (σ.hs x.ng).alive = false ∧ (σ.hs x.ng).used = true ∧ (σ.hs x.ng).busy = false ∧
    ((σ.hs x.ng).sender = true → x.ng ∈ σ.sl) ∧ ((σ.hs x.ng).sender = false → x.ng ∈ σ.cl (σ.hs x.ng).stream)
  /-- only the creating calls run the creating programs -/
  op : x.pc ≠ .idle → x.pc.newPath = false → x.outer ≠ .clone ∧ x.outer ≠ .addStream
  /-- a receive that skips the pin (`is_single` read as true) is by the only counted handle of its stream -/
  sgl : x.sgOn = true → σ.cl x.s = [x.g]

/-- the thread is creating a handle `ng` -/
def Th.creating (y : Th) : Prop :=
  y.pc.cloneS = true ∨ y.pc = .cr1 ∨ y.pc.addPC = true ∨ (y.pc.afterNew = true ∧ (y.outer = .clone ∨ y.outer = .addStream))

structure MInv (σ : St) : Prop where
  wr : σ.writers = σ.sl.length
  nc : ∀ s, σ.ncons s = (σ.cl s).length
  thr : ∀ t, TLoc σ (σ.th t)
  /-- two threads inside calls use different handles -/
  excl : ∀ t u, t ≠ u → (σ.th t).pc ≠ .idle → (σ.th u).pc ≠ .idle → (σ.th t).g ≠ (σ.th u).g
  /-- a counted handle in Uni / Single mode, or a view handle, is the only counted one -/
  uniS : ∀ g, g ∈ σ.sl → (σ.hs g).uni = true → σ.sl = [g]
  uniR : ∀ g s, g ∈ σ.cl s → ((σ.hs g).uni = true ∨ (σ.hs g).view = true) → σ.cl s = [g]
  /-- a stream with a counted handle is registered -/
  clReg : ∀ s, σ.cl s ≠ [] → reg σ.ring s
  /-- idle live handles are counted, on their own stream -/
  idleS : ∀ g, (σ.hs g).alive = true → (σ.hs g).busy = false → (σ.hs g).sender = true → g ∈ σ.sl
  idleR : ∀ g, (σ.hs g).alive = true → (σ.hs g).busy = false → (σ.hs g).sender = false → g ∈ σ.cl (σ.hs g).stream
  aliveUsed : ∀ g, (σ.hs g).alive = true → (σ.hs g).used = true
  /-- counted handles have been handed out, with the right kind -/
  slKind : ∀ g, g ∈ σ.sl → (σ.hs g).sender = true ∧ (σ.hs g).used = true
  clKind : ∀ g s, g ∈ σ.cl s → (σ.hs g).sender = false ∧ (σ.hs g).used = true ∧ (σ.hs g).stream = s
  /-- two threads never create the same handle -/
  nginj : ∀ t u, t ≠ u → (σ.th t).creating → (σ.th u).creating → (σ.th t).ng ≠ (σ.th u).ng

theorem list_eq_singleton_mem {l : List Nat} {a b : Nat} (h : l = [a]) (hb : b ∈ l) : b = a := by
  subst h; simpa using hb

theorem sendOp_of_sendActive {pc : PC} (h : pc.sendActive = true) : pc.sendOp = true := by
  cases pc <;> simp [PC.sendActive, PC.sendOp] at h ⊢
theorem singleSendX_of_singleSend {pc : PC} (h : pc.singleSend = true) : pc.singleSendX = true ∧ pc.sendOp = true := by
  cases pc <;> simp_all [PC.singleSend, PC.singleSendX, PC.sendOp]
theorem recvOp_of_recvActive {pc : PC} (h : pc.recvActive = true) : pc.recvOp = true := by
  cases pc <;> simp [PC.recvActive, PC.recvOp] at h ⊢
theorem singleRecv_facts {x : Th} (h : x.singleRecv = true) :
    x.pc.recvActive = true ∧ (x.pc.viewPC = false → x.single = true) := by
  obtain ⟨pc, g', v', outer, ff, pn, ng, ns, s, single, aux⟩ := x
  cases pc <;> simp_all [Th.singleRecv, PC.recvActive, PC.viewPC]
theorem not_idle_of_sendOp {pc : PC} (h : pc.sendOp = true) : pc ≠ .idle := by
  intro e; subst e; cases h
theorem not_idle_of_recvOp {pc : PC} (h : pc.recvOp = true) : pc ≠ .idle := by
  intro e; subst e; cases h

/-- the mode hypotheses of the ring argument follow from the handle accounting -/
theorem modeOK_of_minv {σ : St} (M : MInv σ) : ModeOK σ := by
  refine ⟨?_, ?_, ?_, ?_⟩
  · intro t u htu ht hu
    have h1 := sendOp_of_sendActive ht
    obtain ⟨h2, h3⟩ := singleSendX_of_singleSend hu
    have gt := ((M.thr t).snd h1).1
    have gu := ((M.thr u).snd h3).1
    have e := M.uniS _ gu ((M.thr u).sndUni h2)
    have := list_eq_singleton_mem e gt
    exact M.excl t u htu (not_idle_of_sendOp h1) (not_idle_of_sendOp h3) this
  · intro t u htu ht hu hs
    have h1 := recvOp_of_recvActive ht
    obtain ⟨ha, hsingle⟩ := singleRecv_facts hu
    have h3 := recvOp_of_recvActive ha
    have gt := ((M.thr t).rcv h1).1
    have gu := ((M.thr u).rcv h3).1
    have hflag : (σ.hs (σ.th u).g).uni = true ∨ (σ.hs (σ.th u).g).view = true := by
      by_cases hv : (σ.th u).pc.viewPC = true
      · exact Or.inr ((M.thr u).rcvView hv)
      · have hv' : (σ.th u).pc.viewPC = false := by simpa using hv
        exact Or.inl ((M.thr u).rcvSingle ha hv' (hsingle hv'))
    have e := M.uniR _ _ gu hflag
    rw [hs] at gt
    have := list_eq_singleton_mem e gt
    exact M.excl t u htu (not_idle_of_recvOp h1) (not_idle_of_recvOp h3) this
  · intro t ht
    have := ((M.thr t).rcv (recvOp_of_recvActive ht)).1
    exact M.clReg _ (List.ne_nil_of_mem this)
  · intro t ht
    have := ((M.thr t).add ht).1
    exact M.clReg _ (List.ne_nil_of_mem this)

end MQ
