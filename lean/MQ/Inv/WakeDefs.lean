import MQ.Inv.Frame2
/-!
# WakeInv — no lost wake-up: definitions and frame lemmas

A consumer that waits on the condvar (`BlockingWait`) or whose task is parked on the consumers' list (`FutWait`)
decided to wait by evaluating `check(seq, tag[j], writers)` *under the lock*. Every thread that makes such a
condition true (the writer that publishes a slot, the sender whose drop takes `writers` to 0) afterwards runs
`notify` — it is a *pending notifier* until it has drained the waiters. The invariant: whenever a waiter's
condition holds, a pending notifier exists.
-/
set_option linter.unusedSimpArgs false
namespace MQ

/-- what the argument looks at -/
structure WData where
  tag : Nat → Option Nat
  writers : Nat
  wlockOwner : Option Nat
  cvWaiters : List Nat
  cwaitL : List Nat
  cwFor : Nat → Nat × Nat
  wait : WaitK

def St.wdata (σ : St) : WData :=
  { tag := σ.tag, writers := σ.writers, wlockOwner := σ.wlockOwner, cvWaiters := σ.cvWaiters, cwaitL := σ.cwaitL,
    cwFor := σ.cwFor, wait := σ.wait }

@[simp] theorem wdata_setTh (σ : St) (t f) : (σ.setTh t f).wdata = σ.wdata := rfl
@[simp] theorem wdata_goto (σ : St) (t pc) : (σ.goto t pc).wdata = σ.wdata := rfl
@[simp] theorem wdata_gotoF (σ : St) (t pc f) : (σ.gotoF t pc f).wdata = σ.wdata := rfl
@[simp] theorem wdata_setHd (σ : St) (g f) : (σ.setHd g f).wdata = σ.wdata := rfl
@[simp] theorem wdata_flush (σ : St) (t) : (σ.flush t).wdata = σ.wdata := rfl

section helpers
variable (σ : St) (t : Nat)
@[simp] theorem afterNotify_wdata (k : Nat) : (afterNotify σ t k).wdata = σ.wdata := by
  unfold afterNotify; split <;> rfl
@[simp] theorem teardownStart_wdata (r : Res) : (teardownStart σ t r).wdata = σ.wdata := rfl
@[simp] theorem arcStep_wdata (r : Res) : (arcStep σ t r).wdata = σ.wdata := by
  unfold arcStep; simp only []; repeat' split
  all_goals rfl
@[simp] theorem startNotify_wdata (k : Nat) : (startNotify σ t k).wdata = σ.wdata := by
  unfold startNotify; split <;> first | rfl | exact afterNotify_wdata σ t k
@[simp] theorem sendDone_wdata (r : Res) : (sendDone σ t r).wdata = σ.wdata := by
  unfold sendDone; simp only []; repeat' split
  all_goals first | exact startNotify_wdata σ t _ | rfl
@[simp] theorem startWait_wdata (j seq : Nat) : (startWait σ t j seq).wdata = σ.wdata := by
  unfold startWait; simp only []; repeat' split
  all_goals rfl
@[simp] theorem recvDone_wdata (r : Res) (j : Nat) : (recvDone σ t r j).wdata = σ.wdata := by
  unfold recvDone; simp only []; repeat' split
  all_goals rfl
@[simp] theorem waitDone_wdata : (waitDone σ t).wdata = σ.wdata := by
  unfold waitDone; simp only []; repeat' split
  all_goals rfl
@[simp] theorem recvDropTail_wdata : (recvDropTail σ t).wdata = σ.wdata := by
  unfold recvDropTail; simp only []; repeat' split
  all_goals rfl
@[simp] theorem sendDropTail_wdata : (sendDropTail σ t).wdata = σ.wdata := by
  unfold sendDropTail; repeat' split
  all_goals rfl
@[simp] theorem mgrDone_wdata (k : MK) : (mgrDone σ t k).wdata = σ.wdata := by
  unfold mgrDone; simp only []; repeat' split
  all_goals first | rfl | exact sendDone_wdata σ t _ | (simp only [recvDropTail_wdata, sendDropTail_wdata]; done) | (simp only [recvDropTail_wdata, sendDropTail_wdata]; rfl)
@[simp] theorem freeEnd_wdata (k : MK) : (freeEnd σ t k).wdata = σ.wdata := by
  unfold freeEnd; (simp only [mgrDone_wdata]; try rfl)
@[simp] theorem freeTail_wdata (k : MK) : (freeTail σ t k).wdata = σ.wdata := by
  unfold freeTail; repeat' split
  all_goals first | rfl | (simp only [mgrDone_wdata]; try rfl)
@[simp] theorem startNotify2_wdata : (stepRun.startNotify2 σ t).wdata = σ.wdata := rfl
end helpers

@[simp] theorem stepLa2_wdata (σ0 σ : St) (t : Nat) (x : Th) (s : Nat) : (stepRun.stepLa2 σ0 σ t x s).2.wdata = σ.wdata := by
  unfold stepRun.stepLa2; simp only []; repeat' split
  all_goals rfl

/-- sources whose step may change the wake-up data -/
def PC.wSrc : PC → Bool
  | .ts _ _ | .cs1 | .ds1 | .nb1 _ | .nb2 _ | .wl _ _ | .c2 _ _ _ _ | .wcvw _ _ | .nf _ _ => true
  | _ => false

set_option maxHeartbeats 2000000 in
theorem stepRun_wdata_same (σ : St) (t inp : Nat) (h : (σ.th t).pc.wSrc = false) :
    (stepRun σ t inp).2.wdata = σ.wdata := by
  unfold stepRun
  simp only []
  split
  all_goals (first | (rename_i heq; rw [heq] at h; simp [PC.wSrc] at h; done) | skip)
  all_goals (repeat' split)
  all_goals first
    | (simp only [sendDone_wdata, recvDone_wdata, afterNotify_wdata, startNotify_wdata, teardownStart_wdata,
        startWait_wdata, waitDone_wdata, stepLa2_wdata, startNotify2_wdata, mgrDone_wdata, freeTail_wdata,
        freeEnd_wdata, recvDropTail_wdata, sendDropTail_wdata,
        wdata_setTh, wdata_goto, wdata_gotoF, wdata_setHd, wdata_flush]; done)
    | (simp only [sendDone_wdata, recvDone_wdata, afterNotify_wdata, startNotify_wdata, teardownStart_wdata,
        startWait_wdata, waitDone_wdata, stepLa2_wdata, startNotify2_wdata, mgrDone_wdata, freeTail_wdata,
        freeEnd_wdata, recvDropTail_wdata, sendDropTail_wdata,
        wdata_setTh, wdata_goto, wdata_gotoF, wdata_setHd, wdata_flush] <;> rfl)
    | rfl

/-- continuation codes of the sender-drop path -/
def MK.isDropS : MK → Bool
  | .rmTok 0 | .rmTokFree 0 => true
  | _ => false

/-- a sender that is between `writers -= 1` and its `notify` -/
def PC.dropPath : PC → Bool
  | .u1 k | .u2 k _ | .u3 k _ | .f1 k _ | .f2 k | .f3 k | .f4 k _ _ | .f5 k | .f7 k | .f8 k | .f9 k _ | .f10 k => k.isDropS
  | .rt1 0 => true
  | _ => false

/-- pending notifier of the condvar (`BlockingWait`) -/
def PC.pendB : PC → Bool
  | .od _ | .nb1 _ | .nb2 _ => true
  | pc => pc.dropPath

/-- pending notifier of the consumers' task list (`FutWait`) -/
def PC.pendF : PC → Bool
  | .od _ | .nf false _ => true
  | pc => pc.dropPath

/-- program points inside the critical section of the condvar's mutex -/
def PC.wHeld : PC → Bool
  | .nb2 _ | .c1 _ _ .locked | .c2 _ _ .locked _ | .wcvw _ _ => true
  | _ => false

end MQ
