import MQ.Inv.PinRun2
/-! # PinInv — value write, commits, new streams; the dispatcher -/
set_option linter.unusedSimpArgs false
set_option linter.unusedVariables false
set_option maxHeartbeats 4000000
namespace MQ

/-- the value write -/
theorem pin_run_wr {σ : St} (x inp h : Nat) (o : Bool) (hb : σ.bcast = true) (P : PinInv σ) (I : RInv σ) (hm : ModeOK σ)
    (hpc : (σ.th x).pc = .wr h o) : PinInv (stepRun σ x inp).2 := by
  have Lx := I.loc x; simp only [Loc, hpc] at Lx
  obtain ⟨w1, w2, w3, _⟩ := Lx
  apply pin_wr x h (some (σ.th x).v) P (fun u hu => stepRun_th σ x inp u hu) (by pin_f hpc) (by pin_f hpc) (by pin_f hpc)
    (by pin_f hpc) (by pin_f hpc) (by pin_f hpc) ⟨o, hpc⟩
  · simp only [stepRun, hpc]; simp [PC.pcls, PC.pinPos, PC.rdPos, PC.wPos, PC.sgPos, St.goto, St.setTh, St.flush, upd]
  · intro t p c ht hmod
    have hreg := hm.regd t (by rw [ht]; rfl)
    have hp := P.sgp t p (by rw [ht]; rfl)
    have Lt := I.loc t; simp only [Loc, ht] at Lt
    have h1 := w2 _ hreg
    have h2 := I.g.win _ hreg
    have h3 := Lt.1.2 (by simp only [St.ring]; omega)
    simp only [St.ring] at h1 h2 h3 w1 w3
    rw [hp] at h1 h2
    have e := mod_window_inj hmod (by omega) (by omega)
    subst e; exact w3 h3

theorem pcls_of_neutral {pc : PC} (h : pc.neutral = true) : pc.pcls = (none, none, none, none, false) := by
  have := neutral_punk h
  simpa [PC.punk] using this

/-- a commit through `recvDone`: the stream's position moves by one -/
theorem pin_commit {σ : St} (x inp p : Nat) (dl : Nat → List Nat) (r : Res) (j : Nat) (P : PinInv σ) (M : MInv σ)
    (hx : (σ.th x).pc.recvOp = true) (hold : (σ.th x).pc.pinPos = none)
    (e : (stepRun σ x inp).2 = recvDone ({ σ.flush x with pos := upd σ.pos (σ.th x).s (p + 1), dlv := dl }) x r j) :
    PinInv (stepRun σ x inp).2 := by
  have hr := recvDone_ring ({ σ.flush x with pos := upd σ.pos (σ.th x).s (p + 1), dlv := dl }) x r j
  have ha := recvDone_paux ({ σ.flush x with pos := upd σ.pos (σ.th x).s (p + 1), dlv := dl }) x r j
  apply pin_pos x (σ.th x).s (p + 1) P (fun u hu => stepRun_th σ x inp u hu)
  · rw [e]; exact congrArg Ring.N hr
  · rw [e]; exact congrArg PAux.ref ha
  · rw [e]; exact congrArg Ring.cont hr
  · rw [e]; exact congrArg Ring.pos hr
  · rw [e]; exact congrArg Ring.head hr
  · rw [e]; exact congrArg PAux.torn ha
  · exact hold
  · rw [e]; exact pcls_of_neutral (recvDone_neutral _ x r j)
  · exact sg_alone M hx

theorem pin_run_r9 {σ : St} (x inp p : Nat) (sg : Bool) (c : Option Nat) (hb : σ.bcast = true) (P : PinInv σ) (M : MInv σ)
    (hpc : (σ.th x).pc = .r9 p sg c) : PinInv (stepRun σ x inp).2 := by
  have hx : (σ.th x).pc.recvOp = true := by rw [hpc]; rfl
  have hold : (σ.th x).pc.pinPos = none := by rw [hpc]; rfl
  by_cases hs : (σ.th x).single = true
  · exact pin_commit x inp p _ _ _ P M hx hold (by simp only [stepRun, hpc, hs, if_true]; rfl)
  · by_cases hk : σ.pos (σ.th x).s = p
    · exact pin_commit x inp p _ _ _ P M hx hold (by simp only [stepRun, hpc, hs, hk, if_true, if_false, Bool.false_eq_true]; rfl)
    · cases sg <;>
      · apply pin_mono x P (fun u hu => stepRun_th σ x inp u hu)
          (by simp only [stepRun, hpc, hs, hk, hb, if_true, if_false, Bool.false_eq_true]; rfl)
          (by simp only [stepRun, hpc, hs, hk, hb, if_true, if_false, Bool.false_eq_true]; rfl)
          (by simp only [stepRun, hpc, hs, hk, hb, if_true, if_false, Bool.false_eq_true]; rfl)
          (by simp only [stepRun, hpc, hs, hk, hb, if_true, if_false, Bool.false_eq_true]; rfl)
          (by simp only [stepRun, hpc, hs, hk, hb, if_true, if_false, Bool.false_eq_true]; rfl)
          (by simp only [stepRun, hpc, hs, hk, hb, if_true, if_false, Bool.false_eq_true]; rfl)
          (stepRun_sfld σ x inp)
        all_goals
          (try rw [hpc])
          simp only [stepRun, hpc, hs, hk, hb, if_true, if_false, Bool.false_eq_true]
          simp [PC.pinPos, PC.rdPos, PC.wPos, PC.sgPos, PC.isHd, St.goto, St.gotoF, St.flush, St.setTh, St.setHd, upd]

theorem pin_run_v4 {σ : St} (x inp p : Nat) (c : Option Nat) (hb : σ.bcast = true) (P : PinInv σ) (M : MInv σ)
    (hpc : (σ.th x).pc = .v4 p c) : PinInv (stepRun σ x inp).2 :=
  pin_commit x inp p _ _ _ P M (by rw [hpc]; rfl) (by rw [hpc]; rfl) (by simp only [stepRun, hpc]; rfl)

theorem pin_run_a3 {σ : St} (x inp c raw ng : Nat) (hb : σ.bcast = true) (P : PinInv σ) (M : MInv σ)
    (hpc : (σ.th x).pc = .a3 c raw ng) : PinInv (stepRun σ x inp).2 := by
  by_cases hc : σ.cur = c
  · subst hc
    apply pin_pos x (σ.th x).ns raw P (fun u hu => stepRun_th σ x inp u hu)
      (by simp only [stepRun, hpc, if_true]; rfl) (by simp only [stepRun, hpc, if_true]; rfl)
      (by simp only [stepRun, hpc, if_true]; rfl) (by simp only [stepRun, hpc, if_true]; rfl)
      (by simp only [stepRun, hpc, if_true]; rfl) (by simp only [stepRun, hpc, if_true]; rfl)
      (by rw [hpc]; rfl)
    · simp only [stepRun, hpc, if_true]
      simp [PC.pcls, PC.pinPos, PC.rdPos, PC.wPos, PC.sgPos, St.gotoF, St.setTh, St.flush, upd]
    · intro t p htx hsg hs
      obtain ⟨f1, f2⟩ := sgPos_sgFlag hsg
      have hcl := (M.thr t).sgl (by
        cases hpt : (σ.th t).pc <;> rw [hpt] at f1 <;> simp [Th.sgOn, hpt, PC.sgFlag] at f1 ⊢ <;> exact f1)
      have := ((M.thr x).add (by rw [hpc]; rfl)).2.2.1
      rw [← hs, hcl] at this; cases this
  · apply pin_mono x P (fun u hu => stepRun_th σ x inp u hu)
      (by simp only [stepRun, hpc, hc, if_false]; rfl) (by simp only [stepRun, hpc, hc, if_false]; rfl)
      (by simp only [stepRun, hpc, hc, if_false]; rfl) (by simp only [stepRun, hpc, hc, if_false]; rfl)
      (by simp only [stepRun, hpc, hc, if_false]; rfl) (by simp only [stepRun, hpc, hc, if_false]; rfl)
      (stepRun_sfld σ x inp)
    all_goals
      (try rw [hpc])
      simp only [stepRun, hpc, hc, if_false]
      simp [PC.pinPos, PC.rdPos, PC.wPos, PC.sgPos, PC.isHd, St.goto, St.gotoF, St.flush, St.setTh, St.setHd, upd]

/-- **PinInv is preserved by every `run` step** of a broadcast queue -/
theorem pin_stepRun {σ : St} (x inp : Nat) (hb : σ.bcast = true) (P : PinInv σ) (I : RInv σ) (M : MInv σ) (hm : ModeOK σ) :
    PinInv (stepRun σ x inp).2 := by
  by_cases hn : (σ.th x).pc.srcNeutral = true
  · exact pin_run_neutral x inp P hn
  cases hpc : (σ.th x).pc
  all_goals first | (rw [hpc] at hn; exact absurd rfl hn) | skip
  case sh m => exact pin_run_mono1 x inp hb P (by rw [hpc]; trivial)
  case st m h => exact pin_run_mono1 x inp hb P (by rw [hpc]; trivial)
  case g1 m h tl => exact pin_run_mono1 x inp hb P (by rw [hpc]; trivial)
  case g2 m h tl p i md => exact pin_run_mono1 x inp hb P (by rw [hpc]; trivial)
  case g3 m h tl p md => exact pin_run_mono1 x inp hb P (by rw [hpc]; trivial)
  case tcs h c => exact pin_run_mono1 x inp hb P (by rw [hpc]; trivial)
  case tcc h tl c => exact pin_run_mono1 x inp hb P (by rw [hpc]; trivial)
  case tcl h => exact pin_run_mono1 x inp hb P (by rw [hpc]; trivial)
  case ts h o => exact pin_run_mono1 x inp hb P (by rw [hpc]; trivial)
  case tg h => exact pin_run_mono1 x inp hb P (by rw [hpc]; trivial)
  case la1 => exact pin_run_mono2 x inp hb P (by rw [hpc]; trivial)
  case la2 => exact pin_run_mono2 x inp hb P (by rw [hpc]; trivial)
  case is1 => exact pin_run_mono2 x inp hb P (by rw [hpc]; trivial)
  case v1 p => exact pin_run_mono2 x inp hb P (by rw [hpc]; trivial)
  case v2 p => exact pin_run_mono2 x inp hb P (by rw [hpc]; trivial)
  case v3 p => exact pin_run_mono2 x inp hb P (by rw [hpc]; trivial)
  case vd p c => exact pin_run_mono2 x inp hb P (by rw [hpc]; trivial)
  case rr1 => exact pin_run_mono2 x inp hb P (by rw [hpc]; trivial)
  case rr2 c ng => exact pin_run_mono2 x inp hb P (by rw [hpc]; trivial)
  case a1 => exact pin_run_mono2 x inp hb P (by rw [hpc]; trivial)
  case a2 c => exact pin_run_mono2 x inp hb P (by rw [hpc]; trivial)
  case r1 p sg => exact pin_run_mono2 x inp hb P (by rw [hpc]; trivial)
  case r2 p sg => exact pin_run_mono2 x inp hb P (by rw [hpc]; trivial)
  case r3 p sg => exact pin_run_mono2 x inp hb P (by rw [hpc]; trivial)
  case r3b p sg => exact pin_run_mono2 x inp hb P (by rw [hpc]; trivial)
  case r7 sg => exact pin_run_mono2 x inp hb P (by rw [hpc]; trivial)
  case fg p sg => exact pin_run_mono2 x inp hb P (by rw [hpc]; trivial)
  case rd p sg => exact pin_run_mono2 x inp hb P (by rw [hpc]; trivial)
  case r4 p => exact pin_run_r4 x inp p hb P hpc
  case r5 p sg => exact pin_run_r5 x inp p sg hb P I hm hpc
  case r6 p => exact pin_run_r6 x inp p hb P hpc
  case r8 p c => exact pin_run_r8 x inp p c hb P hpc
  case rc p sg c => exact pin_run_rc x inp p sg c hb P hpc
  case rf m h => exact pin_run_rf x inp h m hb P hpc
  case hd m h => exact pin_run_hd x inp h m hb P I hpc
  case wr h o => exact pin_run_wr x inp h o hb P I hm hpc
  case vw p c => exact pin_run_vw x inp p c hb P I hm hpc
  case r9 p sg c => exact pin_run_r9 x inp p sg c hb P M hpc
  case v4 p c => exact pin_run_v4 x inp p c hb P M hpc
  case a3 c raw ng => exact pin_run_a3 x inp c raw ng hb P M hpc

end MQ
