import MQ.Inv.ModeMain
import MQ.Inv.PinRun
/-!
# Frame facts for the removal of a handle (C11): `remove_reader` and `remove_token` touch no queue data
-/
namespace MQ

/-- program points of a receiver handle's removal (`drop`, `unsubscribe`): the consumer count's decrement, for the
last handle of a stream the removal of the stream from the list (`remove_reader`) with the release of the old list and
of the position block through the memory manager, and `remove_token` (the latter also as run by a sender's drop) -/
def PC.inRecvRemove : PC → Bool
  | .un1 | .dr1 | .rr1 | .rr2 _ _ | .rr3 _ | .rr4 | .rr5 | .rt1 _ => true
  | .u1 (.rmTok _) | .u2 (.rmTok _) _ | .u3 (.rmTok _) _ => true
  | .f1 k _ | .f2 k | .f3 k | .f4 k _ _ | .f5 k | .f7 k | .f8 k | .f9 k _ | .f10 k =>
      (match k with | .rmFree1 | .rmFree2 | .rmTokFree _ => true | _ => false)
  | _ => false

local macro "rm_fin" hpc:ident ha:ident : tactic =>
  `(tactic| (rw [$hpc:ident] at $ha:ident; first
      | (simp [PC.inRecvRemove] at $ha:ident; done)
      | (pin_unf $hpc:ident <;> (repeat' split) <;>
          simp_all [PC.inRecvRemove, St.goto, St.gotoF, St.flush, St.setTh, St.setHd, upd])))

set_option maxHeartbeats 4000000 in
theorem removal_touches_no_data (σ : St) (t inp : Nat) (ha : (σ.th t).pc.inRecvRemove = true) :
    let σ' := (stepRun σ t inp).2
    σ'.head = σ.head ∧ σ'.tc = σ.tc ∧ σ'.writers = σ.writers ∧ σ'.tag = σ.tag ∧ σ'.cont = σ.cont ∧ σ'.ref = σ.ref ∧
    σ'.log = σ.log ∧ σ'.drops = σ.drops ∧ σ'.pos = σ.pos ∧ σ'.dlv = σ.dlv ∧ σ'.start = σ.start ∧
    (∀ s', s' ≠ (σ.th t).s → σ'.ncons s' = σ.ncons s') := by
  cases hpc : (σ.th t).pc
  case u1 k => cases k <;> rm_fin hpc ha
  case u2 k e => cases k <;> rm_fin hpc ha
  case u3 k e => cases k <;> rm_fin hpc ha
  case f1 k o => cases k <;> rm_fin hpc ha
  case f2 k => cases k <;> rm_fin hpc ha
  case f3 k => cases k <;> rm_fin hpc ha
  case f4 k e i => cases k <;> rm_fin hpc ha
  case f5 k => cases k <;> rm_fin hpc ha
  case f7 k => cases k <;> rm_fin hpc ha
  case f8 k => cases k <;> rm_fin hpc ha
  case f9 k c => cases k <;> rm_fin hpc ha
  case f10 k => cases k <;> rm_fin hpc ha
  all_goals rm_fin hpc ha

local macro "rm_fin2" hpc:ident ha:ident : tactic =>
  `(tactic| (rw [$hpc:ident] at $ha:ident; first
      | (simp [PC.inRecvRemove] at $ha:ident; done)
      | (pin_unf $hpc:ident <;> (repeat' split) <;>
          simp_all [PC.inRecvRemove, St.goto, St.gotoF, St.flush, St.setTh, St.setHd, upd])))

set_option maxHeartbeats 4000000 in
theorem removal_stays_in_its_program (σ : St) (t inp : Nat) (ha : (σ.th t).pc.inRecvRemove = true) :
    ((stepRun σ t inp).2.th t).pc.inRecvRemove = true ∨ (∃ b k, ((stepRun σ t inp).2.th t).pc = .nf b k) ∨ (∃ k, ((stepRun σ t inp).2.th t).pc = .nb1 k) ∨
    (∃ r, ((stepRun σ t inp).2.th t).pc = .arc r) := by
  cases hpc : (σ.th t).pc
  case u1 k => cases k <;> rm_fin2 hpc ha
  case u2 k e => cases k <;> rm_fin2 hpc ha
  case u3 k e => cases k <;> rm_fin2 hpc ha
  case f1 k o => cases k <;> rm_fin2 hpc ha
  case f2 k => cases k <;> rm_fin2 hpc ha
  case f3 k => cases k <;> rm_fin2 hpc ha
  case f4 k e i => cases k <;> rm_fin2 hpc ha
  case f5 k => cases k <;> rm_fin2 hpc ha
  case f7 k => cases k <;> rm_fin2 hpc ha
  case f8 k => cases k <;> rm_fin2 hpc ha
  case f9 k c => cases k <;> rm_fin2 hpc ha
  case f10 k => cases k <;> rm_fin2 hpc ha
  all_goals rm_fin2 hpc ha

end MQ
