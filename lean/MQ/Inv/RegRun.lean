import MQ.Inv.RegInv
/-! # RegInv is preserved by every step of `Core`, with no hypothesis -/
set_option linter.unusedSimpArgs false
set_option linter.unusedVariables false
namespace MQ

theorem reg_fields {σ σ' : St} (h : σ'.ereg = σ.ereg) :
    σ'.cur = σ.cur ∧ σ'.groups = σ.groups ∧ σ'.nextGrp = σ.nextGrp ∧ σ'.est = σ.est ∧ σ'.sused = σ.sused :=
  ⟨congrArg EReg.cur h, congrArg EReg.groups h, congrArg EReg.nextGrp h, congrArg EReg.est h, congrArg EReg.sused h⟩

theorem RLoc_congr {σ σ' : St} {y : Th} (h : σ'.ereg = σ.ereg) (L : RLoc σ y) : RLoc σ' y := by
  obtain ⟨h1, h2, h3, h4, h5⟩ := reg_fields h
  obtain ⟨pc, g', v', outer, ff, pn, ng, ns, s, single, aux⟩ := y
  cases pc <;> simp only [RLoc, h1, h2, h3, h4, h5] at L ⊢ <;> exact L

/-- the thread table after a step of `x` -/
theorem th_cases (σ : St) (x inp u : Nat) : (stepRun σ x inp).2.th u = if u = x then (stepRun σ x inp).2.th x else σ.th u := by
  split
  · rename_i h; rw [h]
  · rename_i h; exact stepRun_th σ x inp u h

/-- generic: registry data unchanged, `x` moves to a record whose facts hold, keeping its `ns` while adding -/
theorem reginv_same {σ : St} (x inp : Nat) (I : RegInv σ) (hr : (stepRun σ x inp).2.ereg = σ.ereg)
    (hself : RLoc σ ((stepRun σ x inp).2.th x))
    (hadd : ((stepRun σ x inp).2.th x).pc.addPC = true →
      (σ.th x).pc.addPC = true ∧ ((stepRun σ x inp).2.th x).ns = (σ.th x).ns) : RegInv (stepRun σ x inp).2 := by
  obtain ⟨h1, h2, h3, h4, h5⟩ := reg_fields hr
  refine ⟨by rw [h1, h3]; exact I.curlt, by rw [h1, h2, h4]; exact I.regest, by rw [h4, h5]; exact I.estsub, ?_, ?_⟩
  · intro u; rw [th_cases]; split
    · exact RLoc_congr hr hself
    · exact RLoc_congr hr (I.loc u)
  · intro t1 t2 a1 a2 e
    rw [th_cases] at a1 a2 e
    rw [th_cases σ x inp t2] at e
    by_cases e1 : t1 = x <;> by_cases e2 : t2 = x <;> simp only [e1, e2, if_true, if_false] at a1 a2 e
    · rw [e1, e2]
    · obtain ⟨b1, b2⟩ := hadd a1
      rw [e1]; exact I.nsinj x t2 b1 a2 (by rw [← b2]; exact e)
    · obtain ⟨b1, b2⟩ := hadd a2
      rw [e2]; exact I.nsinj t1 x a1 b1 (by rw [← b2] ; exact e)
    · exact I.nsinj t1 t2 a1 a2 e

theorem not_rsrc_reg {pc : PC} (h : pc.rSrc = false) :
    ∀ c raw ng, pc ≠ .a2 c ∧ pc ≠ .a3 c raw ng ∧ pc ≠ .rr1 ∧ pc ≠ .rr2 c ng := by
  intro c raw ng; cases pc <;> simp [PC.rSrc] at h ⊢

theorem not_rsrc_add {pc : PC} (h : pc.rSrc = false) : pc.addPC = false := by
  cases pc <;> simp [PC.rSrc, PC.addPC] at h ⊢

theorem rphase_of_add {pc : PC} (h : pc.addPC = true) : pc.rPhase = true := by
  cases pc <;> simp [PC.rPhase, PC.addPC] at h ⊢

/-- steps outside `rSrc` -/
theorem reginv_run_plain {σ : St} (x inp : Nat) (I : RegInv σ) (hs : (σ.th x).pc.rSrc = false) :
    RegInv (stepRun σ x inp).2 := by
  have hp := stepRun_rplain σ x inp hs
  apply reginv_same x inp I (stepRun_ereg_same σ x inp (not_rsrc_reg hs)) (RLoc_of_not_phase hp)
  intro h; rw [rphase_of_add h] at hp; cases hp

macro "rsimp" : tactic =>
  `(tactic| simp [RLoc, St.goto, St.gotoF, St.flush, St.setTh, St.setHd, upd, PC.addPC] at *)

theorem reginv_run_g1 {σ : St} (x inp : Nat) (m : Bool) (h tl : Nat) (I : RegInv σ)
    (hpc : (σ.th x).pc = .g1 m h tl) : RegInv (stepRun σ x inp).2 := by
  apply reginv_same x inp I
  · simp only [stepRun, hpc]; split <;> rfl
  · simp only [stepRun, hpc]; split <;> rsimp
  · simp only [stepRun, hpc]; split <;> rsimp

theorem reginv_run_g2 {σ : St} (x inp : Nat) (m : Bool) (h tl p i md : Nat) (I : RegInv σ)
    (hpc : (σ.th x).pc = .g2 m h tl p i md) : RegInv (stepRun σ x inp).2 := by
  have L := I.loc x; simp only [RLoc, hpc] at L
  apply reginv_same x inp I
  · simp only [stepRun, hpc]; (repeat' split) <;> rfl
  · simp only [stepRun, hpc]; (repeat' split) <;> rsimp <;> exact L
  · simp only [stepRun, hpc]; (repeat' split) <;> rsimp

theorem reginv_run_a1 {σ : St} (x inp : Nat) (I : RegInv σ)
    (hpc : (σ.th x).pc = .a1) : RegInv (stepRun σ x inp).2 := by
  have L := I.loc x; simp only [RLoc, hpc] at L
  apply reginv_same x inp I
  · simp only [stepRun, hpc]; rfl
  · simp only [stepRun, hpc]; rsimp; exact L
  · simp only [stepRun, hpc]; rsimp

/-- facts survive the allocation of a new (unpublished) group -/
theorem RLoc_alloc {σ σ' : St} {y : Th} {l : List Nat} (hlt : σ.cur < σ.nextGrp)
    (hg : σ'.groups = upd σ.groups σ.nextGrp l) (hn : σ'.nextGrp = σ.nextGrp + 1)
    (hc : σ'.cur = σ.cur) (he : σ'.est = σ.est) (hsu : σ'.sused = σ.sused) (L : RLoc σ y) : RLoc σ' y := by
  obtain ⟨pc, g', v', outer, ff, pn, ng, ns, s, single, aux⟩ := y
  cases pc <;> simp only [RLoc, hc, he, hsu, hn] at L ⊢ <;> (try exact L)
  case a3 c raw ng' =>
    obtain ⟨l1, l2, l3, l4, l5⟩ := L
    refine ⟨l1, l2, l3, by omega, ?_⟩
    rw [hg]; simp only [upd]
    rw [if_neg (by omega), if_neg (by omega)]; exact l5
  case rr2 c ng' =>
    obtain ⟨l3, l4, l5⟩ := L
    refine ⟨l3, by omega, ?_⟩
    rw [hg]; simp only [upd]
    rw [if_neg (by omega), if_neg (by omega)]; exact l5

/-- generic allocation step -/
theorem reginv_alloc {σ : St} (x inp : Nat) (I : RegInv σ) {l : List Nat}
    (hg : (stepRun σ x inp).2.groups = upd σ.groups σ.nextGrp l) (hn : (stepRun σ x inp).2.nextGrp = σ.nextGrp + 1)
    (hc : (stepRun σ x inp).2.cur = σ.cur) (he : (stepRun σ x inp).2.est = σ.est) (hsu : (stepRun σ x inp).2.sused = σ.sused)
    (hself : RLoc (stepRun σ x inp).2 ((stepRun σ x inp).2.th x))
    (hadd : ((stepRun σ x inp).2.th x).pc.addPC = true →
      (σ.th x).pc.addPC = true ∧ ((stepRun σ x inp).2.th x).ns = (σ.th x).ns) : RegInv (stepRun σ x inp).2 := by
  have hlt := I.curlt
  have hgc : (stepRun σ x inp).2.groups (stepRun σ x inp).2.cur = σ.groups σ.cur := by
    rw [hg, hc]; simp only [upd]; rw [if_neg (by omega)]
  refine ⟨by rw [hc, hn]; omega, by rw [hgc, he]; exact I.regest, by rw [he, hsu]; exact I.estsub, ?_, ?_⟩
  · intro u; rw [th_cases]; split
    · exact hself
    · exact RLoc_alloc hlt hg hn hc he hsu (I.loc u)
  · intro t1 t2 a1 a2 e
    rw [th_cases] at a1 a2 e
    rw [th_cases σ x inp t2] at e
    by_cases e1 : t1 = x <;> by_cases e2 : t2 = x <;> simp only [e1, e2, if_true, if_false] at a1 a2 e
    · rw [e1, e2]
    · obtain ⟨b1, b2⟩ := hadd a1
      rw [e1]; exact I.nsinj x t2 b1 a2 (by rw [← b2]; exact e)
    · obtain ⟨b1, b2⟩ := hadd a2
      rw [e2]; exact I.nsinj t1 x a1 b1 (by rw [← b2] ; exact e)
    · exact I.nsinj t1 t2 a1 a2 e

theorem reginv_run_a2 {σ : St} (x inp : Nat) (c : Nat) (I : RegInv σ)
    (hpc : (σ.th x).pc = .a2 c) : RegInv (stepRun σ x inp).2 := by
  have L := I.loc x; simp only [RLoc, hpc] at L
  have hlt := I.curlt
  apply reginv_alloc x inp I (l := σ.groups c ++ [(σ.th x).ns])
  · simp only [stepRun, hpc]; rfl
  · simp only [stepRun, hpc]; rfl
  · simp only [stepRun, hpc]; rfl
  · simp only [stepRun, hpc]; rfl
  · simp only [stepRun, hpc]; rfl
  · simp only [stepRun, hpc]
    simp only [RLoc, St.gotoF, St.flush, St.setTh, upd_same]
    refine ⟨L.1, L.2.1, by omega, by omega, ?_⟩
    simp only [upd]; rw [if_neg (by omega)]
  · simp only [stepRun, hpc]; rsimp

theorem reginv_run_rr1 {σ : St} (x inp : Nat) (I : RegInv σ)
    (hpc : (σ.th x).pc = .rr1) : RegInv (stepRun σ x inp).2 := by
  have hlt := I.curlt
  apply reginv_alloc x inp I (l := (σ.groups σ.cur).filter (· != (σ.th x).s))
  · simp only [stepRun, hpc]; rfl
  · simp only [stepRun, hpc]; rfl
  · simp only [stepRun, hpc]; rfl
  · simp only [stepRun, hpc]; rfl
  · simp only [stepRun, hpc]; rfl
  · simp only [stepRun, hpc]
    simp only [RLoc, St.goto, St.flush, St.setTh, upd_same]
    refine ⟨by omega, by omega, ?_⟩
    simp only [upd]; rw [if_neg (by omega)]
  · simp only [stepRun, hpc]; rsimp

/-- facts survive the publication of a newer group; a stream id that gets established must not be the one the
thread is about to add -/
theorem RLoc_pub {σ σ' : St} {y : Th} (hcur : σ.cur ≤ σ'.cur)
    (hg : σ'.groups = σ.groups) (hn : σ'.nextGrp = σ.nextGrp) (hsu : σ'.sused = σ.sused)
    (he : y.pc.addPC = true → σ'.est y.ns = σ.est y.ns) (L : RLoc σ y) : RLoc σ' y := by
  obtain ⟨pc, g', v', outer, ff, pn, ng, ns, s, single, aux⟩ := y
  cases pc <;> simp only [RLoc, hg, hn, hsu] at L ⊢ <;> (try exact L)
  case g2 m h tl p i md => omega
  case a1 => have := he rfl; simp only [] at this; rw [this]; exact L
  case a2 c => have := he rfl; simp only [] at this; rw [this]; exact ⟨L.1, L.2.1, by omega⟩
  case a3 c raw ng' => have := he rfl; simp only [] at this; rw [this]; exact L

theorem reginv_run_a3 {σ : St} (x inp : Nat) (c raw ng : Nat) (I : RegInv σ)
    (hpc : (σ.th x).pc = .a3 c raw ng) : RegInv (stepRun σ x inp).2 := by
  have L := I.loc x; simp only [RLoc, hpc] at L
  obtain ⟨l1, l2, l3, l4, l5⟩ := L
  by_cases hc : σ.cur = c
  · have e1 : (stepRun σ x inp).2.cur = ng ∧ (stepRun σ x inp).2.groups = σ.groups ∧ (stepRun σ x inp).2.nextGrp = σ.nextGrp ∧
        (stepRun σ x inp).2.est = upd σ.est (σ.th x).ns true ∧ (stepRun σ x inp).2.sused = σ.sused ∧
        ((stepRun σ x inp).2.th x).pc = .f1 .addFree (.grp c) := by
      simp only [stepRun, hpc, hc, if_true]
      exact ⟨rfl, rfl, rfl, rfl, rfl, by simp [St.gotoF, St.flush, St.setTh, upd]⟩
    obtain ⟨t1, t2, t3, t4, t5, t6⟩ := e1
    refine ⟨by rw [t1, t3]; exact l4, ?_, ?_, ?_, ?_⟩
    · intro s hs
      rw [t1, t2, l5, ← hc] at hs
      rw [t4]; simp only [upd]; split
      · rfl
      · rcases List.mem_append.mp hs with h | h
        · exact I.regest s h
        · simp only [List.mem_singleton] at h; contradiction
    · intro s hs
      rw [t4] at hs; rw [t5]
      simp only [upd] at hs; split at hs
      · rename_i h; rw [h]; exact l1
      · exact I.estsub s hs
    · intro u; rw [th_cases]; split
      · exact RLoc_of_not_phase (by rw [t6]; rfl)
      · rename_i hu
        apply RLoc_pub (by rw [t1]; omega) t2 t3 t5 ?_ (I.loc u)
        intro ha
        rw [t4]; simp only [upd]; rw [if_neg]
        intro e
        exact hu (I.nsinj u x ha (by rw [hpc]; rfl) e)
    · intro u1 u2 a1 a2 e
      rw [th_cases] at a1 a2 e
      rw [th_cases σ x inp u2] at e
      by_cases e1 : u1 = x <;> by_cases e2 : u2 = x <;> simp only [e1, e2, if_true, if_false] at a1 a2 e
      · rw [e1, e2]
      · rw [t6] at a1; cases a1
      · rw [t6] at a2; cases a2
      · exact I.nsinj u1 u2 a1 a2 e
  · apply reginv_same x inp I
    · simp only [stepRun, hpc, hc, if_false]; rfl
    · simp only [stepRun, hpc, hc, if_false]
      simp only [RLoc, St.gotoF, St.flush, St.setTh, upd_same]
      exact ⟨l1, l2, Nat.le_refl _⟩
    · simp only [stepRun, hpc, hc, if_false]; rsimp

theorem reginv_run_rr2 {σ : St} (x inp : Nat) (c ng : Nat) (I : RegInv σ)
    (hpc : (σ.th x).pc = .rr2 c ng) : RegInv (stepRun σ x inp).2 := by
  have L := I.loc x; simp only [RLoc, hpc] at L
  obtain ⟨l3, l4, l5⟩ := L
  have hlt := I.curlt
  by_cases hc : σ.cur = c
  · have e1 : (stepRun σ x inp).2.cur = ng ∧ (stepRun σ x inp).2.groups = σ.groups ∧ (stepRun σ x inp).2.nextGrp = σ.nextGrp ∧
        (stepRun σ x inp).2.est = σ.est ∧ (stepRun σ x inp).2.sused = σ.sused ∧
        ((stepRun σ x inp).2.th x).pc.rPhase = false ∧ ((stepRun σ x inp).2.th x).pc.addPC = false := by
      simp only [stepRun, hpc, hc, if_true]
      split <;> exact ⟨rfl, rfl, rfl, rfl, rfl, by simp [St.gotoF, St.flush, St.setTh, upd, PC.rPhase],
        by simp [St.gotoF, St.flush, St.setTh, upd, PC.addPC]⟩
    obtain ⟨t1, t2, t3, t4, t5, t6, t7⟩ := e1
    refine ⟨by rw [t1, t3]; exact l4, ?_, by rw [t4, t5]; exact I.estsub, ?_, ?_⟩
    · intro s hs
      rw [t1, t2, l5, ← hc] at hs
      rw [t4]; exact I.regest s (List.mem_filter.mp hs).1
    · intro u; rw [th_cases]; split
      · exact RLoc_of_not_phase t6
      · exact RLoc_pub (by rw [t1]; omega) t2 t3 t5 (fun _ => by rw [t4]) (I.loc u)
    · intro u1 u2 a1 a2 e
      rw [th_cases] at a1 a2 e
      rw [th_cases σ x inp u2] at e
      by_cases e1 : u1 = x <;> by_cases e2 : u2 = x <;> simp only [e1, e2, if_true, if_false] at a1 a2 e
      · rw [e1, e2]
      · rw [t7] at a1; cases a1
      · rw [t7] at a2; cases a2
      · exact I.nsinj u1 u2 a1 a2 e
  · apply reginv_alloc x inp I (l := (σ.groups σ.cur).filter (· != (σ.th x).s))
    · simp only [stepRun, hpc, hc, if_false]; rfl
    · simp only [stepRun, hpc, hc, if_false]; rfl
    · simp only [stepRun, hpc, hc, if_false]; rfl
    · simp only [stepRun, hpc, hc, if_false]; rfl
    · simp only [stepRun, hpc, hc, if_false]; rfl
    · simp only [stepRun, hpc, hc, if_false]
      simp only [RLoc, St.goto, St.flush, St.setTh, upd_same]
      refine ⟨by omega, by omega, ?_⟩
      simp only [upd]; rw [if_neg (by omega)]
    · simp only [stepRun, hpc, hc, if_false]; rsimp

/-- RegInv is preserved by every `run` step -/
theorem reginv_stepRun {σ : St} (x inp : Nat) (I : RegInv σ) : RegInv (stepRun σ x inp).2 := by
  cases hs : (σ.th x).pc.rSrc
  · exact reginv_run_plain x inp I hs
  · cases hpc : (σ.th x).pc <;> rw [hpc] at hs <;> (try (simp [PC.rSrc] at hs; done))
    case g1 m h tl => exact reginv_run_g1 x inp m h tl I hpc
    case g2 m h tl p i md => exact reginv_run_g2 x inp m h tl p i md I hpc
    case a1 => exact reginv_run_a1 x inp I hpc
    case a2 c => exact reginv_run_a2 x inp c I hpc
    case a3 c raw ng => exact reginv_run_a3 x inp c raw ng I hpc
    case rr1 => exact reginv_run_rr1 x inp I hpc
    case rr2 c ng => exact reginv_run_rr2 x inp c ng I hpc

end MQ
