import MQ.Inv.ModeLab
/-! # ModeInv — the `call` label -/
set_option linter.unusedSimpArgs false
set_option linter.unusedVariables false
set_option maxHeartbeats 8000000
namespace MQ

/-- the outer calls that create a handle -/
def Outer.mk (o : Outer) : Prop := o = .clone ∨ o = .addStream

theorem callPrep_facts (σ : St) (t : Nat) (o : Outer) (g v ng ns : Nat) :
    (callPrep σ t o g v ng ns).hs = upd σ.hs g { σ.hs g with busy := true } ∧
    (callPrep σ t o g v ng ns).sl = σ.sl ∧ (callPrep σ t o g v ng ns).cl = σ.cl ∧
    (callPrep σ t o g v ng ns).est = σ.est ∧ (callPrep σ t o g v ng ns).wait = σ.wait ∧
    (callPrep σ t o g v ng ns).writers = σ.writers ∧ (callPrep σ t o g v ng ns).ncons = σ.ncons ∧
    (callPrep σ t o g v ng ns).groups = σ.groups ∧ (callPrep σ t o g v ng ns).cur = σ.cur ∧ (∀ u, u ≠ t → (callPrep σ t o g v ng ns).th u = σ.th u) ∧
    (callPrep σ t o g v ng ns).th t =
      { σ.th t with g := g, v := v, outer := o, ng := ng, ns := ns, s := (σ.hs g).stream, ff := [], pn := [] } := by
  unfold callPrep; simp only []; split <;> simp +contextual [St.setHd, St.setTh, St.ring, upd]

/-- the facts of the calling thread at the first program point of its call -/
theorem tloc_call {σ σb : St} (t : Nat) (o : Outer) (g v ng ns : Nat)
    (hhs : σb.hs = upd σ.hs g { σ.hs g with busy := true }) (hsl : σb.sl = σ.sl) (hcl : σb.cl = σ.cl)
    (hth : σb.th t = { σ.th t with g := g, v := v, outer := o, ng := ng, ns := ns, s := (σ.hs g).stream, ff := [], pn := [] })
    (hfc : o.futConv = false) (hkind : kindOk o (σ.hs g) = true)
    (hnbusy : (σ.hs g).busy = false) (halive : (σ.hs g).alive = true) (hused : (σ.hs g).used = true)
    (hS : (σ.hs g).sender = true → g ∈ σ.sl) (hR : (σ.hs g).sender = false → g ∈ σ.cl (σ.hs g).stream)
    (hne : o.mk → ng ≠ g ∧ g ≠ ng) (hnil : o = .addStream → σ.cl ns = []) :
    TLoc (callEntry σb t o g ng ns) ((callEntry σb t o g ng ns).th t) := by
  cases o
  all_goals first | (cases hfc; done) | skip
  all_goals simp only [callEntry]
  all_goals repeat' split
  all_goals
    refine ⟨?_, ?_, ?_, ?_, ?_, ?_, ?_, ?_, ?_, ?_, ?_, ?_, ?_, ?_, ?_, ?_, ?_, ?_, ?_, ?_, ?_, ?_, ?_⟩
  all_goals first
    | (simp_all [St.goto, St.gotoF, St.flush, St.setTh, St.setHd, upd, kindOk, Outer.mk,
        PC.sendOp, PC.singleSendX, PC.singleSend, PC.recvOp, PC.recvActive, PC.viewPC, PC.cloneS, PC.remPC, PC.afterNew,
        PC.addPC, PC.kOK, PC.newPath, PC.sgFlag, Th.sgOn, Outer.futConv, Outer.viewCall, newHd, newHd0, Th.creating]; done)
    | (rename_i vw; cases vw <;> simp_all [St.goto, St.gotoF, St.flush, St.setTh, St.setHd, upd, kindOk, Outer.mk,
        PC.sendOp, PC.singleSendX, PC.singleSend, PC.recvOp, PC.recvActive, PC.viewPC, PC.cloneS, PC.remPC, PC.afterNew,
        PC.addPC, PC.kOK, PC.newPath, PC.sgFlag, Th.sgOn, Outer.futConv, Outer.viewCall, newHd, newHd0, Th.creating]; done)

theorem callEntry_frame (σb : St) (t : Nat) (o : Outer) (g ng ns : Nat) :
    (callEntry σb t o g ng ns).sl = σb.sl ∧ (callEntry σb t o g ng ns).cl = σb.cl ∧
    (callEntry σb t o g ng ns).writers = σb.writers ∧ (callEntry σb t o g ng ns).ncons = σb.ncons ∧
    (callEntry σb t o g ng ns).groups = σb.groups ∧ (callEntry σb t o g ng ns).cur = σb.cur ∧ (callEntry σb t o g ng ns).est = σb.est ∧
    (∀ u, u ≠ t → (callEntry σb t o g ng ns).th u = σb.th u) := by
  unfold callEntry; cases o
  all_goals simp only []
  all_goals repeat' split
  all_goals refine ⟨?_, ?_, ?_, ?_, ?_, ?_, ?_, ?_⟩
  all_goals first | rfl | trivial | (intro u hu; simp [St.goto, St.setTh, St.setHd, upd, hu]; done)

theorem callEntry_hs (σb : St) (t : Nat) (o : Outer) (g ng ns : Nat) (hfc : o.futConv = false) (hne : o.mk → ng ≠ g ∧ g ≠ ng) (hnn : o ≠ .none) :
    (∀ a, a ≠ g → (a ≠ ng ∨ ¬ o.mk) → (callEntry σb t o g ng ns).hs a = σb.hs a) ∧
    (((callEntry σb t o g ng ns).hs g).sender = (σb.hs g).sender ∧ ((callEntry σb t o g ng ns).hs g).used = (σb.hs g).used ∧
     ((callEntry σb t o g ng ns).hs g).stream = (σb.hs g).stream ∧ ((callEntry σb t o g ng ns).hs g).view = (σb.hs g).view ∧
     ((callEntry σb t o g ng ns).hs g).busy = (σb.hs g).busy ∧
     (((callEntry σb t o g ng ns).hs g).uni = true → (σb.hs g).uni = true) ∧
     (((callEntry σb t o g ng ns).hs g).alive = true → (σb.hs g).alive = true)) ∧
    (o.mk → ((callEntry σb t o g ng ns).hs ng).alive = false ∧ ((callEntry σb t o g ng ns).hs ng).used = true ∧
      ((callEntry σb t o g ng ns).hs ng).busy = false) ∧
    (((callEntry σb t o g ng ns).th t).creating → o.mk) ∧
    ((callEntry σb t o g ng ns).th t).g = (σb.th t).g ∧ ((callEntry σb t o g ng ns).th t).ng = (σb.th t).ng := by
  unfold callEntry; cases o
  all_goals first | (cases hfc; done) | (exact absurd rfl hnn) | skip
  all_goals simp only []
  all_goals repeat' split
  all_goals (refine ⟨?_, ?_, ?_, ?_, ?_, ?_⟩)
  all_goals first
    | (simp_all [St.goto, St.setTh, St.setHd, upd, Outer.mk, Th.creating, PC.cloneS, PC.addPC, PC.afterNew]; done)
    | (intro a h1 h2; simp_all [St.goto, St.setTh, St.setHd, upd, Outer.mk]; done)

theorem minv_call {σ : St} (t : Nat) (o : Outer) (g v ng ns : Nat) (M : MInv σ) (R : RegInv σ)
    (hfc : o.futConv = false) : MInv (step σ (.call t o g v ng ns)) := by
  by_cases hc : callOk σ t o g ng ns = true
  rotate_left
  · have : step σ (.call t o g v ng ns) = σ := by simp only [step, hc]; rfl
    rw [this]; exact M
  have e : step σ (.call t o g v ng ns) = callEntry (callPrep σ t o g v ng ns) t o g ng ns := by
    simp only [step, hc, if_true]
  simp only [callOk, Bool.and_eq_true, decide_eq_true_eq, Bool.not_eq_true', Bool.and_eq_false_iff] at hc
  obtain ⟨⟨⟨⟨⟨hidle, halive⟩, hnbusy⟩, hkind⟩, hfresh⟩, hstream⟩ := hc
  have hnn : o ≠ .none := by intro h; subst h; simp [kindOk] at hkind
  have hused := M.aliveUsed g halive
  have hS := M.idleS g halive hnbusy
  have hR := M.idleR g halive hnbusy
  have hfresh' : o.mk → (σ.hs ng).used = false ∧ ng ≠ g := by
    intro h; rcases h with h | h <;> subst h <;> simpa using hfresh
  have hne : o.mk → ng ≠ g ∧ g ≠ ng := fun h => ⟨(hfresh' h).2, fun e => (hfresh' h).2 e.symm⟩
  have hnil : o = .addStream → σ.cl ns = [] := by
    intro h; subst h
    have hsu : σ.sused ns = false := by simpa [needStream] using hstream
    apply Classical.byContradiction; intro hne
    have h1 := M.clReg ns hne
    have h2 := R.estsub _ (R.regest _ (by simpa [reg, St.ring] using h1))
    rw [hsu] at h2; cases h2
  obtain ⟨p1, p2, p3, p4, p5, p6, p7, p8, p9, p10, p11⟩ := callPrep_facts σ t o g v ng ns
  have Lt := tloc_call t o g v ng ns p1 p2 p3 p11 hfc hkind hnbusy halive hused hS hR hne hnil
  obtain ⟨q1, q2, q3, q4, q5, q6, q7, q8⟩ := callEntry_frame (callPrep σ t o g v ng ns) t o g ng ns
  obtain ⟨k1, ⟨k2a, k2b, k2c, k2d, k2e, k2f, k2g⟩, k3, k4, k5, k6⟩ := callEntry_hs (callPrep σ t o g v ng ns) t o g ng ns hfc hne hnn
  rw [← e] at Lt q1 q2 q3 q4 q5 q6 q7 q8 k1 k2a k2b k2c k2d k2e k2f k2g k3 k4 k5 k6
  rw [p2] at q1; rw [p3] at q2; rw [p6] at q3; rw [p7] at q4; rw [p8] at q5; rw [p9] at q6; rw [p4] at q7
  have e_th : ∀ u, u ≠ t → (step σ (.call t o g v ng ns)).th u = σ.th u := by
    intro u hu; rw [q8 u hu, p10 u hu]
  have e_g : ((step σ (.call t o g v ng ns)).th t).g = g := by rw [k5, p11]
  have e_ng : ((step σ (.call t o g v ng ns)).th t).ng = ng := by rw [k6, p11]
  -- records of the table
  have pg : (callPrep σ t o g v ng ns).hs g = { σ.hs g with busy := true } := by rw [p1]; simp [upd]
  have po : ∀ a, a ≠ g → (callPrep σ t o g v ng ns).hs a = σ.hs a := by intro a ha; rw [p1]; simp [upd, ha]
  rw [pg] at k2a k2b k2c k2d k2e k2f k2g
  simp only [] at k2a k2b k2c k2d k2e k2f k2g
  have hoth : ∀ a, a ≠ g → (a ≠ ng ∨ ¬ o.mk) → (step σ (.call t o g v ng ns)).hs a = σ.hs a := by
    intro a h1 h2; rw [k1 a h1 h2, po a h1]
  -- a handle that is in use (by a thread or counted) is neither `g` nor the fresh `ng`
  have hfar : ∀ a, (σ.hs a).used = true → a ≠ g → (step σ (.call t o g v ng ns)).hs a = σ.hs a := by
    intro a hu h1
    apply hoth a h1
    by_cases hm : o.mk
    · left; intro e'; rw [e', (hfresh' hm).1] at hu; cases hu
    · right; exact hm
  have hflags : ∀ a, (σ.hs a).used = true →
      ((step σ (.call t o g v ng ns)).hs a).sender = (σ.hs a).sender ∧ ((step σ (.call t o g v ng ns)).hs a).used = (σ.hs a).used ∧
      ((step σ (.call t o g v ng ns)).hs a).stream = (σ.hs a).stream ∧ ((step σ (.call t o g v ng ns)).hs a).view = (σ.hs a).view ∧
      (((step σ (.call t o g v ng ns)).hs a).uni = true → (σ.hs a).uni = true) := by
    intro a hu
    by_cases h1 : a = g
    · subst h1; exact ⟨k2a, k2b, k2c, k2d, k2f⟩
    · rw [hfar a hu h1]; exact ⟨rfl, rfl, rfl, rfl, id⟩
  -- the three kinds of records in the new table
  have hcases : ∀ a, a = g ∨ (a = ng ∧ o.mk) ∨ (step σ (.call t o g v ng ns)).hs a = σ.hs a := by
    intro a
    by_cases h1 : a = g
    · exact Or.inl h1
    · by_cases h2 : a = ng ∧ o.mk
      · exact Or.inr (Or.inl h2)
      · right; right; apply hoth a h1
        by_cases h3 : a = ng
        · right; intro hm; exact h2 ⟨h3, hm⟩
        · left; exact h3
  refine ⟨by rw [q3, q1]; exact M.wr, by intro s; rw [q4, q2]; exact M.nc s, ?_, ?_, ?_, ?_, ?_, ?_, ?_, ?_, ?_, ?_, ?_⟩
  · intro u
    by_cases eu : u = t
    · subst eu; exact Lt
    · rw [e_th u eu]
      refine TLoc_transfer (M.thr u) ?_ ?_ (fun _ h => by rw [q1]; exact h) (fun _ h => by rw [q1]; exact h)
        (fun _ s h => by rw [q2]; exact h) (fun _ s h => by rw [q2]; exact h)
        (fun _ h _ => by rw [q2]; exact h) (fun _ h => by rw [q2]; exact h) (by rw [q7]; exact id)
        (fun _ h => by rw [q2]; exact h)
      · intro hi
        obtain ⟨b1, b2⟩ := (M.thr u).busy hi
        exact hfar _ b2 (by intro e'; rw [e', hnbusy] at b1; cases b1)
      · intro hcr
        obtain ⟨c1, c2, c3⟩ := creating_facts (M.thr u) hcr
        exact hfar _ c3 (by intro e'; rw [e', halive] at c2; cases c2)
  · intro a b hab ha hb
    by_cases ea : a = t
    · subst ea
      have eb : b ≠ a := fun h => hab h.symm
      rw [e_th b eb] at hb ⊢; rw [e_g]
      intro e'; have := ((M.thr b).busy hb).1; rw [← e', hnbusy] at this; cases this
    · by_cases eb : b = t
      · subst eb
        rw [e_th a ea] at ha ⊢; rw [e_g]
        intro e'; have := ((M.thr a).busy ha).1; rw [e', hnbusy] at this; cases this
      · rw [e_th a ea] at ha ⊢; rw [e_th b eb] at hb ⊢; exact M.excl a b hab ha hb
  · intro a ha hu
    rw [q1] at ha ⊢
    have hk := M.slKind a ha
    exact M.uniS a ha ((hflags a hk.2).2.2.2.2 hu)
  · intro a s ha hu
    rw [q2] at ha ⊢
    have hk := M.clKind a s ha
    obtain ⟨f1, f2, f3, f4, f5⟩ := hflags a hk.2.1
    apply M.uniR a s ha
    rcases hu with h | h
    · exact Or.inl (f5 h)
    · rw [f4] at h; exact Or.inr h
  · intro s hne; rw [q2] at hne
    have := M.clReg s hne
    simp only [reg, St.ring] at this ⊢; rw [q5, q6]; exact this
  · intro a ha hb hc
    rw [q1]
    rcases hcases a with h | ⟨h, hm⟩ | h
    · subst h; rw [k2e] at hb; cases hb
    · subst h; rw [(k3 hm).1] at ha; cases ha
    · rw [h] at ha hb hc; exact M.idleS a ha hb hc
  · intro a ha hb hc
    rw [q2]
    rcases hcases a with h | ⟨h, hm⟩ | h
    · subst h; rw [k2e] at hb; cases hb
    · subst h; rw [(k3 hm).1] at ha; cases ha
    · rw [h] at ha hb hc ⊢; exact M.idleR a ha hb hc
  · intro a ha
    rcases hcases a with h | ⟨h, hm⟩ | h
    · subst h; rw [k2b]; exact hused
    · subst h; exact (k3 hm).2.1
    · rw [h] at ha ⊢; exact M.aliveUsed a ha
  · intro a ha
    rw [q1] at ha
    have hk := M.slKind a ha
    obtain ⟨f1, f2, _⟩ := hflags a hk.2
    rw [f1, f2]; exact hk
  · intro a s ha
    rw [q2] at ha
    have hk := M.clKind a s ha
    obtain ⟨f1, f2, f3, _⟩ := hflags a hk.2.1
    rw [f1, f2, f3]; exact hk
  · intro a b hab ha hb
    by_cases ea : a = t
    · subst ea
      have eb : b ≠ a := fun h => hab h.symm
      rw [e_th b eb] at hb ⊢; rw [e_ng]
      have hm := k4 ha
      intro e'
      have := (creating_facts (M.thr b) hb).2.2; rw [← e', (hfresh' hm).1] at this; cases this
    · by_cases eb : b = t
      · subst eb
        rw [e_th a ea] at ha ⊢; rw [e_ng]
        have hm := k4 hb
        intro e'
        have := (creating_facts (M.thr a) ha).2.2; rw [e', (hfresh' hm).1] at this; cases this
      · rw [e_th a ea] at ha ⊢; rw [e_th b eb] at hb ⊢; exact M.nginj a b hab ha hb

end MQ
