import MQ.Inv.ModeRun2
/-! # ModeInv — add_stream publication, into_single check, and the general "table unchanged" lemma -/
set_option linter.unusedSimpArgs false
set_option linter.unusedVariables false
set_option maxHeartbeats 4000000
namespace MQ

/-- a step that leaves the handle table, `est` and the registration of counted streams alone -/
theorem minv_same {σ : St} (x inp : Nat) (M : MInv σ)
    (hd : (stepRun σ x inp).2.htab = σ.htab) (hest : (stepRun σ x inp).2.est = σ.est)
    (hreg : ∀ s, σ.cl s ≠ [] → s ∈ (stepRun σ x inp).2.groups (stepRun σ x inp).2.cur)
    (Lx0 : TLoc σ ((stepRun σ x inp).2.th x))
    (hcr : ((stepRun σ x inp).2.th x).creating → (σ.th x).creating)
    (hng : ((stepRun σ x inp).2.th x).ng = (σ.th x).ng) : MInv (stepRun σ x inp).2 := by
  obtain ⟨d1, d2, d3, d4, d5⟩ := htab_fields hd
  have cong : ∀ y, TLoc σ y → TLoc (stepRun σ x inp).2 y := fun y L => TLoc_congr hd (by rw [hest]; exact id) L
  refine ⟨by rw [d1, d3]; exact M.wr, by intro s; rw [d2, d4]; exact M.nc s, ?_, ?_, ?_, ?_, ?_, ?_, ?_, ?_, ?_, ?_, ?_⟩
  · intro u; rw [mth]; split
    · exact cong _ Lx0
    · exact cong _ (M.thr u)
  · intro t u htu ht hu
    have gt : ((stepRun σ x inp).2.th t).g = (σ.th t).g := by
      rw [mth]; split
      · rename_i e; subst e; exact stepRun_g σ t inp
      · rfl
    have gu : ((stepRun σ x inp).2.th u).g = (σ.th u).g := by
      rw [mth]; split
      · rename_i e; subst e; exact stepRun_g σ u inp
      · rfl
    have it : (σ.th t).pc ≠ .idle := by
      rw [mth] at ht; split at ht
      · rename_i e; subst e; exact not_idle_step σ t inp (M.thr t) ht
      · exact ht
    have iu : (σ.th u).pc ≠ .idle := by
      rw [mth] at hu; split at hu
      · rename_i e; subst e; exact not_idle_step σ u inp (M.thr u) hu
      · exact hu
    rw [gt, gu]; exact M.excl t u htu it iu
  · intro g; rw [d3, d5]; exact M.uniS g
  · intro g s; rw [d4, d5]; exact M.uniR g s
  · intro s hne
    rw [d4] at hne
    have := hreg s hne
    simpa [reg, St.ring] using this
  · intro g; rw [d3, d5]; exact M.idleS g
  · intro g; rw [d4, d5]; exact M.idleR g
  · intro g; rw [d5]; exact M.aliveUsed g
  · intro g; rw [d3, d5]; exact M.slKind g
  · intro g s; rw [d4, d5]; exact M.clKind g s
  · exact nginj_step x inp M (fun h => ⟨hcr h, hng⟩)

/-- `into_single`: the count is read; `Single` is reported only when the handle is the only counted one -/
theorem minv_run_isg {σ : St} (x inp : Nat) (M : MInv σ) (hpc : (σ.th x).pc = .isg) : MInv (stepRun σ x inp).2 := by
  have hxi : (σ.th x).pc ≠ .idle := by rw [hpc]; simp
  obtain ⟨c1, c2⟩ := (M.thr x).isg hpc
  have hlen := M.nc (σ.th x).s
  apply minv_same x inp M
  · simp only [stepRun, hpc]; rfl
  · simp only [stepRun, hpc]; rfl
  · intro s hs
    have := M.clReg s hs
    simp only [stepRun, hpc]; simp only [reg, St.ring] at this; exact this
  · obtain ⟨l1, l2, l3, l4, l5, l6, l7, l8, l9, l10, l11, l12, l13, l14, l15, l16, l17, l18, l19, l20, l21, l22, l23⟩ := M.thr x
    simp only [Th.sgOn] at l23
    rw [hpc] at l1 l2 l3 l4 l5 l6 l7 l8 l9 l10 l11 l12 l13 l14 l15 l16 l17 l18 l19 l20 l21 l22 l23
    simp only [stepRun, hpc]
    refine ⟨?_, ?_, ?_, ?_, ?_, ?_, ?_, ?_, ?_, ?_, ?_, ?_, ?_, ?_, ?_, ?_, ?_, ?_, ?_, ?_, ?_, ?_, ?_⟩
    all_goals first | tl_auto | (split <;> tl_auto) | skip
    · intro hr _
      simp [St.goto, St.setTh, St.flush, upd] at hr ⊢
      rw [hr] at hlen
      match hl : σ.cl (σ.th x).s, hlen.symm with
      | [b], _ => rw [hl] at c1; simp at c1; rw [c1]
  · intro hc; exfalso
    simp only [stepRun, hpc] at hc
    split at hc <;> simp [Th.creating, St.goto, St.setTh, St.flush, upd, PC.cloneS, PC.addPC, PC.afterNew] at hc
  · simp only [stepRun, hpc]; simp [St.goto, St.setTh, St.flush, upd]

/-- the per-call `is_single` load: a count of one means the handle is the only counted one of its stream -/
theorem minv_run_is1 {σ : St} (x inp : Nat) (M : MInv σ) (hpc : (σ.th x).pc = .is1) :
    MInv (stepRun σ x inp).2 := by
  obtain ⟨c1, c2⟩ := (M.thr x).rcv (by rw [hpc]; rfl)
  have hlen := M.nc (σ.th x).s
  apply minv_same x inp M
  · simp only [stepRun, hpc]; rfl
  · simp only [stepRun, hpc]; rfl
  · intro s hs
    have := M.clReg s hs
    simp only [stepRun, hpc]; simp only [reg, St.ring] at this; exact this
  · obtain ⟨l1, l2, l3, l4, l5, l6, l7, l8, l9, l10, l11, l12, l13, l14, l15, l16, l17, l18, l19, l20, l21, l22, l23⟩ := M.thr x
    rw [hpc] at l1 l2 l3 l4 l5 l6 l7 l8 l9 l10 l11 l12 l13 l14 l15 l16 l17 l18 l19 l20 l21 l22
    simp only [stepRun, hpc]
    refine ⟨?_, ?_, ?_, ?_, ?_, ?_, ?_, ?_, ?_, ?_, ?_, ?_, ?_, ?_, ?_, ?_, ?_, ?_, ?_, ?_, ?_, ?_, ?_⟩
    all_goals first | tl_auto | skip
    · intro hr
      simp [St.goto, St.setTh, St.flush, upd, Th.sgOn] at hr ⊢
      rw [hr.1] at hlen
      match hl : σ.cl (σ.th x).s, hlen.symm with
      | [b], _ => rw [hl] at c1; simp at c1; rw [c1]
  · intro hc; exfalso
    simp only [stepRun, hpc] at hc
    simp [Th.creating, St.goto, St.setTh, St.flush, upd, PC.cloneS, PC.addPC, PC.afterNew] at hc
  · simp only [stepRun, hpc]; simp [St.goto, St.setTh, St.flush, upd]

/-- `add_stream`: a failed publication retries -/
theorem minv_run_a3_fail {σ : St} (x inp : Nat) (c raw ng : Nat) (M : MInv σ) (hpc : (σ.th x).pc = .a3 c raw ng)
    (hne : σ.cur ≠ c) : MInv (stepRun σ x inp).2 := by
  apply minv_same x inp M
  · simp only [stepRun, hpc, hne, if_false]; rfl
  · simp only [stepRun, hpc, hne, if_false]; rfl
  · intro s hs
    have := M.clReg s hs
    simp only [stepRun, hpc, hne, if_false]; simp only [reg, St.ring] at this; exact this
  · obtain ⟨l1, l2, l3, l4, l5, l6, l7, l8, l9, l10, l11, l12, l13, l14, l15, l16, l17, l18, l19, l20, l21, l22, l23⟩ := M.thr x
    simp only [Th.sgOn] at l23
    rw [hpc] at l1 l2 l3 l4 l5 l6 l7 l8 l9 l10 l11 l12 l13 l14 l15 l16 l17 l18 l19 l20 l21 l22 l23
    simp only [stepRun, hpc, hne, if_false]
    refine ⟨?_, ?_, ?_, ?_, ?_, ?_, ?_, ?_, ?_, ?_, ?_, ?_, ?_, ?_, ?_, ?_, ?_, ?_, ?_, ?_, ?_, ?_, ?_⟩
    all_goals tl_auto
  · intro _; exact Or.inr (Or.inr (Or.inl (by rw [hpc]; rfl)))
  · simp only [stepRun, hpc, hne, if_false]; simp [St.gotoF, St.setTh, St.flush, upd]

/-- `add_stream`: the publication counts the new handle on the new stream -/
theorem minv_run_a3_ok {σ : St} (x inp : Nat) (raw ng : Nat) (M : MInv σ) (R : RegInv σ)
    (hpc : (σ.th x).pc = .a3 σ.cur raw ng) : MInv (stepRun σ x inp).2 := by
  have hxi : (σ.th x).pc ≠ .idle := by rw [hpc]; simp
  obtain ⟨c1, c2, c3, c4, c5⟩ := (M.thr x).add (by rw [hpc]; rfl)
  have hnc := (M.thr x).noconv hxi
  have hout : (σ.th x).outer ≠ .intoMultiFut := by intro e; rw [e] at hnc; cases hnc
  have hbusy := ((M.thr x).busy hxi).1
  have RL := R.loc x; simp only [RLoc, hpc] at RL
  obtain ⟨r1, r2, r3, r4, r5⟩ := RL
  have e_sl : (stepRun σ x inp).2.sl = σ.sl := by simp only [stepRun, hpc, if_true, hout, if_false]; rfl
  have e_cl : (stepRun σ x inp).2.cl = upd σ.cl (σ.th x).ns [(σ.th x).ng] := by
    simp only [stepRun, hpc, if_true, hout, if_false]; rfl
  have e_wr : (stepRun σ x inp).2.writers = σ.writers := by simp only [stepRun, hpc, if_true, hout, if_false]; rfl
  have e_nc : (stepRun σ x inp).2.ncons = upd σ.ncons (σ.th x).ns 1 := by
    simp only [stepRun, hpc, if_true, hout, if_false]; rfl
  have e_cur : (stepRun σ x inp).2.cur = ng := by simp only [stepRun, hpc, if_true, hout, if_false]; rfl
  have e_grp : (stepRun σ x inp).2.groups = σ.groups := by simp only [stepRun, hpc, if_true, hout, if_false]; rfl
  have e_est : (stepRun σ x inp).2.est = upd σ.est (σ.th x).ns true := by
    simp only [stepRun, hpc, if_true, hout, if_false]; rfl
  have e_hs : (stepRun σ x inp).2.hs = σ.hs := by simp only [stepRun, hpc, if_true, hout, if_false]; rfl
  have keep : ∀ a s, a ∈ σ.cl s → a ∈ upd σ.cl (σ.th x).ns [(σ.th x).ng] s := by
    intro a s ha
    simp only [upd]; split
    · rename_i es; subst es; rw [c3] at ha; cases ha
    · exact ha
  have Lx : TLoc (stepRun σ x inp).2 ((stepRun σ x inp).2.th x) := by
    obtain ⟨l1, l2, l3, l4, l5, l6, l7, l8, l9, l10, l11, l12, l13, l14, l15, l16, l17, l18, l19, l20, l21, l22, l23⟩ := M.thr x
    simp only [Th.sgOn] at l23
    rw [hpc] at l1 l2 l3 l4 l5 l6 l7 l8 l9 l10 l11 l12 l13 l14 l15 l16 l17 l18 l19 l20 l21 l22 l23
    simp only [stepRun, hpc, if_true, hout, if_false]
    refine ⟨?_, ?_, ?_, ?_, ?_, ?_, ?_, ?_, ?_, ?_, ?_, ?_, ?_, ?_, ?_, ?_, ?_, ?_, ?_, ?_, ?_, ?_, ?_⟩
    all_goals tl_auto
  refine ⟨by rw [e_wr, e_sl]; exact M.wr, ?_, ?_, excl_step x inp M hxi, ?_, ?_, ?_, ?_, ?_, ?_, ?_, ?_, ?_⟩
  · intro s; rw [e_nc, e_cl]; simp only [upd]; split
    · rfl
    · exact M.nc s
  · intro u; rw [mth]; split
    · exact Lx
    · rename_i hu
      refine thr_other M hu hxi (fun a _ => by rw [e_hs]) (fun a _ ha => by rw [e_sl]; exact ha)
        (fun a s _ ha => by rw [e_cl]; exact keep a s ha) ?_ ?_ ?_ ?_
      · intro _ hnil he
        rw [e_cl]; simp only [upd]; split
        · rename_i es; rw [es, r2] at he; cases he
        · exact hnil
      · intro ha hnil
        rw [e_cl]; simp only [upd]; split
        · rename_i es; exact absurd (R.nsinj u x ha (by rw [hpc]; rfl) es) hu
        · exact hnil
      · intro he; rw [e_est]; simp only [upd]; split
        · rfl
        · exact he
      · intro hui hsing
        rw [e_cl]; simp only [upd]; split
        · rename_i es; rw [es, c3] at hsing; cases hsing
        · exact hsing
  · intro g hg hu; rw [e_sl] at hg ⊢; rw [e_hs] at hu; exact M.uniS g hg hu
  · intro g s hg hu
    rw [e_cl] at hg ⊢; rw [e_hs] at hu
    simp only [upd] at hg ⊢; split at hg
    · rename_i es; rw [if_pos es]; simp at hg; rw [hg]
    · rename_i es; rw [if_neg es]; exact M.uniR g s hg hu
  · intro s hs
    simp only [reg, St.ring]
    rw [e_cur, e_grp, r5]
    rw [e_cl] at hs; simp only [upd] at hs; split at hs
    · rename_i es; rw [es]; simp
    · have := M.clReg s hs; simp only [reg, St.ring] at this
      exact List.mem_append_left _ this
  · intro g ha hb hc; rw [e_hs] at ha hb hc; rw [e_sl]; exact M.idleS g ha hb hc
  · intro g ha hb hc
    rw [e_hs] at ha hb hc ⊢; rw [e_cl]
    exact keep g _ (M.idleR g ha hb hc)
  · intro g ha; rw [e_hs] at ha ⊢; exact M.aliveUsed g ha
  · intro g hg; rw [e_sl] at hg; rw [e_hs]; exact M.slKind g hg
  · intro g s hg; rw [e_cl] at hg; rw [e_hs]
    simp only [upd] at hg; split at hg
    · rename_i es; simp at hg; rw [hg, es]; exact ⟨c4.1, c4.2.2.1, c5⟩
    · exact M.clKind g s hg
  · apply nginj_step x inp M
    intro _
    refine ⟨Or.inr (Or.inr (Or.inl (by rw [hpc]; rfl))), ?_⟩
    simp only [stepRun, hpc, if_true, hout, if_false]; simp [St.gotoF, St.setTh, St.flush, upd]

end MQ
