import MQ.Inv.ModeMain
import MQ.Inv.PinRun
/-!
# The write index and the log move together (C01/C02/C03): one statement over all program points
-/
namespace MQ

set_option maxHeartbeats 4000000 in
theorem head_log_tcc (σ : St) (t inp h c u : Nat) (hpc : (σ.th t).pc = .tcc h c u) :
    ((stepRun σ t inp).2.head = σ.head ∧ (stepRun σ t inp).2.log = σ.log) := by
  by_cases h1 : σ.tc = c
  all_goals (pin_unf hpc; simp only [h1, if_true, if_false]; (repeat' split) <;> first | exact ⟨rfl, rfl⟩ | (simp [St.goto, St.gotoF, St.flush, St.setTh, upd]; done))

set_option maxHeartbeats 4000000 in
/-- the write index and the log of sent values move together: a step leaves both alone, or it is the claim step `hd`
of position `h`, which sets the index to `h + 1` and appends exactly the caller's value to the log -/
theorem head_log_together (σ : St) (t inp : Nat) :
    ((stepRun σ t inp).2.head = σ.head ∧ (stepRun σ t inp).2.log = σ.log) ∨
    (∃ m h, (σ.th t).pc = .hd m h ∧ (stepRun σ t inp).2.head = h + 1 ∧
      (stepRun σ t inp).2.log = σ.log ++ [(σ.th t).v]) := by
  cases hpc : (σ.th t).pc
  case tcc h c u => exact Or.inl (head_log_tcc σ t inp h c u hpc)
  case hd m h => cases m <;> (pin_unf hpc <;> (repeat' split) <;> first | (left; exact ⟨rfl, rfl⟩) | (right; exact ⟨_, _, rfl, rfl, rfl⟩) | (simp [St.goto, St.gotoF, St.flush, St.setTh, upd]; done) | (exfalso; simp_all; done))
  all_goals (pin_unf hpc <;> (repeat' split) <;> first | (left; exact ⟨rfl, rfl⟩) | (simp [St.goto, St.gotoF, St.flush, St.setTh, upd]; done))

end MQ
