import MQ.Inv.MgrInv
/-! Targets of steps: outside the manager's sub-programs a step ends at a program point without manager facts. -/
set_option linter.unusedSimpArgs false
namespace MQ

macro "plain_tac" : tactic =>
  `(tactic| ((try simp only []); repeat' split) <;> first | rfl | (simp [PC.mPlain, PC.mgrPhase, PC.mgrOK, MK.isRmTokFree, MK.isRm1, St.goto, St.gotoF, St.setTh, St.setHd, St.flush, upd, *]; done))

section
variable (σ : St) (t : Nat)

theorem afterNotify_plain (k : Nat) : ((afterNotify σ t k).th t).pc.mPlain = true := by
  unfold afterNotify; plain_tac
theorem teardownStart_plain (r : Res) : ((teardownStart σ t r).th t).pc.mPlain = true := by
  unfold teardownStart; plain_tac
theorem arcStep_plain (r : Res) : ((arcStep σ t r).th t).pc.mPlain = true := by
  unfold arcStep; plain_tac
theorem startNotify_plain (k : Nat) : ((startNotify σ t k).th t).pc.mPlain = true := by
  unfold startNotify; split <;> first | exact afterNotify_plain σ t k | plain_tac
theorem sendDone_plain (r : Res) : ((sendDone σ t r).th t).pc.mPlain = true := by
  unfold sendDone; (try simp only []); repeat' split
  all_goals first | exact startNotify_plain σ t _ | plain_tac
theorem startWait_plain (j seq : Nat) : ((startWait σ t j seq).th t).pc.mPlain = true := by
  unfold startWait; plain_tac
theorem recvDone_plain (r : Res) (j : Nat) : ((recvDone σ t r j).th t).pc.mPlain = true := by
  unfold recvDone; plain_tac
theorem waitDone_plain : ((waitDone σ t).th t).pc.mPlain = true := by
  unfold waitDone; plain_tac
theorem checkDone_plain (j seq : Nat) (ph : WPh) (b : Bool) : ((checkDone σ t j seq ph b).th t).pc.mPlain = true := by
  unfold checkDone; repeat' split
  all_goals first | exact waitDone_plain _ t | plain_tac
theorem recvDropTail_plain : ((recvDropTail σ t).th t).pc.mPlain = true := by
  unfold recvDropTail; (try simp only []); repeat' split
  all_goals first | (simp [teardownStart, PC.mPlain, PC.mgrPhase, PC.mgrOK, St.goto, St.setTh, upd]; done) | plain_tac
theorem sendDropTail_plain : ((sendDropTail σ t).th t).pc.mPlain = true := by
  unfold sendDropTail; repeat' split
  all_goals first | exact teardownStart_plain σ t _ | plain_tac
theorem mgrDone_plain (k : MK) : ((mgrDone σ t k).th t).pc.mPlain = true := by
  unfold mgrDone; (try simp only []); repeat' split
  all_goals first
    | exact sendDone_plain σ t _
    | exact recvDropTail_plain _ t
    | exact sendDropTail_plain _ t
    | plain_tac
theorem startNotify2_plain : ((stepRun.startNotify2 σ t).th t).pc.mPlain = true := by
  unfold stepRun.startNotify2; plain_tac
end

theorem stepLa2_plain (σ0 σ : St) (t : Nat) (x : Th) (s : Nat) :
    ((stepRun.stepLa2 σ0 σ t x s).2.th t).pc.mPlain = true := by
  unfold stepRun.stepLa2; simp only []; repeat' split
  all_goals (simp [PC.mPlain, PC.mgrPhase, PC.mgrOK, St.goto, St.setTh, upd])

set_option maxHeartbeats 2000000 in
/-- outside the manager's sub-programs a step ends at a plain program point -/
theorem stepRun_plain (σ : St) (t inp : Nat) (h : (σ.th t).pc.mgrSrc = false) :
    ((stepRun σ t inp).2.th t).pc.mPlain = true := by
  unfold stepRun
  simp only []
  split
  all_goals (first | (rename_i heq; rw [heq] at h; simp [PC.mgrSrc] at h; done) | skip)
  all_goals (repeat' split)
  all_goals first
    | (simp only [sendDone_plain, recvDone_plain, checkDone_plain, startWait_plain, afterNotify_plain,
        startNotify_plain, teardownStart_plain, mgrDone_plain, startNotify2_plain, stepLa2_plain]; done)
    | (simp [PC.mPlain, PC.mgrPhase, PC.mgrOK, MK.isRmTokFree, MK.isRm1, th_goto, th_gotoF, th_setTh, th_flush, th_setHd]; done)
    | (rename_i heq; simp [heq, PC.mPlain, PC.mgrPhase, PC.mgrOK]; done)
    | (rename_i heq _; simp [heq, PC.mPlain, PC.mgrPhase, PC.mgrOK]; done)
    | (simp [PC.mPlain, PC.mgrPhase, PC.mgrOK, MK.isRmTokFree, MK.isRm1, St.goto, St.gotoF, St.setTh, St.setHd, St.flush, upd, teardownStart]; done)

end MQ
