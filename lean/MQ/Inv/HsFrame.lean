import MQ.Inv.Frame2
/-! `run` steps never change which token a handle owns, nor which handle a thread is using. -/
set_option linter.unusedSimpArgs false
namespace MQ

/-- token of every handle -/
def St.hsTok (σ : St) : Nat → Nat := fun g => (σ.hs g).tok

@[simp] theorem hsTok_setTh (σ : St) (t f) : (σ.setTh t f).hsTok = σ.hsTok := rfl
@[simp] theorem hsTok_goto (σ : St) (t pc) : (σ.goto t pc).hsTok = σ.hsTok := rfl
@[simp] theorem hsTok_gotoF (σ : St) (t pc f) : (σ.gotoF t pc f).hsTok = σ.hsTok := rfl
@[simp] theorem hsTok_flush (σ : St) (t) : (σ.flush t).hsTok = σ.hsTok := rfl
@[simp] theorem hsTok_setUni (σ : St) (g : Nat) (b : Bool) : (σ.setHd g fun y => { y with uni := b }).hsTok = σ.hsTok := by
  funext g'; simp only [St.hsTok, St.setHd, upd]; split <;> simp_all

section
variable (σ : St) (t : Nat)
@[simp] theorem afterNotify_hsTok (k : Nat) : (afterNotify σ t k).hsTok = σ.hsTok := by
  unfold afterNotify; split <;> rfl
@[simp] theorem teardownStart_hsTok (r : Res) : (teardownStart σ t r).hsTok = σ.hsTok := rfl
@[simp] theorem startNotify_hsTok (k : Nat) : (startNotify σ t k).hsTok = σ.hsTok := by
  unfold startNotify; split <;> first | rfl | exact afterNotify_hsTok σ t k
@[simp] theorem sendDone_hsTok (r : Res) : (sendDone σ t r).hsTok = σ.hsTok := by
  unfold sendDone; simp only []; repeat' split
  all_goals first | exact startNotify_hsTok σ t _ | rfl
@[simp] theorem startWait_hsTok (j seq : Nat) : (startWait σ t j seq).hsTok = σ.hsTok := by
  unfold startWait; simp only []; repeat' split
  all_goals rfl
@[simp] theorem recvDone_hsTok (r : Res) (j : Nat) : (recvDone σ t r j).hsTok = σ.hsTok := by
  unfold recvDone; simp only []; repeat' split
  all_goals rfl
@[simp] theorem waitDone_hsTok : (waitDone σ t).hsTok = σ.hsTok := by
  unfold waitDone; simp only []; repeat' split
  all_goals rfl
@[simp] theorem checkDone_hsTok (j seq : Nat) (ph : WPh) (b : Bool) : (checkDone σ t j seq ph b).hsTok = σ.hsTok := by
  unfold checkDone; repeat' split
  all_goals first | rfl | exact waitDone_hsTok _ t
@[simp] theorem recvDropTail_hsTok : (recvDropTail σ t).hsTok = σ.hsTok := by
  unfold recvDropTail; simp only []; repeat' split
  all_goals rfl
@[simp] theorem sendDropTail_hsTok : (sendDropTail σ t).hsTok = σ.hsTok := by
  unfold sendDropTail; repeat' split
  all_goals rfl
@[simp] theorem mgrDone_hsTok (k : MK) : (mgrDone σ t k).hsTok = σ.hsTok := by
  unfold mgrDone; simp only []; repeat' split
  all_goals first | rfl | exact sendDone_hsTok σ t _ | (simp only [recvDropTail_hsTok, sendDropTail_hsTok]; done) | (simp only [recvDropTail_hsTok, sendDropTail_hsTok]; rfl)
@[simp] theorem freeEnd_hsTok (k : MK) : (freeEnd σ t k).hsTok = σ.hsTok := by
  unfold freeEnd; (simp only [mgrDone_hsTok]; try rfl)
@[simp] theorem freeTail_hsTok (k : MK) : (freeTail σ t k).hsTok = σ.hsTok := by
  unfold freeTail; repeat' split
  all_goals first | rfl | (simp only [mgrDone_hsTok]; try rfl)
@[simp] theorem startNotify2_hsTok : (stepRun.startNotify2 σ t).hsTok = σ.hsTok := rfl
end

@[simp] theorem stepLa2_hsTok (σ0 σ : St) (t : Nat) (x : Th) (s : Nat) : (stepRun.stepLa2 σ0 σ t x s).2.hsTok = σ.hsTok := by
  unfold stepRun.stepLa2; simp only []; repeat' split
  all_goals rfl

set_option maxHeartbeats 2000000 in
theorem stepRun_hsTok (σ : St) (t inp : Nat) : (stepRun σ t inp).2.hsTok = σ.hsTok := by
  unfold stepRun
  simp only []
  split
  all_goals (repeat' split)
  all_goals first
    | (simp only [sendDone_hsTok, recvDone_hsTok, checkDone_hsTok, startWait_hsTok, afterNotify_hsTok, startNotify_hsTok,
        teardownStart_hsTok, mgrDone_hsTok, freeTail_hsTok, freeEnd_hsTok, startNotify2_hsTok, hsTok_goto, hsTok_gotoF,
        hsTok_setTh, hsTok_flush, hsTok_setUni, stepLa2_hsTok]; done)
    | (simp only [sendDone_hsTok, recvDone_hsTok, checkDone_hsTok, startWait_hsTok, afterNotify_hsTok, startNotify_hsTok,
        teardownStart_hsTok, mgrDone_hsTok, freeTail_hsTok, freeEnd_hsTok, startNotify2_hsTok, hsTok_goto, hsTok_gotoF,
        hsTok_setTh, hsTok_flush, hsTok_setUni, stepLa2_hsTok] <;> rfl)
    | rfl

/-! ### the handle a thread uses -/

macro "g_tac" : tactic =>
  `(tactic| ((try simp only []); repeat' split) <;> first | rfl | (simp [St.goto, St.gotoF, St.setTh, St.setHd, St.flush, upd, *]; done))

section
variable (σ : St) (t : Nat)
theorem afterNotify_g (k : Nat) : ((afterNotify σ t k).th t).g = (σ.th t).g := by
  unfold afterNotify; g_tac
theorem teardownStart_g (r : Res) : ((teardownStart σ t r).th t).g = (σ.th t).g := by
  unfold teardownStart; g_tac
theorem startNotify_g (k : Nat) : ((startNotify σ t k).th t).g = (σ.th t).g := by
  unfold startNotify; split <;> first | exact afterNotify_g σ t k | g_tac
theorem sendDone_g (r : Res) : ((sendDone σ t r).th t).g = (σ.th t).g := by
  unfold sendDone; (try simp only []); repeat' split
  all_goals first | (rw [startNotify_g]; done) | g_tac
theorem startWait_g (j seq : Nat) : ((startWait σ t j seq).th t).g = (σ.th t).g := by
  unfold startWait; g_tac
theorem recvDone_g (r : Res) (j : Nat) : ((recvDone σ t r j).th t).g = (σ.th t).g := by
  unfold recvDone; g_tac
theorem waitDone_g : ((waitDone σ t).th t).g = (σ.th t).g := by
  unfold waitDone; g_tac
theorem checkDone_g (j seq : Nat) (ph : WPh) (b : Bool) : ((checkDone σ t j seq ph b).th t).g = (σ.th t).g := by
  unfold checkDone; repeat' split
  all_goals first | exact waitDone_g _ t | (rw [waitDone_g]; done) | g_tac
theorem recvDropTail_g : ((recvDropTail σ t).th t).g = (σ.th t).g := by
  unfold recvDropTail; (try simp only []); repeat' split
  all_goals first | (simp [teardownStart, St.goto, St.setTh, upd]; done) | g_tac
theorem sendDropTail_g : ((sendDropTail σ t).th t).g = (σ.th t).g := by
  unfold sendDropTail; repeat' split
  all_goals first | exact teardownStart_g σ t _ | g_tac
theorem mgrDone_g (k : MK) : ((mgrDone σ t k).th t).g = (σ.th t).g := by
  unfold mgrDone; (try simp only []); repeat' split
  all_goals first
    | exact sendDone_g σ t _
    | (rw [recvDropTail_g]; done)
    | (rw [sendDropTail_g]; done)
    | g_tac
theorem freeEnd_g (k : MK) : ((freeEnd σ t k).th t).g = (σ.th t).g := by
  unfold freeEnd; (rw [mgrDone_g])
theorem freeTail_g (k : MK) : ((freeTail σ t k).th t).g = (σ.th t).g := by
  unfold freeTail; repeat' split
  all_goals first | (rw [mgrDone_g]; done) | g_tac
theorem startNotify2_g : ((stepRun.startNotify2 σ t).th t).g = (σ.th t).g := by
  unfold stepRun.startNotify2; g_tac
end

theorem stepLa2_g (σ0 σ : St) (t : Nat) (x : Th) (s : Nat) :
    ((stepRun.stepLa2 σ0 σ t x s).2.th t).g = (σ.th t).g := by
  unfold stepRun.stepLa2; simp only []; repeat' split
  all_goals (simp [St.goto, St.setTh, upd])

set_option maxHeartbeats 2000000 in
/-- a `run` step never changes which handle the thread is using -/
theorem stepRun_g (σ : St) (t inp : Nat) : ((stepRun σ t inp).2.th t).g = (σ.th t).g := by
  unfold stepRun
  simp only []
  split
  all_goals (repeat' split)
  all_goals first
    | rfl
    | (simp only [sendDone_g, recvDone_g, checkDone_g, startWait_g, afterNotify_g, startNotify_g, teardownStart_g,
        mgrDone_g, freeTail_g, freeEnd_g, startNotify2_g, stepLa2_g]; simp [St.goto, St.gotoF, St.setTh, St.setHd, St.flush, upd]; done)
    | (simp [St.goto, St.gotoF, St.setTh, St.setHd, St.flush, upd, teardownStart]; done)

/-- the token of the handle a thread is using -/
def tokOf (σ : St) (t : Nat) : Nat := (σ.hs (σ.th t).g).tok

theorem tokOf_stepRun (σ : St) (x inp u : Nat) : tokOf (stepRun σ x inp).2 u = tokOf σ u := by
  unfold tokOf
  have h1 := congrFun (stepRun_hsTok σ x inp)
  simp only [St.hsTok] at h1
  rw [h1]
  by_cases e : u = x
  · subst e; rw [stepRun_g]
  · rw [stepRun_th _ _ _ _ e]

end MQ
