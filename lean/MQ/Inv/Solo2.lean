import MQ.Inv.Solo
set_option linter.unusedSimpArgs false
set_option linter.unusedVariables false
namespace MQ

/-- what one own step of a try operation achieves -/
def SoloGoal (σ : St) (t inp : Nat) : Prop :=
  TryWF (stepRun σ t inp).2 t ∧ mu (stepRun σ t inp).2 t < mu σ t ∧ (stepRun σ t inp).1.kind.blocking = false
    ∧ ((stepRun σ t inp).2.th t).outer = (σ.th t).outer ∧ ((stepRun σ t inp).2.th t).s = (σ.th t).s

macro "solo_case" ho:ident hpc:ident wnn:ident wnf:ident : tactic =>
  `(tactic| (
    simp only [stepRun, $hpc:ident]
    repeat' split
    all_goals refine ⟨⟨?_, ?_, ?_⟩, ?_, ?_, ?_, ?_⟩
    all_goals (try (simp [mu, scanAll, scanLeft, tryPC, Kind.blocking, mkObs, sendDone, recvDone, mgrDone, St.goto, St.gotoF, St.setTh, St.setHd, St.flush, upd, stepRun.stepLa2, $ho:ident, $hpc:ident, $wnn:ident, $wnf:ident]; done))
    all_goals (simp [mu, scanAll, scanLeft, tryPC, Kind.blocking, mkObs, sendDone, recvDone, mgrDone, St.goto, St.gotoF, St.setTh, St.setHd, St.flush, upd, stepRun.stepLa2, $ho:ident, $hpc:ident, $wnn:ident, $wnf:ident, *])
    all_goals (try (repeat' split))
    all_goals omega))

macro "solo_case2" ho:ident hpc:ident wnn:ident wnf:ident h1:ident h2:ident : tactic =>
  `(tactic| (
    simp only [stepRun, $hpc:ident]
    repeat' split
    all_goals refine ⟨⟨?_, ?_, ?_⟩, ?_, ?_, ?_, ?_⟩
    all_goals (try (simp [mu, scanAll, scanLeft, tryPC, Kind.blocking, mkObs, sendDone, recvDone, mgrDone, St.goto, St.gotoF, St.setTh, St.setHd, St.flush, upd, stepRun.stepLa2, $ho:ident, $hpc:ident, $wnn:ident, $wnf:ident, $h1:ident, $h2:ident]; done))
    all_goals (simp [mu, scanAll, scanLeft, tryPC, Kind.blocking, mkObs, sendDone, recvDone, mgrDone, St.goto, St.gotoF, St.setTh, St.setHd, St.flush, upd, stepRun.stepLa2, $ho:ident, $hpc:ident, $wnn:ident, $wnf:ident, $h1:ident, $h2:ident])
    all_goals (try (repeat' split))
    all_goals omega))

set_option maxHeartbeats 4000000 in
theorem solo_send (σ : St) (t inp : Nat) (W : TryWF σ t) (ho : (σ.th t).outer = .trySend)
    (hr : ∀ r, (σ.th t).pc ≠ .ret r) : SoloGoal σ t inp := by
  obtain ⟨wpc, wnn, wnf⟩ := W
  unfold SoloGoal
  rw [ho] at wpc
  cases hpc : (σ.th t).pc
  case ret r => exact absurd hpc (hr r)
  case hd m h => cases m <;> solo_case ho hpc wnn wnf
  case u1 k => cases k <;> first | (rw [hpc] at wpc; simp [tryPC] at wpc; done) | solo_case ho hpc wnn wnf
  case g3 m h tl p r =>
    cases r <;> cases m <;> by_cases hc : σ.cur = p <;> solo_case2 ho hpc wnn wnf hc hc
  case s0 =>
    by_cases hnr : σ.noReader = true <;> by_cases hu : (σ.hs (σ.th t).g).uni = true <;> solo_case2 ho hpc wnn wnf hnr hu
  case u2 k e =>
    cases k <;> first | (rw [hpc] at wpc; simp [tryPC] at wpc; done) | skip
    by_cases hnr : σ.noReader = true <;> by_cases hu : (σ.hs (σ.th t).g).uni = true <;> solo_case2 ho hpc wnn wnf hnr hu
  case u3 k e =>
    cases k <;> first | (rw [hpc] at wpc; simp [tryPC] at wpc; done) | skip
    by_cases hnr : σ.noReader = true <;> by_cases hu : (σ.hs (σ.th t).g).uni = true <;> solo_case2 ho hpc wnn wnf hnr hu
  all_goals first
    | (rw [hpc] at wpc; simp [tryPC] at wpc; done)
    | solo_case ho hpc wnn wnf

set_option maxHeartbeats 4000000 in
theorem solo_recv (σ : St) (t inp : Nat) (W : TryWF σ t) (ho : (σ.th t).outer = .tryRecv ∨ (σ.th t).outer = .tryRecvView)
    (hr : ∀ r, (σ.th t).pc ≠ .ret r) : SoloGoal σ t inp := by
  obtain ⟨wpc, wnn, wnf⟩ := W
  unfold SoloGoal
  rcases ho with ho | ho
  all_goals rw [ho] at wpc
  all_goals cases hpc : (σ.th t).pc
  case inl.ret r => exact absurd hpc (hr r)
  case inr.ret r => exact absurd hpc (hr r)
  case inl.u1 k => cases k <;> first | (rw [hpc] at wpc; simp [tryPC] at wpc; done) | solo_case ho hpc wnn wnf
  case inr.u1 k => cases k <;> first | (rw [hpc] at wpc; simp [tryPC] at wpc; done) | solo_case ho hpc wnn wnf
  case inl.u2 k e => cases k <;> first | (rw [hpc] at wpc; simp [tryPC] at wpc; done) | solo_case ho hpc wnn wnf
  case inr.u2 k e => cases k <;> first | (rw [hpc] at wpc; simp [tryPC] at wpc; done) | solo_case ho hpc wnn wnf
  case inl.u3 k e => cases k <;> first | (rw [hpc] at wpc; simp [tryPC] at wpc; done) | solo_case ho hpc wnn wnf
  case inr.u3 k e => cases k <;> first | (rw [hpc] at wpc; simp [tryPC] at wpc; done) | solo_case ho hpc wnn wnf
  all_goals first
    | (rw [hpc] at wpc; simp [tryPC] at wpc; done)
    | solo_case ho hpc wnn wnf

end MQ
