import MQ.Inv.MgrRun
import MQ.Inv.RingMain
/-! # MgrInv holds in every state reachable under the mutex hypothesis -/
set_option linter.unusedSimpArgs false
namespace MQ

def MInvS (σ : St) : Prop := MgI σ.mgr σ.th

/-- a step that leaves the manager words alone and moves `t` between plain program points -/
theorem mgi_of_frame {σ σ' : St} (t : Nat) (I : MInvS σ) (hm : σ'.mgr = σ.mgr)
    (ho : ∀ u, u ≠ t → σ'.th u = σ.th u) (hs : (σ.th t).pc.mPlain = true) (ht : (σ'.th t).pc.mPlain = true) :
    MInvS σ' := by
  have hth : σ'.th = upd σ.th t (σ'.th t) := by
    funext u
    by_cases e : u = t
    · subst e; simp [upd]
    · simp [upd, e, ho u e]
  unfold MInvS
  rw [hth, hm]
  obtain ⟨p1, p2, p3, p4, p5⟩ := mPlain_facts ht
  obtain ⟨q1, q2, q3, q4, q5⟩ := mPlain_facts hs
  exact mgi_update_P1 I p1 (lockTr_same (by rw [p2, q2])) (lockTr_same (by rw [p3, q3])) rfl rfl rfl I.tokle q5 (p4 _)

theorem callPrep_mgr (σ : St) (t : Nat) (o : Outer) (g v ng ns : Nat) : (callPrep σ t o g v ng ns).mgr = σ.mgr := by
  unfold callPrep; simp only []; split <;> rfl

theorem callEntry_mgr (σ1 : St) (t : Nat) (o : Outer) (g ng ns : Nat) : (callEntry σ1 t o g ng ns).mgr = σ1.mgr := by
  unfold callEntry; simp only []; repeat' split
  all_goals rfl

theorem callEntry_plain (σ1 : St) (t : Nat) (o : Outer) (g ng ns : Nat) (hp : (σ1.th t).pc = .idle) :
    ((callEntry σ1 t o g ng ns).th t).pc.mPlain = true := by
  unfold callEntry; simp only []; repeat' split
  all_goals simp [St.goto, St.setTh, St.setHd, upd, PC.mPlain, PC.mgrPhase, PC.mgrOK, MK.isRmTokFree, MK.isRm1, hp]

theorem mgi_call {σ : St} (t : Nat) (o : Outer) (g v ng ns : Nat) (I : MInvS σ) :
    MInvS (step σ (.call t o g v ng ns)) := by
  simp only [step]
  split
  · rename_i hok
    simp only [callOk, Bool.and_eq_true, decide_eq_true_eq, Bool.not_eq_true', Bool.and_eq_false_iff] at hok
    obtain ⟨⟨⟨⟨⟨hidle, _⟩, _⟩, _⟩, _⟩, _⟩ := hok
    obtain ⟨hpcP, _⟩ := callPrep_pc σ t o g v ng ns
    apply mgi_of_frame t I
    · rw [callEntry_mgr, callPrep_mgr]
    · intro u hu; rw [callEntry_th_ne _ _ _ _ _ _ _ hu, callPrep_th_ne _ _ _ _ _ _ _ _ hu]
    · rw [hidle]; rfl
    · exact callEntry_plain _ t o g ng ns (by rw [hpcP, hidle])
  · exact I

theorem mgi_retn {σ : St} (t : Nat) (I : MInvS σ) : MInvS (step σ (.retn t)) := by
  simp only [step]
  split
  · rename_i r hpc
    repeat' split
    all_goals
      apply mgi_of_frame t I
      · simp only [mgr_setHd, mgr_flush, mgr_goto]
      · intro u hu; simp [St.goto, St.flush, St.setTh, St.setHd, upd, hu]
      · rw [hpc]; rfl
      · simp [St.goto, St.flush, St.setTh, St.setHd, upd, PC.mPlain, PC.mgrPhase, PC.mgrOK]
  · exact I

theorem mgi_arc {σ : St} (t : Nat) (I : MInvS σ) : MInvS (step σ (.arc t)) := by
  simp only [step]
  split
  · rename_i r hpc
    exact mgi_of_frame t I (arcStep_mgr σ t r) (fun u hu => arcStep_th σ t r u hu) (by rw [hpc]; rfl) (arcStep_plain σ t r)
  · exact I

theorem mgi_wake {σ : St} (t : Nat) (I : MInvS σ) : MInvS (step σ (.wake t)) := by
  simp only [step]
  split
  · rename_i j seq hpc
    split
    · exact I
    · apply mgi_of_frame t I
      · rfl
      · intro u hu; simp [St.goto, St.setTh, upd, hu]
      · rw [hpc]; rfl
      · simp [St.goto, St.setTh, upd, PC.mPlain, PC.mgrPhase, PC.mgrOK]
  · exact I

/-- the mutex hypothesis for a label -/
def LockStepOK (σ : St) : Label → Prop
  | .run t _ => LockOK σ t
  | _ => True

theorem mgi_step {σ : St} (l : Label) (I : MInvS σ) (h : LockStepOK σ l) : MInvS (step σ l) := by
  cases l
  case call t o g v ng ns => exact mgi_call t o g v ng ns I
  case run t inp => exact mgi_stepRun t inp I h
  case retn t => exact mgi_retn t I
  case arc t => exact mgi_arc t I
  case wake t => exact mgi_wake t I

theorem mgi_init (N : Nat) (bcast : Bool) (wait : WaitK) (fut : Bool) : MInvS (init N bcast wait fut) := by
  refine ⟨?_, ?_, ?_, ?_, ?_, ?_, ?_⟩ <;> simp [init, St.mgr, PC.mgrOK, PC.mgrHeld, PC.wtfHeld, MLoc]

/-- executions in which every blocking lock step finds its mutex free -/
inductive LockRun : St → List Label → St → Prop
  | nil (σ : St) : LockRun σ [] σ
  | cons {σ : St} {l : Label} {ls : List Label} {σ' : St} :
      LockStepOK σ l → LockRun (step σ l) ls σ' → LockRun σ (l :: ls) σ'

theorem mgi_lockRun {σ σ' : St} {ls : List Label} (r : LockRun σ ls σ') (I : MInvS σ) : MInvS σ' := by
  induction r with
  | nil => exact I
  | cons h _ ih => exact ih (mgi_step _ I h)

end MQ
