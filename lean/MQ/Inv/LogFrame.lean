import MQ.Inv.Frame2
/-! The ghost log is append-only: one step either leaves it alone or appends the value being sent. -/
namespace MQ

theorem log_of_ring {σ σ' : St} (h : σ'.ring = σ.ring) : σ'.log = σ.log := by
  have := congrArg Ring.log h; simpa [St.ring] using this

section
variable (σ : St) (t : Nat)
@[simp] theorem sendDone_log (r : Res) : (sendDone σ t r).log = σ.log := log_of_ring (sendDone_ring σ t r)
@[simp] theorem recvDone_log (r : Res) (j : Nat) : (recvDone σ t r j).log = σ.log := log_of_ring (recvDone_ring σ t r j)
@[simp] theorem checkDone_log (j seq : Nat) (ph : WPh) (b : Bool) : (checkDone σ t j seq ph b).log = σ.log :=
  log_of_ring (checkDone_ring σ t j seq ph b)
@[simp] theorem startWait_log (j seq : Nat) : (startWait σ t j seq).log = σ.log := log_of_ring (startWait_ring σ t j seq)
@[simp] theorem afterNotify_log (k : Nat) : (afterNotify σ t k).log = σ.log := log_of_ring (afterNotify_ring σ t k)
@[simp] theorem startNotify_log (k : Nat) : (startNotify σ t k).log = σ.log := log_of_ring (startNotify_ring σ t k)
@[simp] theorem teardownStart_log (r : Res) : (teardownStart σ t r).log = σ.log := log_of_ring (teardownStart_ring σ t r)
@[simp] theorem mgrDone_log (k : MK) : (mgrDone σ t k).log = σ.log := log_of_ring (mgrDone_ring σ t k)
@[simp] theorem freeTail_log (k : MK) : (freeTail σ t k).log = σ.log := log_of_ring (freeTail_ring σ t k)
@[simp] theorem freeEnd_log (k : MK) : (freeEnd σ t k).log = σ.log := log_of_ring (freeEnd_ring σ t k)
@[simp] theorem startNotify2_log : (stepRun.startNotify2 σ t).log = σ.log := log_of_ring (startNotify2_ring σ t)
@[simp] theorem goto_log (pc : PC) : (σ.goto t pc).log = σ.log := rfl
@[simp] theorem gotoF_log (pc : PC) (f : List Ord) : (σ.gotoF t pc f).log = σ.log := rfl
@[simp] theorem setTh_log (f : Th → Th) : (σ.setTh t f).log = σ.log := rfl
@[simp] theorem flush_log : (σ.flush t).log = σ.log := rfl
@[simp] theorem setHd_log (g : Nat) (f : Hd → Hd) : (σ.setHd g f).log = σ.log := rfl
end

@[simp] theorem stepLa2_log (σ0 σ : St) (t : Nat) (x : Th) (s : Nat) : (stepRun.stepLa2 σ0 σ t x s).2.log = σ.log :=
  log_of_ring (stepLa2_ring σ0 σ t x s)

set_option maxHeartbeats 2000000 in
/-- one `run` step leaves the log alone or appends the value the thread is sending (at the claim step) -/
theorem stepRun_log (σ : St) (t inp : Nat) :
    (stepRun σ t inp).2.log = σ.log ∨ (stepRun σ t inp).2.log = σ.log ++ [(σ.th t).v] := by
  unfold stepRun
  simp only []
  split
  all_goals (repeat' split)
  all_goals first
    | (left; simp only [sendDone_log, recvDone_log, checkDone_log, startWait_log, afterNotify_log, startNotify_log,
        teardownStart_log, mgrDone_log, freeTail_log, freeEnd_log, startNotify2_log, goto_log, gotoF_log, setTh_log, flush_log, setHd_log,
        stepLa2_log]; done)
    | (right; simp only [goto_log, gotoF_log, setTh_log, flush_log, setHd_log]; done)
    | (left; rfl)
    | (right; rfl)

end MQ
