import MQ.Inv.RingRun4
set_option linter.unusedSimpArgs false
/-!
# RingInv is preserved by every step of `Core`
-/
namespace MQ

/-- one `run` step preserves the ring invariant, as long as the known triggers stay away:
`hut`: a publishing `add_stream` CAS finds the parent position equal to its snapshot (F1 excluded);
`hne`: the step does not remove the last stream (F12 region excluded). -/
theorem rinv_stepRun {σ : St} (t inp : Nat) (I : RInv σ) (M : ModeOK σ)
    (hut : ∀ c raw ng, (σ.th t).pc = .a3 c raw ng → σ.cur = c → σ.pos (σ.th t).s = raw)
    (hne : (stepRun σ t inp).2.groups (stepRun σ t inp).2.cur ≠ []) :
    RInv (stepRun σ t inp).2 := by
  cases hpc : (σ.th t).pc
  case sh m => exact rinv_run_sh t inp m I M hpc
  case st m h => exact rinv_run_st t inp m h I hpc
  case g1 m h tl => exact rinv_run_g1 t inp m h tl I hpc
  case g2 m h tl p i md => exact rinv_run_g2 t inp m h tl p i md I hpc
  case g3 m h tl p r => exact rinv_run_g3 t inp m h tl p r I hpc
  case tcs h c => exact rinv_run_tcs t inp h c I M hpc
  case tcc h tl c => exact rinv_run_tcc t inp h tl c I M hpc
  case tcl h => exact rinv_run_tcl t inp h I hpc
  case rf m h => exact rinv_run_rf t inp m h I hpc
  case hd m h => exact rinv_run_hd t inp m h I M hpc
  case tg h => exact rinv_run_tg t inp h I hpc
  case wr h o => exact rinv_run_wr t inp h o I hpc
  case ts h o => exact rinv_run_ts t inp h o I M hpc
  case la1 => exact rinv_run_la1 t inp I hpc
  case la2 => exact rinv_run_la2 t inp I hpc
  case is1 => exact rinv_run_is1 t inp I hpc
  case r1 p sg => exact rinv_run_r1 t inp p sg I hpc
  case r2 p sg => exact rinv_run_r2 t inp p sg I hpc
  case r3 p sg => exact rinv_run_r3 t inp p sg I hpc
  case r3b p sg => exact rinv_run_r3b t inp p sg I hpc
  case r4 p => exact rinv_run_r4 t inp p I hpc
  case r5 p sg => exact rinv_run_r5 t inp p sg I hpc
  case r6 p => exact rinv_run_r6 t inp p I hpc
  case r7 sg => exact rinv_run_r7 t inp sg I hpc
  case rd p sg => exact rinv_run_rd t inp p sg I M hpc
  case rc p sg c => exact rinv_run_rc t inp p sg c I hpc
  case r8 p c => exact rinv_run_r8 t inp p c I hpc
  case r9 p sg c => exact rinv_run_r9 t inp p sg c I M hpc
  case fg p sg => exact rinv_run_fg t inp p sg I hpc
  case v1 p => exact rinv_run_v1 t inp p I M hpc
  case v2 p => exact rinv_run_v2 t inp p I hpc
  case v3 p => exact rinv_run_v3 t inp p I hpc
  case vw p c => exact rinv_run_vw t inp p c I hpc
  case vd p c => exact rinv_run_vd t inp p c I hpc
  case v4 p c => exact rinv_run_v4 t inp p c I M hpc
  case a1 => exact rinv_run_a1 t inp I hpc
  case a2 c => exact rinv_run_a2 t inp c I hpc
  case a3 c raw ng => exact rinv_run_a3 t inp c raw ng I M (hut c raw ng hpc) hpc
  case rr1 => exact rinv_run_rr1 t inp I hpc
  case rr2 c ng => exact rinv_run_rr2 t inp c ng I hne hpc
  all_goals exact rinv_run_neutral t inp I (by rw [hpc]; rfl)

end MQ

namespace MQ

theorem rinv_of_frame {σ σ' : St} (t : Nat) (I : RInv σ) (hr : σ'.ring = σ.ring)
    (ho : ∀ u, u ≠ t → σ'.th u = σ.th u) (hl : Loc σ.ring (σ'.th t))
    (hc : (σ'.th t).pc.claim = (σ.th t).pc.claim)
    (hns : (σ'.th t).pc.addPC = true → (σ.th t).pc.addPC = true ∧ (σ'.th t).ns = (σ.th t).ns) : RInv σ' := by
  have ht : σ'.th = upd σ.th t (σ'.th t) := by
    funext u
    by_cases e : u = t
    · subst e; simp [upd]
    · simp [upd, e, ho u e]
  unfold RInv
  rw [ht, hr]
  exact rinvR_same I hl hc hns

theorem rinv_retn {σ : St} (t : Nat) (I : RInv σ) : RInv (step σ (.retn t)) := by
  simp only [step]
  split
  · rename_i r hpc
    repeat' split
    all_goals
      apply rinv_of_frame t I
      · simp only [ring_setHd, ring_flush, ring_goto]
      · intro u hu; simp [St.goto, St.flush, St.setTh, St.setHd, upd, hu]
      · simp [Loc, St.goto, St.flush, St.setTh, St.setHd, upd]
      · simp [St.goto, St.flush, St.setTh, St.setHd, upd, PC.claim, hpc]
      · simp [St.goto, St.flush, St.setTh, St.setHd, upd, PC.addPC]
  · exact I

theorem rinv_arc {σ : St} (t : Nat) (I : RInv σ) : RInv (step σ (.arc t)) := by
  simp only [step]
  split
  · rename_i r hpc
    have hn := arcStep_neutral σ t r
    apply rinv_of_frame t I (arcStep_ring σ t r) (fun u hu => arcStep_th σ t r u hu) (loc_of_neutral hn)
    · rw [claim_of_neutral hn, hpc]; rfl
    · intro e; rw [neutral_not_add hn] at e; cases e
  · exact I

theorem rinv_wake {σ : St} (t : Nat) (I : RInv σ) : RInv (step σ (.wake t)) := by
  simp only [step]
  split
  · rename_i j seq hpc
    split
    · exact I
    · apply rinv_of_frame t I
      · rfl
      · intro u hu; simp [St.goto, St.setTh, upd, hu]
      · simp [Loc, St.goto, St.setTh, upd]
      · simp [St.goto, St.setTh, upd, PC.claim, hpc]
      · simp [St.goto, St.setTh, upd, PC.addPC]
  · exact I

end MQ

namespace MQ

theorem rinv_of_frame_sused {σ σ' : St} (t ns : Nat) (I : RInv σ)
    (hr : σ'.ring = { σ.ring with sused := upd σ.ring.sused ns true })
    (hfresh : σ.sused ns = false) (hidle : (σ.th t).pc = .idle)
    (ho : ∀ u, u ≠ t → σ'.th u = σ.th u)
    (hl : Loc { σ.ring with sused := upd σ.ring.sused ns true } (σ'.th t))
    (hc : (σ'.th t).pc.claim = none)
    (hxns : (σ'.th t).pc.addPC = true → (σ'.th t).ns = ns) : RInv σ' := by
  have ht : σ'.th = upd σ.th t (σ'.th t) := by
    funext u
    by_cases e : u = t
    · subst e; simp [upd]
    · simp [upd, e, ho u e]
  unfold RInv
  rw [ht, hr]
  exact rinvR_sused I hfresh (by rw [hidle]; rfl) (by rw [hidle]; rfl) hl hc hxns

theorem callPrep_th_ne (σ : St) (t : Nat) (o : Outer) (g v ng ns u : Nat) (h : u ≠ t) :
    (callPrep σ t o g v ng ns).th u = σ.th u := by
  unfold callPrep; simp only []; split <;> simp [St.setTh, St.setHd, upd, h]

theorem callPrep_pc (σ : St) (t : Nat) (o : Outer) (g v ng ns : Nat) :
    ((callPrep σ t o g v ng ns).th t).pc = (σ.th t).pc ∧ ((callPrep σ t o g v ng ns).th t).ns = ns := by
  unfold callPrep; simp only []; split <;> simp [St.setTh, St.setHd, upd]

theorem callPrep_ring (σ : St) (t : Nat) (o : Outer) (g v ng ns : Nat) :
    (callPrep σ t o g v ng ns).ring =
      if needStream o then { σ.ring with sused := upd σ.ring.sused ns true } else σ.ring := by
  unfold callPrep; simp only []; split <;> rfl

theorem callEntry_ring (σ1 : St) (t : Nat) (o : Outer) (g ng ns : Nat) :
    (callEntry σ1 t o g ng ns).ring = σ1.ring := by
  unfold callEntry; simp only []; repeat' split
  all_goals rfl

theorem callEntry_th_ne (σ1 : St) (t : Nat) (o : Outer) (g ng ns u : Nat) (h : u ≠ t) :
    (callEntry σ1 t o g ng ns).th u = σ1.th u := by
  unfold callEntry; simp only []; repeat' split
  all_goals simp [St.goto, St.setTh, St.setHd, upd, h]

/-- the first program point of a call: neutral, or `a1` for the two calls that create a stream -/
theorem callEntry_pc (σ1 : St) (t : Nat) (o : Outer) (g ng ns : Nat) (hp : (σ1.th t).pc = .idle) :
    (((callEntry σ1 t o g ng ns).th t).pc.neutral = true ∨
      (((callEntry σ1 t o g ng ns).th t).pc = .a1 ∧ needStream o = true)) ∧
    ((callEntry σ1 t o g ng ns).th t).ns = (σ1.th t).ns ∧
    ((callEntry σ1 t o g ng ns).th t).pc.claim = none := by
  unfold callEntry; simp only []; repeat' split
  all_goals simp [St.goto, St.setTh, St.setHd, upd, PC.neutral, PC.claim, needStream, hp]

theorem rinv_call {σ : St} (t : Nat) (o : Outer) (g v ng ns : Nat) (I : RInv σ) :
    RInv (step σ (.call t o g v ng ns)) := by
  have G := I.g
  simp only [step]
  split
  · rename_i hok
    simp only [callOk, Bool.and_eq_true, decide_eq_true_eq, Bool.not_eq_true', Bool.and_eq_false_iff] at hok
    obtain ⟨⟨⟨⟨⟨hidle, _⟩, _⟩, _⟩, _⟩, hS⟩ := hok
    obtain ⟨hpcP, hnsP⟩ := callPrep_pc σ t o g v ng ns
    obtain ⟨hpcE, hnsE, hclE⟩ := callEntry_pc (callPrep σ t o g v ng ns) t o g ng ns (by rw [hpcP, hidle])
    have hoth : ∀ u, u ≠ t → (callEntry (callPrep σ t o g v ng ns) t o g ng ns).th u = σ.th u := by
      intro u hu; rw [callEntry_th_ne _ _ _ _ _ _ _ hu, callPrep_th_ne _ _ _ _ _ _ _ _ hu]
    have hring := callEntry_ring (callPrep σ t o g v ng ns) t o g ng ns
    rw [callPrep_ring] at hring
    cases hneed : needStream o
    · -- no stream id is reserved: the ring is unchanged and the entry pc is neutral
      rw [hneed] at hring; simp only [Bool.false_eq_true, ↓reduceIte] at hring
      have hneu : ((callEntry (callPrep σ t o g v ng ns) t o g ng ns).th t).pc.neutral = true := by
        rcases hpcE with h | ⟨_, h⟩
        · exact h
        · rw [hneed] at h; cases h
      apply rinv_of_frame t I hring hoth (loc_of_neutral hneu)
      · rw [hclE, hidle]; rfl
      · intro e; rw [neutral_not_add hneu] at e; cases e
    · rw [hneed] at hring hS; simp only [↓reduceIte] at hring
      have hfresh : σ.sused ns = false := by
        rcases hS with h | h
        · cases h
        · exact h
      have hest : σ.est ns = false := by
        cases e : σ.est ns
        · rfl
        · have := G.estsub ns e; simp only [St.ring] at this; rw [hfresh] at this; cases this
      apply rinv_of_frame_sused t ns I hring hfresh hidle hoth
      · rcases hpcE with h | ⟨h, _⟩
        · exact loc_of_neutral h
        · simp only [Loc, h, hnsE, hnsP]
          simp only [St.ring, upd_same]
          exact ⟨trivial, hest⟩
      · exact hclE
      · intro _; rw [hnsE, hnsP]
  · exact I

end MQ

namespace MQ

/-- What a step must satisfy for the ring argument: mode facts (`ModeOK`, provided by `ModeInv`), and the
two known triggers stay away — `add_stream` publishes while the parent position still equals its
snapshot (F1), and the step does not remove the last stream (F12 region). -/
def StepOK (σ : St) : Label → Prop
  | .run t inp =>
      ModeOK σ ∧
      (∀ c raw ng, (σ.th t).pc = .a3 c raw ng → σ.cur = c → σ.pos (σ.th t).s = raw) ∧
      (stepRun σ t inp).2.groups (stepRun σ t inp).2.cur ≠ []
  | _ => True

theorem rinv_step {σ : St} (l : Label) (I : RInv σ) (h : StepOK σ l) : RInv (step σ l) := by
  cases l
  case call t o g v ng ns => exact rinv_call t o g v ng ns I
  case run t inp =>
    obtain ⟨M, hut, hne⟩ := h
    exact rinv_stepRun t inp I M hut hne
  case retn t => exact rinv_retn t I
  case arc t => exact rinv_arc t I
  case wake t => exact rinv_wake t I

theorem rinv_init (N : Nat) (bcast : Bool) (wait : WaitK) (fut : Bool) (hN : 0 < N) :
    RInv (init N bcast wait fut) := by
  refine ⟨?_, ?_, ?_, ?_, ?_⟩
  · constructor <;> simp [init, St.ring, reg, upd]
    · exact hN
  · intro t; simp [init, St.ring, Loc]
  · intro i h; simp [init, St.ring] at h
  · intro t1 t2 h h1; simp [init, PC.claim] at h1
  · intro t1 t2 h1; simp [init, PC.addPC] at h1

/-- executions in which every step satisfies `StepOK` -/
inductive GoodRun : St → List Label → St → Prop
  | nil (σ : St) : GoodRun σ [] σ
  | cons {σ : St} {l : Label} {ls : List Label} {σ' : St} :
      StepOK σ l → GoodRun (step σ l) ls σ' → GoodRun σ (l :: ls) σ'

theorem rinv_goodRun {σ σ' : St} {ls : List Label} (r : GoodRun σ ls σ') (I : RInv σ) : RInv σ' := by
  induction r with
  | nil => exact I
  | cons h _ ih => exact ih (rinv_step _ I h)

end MQ
