import MQ.Inv.PinMain
/-!
# DiscInv — the disconnect double check is sound

A receiver reports `Disconnected` after it (1) found the slot of its position without the position's tag, (2) read
`writers == 0`, (3) found the tag still missing, (4) found its stream still at that position. `DInv`: a thread
between (2) and the report knows `writers = 0` — which is stable, because a sender handle can only be cloned from a
counted sender handle — and from (3) on knows that the tag is still missing — stable, because only a thread inside
`try_send` publishes a tag, and such a thread uses a counted sender handle.
-/
set_option linter.unusedSimpArgs false
set_option linter.unusedVariables false
namespace MQ

/-- program points of the double check: position examined, and whether the second tag load has been done -/
def PC.dpos : PC → Option (Nat × Bool)
  | .r3 p _ | .v3 p => some (p, false)
  | .r3b p _ => some (p, true)
  | _ => none

structure DInv (σ : St) : Prop where
  chk : ∀ t p b, (σ.th t).pc.dpos = some (p, b) → σ.writers = 0 ∧ (b = true → σ.tag (p % σ.N) ≠ some p)

/-- a step of `x` that leaves `writers`, `tag`, `N` alone and does not enter the double check (or enters it with the
facts established) -/
theorem disc_mono {σ σ' : St} (x : Nat) (D : DInv σ)
    (hth : ∀ u, u ≠ x → σ'.th u = σ.th u)
    (hN : σ'.N = σ.N) (hw : σ'.writers = σ.writers) (htag : σ'.tag = σ.tag)
    (hd : ∀ p b, (σ'.th x).pc.dpos = some (p, b) → (σ.th x).pc.dpos = some (p, b) ∨
      (σ.writers = 0 ∧ (b = true → σ.tag (p % σ.N) ≠ some p))) : DInv σ' := by
  refine ⟨fun t p b h => ?_⟩
  rw [hw, htag, hN]
  by_cases e : t = x
  · subst e
    rcases hd p b h with a | a
    · exact D.chk t p b a
    · exact a
  · rw [hth t e] at h; exact D.chk t p b h

theorem neutral_dpos {pc : PC} (h : pc.neutral = true) : pc.dpos = none := by
  cases pc <;> simp [PC.neutral] at h <;> rfl

/-- while some thread is inside the double check there is no counted sender handle -/
theorem no_sender_of_chk {σ : St} (D : DInv σ) (M : MInv σ) {t p b} (h : (σ.th t).pc.dpos = some (p, b)) : σ.sl = [] := by
  have := (D.chk t p b h).1
  rw [M.wr] at this
  exact List.eq_nil_of_length_eq_zero this

end MQ
