import MQ.Inv.MgrDefs
/-!
# MgrInv — invariant of the epoch memory manager

* the two mutexes are held exactly by the threads whose program point lies inside the corresponding critical
  section (`ownM`, `ownW`);
* the inner epoch is the global epoch or one behind it (`ep`); when they are equal and nobody is between
  `add_freeable` and the epoch store, the pending batch `tofree` is empty (`idle`) — so `add_freeable`, which
  *overwrites* the batch, never loses an object;
* token values never exceed the epoch (`tokle`); an epoch value a thread carries is at most the epoch, and equal
  to it while the thread holds the manager mutex (`loc`).

Hypothesis (`LockOK`): a blocking `lock()` step is taken only when the mutex is free — mutexes are mutual
exclusion (modelled, not verified: `std::sync::Mutex`).
-/
set_option linter.unusedSimpArgs false
set_option linter.unusedVariables false
namespace MQ

/-- program points inside the critical section of `mem_manager` -/
def PC.mgrHeld : PC → Bool
  | .gt2 _ | .f3 _ | .f4 _ _ _ | .f5 _ | .f8 _ | .f9 _ _ | .f10 _ => true
  | _ => false

/-- program points inside the critical section of `wait_to_free` -/
def PC.wtfHeld : PC → Bool
  | .f2 _ | .f3 _ | .f4 _ _ _ | .f5 _ | .f7 _ | .f8 _ | .f9 _ _ | .f10 _ => true
  | _ => false

def MLoc (m : Mgr) (pc : PC) : Prop :=
  match pc with
  | .u2 _ e | .u3 _ e => e ≤ m.epoch
  | .f4 _ e _ => e = m.epoch
  | .f9 _ c => c = m.epoch ∧ m.iepoch = m.epoch
  | _ => True

structure MgI (m : Mgr) (th : Nat → Th) : Prop where
  ok : ∀ t, (th t).pc.mgrOK = true
  ownM : ∀ t, (th t).pc.mgrHeld = true ↔ m.mgrOwner = some t
  ownW : ∀ t, (th t).pc.wtfHeld = true ↔ m.wtfOwner = some t
  ep : m.iepoch = m.epoch ∨ m.iepoch + 1 = m.epoch
  idle : m.iepoch = m.epoch → (∀ t k c, (th t).pc ≠ .f9 k c) → m.tofree = []
  tokle : ∀ g, m.tokv g ≤ m.epoch
  loc : ∀ t, MLoc m (th t).pc

/-- a blocking lock step happens only when the mutex is free -/
def LockOK (σ : St) (t : Nat) : Prop :=
  match (σ.th t).pc with
  | .gt1 _ | .rt1 _ => σ.mgrOwner = none
  | .f1 _ _ | .tdm => σ.wtfOwner = none
  | _ => True

/-- program points without manager facts -/
def PC.mPlain (pc : PC) : Bool := !pc.mgrPhase && pc.mgrOK

theorem mPlain_facts {pc : PC} (h : pc.mPlain = true) :
    pc.mgrOK = true ∧ pc.mgrHeld = false ∧ pc.wtfHeld = false ∧ (∀ m, MLoc m pc) ∧ (∀ k c, pc ≠ .f9 k c) := by
  cases pc <;> simp [PC.mPlain, PC.mgrPhase, PC.mgrOK, PC.mgrHeld, PC.wtfHeld, MLoc] at h ⊢ <;> simp_all

theorem not_src_plain_held {pc : PC} (h : pc.mgrSrc = false) : pc.mgrHeld = false ∧ pc.wtfHeld = false ∧ (∀ k c, pc ≠ .f9 k c) := by
  cases pc <;> simp [PC.mgrSrc, PC.mgrHeld, PC.wtfHeld] at h ⊢

/-! ### how one thread's step moves a mutex -/

/-- the three ways a step of `t` relates to a mutex with critical section `held` -/
def LockTr (held : PC → Bool) (o o' : Option Nat) (pc pc' : PC) (t : Nat) : Prop :=
  (o' = o ∧ held pc' = held pc) ∨ (o = none ∧ o' = some t ∧ held pc' = true) ∨ (o = some t ∧ o' = none ∧ held pc' = false)

theorem own_update {held : PC → Bool} {o o' : Option Nat} {th : Nat → Th} {t : Nat} {x' : Th}
    (I : ∀ u, held (th u).pc = true ↔ o = some u) (h : LockTr held o o' (th t).pc x'.pc t) :
    ∀ u, held ((upd th t x') u).pc = true ↔ o' = some u := by
  intro u
  by_cases e : u = t
  · subst e
    simp only [upd_same]
    rcases h with ⟨h1, h2⟩ | ⟨h1, h2, h3⟩ | ⟨h1, h2, h3⟩
    · rw [h1, h2]; exact I u
    · rw [h2, h3]; simp
    · rw [h2, h3]; simp
  · simp only [upd, e, if_false]
    rcases h with ⟨h1, h2⟩ | ⟨h1, h2, h3⟩ | ⟨h1, h2, h3⟩
    · rw [h1]; exact I u
    · rw [h2]
      have := I u; rw [h1] at this
      constructor
      · intro hh; have := this.mp hh; cases this
      · intro hh; injection hh with hh; exact absurd hh.symm e
    · rw [h2]
      have := I u; rw [h1] at this
      constructor
      · intro hh; have := this.mp hh; injection this with this; exact absurd this.symm e
      · intro hh; cases hh

theorem MLoc_mono {m m' : Mgr} {pc : PC} (h : MLoc m pc) (he : m.epoch ≤ m'.epoch)
    (h4 : ∀ k e i, pc ≠ .f4 k e i) (h9 : ∀ k c, pc ≠ .f9 k c) : MLoc m' pc := by
  cases pc <;> simp only [MLoc] at h ⊢
  case u2 k e => omega
  case u3 k e => omega
  case f4 k e i => exact absurd rfl (h4 k e i)
  case f9 k c => exact absurd rfl (h9 k c)

theorem MLoc_congr {m m' : Mgr} {pc : PC} (h : MLoc m pc) (he : m'.epoch = m.epoch) (hi : m'.iepoch = m.iepoch) :
    MLoc m' pc := by
  cases pc <;> simp only [MLoc, he, hi] at h ⊢ <;> exact h

/-- the generic preservation lemma: `t` moves to `x'`, the manager words to `m'` -/
theorem mgi_update {m m' : Mgr} {th : Nat → Th} {t : Nat} {x' : Th} (I : MgI m th)
    (c_ok : x'.pc.mgrOK = true)
    (c_M : LockTr PC.mgrHeld m.mgrOwner m'.mgrOwner (th t).pc x'.pc t)
    (c_W : LockTr PC.wtfHeld m.wtfOwner m'.wtfOwner (th t).pc x'.pc t)
    (c_ep : m'.iepoch = m'.epoch ∨ m'.iepoch + 1 = m'.epoch)
    (c_idle : m'.iepoch = m'.epoch → (∀ u k c, u ≠ t → (th u).pc ≠ .f9 k c) → (∀ k c, x'.pc ≠ .f9 k c) → m'.tofree = [])
    (c_tok : ∀ g, m'.tokv g ≤ m'.epoch)
    (c_loc : MLoc m' x'.pc)
    (c_oth : ∀ u, u ≠ t → MLoc m' (th u).pc) : MgI m' (upd th t x') := by
  refine ⟨?_, own_update I.ownM c_M, own_update I.ownW c_W, c_ep, ?_, c_tok, ?_⟩
  · intro u; by_cases e : u = t
    · subst e; simpa using c_ok
    · simp only [upd, e, if_false]; exact I.ok u
  · intro h1 h2
    apply c_idle h1
    · intro u k c hu; have := h2 u k c; simpa [upd, hu] using this
    · intro k c; have := h2 t k c; simpa using this
  · intro u; by_cases e : u = t
    · subst e; simpa using c_loc
    · simp only [upd, e, if_false]; exact c_oth u e

/-- a thread other than the holder of the manager mutex is not at a program point that needs it -/
theorem other_not_held {m : Mgr} {th : Nat → Th} {t u : Nat} (I : MgI m th) (ht : m.mgrOwner = some t) (hu : u ≠ t) :
    (th u).pc.mgrHeld = false := by
  cases h : (th u).pc.mgrHeld
  · rfl
  · have := (I.ownM u).mp h; rw [ht] at this; injection this with this; exact absurd this.symm hu

theorem held_not_f4_f9 {pc : PC} (h : pc.mgrHeld = false) : (∀ k e i, pc ≠ .f4 k e i) ∧ (∀ k c, pc ≠ .f9 k c) := by
  cases pc <;> simp [PC.mgrHeld] at h ⊢

end MQ
