import MQ.Inv.WakeInv
/-! # a pending notifier stays pending until it has notified -/
set_option linter.unusedSimpArgs false
set_option linter.unusedVariables false
namespace MQ

macro "pend_simp" hw:ident : tactic =>
  `(tactic| simp [PC.pendB, PC.pendF, PC.dropPath, MK.isDropS, sendDone, startNotify, afterNotify, mgrDone, freeTail, freeEnd,
      sendDropTail, recvDropTail, teardownStart, WaitK.needsNotify, St.goto, St.gotoF, St.flush, St.setTh, St.setHd, upd, $hw:ident] at *)

theorem mgrDone_pendB (σ : St) (t : Nat) (k : MK) (a b : Nat) (hw : σ.wait = .blocking a b) (hk : k.isDropS = true) :
    ((mgrDone σ t k).th t).pc.pendB = true := by
  cases k <;> simp only [MK.isDropS] at hk
  case rmTok kk => cases kk <;> simp_all [mgrDone, PC.pendB, PC.dropPath, St.goto, St.setTh, upd]
  case rmTokFree kk =>
    cases kk
    · simp [mgrDone, sendDropTail, hw, PC.pendB, St.goto, St.setTh, upd]
    · simp at hk
  all_goals (cases hk)

theorem mgrDone_pendF (σ : St) (t : Nat) (k : MK) (a b : Nat) (hw : σ.wait = .fut a b) (hk : k.isDropS = true) :
    ((mgrDone σ t k).th t).pc.pendF = true := by
  cases k <;> simp only [MK.isDropS] at hk
  case rmTok kk => cases kk <;> simp_all [mgrDone, PC.pendF, PC.dropPath, St.goto, St.setTh, upd]
  case rmTokFree kk =>
    cases kk
    · simp [mgrDone, sendDropTail, hw, PC.pendF, St.goto, St.setTh, upd]
    · simp at hk
  all_goals (cases hk)

theorem freeTail_pendB (σ : St) (t : Nat) (k : MK) (a b : Nat) (hw : σ.wait = .blocking a b) (hk : k.isDropS = true) :
    ((freeTail σ t k).th t).pc.pendB = true := by
  unfold freeTail; split
  · simp [PC.pendB, PC.dropPath, St.goto, St.setTh, upd, hk]
  · exact mgrDone_pendB _ t k a b hw hk

theorem freeTail_pendF (σ : St) (t : Nat) (k : MK) (a b : Nat) (hw : σ.wait = .fut a b) (hk : k.isDropS = true) :
    ((freeTail σ t k).th t).pc.pendF = true := by
  unfold freeTail; split
  · simp [PC.pendF, PC.dropPath, St.goto, St.setTh, upd, hk]
  · exact mgrDone_pendF _ t k a b hw hk

theorem freeEnd_pendB (σ : St) (t : Nat) (k : MK) (a b : Nat) (hw : σ.wait = .blocking a b) (hk : k.isDropS = true) :
    ((freeEnd σ t k).th t).pc.pendB = true := by
  unfold freeEnd; exact mgrDone_pendB _ t k a b hw hk

theorem freeEnd_pendF (σ : St) (t : Nat) (k : MK) (a b : Nat) (hw : σ.wait = .fut a b) (hk : k.isDropS = true) :
    ((freeEnd σ t k).th t).pc.pendF = true := by
  unfold freeEnd; exact mgrDone_pendF _ t k a b hw hk

theorem sendDone_ok_pendB (σ : St) (t : Nat) (a b : Nat) (hw : σ.wait = .blocking a b) :
    ((sendDone σ t .ok).th t).pc.pendB = true := by
  unfold sendDone; simp only [hw, WaitK.needsNotify, startNotify]
  repeat' split
  all_goals first | (rename_i h; exact absurd trivial h) | simp [PC.pendB, St.goto, St.setTh, upd]

theorem sendDone_ok_pendF (σ : St) (t : Nat) (a b : Nat) (hw : σ.wait = .fut a b) :
    ((sendDone σ t .ok).th t).pc.pendF = true := by
  unfold sendDone; simp only [hw, WaitK.needsNotify, startNotify]
  repeat' split
  all_goals first | (rename_i h; exact absurd trivial h) | simp [PC.pendF, St.goto, St.setTh, upd]

/-- a pending condvar notifier stays one until it has executed `notify_all` -/
theorem pendB_step (σ : St) (x inp a b : Nat) (hw : σ.wait = .blocking a b) (hp : (σ.th x).pc.pendB = true)
    (hn : ∀ k, (σ.th x).pc ≠ .nb2 k) : ((stepRun σ x inp).2.th x).pc.pendB = true := by
  cases hpc : (σ.th x).pc <;> rw [hpc] at hp <;> (try (simp [PC.pendB, PC.dropPath] at hp; done))
  case od h => simp only [stepRun, hpc]; exact sendDone_ok_pendB _ x a b hw
  case nb1 k => simp only [stepRun, hpc]; simp [PC.pendB, St.goto, St.flush, St.setTh, upd]
  case nb2 k => exact absurd hpc (hn k)
  case u1 k => simp only [stepRun, hpc]; simpa [PC.pendB, PC.dropPath, St.goto, St.flush, St.setTh, upd] using hp
  case u2 k e =>
    have hk : k.isDropS = true := by simpa [PC.pendB, PC.dropPath] using hp
    simp only [stepRun, hpc]; split
    · exact mgrDone_pendB _ x k a b hw hk
    · simp [PC.pendB, PC.dropPath, St.goto, St.flush, St.setTh, upd, hk]
  case u3 k e =>
    have hk : k.isDropS = true := by simpa [PC.pendB, PC.dropPath] using hp
    simp only [stepRun, hpc]; exact mgrDone_pendB _ x k a b hw hk
  case rt1 kk =>
    cases kk
    · simp only [stepRun, hpc]; simp [PC.pendB, PC.dropPath, MK.isDropS, St.goto, St.flush, St.setTh, upd]
    · simp [PC.pendB, PC.dropPath] at hp
  case f1 k ob =>
    have hk : k.isDropS = true := by simpa [PC.pendB, PC.dropPath] using hp
    simp only [stepRun, hpc]; simp [PC.pendB, PC.dropPath, St.goto, St.flush, St.setTh, upd, hk]
  case f2 k =>
    have hk : k.isDropS = true := by simpa [PC.pendB, PC.dropPath] using hp
    simp only [stepRun, hpc]; split
    · simp [PC.pendB, PC.dropPath, St.goto, St.flush, St.setTh, upd, hk]
    · exact freeTail_pendB _ x k a b hw hk
  case f3 k =>
    have hk : k.isDropS = true := by simpa [PC.pendB, PC.dropPath] using hp
    simp only [stepRun, hpc]; split
    · exact freeTail_pendB _ x k a b hw hk
    · simp [PC.pendB, PC.dropPath, St.goto, St.flush, St.setTh, upd, hk]
  case f4 k e i =>
    have hk : k.isDropS = true := by simpa [PC.pendB, PC.dropPath] using hp
    simp only [stepRun, hpc]; repeat' split
    all_goals first
      | exact freeTail_pendB _ x k a b hw hk
      | (simp [PC.pendB, PC.dropPath, St.goto, St.flush, St.setTh, upd, hk]; done)
  case f5 k =>
    have hk : k.isDropS = true := by simpa [PC.pendB, PC.dropPath] using hp
    simp only [stepRun, hpc]; exact freeTail_pendB _ x k a b hw hk
  case f7 k =>
    have hk : k.isDropS = true := by simpa [PC.pendB, PC.dropPath] using hp
    simp only [stepRun, hpc]; split
    · simp [PC.pendB, PC.dropPath, St.goto, St.flush, St.setTh, upd, hk]
    · exact freeEnd_pendB _ x k a b hw hk
  case f8 k =>
    have hk : k.isDropS = true := by simpa [PC.pendB, PC.dropPath] using hp
    simp only [stepRun, hpc]; split
    · simp [PC.pendB, PC.dropPath, St.goto, St.flush, St.setTh, upd, hk]
    · exact freeEnd_pendB _ x k a b hw hk
  case f9 k c =>
    have hk : k.isDropS = true := by simpa [PC.pendB, PC.dropPath] using hp
    simp only [stepRun, hpc]; simp [PC.pendB, PC.dropPath, St.goto, St.flush, St.setTh, upd, hk]
  case f10 k =>
    have hk : k.isDropS = true := by simpa [PC.pendB, PC.dropPath] using hp
    simp only [stepRun, hpc]; exact freeEnd_pendB _ x k a b hw hk

/-- a pending notifier of the consumers' task list stays one until it has drained the list -/
theorem pendF_step (σ : St) (x inp a b : Nat) (hw : σ.wait = .fut a b) (hp : (σ.th x).pc.pendF = true)
    (hn : ∀ k, (σ.th x).pc ≠ .nf false k) : ((stepRun σ x inp).2.th x).pc.pendF = true := by
  cases hpc : (σ.th x).pc <;> rw [hpc] at hp <;> (try (simp [PC.pendF, PC.dropPath] at hp; done))
  case od h => simp only [stepRun, hpc]; exact sendDone_ok_pendF _ x a b hw
  case nf lst k =>
    cases lst
    · exact absurd hpc (hn k)
    · simp [PC.pendF, PC.dropPath] at hp
  case u1 k => simp only [stepRun, hpc]; simpa [PC.pendF, PC.dropPath, St.goto, St.flush, St.setTh, upd] using hp
  case u2 k e =>
    have hk : k.isDropS = true := by simpa [PC.pendF, PC.dropPath] using hp
    simp only [stepRun, hpc]; split
    · exact mgrDone_pendF _ x k a b hw hk
    · simp [PC.pendF, PC.dropPath, St.goto, St.flush, St.setTh, upd, hk]
  case u3 k e =>
    have hk : k.isDropS = true := by simpa [PC.pendF, PC.dropPath] using hp
    simp only [stepRun, hpc]; exact mgrDone_pendF _ x k a b hw hk
  case rt1 kk =>
    cases kk
    · simp only [stepRun, hpc]; simp [PC.pendF, PC.dropPath, MK.isDropS, St.goto, St.flush, St.setTh, upd]
    · simp [PC.pendF, PC.dropPath] at hp
  case f1 k ob =>
    have hk : k.isDropS = true := by simpa [PC.pendF, PC.dropPath] using hp
    simp only [stepRun, hpc]; simp [PC.pendF, PC.dropPath, St.goto, St.flush, St.setTh, upd, hk]
  case f2 k =>
    have hk : k.isDropS = true := by simpa [PC.pendF, PC.dropPath] using hp
    simp only [stepRun, hpc]; split
    · simp [PC.pendF, PC.dropPath, St.goto, St.flush, St.setTh, upd, hk]
    · exact freeTail_pendF _ x k a b hw hk
  case f3 k =>
    have hk : k.isDropS = true := by simpa [PC.pendF, PC.dropPath] using hp
    simp only [stepRun, hpc]; split
    · exact freeTail_pendF _ x k a b hw hk
    · simp [PC.pendF, PC.dropPath, St.goto, St.flush, St.setTh, upd, hk]
  case f4 k e i =>
    have hk : k.isDropS = true := by simpa [PC.pendF, PC.dropPath] using hp
    simp only [stepRun, hpc]; repeat' split
    all_goals first
      | exact freeTail_pendF _ x k a b hw hk
      | (simp [PC.pendF, PC.dropPath, St.goto, St.flush, St.setTh, upd, hk]; done)
  case f5 k =>
    have hk : k.isDropS = true := by simpa [PC.pendF, PC.dropPath] using hp
    simp only [stepRun, hpc]; exact freeTail_pendF _ x k a b hw hk
  case f7 k =>
    have hk : k.isDropS = true := by simpa [PC.pendF, PC.dropPath] using hp
    simp only [stepRun, hpc]; split
    · simp [PC.pendF, PC.dropPath, St.goto, St.flush, St.setTh, upd, hk]
    · exact freeEnd_pendF _ x k a b hw hk
  case f8 k =>
    have hk : k.isDropS = true := by simpa [PC.pendF, PC.dropPath] using hp
    simp only [stepRun, hpc]; split
    · simp [PC.pendF, PC.dropPath, St.goto, St.flush, St.setTh, upd, hk]
    · exact freeEnd_pendF _ x k a b hw hk
  case f9 k c =>
    have hk : k.isDropS = true := by simpa [PC.pendF, PC.dropPath] using hp
    simp only [stepRun, hpc]; simp [PC.pendF, PC.dropPath, St.goto, St.flush, St.setTh, upd, hk]
  case f10 k =>
    have hk : k.isDropS = true := by simpa [PC.pendF, PC.dropPath] using hp
    simp only [stepRun, hpc]; exact freeEnd_pendF _ x k a b hw hk

end MQ
