import MQ.Inv.PinRun
/-! # PinInv — the steps that pin, unpin, validate, claim, write and commit -/
set_option linter.unusedSimpArgs false
set_option linter.unusedVariables false
set_option maxHeartbeats 4000000
namespace MQ

theorem rdPos_pinPos {pc : PC} {p : Nat} (h : pc.rdPos = some p) : pc.pinPos = some p := by
  cases pc <;> simp [PC.rdPos] at h
  case rd q sg => cases sg <;> simp [PC.rdPos, PC.pinPos] at h ⊢; exact h
  case rc q sg c => cases sg <;> simp [PC.rdPos, PC.pinPos] at h ⊢; exact h

/-- no producer past its pin check sits on the slot of a position that is still its stream's position -/
theorem no_writer_on_current {σ : St} (I : RInv σ) {s p : Nat} (hreg : reg σ.ring s) (hs : sawTag σ.ring s p)
    (hp : σ.pos s = p) :
    ∀ w h, (σ.th w).pc.wPos = some h → ((σ.th w).pc.isHd = true → σ.head = h) → h % σ.N = p % σ.N → False := by
  intro w h hw hl hm
  have g := I.g
  have L := I.loc w
  have h1 := g.tcle s hreg
  have h2 := g.win s hreg
  have h3 := hs.1
  have h4 := hs.2 (by simp only [St.ring]; omega)
  simp only [St.ring] at h1 h2 h3 h4
  cases hpc : (σ.th w).pc <;> rw [hpc] at hw <;> simp [PC.wPos] at hw
  case hd m h' =>
    subst hw
    have := hl (by rw [hpc]; rfl)
    simp only [Loc, hpc, St.ring] at L
    have e := mod_window_inj hm (by omega) (by omega)
    omega
  case tg h' =>
    subst hw
    simp only [Loc, hpc, St.ring] at L
    obtain ⟨a, b, c, _⟩ := L
    have := b s hreg
    have e := mod_window_inj hm (by omega) (by omega)
    subst e; exact c h4
  case wr h' o =>
    subst hw
    simp only [Loc, hpc, St.ring] at L
    obtain ⟨a, b, c, _⟩ := L
    have := b s hreg
    have e := mod_window_inj hm (by omega) (by omega)
    subst e; exact c h4

macro "pin_f" hpc:ident : tactic => `(tactic| (simp only [stepRun, $hpc:ident]; rfl))

theorem pin_run_r4 {σ : St} (x inp p : Nat) (hb : σ.bcast = true) (P : PinInv σ) (hpc : (σ.th x).pc = .r4 p) :
    PinInv (stepRun σ x inp).2 := by
  apply pin_pin x p P (fun u hu => stepRun_th σ x inp u hu) (by pin_f hpc) (by pin_f hpc) (by pin_f hpc) (by pin_f hpc)
    (by pin_f hpc) (by pin_f hpc) (by rw [hpc]; rfl)
  · simp only [stepRun, hpc]; simp [St.goto, St.setTh, St.flush, upd, PC.pinPos]
  · simp only [stepRun, hpc]; simp [St.goto, St.setTh, St.flush, upd, PC.rdPos, PC.wPos, PC.sgPos]

theorem pin_run_r6 {σ : St} (x inp p : Nat) (hb : σ.bcast = true) (P : PinInv σ) (hpc : (σ.th x).pc = .r6 p) :
    PinInv (stepRun σ x inp).2 := by
  apply pin_unpin x p P (fun u hu => stepRun_th σ x inp u hu) (by pin_f hpc) (by pin_f hpc) (by pin_f hpc) (by pin_f hpc)
    (by pin_f hpc) (by pin_f hpc) (by rw [hpc]; rfl)
  · simp only [stepRun, hpc]; simp [St.goto, St.setTh, St.flush, upd, PC.pinPos]
  · simp only [stepRun, hpc]; simp [St.goto, St.setTh, St.flush, upd, PC.rdPos, PC.wPos, PC.sgPos]

theorem pin_run_r8 {σ : St} (x inp p : Nat) (c : Option Nat) (hb : σ.bcast = true) (P : PinInv σ)
    (hpc : (σ.th x).pc = .r8 p c) : PinInv (stepRun σ x inp).2 := by
  apply pin_unpin x p P (fun u hu => stepRun_th σ x inp u hu) (by pin_f hpc) (by pin_f hpc) (by pin_f hpc) (by pin_f hpc)
    (by pin_f hpc) (by pin_f hpc) (by rw [hpc]; rfl)
  · simp only [stepRun, hpc]; simp [St.goto, St.gotoF, St.setTh, St.flush, upd, PC.pinPos]
  · simp only [stepRun, hpc]; simp [St.goto, St.gotoF, St.setTh, St.flush, upd, PC.rdPos, PC.wPos, PC.sgPos]

/-- the re-check of the position under the pin: equality starts the validated read -/
theorem pin_run_r5 {σ : St} (x inp p : Nat) (sg : Bool) (hb : σ.bcast = true) (P : PinInv σ) (I : RInv σ) (hm : ModeOK σ)
    (hpc : (σ.th x).pc = .r5 p sg) : PinInv (stepRun σ x inp).2 := by
  cases sg
  · have hreg := hm.regd x (by rw [hpc]; rfl)
    have L := I.loc x; simp only [Loc, hpc] at L
    have key := fun (he : σ.pos (σ.th x).s = p) => no_writer_on_current I hreg L.1 he
    apply pin_mono x P (fun u hu => stepRun_th σ x inp u hu) (by pin_fld hpc) (by pin_fld hpc)
      (by pin_fld hpc) (by pin_fld hpc) (by pin_fld hpc) (by pin_fld hpc) (stepRun_sfld σ x inp)
    · rw [hpc]; pin_cls hpc
    · intro q hq
      by_cases he : σ.pos (σ.th x).s = p
      · right
        have : q = p := by
          simp only [stepRun, hpc, he, if_true] at hq
          simp [St.goto, St.setTh, St.flush, upd, PC.rdPos] at hq; exact hq.symm
        subst this; exact key he
      · exfalso; revert hq; pin_cls hpc
    all_goals ((try rw [hpc]); pin_cls hpc)
  · exact absurd hpc (P.r5f x p)

/-- the pin check of a producer: a count of zero means no consumer is inside a pinned section on the slot -/
theorem pin_run_rf {σ : St} (x inp h : Nat) (m : Bool) (hb : σ.bcast = true) (P : PinInv σ)
    (hpc : (σ.th x).pc = .rf m h) : PinInv (stepRun σ x inp).2 := by
  have key : σ.ref (h % σ.N) = 0 → ∀ t p, (σ.th t).pc.rdPos = some p → h % σ.N = p % σ.N → False := by
    intro h0 t p hr hmod
    obtain ⟨l, _, l2, l3⟩ := P.cnt (h % σ.N)
    rw [h0] at l3
    have : l = [] := List.eq_nil_of_length_eq_zero l3.symm
    have ht : t ∈ l := (l2 t).mpr ⟨p, rdPos_pinPos hr, hmod.symm⟩
    rw [this] at ht; cases ht
  apply pin_mono x P (fun u hu => stepRun_th σ x inp u hu) (by pin_fld hpc) (by pin_fld hpc)
    (by pin_fld hpc) (by pin_fld hpc) (by pin_fld hpc) (by pin_fld hpc) (stepRun_sfld σ x inp)
  · rw [hpc]; pin_cls hpc
  · rw [hpc]; pin_cls hpc
  · intro h' hq
    by_cases h0 : σ.ref (h % σ.N) = 0
    · right
      have : h' = h := by
        simp only [stepRun, hpc, h0, if_true] at hq
        simp [St.gotoF, St.setTh, St.flush, upd, PC.wPos] at hq; exact hq.symm
      subst this; exact key h0
    · exfalso; revert hq; pin_cls hpc
  all_goals ((try rw [hpc]); pin_cls hpc)

/-- the clone: what was read is still in the slot -/
theorem pin_run_rc {σ : St} (x inp p : Nat) (sg : Bool) (c : Option Nat) (hb : σ.bcast = true) (P : PinInv σ)
    (hpc : (σ.th x).pc = .rc p sg c) : PinInv (stepRun σ x inp).2 := by
  have hst := P.stable x p sg c hpc
  cases sg
  all_goals
    apply pin_mono x P (fun u hu => stepRun_th σ x inp u hu)
      (by simp only [stepRun, hpc, hst, if_true, Bool.false_eq_true, if_false]; rfl)
      (by simp only [stepRun, hpc, hst, if_true, Bool.false_eq_true, if_false]; rfl)
      (by simp only [stepRun, hpc, hst, if_true, Bool.false_eq_true, if_false]; rfl)
      (by simp only [stepRun, hpc, hst, if_true, Bool.false_eq_true, if_false]; rfl)
      (by simp only [stepRun, hpc, hst, if_true, Bool.false_eq_true, if_false]; rfl)
      (by simp only [stepRun, hpc, hst, if_true, Bool.false_eq_true, if_false]; rfl)
      (stepRun_sfld σ x inp)
  all_goals
    (try rw [hpc])
    simp only [stepRun, hpc, hst, if_true, Bool.false_eq_true, if_false]
    simp [PC.pinPos, PC.rdPos, PC.wPos, PC.sgPos, PC.isHd, St.goto, St.gotoF, St.flush, St.setTh, St.setHd, upd]

/-- the view closure: the sole consumer's slot is unchanged -/
theorem pin_run_vw {σ : St} (x inp p : Nat) (c : Option Nat) (hb : σ.bcast = true) (P : PinInv σ) (I : RInv σ) (hm : ModeOK σ)
    (hpc : (σ.th x).pc = .vw p c) : PinInv (stepRun σ x inp).2 := by
  have hreg := hm.regd x (by rw [hpc]; rfl)
  have L := I.loc x; simp only [Loc, hpc] at L
  obtain ⟨k1, k2, k3, k4⟩ := L
  have hst : σ.cont (p % σ.N) = c := by
    have := cont_of_sawTag I hreg (s := (σ.th x).s) (p := p) ⟨k2, fun _ => k3⟩ (by simp only [St.ring] at k1; omega)
    rw [this, k4]; rfl
  apply pin_mono x P (fun u hu => stepRun_th σ x inp u hu)
    (by simp only [stepRun, hpc, hst, if_true, hb]; rfl)
    (by simp only [stepRun, hpc, hst, if_true, hb]; rfl)
    (by simp only [stepRun, hpc, hst, if_true, hb]; rfl)
    (by simp only [stepRun, hpc, hst, if_true, hb]; rfl)
    (by simp only [stepRun, hpc, hst, if_true, hb]; rfl)
    (by simp only [stepRun, hpc, hst, if_true, hb]; rfl)
    (stepRun_sfld σ x inp)
  all_goals
    (try rw [hpc])
    simp only [stepRun, hpc, hst, if_true, hb]
    simp [PC.pinPos, PC.rdPos, PC.wPos, PC.sgPos, PC.isHd, St.goto, St.gotoF, St.flush, St.setTh, St.setHd, upd]

theorem hd_le_head {σ : St} (I : RInv σ) : ∀ w m h', (σ.th w).pc = .hd m h' → h' ≤ σ.head := by
  intro w m h' hpc
  have L := I.loc w; simp only [Loc, hpc, St.ring] at L; exact L.1

/-- the claim -/
theorem pin_run_hd {σ : St} (x inp h : Nat) (m : Bool) (hb : σ.bcast = true) (P : PinInv σ) (I : RInv σ)
    (hpc : (σ.th x).pc = .hd m h) : PinInv (stepRun σ x inp).2 := by
  have L := I.loc x; simp only [Loc, hpc, St.ring] at L
  cases m
  · have hh : σ.head = h := L.2.2 rfl
    apply pin_claim x h P (fun u hu => stepRun_th σ x inp u hu) (by pin_f hpc) (by pin_f hpc) (by pin_f hpc) (by pin_f hpc)
      (by pin_f hpc) hh (by pin_f hpc) ⟨false, hpc⟩
    · simp only [stepRun, hpc]; simp [St.goto, St.setTh, St.flush, upd]
    · exact hd_le_head I
  · by_cases hh : σ.head = h
    · apply pin_claim x h P (fun u hu => stepRun_th σ x inp u hu)
        (by simp only [stepRun, hpc, hh, if_true]; rfl) (by simp only [stepRun, hpc, hh, if_true]; rfl)
        (by simp only [stepRun, hpc, hh, if_true]; rfl) (by simp only [stepRun, hpc, hh, if_true]; rfl)
        (by simp only [stepRun, hpc, hh, if_true]; rfl) hh (by simp only [stepRun, hpc, hh, if_true]; rfl) ⟨true, hpc⟩
      · simp only [stepRun, hpc, hh, if_true]; simp [St.goto, St.setTh, St.flush, upd]
      · exact hd_le_head I
    · apply pin_mono x P (fun u hu => stepRun_th σ x inp u hu)
        (by simp only [stepRun, hpc, hh, if_false]; rfl) (by simp only [stepRun, hpc, hh, if_false]; rfl)
        (by simp only [stepRun, hpc, hh, if_false]; rfl) (by simp only [stepRun, hpc, hh, if_false]; rfl)
        (by simp only [stepRun, hpc, hh, if_false]; rfl) (by simp only [stepRun, hpc, hh, if_false]; rfl)
        (stepRun_sfld σ x inp)
      all_goals
        (try rw [hpc])
        simp only [stepRun, hpc, hh, if_false]
        simp [PC.pinPos, PC.rdPos, PC.wPos, PC.sgPos, PC.isHd, St.goto, St.gotoF, St.flush, St.setTh, St.setHd, upd]

theorem sgPos_sgFlag {pc : PC} {p : Nat} (h : pc.sgPos = some p) : pc.sgFlag = true ∧ pc.recvOp = true := by
  cases pc <;> simp [PC.sgPos] at h
  case r1 q sg => cases sg <;> simp_all [PC.sgPos, PC.sgFlag, PC.recvOp, PC.recvActive]
  case r2 q sg => cases sg <;> simp_all [PC.sgPos, PC.sgFlag, PC.recvOp, PC.recvActive]
  case r3 q sg => cases sg <;> simp_all [PC.sgPos, PC.sgFlag, PC.recvOp, PC.recvActive]
  case r3b q sg => cases sg <;> simp_all [PC.sgPos, PC.sgFlag, PC.recvOp, PC.recvActive]
  case rd q sg => cases sg <;> simp_all [PC.sgPos, PC.sgFlag, PC.recvOp, PC.recvActive]
  case rc q sg c => cases sg <;> simp_all [PC.sgPos, PC.sgFlag, PC.recvOp, PC.recvActive]
  case r9 q sg c => cases sg <;> simp_all [PC.sgPos, PC.sgFlag, PC.recvOp, PC.recvActive]
  case fg q sg => cases sg <;> simp_all [PC.sgPos, PC.sgFlag, PC.recvOp, PC.recvActive]

/-- an unpinned reader is alone on its stream: nobody else commits there -/
theorem sg_alone {σ : St} (M : MInv σ) {x : Nat} (hx : (σ.th x).pc.recvOp = true) :
    ∀ t p, t ≠ x → (σ.th t).pc.sgPos = some p → (σ.th t).s ≠ (σ.th x).s := by
  intro t p htx hsg hs
  obtain ⟨f1, f2⟩ := sgPos_sgFlag hsg
  have hcl := (M.thr t).sgl (by
    cases hpc : (σ.th t).pc <;> rw [hpc] at f1 <;> simp [Th.sgOn, hpc, PC.sgFlag] at f1 ⊢ <;> exact f1)
  have gx := ((M.thr x).rcv hx).1
  rw [← hs, hcl] at gx
  simp at gx
  exact M.excl x t (fun e => htx e.symm) (not_idle_of_recvOp hx) (not_idle_of_recvOp f2) gx

end MQ
