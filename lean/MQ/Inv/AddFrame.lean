import MQ.Inv.ModeMain
import MQ.Inv.PinRun
/-!
# Frame facts for `add_stream` (C10): its program points touch no queue data and are closed under the step function
-/
namespace MQ

/-- program points of `add_stream` after the call was dispatched: the publication loop (`a1`–`a3`) and the release of
the old stream list through the memory manager, up to the return of the new handle -/

def PC.inAdd (pc : PC) : Bool := pc.addPC || pc.afterNew

local macro "add_fin" hpc:ident ha:ident : tactic =>
  `(tactic| (rw [$hpc:ident] at $ha:ident; first
      | (simp [PC.inAdd, PC.addPC, PC.afterNew] at $ha:ident; done)
      | (pin_unf $hpc:ident <;> (repeat' split) <;>
          simp_all [PC.inAdd, PC.addPC, PC.afterNew, St.goto, St.gotoF, St.flush, St.setTh, St.setHd, upd])))

set_option maxHeartbeats 4000000 in
theorem C10_add_stream_stays_in_its_program (σ : St) (t inp : Nat) (_ho : (σ.th t).outer = .addStream)
    (ha : (σ.th t).pc.inAdd = true) :
    ((stepRun σ t inp).2.th t).pc.inAdd = true ∧ ((stepRun σ t inp).2.th t).outer = (σ.th t).outer ∧
    ((stepRun σ t inp).2.th t).ns = (σ.th t).ns := by
  cases hpc : (σ.th t).pc
  case gt1 k => cases k <;> add_fin hpc ha
  case gt2 k => cases k <;> add_fin hpc ha
  case f1 k o => cases k <;> add_fin hpc ha
  case f2 k => cases k <;> add_fin hpc ha
  case f3 k => cases k <;> add_fin hpc ha
  case f4 k e i => cases k <;> add_fin hpc ha
  case f5 k => cases k <;> add_fin hpc ha
  case f7 k => cases k <;> add_fin hpc ha
  case f8 k => cases k <;> add_fin hpc ha
  case f9 k c => cases k <;> add_fin hpc ha
  case f10 k => cases k <;> add_fin hpc ha
  all_goals add_fin hpc ha

set_option maxHeartbeats 4000000 in
theorem C10_add_stream_touches_no_data (σ : St) (t inp : Nat) (ha : (σ.th t).pc.inAdd = true) :
    let σ' := (stepRun σ t inp).2
    σ'.head = σ.head ∧ σ'.tc = σ.tc ∧ σ'.writers = σ.writers ∧ σ'.tag = σ.tag ∧ σ'.cont = σ.cont ∧ σ'.ref = σ.ref ∧
    σ'.log = σ.log ∧ σ'.drops = σ.drops ∧ σ'.noReader = σ.noReader ∧
    (∀ s', s' ≠ (σ.th t).ns → σ'.pos s' = σ.pos s' ∧ σ'.dlv s' = σ.dlv s' ∧ σ'.start s' = σ.start s' ∧
      σ'.ncons s' = σ.ncons s') := by
  cases hpc : (σ.th t).pc
  all_goals (rw [hpc] at ha; first | (simp [PC.inAdd, PC.addPC, PC.afterNew] at ha; done) | skip)
  all_goals (pin_unf hpc <;> (repeat' split) <;> simp_all [PC.inAdd, PC.addPC, PC.afterNew, St.goto, St.gotoF, St.flush, St.setTh, upd])

theorem idle_stepRun (σ : St) (t inp : Nat) (h : (σ.th t).pc = .idle) : (stepRun σ t inp).2.th t = σ.th t := by
  simp [stepRun, h]

set_option maxHeartbeats 4000000 in
set_option maxRecDepth 8000 in
theorem outer_step (σ : St) (t inp : Nat) :
    ((stepRun σ t inp).2.th t).outer = (σ.th t).outer ∨ ∃ a b, ((stepRun σ t inp).2.th t).outer = .startSend a b := by
  cases hpc : (σ.th t).pc
  all_goals (pin_unf hpc <;> (repeat' split) <;> first | (left; rfl) | (simp [St.goto, St.gotoF, St.flush, St.setTh, St.setHd, upd]; done))

theorem outer_add_of_step (σ : St) (t inp : Nat) (h : ((stepRun σ t inp).2.th t).outer = .addStream) :
    (σ.th t).outer = .addStream := by
  rcases outer_step σ t inp with e | ⟨a, b, e⟩
  · rw [← e]; exact h
  · rw [e] at h; cases h

end MQ
