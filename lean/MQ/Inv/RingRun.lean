import MQ.Inv.RingRun0
set_option linter.unusedSimpArgs false
namespace MQ

/-- pcs about which `Loc` says nothing and that hold no claim -/
def PC.neutral : PC → Bool
  | .st _ _ | .g1 _ _ _ | .g2 _ _ _ _ _ _ | .g3 _ _ _ _ _ | .tcs _ _ | .tcc _ _ _ | .tcl _ | .rf _ _ | .hd _ _
  | .tg _ | .wr _ _ | .ts _ _
  | .is1 _ | .r1 _ _ | .r2 _ _ | .r3 _ _ | .r3b _ _ | .r4 _ | .r5 _ _ | .r6 _ | .rd _ _ | .rc _ _ _ | .r8 _ _
  | .r9 _ _ _ | .v1 _ | .v2 _ | .v3 _ | .vw _ _ | .vd _ _ | .v4 _ _ => false
  | _ => true

theorem loc_of_neutral {R : Ring} {x : Th} (h : x.pc.neutral = true) : Loc R x := by
  obtain ⟨pc, g', v', outer, ff, pn, ng, ns, s, single, aux⟩ := x
  cases pc
  case g3 m h' tl p r => cases r <;> simp [PC.neutral] at h
  all_goals first | (simp [PC.neutral] at h; done) | simp only [Loc]

theorem claim_of_neutral {pc : PC} (h : pc.neutral = true) : pc.claim = none := by
  cases pc <;> first | rfl | (simp [PC.neutral] at h)

macro "neutral_tac" : tactic =>
  `(tactic| ((try simp only []); repeat' split) <;> first | rfl | (simp [PC.neutral, St.goto, St.gotoF, St.setTh, St.setHd, St.flush, upd, *]; done))

section
variable (σ : St) (t : Nat)

theorem afterNotify_neutral (k : Nat) : ((afterNotify σ t k).th t).pc.neutral = true := by
  unfold afterNotify; neutral_tac
theorem teardownStart_neutral (r : Res) : ((teardownStart σ t r).th t).pc.neutral = true := by
  unfold teardownStart; neutral_tac
theorem arcStep_neutral (r : Res) : ((arcStep σ t r).th t).pc.neutral = true := by
  unfold arcStep; neutral_tac
theorem startNotify_neutral (k : Nat) : ((startNotify σ t k).th t).pc.neutral = true := by
  unfold startNotify; split <;> first | exact afterNotify_neutral σ t k | neutral_tac
theorem sendDone_neutral (r : Res) : ((sendDone σ t r).th t).pc.neutral = true := by
  unfold sendDone; (try simp only []); repeat' split
  all_goals first | exact startNotify_neutral σ t _ | neutral_tac
theorem startWait_neutral (j seq : Nat) : ((startWait σ t j seq).th t).pc.neutral = true := by
  unfold startWait; neutral_tac
theorem recvDone_neutral (r : Res) (j : Nat) : ((recvDone σ t r j).th t).pc.neutral = true := by
  unfold recvDone; neutral_tac
theorem waitDone_neutral : ((waitDone σ t).th t).pc.neutral = true := by
  unfold waitDone; neutral_tac
theorem checkDone_neutral (j seq : Nat) (ph : WPh) (b : Bool) : ((checkDone σ t j seq ph b).th t).pc.neutral = true := by
  unfold checkDone; repeat' split
  all_goals first | exact waitDone_neutral _ t | neutral_tac
theorem recvDropEnd_neutral (x : Th) (f : List Ord) : ((stepRun.recvDropEnd σ t x f).th t).pc.neutral = true := by
  unfold stepRun.recvDropEnd; (try simp only []); repeat' split
  all_goals first | (simp [teardownStart, PC.neutral, St.goto, St.setTh, upd]; done) | neutral_tac
theorem startNotify2_neutral : ((stepRun.startNotify2 σ t).th t).pc.neutral = true := by
  unfold stepRun.startNotify2; neutral_tac
end

end MQ

namespace MQ

/-- pcs whose step leaves the ring unchanged and ends in a neutral pc -/
def PC.srcNeutral : PC → Bool
  | .idle | .ret _ | .s0 | .m1 | .od _ | .nb1 _ | .nb2 _ | .nf _ _ | .r0 | .c1 _ _ _ | .c2 _ _ _ _ | .wy _ _ _
  | .wl _ _ | .wcvw _ _ | .wblk _ _ | .pk _ _ | .psl | .cs1 | .ds1 | .cr1 | .un1 | .dr1 | .rr3 _ | .rr4 | .rr5
  | .a1 | .isg | .arc _ | .tdb _ | .tdbd _ | .tm1 _ | .tm2 _ | .tm3 _ | .tmd _ | .tm4 _ | .sy | .spl | .w0 _ => true
  | _ => false

set_option maxHeartbeats 1000000 in
theorem stepRun_neutral (σ : St) (t inp : Nat) (h : (σ.th t).pc.srcNeutral = true) :
    ((stepRun σ t inp).2.th t).pc.neutral = true := by
  have hcl := h
  unfold stepRun
  simp only []
  split
  all_goals (first | (rename_i heq; rw [heq] at h; simp [PC.srcNeutral] at h; done) | skip)
  all_goals (repeat' split)
  all_goals first
    | rfl
    | (rename_i heq; simp only [heq]; rfl)
    | (rename_i heq _; simp only [heq]; rfl)
    | exact sendDone_neutral _ t _
    | exact recvDone_neutral _ t _ _
    | exact checkDone_neutral _ t _ _ _ _
    | exact startWait_neutral _ t _ _
    | exact afterNotify_neutral _ t _
    | exact startNotify_neutral _ t _
    | exact teardownStart_neutral _ t _
    | exact recvDropEnd_neutral _ t _ _
    | exact startNotify2_neutral _ t
    | (simp [PC.neutral, St.goto, St.gotoF, St.setTh, St.setHd, St.flush, upd, teardownStart]; done)

end MQ

namespace MQ

theorem srcNeutral_not_changing {pc : PC} (h : pc.srcNeutral = true) : pc.ringChanging = false := by
  cases pc <;> first | rfl | (simp [PC.srcNeutral] at h)

theorem srcNeutral_claim {pc : PC} (h : pc.srcNeutral = true) : pc.claim = none := by
  cases pc <;> first | rfl | (simp [PC.srcNeutral] at h)

theorem rinv_run_neutral {σ : St} (t inp : Nat) (I : RInv σ) (h : (σ.th t).pc.srcNeutral = true) :
    RInv (stepRun σ t inp).2 := by
  unfold RInv
  rw [th_eq_upd, stepRun_ring_same _ _ _ (srcNeutral_not_changing h)]
  have hn := stepRun_neutral σ t inp h
  exact rinvR_same I (loc_of_neutral hn) (by rw [claim_of_neutral hn, srcNeutral_claim h])

end MQ
