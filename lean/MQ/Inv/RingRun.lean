import MQ.Inv.Frame2
import MQ.Inv.RingSteps
set_option linter.unusedSimpArgs false
namespace MQ

theorem loc_of_neutral {R : Ring} {x : Th} (h : x.pc.neutral = true) : Loc R x := by
  obtain ⟨pc, g', v', outer, ff, pn, ng, ns, s, single, aux⟩ := x
  cases pc
  case g3 m h' tl p r => cases r <;> simp [PC.neutral] at h
  all_goals first | (simp [PC.neutral] at h; done) | simp only [Loc]

theorem rinv_run_neutral {σ : St} (t inp : Nat) (I : RInv σ) (h : (σ.th t).pc.srcNeutral = true) :
    RInv (stepRun σ t inp).2 := by
  unfold RInv
  rw [th_eq_upd, stepRun_ring_same _ _ _ (srcNeutral_not_changing h)]
  have hn := stepRun_neutral σ t inp h
  exact rinvR_same I (loc_of_neutral hn) (by rw [claim_of_neutral hn, srcNeutral_claim h])
    (by intro e; rw [neutral_not_add hn] at e; cases e)

end MQ
