import MQ.Inv.DiscRun
/-! # DiscInv — labels, initial state, main theorems -/
set_option linter.unusedSimpArgs false
set_option linter.unusedVariables false
set_option maxHeartbeats 4000000
namespace MQ

theorem disc_arc {σ : St} (t : Nat) (D : DInv σ) : DInv (step σ (.arc t)) := by
  by_cases hr : ∃ r, (σ.th t).pc = .arc r
  rotate_left
  · have : step σ (.arc t) = σ := by
      simp only [step]; split
      · rename_i r h; exact absurd ⟨r, h⟩ hr
      · rfl
    rw [this]; exact D
  obtain ⟨r, hpc⟩ := hr
  have e : step σ (.arc t) = arcStep σ t r := by simp only [step, hpc]
  rw [e]
  have hr := arcStep_ring σ t r
  exact disc_mono t D (fun u hu => arcStep_th σ t r u hu) (congrArg Ring.N hr)
    (congrArg HTab.writers (arcStep_htab σ t r)) (congrArg Ring.tag hr)
    (fun p b hq => by rw [neutral_dpos (arcStep_neutral σ t r)] at hq; cases hq)

theorem disc_wake {σ : St} (t : Nat) (D : DInv σ) : DInv (step σ (.wake t)) := by
  by_cases hr : ∃ j seq, (σ.th t).pc = .wblk j seq ∧ ¬ (σ.cvWaiters.contains t || σ.wlockOwner.isSome) = true
  rotate_left
  · have : step σ (.wake t) = σ := by
      simp only [step]; split
      · rename_i j seq h
        split
        · rfl
        · rename_i h2; exact absurd ⟨j, seq, h, h2⟩ hr
      · rfl
    rw [this]; exact D
  obtain ⟨j, seq, hpc, hc⟩ := hr
  have e : step σ (.wake t) = σ.goto t (.c1 j seq .after) := by simp only [step, hpc]; rw [if_neg hc]
  rw [e]
  exact disc_mono t D (fun u hu => by simp [St.goto, St.setTh, upd, hu]) rfl rfl rfl
    (fun p b hq => by simp [St.goto, St.setTh, upd, PC.dpos] at hq)

theorem disc_retn {σ : St} (t : Nat) (D : DInv σ) : DInv (step σ (.retn t)) := by
  by_cases hr : ∃ r, (σ.th t).pc = .ret r
  rotate_left
  · have : step σ (.retn t) = σ := by
      simp only [step]; split
      · rename_i r h; exact absurd ⟨r, h⟩ hr
      · rfl
    rw [this]; exact D
  obtain ⟨r, hpc⟩ := hr
  have hform : ∃ f, step σ (.retn t) = { ((σ.goto t .idle).flush t) with hs := f } := by
    simp only [step, hpc]; repeat' split
    all_goals exact ⟨_, rfl⟩
  obtain ⟨f, hf⟩ := hform
  rw [hf]
  exact disc_mono t D (fun u hu => by simp [St.goto, St.flush, St.setTh, upd, hu]) rfl rfl rfl
    (fun p b hq => by simp [St.goto, St.flush, St.setTh, upd, PC.dpos] at hq)

theorem callEntry_dpos (σb : St) (t : Nat) (o : Outer) (g ng ns : Nat) (h : (σb.th t).pc = .idle) :
    ((callEntry σb t o g ng ns).th t).pc.dpos = none := by
  unfold callEntry; cases o
  all_goals simp only []
  all_goals repeat' split
  all_goals first | (simp [St.goto, St.setTh, St.setHd, upd, PC.dpos]; done) | (rw [h]; rfl)

theorem disc_call {σ : St} (t : Nat) (o : Outer) (g v ng ns : Nat) (D : DInv σ) :
    DInv (step σ (.call t o g v ng ns)) := by
  by_cases hc : callOk σ t o g ng ns = true
  rotate_left
  · have : step σ (.call t o g v ng ns) = σ := by simp only [step, hc]; rfl
    rw [this]; exact D
  have e : step σ (.call t o g v ng ns) = callEntry (callPrep σ t o g v ng ns) t o g ng ns := by
    simp only [step, hc, if_true]
  simp only [callOk, Bool.and_eq_true, decide_eq_true_eq, Bool.not_eq_true', Bool.and_eq_false_iff] at hc
  obtain ⟨⟨⟨⟨⟨hidle, halive⟩, hnbusy⟩, hkind⟩, hfresh⟩, hstream⟩ := hc
  have hnn : o ≠ .none := by intro h; subst h; simp [kindOk] at hkind
  have r1 := callEntry_ring (callPrep σ t o g v ng ns) t o g ng ns
  have r2 := callPrep_ring σ t o g v ng ns
  obtain ⟨_, _, _, _, _, p6, _, _, _, p10, _⟩ := callPrep_facts σ t o g v ng ns
  obtain ⟨_, _, q3, _, _, _, _, q8⟩ := callEntry_frame (callPrep σ t o g v ng ns) t o g ng ns
  obtain ⟨_, _, _, _, _, _, _, b8⟩ := callEntry_pf (callPrep σ t o g v ng ns) t o g ng ns
  obtain ⟨a1, _⟩ := callPrep_pf σ t o g v ng ns
  obtain ⟨b1, _⟩ := callEntry_pf (callPrep σ t o g v ng ns) t o g ng ns
  have h1 : (callEntry (callPrep σ t o g v ng ns) t o g ng ns).tag = (callPrep σ t o g v ng ns).tag := congrArg Ring.tag r1
  have h2 : (callPrep σ t o g v ng ns).tag = σ.tag := by
    have := congrArg Ring.tag r2
    split at this <;> exact this
  have hp : ((callPrep σ t o g v ng ns).th t).pc = .idle := by rw [(callPrep_pc σ t o g v ng ns).1]; exact hidle
  rw [e]
  exact disc_mono t D (fun u hu => by rw [q8 u hu, p10 u hu]) (by rw [b1, a1]) (by rw [q3, p6]) (by rw [h1, h2])
    (fun p b hq => by rw [callEntry_dpos _ t o g ng ns hp] at hq; cases hq)

theorem disc_init (N : Nat) (bcast : Bool) (wait : WaitK) (fut : Bool) : DInv (init N bcast wait fut) :=
  ⟨fun t p b h => by simp [init, PC.dpos] at h⟩

theorem disc_step {σ : St} (l : Label) (D : DInv σ) (M : MInv σ) : DInv (step σ l) := by
  cases l
  case run x inp => exact disc_stepRun x inp D M
  case call t o g v ng ns => exact disc_call t o g v ng ns D
  case retn t => exact disc_retn t D
  case arc t => exact disc_arc t D
  case wake t => exact disc_wake t D

/-- the invariants used by the disconnect theorems -/
structure DAll (σ : St) : Prop where
  d : DInv σ
  i : RInv σ
  m : MInv σ
  r : RegInv σ

theorem dall_nrun {σ σ' : St} {ls : List Label} (r : NRun σ ls σ') (A : DAll σ) : DAll σ' := by
  induction r with
  | nil σ => exact A
  | cons h _ ih =>
      obtain ⟨h1, h2⟩ := stepOK_of A.m h
      exact ih ⟨disc_step _ A.d A.m, rinv_step _ A.i h1, minv_step _ A.m A.r h2, reginv_step _ A.r⟩

theorem dall_init (N : Nat) (bcast : Bool) (wait : WaitK) (fut : Bool) (hN : 0 < N) : DAll (init N bcast wait fut) :=
  ⟨disc_init N bcast wait fut, rinv_init N bcast wait fut hN, minv_init N bcast wait fut, reginv_init N bcast wait fut⟩

theorem claim_sendOp {pc : PC} {h : Nat} (hc : pc.claim = some h) : pc.sendOp = true := by
  cases pc <;> simp [PC.claim] at hc <;> rfl

/-- no counted sender handle: no send in flight -/
theorem no_claims_of_no_sender {σ : St} (M : MInv σ) (h : σ.sl = []) : ∀ u, (σ.th u).pc.claim = none := by
  intro u
  cases hc : (σ.th u).pc.claim
  · rfl
  · have := ((M.thr u).snd (claim_sendOp hc)).1
    rw [h] at this; cases this

/-- what holds in the state from which `Disconnected` is returned -/
theorem disc_sound {σ : St} (A : DAll σ) (t p : Nat) (hd : (σ.th t).pc.dpos = some (p, true) ∨
      ((σ.th t).pc.dpos = some (p, false) ∧ σ.tag (p % σ.N) ≠ some p))
    (hact : (σ.th t).pc.recvActive = true) (hpos : σ.pos (σ.th t).s = p) :
    σ.writers = 0 ∧ (∀ u, (σ.th u).pc.claim = none) ∧ p = σ.head ∧
    σ.dlv (σ.th t).s = σ.log.drop (σ.start (σ.th t).s) := by
  have hreg := (modeOK_of_minv A.m).regd t hact
  have hw : σ.writers = 0 ∧ σ.tag (p % σ.N) ≠ some p := by
    rcases hd with h | ⟨h, h2⟩
    · exact ⟨(A.d.chk t p true h).1, (A.d.chk t p true h).2 rfl⟩
    · exact ⟨(A.d.chk t p false h).1, h2⟩
  have hsl : σ.sl = [] := by
    have := hw.1; rw [A.m.wr] at this; exact List.eq_nil_of_length_eq_zero this
  have hq := no_claims_of_no_sender A.m hsl
  have I := A.i
  have h1 := I.g.posle _ hreg
  have h2 := I.g.win _ hreg
  have h3 := I.g.dlv _ hreg
  have h4 := I.g.loglen
  have h5 := I.g.startle _ hreg
  simp only [St.ring] at h1 h2 h3 h4 h5
  have hp : p = σ.head := by
    rcases Nat.lt_or_ge p σ.head with hlt | hge
    · rcases I.slots p hlt (by show σ.head ≤ p + σ.N; omega) with ⟨u, hu⟩ | h
      · rw [hq u] at hu; cases hu
      · exact absurd h.1 hw.2
    · omega
  refine ⟨hw.1, hq, hp, ?_⟩
  rw [h3, hpos, hp]
  apply List.take_of_length_le
  simp only [List.length_drop]; omega

end MQ
