import MQ.Inv.Frame2
/-!
# MgrInv — the epoch memory manager: definitions and frame lemmas

`Mgr` is the projection of the state on the manager's words (`epoch`, the inner epoch, the signal's epoch bit,
token values, the token vector, the two retirement lists, the two mutexes) plus the ghost list of objects
released so far.
-/
set_option linter.unusedSimpArgs false
namespace MQ

structure Mgr where
  epoch : Nat
  iepoch : Nat
  sigE : Bool
  tokv : Nat → Nat
  toks : List Nat
  wtf : List Obj
  tofree : List Obj
  mgrOwner : Option Nat
  wtfOwner : Option Nat
  freed : List Obj

def St.mgr (σ : St) : Mgr :=
  { epoch := σ.epoch, iepoch := σ.iepoch, sigE := σ.sigE, tokv := σ.tokv, toks := σ.toks, wtf := σ.wtf,
    tofree := σ.tofree, mgrOwner := σ.mgrOwner, wtfOwner := σ.wtfOwner, freed := σ.freed }

@[simp] theorem mgr_setTh (σ : St) (t f) : (σ.setTh t f).mgr = σ.mgr := rfl
@[simp] theorem mgr_goto (σ : St) (t pc) : (σ.goto t pc).mgr = σ.mgr := rfl
@[simp] theorem mgr_gotoF (σ : St) (t pc f) : (σ.gotoF t pc f).mgr = σ.mgr := rfl
@[simp] theorem mgr_setHd (σ : St) (g f) : (σ.setHd g f).mgr = σ.mgr := rfl
@[simp] theorem mgr_flush (σ : St) (t) : (σ.flush t).mgr = σ.mgr := rfl

def MK.isRmTokFree : MK → Bool
  | .rmTokFree _ => true
  | _ => false

def MK.isRm1 : MK → Bool
  | .rmFree1 => true
  | _ => false

/-- both mutexes released -/
def Mgr.released (m : Mgr) : Mgr := { m with mgrOwner := none, wtfOwner := none }

section helpers
variable (σ : St) (t : Nat)

@[simp] theorem afterNotify_mgr (k : Nat) : (afterNotify σ t k).mgr = σ.mgr := by
  unfold afterNotify; split <;> rfl
@[simp] theorem teardownStart_mgr (r : Res) : (teardownStart σ t r).mgr = σ.mgr := rfl
@[simp] theorem arcStep_mgr (r : Res) : (arcStep σ t r).mgr = σ.mgr := by
  unfold arcStep; simp only []; repeat' split
  all_goals rfl
@[simp] theorem startNotify_mgr (k : Nat) : (startNotify σ t k).mgr = σ.mgr := by
  unfold startNotify; split <;> first | rfl | exact afterNotify_mgr σ t k
@[simp] theorem sendDone_mgr (r : Res) : (sendDone σ t r).mgr = σ.mgr := by
  unfold sendDone; simp only []; repeat' split
  all_goals first | exact startNotify_mgr σ t _ | rfl
@[simp] theorem startWait_mgr (j seq : Nat) : (startWait σ t j seq).mgr = σ.mgr := by
  unfold startWait; simp only []; repeat' split
  all_goals rfl
@[simp] theorem recvDone_mgr (r : Res) (j : Nat) : (recvDone σ t r j).mgr = σ.mgr := by
  unfold recvDone; simp only []; repeat' split
  all_goals rfl
@[simp] theorem waitDone_mgr : (waitDone σ t).mgr = σ.mgr := by
  unfold waitDone; simp only []; repeat' split
  all_goals rfl
@[simp] theorem checkDone_mgr (j seq : Nat) (ph : WPh) (b : Bool) : (checkDone σ t j seq ph b).mgr = σ.mgr := by
  unfold checkDone; repeat' split
  all_goals first | rfl | exact waitDone_mgr _ t
@[simp] theorem recvDropTail_mgr : (recvDropTail σ t).mgr = σ.mgr := by
  unfold recvDropTail; simp only []; repeat' split
  all_goals rfl
@[simp] theorem sendDropTail_mgr : (sendDropTail σ t).mgr = σ.mgr := by
  unfold sendDropTail; repeat' split
  all_goals rfl
@[simp] theorem mgrDone_mgr (k : MK) : (mgrDone σ t k).mgr = σ.mgr := by
  unfold mgrDone; simp only []; repeat' split
  all_goals first
    | rfl
    | (simp only [sendDone_mgr, recvDropTail_mgr, sendDropTail_mgr]; done)
    | (simp only [sendDone_mgr, recvDropTail_mgr, sendDropTail_mgr]; rfl)
@[simp] theorem startNotify2_mgr : (stepRun.startNotify2 σ t).mgr = σ.mgr := rfl
end helpers

@[simp] theorem stepLa2_mgr (σ0 σ : St) (t : Nat) (x : Th) (s : Nat) : (stepRun.stepLa2 σ0 σ t x s).2.mgr = σ.mgr := by
  unfold stepRun.stepLa2; simp only []; repeat' split
  all_goals rfl

/-- program points of the manager's sub-programs (their steps are treated one by one) -/
def PC.mgrSrc : PC → Bool
  | .u1 _ | .u2 _ _ | .u3 _ _ | .gt1 _ | .gt2 _ | .f1 _ _ | .f2 _ | .f3 _ | .f4 _ _ _ | .f5 _ | .f7 _ | .f8 _
  | .f9 _ _ | .f10 _ | .rt1 _ | .tdm => true
  | _ => false

/-- program points that carry a fact about the manager or hold one of its mutexes -/
def PC.mgrPhase : PC → Bool
  | .u2 _ _ | .u3 _ _ | .gt2 _ | .f2 _ | .f3 _ | .f4 _ _ _ | .f5 _ | .f7 _ | .f8 _ | .f9 _ _ | .f10 _ => true
  | _ => false

/-- static well-formedness: which continuation a manager sub-program may carry -/
def PC.mgrOK : PC → Bool
  | .u1 k | .u2 k _ | .u3 k _ | .gt1 k | .gt2 k => !k.isRm1
  | _ => true

set_option maxHeartbeats 1000000 in
/-- outside the manager's sub-programs no step changes a manager word -/
theorem stepRun_mgr_same (σ : St) (t inp : Nat) (h : (σ.th t).pc.mgrSrc = false) :
    (stepRun σ t inp).2.mgr = σ.mgr := by
  unfold stepRun
  simp only []
  split
  all_goals (first | (rename_i heq; rw [heq] at h; simp [PC.mgrSrc] at h; done) | skip)
  all_goals (repeat' split)
  all_goals first
    | rfl
    | (simp only [sendDone_mgr, recvDone_mgr, afterNotify_mgr, startNotify_mgr, teardownStart_mgr,
        startWait_mgr, checkDone_mgr, waitDone_mgr, stepLa2_mgr, startNotify2_mgr,
        recvDropTail_mgr, sendDropTail_mgr, mgrDone_mgr, MK.isRmTokFree,
        mgr_setTh, mgr_goto, mgr_gotoF, mgr_setHd, mgr_flush] <;> rfl)

end MQ
