import MQ.Inv.WakeDefs
/-!
# WakeInv — the invariant and the targets of steps
-/
set_option linter.unusedSimpArgs false
set_option linter.unusedVariables false
namespace MQ

/-- waiting on the condvar for `(j, seq)` -/
def subjB (σ : St) (t j seq : Nat) : Prop :=
  (σ.th t).pc = .wcvw j seq ∨ ((σ.th t).pc = .wblk j seq ∧ t ∈ σ.cvWaiters)

/-- task parked on the consumers' list for `(j, seq)` -/
def subjF (σ : St) (t j seq : Nat) : Prop := t ∈ σ.cwaitL ∧ σ.cwFor t = (j, seq)

/-- static well-formedness: the yield loop never carries the "under the lock" phase -/
def PC.wOK : PC → Bool
  | .wy _ _ .locked => false
  | _ => true

structure WInv (σ : St) : Prop where
  ok : ∀ t, (σ.th t).pc.wOK = true
  own : ∀ t, (σ.th t).pc.wHeld = true ↔ σ.wlockOwner = some t
  w1 : ∀ a b, σ.wait = .blocking a b → ∀ t j seq, subjB σ t j seq →
    checkVal seq (σ.tag j) σ.writers = true → ∃ u, (σ.th u).pc.pendB = true
  w2 : ∀ a b, σ.wait = .blocking a b → ∀ t j seq tg, (σ.th t).pc = .c2 j seq .locked tg →
    σ.tag j ≠ tg → ∃ u, (σ.th u).pc.pendB = true
  w3 : ∀ a b, σ.wait = .fut a b → ∀ t j seq, subjF σ t j seq →
    checkVal seq (σ.tag j) σ.writers = true → ∃ u, (σ.th u).pc.pendF = true
  w4 : ∀ a b, σ.wait = .fut a b → ∀ t j seq tg, (σ.th t).pc = .c2 j seq .parked tg →
    σ.tag j ≠ tg → ∃ u, (σ.th u).pc.pendF = true

/-- mutexes are mutual exclusion: the condvar's mutex is taken only when free; the consumers' list is drained
only when no consumer is inside its park-and-recheck critical section -/
def WLockOK (σ : St) (x : Nat) : Prop :=
  match (σ.th x).pc with
  | .nb1 _ | .wl _ _ => σ.wlockOwner = none
  | .nf false _ => ∀ u j seq tg, (σ.th u).pc ≠ .c2 j seq .parked tg
  | _ => True

/-- program points that are subjects of the invariant or hold the condvar's mutex -/
def PC.wPhase : PC → Bool
  | .nb2 _ | .c1 _ _ .locked | .c2 _ _ .locked _ | .c2 _ _ .parked _ | .wcvw _ _ | .wblk _ _ => true
  | _ => false

/-- sources treated one by one -/
def PC.wSrc' : PC → Bool
  | .c1 _ _ _ | .wblk _ _ | .wy _ _ _ => true
  | pc => pc.wSrc

macro "wplain_tac" : tactic =>
  `(tactic| ((try simp only []); repeat' split) <;> first | rfl | (simp [PC.wPhase, St.goto, St.gotoF, St.setTh, St.setHd, St.flush, upd, *]; done))

section
variable (σ : St) (t : Nat)
@[simp] theorem afterNotify_wplain (k : Nat) : ((afterNotify σ t k).th t).pc.wPhase = false := by
  unfold afterNotify; wplain_tac
@[simp] theorem teardownStart_wplain (r : Res) : ((teardownStart σ t r).th t).pc.wPhase = false := by
  unfold teardownStart; wplain_tac
@[simp] theorem arcStep_wplain (r : Res) : ((arcStep σ t r).th t).pc.wPhase = false := by
  unfold arcStep; wplain_tac
@[simp] theorem startNotify_wplain (k : Nat) : ((startNotify σ t k).th t).pc.wPhase = false := by
  unfold startNotify; split <;> first | exact afterNotify_wplain σ t k | wplain_tac
@[simp] theorem sendDone_wplain (r : Res) : ((sendDone σ t r).th t).pc.wPhase = false := by
  unfold sendDone; (try simp only []); repeat' split
  all_goals first | exact startNotify_wplain σ t _ | wplain_tac
@[simp] theorem startWait_wplain (j seq : Nat) : ((startWait σ t j seq).th t).pc.wPhase = false := by
  unfold startWait; wplain_tac
@[simp] theorem recvDone_wplain (r : Res) (j : Nat) : ((recvDone σ t r j).th t).pc.wPhase = false := by
  unfold recvDone; wplain_tac
@[simp] theorem waitDone_wplain : ((waitDone σ t).th t).pc.wPhase = false := by
  unfold waitDone; wplain_tac
@[simp] theorem recvDropTail_wplain : ((recvDropTail σ t).th t).pc.wPhase = false := by
  unfold recvDropTail; (try simp only []); repeat' split
  all_goals first | (simp [teardownStart, PC.wPhase, St.goto, St.setTh, upd]; done) | wplain_tac
@[simp] theorem sendDropTail_wplain : ((sendDropTail σ t).th t).pc.wPhase = false := by
  unfold sendDropTail; repeat' split
  all_goals first | exact teardownStart_wplain σ t _ | wplain_tac
@[simp] theorem mgrDone_wplain (k : MK) : ((mgrDone σ t k).th t).pc.wPhase = false := by
  unfold mgrDone; (try simp only []); repeat' split
  all_goals first
    | exact sendDone_wplain σ t _
    | exact recvDropTail_wplain _ t
    | exact sendDropTail_wplain _ t
    | wplain_tac
@[simp] theorem freeEnd_wplain (k : MK) : ((freeEnd σ t k).th t).pc.wPhase = false := by
  unfold freeEnd; exact mgrDone_wplain _ t _
@[simp] theorem freeTail_wplain (k : MK) : ((freeTail σ t k).th t).pc.wPhase = false := by
  unfold freeTail; repeat' split
  all_goals first | exact mgrDone_wplain _ t _ | wplain_tac
@[simp] theorem startNotify2_wplain : ((stepRun.startNotify2 σ t).th t).pc.wPhase = false := by
  unfold stepRun.startNotify2; wplain_tac
end

@[simp] theorem stepLa2_wplain (σ0 σ : St) (t : Nat) (x : Th) (s : Nat) :
    ((stepRun.stepLa2 σ0 σ t x s).2.th t).pc.wPhase = false := by
  unfold stepRun.stepLa2; simp only []; repeat' split
  all_goals (simp [PC.wPhase, St.goto, St.setTh, upd])

set_option maxHeartbeats 2000000 in
theorem stepRun_wplain (σ : St) (t inp : Nat) (h : (σ.th t).pc.wSrc' = false) :
    ((stepRun σ t inp).2.th t).pc.wPhase = false := by
  unfold stepRun
  simp only []
  split
  all_goals (first | (rename_i heq; rw [heq] at h; simp [PC.wSrc', PC.wSrc] at h; done) | skip)
  all_goals (repeat' split)
  all_goals first
    | (simp only [sendDone_wplain, recvDone_wplain, startWait_wplain, afterNotify_wplain,
        startNotify_wplain, teardownStart_wplain, mgrDone_wplain, freeTail_wplain, freeEnd_wplain, startNotify2_wplain,
        stepLa2_wplain]; done)
    | (simp [PC.wPhase, th_goto, th_gotoF, th_setTh, th_flush, th_setHd]; done)
    | (rename_i heq; simp [heq, PC.wPhase]; done)
    | (rename_i heq _; simp [heq, PC.wPhase]; done)
    | (simp [PC.wPhase, St.goto, St.gotoF, St.setTh, St.setHd, St.flush, upd, teardownStart]; done)

macro "wok_tac" : tactic =>
  `(tactic| ((try simp only []); repeat' split) <;> first | rfl | (simp [PC.wOK, St.goto, St.gotoF, St.setTh, St.setHd, St.flush, upd, *]; done))

theorem wOK_of_not_wy {pc : PC} (h : ∀ j seq ph, pc ≠ .wy j seq ph) : pc.wOK = true := by
  cases pc <;> first | rfl | (rename_i j seq ph; exact absurd rfl (h j seq ph))

section
variable (σ : St) (t : Nat)
@[simp] theorem afterNotify_wok (k : Nat) : ((afterNotify σ t k).th t).pc.wOK = true := by
  unfold afterNotify; wok_tac
@[simp] theorem teardownStart_wok (r : Res) : ((teardownStart σ t r).th t).pc.wOK = true := by
  unfold teardownStart; wok_tac
@[simp] theorem arcStep_wok (r : Res) : ((arcStep σ t r).th t).pc.wOK = true := by
  unfold arcStep; wok_tac
@[simp] theorem startNotify_wok (k : Nat) : ((startNotify σ t k).th t).pc.wOK = true := by
  unfold startNotify; split <;> first | exact afterNotify_wok σ t k | wok_tac
@[simp] theorem sendDone_wok (r : Res) : ((sendDone σ t r).th t).pc.wOK = true := by
  unfold sendDone; (try simp only []); repeat' split
  all_goals first | exact startNotify_wok σ t _ | wok_tac
@[simp] theorem startWait_wok (j seq : Nat) : ((startWait σ t j seq).th t).pc.wOK = true := by
  unfold startWait; wok_tac
@[simp] theorem recvDone_wok (r : Res) (j : Nat) : ((recvDone σ t r j).th t).pc.wOK = true := by
  unfold recvDone; wok_tac
@[simp] theorem waitDone_wok : ((waitDone σ t).th t).pc.wOK = true := by
  unfold waitDone; wok_tac
@[simp] theorem checkDone_wok (j seq : Nat) (ph : WPh) (b : Bool) : ((checkDone σ t j seq ph b).th t).pc.wOK = true := by
  unfold checkDone; repeat' split
  all_goals first | exact waitDone_wok _ t | wok_tac
@[simp] theorem recvDropTail_wok : ((recvDropTail σ t).th t).pc.wOK = true := by
  unfold recvDropTail; (try simp only []); repeat' split
  all_goals first | (simp [teardownStart, PC.wOK, St.goto, St.setTh, upd]; done) | wok_tac
@[simp] theorem sendDropTail_wok : ((sendDropTail σ t).th t).pc.wOK = true := by
  unfold sendDropTail; repeat' split
  all_goals first | exact teardownStart_wok σ t _ | wok_tac
@[simp] theorem mgrDone_wok (k : MK) : ((mgrDone σ t k).th t).pc.wOK = true := by
  unfold mgrDone; (try simp only []); repeat' split
  all_goals first
    | exact sendDone_wok σ t _
    | exact recvDropTail_wok _ t
    | exact sendDropTail_wok _ t
    | wok_tac
@[simp] theorem freeEnd_wok (k : MK) : ((freeEnd σ t k).th t).pc.wOK = true := by
  unfold freeEnd; exact mgrDone_wok _ t _
@[simp] theorem freeTail_wok (k : MK) : ((freeTail σ t k).th t).pc.wOK = true := by
  unfold freeTail; repeat' split
  all_goals first | exact mgrDone_wok _ t _ | wok_tac
@[simp] theorem startNotify2_wok : ((stepRun.startNotify2 σ t).th t).pc.wOK = true := by
  unfold stepRun.startNotify2; wok_tac
end

@[simp] theorem stepLa2_wok (σ0 σ : St) (t : Nat) (x : Th) (s : Nat) :
    ((stepRun.stepLa2 σ0 σ t x s).2.th t).pc.wOK = true := by
  unfold stepRun.stepLa2; simp only []; repeat' split
  all_goals (simp [PC.wOK, St.goto, St.setTh, upd])

set_option maxHeartbeats 2000000 in
/-- the yield loop is only ever entered with a spin phase -/
theorem stepRun_wok (σ : St) (t inp : Nat) (h : (σ.th t).pc.wOK = true) :
    ((stepRun σ t inp).2.th t).pc.wOK = true := by
  unfold stepRun
  simp only []
  split
  all_goals (repeat' split)
  all_goals first
    | (simp only [sendDone_wok, recvDone_wok, startWait_wok, afterNotify_wok, checkDone_wok,
        startNotify_wok, teardownStart_wok, mgrDone_wok, freeTail_wok, freeEnd_wok, startNotify2_wok,
        stepLa2_wok]; done)
    | (simp [PC.wOK, th_goto, th_gotoF, th_setTh, th_flush, th_setHd]; done)
    | (rename_i heq; simpa [heq] using h)
    | (rename_i heq _; simpa [heq] using h)
    | (simp [PC.wOK, St.goto, St.gotoF, St.setTh, St.setHd, St.flush, upd, teardownStart]; done)

theorem wphase_facts {pc : PC} (h : pc.wPhase = false) :
    pc.wHeld = false ∧ (∀ j seq, pc ≠ .wcvw j seq) ∧ (∀ j seq, pc ≠ .wblk j seq) ∧
    (∀ j seq tg, pc ≠ .c2 j seq .locked tg) ∧ (∀ j seq tg, pc ≠ .c2 j seq .parked tg) := by
  cases pc <;> simp [PC.wPhase, PC.wHeld] at h ⊢
  case c1 j seq ph => cases ph <;> simp_all
  case c2 j seq ph tg => cases ph <;> simp_all

theorem not_wsrc_facts {pc : PC} (h : pc.wSrc' = false) : pc.wPhase = false := by
  cases pc <;> simp [PC.wSrc', PC.wSrc, PC.wPhase] at h ⊢

end MQ
