import MQ.Inv.NRMain
import MQ.Inv.MgrPipe
/-!
# Nothing is released twice — the generic part

`O x` is the object a thread (record `x`) still has to pass to `free`; `K` the kind of object the instance is about.
`OInv`: every object of kind `K` occurs at most once in the retirement pipeline, an object still owed is not in
the pipeline yet, and no two threads owe the same object.
-/
set_option linter.unusedSimpArgs false
set_option linter.unusedVariables false
namespace MQ

structure OInv (K : Obj → Prop) (O : Th → Option Obj) (σ : St) : Prop where
  once : ∀ ob, K ob → σ.mgr.pipe.count ob ≤ 1
  ow : ∀ t ob, O (σ.th t) = some ob → K ob ∧ σ.mgr.pipe.count ob = 0
  oinj : ∀ t u ob, t ≠ u → O (σ.th t) = some ob → O (σ.th u) = some ob → False

variable {K : Obj → Prop} {O : Th → Option Obj}

/-- the pipeline is permuted, `x` owes what it owed -/
theorem oinv_same {σ σ' : St} (x : Nat) (G : OInv K O σ)
    (hth : ∀ u, u ≠ x → σ'.th u = σ.th u)
    (hp : σ'.mgr.pipe.Perm σ.mgr.pipe) (ho : O (σ'.th x) = O (σ.th x)) : OInv K O σ' := by
  have tho : ∀ u, O (σ'.th u) = O (σ.th u) := by
    intro u; by_cases e : u = x
    · subst e; exact ho
    · rw [hth u e]
  refine ⟨?_, ?_, ?_⟩
  · intro ob hk; rw [hp.count_eq]; exact G.once ob hk
  · intro t ob h; rw [hp.count_eq]; rw [tho t] at h; exact G.ow t ob h
  · intro t u ob htu h1 h2; rw [tho t] at h1; rw [tho u] at h2; exact G.oinj t u ob htu h1 h2

/-- `x` starts to owe a fresh object -/
theorem oinv_retire {σ σ' : St} (x : Nat) (ob : Obj) (G : OInv K O σ)
    (hth : ∀ u, u ≠ x → σ'.th u = σ.th u)
    (hp : σ'.mgr.pipe.Perm σ.mgr.pipe)
    (hk : K ob) (hfresh : ob ∉ σ.mgr.pipe) (hnone : ∀ u, u ≠ x → O (σ.th u) ≠ some ob)
    (hnew : O (σ'.th x) = some ob) : OInv K O σ' := by
  refine ⟨?_, ?_, ?_⟩
  · intro ob' hk'; rw [hp.count_eq]; exact G.once ob' hk'
  · intro t ob' h; rw [hp.count_eq]
    by_cases e : t = x
    · subst e; rw [hnew] at h; injection h with h; subst h
      exact ⟨hk, List.count_eq_zero.mpr hfresh⟩
    · rw [hth t e] at h; exact G.ow t ob' h
  · intro t u ob' htu h1 h2
    by_cases et : t = x
    · subst et
      have eu : u ≠ t := fun e => htu e.symm
      rw [hnew] at h1; injection h1 with h1; subst h1
      rw [hth u eu] at h2; exact hnone u eu h2
    · by_cases eu : u = x
      · subst eu
        rw [hnew] at h2; injection h2 with h2; subst h2
        rw [hth t et] at h1; exact hnone t et h1
      · rw [hth t et] at h1; rw [hth u eu] at h2; exact G.oinj t u ob' htu h1 h2

/-- `x` passes the object it owes to `free` -/
theorem oinv_pass {σ σ' : St} (x : Nat) (ob : Obj) (G : OInv K O σ)
    (hth : ∀ u, u ≠ x → σ'.th u = σ.th u)
    (hp : σ'.mgr.pipe.Perm (σ.mgr.pipe ++ [ob]))
    (hold : O (σ.th x) = some ob) (hnew : O (σ'.th x) = none) : OInv K O σ' := by
  refine ⟨?_, ?_, ?_⟩
  · intro ob' hk'; rw [hp.count_eq, List.count_append]
    by_cases e : ob = ob'
    · subst e; rw [(G.ow x ob hold).2]; simp
    · have : [ob].count ob' = 0 := List.count_eq_zero.mpr (by simp; exact fun h => e h.symm)
      rw [this]; exact G.once ob' hk'
  · intro t ob' h; rw [hp.count_eq, List.count_append]
    have et : t ≠ x := by intro e; subst e; rw [hnew] at h; cases h
    rw [hth t et] at h
    obtain ⟨a, b⟩ := G.ow t ob' h
    refine ⟨a, ?_⟩
    have : [ob].count ob' = 0 := List.count_eq_zero.mpr (by
      simp; intro e; subst e; exact G.oinj t x ob' et h hold)
    rw [b, this]
  · intro t u ob' htu h1 h2
    have et : t ≠ x := by intro e; subst e; rw [hnew] at h1; cases h1
    have eu : u ≠ x := by intro e; subst e; rw [hnew] at h2; cases h2
    rw [hth t et] at h1; rw [hth u eu] at h2; exact G.oinj t u ob' htu h1 h2

/-- `x` passes an object of another kind (or one this instance does not track) to `free` -/
theorem oinv_pass_other {σ σ' : St} (x : Nat) (ob : Obj) (G : OInv K O σ)
    (hth : ∀ u, u ≠ x → σ'.th u = σ.th u)
    (hp : σ'.mgr.pipe.Perm (σ.mgr.pipe ++ [ob])) (hk : ¬ K ob)
    (ho : O (σ'.th x) = O (σ.th x)) : OInv K O σ' := by
  have tho : ∀ u, O (σ'.th u) = O (σ.th u) := by
    intro u; by_cases e : u = x
    · subst e; exact ho
    · rw [hth u e]
  have cnt : ∀ ob', K ob' → σ'.mgr.pipe.count ob' = σ.mgr.pipe.count ob' := by
    intro ob' hk'
    rw [hp.count_eq, List.count_append]
    have : [ob].count ob' = 0 := List.count_eq_zero.mpr (by simp; intro e; subst e; exact hk hk')
    rw [this]; rfl
  refine ⟨?_, ?_, ?_⟩
  · intro ob' hk'; rw [cnt ob' hk']; exact G.once ob' hk'
  · intro t ob' h; rw [tho t] at h; obtain ⟨a, b⟩ := G.ow t ob' h; exact ⟨a, by rw [cnt ob' a]; exact b⟩
  · intro t u ob' htu h1 h2; rw [tho t] at h1; rw [tho u] at h2; exact G.oinj t u ob' htu h1 h2

theorem freed_once {σ : St} (G : OInv K O σ) (ob : Obj) (hk : K ob) : σ.freed.count ob ≤ 1 := by
  have := G.once ob hk
  simp only [Mgr.pipe, St.mgr, List.count_append] at this
  omega

end MQ
