import MQ.Inv.EpochLemmas
import MQ.Inv.RegMain
/-! # EpochInv — preservation by `run` steps -/
set_option linter.unusedSimpArgs false
set_option linter.unusedVariables false
namespace MQ

/-- What a step of `x` needs from handle ownership (Rust: one thread per handle, one token per handle, the
token is registered from the handle's creation to its drop, only the last consumer of a registered stream
removes it, the destructor runs when nobody is inside a call). -/
structure EStepOK (σ : St) (x : Nat) : Prop where
  tokd : ∀ u, u ≠ x → (σ.th u).pc ≠ .idle → tokOf σ u ≠ tokOf σ x
  newtok : ∀ k, (σ.th x).pc = .gt2 k → ∀ u, u ≠ x → (σ.th u).pc ≠ .idle → (σ.th x).ng ≠ tokOf σ u
  reg : ((∃ m h tl, (σ.th x).pc = .g1 m h tl) ∨ (σ.th x).pc = .a1 ∨ (∃ c raw ng, (σ.th x).pc = .a3 c raw ng)) →
    tokOf σ x ∈ σ.toks
  rem : ∀ c ng, (σ.th x).pc = .rr2 c ng → σ.cur = c → (σ.th x).s ∈ σ.groups c
  tdm : (σ.th x).pc = .tdm → ∀ u, u ≠ x → (σ.th u).pc.holdG = none

theorem edata_of {σ σ' : St} (hm : σ'.mgr = σ.mgr) (hr : σ'.ereg = σ.ereg) : σ'.edata = σ.edata := by
  have h1 := congrArg Mgr.toks hm; have h2 := congrArg Mgr.freed hm; have h3 := congrArg Mgr.tofree hm
  have h4 := congrArg Mgr.tokv hm; have h5 := congrArg Mgr.iepoch hm
  have h6 := congrArg EReg.groups hr; have h7 := congrArg EReg.cur hr; have h8 := congrArg EReg.est hr
  simp only [St.mgr, St.ereg] at *
  simp only [St.edata, h1, h2, h3, h4, h5, h6, h7, h8]

theorem mem_pipe_freed {m : Mgr} {x : Obj} (h : x ∈ m.freed) : x ∈ m.pipe := by simp [Mgr.pipe, h]
theorem mem_pipe_tofree {m : Mgr} {x : Obj} (h : x ∈ m.tofree) : x ∈ m.pipe := by simp [Mgr.pipe, h]
theorem mem_pipe_wtf {m : Mgr} {x : Obj} (h : x ∈ m.wtf) : x ∈ m.pipe := by simp [Mgr.pipe, h]

/-- loading the published group pointer acquires a group nothing of which has been retired -/
theorem hold_acquire {σ : St} (I : EInv σ) {tk : Nat} (h : tk ∈ σ.toks) : holdFacts σ tk σ.cur := by
  refine ⟨h, ⟨?_, ?_⟩, ?_⟩
  · intro hf; have := I.pipeG _ (mem_pipe_freed (m := σ.mgr) hf); omega
  · intro hf; have := I.pipeG _ (mem_pipe_tofree (m := σ.mgr) hf); omega
  · intro sid hs
    refine ⟨?_, ?_⟩
    · intro hf; exact (I.pipeP _ (mem_pipe_freed (m := σ.mgr) hf)).2 hs
    · intro hf; exact absurd hs (I.pipeP _ (mem_pipe_tofree (m := σ.mgr) hf)).2

/-- a step that changes none of the data `ELoc` looks at, nor the pipeline -/
theorem einv_same {σ σ' : St} {x : Nat} (I : EInv σ)
    (hth : ∀ u, u ≠ x → σ'.th u = σ.th u) (htok : ∀ u, tokOf σ' u = tokOf σ u)
    (hd : σ'.edata = σ.edata) (hp : σ'.mgr.pipe = σ.mgr.pipe)
    (c_self : ELoc σ (tokOf σ x) (σ'.th x)) : EInv σ' := by
  have h6 : σ'.groups = σ.groups := congrArg EData.groups hd
  have h7 : σ'.cur = σ.cur := congrArg EData.cur hd
  have h8 : σ'.est = σ.est := congrArg EData.est hd
  refine einv_update I hth htok ?_ ?_ (ELoc_congr hd c_self) (fun u _ L => ELoc_congr hd L)
  · intro k hk; rw [hp] at hk; rw [h7]; exact I.pipeG k hk
  · intro s hs; rw [hp] at hs
    have := I.pipeP s hs
    simp only [remFacts, h6, h7, h8] at this ⊢; exact this

/-- steps outside `eSrc` -/
theorem einv_run_plain {σ : St} (x inp : Nat) (I : EInv σ) (hs : (σ.th x).pc.eSrc = false) :
    EInv (stepRun σ x inp).2 := by
  have hms : (σ.th x).pc.mgrSrc = false := by
    cases hpc : (σ.th x).pc <;> rw [hpc] at hs <;> simp [PC.eSrc, PC.mgrSrc] at hs ⊢
  have hm := stepRun_mgr_same σ x inp hms
  have hr := stepRun_ereg_same σ x inp (by
    intro c raw ng
    cases hpc : (σ.th x).pc <;> rw [hpc] at hs <;> simp [PC.eSrc, PC.mgrSrc] at hs ⊢)
  exact einv_same I (fun u hu => stepRun_th σ x inp u hu) (tokOf_stepRun σ x inp) (edata_of hm hr) (by rw [hm])
    (ELoc_of_not_phase (stepRun_eplain σ x inp hs))

/-! ### continuations -/

theorem ereg_mgrDone (σ : St) (t : Nat) (k : MK) : (mgrDone σ t k).ereg = σ.ereg := ereg_of_ring (mgrDone_ring σ t k)
theorem ereg_freeTail (σ : St) (t : Nat) (k : MK) : (freeTail σ t k).ereg = σ.ereg := ereg_of_ring (freeTail_ring σ t k)
theorem ereg_freeEnd (σ : St) (t : Nat) (k : MK) : (freeEnd σ t k).ereg = σ.ereg := ereg_of_ring (freeEnd_ring σ t k)

theorem edata_of_mgr {σ σ' : St} (hr : σ'.ereg = σ.ereg)
    (hm : σ'.mgr = σ.mgr ∨ σ'.mgr = σ.mgr.released ∨ σ'.mgr = { σ.mgr with wtfOwner := none }) : σ'.edata = σ.edata := by
  have h6 := congrArg EReg.groups hr; have h7 := congrArg EReg.cur hr; have h8 := congrArg EReg.est hr
  simp only [St.ereg] at h6 h7 h8
  rcases hm with hm | hm | hm
  all_goals
    have h1 := congrArg Mgr.toks hm; have h2 := congrArg Mgr.freed hm; have h3 := congrArg Mgr.tofree hm
    have h4 := congrArg Mgr.tokv hm; have h5 := congrArg Mgr.iepoch hm
    simp only [St.mgr, Mgr.released] at h1 h2 h3 h4 h5
    simp only [St.edata, h1, h2, h3, h4, h5, h6, h7, h8]

theorem edata_mgrDone (σ : St) (t : Nat) (k : MK) : (mgrDone σ t k).edata = σ.edata :=
  edata_of_mgr (ereg_mgrDone σ t k) (Or.inl (mgrDone_mgr σ t k))

theorem edata_freeTail (σ : St) (t : Nat) (k : MK) : (freeTail σ t k).edata = σ.edata := by
  apply edata_of_mgr (ereg_freeTail σ t k)
  rcases freeTail_cases σ t k with ⟨hm, _⟩ | ⟨hm, _⟩
  · left; exact hm
  · right; right; exact hm

theorem edata_freeEnd (σ : St) (t : Nat) (k : MK) : (freeEnd σ t k).edata = σ.edata :=
  edata_of_mgr (ereg_freeEnd σ t k) (Or.inr (Or.inr (freeEnd_cases σ t k).1))

/-- where `mgrDone` lands: the second `free` of `remove_reader` (which needs the removal facts), or a program
point without facts -/
theorem mgrDone_eloc (σ' σ1 : St) (t : Nat) (k : MK) (tk : Nat)
    (h : k.isRm1 = true → remFacts σ' (σ1.th t).s) : ELoc σ' tk ((mgrDone σ1 t k).th t) := by
  cases k
  case rmFree1 =>
    have := h rfl
    simp only [mgrDone, ELoc, St.goto, St.setTh, upd_same, MK.isRm1]
    exact ⟨this, fun hk => by cases hk⟩
  all_goals
    apply ELoc_of_not_phase
    unfold mgrDone
    (try simp only []); repeat' split
    all_goals first
      | exact sendDone_eplain _ t _
      | exact recvDropTail_eplain _ t
      | exact sendDropTail_eplain _ t
      | (simp [PC.ePhase, St.goto, St.gotoF, St.setTh, St.setHd, St.flush, upd]; done)

theorem mgrDone_s (σ : St) (t : Nat) (k : MK) : True := trivial

theorem freeTail_eloc (σ' σ1 : St) (t : Nat) (k : MK) (tk : Nat)
    (h : k.isRm1 = true → remFacts σ' (σ1.th t).s) : ELoc σ' tk ((freeTail σ1 t k).th t) := by
  unfold freeTail
  split
  · simp only [ELoc, St.goto, St.setTh, upd_same]; exact h
  · exact mgrDone_eloc σ' _ t _ tk h

theorem freeEnd_eloc (σ' σ1 : St) (t : Nat) (k : MK) (tk : Nat)
    (h : k.isRm1 = true → remFacts σ' (σ1.th t).s) : ELoc σ' tk ((freeEnd σ1 t k).th t) := by
  unfold freeEnd
  exact mgrDone_eloc σ' _ t _ tk h

/-! ### steps that change no data -/

macro "esame" I:ident x:ident inp:ident hd:ident hp:ident hself:ident : tactic =>
  `(tactic| exact einv_same $I (fun u hu => stepRun_th _ $x $inp u hu) (tokOf_stepRun _ $x $inp) $hd $hp $hself)

macro "edsimp" : tactic =>
  `(tactic| simp [ELoc, St.goto, St.gotoF, St.flush, St.setTh, St.setHd, upd, MK.isRm1] at *)

theorem einv_run_g1 {σ : St} (x inp : Nat) (m : Bool) (h tl : Nat) (I : EInv σ) (K : EStepOK σ x)
    (hpc : (σ.th x).pc = .g1 m h tl) : EInv (stepRun σ x inp).2 := by
  have htk := K.reg (Or.inl ⟨m, h, tl, hpc⟩)
  have hd : (stepRun σ x inp).2.edata = σ.edata := by simp only [stepRun, hpc]; split <;> rfl
  have hp : (stepRun σ x inp).2.mgr.pipe = σ.mgr.pipe := by simp only [stepRun, hpc]; split <;> rfl
  have hself : ELoc σ (tokOf σ x) ((stepRun σ x inp).2.th x) := by
    simp only [stepRun, hpc]; split
    · simp [ELoc, St.goto, St.flush, St.setTh, upd]
    · simp only [ELoc, St.goto, St.flush, St.setTh, upd_same]; exact hold_acquire I htk
  esame I x inp hd hp hself

theorem einv_run_g2 {σ : St} (x inp : Nat) (m : Bool) (h tl p i md : Nat) (I : EInv σ)
    (hpc : (σ.th x).pc = .g2 m h tl p i md) : EInv (stepRun σ x inp).2 := by
  have hl := I.loc x; simp only [ELoc, hpc] at hl
  have hd : (stepRun σ x inp).2.edata = σ.edata := by simp only [stepRun, hpc]; (repeat' split) <;> rfl
  have hp : (stepRun σ x inp).2.mgr.pipe = σ.mgr.pipe := by simp only [stepRun, hpc]; (repeat' split) <;> rfl
  have hself : ELoc σ (tokOf σ x) ((stepRun σ x inp).2.th x) := by
    simp only [stepRun, hpc]; repeat' split
    all_goals first
      | (simp [ELoc, St.goto, St.flush, St.setTh, upd]; done)
      | (simp only [ELoc, St.goto, St.flush, St.setTh, upd_same]; exact hl)
  esame I x inp hd hp hself

theorem einv_run_a1 {σ : St} (x inp : Nat) (I : EInv σ) (K : EStepOK σ x)
    (hpc : (σ.th x).pc = .a1) : EInv (stepRun σ x inp).2 := by
  have htk := K.reg (Or.inr (Or.inl hpc))
  have hd : (stepRun σ x inp).2.edata = σ.edata := by simp only [stepRun, hpc]; rfl
  have hp : (stepRun σ x inp).2.mgr.pipe = σ.mgr.pipe := by simp only [stepRun, hpc]; rfl
  have hself : ELoc σ (tokOf σ x) ((stepRun σ x inp).2.th x) := by
    simp only [stepRun, hpc]
    simp only [ELoc, St.goto, St.flush, St.setTh, upd_same]; exact hold_acquire I htk
  esame I x inp hd hp hself

theorem einv_run_rr3 {σ : St} (x inp : Nat) (c : Nat) (I : EInv σ)
    (hpc : (σ.th x).pc = .rr3 c) : EInv (stepRun σ x inp).2 := by
  have hl := I.loc x; simp only [ELoc, hpc] at hl
  have hd : (stepRun σ x inp).2.edata = σ.edata := by simp only [stepRun, hpc]; rfl
  have hp : (stepRun σ x inp).2.mgr.pipe = σ.mgr.pipe := by simp only [stepRun, hpc]; rfl
  have hself : ELoc σ (tokOf σ x) ((stepRun σ x inp).2.th x) := by
    simp only [stepRun, hpc]
    simp only [ELoc, St.goto, St.flush, St.setTh, upd_same]
    exact ⟨hl.1, fun _ => hl.2⟩
  esame I x inp hd hp hself

theorem einv_run_u1 {σ : St} (x inp : Nat) (k : MK) (I : EInv σ) (M : MInvS σ)
    (hpc : (σ.th x).pc = .u1 k) : EInv (stepRun σ x inp).2 := by
  have hd : (stepRun σ x inp).2.edata = σ.edata := by simp only [stepRun, hpc]; rfl
  have hp : (stepRun σ x inp).2.mgr.pipe = σ.mgr.pipe := by simp only [stepRun, hpc]; rfl
  have hself : ELoc σ (tokOf σ x) ((stepRun σ x inp).2.th x) := by
    simp only [stepRun, hpc]
    simp only [ELoc, St.goto, St.flush, St.setTh, upd_same]
    exact M.tokle _
  esame I x inp hd hp hself

theorem einv_run_u2 {σ : St} (x inp : Nat) (k : MK) (e : Nat) (I : EInv σ) (M : MInvS σ)
    (hpc : (σ.th x).pc = .u2 k e) : EInv (stepRun σ x inp).2 := by
  have hl := I.loc x; simp only [ELoc, hpc] at hl
  have hok := M.ok x; rw [hpc] at hok
  have hk1 := isRm1_of_ok hok
  have hd : (stepRun σ x inp).2.edata = σ.edata := by
    simp only [stepRun, hpc]; split
    · rw [edata_mgrDone]; rfl
    · rfl
  have hp : (stepRun σ x inp).2.mgr.pipe = σ.mgr.pipe := by
    simp only [stepRun, hpc]; split
    · rw [mgrDone_pipe]; rfl
    · rfl
  have hself : ELoc σ (tokOf σ x) ((stepRun σ x inp).2.th x) := by
    simp only [stepRun, hpc]; split
    · exact mgrDone_eloc σ _ x k _ (by rw [hk1]; intro h; cases h)
    · simp only [ELoc, St.goto, St.flush, St.setTh, upd_same]; exact hl
  esame I x inp hd hp hself

theorem einv_run_gt1 {σ : St} (x inp : Nat) (k : MK) (I : EInv σ)
    (hpc : (σ.th x).pc = .gt1 k) : EInv (stepRun σ x inp).2 := by
  have hd : (stepRun σ x inp).2.edata = σ.edata := by simp only [stepRun, hpc]; rfl
  have hp : (stepRun σ x inp).2.mgr.pipe = σ.mgr.pipe := by simp only [stepRun, hpc]; rfl
  have hself : ELoc σ (tokOf σ x) ((stepRun σ x inp).2.th x) := by
    simp only [stepRun, hpc]
    simp [ELoc, St.goto, St.flush, St.setTh, upd]
  esame I x inp hd hp hself

/-- the removal facts of the stepping thread, for the continuation lemmas -/
theorem rem_of {σ : St} {x : Nat} {k : MK} (h : k.isRm1 = true → remFacts σ (σ.th x).s) (σ1 : St)
    (hs : (σ1.th x).s = (σ.th x).s) : k.isRm1 = true → remFacts σ (σ1.th x).s := by
  intro hk; rw [hs]; exact h hk

theorem einv_run_f2 {σ : St} (x inp : Nat) (k : MK) (I : EInv σ)
    (hpc : (σ.th x).pc = .f2 k) : EInv (stepRun σ x inp).2 := by
  have hl := I.loc x; simp only [ELoc, hpc] at hl
  have hd : (stepRun σ x inp).2.edata = σ.edata := by
    simp only [stepRun, hpc]; split
    · rfl
    · rw [edata_freeTail]; rfl
  have hp : (stepRun σ x inp).2.mgr.pipe = σ.mgr.pipe := by
    simp only [stepRun, hpc]; split
    · rfl
    · rw [freeTail_pipe]; rfl
  have hself : ELoc σ (tokOf σ x) ((stepRun σ x inp).2.th x) := by
    simp only [stepRun, hpc]; split
    · simp only [ELoc, St.goto, St.flush, St.setTh, upd_same]; exact hl
    · exact freeTail_eloc σ _ x k _ (rem_of hl _ (by simp [St.flush, St.setTh, upd]))
  esame I x inp hd hp hself

theorem einv_run_f3 {σ : St} (x inp : Nat) (k : MK) (I : EInv σ)
    (hpc : (σ.th x).pc = .f3 k) : EInv (stepRun σ x inp).2 := by
  have hl := I.loc x; simp only [ELoc, hpc] at hl
  have hd : (stepRun σ x inp).2.edata = σ.edata := by
    simp only [stepRun, hpc]; split
    · rw [edata_freeTail]; rfl
    · rfl
  have hp : (stepRun σ x inp).2.mgr.pipe = σ.mgr.pipe := by
    simp only [stepRun, hpc]; split
    · rw [freeTail_pipe]; rfl
    · rfl
  have hself : ELoc σ (tokOf σ x) ((stepRun σ x inp).2.th x) := by
    simp only [stepRun, hpc]; split
    · exact freeTail_eloc σ _ x k _ (rem_of hl _ (by simp [St.flush, St.setTh, upd]))
    · simp only [ELoc, St.goto, St.flush, St.setTh, upd_same]
      exact ⟨hl, fun j hj => by omega⟩
  esame I x inp hd hp hself

theorem einv_run_f5 {σ : St} (x inp : Nat) (k : MK) (I : EInv σ)
    (hpc : (σ.th x).pc = .f5 k) : EInv (stepRun σ x inp).2 := by
  have hl := I.loc x; simp only [ELoc, hpc] at hl
  have hd : (stepRun σ x inp).2.edata = σ.edata := by
    simp only [stepRun, hpc]; rw [edata_freeTail]; rfl
  have hp : (stepRun σ x inp).2.mgr.pipe = σ.mgr.pipe := by
    simp only [stepRun, hpc]; rw [freeTail_pipe]; rfl
  have hself : ELoc σ (tokOf σ x) ((stepRun σ x inp).2.th x) := by
    simp only [stepRun, hpc]
    exact freeTail_eloc σ _ x k _ (rem_of hl _ (by simp [St.flush, St.setTh, upd]))
  esame I x inp hd hp hself

theorem einv_run_f7 {σ : St} (x inp : Nat) (k : MK) (I : EInv σ)
    (hpc : (σ.th x).pc = .f7 k) : EInv (stepRun σ x inp).2 := by
  have hl := I.loc x; simp only [ELoc, hpc] at hl
  have hd : (stepRun σ x inp).2.edata = σ.edata := by
    simp only [stepRun, hpc]; split
    · rfl
    · rw [edata_freeEnd]; rfl
  have hp : (stepRun σ x inp).2.mgr.pipe = σ.mgr.pipe := by
    simp only [stepRun, hpc]; split
    · rfl
    · rw [freeEnd_pipe]; rfl
  have hself : ELoc σ (tokOf σ x) ((stepRun σ x inp).2.th x) := by
    simp only [stepRun, hpc]; split
    · simp only [ELoc, St.goto, St.flush, St.setTh, upd_same]; exact hl
    · exact freeEnd_eloc σ _ x k _ (rem_of hl _ (by simp [St.flush, St.setTh, upd]))
  esame I x inp hd hp hself

theorem einv_run_f9 {σ : St} (x inp : Nat) (k : MK) (c : Nat) (I : EInv σ)
    (hpc : (σ.th x).pc = .f9 k c) : EInv (stepRun σ x inp).2 := by
  have hl := I.loc x; simp only [ELoc, hpc] at hl
  have hd : (stepRun σ x inp).2.edata = σ.edata := by simp only [stepRun, hpc]; rfl
  have hp : (stepRun σ x inp).2.mgr.pipe = σ.mgr.pipe := by simp only [stepRun, hpc]; rfl
  have hself : ELoc σ (tokOf σ x) ((stepRun σ x inp).2.th x) := by
    simp only [stepRun, hpc]
    simp only [ELoc, St.goto, St.flush, St.setTh, upd_same]; exact hl
  esame I x inp hd hp hself

theorem einv_run_f10 {σ : St} (x inp : Nat) (k : MK) (I : EInv σ)
    (hpc : (σ.th x).pc = .f10 k) : EInv (stepRun σ x inp).2 := by
  have hl := I.loc x; simp only [ELoc, hpc] at hl
  have hd : (stepRun σ x inp).2.edata = σ.edata := by
    simp only [stepRun, hpc]; rw [edata_freeEnd]; rfl
  have hp : (stepRun σ x inp).2.mgr.pipe = σ.mgr.pipe := by
    simp only [stepRun, hpc]; rw [freeEnd_pipe]; rfl
  have hself : ELoc σ (tokOf σ x) ((stepRun σ x inp).2.th x) := by
    simp only [stepRun, hpc]
    exact freeEnd_eloc σ _ x k _ (rem_of hl _ (by simp [St.flush, St.setTh, upd]))
  esame I x inp hd hp hself

/-! ### steps that change the registry -/

theorem held_le_cur {σ : St} (R : RegInv σ) (u p : Nat) (h : (σ.th u).pc.holdG = some p) : p ≤ σ.cur := by
  have L := R.loc u
  cases hpc : (σ.th u).pc <;> rw [hpc] at h <;> simp only [PC.holdG] at h <;> (try (cases h; done))
  case g2 m hh tl p' i md =>
    injection h with h; subst h
    simp only [RLoc, hpc] at L; exact L
  case a2 c =>
    injection h with h; subst h
    simp only [RLoc, hpc] at L; exact L.2.2

/-- a new, unpublished group is allocated -/
theorem einv_reg_grow {σ σ' : St} {x : Nat} (I : EInv σ) (R : RegInv σ)
    (hth : ∀ u, u ≠ x → σ'.th u = σ.th u) (htok : ∀ u, tokOf σ' u = tokOf σ u)
    (hmgr : σ'.mgr = σ.mgr) (hcur : σ'.cur = σ.cur) (hest : σ'.est = σ.est)
    (hgr : ∃ l, σ'.groups = upd σ.groups σ.nextGrp l)
    (c_self : ELoc σ' (tokOf σ x) (σ'.th x)) : EInv σ' := by
  obtain ⟨l, hgr⟩ := hgr
  have hlt : σ.cur < σ.nextGrp := R.curlt
  have hgc : σ'.groups σ'.cur = σ.groups σ.cur := by
    rw [hgr, hcur]; simp only [upd]; split
    · omega
    · rfl
  have h1 := congrArg Mgr.toks hmgr; have h2 := congrArg Mgr.freed hmgr; have h3 := congrArg Mgr.tofree hmgr
  have h4 := congrArg Mgr.tokv hmgr; have h5 := congrArg Mgr.iepoch hmgr
  simp only [St.mgr] at h1 h2 h3 h4 h5
  have hrm : ∀ s, remFacts σ s → remFacts σ' s := by
    intro s h; simp only [remFacts, hest, hgc]; exact h
  refine einv_update I hth htok ?_ ?_ c_self ?_
  · intro k hk; rw [hmgr] at hk; rw [hcur]; exact I.pipeG k hk
  · intro s hs; rw [hmgr] at hs; exact hrm s (I.pipeP s hs)
  · intro u hu L
    refine ELoc_reg L ⟨h1, h2, h3, h4, h5⟩ (by omega) ?_ (by intro s' h; rw [hest]; exact h) ?_
    · intro p hp
      have := held_le_cur R u p hp
      rw [hgr]; simp only [upd]; split
      · omega
      · rfl
    · intro s' _ h; rw [hgc]; exact h

/-- a new group is published -/
theorem einv_cur_move {σ σ' : St} {x : Nat} (I : EInv σ)
    (hth : ∀ u, u ≠ x → σ'.th u = σ.th u) (htok : ∀ u, tokOf σ' u = tokOf σ u)
    (hmgr : σ'.mgr = σ.mgr) (hgroups : σ'.groups = σ.groups) (hcur : σ.cur < σ'.cur)
    (hest : ∀ s', σ.est s' = true → σ'.est s' = true)
    (hg : ∀ s', σ.est s' = true → s' ∉ σ.groups σ.cur → s' ∉ σ'.groups σ'.cur)
    (c_self : ELoc σ' (tokOf σ x) (σ'.th x)) : EInv σ' := by
  have h1 := congrArg Mgr.toks hmgr; have h2 := congrArg Mgr.freed hmgr; have h3 := congrArg Mgr.tofree hmgr
  have h4 := congrArg Mgr.tokv hmgr; have h5 := congrArg Mgr.iepoch hmgr
  simp only [St.mgr] at h1 h2 h3 h4 h5
  refine einv_update I hth htok ?_ ?_ c_self ?_
  · intro k hk; rw [hmgr] at hk; have := I.pipeG k hk; omega
  · intro s hs; rw [hmgr] at hs; exact remFacts_mono_reg (I.pipeP s hs) hest hg
  · intro u hu L
    exact ELoc_reg L ⟨h1, h2, h3, h4, h5⟩ (by omega) (fun p _ => by rw [hgroups]) hest hg

theorem einv_run_a2 {σ : St} (x inp : Nat) (c : Nat) (I : EInv σ) (R : RegInv σ)
    (hpc : (σ.th x).pc = .a2 c) : EInv (stepRun σ x inp).2 := by
  apply einv_reg_grow (x := x) I R (fun u hu => stepRun_th σ x inp u hu) (tokOf_stepRun σ x inp)
  · simp only [stepRun, hpc]; rfl
  · simp only [stepRun, hpc]; rfl
  · simp only [stepRun, hpc]; rfl
  · simp only [stepRun, hpc]; exact ⟨_, rfl⟩
  · simp only [stepRun, hpc]; simp [ELoc, St.gotoF, St.flush, St.setTh, upd]

theorem einv_run_rr1 {σ : St} (x inp : Nat) (I : EInv σ) (R : RegInv σ)
    (hpc : (σ.th x).pc = .rr1) : EInv (stepRun σ x inp).2 := by
  apply einv_reg_grow (x := x) I R (fun u hu => stepRun_th σ x inp u hu) (tokOf_stepRun σ x inp)
  · simp only [stepRun, hpc]; rfl
  · simp only [stepRun, hpc]; rfl
  · simp only [stepRun, hpc]; rfl
  · simp only [stepRun, hpc]; exact ⟨_, rfl⟩
  · simp only [stepRun, hpc]; simp [ELoc, St.goto, St.flush, St.setTh, upd]

theorem einv_run_a3 {σ : St} (x inp : Nat) (c raw ng : Nat) (I : EInv σ) (R : RegInv σ) (K : EStepOK σ x)
    (hpc : (σ.th x).pc = .a3 c raw ng) : EInv (stepRun σ x inp).2 := by
  have L := R.loc x
  simp only [RLoc, hpc] at L
  obtain ⟨_, hens, hcng, hngn, hgng⟩ := L
  by_cases hc : σ.cur = c
  · -- the new list is published
    apply einv_cur_move (x := x) I (fun u hu => stepRun_th σ x inp u hu) (tokOf_stepRun σ x inp)
    · simp only [stepRun, hpc, hc, if_true]; rfl
    · simp only [stepRun, hpc, hc, if_true]; rfl
    · simp only [stepRun, hpc, hc, if_true]; simp [St.gotoF, St.setTh]; omega
    · intro s' h
      simp only [stepRun, hpc, hc, if_true]
      simp only [St.gotoF, St.setTh, St.flush, upd]
      split
      · rfl
      · exact h
    · intro s' h1 h2
      simp only [stepRun, hpc, hc, if_true]
      simp only [St.gotoF, St.setTh, St.flush]
      rw [hgng, ← hc]
      intro hmem
      rcases List.mem_append.mp hmem with h | h
      · exact h2 h
      · simp only [List.mem_singleton] at h
        rw [h, hens] at h1; cases h1
    · simp only [stepRun, hpc, hc, if_true]
      simp only [ELoc, St.gotoF, St.setTh, St.flush, upd_same, MK.isRm1]
      exact ⟨by omega, fun h => by cases h⟩
  · -- the CAS failed: the thread continues with the pointer it was handed
    have htk := K.reg (Or.inr (Or.inr ⟨c, raw, ng, hpc⟩))
    have hd : (stepRun σ x inp).2.edata = σ.edata := by simp only [stepRun, hpc, hc, if_false]; rfl
    have hp : (stepRun σ x inp).2.mgr.pipe = σ.mgr.pipe := by simp only [stepRun, hpc, hc, if_false]; rfl
    have hself : ELoc σ (tokOf σ x) ((stepRun σ x inp).2.th x) := by
      simp only [stepRun, hpc, hc, if_false]
      simp only [ELoc, St.gotoF, St.flush, St.setTh, upd_same]; exact hold_acquire I htk
    esame I x inp hd hp hself

theorem einv_run_rr2 {σ : St} (x inp : Nat) (c ng : Nat) (I : EInv σ) (R : RegInv σ) (K : EStepOK σ x)
    (hpc : (σ.th x).pc = .rr2 c ng) : EInv (stepRun σ x inp).2 := by
  have L := R.loc x
  simp only [RLoc, hpc] at L
  obtain ⟨hcng, hngn, hgng⟩ := L
  by_cases hc : σ.cur = c
  · have hreg := K.rem c ng hpc hc
    have hest : σ.est (σ.th x).s = true := R.regest _ (by rw [hc]; exact hreg)
    have hnot : (σ.th x).s ∉ σ.groups ng := by
      rw [hgng]; intro h; have := (List.mem_filter.mp h).2; simp at this
    apply einv_cur_move (x := x) I (fun u hu => stepRun_th σ x inp u hu) (tokOf_stepRun σ x inp)
    · simp only [stepRun, hpc, hc, if_true]; split <;> rfl
    · simp only [stepRun, hpc, hc, if_true]; split <;> rfl
    · simp only [stepRun, hpc, hc, if_true]; split <;> (simp [St.gotoF, St.setTh]; omega)
    · intro s' h
      simp only [stepRun, hpc, hc, if_true]; split <;> exact h
    · intro s' h1 h2
      have : s' ∉ σ.groups ng := by
        rw [hgng]; intro h; exact h2 (by rw [hc]; exact (List.mem_filter.mp h).1)
      simp only [stepRun, hpc, hc, if_true]; split <;> exact this
    · simp only [stepRun, hpc, hc, if_true]; split
      · simp only [ELoc, St.gotoF, St.setTh, St.flush, upd_same, remFacts]
        exact ⟨by omega, hest, hnot⟩
      · simp only [ELoc, St.gotoF, St.setTh, St.flush, upd_same, remFacts]
        exact ⟨by omega, fun _ => ⟨hest, hnot⟩⟩
  · apply einv_reg_grow (x := x) I R (fun u hu => stepRun_th σ x inp u hu) (tokOf_stepRun σ x inp)
    · simp only [stepRun, hpc, hc, if_false]; rfl
    · simp only [stepRun, hpc, hc, if_false]; rfl
    · simp only [stepRun, hpc, hc, if_false]; rfl
    · simp only [stepRun, hpc, hc, if_false]; exact ⟨_, rfl⟩
    · simp only [stepRun, hpc, hc, if_false]; simp [ELoc, St.goto, St.flush, St.setTh, upd]

/-! ### steps that change manager data -/

/-- generic: the registry stays, the pipeline gains at most what the step retires -/
theorem einv_mgr {σ σ' : St} {x : Nat} (I : EInv σ)
    (hth : ∀ u, u ≠ x → σ'.th u = σ.th u) (htok : ∀ u, tokOf σ' u = tokOf σ u)
    (hr : σ'.groups = σ.groups ∧ σ'.cur = σ.cur ∧ σ'.est = σ.est)
    (hmem : ∀ o, o ∈ σ'.mgr.pipe → o ∈ σ.mgr.pipe ∨ o ∈ (σ.th x).pc.retires)
    (c_self : ELoc σ' (tokOf σ x) (σ'.th x))
    (c_oth : ∀ u, u ≠ x → ELoc σ (tokOf σ u) (σ.th u) → ELoc σ' (tokOf σ u) (σ.th u)) : EInv σ' := by
  obtain ⟨h6, h7, h8⟩ := hr
  have hl := I.loc x
  refine einv_update I hth htok ?_ ?_ c_self c_oth
  · intro k hk
    rw [h7]
    rcases hmem _ hk with h | h
    · exact I.pipeG k h
    · cases hpc : (σ.th x).pc <;> rw [hpc] at h <;> simp only [PC.retires, List.not_mem_nil] at h
      case f1 k' ob =>
        simp only [List.mem_singleton] at h; subst h
        simp only [ELoc, hpc] at hl; exact hl.1
  · intro s hs
    have : remFacts σ s := by
      rcases hmem _ hs with h | h
      · exact I.pipeP s h
      · cases hpc : (σ.th x).pc <;> rw [hpc] at h <;> simp only [PC.retires, List.not_mem_nil] at h
        case f1 k' ob =>
          simp only [List.mem_singleton] at h; subst h
          simp only [ELoc, hpc] at hl; exact hl.1
    simp only [remFacts, h6, h7, h8] at this ⊢; exact this

theorem pipe_mem_stepRun {σ : St} (x inp : Nat) (M : MInvS σ) :
    ∀ o, o ∈ (stepRun σ x inp).2.mgr.pipe → o ∈ σ.mgr.pipe ∨ o ∈ (σ.th x).pc.retires := by
  intro o ho
  have := (pipe_stepRun x inp M).mem_iff.mp ho
  exact List.mem_append.mp this

theorem reg_same_of_ereg {σ σ' : St} (h : σ'.ereg = σ.ereg) : σ'.groups = σ.groups ∧ σ'.cur = σ.cur ∧ σ'.est = σ.est := by
  have h6 := congrArg EReg.groups h; have h7 := congrArg EReg.cur h; have h8 := congrArg EReg.est h
  exact ⟨h6, h7, h8⟩

theorem not_reg_pc {pc : PC} (h : pc.mgrSrc = true) :
    ∀ c raw ng, pc ≠ .a2 c ∧ pc ≠ .a3 c raw ng ∧ pc ≠ .rr1 ∧ pc ≠ .rr2 c ng := by
  intro c raw ng
  cases pc <;> simp [PC.mgrSrc] at h ⊢

/-- the frame of a manager step, ready for `einv_mgr` -/
theorem einv_mgr_step {σ : St} (x inp : Nat) (I : EInv σ) (M : MInvS σ) (hs : (σ.th x).pc.mgrSrc = true)
    (c_self : ELoc (stepRun σ x inp).2 (tokOf σ x) ((stepRun σ x inp).2.th x))
    (c_oth : ∀ u, u ≠ x → ELoc σ (tokOf σ u) (σ.th u) → ELoc (stepRun σ x inp).2 (tokOf σ u) (σ.th u)) :
    EInv (stepRun σ x inp).2 :=
  einv_mgr I (fun u hu => stepRun_th σ x inp u hu) (tokOf_stepRun σ x inp)
    (reg_same_of_ereg (stepRun_ereg_same σ x inp (not_reg_pc hs))) (pipe_mem_stepRun x inp M) c_self c_oth

theorem idle_of_eloc {σ : St} {tk : Nat} {y : Th} (h : y.pc = .idle) : True := trivial

/-- a thread with a hold or an update fact is inside a call -/
theorem not_idle_of_hold {pc : PC} {p : Nat} (h : pc.holdG = some p) : pc ≠ .idle := by
  intro e; rw [e] at h; cases h

theorem einv_run_u3 {σ : St} (x inp : Nat) (k : MK) (e : Nat) (I : EInv σ) (M : MInvS σ) (K : EStepOK σ x)
    (hpc : (σ.th x).pc = .u3 k e) : EInv (stepRun σ x inp).2 := by
  have hl := I.loc x; simp only [ELoc, hpc] at hl
  have hml := M.loc x; rw [hpc] at hml; simp only [MLoc] at hml
  have hok := M.ok x; rw [hpc] at hok
  have hk1 := isRm1_of_ok hok
  have hr := reg_same_of_ereg (stepRun_ereg_same σ x inp (not_reg_pc (by rw [hpc]; rfl)))
  have e1 : (stepRun σ x inp).2.toks = σ.toks ∧ (stepRun σ x inp).2.freed = σ.freed ∧ (stepRun σ x inp).2.tofree = σ.tofree ∧
      (stepRun σ x inp).2.iepoch = σ.iepoch ∧ (stepRun σ x inp).2.tokv = upd σ.tokv (tokOf σ x) e := by
    have := edata_mgrDone ({ σ.flush x with tokv := upd σ.tokv (σ.hs (σ.th x).g).tok e }) x k
    simp only [stepRun, hpc]
    exact ⟨congrArg EData.toks this, congrArg EData.freed this, congrArg EData.tofree this, congrArg EData.iepoch this,
      congrArg EData.tokv this⟩
  obtain ⟨t1, t2, t3, t4, t5⟩ := e1
  apply einv_mgr_step x inp I M (by rw [hpc]; rfl)
  · simp only [stepRun, hpc]
    exact mgrDone_eloc _ _ x k _ (by rw [hk1]; intro h; cases h)
  · intro u hu L
    apply ELoc_mgr L hr
    · intro p hp hf
      have hne : tokOf σ u ≠ tokOf σ x := K.tokd u hu (not_idle_of_hold hp)
      simp only [holdFacts, prot, t1, t2, t3, t4, t5, hr.1, upd, hne, if_false] at hf ⊢; exact hf
    · intro k' e' i hq hsc j hj hjl
      rw [t1] at hjl ⊢
      rw [t5]; simp only [upd]; split
      · rename_i heq
        -- the scanner already saw this token at the epoch; the stored value is between it and the epoch
        have h1 := hsc j hj hjl
        rw [heq] at h1
        have hmu := M.loc u; rw [hq] at hmu; simp only [MLoc] at hmu
        simp only [St.mgr] at hml hmu
        omega
      · exact hsc j hj hjl
    · intro k' e' hq hle
      have hni : (σ.th u).pc ≠ .idle := by rcases hq with h | h <;> (rw [h]; simp)
      have hne : tokOf σ u ≠ tokOf σ x := K.tokd u hu hni
      rw [t5]; simp only [upd, hne, if_false]; exact hle

theorem no_scanner_of_owner {σ : St} (M : MInvS σ) {x u : Nat} (hx : σ.mgrOwner = some x ∨ σ.mgrOwner = none) (hu : u ≠ x)
    {k : MK} {e i : Nat} (hq : (σ.th u).pc = .f4 k e i) : False := by
  have := (M.ownM u).mp (by rw [hq]; rfl)
  simp only [St.mgr] at this
  rcases hx with h | h <;> rw [h] at this
  · injection this with this; exact hu this.symm
  · cases this

theorem einv_run_gt2 {σ : St} (x inp : Nat) (k : MK) (I : EInv σ) (M : MInvS σ) (K : EStepOK σ x)
    (hpc : (σ.th x).pc = .gt2 k) : EInv (stepRun σ x inp).2 := by
  have hok := M.ok x; rw [hpc] at hok
  have hk1 := isRm1_of_ok hok
  have hown : σ.mgrOwner = some x := by
    have := (M.ownM x).mp (by rw [hpc]; rfl); simpa [St.mgr] using this
  have hr := reg_same_of_ereg (stepRun_ereg_same σ x inp (not_reg_pc (by rw [hpc]; rfl)))
  have e1 : (stepRun σ x inp).2.toks = σ.toks ++ [(σ.th x).ng] ∧ (stepRun σ x inp).2.freed = σ.freed ∧
      (stepRun σ x inp).2.tofree = σ.tofree ∧ (stepRun σ x inp).2.iepoch = σ.iepoch ∧
      (stepRun σ x inp).2.tokv = upd σ.tokv (σ.th x).ng σ.epoch := by
    have := edata_mgrDone ({ σ.flush x with tokv := upd σ.tokv (σ.th x).ng σ.epoch, toks := σ.toks ++ [(σ.th x).ng], mgrOwner := none }) x k
    simp only [stepRun, hpc]
    exact ⟨congrArg EData.toks this, congrArg EData.freed this, congrArg EData.tofree this, congrArg EData.iepoch this,
      congrArg EData.tokv this⟩
  obtain ⟨t1, t2, t3, t4, t5⟩ := e1
  apply einv_mgr_step x inp I M (by rw [hpc]; rfl)
  · simp only [stepRun, hpc]
    exact mgrDone_eloc _ _ x k _ (by rw [hk1]; intro h; cases h)
  · intro u hu L
    apply ELoc_mgr L hr
    · intro p hp hf
      have hne : tokOf σ u ≠ (σ.th x).ng := fun h => K.newtok k hpc u hu (not_idle_of_hold hp) h.symm
      simp only [holdFacts, prot, t1, t2, t3, t4, t5, hr.1, upd, hne, if_false, List.mem_append] at hf ⊢
      exact ⟨Or.inl hf.1, hf.2⟩
    · intro k' e' i hq
      exact absurd (no_scanner_of_owner M (Or.inl hown) hu hq) id
    · intro k' e' hq hle
      have hni : (σ.th u).pc ≠ .idle := by rcases hq with h | h <;> (rw [h]; simp)
      have hne : tokOf σ u ≠ (σ.th x).ng := fun h => K.newtok k hpc u hu hni h.symm
      rw [t5]; simp only [upd, hne, if_false]; exact hle

theorem einv_run_f1 {σ : St} (x inp : Nat) (k : MK) (ob : Obj) (I : EInv σ) (M : MInvS σ)
    (hpc : (σ.th x).pc = .f1 k ob) : EInv (stepRun σ x inp).2 := by
  have hl := I.loc x; simp only [ELoc, hpc] at hl
  have hd : (stepRun σ x inp).2.edata = σ.edata := by simp only [stepRun, hpc]; rfl
  apply einv_mgr_step x inp I M (by rw [hpc]; rfl)
  · apply ELoc_congr hd
    simp only [stepRun, hpc]
    simp only [ELoc, St.goto, St.flush, St.setTh, upd_same]; exact hl.2
  · intro u hu L; exact ELoc_congr hd L

theorem einv_run_f8 {σ : St} (x inp : Nat) (k : MK) (I : EInv σ) (M : MInvS σ)
    (hpc : (σ.th x).pc = .f8 k) : EInv (stepRun σ x inp).2 := by
  have hl := I.loc x; simp only [ELoc, hpc] at hl
  by_cases hie : σ.iepoch = σ.epoch
  · have hr := reg_same_of_ereg (stepRun_ereg_same σ x inp (not_reg_pc (by rw [hpc]; rfl)))
    have e1 : (stepRun σ x inp).2.toks = σ.toks ∧ (stepRun σ x inp).2.freed = σ.freed ∧
        (stepRun σ x inp).2.tofree = σ.wtf ∧ (stepRun σ x inp).2.iepoch = σ.iepoch ∧ (stepRun σ x inp).2.tokv = σ.tokv := by
      simp only [stepRun, hpc, if_pos hie]; exact ⟨rfl, rfl, rfl, rfl, rfl⟩
    obtain ⟨t1, t2, t3, t4, t5⟩ := e1
    apply einv_mgr_step x inp I M (by rw [hpc]; rfl)
    · simp only [stepRun, hpc, if_pos hie]
      simp only [ELoc, St.goto, St.flush, St.setTh, upd_same, remFacts]; exact hl
    · intro u hu L
      apply ELoc_mgr L hr
      · intro p hp hf
        have htl : ∀ g, σ.tokv g ≤ σ.iepoch := by intro g; have := M.tokle g; simp only [St.mgr] at this; omega
        simp only [holdFacts, prot, t1, t2, t3, t4, t5, hr.1] at hf ⊢
        exact ⟨hf.1, ⟨hf.2.1.1, fun _ => htl _⟩, fun sid hs => ⟨(hf.2.2 sid hs).1, fun _ => htl _⟩⟩
      · intro k' e' i hq hsc; rw [t1, t5]; exact hsc
      · intro k' e' hq hle; rw [t5]; exact hle
  · have hd : (stepRun σ x inp).2.edata = σ.edata := by
      simp only [stepRun, hpc, if_neg hie]; rw [edata_freeEnd]; rfl
    have hp : (stepRun σ x inp).2.mgr.pipe = σ.mgr.pipe := by
      simp only [stepRun, hpc, if_neg hie]; rw [freeEnd_pipe]; rfl
    have hself : ELoc σ (tokOf σ x) ((stepRun σ x inp).2.th x) := by
      simp only [stepRun, hpc, if_neg hie]
      exact freeEnd_eloc σ _ x k _ (rem_of hl _ (by simp [St.flush, St.setTh, upd]))
    esame I x inp hd hp hself

theorem einv_run_rt1 {σ : St} (x inp : Nat) (kk : Nat) (I : EInv σ) (M : MInvS σ) (K : EStepOK σ x) (L : LockOK σ x)
    (hpc : (σ.th x).pc = .rt1 kk) : EInv (stepRun σ x inp).2 := by
  simp only [LockOK, hpc] at L
  have hr := reg_same_of_ereg (stepRun_ereg_same σ x inp (not_reg_pc (by rw [hpc]; rfl)))
  have e1 : (stepRun σ x inp).2.toks = σ.toks.erase (tokOf σ x) ∧ (stepRun σ x inp).2.freed = σ.freed ∧
      (stepRun σ x inp).2.tofree = σ.tofree ∧ (stepRun σ x inp).2.iepoch = σ.iepoch ∧ (stepRun σ x inp).2.tokv = σ.tokv := by
    simp only [stepRun, hpc]; exact ⟨rfl, rfl, rfl, rfl, rfl⟩
  obtain ⟨t1, t2, t3, t4, t5⟩ := e1
  apply einv_mgr_step x inp I M (by rw [hpc]; rfl)
  · simp only [stepRun, hpc]
    simp [ELoc, St.goto, St.flush, St.setTh, upd, MK.isRm1]
  · intro u hu L'
    apply ELoc_mgr L' hr
    · intro p hp hf
      have hne : tokOf σ u ≠ tokOf σ x := K.tokd u hu (not_idle_of_hold hp)
      simp only [holdFacts, prot, t1, t2, t3, t4, t5, hr.1] at hf ⊢
      exact ⟨(List.mem_erase_of_ne hne).mpr hf.1, hf.2⟩
    · intro k' e' i hq
      exact absurd (no_scanner_of_owner M (Or.inr L) hu hq) id
    · intro k' e' hq hle; rw [t5]; exact hle

theorem einv_run_tdm {σ : St} (x inp : Nat) (I : EInv σ) (M : MInvS σ) (K : EStepOK σ x)
    (hpc : (σ.th x).pc = .tdm) : EInv (stepRun σ x inp).2 := by
  have hr := reg_same_of_ereg (stepRun_ereg_same σ x inp (not_reg_pc (by rw [hpc]; rfl)))
  have e1 : (stepRun σ x inp).2.toks = σ.toks ∧ (stepRun σ x inp).2.tokv = σ.tokv := by
    simp only [stepRun, hpc]; exact ⟨rfl, rfl⟩
  obtain ⟨t1, t5⟩ := e1
  apply einv_mgr_step x inp I M (by rw [hpc]; rfl)
  · simp only [stepRun, hpc]
    simp [ELoc, St.goto, St.flush, St.setTh, upd]
  · intro u hu L'
    apply ELoc_mgr L' hr
    · intro p hp; rw [K.tdm hpc u hu] at hp; cases hp
    · intro k' e' i hq hsc; rw [t1, t5]; exact hsc
    · intro k' e' hq hle; rw [t5]; exact hle

theorem getD_of_mem {l : List Nat} {a : Nat} (h : a ∈ l) : ∃ j, j < l.length ∧ l.getD j 0 = a := by
  obtain ⟨j, hj, e⟩ := List.mem_iff_getElem.mp h
  exact ⟨j, hj, by simp [List.getD, hj, e]⟩

/-- the heart of the epoch argument: when the scan of the token vector succeeds, no thread holds anything
that sits in the pending batch -/
theorem scan_success_no_holder {σ : St} (I : EInv σ) (M : MInvS σ) {x u : Nat} {k : MK} {e i : Nat}
    (hpc : (σ.th x).pc = .f4 k e i) (hv : σ.tokv (σ.toks.getD i 0) = e) (hlast : ¬ i + 1 < σ.toks.length)
    (hu : u ≠ x) {y : Obj} (htk : tokOf σ u ∈ σ.toks) (hy : y ∈ σ.tofree) (hle : σ.tokv (tokOf σ u) ≤ σ.iepoch) : False := by
  have hl := I.loc x; simp only [ELoc, hpc] at hl
  have hml := M.loc x; rw [hpc] at hml; simp only [MLoc, St.mgr] at hml
  have hown : σ.mgr.mgrOwner = some x := (M.ownM x).mp (by rw [hpc]; rfl)
  obtain ⟨j, hj, hje⟩ := getD_of_mem htk
  have htv : σ.tokv (tokOf σ u) = e := by
    rw [← hje]
    by_cases hji : j < i
    · exact hl.2 j hji hj
    · have : j = i := by omega
      rw [this]; exact hv
  rcases M.ep with h | h <;> simp only [St.mgr] at h
  · have : σ.tofree = [] := by
      have := M.idle h (by
        intro w k' c hq
        by_cases hw : w = x
        · subst hw; rw [hpc] at hq; cases hq
        · have := other_not_held M hown hw; rw [hq] at this; cases this)
      simpa [St.mgr] using this
    rw [this] at hy; cases hy
  · omega

theorem einv_run_f4 {σ : St} (x inp : Nat) (k : MK) (e i : Nat) (I : EInv σ) (M : MInvS σ)
    (hpc : (σ.th x).pc = .f4 k e i) : EInv (stepRun σ x inp).2 := by
  have hl := I.loc x; simp only [ELoc, hpc] at hl
  by_cases hv : σ.tokv (σ.toks.getD i 0) = e
  · by_cases hlt : i + 1 < σ.toks.length
    · -- next token
      have hd : (stepRun σ x inp).2.edata = σ.edata := by simp only [stepRun, hpc, if_pos hv, if_pos hlt]; rfl
      have hp : (stepRun σ x inp).2.mgr.pipe = σ.mgr.pipe := by simp only [stepRun, hpc, if_pos hv, if_pos hlt]; rfl
      have hself : ELoc σ (tokOf σ x) ((stepRun σ x inp).2.th x) := by
        simp only [stepRun, hpc, if_pos hv, if_pos hlt]
        simp only [ELoc, St.goto, St.flush, St.setTh, upd_same]
        refine ⟨hl.1, ?_⟩
        intro j hj hjl
        by_cases hji : j < i
        · exact hl.2 j hji hjl
        · have : j = i := by omega
          rw [this]; exact hv
      esame I x inp hd hp hself
    · -- the scan is complete: the pending batch is released
      have hr := reg_same_of_ereg (stepRun_ereg_same σ x inp (not_reg_pc (by rw [hpc]; rfl)))
      have e1 : (stepRun σ x inp).2.toks = σ.toks ∧ (stepRun σ x inp).2.freed = σ.freed ++ σ.tofree ∧
          (stepRun σ x inp).2.tofree = [] ∧ (stepRun σ x inp).2.tokv = σ.tokv := by
        simp only [stepRun, hpc, if_pos hv, if_neg hlt]; exact ⟨rfl, rfl, rfl, rfl⟩
      obtain ⟨t1, t2, t3, t5⟩ := e1
      apply einv_mgr_step x inp I M (by rw [hpc]; rfl)
      · simp only [stepRun, hpc, if_pos hv, if_neg hlt]
        simp only [ELoc, St.goto, St.flush, St.setTh, upd_same, remFacts]; exact hl.1
      · intro u hu L
        apply ELoc_mgr L hr
        · intro p hp hf
          obtain ⟨f1, ⟨f2, f3⟩, f4⟩ := hf
          simp only [holdFacts, prot, t1, t2, t3, t5, hr.1, List.mem_append, List.not_mem_nil, false_implies, and_true]
          refine ⟨f1, ?_, ?_⟩
          · intro h; rcases h with h | h
            · exact f2 h
            · exact scan_success_no_holder I M hpc hv hlt hu f1 h (f3 h)
          · intro sid hs h; rcases h with h | h
            · exact (f4 sid hs).1 h
            · exact scan_success_no_holder I M hpc hv hlt hu f1 h ((f4 sid hs).2 h)
        · intro k' e' i' hq hsc; rw [t1, t5]; exact hsc
        · intro k' e' hq hle; rw [t5]; exact hle
  · have hd : (stepRun σ x inp).2.edata = σ.edata := by
      simp only [stepRun, hpc, if_neg hv]; rw [edata_freeTail]; rfl
    have hp : (stepRun σ x inp).2.mgr.pipe = σ.mgr.pipe := by
      simp only [stepRun, hpc, if_neg hv]; rw [freeTail_pipe]; rfl
    have hself : ELoc σ (tokOf σ x) ((stepRun σ x inp).2.th x) := by
      simp only [stepRun, hpc, if_neg hv]
      exact freeTail_eloc σ _ x k _ (rem_of hl.1 _ (by simp [St.flush, St.setTh, upd]))
    esame I x inp hd hp hself

/-- EpochInv is preserved by every `run` step -/
theorem einv_stepRun {σ : St} (x inp : Nat) (I : EInv σ) (M : MInvS σ) (R : RegInv σ) (K : EStepOK σ x) (L : LockOK σ x) :
    EInv (stepRun σ x inp).2 := by
  cases hs : (σ.th x).pc.eSrc
  · exact einv_run_plain x inp I hs
  · cases hpc : (σ.th x).pc <;> rw [hpc] at hs <;> (try (simp [PC.eSrc, PC.mgrSrc] at hs; done))
    case g1 m h tl => exact einv_run_g1 x inp m h tl I K hpc
    case g2 m h tl p i md => exact einv_run_g2 x inp m h tl p i md I hpc
    case a1 => exact einv_run_a1 x inp I K hpc
    case a2 c => exact einv_run_a2 x inp c I R hpc
    case a3 c raw ng => exact einv_run_a3 x inp c raw ng I R K hpc
    case rr1 => exact einv_run_rr1 x inp I R hpc
    case rr2 c ng => exact einv_run_rr2 x inp c ng I R K hpc
    case rr3 c => exact einv_run_rr3 x inp c I hpc
    case u1 k => exact einv_run_u1 x inp k I M hpc
    case u2 k e => exact einv_run_u2 x inp k e I M hpc
    case u3 k e => exact einv_run_u3 x inp k e I M K hpc
    case gt1 k => exact einv_run_gt1 x inp k I hpc
    case gt2 k => exact einv_run_gt2 x inp k I M K hpc
    case f1 k ob => exact einv_run_f1 x inp k ob I M hpc
    case f2 k => exact einv_run_f2 x inp k I hpc
    case f3 k => exact einv_run_f3 x inp k I hpc
    case f4 k e i => exact einv_run_f4 x inp k e i I M hpc
    case f5 k => exact einv_run_f5 x inp k I hpc
    case f7 k => exact einv_run_f7 x inp k I hpc
    case f8 k => exact einv_run_f8 x inp k I M hpc
    case f9 k c => exact einv_run_f9 x inp k c I hpc
    case f10 k => exact einv_run_f10 x inp k I hpc
    case rt1 kk => exact einv_run_rt1 x inp kk I M K L hpc
    case tdm => exact einv_run_tdm x inp I M K hpc

end MQ
