import MQ.Inv.EpochDefs
/-! # EpochInv — how thread-local facts survive the different kinds of change -/
set_option linter.unusedSimpArgs false
set_option linter.unusedVariables false
namespace MQ

theorem einv_update {σ σ' : St} {x : Nat} (I : EInv σ)
    (hth : ∀ u, u ≠ x → σ'.th u = σ.th u)
    (htok : ∀ u, tokOf σ' u = tokOf σ u)
    (c_pG : ∀ k, Obj.grp k ∈ σ'.mgr.pipe → k < σ'.cur)
    (c_pP : ∀ s, Obj.posO s ∈ σ'.mgr.pipe → remFacts σ' s)
    (c_self : ELoc σ' (tokOf σ x) (σ'.th x))
    (c_oth : ∀ u, u ≠ x → ELoc σ (tokOf σ u) (σ.th u) → ELoc σ' (tokOf σ u) (σ.th u)) : EInv σ' := by
  refine ⟨c_pG, c_pP, ?_⟩
  intro u
  rw [htok]
  by_cases e : u = x
  · subst e; exact c_self
  · rw [hth u e]; exact c_oth u e (I.loc u)

/-- the data `ELoc` looks at -/
structure EData where
  toks : List Nat
  freed : List Obj
  tofree : List Obj
  tokv : Nat → Nat
  iepoch : Nat
  groups : Nat → List Nat
  cur : Nat
  est : Nat → Bool

def St.edata (σ : St) : EData :=
  { toks := σ.toks, freed := σ.freed, tofree := σ.tofree, tokv := σ.tokv, iepoch := σ.iepoch, groups := σ.groups,
    cur := σ.cur, est := σ.est }

theorem ELoc_congr {σ σ' : St} {tk : Nat} {y : Th} (h : σ'.edata = σ.edata) (L : ELoc σ tk y) : ELoc σ' tk y := by
  have h1 : σ'.toks = σ.toks := congrArg EData.toks h
  have h2 : σ'.freed = σ.freed := congrArg EData.freed h
  have h3 : σ'.tofree = σ.tofree := congrArg EData.tofree h
  have h4 : σ'.tokv = σ.tokv := congrArg EData.tokv h
  have h5 : σ'.iepoch = σ.iepoch := congrArg EData.iepoch h
  have h6 : σ'.groups = σ.groups := congrArg EData.groups h
  have h7 : σ'.cur = σ.cur := congrArg EData.cur h
  have h8 : σ'.est = σ.est := congrArg EData.est h
  obtain ⟨pc, g', v', outer, ff, pn, ng, ns, s, single, aux⟩ := y
  cases pc <;> simp only [ELoc, holdFacts, prot, remFacts, h1, h2, h3, h4, h5, h6, h7, h8] at L ⊢ <;> exact L

theorem remFacts_mono_reg {σ σ' : St} {s : Nat} (h : remFacts σ s) (hest : ∀ s', σ.est s' = true → σ'.est s' = true)
    (hg : ∀ s', σ.est s' = true → s' ∉ σ.groups σ.cur → s' ∉ σ'.groups σ'.cur) : remFacts σ' s :=
  ⟨hest s h.1, hg s h.1 h.2⟩

/-- a change of the registry that keeps held groups as they are, lets `cur` only grow, and never brings a
removed stream back -/
theorem ELoc_reg {σ σ' : St} {tk : Nat} {y : Th} (L : ELoc σ tk y)
    (hm : σ'.toks = σ.toks ∧ σ'.freed = σ.freed ∧ σ'.tofree = σ.tofree ∧ σ'.tokv = σ.tokv ∧ σ'.iepoch = σ.iepoch)
    (hcur : σ.cur ≤ σ'.cur)
    (hheld : ∀ p, y.pc.holdG = some p → σ'.groups p = σ.groups p)
    (hest : ∀ s', σ.est s' = true → σ'.est s' = true)
    (hg : ∀ s', σ.est s' = true → s' ∉ σ.groups σ.cur → s' ∉ σ'.groups σ'.cur) : ELoc σ' tk y := by
  obtain ⟨h1, h2, h3, h4, h5⟩ := hm
  have rm : ∀ s, remFacts σ s → remFacts σ' s := fun s h => remFacts_mono_reg h hest hg
  obtain ⟨pc, g', v', outer, ff, pn, ng, ns, s, single, aux⟩ := y
  cases pc <;> simp only [ELoc] at L ⊢
  case g2 m h tl p i md =>
    have := hheld p rfl
    simp only [holdFacts, prot, h1, h2, h3, h4, h5, this] at L ⊢; exact L
  case a2 c =>
    have := hheld c rfl
    simp only [holdFacts, prot, h1, h2, h3, h4, h5, this] at L ⊢; exact L
  case rr3 c => exact ⟨by omega, rm _ L.2⟩
  case f1 k ob =>
    refine ⟨?_, fun hk => rm _ (L.2 hk)⟩
    cases ob <;> simp only [] at L ⊢
    · have := L.1; omega
    · exact rm _ L.1
  case f2 k => exact fun hk => rm _ (L hk)
  case f3 k => exact fun hk => rm _ (L hk)
  case f5 k => exact fun hk => rm _ (L hk)
  case f7 k => exact fun hk => rm _ (L hk)
  case f8 k => exact fun hk => rm _ (L hk)
  case f10 k => exact fun hk => rm _ (L hk)
  case f9 k c => exact fun hk => rm _ (L hk)
  case f4 k e i => exact ⟨fun hk => rm _ (L.1 hk), by rw [h1, h4]; exact L.2⟩
  case u2 k e => rw [h4]; exact L
  case u3 k e => rw [h4]; exact L

/-- a change of manager data that leaves the registry alone; what each kind of fact needs -/
theorem ELoc_mgr {σ σ' : St} {tk : Nat} {y : Th} (L : ELoc σ tk y)
    (hr : σ'.groups = σ.groups ∧ σ'.cur = σ.cur ∧ σ'.est = σ.est)
    (hhold : ∀ p, y.pc.holdG = some p → holdFacts σ tk p → holdFacts σ' tk p)
    (hscan : ∀ k e i, y.pc = .f4 k e i →
      (∀ j, j < i → j < σ.toks.length → σ.tokv (σ.toks.getD j 0) = e) →
      (∀ j, j < i → j < σ'.toks.length → σ'.tokv (σ'.toks.getD j 0) = e))
    (hupd : ∀ k e, (y.pc = .u2 k e ∨ y.pc = .u3 k e) → σ.tokv tk ≤ e → σ'.tokv tk ≤ e) : ELoc σ' tk y := by
  obtain ⟨h6, h7, h8⟩ := hr
  have rm : ∀ s, remFacts σ s → remFacts σ' s := by
    intro s h; simp only [remFacts, h6, h7, h8] at h ⊢; exact h
  obtain ⟨pc, g', v', outer, ff, pn, ng, ns, s, single, aux⟩ := y
  cases pc <;> simp only [ELoc] at L ⊢
  case g2 m h tl p i md => exact hhold p rfl L
  case a2 c => exact hhold c rfl L
  case rr3 c => exact ⟨by rw [h7]; exact L.1, rm _ L.2⟩
  case f1 k ob =>
    refine ⟨?_, fun hk => rm _ (L.2 hk)⟩
    cases ob <;> simp only [] at L ⊢
    · rw [h7]; exact L.1
    · exact rm _ L.1
  case f2 k => exact fun hk => rm _ (L hk)
  case f3 k => exact fun hk => rm _ (L hk)
  case f5 k => exact fun hk => rm _ (L hk)
  case f7 k => exact fun hk => rm _ (L hk)
  case f8 k => exact fun hk => rm _ (L hk)
  case f10 k => exact fun hk => rm _ (L hk)
  case f9 k c => exact fun hk => rm _ (L hk)
  case f4 k e i => exact ⟨fun hk => rm _ (L.1 hk), hscan k e i rfl L.2⟩
  case u2 k e => exact hupd k e (Or.inl rfl) L
  case u3 k e => exact hupd k e (Or.inr rfl) L

end MQ
