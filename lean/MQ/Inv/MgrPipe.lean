import MQ.Inv.MgrMain
/-! # The retirement pipeline: nothing passed to `free` is ever lost, nothing else is ever released -/
set_option linter.unusedSimpArgs false
set_option linter.unusedVariables false
namespace MQ

/-- everything that was passed to `free` and is waiting, pending or released -/
def Mgr.pipe (m : Mgr) : List Obj := m.wtf ++ m.tofree ++ m.freed

/-- the object a step passes to `free` -/
def PC.retires : PC → List Obj
  | .f1 _ ob => [ob]
  | _ => []

theorem mgrDone_pipe (σ : St) (t : Nat) (k : MK) : (mgrDone σ t k).mgr.pipe = σ.mgr.pipe := by
  rw [mgrDone_mgr]

theorem freeTail_pipe (σ : St) (t : Nat) (k : MK) : (freeTail σ t k).mgr.pipe = σ.mgr.pipe := by
  rcases freeTail_cases σ t k with ⟨hm, _⟩ | ⟨hm, _⟩ <;> rw [hm] <;> rfl

theorem freeEnd_pipe (σ : St) (t : Nat) (k : MK) : (freeEnd σ t k).mgr.pipe = σ.mgr.pipe := by
  rw [(freeEnd_cases σ t k).1]; rfl

/-- `add_freeable` overwrites the pending batch — but the batch is empty whenever that happens -/
theorem batch_empty_at_f8 {σ : St} (I : MInvS σ) (t : Nat) (k : MK) (hpc : (σ.th t).pc = .f8 k)
    (hie : σ.iepoch = σ.epoch) : σ.tofree = [] := by
  have hown := (I.ownM t).mp (by rw [hpc]; rfl)
  apply I.idle hie
  intro u k' c hq
  by_cases e : u = t
  · subst e; rw [hpc] at hq; cases hq
  · have := other_not_held I hown e
    rw [hq] at this; cases this

/-- one `run` step: the pipeline grows by exactly the object passed to `free` (if any); as a multiset nothing
else enters or leaves it -/
theorem pipe_stepRun {σ : St} (t inp : Nat) (I : MInvS σ) :
    ((stepRun σ t inp).2.mgr.pipe).Perm (σ.mgr.pipe ++ (σ.th t).pc.retires) := by
  cases hs : (σ.th t).pc.mgrSrc
  · rw [stepRun_mgr_same _ _ _ hs]
    have : (σ.th t).pc.retires = [] := by
      cases hpc : (σ.th t).pc <;> rw [hpc] at hs <;> simp [PC.mgrSrc, PC.retires] at hs ⊢
    rw [this]; simp
  · cases hpc : (σ.th t).pc <;> rw [hpc] at hs <;> (try (simp [PC.mgrSrc] at hs; done))
    case u1 k => simp only [stepRun, hpc, PC.retires]; simp [Mgr.pipe, St.mgr, St.goto, St.flush, St.setTh]
    case u2 k e =>
      simp only [stepRun, hpc, PC.retires]; split
      · rw [mgrDone_pipe]; simp [Mgr.pipe, St.mgr, St.flush, St.setTh]
      · simp [Mgr.pipe, St.mgr, St.goto, St.flush, St.setTh]
    case u3 k e =>
      simp only [stepRun, hpc, PC.retires]; rw [mgrDone_pipe]; simp [Mgr.pipe, St.mgr, St.flush, St.setTh]
    case gt1 k => simp only [stepRun, hpc, PC.retires]; simp [Mgr.pipe, St.mgr, St.goto, St.flush, St.setTh]
    case gt2 k =>
      simp only [stepRun, hpc, PC.retires]; rw [mgrDone_pipe]; simp [Mgr.pipe, St.mgr, St.flush, St.setTh]
    case f1 k ob =>
      simp only [stepRun, hpc, PC.retires]
      simp only [Mgr.pipe, St.mgr, St.goto, St.flush, St.setTh]
      simp only [List.append_assoc]
      refine List.Perm.append_left _ ?_
      rw [← List.append_assoc σ.tofree]
      exact List.perm_append_comm
    case f2 k =>
      simp only [stepRun, hpc, PC.retires]; split
      · simp [Mgr.pipe, St.mgr, St.goto, St.flush, St.setTh]
      · rw [freeTail_pipe]; simp [Mgr.pipe, St.mgr, St.flush, St.setTh]
    case f3 k =>
      simp only [stepRun, hpc, PC.retires]; split
      · rw [freeTail_pipe]; simp [Mgr.pipe, St.mgr, St.flush, St.setTh]
      · simp [Mgr.pipe, St.mgr, St.goto, St.flush, St.setTh]
    case f4 k e i =>
      simp only [stepRun, hpc, PC.retires]; split
      · split
        · simp [Mgr.pipe, St.mgr, St.goto, St.flush, St.setTh]
        · simp only [Mgr.pipe, St.mgr, St.goto, St.flush, St.setTh, List.append_nil]
          simp only [List.append_assoc]
          exact List.Perm.append_left _ (List.perm_append_comm)
      · rw [freeTail_pipe]; simp [Mgr.pipe, St.mgr, St.flush, St.setTh]
    case f5 k =>
      simp only [stepRun, hpc, PC.retires]; rw [freeTail_pipe]; simp [Mgr.pipe, St.mgr, St.flush, St.setTh]
    case f7 k =>
      simp only [stepRun, hpc, PC.retires]; split
      · simp [Mgr.pipe, St.mgr, St.goto, St.flush, St.setTh]
      · rw [freeEnd_pipe]; simp [Mgr.pipe, St.mgr, St.flush, St.setTh]
    case f8 k =>
      simp only [stepRun, hpc, PC.retires]; split
      · rename_i hie
        have := batch_empty_at_f8 I t k hpc hie
        simp [Mgr.pipe, St.mgr, St.goto, St.flush, St.setTh, this]
      · rw [freeEnd_pipe]; simp [Mgr.pipe, St.mgr, St.flush, St.setTh]
    case f9 k c => simp only [stepRun, hpc, PC.retires]; simp [Mgr.pipe, St.mgr, St.goto, St.flush, St.setTh]
    case f10 k =>
      simp only [stepRun, hpc, PC.retires]; rw [freeEnd_pipe]; simp [Mgr.pipe, St.mgr, St.flush, St.setTh]
    case rt1 kk => simp only [stepRun, hpc, PC.retires]; simp [Mgr.pipe, St.mgr, St.goto, St.flush, St.setTh]
    case tdm =>
      simp only [stepRun, hpc, PC.retires]
      simp only [Mgr.pipe, St.mgr, St.goto, St.flush, St.setTh, List.append_nil, List.nil_append]
      simp only [List.append_assoc]
      exact (List.perm_append_comm (l₁ := σ.freed) (l₂ := σ.wtf ++ σ.tofree)).trans (by simp)

/-- objects passed to `free` along a label sequence -/
def retiredBy (σ : St) : List Label → List Obj
  | [] => []
  | l :: ls =>
      (match l with
       | .run t _ => (σ.th t).pc.retires
       | _ => []) ++ retiredBy (step σ l) ls

theorem pipe_step {σ : St} (l : Label) (I : MInvS σ) :
    ((step σ l).mgr.pipe).Perm (σ.mgr.pipe ++ (match l with | .run t _ => (σ.th t).pc.retires | _ => [])) := by
  cases l
  case run t inp => exact pipe_stepRun t inp I
  case call t o g v ng ns =>
    simp only [step]; split
    · rw [callEntry_mgr, callPrep_mgr]; simp
    · simp
  case retn t =>
    simp only [step]; split
    · repeat' split
      all_goals simp [mgr_setHd, mgr_flush, mgr_goto]
    · simp
  case arc t =>
    simp only [step]; split
    · rw [arcStep_mgr]; simp
    · simp
  case wake t =>
    simp only [step]; split
    · split <;> simp [mgr_goto]
    · simp

/-- along any execution: the pipeline is, as a multiset, what it was plus everything passed to `free` -/
theorem pipe_lockRun {σ σ' : St} {ls : List Label} (r : LockRun σ ls σ') (I : MInvS σ) :
    (σ'.mgr.pipe).Perm (σ.mgr.pipe ++ retiredBy σ ls) := by
  induction r with
  | nil => simp [retiredBy]
  | @cons σ0 l ls' σ1 h _ ih =>
    have I' := mgi_step l I h
    have h1 := ih I'
    have h2 := pipe_step l I
    simp only [retiredBy]
    refine h1.trans ?_
    rw [← List.append_assoc]
    exact List.Perm.append_right _ h2

end MQ
