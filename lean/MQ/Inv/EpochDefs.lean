import MQ.Inv.MgrPipe
import MQ.Inv.HsFrame
import MQ.Inv.RegInv
/-!
# EpochInv — deferred reclamation is memory safe: definitions and frame lemmas

A thread *holds* a reader group from the moment it loaded the group pointer until it is done dereferencing it
(the writer's scan `g2`, `add_stream`'s copy `a2`). The invariant says that a held group, and the position
objects of all streams in it, are not released, and that while they sit in the pending batch the holder's
token is behind the epoch the batch waits for — so the batch cannot be released.
-/
set_option linter.unusedSimpArgs false
namespace MQ

/-- the group a thread is dereferencing -/
def PC.holdG : PC → Option Nat
  | .g2 _ _ _ p _ _ => some p
  | .a2 c => some c
  | _ => none

/-- object `x` cannot be released while the token `tk` stays as it is -/
def prot (σ : St) (tk : Nat) (x : Obj) : Prop :=
  x ∉ σ.freed ∧ (x ∈ σ.tofree → σ.tokv tk ≤ σ.iepoch)

def holdFacts (σ : St) (tk p : Nat) : Prop :=
  tk ∈ σ.toks ∧ prot σ tk (.grp p) ∧ ∀ sid, sid ∈ σ.groups p → prot σ tk (.posO sid)

/-- stream `s` has been removed from the published list for good -/
def remFacts (σ : St) (s : Nat) : Prop := σ.est s = true ∧ s ∉ σ.groups σ.cur

def ELoc (σ : St) (tk : Nat) (x : Th) : Prop :=
  match x.pc with
  | .g2 _ _ _ p _ _ => holdFacts σ tk p
  | .a2 c => holdFacts σ tk c
  | .rr3 c => c < σ.cur ∧ remFacts σ x.s
  | .f1 k ob =>
      (match ob with
       | .grp c => c < σ.cur
       | .posO s' => remFacts σ s'
       | .tokO _ => True) ∧ (k.isRm1 = true → remFacts σ x.s)
  | .f2 k | .f3 k | .f5 k | .f7 k | .f8 k | .f10 k => k.isRm1 = true → remFacts σ x.s
  | .f4 k e i =>
      (k.isRm1 = true → remFacts σ x.s) ∧ ∀ j, j < i → j < σ.toks.length → σ.tokv (σ.toks.getD j 0) = e
  | .f9 k _ => k.isRm1 = true → remFacts σ x.s
  | .u2 _ e | .u3 _ e => σ.tokv tk ≤ e
  | _ => True

structure EInv (σ : St) : Prop where
  pipeG : ∀ k, Obj.grp k ∈ σ.mgr.pipe → k < σ.cur
  pipeP : ∀ s, Obj.posO s ∈ σ.mgr.pipe → remFacts σ s
  loc : ∀ t, ELoc σ (tokOf σ t) (σ.th t)

/-- program points with a non-trivial `ELoc` -/
def PC.ePhase : PC → Bool
  | .g2 _ _ _ _ _ _ | .a2 _ | .rr3 _ | .f1 _ _ | .f2 _ | .f3 _ | .f4 _ _ _ | .f5 _ | .f7 _ | .f8 _ | .f9 _ _ | .f10 _
  | .u2 _ _ | .u3 _ _ => true
  | _ => false

/-- sources whose step is treated one by one -/
def PC.eSrc : PC → Bool
  | .g1 _ _ _ | .g2 _ _ _ _ _ _ | .a1 | .a2 _ | .a3 _ _ _ | .rr1 | .rr2 _ _ | .rr3 _ => true
  | pc => pc.mgrSrc

theorem ELoc_of_not_phase {σ : St} {tk : Nat} {x : Th} (h : x.pc.ePhase = false) : ELoc σ tk x := by
  obtain ⟨pc, g', v', outer, ff, pn, ng, ns, s, single, aux⟩ := x
  cases pc <;> first | (simp [PC.ePhase] at h; done) | simp only [ELoc]

/-! ### targets of steps outside `eSrc` -/

macro "eplain_tac" : tactic =>
  `(tactic| ((try simp only []); repeat' split) <;> first | rfl | (simp [PC.ePhase, St.goto, St.gotoF, St.setTh, St.setHd, St.flush, upd, *]; done))

section
variable (σ : St) (t : Nat)
@[simp] theorem afterNotify_eplain (k : Nat) : ((afterNotify σ t k).th t).pc.ePhase = false := by
  unfold afterNotify; eplain_tac
@[simp] theorem teardownStart_eplain (r : Res) : ((teardownStart σ t r).th t).pc.ePhase = false := by
  unfold teardownStart; eplain_tac
@[simp] theorem arcStep_eplain (r : Res) : ((arcStep σ t r).th t).pc.ePhase = false := by
  unfold arcStep; eplain_tac
@[simp] theorem startNotify_eplain (k : Nat) : ((startNotify σ t k).th t).pc.ePhase = false := by
  unfold startNotify; split <;> first | exact afterNotify_eplain σ t k | eplain_tac
@[simp] theorem sendDone_eplain (r : Res) : ((sendDone σ t r).th t).pc.ePhase = false := by
  unfold sendDone; (try simp only []); repeat' split
  all_goals first | exact startNotify_eplain σ t _ | eplain_tac
@[simp] theorem startWait_eplain (j seq : Nat) : ((startWait σ t j seq).th t).pc.ePhase = false := by
  unfold startWait; eplain_tac
@[simp] theorem recvDone_eplain (r : Res) (j : Nat) : ((recvDone σ t r j).th t).pc.ePhase = false := by
  unfold recvDone; eplain_tac
@[simp] theorem waitDone_eplain : ((waitDone σ t).th t).pc.ePhase = false := by
  unfold waitDone; eplain_tac
@[simp] theorem checkDone_eplain (j seq : Nat) (ph : WPh) (b : Bool) : ((checkDone σ t j seq ph b).th t).pc.ePhase = false := by
  unfold checkDone; repeat' split
  all_goals first | exact waitDone_eplain _ t | eplain_tac
@[simp] theorem recvDropTail_eplain : ((recvDropTail σ t).th t).pc.ePhase = false := by
  unfold recvDropTail; (try simp only []); repeat' split
  all_goals first | (simp [teardownStart, PC.ePhase, St.goto, St.setTh, upd]; done) | eplain_tac
@[simp] theorem sendDropTail_eplain : ((sendDropTail σ t).th t).pc.ePhase = false := by
  unfold sendDropTail; repeat' split
  all_goals first | exact teardownStart_eplain σ t _ | eplain_tac
@[simp] theorem mgrDone_sendStart_eplain : ((mgrDone σ t .sendStart).th t).pc.ePhase = false := by
  unfold mgrDone; (try simp only []); repeat' split
  all_goals first | exact sendDone_eplain σ t _ | eplain_tac
@[simp] theorem startNotify2_eplain : ((stepRun.startNotify2 σ t).th t).pc.ePhase = false := by
  unfold stepRun.startNotify2; eplain_tac
end

@[simp] theorem stepLa2_eplain (σ0 σ : St) (t : Nat) (x : Th) (s : Nat) :
    ((stepRun.stepLa2 σ0 σ t x s).2.th t).pc.ePhase = false := by
  unfold stepRun.stepLa2; simp only []; repeat' split
  all_goals (simp [PC.ePhase, St.goto, St.setTh, upd])

set_option maxHeartbeats 2000000 in
theorem stepRun_eplain (σ : St) (t inp : Nat) (h : (σ.th t).pc.eSrc = false) :
    ((stepRun σ t inp).2.th t).pc.ePhase = false := by
  unfold stepRun
  simp only []
  split
  all_goals (first | (rename_i heq; rw [heq] at h; simp [PC.eSrc, PC.mgrSrc] at h; done) | skip)
  all_goals (repeat' split)
  all_goals first
    | (simp only [sendDone_eplain, recvDone_eplain, checkDone_eplain, startWait_eplain, afterNotify_eplain,
        startNotify_eplain, teardownStart_eplain, mgrDone_sendStart_eplain, startNotify2_eplain, stepLa2_eplain]; done)
    | (simp [PC.ePhase, th_goto, th_gotoF, th_setTh, th_flush, th_setHd]; done)
    | (rename_i heq; simp [heq, PC.ePhase]; done)
    | (rename_i heq _; simp [heq, PC.ePhase]; done)
    | (simp [PC.ePhase, St.goto, St.gotoF, St.setTh, St.setHd, St.flush, upd, teardownStart]; done)

end MQ
