import MQ.Inv.ModeCall
import MQ.Inv.RingMain
/-!
# ModeInv — main theorems

`MInv` (together with the unconditional `RegInv`) is inductive over every label of every execution that does not
use the two futures handle conversions. Hence `ModeOK` — the hypothesis of the ring argument that the
single-writer / single-consumer fast paths are only taken by the only counted handle — holds in all these
executions; the ring invariant then needs only the exclusions of the two known findings (F1, F12).
-/
set_option linter.unusedSimpArgs false
set_option linter.unusedVariables false
namespace MQ

theorem minv_stepRun {σ : St} (x inp : Nat) (M : MInv σ) (R : RegInv σ) : MInv (stepRun σ x inp).2 := by
  by_cases hs : (σ.th x).pc.hSrc = true
  · cases hpc : (σ.th x).pc <;> rw [hpc] at hs <;> first | (cases hs; done) | skip
    case m1 => exact minv_run_uni x inp M (Or.inl hpc)
    case la1 => exact minv_run_uni x inp M (Or.inr hpc)
    case cs1 => exact minv_run_cs1 x inp M hpc
    case ds1 => exact minv_run_ds1 x inp M hpc
    case cr1 => exact minv_run_cr1 x inp M hpc
    case dr1 => exact minv_run_dr1 x inp M R hpc
    case a3 c raw ng =>
      by_cases hcur : σ.cur = c
      · subst hcur; exact minv_run_a3_ok x inp raw ng M R hpc
      · exact minv_run_a3_fail x inp c raw ng M hpc hcur
  · have hs' : (σ.th x).pc.hSrc = false := by simpa using hs
    by_cases hi : (σ.th x).pc = .isg
    · exact minv_run_isg x inp M hi
    · by_cases hi1 : (σ.th x).pc = .is1
      · exact minv_run_is1 x inp M hi1
      · exact minv_run_plain x inp M R hs' hi hi1

/-- the label does not start one of the two futures handle conversions -/
def Label.noConv : Label → Prop
  | .call _ o _ _ _ _ => o.futConv = false
  | _ => True

theorem minv_step {σ : St} (l : Label) (M : MInv σ) (R : RegInv σ) (h : l.noConv) : MInv (step σ l) := by
  cases l
  case call t o g v ng ns => exact minv_call t o g v ng ns M R h
  case run x inp => exact minv_stepRun x inp M R
  case retn t => exact minv_retn t M
  case arc t => exact minv_arc t M
  case wake t => exact minv_wake t M

theorem minv_init (N : Nat) (bcast : Bool) (wait : WaitK) (fut : Bool) : MInv (init N bcast wait fut) := by
  refine ⟨?_, ?_, ?_, ?_, ?_, ?_, ?_, ?_, ?_, ?_, ?_, ?_, ?_⟩
  · simp [init]
  · intro s; simp [init, upd]; split <;> simp [*]
  · intro t; exact TLoc_idle (by simp [init])
  · intro t u _ ht; simp [init] at ht
  · intro g hg _; simp [init] at hg ⊢; exact hg.symm
  · intro g s hg _; simp [init] at hg ⊢; obtain ⟨h1, h2⟩ := hg; subst h1 h2; rfl
  · intro s hs; simp [init, reg, St.ring, upd] at hs ⊢; exact hs
  · intro g ha hb hc; by_cases h1 : g = 1 <;> by_cases h0 : g = 0 <;> simp_all [init, upd]
  · intro g ha hb hc; by_cases h1 : g = 1 <;> by_cases h0 : g = 0 <;> simp_all [init, upd]
  · intro g ha; by_cases h1 : g = 1 <;> by_cases h0 : g = 0 <;> simp_all [init, upd]
  · intro g hg; simp [init, upd] at hg ⊢; simp [hg]
  · intro g s hg; simp [init] at hg; obtain ⟨h1, h2⟩ := hg; subst h1 h2; simp [init, upd]
  · intro t u _ ht; exact absurd ht (not_creating_idle (by simp [init]))

/-- both handle-accounting invariants along an execution without the futures handle conversions -/
theorem minv_run (σ : St) (ls : List Label) (h : ∀ l ∈ ls, l.noConv) (M : MInv σ) (R : RegInv σ) :
    MInv (runFrom σ ls) ∧ RegInv (runFrom σ ls) := by
  induction ls generalizing σ with
  | nil => exact ⟨M, R⟩
  | cons l ls ih =>
      exact ih _ (fun l' hl' => h l' (List.mem_cons_of_mem _ hl')) (minv_step l M R (h l (List.mem_cons_self ..)))
        (reginv_step l R)

/-- **`ModeOK` is a theorem**: in every execution from an initial state that does not use `into_single` /
`into_multi` of the futures receivers, a thread on the single-writer path is the only thread in `try_send`, a
thread on the single-consumer path of a stream is the only thread receiving on it, and every receiving or
stream-adding thread's stream is on the list -/
theorem modeOK_run (N : Nat) (bcast : Bool) (wait : WaitK) (fut : Bool) (ls : List Label) (h : ∀ l ∈ ls, l.noConv) :
    ModeOK (runFrom (init N bcast wait fut) ls) :=
  modeOK_of_minv (minv_run _ ls h (minv_init N bcast wait fut) (reginv_init N bcast wait fut)).1

/-- what is left of `StepOK` once `ModeOK` is proved: the exclusions of the two known findings -/
def StepOK' (σ : St) : Label → Prop
  | .run t inp =>
      (∀ c raw ng, (σ.th t).pc = .a3 c raw ng → σ.cur = c → σ.pos (σ.th t).s = raw) ∧
      (stepRun σ t inp).2.groups (stepRun σ t inp).2.cur ≠ []
  | .call _ o _ _ _ _ => o.futConv = false
  | _ => True

inductive NRun : St → List Label → St → Prop
  | nil (σ : St) : NRun σ [] σ
  | cons {σ : St} {l : Label} {ls : List Label} {σ' : St} :
      StepOK' σ l → NRun (step σ l) ls σ' → NRun σ (l :: ls) σ'

theorem stepOK_of {σ : St} {l : Label} (M : MInv σ) (h : StepOK' σ l) : StepOK σ l ∧ l.noConv := by
  cases l
  case run t inp => exact ⟨⟨modeOK_of_minv M, h.1, h.2⟩, trivial⟩
  case call t o g v ng ns => exact ⟨trivial, h⟩
  all_goals exact ⟨trivial, trivial⟩

theorem goodRun_of_nrun {σ σ' : St} {ls : List Label} (r : NRun σ ls σ') (M : MInv σ) (R : RegInv σ) :
    GoodRun σ ls σ' ∧ MInv σ' := by
  induction r with
  | nil σ => exact ⟨.nil σ, M⟩
  | cons h _ ih =>
      obtain ⟨h1, h2⟩ := stepOK_of M h
      obtain ⟨g, m⟩ := ih (minv_step _ M R h2) (reginv_step _ R)
      exact ⟨.cons h1 g, m⟩

/-- the ring invariant without a mode hypothesis -/
theorem rinv_nrun {σ σ' : St} {ls : List Label} (r : NRun σ ls σ') (I : RInv σ) (M : MInv σ) (R : RegInv σ) :
    RInv σ' ∧ MInv σ' := by
  obtain ⟨g, m⟩ := goodRun_of_nrun r M R
  exact ⟨rinv_goodRun g I, m⟩

end MQ
