import MQ.Inv.PinLemmas
/-! # PinInv — frame: which steps touch a pin count or the torn flag -/
set_option linter.unusedSimpArgs false
namespace MQ

structure PAux where
  ref : Nat → Nat
  torn : Bool
  bcast : Bool

def St.paux (σ : St) : PAux := { ref := σ.ref, torn := σ.torn, bcast := σ.bcast }

@[simp] theorem paux_setTh (σ : St) (t f) : (σ.setTh t f).paux = σ.paux := rfl
@[simp] theorem paux_goto (σ : St) (t pc) : (σ.goto t pc).paux = σ.paux := rfl
@[simp] theorem paux_gotoF (σ : St) (t pc f) : (σ.gotoF t pc f).paux = σ.paux := rfl
@[simp] theorem paux_setHd (σ : St) (g f) : (σ.setHd g f).paux = σ.paux := rfl
@[simp] theorem paux_flush (σ : St) (t) : (σ.flush t).paux = σ.paux := rfl

section helpers
variable (σ : St) (t : Nat)
@[simp] theorem afterNotify_paux (k : Nat) : (afterNotify σ t k).paux = σ.paux := by
  unfold afterNotify; split <;> rfl
@[simp] theorem teardownStart_paux (r : Res) : (teardownStart σ t r).paux = σ.paux := rfl
@[simp] theorem arcStep_paux (r : Res) : (arcStep σ t r).paux = σ.paux := by
  unfold arcStep; simp only []; repeat' split
  all_goals rfl
@[simp] theorem startNotify_paux (k : Nat) : (startNotify σ t k).paux = σ.paux := by
  unfold startNotify; split <;> first | rfl | exact afterNotify_paux σ t k
@[simp] theorem sendDone_paux (r : Res) : (sendDone σ t r).paux = σ.paux := by
  unfold sendDone; simp only []; repeat' split
  all_goals first | exact startNotify_paux σ t _ | rfl
@[simp] theorem startWait_paux (j seq : Nat) : (startWait σ t j seq).paux = σ.paux := by
  unfold startWait; simp only []; repeat' split
  all_goals rfl
@[simp] theorem recvDone_paux (r : Res) (j : Nat) : (recvDone σ t r j).paux = σ.paux := by
  unfold recvDone; simp only []; repeat' split
  all_goals rfl
@[simp] theorem waitDone_paux : (waitDone σ t).paux = σ.paux := by
  unfold waitDone; simp only []; repeat' split
  all_goals rfl
@[simp] theorem checkDone_paux (j seq : Nat) (ph : WPh) (b : Bool) : (checkDone σ t j seq ph b).paux = σ.paux := by
  unfold checkDone; repeat' split
  all_goals first | rfl | exact waitDone_paux _ t
@[simp] theorem recvDropTail_paux : (recvDropTail σ t).paux = σ.paux := by
  unfold recvDropTail; simp only []; repeat' split
  all_goals rfl
@[simp] theorem sendDropTail_paux : (sendDropTail σ t).paux = σ.paux := by
  unfold sendDropTail; repeat' split
  all_goals rfl
@[simp] theorem mgrDone_paux (k : MK) : (mgrDone σ t k).paux = σ.paux := by
  unfold mgrDone; simp only []; repeat' split
  all_goals first | rfl | exact sendDone_paux σ t _ | (simp only [recvDropTail_paux, sendDropTail_paux]; done) | (simp only [recvDropTail_paux, sendDropTail_paux]; rfl)
@[simp] theorem freeEnd_paux (k : MK) : (freeEnd σ t k).paux = σ.paux := by
  unfold freeEnd; (simp only [mgrDone_paux]; try rfl)
@[simp] theorem freeTail_paux (k : MK) : (freeTail σ t k).paux = σ.paux := by
  unfold freeTail; repeat' split
  all_goals first | rfl | (simp only [mgrDone_paux]; try rfl)
@[simp] theorem startNotify2_paux : (stepRun.startNotify2 σ t).paux = σ.paux := rfl
end helpers

@[simp] theorem stepLa2_paux (σ0 σ : St) (t : Nat) (x : Th) (s : Nat) : (stepRun.stepLa2 σ0 σ t x s).2.paux = σ.paux := by
  unfold stepRun.stepLa2; simp only []; repeat' split
  all_goals rfl

/-- sources whose step may change a pin count or the torn flag -/
def PC.pauxSrc : PC → Bool
  | .r4 _ | .r6 _ | .r8 _ _ | .rc _ _ _ | .vw _ _ => true
  | _ => false

set_option maxHeartbeats 2000000 in
theorem stepRun_paux_same (σ : St) (t inp : Nat) (h : (σ.th t).pc.pauxSrc = false) :
    (stepRun σ t inp).2.paux = σ.paux := by
  unfold stepRun
  simp only []
  split
  all_goals (first | (rename_i heq; rw [heq] at h; simp [PC.pauxSrc] at h; done) | skip)
  all_goals (repeat' split)
  all_goals first
    | (simp only [sendDone_paux, recvDone_paux, afterNotify_paux, startNotify_paux, teardownStart_paux,
        startWait_paux, waitDone_paux, checkDone_paux, stepLa2_paux, startNotify2_paux, mgrDone_paux, freeTail_paux,
        freeEnd_paux, recvDropTail_paux, sendDropTail_paux,
        paux_setTh, paux_goto, paux_gotoF, paux_setHd, paux_flush]; done)
    | (simp only [sendDone_paux, recvDone_paux, afterNotify_paux, startNotify_paux, teardownStart_paux,
        startWait_paux, waitDone_paux, checkDone_paux, stepLa2_paux, startNotify2_paux, mgrDone_paux, freeTail_paux,
        freeEnd_paux, recvDropTail_paux, sendDropTail_paux,
        paux_setTh, paux_goto, paux_gotoF, paux_setHd, paux_flush] <;> rfl)
    | rfl


end MQ
